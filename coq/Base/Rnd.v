(* Executable round-to-nearest-even of a rational to p significant bits (unbounded
   exponent): the arithmetic of CPython floats (p = 53) and of mpmath at
   precision p, away from overflow/underflow.  Used only to execute models. *)
From Coq Require Import ZArith QArith Qround.
Open Scope Z_scope.

Definition Zrhe (n d : Z) : Z :=
  let q := n / d in let r := n mod d in
  match Z.compare (2 * r) d with Lt => q | Gt => q + 1 | Eq => if Z.even q then q else q + 1 end.
Definition pow2 (e : Z) : Z := 2 ^ e.
(* floor(log2(a/d)) for a, d > 0 *)
Definition ilog2q (a d : Z) : Z :=
  let e := Z.log2 a - Z.log2 d in
  if 0 <=? e then (if a <? d * pow2 e then e - 1 else e)
  else (if a * pow2 (- e) <? d then e - 1 else e).
Definition mkq (m e : Z) : Q :=
  if 0 <=? e then inject_Z (m * pow2 e) else Qred (Qmake m (Z.to_pos (pow2 (- e)))).
Definition round_ne (p : Z) (x : Q) : Q :=
  let n := Qnum x in let d := Zpos (Qden x) in
  if n =? 0 then 0%Q else
  let a := Z.abs n in
  let e := ilog2q a d - (p - 1) in
  let m := if 0 <=? e then Zrhe a (d * pow2 e) else Zrhe (a * pow2 (- e)) d in
  mkq (Z.sgn n * m) e.
Definition rnd53 := round_ne 53.

(* Square root rounded to nearest (ties to even) at p bits: the integer square root at the scale 2^-K with a sticky bit - the midpoint of
   the interval of width 2^-K that contains the root, or the root itself when it is a multiple of 2^-K - then round_ne.  This is the
   correctly rounded root whenever half an ulp of the result is more than 2^-K (for p = 103, K = 110: every x >= 1/4). *)
Definition sqrt_approx (K : Z) (x : Q) : Q :=
  let t := (x * inject_Z (4 ^ K))%Q in
  let f := Qfloor t in
  let s := Z.sqrt f in
  let exact := (s * s =? f) && Qeq_bool (inject_Z f) t in
  (inject_Z (2 * s + (if exact then 0 else 1)) / inject_Z (2 ^ (K + 1)))%Q.
Definition sqrt_ne (K p : Z) (x : Q) : Q := round_ne p (sqrt_approx K x).
