(* Python str operations on ASCII text, as lists of code points.  Each function mirrors the
   CPython behaviour on the stated domain (ASCII); validated against CPython by the glue test
   of the harness (tools/harness/props/pystr_glue.py) and by every string-carrying correspondence. *)
From Coq Require Import ZArith QArith List Bool.
Import ListNotations.
Open Scope Z_scope.

Notation text := (list Z).

Fixpoint text_eqb (a b : text) : bool :=
  match a, b with [], [] => true | x :: a', y :: b' => (x =? y) && text_eqb a' b' | _, _ => false end.

(* str.isspace / what str.strip() and str.split() treat as whitespace: every code point CPython's _PyUnicode_IsWhitespace accepts
   (the harness checks this table against str.isspace over the whole code-point range on every run) *)
Definition is_ws (c : Z) : bool :=
  ((9 <=? c) && (c <=? 13)) || ((28 <=? c) && (c <=? 32)) || (c =? 133) || (c =? 160) || (c =? 5760) ||
  ((8192 <=? c) && (c <=? 8202)) || (c =? 8232) || (c =? 8233) || (c =? 8239) || (c =? 8287) || (c =? 12288).

Fixpoint lstrip (s : text) : text := match s with c :: t => if is_ws c then lstrip t else s | [] => [] end.
Definition rstrip (s : text) : text := rev (lstrip (rev s)).
Definition strip (s : text) : text := rstrip (lstrip s).

Definition lower_c (c : Z) : Z := if (65 <=? c) && (c <=? 90) then c + 32 else c.
Definition lower (s : text) : text := map lower_c s.

Fixpoint startswith (s p : text) : bool :=
  match p, s with
  | [], _ => true
  | a :: p', b :: s' => (a =? b) && startswith s' p'
  | _, [] => false
  end.
Definition endswith (s p : text) : bool := startswith (rev s) (rev p).
Fixpoint contains (s p : text) : bool := startswith s p || match s with [] => false | _ :: t => contains t p end.   (* p in s *)

(* s.find(p, start): index of the first occurrence at or after start, -1 if none *)
Fixpoint find_from (s p : text) (i : Z) : Z :=
  if startswith s p then i else match s with [] => -1 | _ :: t => find_from t p (i + 1) end.
Definition find (s p : text) (start : Z) : Z :=
  let r := find_from (skipn (Z.to_nat start) s) p start in r.

(* s[a:b] for 0 <= a, b (no negative indices) *)
Definition slice (s : text) (a b : Z) : text := firstn (Z.to_nat (b - a)) (skipn (Z.to_nat a) s).
Definition slice_from (s : text) (a : Z) : text := skipn (Z.to_nat a) s.
(* s[-n:] and s[:-n] *)
Definition last_n (s : text) (n : nat) : text := skipn (length s - n) s.
Definition drop_last (s : text) (n : nat) : text := firstn (length s - n) s.

(* s.replace(c, r) for one-character c *)
Fixpoint replace1 (c : Z) (r : text) (s : text) : text :=
  match s with [] => [] | x :: t => if x =? c then r ++ replace1 c r t else x :: replace1 c r t end.

(* s.split() : split on runs of whitespace, no empty fields *)
Fixpoint split_ws_aux (s : text) (cur : text) : list text :=
  match s with
  | [] => if match cur with [] => true | _ => false end then [] else [rev cur]
  | c :: t => if is_ws c then (match cur with [] => split_ws_aux t [] | _ => rev cur :: split_ws_aux t [] end)
              else split_ws_aux t (c :: cur)
  end.
Definition split_ws (s : text) : list text := split_ws_aux s [].

(* s.split(sep) for one-character sep: keeps empty fields *)
Fixpoint split_c_aux (sep : Z) (s : text) (cur : text) : list text :=
  match s with
  | [] => [rev cur]
  | c :: t => if c =? sep then rev cur :: split_c_aux sep t [] else split_c_aux sep t (c :: cur)
  end.
Definition split_c (sep : Z) (s : text) : list text := split_c_aux sep s [].
(* s.split(sep, 1) for a multi-character sep: (before, Some after) or (s, None) *)
Fixpoint split_once_aux (sep : text) (s : text) (cur : text) : text * option text :=
  if startswith s sep then (rev cur, Some (skipn (length sep) s))
  else match s with [] => (rev cur, None) | c :: t => split_once_aux sep t (c :: cur) end.
Definition split_once (sep s : text) : text * option text :=
  match sep with [] => (s, None) | _ => split_once_aux sep s [] end.

(* ---------- decimal numerals ---------- *)
Definition is_digit (c : Z) : bool := (48 <=? c) && (c <=? 57).
Fixpoint take_digits (s : text) (acc : Z) (n : Z) : Z * Z * text :=     (* value, count, rest *)
  match s with c :: t => if is_digit c then take_digits t (acc * 10 + (c - 48)) (n + 1) else (acc, n, s) | [] => (acc, n, []) end.
Definition take_sign (s : text) : Z * text :=
  match s with 43 :: t => (1, t) | 45 :: t => (-1, t) | _ => (1, s) end.

(* int(s) for [ws] [+-] digits [ws] *)
Definition parse_int (s : text) : option Z :=
  let '(sg, r) := take_sign (strip s) in
  let '(v, n, rest) := take_digits r 0 0 in
  if (0 <? n) && match rest with [] => true | _ => false end then Some (sg * v) else None.

(* exact value of a decimal / scientific numeral accepted by float(): [ws][+-](d+[.d*]|.d+)([eE][+-]d+)[ws];
   "inf", "nan" and underscores are outside this grammar (and outside the properties' domains) *)
Definition pow10 (e : Z) : Q := if 0 <=? e then inject_Z (10 ^ e) else (1 # Z.to_pos (10 ^ (- e))).
Definition parse_float (s : text) : option Q :=
  let '(sg, r) := take_sign (strip s) in
  let '(ip, ni, r1) := take_digits r 0 0 in
  let '(fp, nf, r2) := match r1 with 46 :: t => take_digits t 0 0 | _ => (0, 0, r1) end in
  if (ni + nf =? 0) then None else
  let mant := (inject_Z (sg * (ip * 10 ^ nf + fp)) * pow10 (- nf))%Q in
  match r2 with
  | [] => Some mant
  | c :: t =>
      if (c =? 101) || (c =? 69) then
        let '(esg, r3) := take_sign t in
        let '(ev, ne, r4) := take_digits r3 0 0 in
        if (0 <? ne) && match r4 with [] => true | _ => false end then Some (mant * pow10 (esg * ev))%Q else None
      else None
  end.

(* str(n) for an integer *)
Fixpoint digits_fuel (fuel : nat) (n : Z) (acc : text) : text :=
  match fuel with
  | O => acc
  | S f => if n <? 10 then (48 + n) :: acc else digits_fuel f (n / 10) ((48 + n mod 10) :: acc)
  end.
Definition str_of_Z (n : Z) : text := if n <? 0 then 45 :: digits_fuel 400 (- n) [] else digits_fuel 400 n [].
