(* Common definitions shared by all models: outcomes, boolean comparisons on Q,
   report helpers used by the generated cases_*.v files.  No axioms. *)
From Coq Require Export String Ascii.
From Coq Require Export ZArith QArith Qminmax Qround Qabs List Bool Lia Lqa.
Export ListNotations.

(* ---------- Python exceptions as explicit outcomes ---------- *)
Inductive exn :=
| ZeroDivisionError | TypeError | ValueError | AttributeError | IndexError
| KeyError | AssertionError | OutOfFuel | OtherError.

Inductive outcome (A : Type) := Ret (a : A) | Raise (e : exn).
Arguments Ret {A} _.
Arguments Raise {A} _.

Definition exn_code (e : exn) : Z :=
  match e with
  | ZeroDivisionError => 1 | TypeError => 2 | ValueError => 3 | AttributeError => 4
  | IndexError => 5 | KeyError => 6 | AssertionError => 7 | OutOfFuel => 8 | OtherError => 9
  end%Z.
Definition exn_eqb (a b : exn) : bool := Z.eqb (exn_code a) (exn_code b).

Definition bind {A B} (o : outcome A) (f : A -> outcome B) : outcome B :=
  match o with Ret a => f a | Raise e => Raise e end.

(* ---------- boolean comparisons on Q ---------- *)
Definition Qleb (a b : Q) : bool := Qle_bool a b.
Definition Qltb (a b : Q) : bool := negb (Qle_bool b a).
Definition Qeqb (a b : Q) : bool := Qeq_bool a b.

Lemma Qleb_iff a b : Qleb a b = true <-> (a <= b)%Q.
Proof. apply Qle_bool_iff. Qed.
Lemma Qltb_iff a b : Qltb a b = true <-> (a < b)%Q.
Proof.
  unfold Qltb. rewrite negb_true_iff. split; intros H.
  - apply Qnot_le_lt. intros C. apply Qle_bool_iff in C. congruence.
  - destruct (Qle_bool b a) eqn:E; [|reflexivity]. apply Qle_bool_iff in E. lra.
Qed.
Lemma Qltb_false a b : Qltb a b = false <-> (b <= a)%Q.
Proof.
  split; intros H.
  - apply Qnot_lt_le. intros C. apply Qltb_iff in C. congruence.
  - destruct (Qltb a b) eqn:E; [|reflexivity]. apply Qltb_iff in E. lra.
Qed.
Lemma Qleb_false a b : Qleb a b = false <-> (b < a)%Q.
Proof.
  split; intros H.
  - apply Qnot_le_lt. intros C. apply Qleb_iff in C. congruence.
  - destruct (Qleb a b) eqn:E; [|reflexivity]. apply Qleb_iff in E. lra.
Qed.
Lemma Qeqb_iff a b : Qeqb a b = true <-> (a == b)%Q.
Proof. apply Qeq_bool_iff. Qed.
Lemma Qeqb_false a b : Qeqb a b = false <-> ~ (a == b)%Q.
Proof.
  split; intros H.
  - intros C. apply Qeqb_iff in C. congruence.
  - destruct (Qeqb a b) eqn:E; [|reflexivity]. apply Qeqb_iff in E. contradiction.
Qed.

(* Python's min/max return the first argument on ties; on Q ties are ==, so
   only the value matters. *)
Definition pymin (a b : Q) : Q := if Qltb b a then b else a.
Definition pymax (a b : Q) : Q := if Qltb a b then b else a.

Lemma pymin_spec a b : (pymin a b <= a /\ pymin a b <= b /\ (pymin a b == a \/ pymin a b == b))%Q.
Proof. unfold pymin. destruct (Qltb b a) eqn:E; [apply Qltb_iff in E|apply Qltb_false in E]; (split; [lra|split; [lra|]]); [right|left]; reflexivity. Qed.
Lemma pymax_spec a b : (a <= pymax a b /\ b <= pymax a b /\ (pymax a b == a \/ pymax a b == b))%Q.
Proof. unfold pymax. destruct (Qltb a b) eqn:E; [apply Qltb_iff in E|apply Qltb_false in E]; (split; [lra|split; [lra|]]); [right|left]; reflexivity. Qed.

(* ---------- report helpers for the correspondence files ---------- *)
(* A case evaluates to a code: 0 = agrees and satisfies the spec;
   bit 0 set = model and implementation differ; bit 1 set = the implementation's
   output fails the (proved) spec checker. *)
Fixpoint report_from (i : Z) (codes : list Z) : list (Z * Z) :=
  match codes with
  | [] => []
  | c :: t => if (c =? 0)%Z then report_from (i + 1) t else (i, c) :: report_from (i + 1) t
  end.
(* (number of cases evaluated, number of non-zero codes, first 40 of them) *)
Definition report (codes : list Z) : Z * Z * list (Z * Z) :=
  let r := report_from 0 codes in (Z.of_nat (List.length codes), Z.of_nat (List.length r), firstn 40 r).
Definition code_of (mismatch specfail : bool) : Z :=
  ((if mismatch then 1 else 0) + (if specfail then 2 else 0))%Z.

(* number of cases whose tag satisfies a predicate; used to count non-trivial cases *)
Definition count_true (l : list bool) : Z := Z.of_nat (List.length (filter (fun b => b) l)).

(* strings travel as lists of byte codes *)
Fixpoint str_of (l : list nat) : string :=
  match l with [] => EmptyString | n :: t => String (ascii_of_nat n) (str_of t) end.
Fixpoint codes_of (s : string) : list nat :=
  match s with EmptyString => [] | String c t => nat_of_ascii c :: codes_of t end.
