(* calculate_lm with mpmath's rounding made explicit at the operations whose results are not representable in general: the square
   root of the discriminant, the sum -b +- sqrt, the division by 2a (two roots), and the division (2^31 p - c) / rate of the
   constant-rate case.  rnd is the rounding of one arithmetic operation at the working precision (dps = 30: 103 bits), sq the
   rounded square root.  Everything else in calculate_lm (products and sums of integers and half-integers below 2^100, the division
   by 2^31, floor, ceil, abs) is exact at that precision, as in Model/LmModel.v.  No proofs here. *)
From Coq Require Import ZArith QArith Qround Bool.
From Plotink Require Import Spec.Firmware Model.EbbCalc Model.LmModel.
Open Scope Z_scope.

(* mpmath.ceil((-b +- sqrt(D)) / (2a)) with b = b2/2, D = D4/4, 2a = accel *)
Definition lm_root_r (rnd sq : Q -> Q) (sg : bool) (b2 accel D4 : Z) : Z :=
  let b := (iz b2 / iz 2)%Q in let s := sq (iz D4 / iz 4)%Q in
  Qceiling (rnd (rnd (if sg then - b + s else - b - s)%Q / iz accel)%Q).

(* int(mpmath.ceil(n / d)) *)
Definition lm_cdiv_r (rnd : Q -> Q) (n d : Z) : Z := Qceiling (rnd (iz n / iz d)%Q).

Definition lm_time_r (rnd sq : Q -> Q) (rate accel : Z) (m : lm_mid) : Z :=
  if accel =? 0 then lm_cdiv_r rnd (B31 * m_pos m - m_adj m) rate
  else
    let b2 := 2 * rate + accel - 2 * Z.quot accel 2 in
    let c0 := m_adj m - m_padj m * B31 in
    let c := if m_rev m then (if accel <? 0 then c0 + 1 else c0 - 1) else c0 in
    let D4 := b2 * b2 - 8 * accel * c in
    if D4 <? 0 then 0 else
    let neg_root := lm_root_r rnd sq false b2 accel D4 in
    let pos_root := lm_root_r rnd sq true b2 accel D4 in
    let neg_root := if m_rev m && (neg_root <=? m_trev m) then -1 else neg_root in
    let pos_root := if m_rev m && (pos_root <=? m_trev m) then -1 else pos_root in
    let t0 := if 0 <? neg_root then neg_root else 0 in
    if 0 <? pos_root then (if 0 <? neg_root then (if pos_root <? neg_root then pos_root else t0) else pos_root) else t0.

Definition lm_model_r (rnd sq : Q -> Q) (steps rate accel : Z) (accum : option Z) : Z * Z * Z :=
  if (steps =? 0) || ((rate =? 0) && (accel =? 0)) then (0, 0, 0) else
  if (steps <? 0) && (rate <? 0) then (0, 0, 0) else
  let '(steps, rate, accel) := if steps <? 0 then (- steps, - rate, - accel) else (steps, rate, accel) in
  let m := lm_front steps rate accel accum in
  let T := lm_time_r rnd sq rate accel m in
  let r0 := rate - Z.quot accel 2 in
  (T, m_pos m, m_acc m + r0 * T + accel * (T * (T + 1) / 2) - B31 * m_pos m).
