(* plot_utils.checkLimits / checkLimitsTol / point_in_bounds / constrainLimits,
   line by line, exact arithmetic (the functions are duck-typed and run
   unchanged on fractions.Fraction).  No proofs here. *)
From Plotink Require Import Base.Prelude.
Open Scope Q_scope.

Definition checkLimits (v lo hi : Q) : Q * bool :=
  if Qltb hi v then (hi, true)
  else if Qltb v lo then (lo, true)
  else (v, false).

Definition checkLimitsTol (v lo hi tol : Q) : Q * bool :=
  if Qltb hi v then
    (if Qltb (hi + tol) v then (hi, true) else (hi, false))
  else if Qltb v lo then
    (if Qltb v (lo - tol) then (lo, true) else (lo, false))
  else (v, false).

Definition point_in_bounds (x y xmin ymin xmax ymax tol : Q) : bool :=
  if Qltb x (xmin - tol) then false
  else if Qltb y (ymin - tol) then false
  else if Qltb (xmax + tol) x then false
  else if Qltb (ymax + tol) y then false
  else true.

(* max(lower_bound, min(upper_bound, value)) *)
Definition constrainLimits (v lo hi : Q) : Q := pymax lo (pymin hi v).
