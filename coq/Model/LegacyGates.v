(* Legacy (function style) helpers that are gated on the firmware version: ebb_serial.min_version / query_nickname /
   write_nickname / reboot and ebb_motion.servo_timeout / queryVoltage, over an I/O script (repaired query). *)
From Plotink Require Import Base.Prelude Base.PyStr Model.Serial3 Model.SerialLegacy.
Open Scope Z_scope.

Definition VQ : text := T "V" ++ [13].
(* min_version(port, version_string): Ret None = "unable to determine" *)
Definition lmin_version (vs : text) (sc : script) : outcome (option bool) * list text * script :=
  let '(o, w, sc1) := lquery true true (Some VQ) sc in
  match o with
  | Raise e => (Raise e, w, sc1)
  | Ret None => (Raise AttributeError, w, sc1)
  | Ret (Some resp) =>
      match split_once (T "Firmware Version ") resp with
      | (_, None) => (Ret None, w, sc1)
      | (_, Some rest) =>
          match parse_version rest, parse_version vs with
          | Some have, Some want => (Ret (Some (ver_ge have want)), w, sc1)
          | _, _ => (Raise OtherError, w, sc1)                 (* packaging raises InvalidVersion *)
          end
      end
  end.
Definition truthy_ob (o : option bool) : bool := match o with Some true => true | _ => false end.

Inductive grv := GNone | GBool (b : bool) | GText (t : text).
Notation gres := (outcome grv * list text * script)%type.

Definition then_command (cmd : text) (ret : grv) (w : list text) (sc : script) : gres :=
  let '(_, w2, sc2) := lcommand true (Some cmd) sc in (Ret ret, w ++ w2, sc2).

(* ebb_motion.servo_timeout(port, timeout_ms, state) *)
Definition l_servo_timeout (ms : Z) (state : option Z) (sc : script) : gres :=
  let '(o, w, sc1) := lmin_version (T "2.6.0") sc in
  match o with
  | Raise e => (Raise e, w, sc1)
  | Ret v => if truthy_ob v
             then then_command (match state with None => cat [T "SR,"; str_of_Z ms; [13]] | Some s => cat [T "SR,"; str_of_Z ms; T ","; str_of_Z s; [13]] end) GNone w sc1
             else (Ret GNone, w, sc1)
  end.
(* ebb_motion.queryVoltage(port): True = no warning *)
Definition l_query_voltage (sc : script) : gres :=
  let '(o, w, sc1) := lmin_version (T "2.2.3") sc in
  match o with
  | Raise e => (Raise e, w, sc1)
  | Ret v =>
      if negb (truthy_ob v) then (Ret (GBool true), w, sc1) else
      let '(o2, w2, sc2) := lquery true true (Some (T "QC" ++ [13])) sc1 in
      match o2 with
      | Raise e => (Raise e, w ++ w2, sc2)
      | Ret None => (Raise AttributeError, w ++ w2, sc2)
      | Ret (Some raw) =>
          match split_once (T ",") raw with
          | (_, None) => (Ret (GBool true), w ++ w2, sc2)
          | (_, Some b) => match parse_int b with
                           | Some x => (Ret (GBool (negb (x <? 250))), w ++ w2, sc2)
                           | None => (Raise ValueError, w ++ w2, sc2) end
          end
      end
  end.
(* ebb_serial.query_nickname(port, verbose=False) *)
Definition l_query_nickname (sc : script) : gres :=
  let '(o, w, sc1) := lmin_version (T "2.5.5") sc in
  match o with
  | Raise e => (Raise e, w, sc1)
  | Ret v =>
      if negb (truthy_ob v) then (Ret GNone, w, sc1) else
      let '(o2, w2, sc2) := lquery true true (Some (T "QT" ++ [13])) sc1 in
      match o2 with
      | Raise e => (Raise e, w ++ w2, sc2)
      | Ret None => (Raise AttributeError, w ++ w2, sc2)
      | Ret (Some raw) => (Ret (if isspace raw then GNone else GText (strip raw)), w ++ w2, sc2)
      end
  end.
(* ebb_serial.write_nickname(port, nickname) *)
Definition l_write_nickname (nick : text) (sc : script) : gres :=
  let '(o, w, sc1) := lmin_version (T "2.5.5") sc in
  match o with
  | Raise e => (Raise e, w, sc1)
  | Ret v => if truthy_ob v then then_command (T "ST," ++ nick ++ [13]) (GBool true) w sc1 else (Ret GNone, w, sc1)
  end.
(* ebb_serial.reboot(port) *)
Definition l_reboot (sc : script) : gres :=
  let '(o, w, sc1) := lmin_version (T "2.5.5") sc in
  match o with
  | Raise e => (Raise e, w, sc1)
  | Ret v => if truthy_ob v then then_command (T "RB" ++ [13]) GNone w sc1 else (Ret GNone, w, sc1)
  end.
