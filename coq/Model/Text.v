(* text_utils.xml_escape and format_hms.  Strings are lists of code points. *)
From Plotink Require Import Base.Prelude Base.Rnd Model.EbbCalc.
Open Scope Z_scope.

Notation text := (list Z).

(* str.replace(c, r) for a one-character needle *)
Fixpoint rep (c : Z) (r : text) (s : text) : text :=
  match s with [] => [] | x :: t => if x =? c then r ++ rep c r t else x :: rep c r t end.

Definition AMP : text := [38; 97; 109; 112; 59].
Definition LT : text := [38; 108; 116; 59].
Definition GT : text := [38; 103; 116; 59].
Definition QUOT : text := [38; 113; 117; 111; 116; 59].
Definition APOS : text := [38; 97; 112; 111; 115; 59].

Definition xml_escape (s : text) : text :=
  rep 39 APOS (rep 34 QUOT (rep 62 GT (rep 60 LT (rep 38 AMP s)))).

(* ---------- format_hms ---------- *)
Fixpoint digits_fuel (fuel : nat) (n : Z) (acc : text) : text :=
  match fuel with
  | O => acc
  | S f => if n <? 10 then (48 + n) :: acc else digits_fuel f (n / 10) ((48 + n mod 10) :: acc)
  end.
Definition dec_str (n : Z) : text := digits_fuel 400 n [].                  (* str(n), n >= 0 *)
Definition pad2 (n : Z) : text := if n <? 10 then 48 :: dec_str n else dec_str n.   (* f"{n:02}" *)
Definition pad3 (n : Z) : text :=
  if n <? 10 then 48 :: 48 :: dec_str n else if n <? 100 then 48 :: dec_str n else dec_str n.

Definition s_seconds : text := [32; 83; 101; 99; 111; 110; 100; 115].                           (* " Seconds" *)
Definition s_minsec : text := [32; 40; 77; 105; 110; 117; 116; 101; 115; 44; 32; 115; 101; 99; 111; 110; 100; 115; 41].
Definition s_hms : text := [32; 40; 72; 111; 117; 114; 115; 44; 32; 109; 105; 110; 117; 116; 101; 115; 44; 32; 115; 101; 99; 111; 110; 100; 115; 41].

(* the structured result: what is printed, before rendering *)
Inductive hms :=
| Millis (n : Z)            (* duration < 10: round(duration * 1000), printed with three decimals *)
| Secs (s : Z)
| MinSec (m s : Z)
| HourMinSec (h m s : Z).

Definition format_hms_struct (duration : Q) (milliseconds : bool) : hms :=
  let duration := if milliseconds then rnd53 (duration / 1000) else duration in
  if Qltb duration 10 then Millis (Qround_he (duration * 1000))
  else
    let duration_rounded := Qround_he duration in
    if duration_rounded <? 60 then Secs duration_rounded
    else
      let m_elapsed := duration_rounded / 60 in
      let s_elapsed := duration_rounded mod 60 in
      if duration_rounded <? 3600 then MinSec m_elapsed s_elapsed
      else HourMinSec (m_elapsed / 60) (m_elapsed mod 60) s_elapsed.

Definition render (x : hms) : text :=
  match x with
  | Millis n => dec_str (n / 1000) ++ [46] ++ pad3 (n mod 1000) ++ s_seconds
  | Secs s => pad2 s ++ s_seconds
  | MinSec m s => dec_str m ++ [58] ++ pad2 s ++ s_minsec
  | HourMinSec h m s => dec_str h ++ [58] ++ pad2 m ++ [58] ++ pad2 s ++ s_hms
  end.

Definition format_hms (duration : Q) (milliseconds : bool) : text := render (format_hms_struct duration milliseconds).
