(* plot_utils.subdivideCubicPath with ink_extensions.bezmisc.beziersplitatt(..., 0.5), exact arithmetic.
   A node is (in-handle, point, out-handle).  The two nested while loops walk the list with the index i;
   here the walk is a zipper: [acc] = the finished nodes before i-1 (reversed), [a] = node i-1, [rest] = nodes from i.
   Splitting replaces the piece (a, b) by two pieces and stays on the first one, exactly as the insertion at i does. *)
From Plotink Require Import Base.Prelude Model.Simplify.
Open Scope Q_scope.

Record node := mknode { hin : pt; npt : pt; hout : pt }.

(* bezmisc.tpoint(p1, p2, 0.5) *)
(* Qred only normalises the representation of the rational (Qred q == q); without it denominators square at every level *)
Definition tpoint (a b : pt) : pt := (Qred (fst a + (1 # 2) * (fst b - fst a)), Qred (snd a + (1 # 2) * (snd b - snd a))).

Notation piece := (pt * pt * pt * pt)%type.
Definition split_left (b : piece) : piece :=
  let '(p0, p1, p2, p3) := b in
  let m1 := tpoint p0 p1 in let m2 := tpoint p1 p2 in let m3 := tpoint p2 p3 in
  let m4 := tpoint m1 m2 in let m5 := tpoint m2 m3 in let m := tpoint m4 m5 in (p0, m1, m4, m).
Definition split_right (b : piece) : piece :=
  let '(p0, p1, p2, p3) := b in
  let m1 := tpoint p0 p1 in let m2 := tpoint p1 p2 in let m3 := tpoint p2 p3 in
  let m4 := tpoint m1 m2 in let m5 := tpoint m2 m3 in let m := tpoint m4 m5 in (m, m5, m3, p3).

Definition piece_of (a b : node) : piece := (npt a, hout a, hin b, npt b).
Definition flat_piece (flat : Q) (b : piece) : bool :=
  let '(p0, p1, p2, p3) := b in points_in_tolerance [p0; p1; p2; p3] flat.

Fixpoint go (flat : Q) (fuel : nat) (acc : list node) (a : node) (rest : list node) : option (list node) :=
  match fuel with
  | O => None
  | S f =>
      match rest with
      | [] => Some (rev (a :: acc))
      | b :: rest' =>
          let bl := piece_of a b in
          if flat_piece flat bl then go flat f (a :: acc) b rest'
          else
            let '(_, one1, one2, one3) := split_left bl in
            let '(_, two1, two2, _) := split_right bl in
            let a' := mknode (hin a) (npt a) one1 in
            let mid := mknode one2 one3 two1 in
            let b' := mknode two2 (npt b) (hout b) in
            go flat f acc a' (mid :: b' :: rest')
      end
  end.

(* subdivideCubicPath(s_p, flat) with i = 1: None = fuel exhausted; an empty list is returned unchanged *)
Definition subdivide (flat : Q) (fuel : nat) (sp : list node) : option (list node) :=
  match sp with [] => Some [] | a :: rest => go flat fuel [] a rest end.
