(* plot_utils.clip_code / clip_segment (Cohen-Sutherland), exact arithmetic: one boundary per pass in the
   order left, right, top, bottom; the endpoint with a non-zero code is moved, endpoint 1 first; accept and
   reject are tested before the "iterations > 3" failsafe; the new vertex is interpolated with the bounded ratio first
   (the tree after 764be11); divisions are guarded so that a division by zero
   is an explicit outcome. *)
From Plotink Require Import Base.Prelude.
Open Scope Q_scope.

Record code := mkcode { cL : bool; cR : bool; cT : bool; cB : bool }.
Definition clip_code (x y xmin xmax ymin ymax : Q) : code :=
  mkcode (Qltb x xmin) (Qltb xmax x) (Qltb y ymin) (Qltb ymax y).
Definition czero (c : code) : bool := negb (cL c || cR c || cT c || cB c).
Definition cand (c d : code) : bool := (cL c && cL d) || (cR c && cR d) || (cT c && cT d) || (cB c && cB d).

Inductive exit := Accept | Reject | Failsafe | DivZero | NoFuel.
Record st := mkst { x1 : Q; y1 : Q; x2 : Q; y2 : Q }.

Definition pass (xmin xmax ymin ymax : Q) (iterations : nat) (s : st) : exit + st :=
  let c1 := clip_code (x1 s) (y1 s) xmin xmax ymin ymax in
  let c2 := clip_code (x2 s) (y2 s) xmin xmax ymin ymax in
  if czero c1 && czero c2 then inl Accept else
  if cand c1 c2 then inl Reject else
  if (3 <? iterations)%nat then inl Failsafe else
  let first := negb (czero c1) in            (* code == code_1 *)
  let c := if first then c1 else c2 in
  let dx := x2 s - x1 s in let dy := y2 s - y1 s in
  if cL c then (if Qeqb dx 0 then inl DivZero else
       let xn := xmin in let yn := dy * ((xmin - x1 s) / dx) + y1 s in
       inr (if first then mkst xn yn (x2 s) (y2 s) else mkst (x1 s) (y1 s) xn yn))
  else if cR c then (if Qeqb dx 0 then inl DivZero else
       let xn := xmax in let yn := dy * ((xmax - x1 s) / dx) + y1 s in
       inr (if first then mkst xn yn (x2 s) (y2 s) else mkst (x1 s) (y1 s) xn yn))
  else if cT c then (if Qeqb dy 0 then inl DivZero else
       let yn := ymin in let xn := dx * ((ymin - y1 s) / dy) + x1 s in
       inr (if first then mkst xn yn (x2 s) (y2 s) else mkst (x1 s) (y1 s) xn yn))
  else (if Qeqb dy 0 then inl DivZero else
       let yn := ymax in let xn := dx * ((ymax - y1 s) / dy) + x1 s in
       inr (if first then mkst xn yn (x2 s) (y2 s) else mkst (x1 s) (y1 s) xn yn)).

Fixpoint loop (fuel : nat) (xmin xmax ymin ymax : Q) (iterations : nat) (s : st) : exit * st :=
  match fuel with
  | O => (NoFuel, s)
  | S f =>
      match pass xmin xmax ymin ymax iterations s with
      | inl e => (e, s)
      | inr s' => loop f xmin xmax ymin ymax (S iterations) s'
      end
  end.

(* clip_segment(segment, bounds): the failsafe fires on the pass with iterations = 4, so 6 passes always suffice *)
Definition clip_segment (xmin xmax ymin ymax : Q) (s : st) : exit * st := loop 6 xmin xmax ymin ymax 0 s.
