(* plot_utils: parseLengthWithUnits, unitsToUserUnits, userUnitToUnits, getLength, getLengthInches.
   Float arithmetic is modelled on rationals with a rounding operator [rnd] applied after every
   operation and to every decimal literal: rnd = identity is the exact layer the theorems are about,
   rnd = rnd53 (Base/Rnd.v) executes the float code bit for bit. *)
From Plotink Require Import Base.Prelude Base.PyStr.
Open Scope Z_scope.

Inductive unit := UPx | UIn | UMm | UCm | UPt | UPc | UQ | UPct.
Definition unit_eqb (a b : unit) : bool :=
  match a, b with UPx, UPx | UIn, UIn | UMm, UMm | UCm, UCm | UPt, UPt | UPc, UPc | UQ, UQ | UPct, UPct => true | _, _ => false end.

Definition t_px : text := [112; 120].  Definition t_in : text := [105; 110].
Definition t_mm : text := [109; 109].  Definition t_cm : text := [99; 109].
Definition t_pt : text := [112; 116].  Definition t_pc : text := [112; 99].

(* the suffix tests, in the order of the code; returns the unit and the remaining numeral text *)
Definition split_unit (s : text) : unit * text :=
  let string := strip s in
  let l2 := last_n string 2 in
  if text_eqb l2 t_px then (UPx, drop_last string 2)
  else if text_eqb l2 t_in then (UIn, drop_last string 2)
  else if text_eqb l2 t_mm then (UMm, drop_last string 2)
  else if text_eqb l2 t_cm then (UCm, drop_last string 2)
  else if text_eqb l2 t_pt then (UPt, drop_last string 2)
  else if text_eqb l2 t_pc then (UPc, drop_last string 2)
  else
    let l1 := last_n string 1 in
    if text_eqb l1 [81] || text_eqb l1 [113] then (UQ, drop_last string 1)
    else if text_eqb l1 [37] then (UPct, drop_last string 1)
    else (UPx, string).

Section Float.
Variable rnd : Q -> Q.
Local Open Scope Q_scope.
Definition fmul (a b : Q) := rnd (a * b).
Definition fdiv (a b : Q) := rnd (a / b).
Definition lit (q : Q) := rnd q.                       (* a decimal literal in the source *)
Definition PX_PER_INCH := lit 96.

(* parseLengthWithUnits: None = (None, None) *)
Definition parseLengthWithUnits (s : text) : option (Q * unit) :=
  let '(u, num) := split_unit s in
  match parse_float num with Some v => Some (rnd v, u) | None => None end.

(* unitsToUserUnits(input_string, percent_ref); percent_ref: None or a number.
   [truthy] selects the reading of "if percent_ref:" - true = as found (0 counts as absent),
   false = repaired ("is not None") *)
Definition unitsToUserUnits (truthy : bool) (s : text) (percent_ref : option Q) : option Q :=
  match parseLengthWithUnits s with
  | None => None
  | Some (v, u) =>
      Some match u with
      | UPx => v
      | UIn => fmul v PX_PER_INCH
      | UMm => fdiv (fmul v PX_PER_INCH) (lit (254 # 10))
      | UCm => fdiv (fmul v PX_PER_INCH) (lit (254 # 100))
      | UQ => fdiv (fmul v PX_PER_INCH) (lit (1016 # 10))
      | UPc => fdiv (fmul v PX_PER_INCH) (lit 6)
      | UPt => fdiv (fmul v PX_PER_INCH) (lit 72)
      | UPct =>
          match percent_ref with
          | Some p => if truthy && Qeqb p 0 then fdiv v (lit 100) else fdiv (fmul v p) (lit 100)
          | None => fdiv v (lit 100)
          end
      end
  end.

(* userUnitToUnits(distance_uu, unit_string) with the unit already recognised *)
Definition userUnitToUnits (d : Q) (u : unit) : Q :=
  match u with
  | UPx => d
  | UIn => fdiv d PX_PER_INCH
  | UMm => fdiv d (fdiv PX_PER_INCH (lit (254 # 10)))
  | UCm => fdiv d (fdiv PX_PER_INCH (lit (254 # 100)))
  | UQ => fdiv d (fdiv PX_PER_INCH (fmul (lit 40) (lit (254 # 100))))
  | UPc => fdiv d (fdiv PX_PER_INCH (lit 6))
  | UPt => fdiv d (fdiv PX_PER_INCH (lit 72))
  | UPct => fmul d (lit 100)
  end.

(* getLength(altself, name, default): attr = the attribute text or None *)
Definition getLength (attr : option text) (default : Q) : option Q :=
  match attr with
  | None => Some default
  | Some [] => Some default
  | Some s =>
      match parseLengthWithUnits s with
      | None => None
      | Some (v, u) =>
          Some match u with
          | UPx => v
          | UIn => fmul v PX_PER_INCH
          | UMm => fdiv (fmul v PX_PER_INCH) (lit (254 # 10))
          | UCm => fdiv (fmul v PX_PER_INCH) (lit (254 # 100))
          | UQ => fdiv (fmul v PX_PER_INCH) (fmul (lit 40) (lit (254 # 100)))
          | UPc => fdiv (fmul v PX_PER_INCH) (lit 6)
          | UPt => fdiv (fmul v PX_PER_INCH) (lit 72)
          | UPct => fdiv (fmul default v) (lit 100)
          end
      end
  end.

Definition getLengthInches (attr : option text) : option Q :=
  match attr with
  | None => None
  | Some [] => None
  | Some s =>
      match parseLengthWithUnits s with
      | None => None
      | Some (v, u) =>
          match u with
          | UIn => Some v
          | UMm => Some (fdiv v (lit (254 # 10)))
          | UCm => Some (fdiv v (lit (254 # 100)))
          | UQ => Some (fdiv v (fmul (lit 40) (lit (254 # 100))))
          | UPc => Some (fdiv v (lit 6))
          | UPt => Some (fdiv v (lit 72))
          | UPx => Some (fdiv v (lit 96))
          | UPct => None
          end
      end
  end.
End Float.

(* the one SVG factor table (user units per unit, 96 px per inch) *)
Definition uu_factor (u : unit) : Q :=
  match u with UPx => 1 | UIn => 96 | UMm => 96 / (254 # 10) | UCm => 96 / (254 # 100) | UPt => 96 / 72 | UPc => 96 / 6
             | UQ => 96 / (1016 # 10) | UPct => 1 end%Q.
