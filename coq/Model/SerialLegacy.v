(* ebb_serial.query / ebb_serial.command (function-style legacy layer) over the same kind of I/O script as Model/Serial3.v.
   readline() returns the raw line including its line end; nothing is stripped.  [dec] selects the reading of the retry loop
   of query: false = as found (the retry assigns undecoded bytes, and the later test 'Err:' in response raises TypeError on
   bytes), true = repaired (decoded like the first read). *)
From Plotink Require Import Base.Prelude Base.PyStr Model.Serial3.
Open Scope Z_scope.

Definition CRLF : text := [13; 10].
Definition raw_readline (sc : script) : rd * script :=
  match sc with
  | [] => (RLine [], [])
  | Line s :: t => (RLine (s ++ CRLF), t)
  | Empty :: t => (RLine [], t)
  | Fault :: t => (RRaise, t)
  end.

(* while len(response) == 0 and n < fuel: response = readline() *)
Fixpoint lretry (n : nat) (resp : text) (sc : script) : rd * script * bool :=      (* third component: the loop body ran at least once *)
  match n with
  | O => (RLine resp, sc, false)
  | S n' =>
      match resp with
      | [] => match raw_readline sc with
              | (RLine r, sc') => let '(x, sc'', _) := lretry n' r sc' in (x, sc'', true)
              | (RRaise, sc') => (RRaise, sc', true)
              end
      | _ => (RLine resp, sc, false)
      end
  end.

Definition no_ok_names : list text := [T "a"; T "i"; T "mr"; T "pi"; T "qm"; T "qg"; T "v"].
Definition skips_ok (cmd : text) : bool :=
  match split_c 44 cmd with
  | f :: _ => existsb (text_eqb (lower (strip f))) no_ok_names
  | [] => false
  end.

Inductive lresp := LStr (t : text) | LBytes (t : text).
(* query(port_name, cmd): Ret None when there is no port or no text *)
Definition lquery (dec : bool) (has_port : bool) (cmd : option text) (sc : script) : outcome (option text) * list text * script :=
  match cmd with
  | None => (Ret None, [], sc)
  | Some c =>
      if negb has_port then (Ret None, [], sc) else
      let '(wok, sc1) := write_ok sc in
      if negb wok then (Ret (Some []), [], sc1) else
      let finish (resp : lresp) (sc' : script) :=
        match resp with
        | LStr t => (Ret (Some t), [c], sc')
        | LBytes t => (Raise TypeError, [c], sc')          (* 'Err:' in <bytes> *)
        end in
      match raw_readline sc1 with
      | (RRaise, sc2) => finish (LStr []) sc2
      | (RLine r0, sc2) =>
          let '(x, sc3, looped) := lretry 100 r0 sc2 in
          let wrap t := if looped && negb dec then LBytes t else LStr t in
          match x with
          | RRaise => finish (if negb dec then
                                (* the exception left [response] as the last value assigned: '' (str) before the first
                                   re-read completes, an empty bytes object after one *)
                                match sc2 with Fault :: _ => LStr [] | _ => LBytes [] end
                              else LStr []) sc3
          | RLine r =>
              if skips_ok c then finish (wrap r) sc3 else
              (* read the extra OK line, again through up to 100 empty reads *)
              match raw_readline sc3 with
              | (RRaise, sc4) => finish (wrap r) sc4
              | (RLine u0, sc4) => let '(_, sc5, _) := lretry 100 u0 sc4 in finish (wrap r) sc5
              end
          end
      end
  end.

(* command(port_name, cmd): returns None; what matters is what it writes and consumes *)
Definition lcommand (has_port : bool) (cmd : option text) (sc : script) : outcome unit * list text * script :=
  match cmd with
  | None => (Ret tt, [], sc)
  | Some c =>
      if negb has_port then (Ret tt, [], sc) else
      let '(wok, sc1) := write_ok sc in
      if negb wok then (Ret tt, [], sc1) else
      match raw_readline sc1 with
      | (RRaise, sc2) => (Ret tt, [c], sc2)
      | (RLine r0, sc2) => let '(_, sc3, _) := lretry 100 r0 sc2 in (Ret tt, [c], sc3)
      end
  end.
