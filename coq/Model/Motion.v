(* The text each helper hands to command(): ebb_motion.py (legacy, function style; every text ends in CR) and
   ebb3_motion.py / ebb3_serial.var_write (EBB3 class layer; the CR is added by EBB3.command).
   [fx] selects the reading of the optional-argument tests: false = truthiness as found ("if pin:", "if clear:",
   "if position1 and position2:"), true = repaired ("is not None").  Written from the code, f-string by f-string. *)
From Plotink Require Import Base.Prelude Base.PyStr Model.Serial3.
Open Scope Z_scope.

Definition z := str_of_Z.
Definition truthy (fx : bool) (o : option Z) : bool := match o with None => false | Some v => fx || negb (v =? 0) end.
Definition oval (o : option Z) : Z := match o with Some v => v | None => 0 end.

(* ---------- legacy layer: the texts without their final CR ---------- *)
Definition doABMove (da db dur : Z) : list text := [cat [T "XM,"; z dur; T ","; z da; T ","; z db]].
Fixpoint legacy_pause (fuel : nat) (n : Z) : list text :=
  match fuel with
  | O => []
  | S f => if n <=? 0 then [] else
           let d := if 750 <? n then 750 else (if n <? 1 then 1 else n) in
           cat [T "SM,"; z d; T ",0,0"] :: legacy_pause f (n - d)
  end.
Definition doTimedPause (n : Z) : list text := legacy_pause (Z.to_nat (n / 750 + 2)) n.
Definition doLowLevelMove (fx : bool) (r1 s1 a1 r2 s2 a2 : Z) (clear : option Z) : list text :=
  if ((r1 =? 0) && (a1 =? 0) || (s1 =? 0)) && ((r2 =? 0) && (a2 =? 0) || (s2 =? 0)) then [] else
  if truthy fx clear
  then [cat [T "LM,"; z r1; T ","; z s1; T ","; z a1; T ","; z r2; T ","; z s2; T ","; z a2; T ","; z (oval clear)]]
  else [cat [T "LM,"; z r1; T ","; z s1; T ","; z a1; T ","; z r2; T ","; z s2; T ","; z a2]].
Definition doXYMove (dx dy dur : Z) : list text := [cat [T "SM,"; z dur; T ","; z dy; T ","; z dx]].
Definition doAbsMove (fx : bool) (rate : Z) (p1 p2 : option Z) : list text :=
  if truthy fx p1 && truthy fx p2 then [cat [T "HM,"; z rate; T ","; z (oval p1); T ","; z (oval p2)]] else [cat [T "HM,"; z rate]].
Definition sendDisableMotors : list text := [T "EM,0,0"].
Definition sendEnableMotors (res : Z) : list text := let r := Z.min (Z.max res 0) 5 in [cat [T "EM,"; z r; T ","; z r]].
Definition sendPen (fx : bool) (up : bool) (delay : Z) (pin : option Z) : list text :=
  if truthy fx pin then [cat [T "SP,"; (if up then T "1" else T "0"); T ","; z delay; T ","; z (oval pin)]]
  else [cat [T "SP,"; (if up then T "1" else T "0"); T ","; z delay]].
Definition PBOutConfig (pin state : Z) : list text := [cat [T "PO,B,"; z pin; T ","; z state]; cat [T "PD,B,"; z pin; T ",0"]].
Definition PBOutValue (pin state : Z) : list text := [cat [T "PO,B,"; z pin; T ","; z state]].
Definition TogglePen : list text := [T "TP"].
Definition setPenDownPos (v : Z) : list text := [cat [T "SC,5,"; z v]].
Definition setPenDownRate (v : Z) : list text := [cat [T "SC,12,"; z v]].
Definition setPenUpPos (v : Z) : list text := [cat [T "SC,4,"; z v]].
Definition setPenUpRate (v : Z) : list text := [cat [T "SC,11,"; z v]].
Definition setEBBLV (v : Z) : list text := [cat [T "SL,"; z v]].
Definition legacy_servo_timeout (ms : Z) (state : option Z) : list text :=
  match state with None => [cat [T "SR,"; z ms]] | Some s => [cat [T "SR,"; z ms; T ","; z s]] end.

(* ---------- EBB3 layer: the texts handed to EBB3.command by each helper ---------- *)
Fixpoint ebb3_pause (fuel : nat) (n : Z) : list text :=
  match fuel with
  | O => []
  | S f => if n <=? 0 then [] else
           let d := if 750 <? n then 750 else Z.max n 1 in
           cat [T "SM,"; z d; T ",0,0"] :: ebb3_pause f (n - d)
  end.
Definition e3_timed_pause (n : Z) : list text := ebb3_pause (Z.to_nat (n / 750 + 2)) n.
Definition e3_xy_move (dx dy dur : Z) : list text := [cat [T "SM,"; z dur; T ","; z dy; T ","; z dx]].
Definition e3_abs_move (rate : Z) (p1 p2 : option Z) : list text :=
  match p1, p2 with Some a, Some b => [cat [T "HM,"; z rate; T ","; z a; T ","; z b]] | _, _ => [cat [T "HM,"; z rate]] end.
Definition e3_motors_disable : list text := [T "EM,0,0"].
Definition e3_pen (fx : bool) (up : bool) (delay : Z) (pin : option Z) : list text :=
  if truthy fx pin then [cat [T "SP,"; (if up then T "1" else T "0"); T ","; z delay; T ","; z (oval pin)]]
  else [cat [T "SP,"; (if up then T "1" else T "0"); T ","; z delay]].
Definition e3_dio_b_config (pin state dir : Z) : list text := [cat [T "PO,B,"; z pin; T ","; z state]; cat [T "PD,B,"; z pin; T ","; z dir]].
Definition e3_dio_b_set (pin state : Z) : list text := [cat [T "PO,B,"; z pin; T ","; z state]].
Definition e3_pen_pos (up : bool) (v : Z) : list text := [cat [if up then T "SC,4," else T "SC,5,"; z v]].
Definition e3_pen_rate (up : bool) (v : Z) : list text := [cat [if up then T "SC,11," else T "SC,12,"; z v]].
Definition e3_servo_timeout (ms : Z) (state : option Z) : list text :=
  match state with None => [cat [T "SR,"; z ms]] | Some s => [cat [T "SR,"; z ms; T ","; z s]] end.
Definition e3_var_write (v i : Z) : list text := [cat [T "SL,"; z v; T ","; z i]].
Definition e3_clear_steps : list text := [T "CS"].
Definition e3_clear_acc : list text := [T "T3,1,0,0,0,0,0,0,3"].
