(* plot_utils.points_in_tolerance and supersample, exact arithmetic.  Vertices carry their original index
   so that "the same vertex objects, in order" is observable: the model returns the surviving indices. *)
From Plotink Require Import Base.Prelude.
Open Scope Q_scope.

Notation pt := (Q * Q)%type.

(* one interior point of points_in_tolerance: true = keeps going, false = "return False" *)
Definition near (tol2 : Q) (s0 s1 p : pt) : bool :=
  let '(seg_0x, seg_0y) := s0 in let '(seg_1x, seg_1y) := s1 in let '(p_x, p_y) := p in
  let s_delta_x := seg_1x - seg_0x in let s_delta_y := seg_1y - seg_0y in
  let dx_p_s0 := p_x - seg_0x in let dy_p_s0 := p_y - seg_0y in
  let temp1 := dx_p_s0 * s_delta_x + dy_p_s0 * s_delta_y in
  if Qleb temp1 0 then negb (Qleb tol2 (dx_p_s0 * dx_p_s0 + dy_p_s0 * dy_p_s0))
  else
    let seg_length_squared := s_delta_x * s_delta_x + s_delta_y * s_delta_y in
    if Qleb seg_length_squared temp1 then
      negb (Qleb tol2 ((p_x - seg_1x) * (p_x - seg_1x) + (p_y - seg_1y) * (p_y - seg_1y)))
    else if Qeqb seg_length_squared 0 then false
    else
      let temp := dx_p_s0 * s_delta_y - s_delta_x * dy_p_s0 in
      negb (Qleb tol2 (temp * temp / seg_length_squared)).

(* points_in_tolerance(input_points, tolerance) for a list of at least three points: first :: interior ++ [last] *)
Definition points_in_tolerance (pts : list pt) (tol : Q) : bool :=
  match pts with
  | s0 :: rest => let s1 := last rest s0 in forallb (near (tol * tol) s0 s1) (removelast rest)
  | [] => true
  end.

(* ---------- supersample: the two nested while loops on (start vertex, rest of the list) ---------- *)
Section Supersample.
Variable V : Type.                      (* a vertex (with whatever identity it carries) *)
Variable nearV : V -> V -> V -> bool.   (* nearV a b p : p passes the tolerance test against segment a-b *)
Variable dflt : V.

(* points_in_tolerance on the python slice v[start:end+1] = s :: firstn k rest (the slice stops at the end of the list) *)
Definition pit_slice (s : V) (rest : list V) (k : nat) : bool :=
  let n := Nat.min k (length rest) in
  forallb (nearV s (nth (n - 1) rest dflt)) (firstn (n - 1) rest).

(* inner while: k = end_index - start_index *)
Fixpoint inner (fuel : nat) (s : V) (rest : list V) (k : nat) : nat :=
  match fuel with
  | O => k
  | S f => if pit_slice s rest k && (k <=? length rest)%nat then inner f s rest (S k) else k
  end.

(* outer while *)
Fixpoint outer (fuel : nat) (s : V) (rest : list V) : list V :=
  match fuel with
  | O => s :: rest
  | S f =>
      if (length rest <? 2)%nat then s :: rest else
      let k := inner (length rest) s rest 2 in
      match skipn (k - 2) rest with
      | s' :: rest' => s :: outer f s' rest'
      | [] => s :: rest
      end
  end.

(* supersample(vertices, tolerance): returns the new contents of the list *)
Definition supersample (v : list V) (tol_pos : bool) : list V :=
  match v with
  | [] => []
  | s :: rest => if (length v <=? 2)%nat then v else if tol_pos then outer (length rest) s rest else v
  end.
End Supersample.

Notation ipt := (Z * pt)%type.
Definition near_i (tol2 : Q) (a b p : ipt) : bool := near tol2 (snd a) (snd b) (snd p).
Definition supersample_idx (v : list ipt) (tol : Q) : list Z :=
  map fst (supersample ipt (near_i (tol * tol)) (0%Z, (0, 0)) v (Qltb 0 tol)).
