(* plot_utils.vb_scale: attribute parsing and the numeric core, with the rounding operator [rnd]
   after every float operation (identity = exact layer, rnd53 = the float code). *)
From Plotink Require Import Base.Prelude Base.PyStr.
Open Scope Z_scope.

Inductive al := AMin | AMid | AMax.
Inductive align := ANone | AXY (x y : al).
Inductive mos := Meet | Slice | MosOther.

Definition t_none : text := [110; 111; 110; 101].
Definition t_defer : text := [100; 101; 102; 101; 114].
Definition t_meet : text := [109; 101; 101; 116].
Definition t_slice : text := [115; 108; 105; 99; 101].
Definition t_xmidymid : text := [120; 109; 105; 100; 121; 109; 105; 100].
(* "x" ++ a ++ "y" ++ b with a, b in min/mid/max *)
Definition al_text (a : al) : text := match a with AMin => [109; 105; 110] | AMid => [109; 105; 100] | AMax => [109; 97; 120] end.
Definition align_text (x y : al) : text := [120] ++ al_text x ++ [121] ++ al_text y.
Definition in_set (t : text) (l : list text) : bool := existsb (text_eqb t) l.

(* the two three-element set tests of the code; anything else means "mid" *)
Definition y_of (t : text) : al :=
  if in_set t [align_text AMin AMin; align_text AMid AMin; align_text AMax AMin] then AMin
  else if in_set t [align_text AMin AMax; align_text AMid AMax; align_text AMax AMax] then AMax else AMid.
Definition x_of (t : text) : al :=
  if in_set t [align_text AMin AMin; align_text AMin AMid; align_text AMin AMax] then AMin
  else if in_set t [align_text AMax AMin; align_text AMax AMid; align_text AMax AMax] then AMax else AMid.
Definition align_of (t : text) : align := if text_eqb t t_none then ANone else AXY (x_of t) (y_of t).
Definition mos_of (t : text) : mos := if text_eqb t t_meet then Meet else if text_eqb t t_slice then Slice else MosOther.

(* p_a_r.strip().replace(',', ' ').lower().split() and the defer logic; returns (par_align, par_mos) texts *)
Definition parse_par (p : option text) : text * text :=
  match p with
  | None => (t_xmidymid, t_meet)
  | Some s =>
      let arr := split_ws (lower (replace1 44 [32] (strip s))) in
      match arr with
      | [] => (t_xmidymid, t_meet)
      | par0 :: rest =>
          if text_eqb par0 t_defer then
            match rest with
            | [] => (t_xmidymid, t_meet)
            | a :: rest2 => (a, match rest2 with [] => t_meet | m :: _ => m end)
            end
          else (par0, match rest with [] => t_meet | m :: _ => m end)
      end
  end.

Section Float.
Variable rnd : Q -> Q.
Local Open Scope Q_scope.
Definition fadd (a b : Q) := rnd (a + b).
Definition fsub (a b : Q) := rnd (a - b).
Definition fmul (a b : Q) := rnd (a * b).
Definition fdiv (a b : Q) := rnd (a / b).

Definition identity4 : Q * Q * Q * Q := (1, 1, 0, 0).

(* the numeric core after all the validity tests *)
Definition vb_core (a : align) (m : mos) (min_x min_y width height d_width d_height : Q) : Q * Q * Q * Q :=
  let ar_doc := fdiv d_height d_width in
  let ar_vb := fdiv height width in
  match a with
  | ANone => (fdiv d_width width, fdiv d_height height, - min_x, - min_y)
  | AXY xa ya =>
      let case1 := match m with
                   | Meet => Qleb ar_vb ar_doc          (* ar_doc >= ar_vb *)
                   | Slice => Qltb ar_doc ar_vb
                   | MosOther => false
                   end in
      if case1 then
        let s_x := fdiv d_width width in
        let scaled_vb_height := fmul ar_doc width in
        let excess_height := fsub scaled_vb_height height in
        let o_y := match ya with
                   | AMin => - min_y
                   | AMax => fadd (- min_y) excess_height
                   | AMid => fadd (- min_y) (fdiv excess_height 2)
                   end in
        (s_x, s_x, - min_x, o_y)
      else
        let s_y := fdiv d_height height in
        let scaled_vb_width := fdiv height ar_doc in
        let excess_width := fsub scaled_vb_width width in
        let o_x := match xa with
                   | AMin => - min_x
                   | AMax => fadd (- min_x) excess_width
                   | AMid => fadd (- min_x) (fdiv excess_width 2)
                   end in
        (s_y, s_y, o_x, - min_y)
  end.

(* vb_scale(v_b, p_a_r, doc_width, doc_height).  [raises] = a non-numeric token among the first four
   raises ValueError (the code as found); false = it yields the identity (repaired) *)
Definition vb_scale (raises : bool) (v_b p_a_r : option text) (doc_width doc_height : Q) : outcome (Q * Q * Q * Q) :=
  match v_b with
  | None => Ret identity4
  | Some vb =>
      let arr := split_ws (replace1 44%Z [32%Z] (strip vb)) in
      match arr with
      | t0 :: t1 :: t2 :: t3 :: _ =>
          match parse_float t0, parse_float t1, parse_float t2, parse_float t3 with
          | Some a, Some b, Some c, Some d =>
              let min_x := rnd a in let min_y := rnd b in let width := rnd c in let height := rnd d in
              if Qleb width 0 || Qleb height 0 then Ret identity4 else
              if Qleb doc_width 0 || Qleb doc_height 0 then Ret identity4 else
              let '(pa, pm) := parse_par p_a_r in
              Ret (vb_core (align_of pa) (mos_of pm) min_x min_y width height doc_width doc_height)
          | _, _, _, _ => if raises then Raise ValueError else Ret identity4
          end
      | _ => Ret identity4
      end
  end.
End Float.
