(* calculate_lm with EVERY mpmath operation followed by the rounding operator rnd, in the evaluation order of the Python source
   (mpmath at dps = 30: 103 bits): the effective rate, the running total at the reversal tick, the constant term and the
   discriminant of the quadratic, the two roots, the constant-rate quotient, and the final accumulator.  Python ints enter mpmath
   operations exactly; mpmath.floor / mpmath.ceil / fabs produce integers (or a magnitude) of the rounded operand.  sq is the
   rounded square root.  Model/LmModelRnd.v rounds only the operations whose results are not representable in general; the
   theorem in Proofs/LmFullRnd.v shows that the two (and the exact model) agree.  No proofs here. *)
From Coq Require Import ZArith QArith Qround Qabs Bool.
From Plotink Require Import Base.Prelude Spec.Firmware Model.EbbCalc Model.LmModel Model.LmModelRnd.
Open Scope Z_scope.

(* rate_effective = rate + mpmath.mpf(accel) / 2 - int(accel / 2) *)
Definition lm_re_r (rnd : Q -> Q) (rate accel : Z) : Q :=
  rnd (rnd (iz rate + rnd (iz accel / 2)) - iz (Z.quot accel 2))%Q.

(* s_rev_star = rate_effective * t_rev + mpf('0.5') * accel * t_rev * t_rev + accum_adj;
   s_rev = int(mpmath.floor(mpmath.fabs(s_rev_star / 2147483648))) *)
Definition lm_srev_r (rnd : Q -> Q) (re : Q) (accel t_rev adj : Z) : Z :=
  let a1 := rnd (re * iz t_rev)%Q in
  let h1 := rnd ((1 # 2) * iz accel)%Q in
  let h2 := rnd (h1 * iz t_rev)%Q in
  let h3 := rnd (h2 * iz t_rev)%Q in
  let a2 := rnd (a1 + h3)%Q in
  let a3 := rnd (a2 + iz adj)%Q in
  let a4 := rnd (a3 / iz 2147483648)%Q in
  Qfloor (rnd (Qabs a4)).

(* the branch structure after s_rev is known (the same statements as in Model/LmModel.v) *)
Definition lm_front_tail (steps accel : Z) (neg : bool) (acc adj t_rev s_rev : Z) : lm_mid :=
  if (t_rev <? 1) || (steps <=? s_rev) then
    let p := if neg then - steps else steps in
    {| m_neg := neg; m_acc := acc; m_adj := adj; m_trev := -1; m_srev := s_rev; m_pos := p; m_padj := p; m_rev := false |}
  else if s_rev =? 0 then
    let p := if 0 <? accel then steps else - steps in
    {| m_neg := neg; m_acc := acc; m_adj := adj; m_trev := t_rev; m_srev := s_rev; m_pos := p;
       m_padj := if 0 <? accel then p - 1 else p + 1; m_rev := true |}
  else
    let net := s_rev - (steps - s_rev) in
    let p := if 0 <? accel then - net else net in
    {| m_neg := neg; m_acc := acc; m_adj := adj; m_trev := t_rev; m_srev := s_rev; m_pos := p;
       m_padj := if 0 <? accel then p - 1 else p + 1; m_rev := true |}.

Definition lm_front_full_r (rnd : Q -> Q) (steps rate accel : Z) (accum : option Z) : lm_mid :=
  let re := lm_re_r rnd rate accel in
  let q := Z.quot accel 2 in
  let temp_rate := rate - q + accel in
  let neg := (temp_rate <? 0) || ((temp_rate =? 0) && (accel <? 0)) in
  let acc := match accum with None => if neg then M31 else 0 | Some c => c end in
  let adj := if neg then acc - M31 else acc in
  let rate_zero := rate - q in
  let t_rev := if neg && (0 <? accel) then (- rate_zero) / accel
               else if negb neg && (accel <? 0) then rate_zero / (- accel) else -1 in
  let s_rev := if 0 <? t_rev then lm_srev_r rnd re accel t_rev adj else 0 in
  lm_front_tail steps accel neg acc adj t_rev s_rev.

(* the choice among the two rounded-up roots (the same statements as in Model/LmModel.v) *)
Definition lm_pick (m : lm_mid) (neg_root pos_root : Z) : Z :=
  let neg_root := if m_rev m && (neg_root <=? m_trev m) then -1 else neg_root in
  let pos_root := if m_rev m && (pos_root <=? m_trev m) then -1 else pos_root in
  let t0 := if 0 <? neg_root then neg_root else 0 in
  if 0 <? pos_root then (if 0 <? neg_root then (if pos_root <? neg_root then pos_root else t0) else pos_root) else t0.

Definition lm_time_full_r (rnd sq : Q -> Q) (rate accel : Z) (m : lm_mid) : Z :=
  let re := lm_re_r rnd rate accel in
  if accel =? 0 then
    (* (2147483648 * pos_final - mpmath.mpf(accum_adj)) / mpmath.mpf(rate), then int(mpmath.ceil(.)) *)
    Qceiling (rnd (rnd (iz (2147483648 * m_pos m) - iz (m_adj m)) / iz rate))%Q
  else
    let two_a := iz accel in
    let p1 := rnd (iz (m_padj m) * iz 2147483648)%Q in
    let c0 := rnd (iz (m_adj m) - p1)%Q in
    let c := if m_rev m then (if accel <? 0 then rnd (c0 + 1)%Q else rnd (c0 - 1)%Q) else c0 in
    let d1 := rnd (re * re)%Q in
    let d2 := rnd (2 * two_a)%Q in
    let d3 := rnd (d2 * c)%Q in
    let disc := rnd (d1 - d3)%Q in
    if Qltb disc 0 then 0 else
    let s := sq disc in
    let nre := rnd (- re)%Q in
    let neg_root := Qceiling (rnd (rnd (nre - s) / two_a))%Q in
    let pos_root := Qceiling (rnd (rnd (nre + s) / two_a))%Q in
    lm_pick m neg_root pos_root.

(* c_final = mpf(accum) + rate_effective * time_final + mpf(accel) * time_final * time_final / 2;
   c_final -= 2147483648 * mpf(pos_final); int(c_final) *)
Definition lm_cfinal_r (rnd : Q -> Q) (re : Q) (accel acc T pos : Z) : Z :=
  let e1 := rnd (re * iz T)%Q in
  let e2 := rnd (iz acc + e1)%Q in
  let g1 := rnd (iz accel * iz T)%Q in
  let g2 := rnd (g1 * iz T)%Q in
  let g3 := rnd (g2 / 2)%Q in
  let cf := rnd (e2 + g3)%Q in
  let k := rnd (iz 2147483648 * iz pos)%Q in
  Qtrunc (rnd (cf - k)%Q).

Definition lm_model_full_r (rnd sq : Q -> Q) (steps rate accel : Z) (accum : option Z) : Z * Z * Z :=
  if (steps =? 0) || ((rate =? 0) && (accel =? 0)) then (0, 0, 0) else
  if (steps <? 0) && (rate <? 0) then (0, 0, 0) else
  let '(steps, rate, accel) := if steps <? 0 then (- steps, - rate, - accel) else (steps, rate, accel) in
  let m := lm_front_full_r rnd steps rate accel accum in
  let T := lm_time_full_r rnd sq rate accel m in
  (T, m_pos m, lm_cfinal_r rnd (lm_re_r rnd rate accel) accel (m_acc m) T (m_pos m)).
