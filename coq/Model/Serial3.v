(* ebb3_serial.EBB3 and ebb3_motion.EBBMotionWrap over an I/O script.
   Every port.write and port.readline consumes one event of the script in program order
   (Line s = that line arrives / the write succeeds, Empty = timeout / the write succeeds, Fault = SerialException);
   an exhausted script means timeouts.  serial.Serial(...) consumes one event as well (Fault = the port cannot be opened).
   The recorded error is modelled by its kind (a small code), not by its text.
   The record [cfg] selects, for four places where the tree as found deviates from the properties, the reading as found (false)
   or the repaired reading (true); see DESIGN.md section 6. *)
From Plotink Require Import Base.Prelude Base.PyStr.
Open Scope Z_scope.

Definition T (s : string) : text := map (fun c => Z.of_nat (nat_of_ascii c)) (list_ascii_of_string s).
Definition cat (l : list text) : text := concat l.
Definition CR : text := [13].

Inductive ev := Line (s : text) | Empty | Fault.
Notation script := (list ev).
Inductive rd := RLine (s : text) | RRaise.
Definition readline (sc : script) : rd * script :=
  match sc with
  | [] => (RLine [], [])
  | Line s :: t => (RLine s, t)
  | Empty :: t => (RLine [], t)
  | Fault :: t => (RRaise, t)
  end.
Definition write_ok (sc : script) : bool * script :=
  match sc with Fault :: t => (false, t) | _ :: t => (true, t) | [] => (true, []) end.

(* error kinds *)
Definition E_TIMEOUT := 1.  Definition E_UNEXPECTED := 2.  Definition E_USB := 3.  Definition E_ERRREPLY := 4.
Definition E_LOCATE := 5.   Definition E_CONNECT := 6.     Definition E_VERSION := 7.  Definition E_TESTUSB := 8.

Record cfg := mkcfg { fix_status : bool; fix_volt : bool; fix_nick : bool; fix_pin : bool }.

Record ebb3 := mkebb { port : bool; err : option Z; vparsed : option (list Z); name : option text }.
Definition init : ebb3 := mkebb false None None None.
Definition record_error (s : ebb3) (k : Z) : ebb3 :=
  match err s with None => mkebb (port s) (Some k) (vparsed s) (name s) | Some _ => s end.
Definition set_port (s : ebb3) (b : bool) : ebb3 := mkebb b (err s) (vparsed s) (name s).
Definition set_name (s : ebb3) (n : text) : ebb3 := mkebb (port s) (err s) (vparsed s) (Some n).
Definition set_version (s : ebb3) (v : option (list Z)) : ebb3 := mkebb (port s) (err s) v (name s).
Definition blocked (s : ebb3) : bool := negb (port s) || match err s with Some _ => true | None => false end.
Definition err_free (s : ebb3) : bool := match err s with None => true | Some _ => false end.

(* return values *)
Inductive rv := RNone | RBool (b : bool) | RInt (z : Z) | RStr (t : text) | RPair (a b : rv).

(* result of one public call: new state, outcome, lines written (without the final CR they all carry), rest of the script *)
Notation res A := (ebb3 * outcome A * list text * script)%type.

Definition cmd_name (c : text) : option text :=
  match c with
  | [] => None
  | [a] => Some [a]
  | a :: b :: _ => if b =? 44 then Some [a] else Some [a; b]
  end.
Definition reboot_like (n : text) : bool :=
  let l := lower n in text_eqb l (T "rb") || text_eqb l (T "r") || text_eqb l (T "bl").

(* response = readline().strip(); then up to n more reads while it is empty *)
Fixpoint retry (n : nat) (resp : text) (sc : script) : rd * script :=
  match n with
  | O => (RLine resp, sc)
  | S n' =>
      match resp with
      | [] => match readline sc with (RLine r, sc') => retry n' (strip r) sc' | (RRaise, sc') => (RRaise, sc') end
      | _ => (RLine resp, sc)
      end
  end.
Definition write_read (line : text) (sc : script) : bool * rd * script :=    (* wrote?, what was read *)
  let '(wok, sc1) := write_ok sc in
  if wok then
    match readline sc1 with
    | (RLine r, sc2) => let '(x, sc3) := retry 25 (strip r) sc2 in (true, x, sc3)
    | (RRaise, sc2) => (true, RRaise, sc2)
    end
  else (false, RRaise, sc1).

Definition command (s : ebb3) (cmd0 : text) (sc : script) : res bool :=
  if blocked s then (s, Ret false, [], sc) else
  let cmd := strip cmd0 in
  match cmd_name cmd with
  | None => (s, Raise IndexError, [], sc)
  | Some nm =>
      let '(wrote, io, sc') := write_read cmd sc in
      let '(s1, response) :=
        match io with
        | RLine r => (if startswith r nm then s else record_error s (match r with [] => E_TIMEOUT | _ => E_UNEXPECTED end), r)
        | RRaise => (if reboot_like nm then s else record_error s E_USB, [])
        end in
      let s2 := if contains response (T "Err:") then record_error s1 E_ERRREPLY else s1 in
      (s2, Ret (err_free s2), if wrote then [cmd] else [], sc')
  end.

Definition query (s : ebb3) (qry0 : text) (sc : script) : res (option text) :=
  if blocked s then (s, Ret None, [], sc) else
  let qry := strip qry0 in
  match cmd_name qry with
  | None => (s, Raise IndexError, [], sc)
  | Some nm =>
      let '(wrote, io, sc') := write_read qry sc in
      let w := if wrote then [qry] else [] in
      let after (response : text) :=
        if contains response (T "Err:") || negb (startswith response nm) then
          (record_error s (match response with [] => E_TIMEOUT | _ => E_UNEXPECTED end), Ret None, w, sc')
        else
          let hl := length nm in
          let hl := match nth_error response hl with Some c => if c =? 44 then S hl else hl | None => hl end in
          (s, Ret (Some (skipn hl response)), w, sc') in
      match io with
      | RLine r => after r
      | RRaise => if reboot_like nm then after [] else (record_error s E_USB, Ret None, w, sc')
      end
  end.

(* int(s, 16) on hexadecimal digits (surrounding whitespace allowed); None = ValueError *)
Definition hexval (c : Z) : option Z :=
  if (48 <=? c) && (c <=? 57) then Some (c - 48)
  else if (97 <=? c) && (c <=? 102) then Some (c - 87)
  else if (65 <=? c) && (c <=? 70) then Some (c - 55) else None.
Fixpoint parse_hex_digits (s : text) (acc : Z) : option Z :=
  match s with [] => Some acc | c :: t => match hexval c with Some v => parse_hex_digits t (acc * 16 + v) | None => None end end.
Definition parse_hex (s : text) : option Z :=
  match strip s with [] => None | d => parse_hex_digits d 0 end.

Definition query_statusbyte (c : cfg) (s : ebb3) (sc : script) : res rv :=
  if blocked s then (s, Ret RNone, [], sc) else
  let '(wok, sc1) := write_ok sc in
  if negb wok then (record_error s E_USB, Ret RNone, [], sc1) else
  match readline sc1 with
  | (RRaise, sc2) => (record_error s E_USB, Ret RNone, [T "QG"], sc2)
  | (RLine r0, sc2) =>
      let response := strip r0 in
      let mismatch := negb (startswith response (T "QG")) in
      let s1 := if mismatch then record_error s (match response with [] => E_TIMEOUT | _ => E_UNEXPECTED end) else s in
      if contains response (T "Err:") then (record_error s1 E_ERRREPLY, Ret RNone, [T "QG"], sc2)
      else if mismatch && fix_status c then (s1, Ret RNone, [T "QG"], sc2)
      else (s1, Ret (match parse_hex (skipn 3 response) with Some v => RInt v | None => RNone end), [T "QG"], sc2)
  end.

Definition var_write (s : ebb3) (value index : Z) (sc : script) : res bool :=
  if blocked s then (s, Ret false, [], sc) else
  let '(s1, o, w, sc1) := command s (cat [T "SL,"; str_of_Z value; T ","; str_of_Z index]) sc in
  match o with Raise e => (s1, Raise e, w, sc1) | Ret _ => (s1, Ret (err_free s1), w, sc1) end.

Definition var_read (s : ebb3) (index : Z) (sc : script) : res rv :=
  if blocked s then (s, Ret RNone, [], sc) else
  let '(s1, o, w, sc1) := query s (cat [T "QL,"; str_of_Z index]) sc in
  match o with
  | Raise e => (s1, Raise e, w, sc1)
  | Ret v =>
      if negb (err_free s1) then (s1, Ret RNone, w, sc1) else
      match v with
      | None => (s1, Raise TypeError, w, sc1)
      | Some t => match parse_int t with Some z => (s1, Ret (RInt z), w, sc1) | None => (s1, Raise ValueError, w, sc1) end
      end
  end.

(* value.to_bytes(4, 'big', signed=True); None = OverflowError *)
Definition to_bytes4 (v : Z) : option (list Z) :=
  if (v <? - 2147483648) || (2147483647 <? v) then None else
  let u := v mod 4294967296 in Some [u / 16777216; (u / 65536) mod 256; (u / 256) mod 256; u mod 256].
(* int.from_bytes([b0..b3], 'big', signed=True); None = ValueError (a value outside 0..255) *)
Definition from_bytes4 (b : list Z) : option Z :=
  if forallb (fun x => (0 <=? x) && (x <=? 255)) b then
    match b with
    | [a; b; c; d] => let u := a * 16777216 + b * 65536 + c * 256 + d in Some (if u <? 2147483648 then u else u - 4294967296)
    | _ => None
    end
  else None.

Fixpoint var_write_seq (s : ebb3) (bytes : list Z) (index : Z) (sc : script) (w : list text) : res unit :=
  match bytes with
  | [] => (s, Ret tt, w, sc)
  | b :: t =>
      let '(s1, o, w1, sc1) := var_write s b index sc in
      match o with Raise e => (s1, Raise e, w ++ w1, sc1) | Ret _ => var_write_seq s1 t (index + 1) sc1 (w ++ w1) end
  end.
Definition var_write_int32 (s : ebb3) (value start : Z) (sc : script) : res rv :=
  if blocked s then (s, Ret (RBool false), [], sc) else
  match to_bytes4 value with
  | None => (s, Raise OtherError, [], sc)
  | Some bytes =>
      let '(s1, o, w, sc1) := var_write_seq s bytes start sc [] in
      match o with Raise e => (s1, Raise e, w, sc1) | Ret _ => (s1, Ret (RBool (err_free s1)), w, sc1) end
  end.

Fixpoint var_read_seq (s : ebb3) (n : nat) (index : Z) (sc : script) (w : list text) (acc : list rv) : res (list rv) :=
  match n with
  | O => (s, Ret (rev acc), w, sc)
  | S n' =>
      let '(s1, o, w1, sc1) := var_read s index sc in
      match o with Raise e => (s1, Raise e, w ++ w1, sc1) | Ret v => var_read_seq s1 n' (index + 1) sc1 (w ++ w1) (v :: acc) end
  end.
Definition var_read_int32 (s : ebb3) (start : Z) (sc : script) : res rv :=
  if blocked s then (s, Ret (RBool false), [], sc) else
  let '(s1, o, w, sc1) := var_read_seq s 4 start sc [] [] in
  match o with
  | Raise e => (s1, Raise e, w, sc1)
  | Ret vs =>
      if negb (err_free s1) then (s1, Ret RNone, w, sc1) else
      match from_bytes4 (map (fun v => match v with RInt z => z | _ => -1 end) vs) with
      | Some z => (s1, Ret (RInt z), w, sc1)
      | None => (s1, Raise ValueError, w, sc1)
      end
  end.

Definition isspace (t : text) : bool := match t with [] => false | _ => forallb is_ws t end.
Definition query_nickname (s : ebb3) (sc : script) : res rv :=
  if blocked s then (s, Ret RNone, [], sc) else
  let '(s1, o, w, sc1) := query s (T "QT") sc in
  match o with
  | Raise e => (s1, Raise e, w, sc1)
  | Ret None => (s1, Ret RNone, w, sc1)
  | Ret (Some raw) => (if isspace raw then s1 else set_name s1 (strip raw), Ret RNone, w, sc1)
  end.
Definition write_nickname (c : cfg) (s : ebb3) (nick : option text) (sc : script) : res rv :=
  match nick with
  | None => (s, Ret (RBool false), [], sc)
  | Some n0 =>
      if blocked s then (s, Ret (RBool false), [], sc) else
      let n := strip n0 in
      let '(s1, o, w, sc1) := command s (T "ST," ++ n) sc in
      match o with
      | Raise e => (s1, Raise e, w, sc1)
      | Ret ok => if fix_nick c && negb ok then (s1, Ret (RBool false), w, sc1) else (set_name s1 n, Ret (RBool true), w, sc1)
      end
  end.

Definition disconnect (s : ebb3) (sc : script) : res rv := (set_port s false, Ret RNone, [], sc).
Definition raw_write_then_close (line : text) (s : ebb3) (sc : script) : res rv :=
  if blocked s then (s, Ret (RBool false), [], sc) else
  let '(wok, sc1) := write_ok sc in
  if wok then (set_port s false, Ret (RBool true), [line], sc1) else (s, Ret (RBool false), [], sc1).
Definition reboot := raw_write_then_close (T "RB").
Definition bootload := raw_write_then_close (T "BL").

(* ---------- versions ---------- *)
Fixpoint parse_version_aux (s : text) (cur : option Z) (acc : list Z) {struct s} : option (list Z) :=
  match s with
  | [] => match cur with Some v => Some (rev (v :: acc)) | None => None end
  | c :: t =>
      if is_digit c then parse_version_aux t (Some (match cur with Some v => v * 10 + (c - 48) | None => c - 48 end)) acc
      else if c =? 46 then match cur with Some v => parse_version_aux t None (v :: acc) | None => None end
      else None
  end.
(* packaging.version.parse on dotted decimal strings; None = InvalidVersion (or a form outside the model) *)
Definition parse_version (s : text) : option (list Z) := parse_version_aux (strip s) None [].
Fixpoint zeros_cmp (l : list Z) : comparison :=        (* l against 0.0.0... *)
  match l with [] => Eq | x :: t => match Z.compare x 0 with Eq => zeros_cmp t | c => c end end.
Fixpoint ver_cmp (a b : list Z) : comparison :=
  match a, b with
  | [], _ => CompOpp (zeros_cmp b)
  | _, [] => zeros_cmp a
  | x :: a', y :: b' => match Z.compare x y with Eq => ver_cmp a' b' | c => c end
  end.
Definition ver_ge (a b : list Z) : bool := match ver_cmp a b with Lt => false | _ => true end.

(* EBB3.min_version(version_string): Ret None = the argument is not a version *)
Definition min_version (s : ebb3) (vs : text) : outcome (option bool) :=
  match parse_version vs with
  | None => Ret None
  | Some want => match vparsed s with None => Raise TypeError | Some have => Ret (Some (ver_ge have want)) end
  end.
Definition MIN_VERSION : text := T "3.0.2".

(* ---------- connect ---------- *)
Notation portinfo := (text * text * text)%type.      (* (device, description, hwid) *)
Definition find_first (ports : list portinfo) : option text :=
  match List.find (fun p => startswith (snd (fst p)) (T "EiBotBoard")) ports with
  | Some p => Some (fst (fst p))
  | None => match List.find (fun p => startswith (snd p) (T "USB VID:PID=04D8:FD92")) ports with Some p => Some (fst (fst p)) | None => None end
  end.
Definition find_named (ports : list portinfo) (pn : text) : option text :=
  let needle := lower (T "SER=" ++ pn) in
  let needle2 := lower (T "(" ++ pn ++ T ")") in
  let plower := lower pn in
  match List.find (fun p => let p0 := lower (fst (fst p)) in let p1 := lower (snd (fst p)) in let p2 := lower (snd p) in
                       contains p2 needle || contains p1 needle2 || startswith (skipn 11 p1) plower || startswith p0 plower) ports with
  | Some p => Some (fst (fst p))
  | None => None
  end.

Definition probe (sc : script) : bool * rd * script :=      (* write 'v\r'; readline *)
  let '(wok, sc1) := write_ok sc in
  if wok then let '(r, sc2) := readline sc1 in (true, r, sc2) else (false, RRaise, sc1).
Definition is_ebb (r : text) : bool := match r with [] => false | _ => contains r (T "EBB") end.

Definition connect (s : ebb3) (ports : list portinfo) (given : option text) (sc : script) : res bool :=
  if port s then (s, Ret true, [], sc) else
  let pn := match given with None => find_first ports | Some g => find_named ports g end in
  match pn with
  | None => (record_error s E_LOCATE, Ret false, [], sc)
  | Some _ =>
      (* serial.Serial(...) *)
      let '(opened, sc0) := write_ok sc in
      let fail_usb s' w sc' := (set_port (record_error (record_error s' E_TESTUSB) E_CONNECT) false, Ret false, w, sc') in
      if negb opened then fail_usb s [] sc0 else
      let '(w1, r1, sc1) := probe sc0 in
      let lines1 := if w1 then [T "v"] else [] in
      match r1 with
      | RRaise => fail_usb s lines1 sc1
      | RLine l1 =>
          let v1 := strip l1 in
          let after_verified (ver : text) (w : list text) (sc' : script) : res bool :=
            let s1 := set_port s true in
            let s2 := match split_once (T "Firmware Version ") ver with
                      | (_, Some rest) => set_version s1 (parse_version rest)     (* an unparsable version raises InvalidVersion: see Raise below *)
                      | (_, None) => s1
                      end in
            match split_once (T "Firmware Version ") ver with
            | (_, Some rest) => match parse_version rest with None => (s2, Raise OtherError, w, sc') | Some _ =>
                match min_version s2 MIN_VERSION with
                | Raise e => (s2, Raise e, w, sc')
                | Ret (Some true) =>
                    (* CU,10,1 outside the try block; its reply is read and ignored *)
                    let '(wok, sc2) := write_ok sc' in
                    if negb wok then (s2, Raise OtherError, w, sc2) else
                    match readline sc2 with
                    | (RRaise, sc3) => (s2, Raise OtherError, w ++ [T "CU,10,1"], sc3)
                    | (RLine _, sc3) =>
                        let '(s3, o, wq, sc4) := query_nickname s2 sc3 in
                        match o with Raise e => (s3, Raise e, w ++ [T "CU,10,1"] ++ wq, sc4) | Ret _ => (s3, Ret true, w ++ [T "CU,10,1"] ++ wq, sc4) end
                    end
                | Ret _ => (record_error s2 E_VERSION, Ret false, w, sc')
                end end
            | (_, None) => (s2, Raise TypeError, w, sc')        (* version_parsed is None: None >= Version *)
            end in
          if is_ebb v1 then after_verified v1 lines1 sc1 else
          let '(w2, r2, sc2) := probe sc1 in
          let lines2 := lines1 ++ (if w2 then [T "v"] else []) in
          match r2 with
          | RRaise => fail_usb s lines2 sc2
          | RLine l2 =>
              let v2 := strip l2 in
              if is_ebb v2 then after_verified v2 lines2 sc2
              else (set_port (record_error s E_CONNECT) false, Ret false, lines2, sc2)
          end
      end
  end.

(* ---------- EBBMotionWrap ---------- *)
Definition guarded {A} (s : ebb3) (dflt : A) (sc : script) (k : unit -> res A) : res A :=
  if blocked s then (s, Ret dflt, [], sc) else k tt.
Definition cmd_rv (s : ebb3) (line : text) (sc : script) : res rv :=
  let '(s1, o, w, sc1) := command s line sc in
  (s1, match o with Raise e => Raise e | Ret _ => Ret RNone end, w, sc1).
Definition simple_cmd (s : ebb3) (line : text) (sc : script) : res rv := guarded s RNone sc (fun _ => cmd_rv s line sc).
Definition seq_rv (r1 : res rv) (k : ebb3 -> script -> res rv) : res rv :=
  let '(s1, o, w, sc1) := r1 in
  match o with
  | Raise e => (s1, Raise e, w, sc1)
  | Ret _ => let '(s2, o2, w2, sc2) := k s1 sc1 in (s2, o2, w ++ w2, sc2)
  end.

Fixpoint pause_loop (fuel : nat) (s : ebb3) (n : Z) (sc : script) (w : list text) : res rv :=
  match fuel with
  | O => (s, Raise OutOfFuel, w, sc)
  | S f =>
      if n <=? 0 then (s, Ret RNone, w, sc) else
      let d := if 750 <? n then 750 else Z.max n 1 in
      let '(s1, o, w1, sc1) := cmd_rv s (cat [T "SM,"; str_of_Z d; T ",0,0"]) sc in
      match o with Raise e => (s1, Raise e, w ++ w1, sc1) | Ret _ => pause_loop f s1 (n - d) sc1 (w ++ w1) end
  end.
Definition timed_pause (s : ebb3) (n : Z) (sc : script) : res rv :=
  guarded s RNone sc (fun _ => pause_loop (S (Z.to_nat (n / 750 + 1))) s n sc []).      (* fuel: one more than the number of chunks, at least 1 (n <= 0 sends nothing) *)

Definition xy_move (s : ebb3) (dx dy dur : Z) := simple_cmd s (cat [T "SM,"; str_of_Z dur; T ","; str_of_Z dy; T ","; str_of_Z dx]).
Definition abs_move (s : ebb3) (rate : Z) (p1 p2 : option Z) :=
  simple_cmd s (match p1, p2 with
                | Some a, Some b => cat [T "HM,"; str_of_Z rate; T ","; str_of_Z a; T ","; str_of_Z b]
                | _, _ => cat [T "HM,"; str_of_Z rate]
                end).
Definition motors_disable (s : ebb3) := simple_cmd s (T "EM,0,0").

Definition res_map (q : Z) : option Z :=
  match q with 16 => Some 1 | 8 => Some 2 | 4 => Some 3 | 2 => Some 4 | 1 => Some 5 | 0 => Some 0 | _ => None end.
Definition motors_query_enabled (s : ebb3) (sc : script) : res rv :=
  guarded s RNone sc (fun _ =>
    let '(s1, o, w, sc1) := query s (T "QE") sc in
    match o with
    | Raise e => (s1, Raise e, w, sc1)
    | Ret None => (s1, Ret RNone, w, sc1)
    | Ret (Some r) =>
        match split_c 44 r with
        | a :: b :: _ =>
            match parse_int a, parse_int b with
            | Some x, Some y => match res_map x, res_map y with
                                | Some p, Some q => (s1, Ret (RPair (RInt p) (RInt q)), w, sc1)
                                | _, _ => (s1, Raise KeyError, w, sc1) end
            | _, _ => (s1, Raise ValueError, w, sc1)
            end
        | _ => (s1, Raise IndexError, w, sc1)      (* also ValueError for an empty field; both are "raises" *)
        end
    end).
Definition clamp05 (r : Z) : Z := Z.min (Z.max r 0) 5.
Definition motors_enable (s : ebb3) (r1 r2 : Z) (sc : script) : res rv :=
  guarded s RNone sc (fun _ =>
    let r1 := clamp05 r1 in let r2 := clamp05 r2 in
    let step1 : res rv := if negb (r1 =? r2) && (r1 * r2 =? 0) then cmd_rv s (T "CU,50,0") sc else (s, Ret RNone, [], sc) in
    seq_rv step1 (fun s1 sc1 =>
      let final s' sc' := cmd_rv s' (cat [T "EM,"; str_of_Z r1; T ","; str_of_Z r2]) sc' in
      if (r1 =? 0) && negb (r2 =? 0) then
        let '(s2, o, w, sc2) := motors_query_enabled s1 sc1 in
        match o with
        | Raise e => (s2, Raise e, w, sc2)
        | Ret (RPair (RInt m0) (RInt m1)) =>
            let old := if negb (m0 =? 0) then m0 else if negb (m1 =? 0) then m1 else 0 in
            seq_rv (if negb (old =? r2) then
                      let '(s3, o3, w3, sc3) := cmd_rv s2 (cat [T "EM,"; str_of_Z r2; T ","; str_of_Z r2]) sc2 in (s3, o3, w ++ w3, sc3)
                    else (s2, Ret RNone, w, sc2)) final
        | Ret _ => (s2, Ret RNone, w, sc2)
        end
      else final s1 sc1)).

Definition query_steps (s : ebb3) (sc : script) : res rv :=
  guarded s RNone sc (fun _ =>
    let '(s1, o, w, sc1) := query s (T "QS") sc in
    match o with
    | Raise e => (s1, Raise e, w, sc1)
    | Ret v =>
        if negb (err_free s1) then (s1, Ret RNone, w, sc1) else
        match v with
        | None => (s1, Raise AttributeError, w, sc1)
        | Some r => match split_c 44 (strip r) with
                    | a :: b :: _ => match parse_int a, parse_int b with
                                     | Some x, Some y => (s1, Ret (RPair (RInt x) (RInt y)), w, sc1)
                                     | _, _ => (s1, Raise ValueError, w, sc1) end
                    | _ => (s1, Raise IndexError, w, sc1)
                    end
        end
    end).
Definition clear_steps (s : ebb3) := simple_cmd s (T "CS").
Definition clear_accumulators (s : ebb3) := simple_cmd s (T "T3,1,0,0,0,0,0,0,3").
Definition pen_cmd (c : cfg) (updown : Z) (s : ebb3) (delay : Z) (pin : option Z) :=
  let with_pin := match pin with Some p => if fix_pin c then true else negb (p =? 0) | None => false end in
  simple_cmd s (if with_pin then cat [T "SP,"; str_of_Z updown; T ","; str_of_Z delay; T ","; str_of_Z (match pin with Some p => p | None => 0 end)]
                else cat [T "SP,"; str_of_Z updown; T ","; str_of_Z delay]).
Definition pen_lower (c : cfg) := pen_cmd c 0.
Definition pen_raise (c : cfg) := pen_cmd c 1.
Definition dio_b_config (s : ebb3) (pin state dir : Z) (sc : script) : res rv :=
  guarded s RNone sc (fun _ =>
    seq_rv (cmd_rv s (cat [T "PO,B,"; str_of_Z pin; T ","; str_of_Z state]) sc)
           (fun s1 sc1 => cmd_rv s1 (cat [T "PD,B,"; str_of_Z pin; T ","; str_of_Z dir]) sc1)).
Definition dio_b_set (s : ebb3) (pin state : Z) := simple_cmd s (cat [T "PO,B,"; str_of_Z pin; T ","; str_of_Z state]).
Definition dio_b_read (s : ebb3) (pin : Z) (sc : script) : res rv :=
  guarded s RNone sc (fun _ =>
    let '(s1, o, w, sc1) := query s (cat [T "PI,B,"; str_of_Z pin]) sc in
    match o with
    | Raise e => (s1, Raise e, w, sc1)
    | Ret None => (s1, Ret RNone, w, sc1)
    | Ret (Some r) => match parse_int r with Some z => (s1, Ret (RBool (negb (z =? 0))), w, sc1) | None => (s1, Raise ValueError, w, sc1) end
    end).
Definition pen_pos_down (s : ebb3) (v : Z) := simple_cmd s (cat [T "SC,5,"; str_of_Z v]).
Definition pen_pos_up (s : ebb3) (v : Z) := simple_cmd s (cat [T "SC,4,"; str_of_Z v]).
Definition pen_rate_down (s : ebb3) (v : Z) := simple_cmd s (cat [T "SC,12,"; str_of_Z v]).
Definition pen_rate_up (s : ebb3) (v : Z) := simple_cmd s (cat [T "SC,11,"; str_of_Z v]).
Definition servo_timeout (s : ebb3) (ms : Z) (state : option Z) :=
  simple_cmd s (match state with None => cat [T "SR,"; str_of_Z ms] | Some st => cat [T "SR,"; str_of_Z ms; T ","; str_of_Z st] end).

(* self.query('QC').split(",", 1) *)
Definition qc (c : cfg) (s : ebb3) (sc : script) : ebb3 * outcome (option (option (text * text))) * list text * script :=
  let '(s1, o, w, sc1) := query s (T "QC") sc in
  match o with
  | Raise e => (s1, Raise e, w, sc1)
  | Ret None => if fix_volt c then (s1, Ret None, w, sc1) else (s1, Raise AttributeError, w, sc1)
  | Ret (Some r) => match split_once (T ",") r with
                    | (a, Some b) => (s1, Ret (Some (Some (a, b))), w, sc1)
                    | (_, None) => (s1, Ret (Some None), w, sc1)
                    end
  end.
Definition query_voltage (c : cfg) (s : ebb3) (threshold : option Z) (sc : script) : res rv :=
  guarded s RNone sc (fun _ =>
    let th := match threshold with Some t => t | None => 250 end in
    let '(s1, o, w, sc1) := qc c s sc in
    match o with
    | Raise e => (s1, Raise e, w, sc1)
    | Ret None => (s1, Ret RNone, w, sc1)
    | Ret (Some None) => (s1, Ret RNone, w, sc1)
    | Ret (Some (Some (_, b))) => match parse_int b with
                                  | Some v => (s1, Ret (RBool (negb (v <? th))), w, sc1)
                                  | None => (s1, Raise ValueError, w, sc1) end
    end).
Definition query_current (c : cfg) (s : ebb3) (sc : script) : res rv :=
  guarded s (RPair RNone RNone) sc (fun _ =>
    let '(s1, o, w, sc1) := qc c s sc in
    match o with
    | Raise e => (s1, Raise e, w, sc1)
    | Ret None => (s1, Ret (RPair RNone RNone), w, sc1)
    | Ret (Some None) => (s1, Ret (RPair RNone RNone), w, sc1)
    | Ret (Some (Some (a, b))) => match parse_int a, parse_int b with
                                  | Some x, Some y => (s1, Ret (RPair (RInt x) (RInt y)), w, sc1)
                                  | _, _ => (s1, Raise ValueError, w, sc1) end
    end).

(* ---------- the public calls ---------- *)
Inductive call :=
| CConnect (ports : list portinfo) (given : option text) | CDisconnect
| CCommand (c : text) | CQuery (q : text) | CStatus | CReboot | CBootload
| CVarWrite (v i : Z) | CVarRead (i : Z) | CVarWrite32 (v i : Z) | CVarRead32 (i : Z)
| CQueryNick | CWriteNick (n : option text)
| CPause (n : Z) | CXY (dx dy dur : Z) | CAbs (rate : Z) (p1 p2 : option Z) | CMotorsOff | CMotorsOn (r1 r2 : Z) | CMotorsQuery
| CSteps | CClearSteps | CClearAcc | CPenLower (d : Z) (pin : option Z) | CPenRaise (d : Z) (pin : option Z)
| CBConfig (pin st dir : Z) | CBSet (pin st : Z) | CBRead (pin : Z)
| CPosDown (v : Z) | CPosUp (v : Z) | CRateDown (v : Z) | CRateUp (v : Z) | CServoTimeout (ms : Z) (st : option Z)
| CVoltage (th : option Z) | CCurrent.

Definition lift_bool (r : res bool) : res rv := let '(s, o, w, sc) := r in (s, match o with Ret b => Ret (RBool b) | Raise e => Raise e end, w, sc).
Definition lift_otext (r : res (option text)) : res rv :=
  let '(s, o, w, sc) := r in (s, match o with Ret (Some t) => Ret (RStr t) | Ret None => Ret RNone | Raise e => Raise e end, w, sc).

Definition step (c : cfg) (s : ebb3) (k : call) (sc : script) : res rv :=
  match k with
  | CConnect ports g => lift_bool (connect s ports g sc)
  | CDisconnect => disconnect s sc
  | CCommand t => lift_bool (command s t sc)
  | CQuery t => lift_otext (query s t sc)
  | CStatus => query_statusbyte c s sc
  | CReboot => reboot s sc
  | CBootload => bootload s sc
  | CVarWrite v i => lift_bool (var_write s v i sc)
  | CVarRead i => var_read s i sc
  | CVarWrite32 v i => var_write_int32 s v i sc
  | CVarRead32 i => var_read_int32 s i sc
  | CQueryNick => query_nickname s sc
  | CWriteNick n => write_nickname c s n sc
  | CPause n => timed_pause s n sc
  | CXY dx dy dur => xy_move s dx dy dur sc
  | CAbs r p1 p2 => abs_move s r p1 p2 sc
  | CMotorsOff => motors_disable s sc
  | CMotorsOn r1 r2 => motors_enable s r1 r2 sc
  | CMotorsQuery => motors_query_enabled s sc
  | CSteps => query_steps s sc
  | CClearSteps => clear_steps s sc
  | CClearAcc => clear_accumulators s sc
  | CPenLower d p => pen_lower c s d p sc
  | CPenRaise d p => pen_raise c s d p sc
  | CBConfig p st d => dio_b_config s p st d sc
  | CBSet p st => dio_b_set s p st sc
  | CBRead p => dio_b_read s p sc
  | CPosDown v => pen_pos_down s v sc
  | CPosUp v => pen_pos_up s v sc
  | CRateDown v => pen_rate_down s v sc
  | CRateUp v => pen_rate_up s v sc
  | CServoTimeout ms st => servo_timeout s ms st sc
  | CVoltage th => query_voltage c s th sc
  | CCurrent => query_current c s sc
  end.

(* what a blocked object answers *)
Definition failure_value (k : call) : rv :=
  match k with
  | CCommand _ | CVarWrite _ _ | CVarWrite32 _ _ | CVarRead32 _ | CReboot | CBootload | CWriteNick _ => RBool false
  | CCurrent => RPair RNone RNone
  | _ => RNone
  end.
Definition is_request (k : call) : bool := match k with CConnect _ _ | CDisconnect => false | _ => true end.
