(* ebb_calc.py in exact arithmetic (the "ExactQ" layer): the same expressions in
   the same order, with mpmath / float values read as rationals.  [int(x / 2)] on
   ints is the float quotient truncated toward zero = Z.quot on the domain
   (|x| < 2^53).  No proofs here. *)
From Plotink Require Import Base.Prelude.
Open Scope Z_scope.

Definition iz := inject_Z.
Definition Qtrunc (x : Q) : Z := if Qltb x 0 then Qceiling x else Qfloor x.      (* int(x) *)
(* round(): half to even *)
Definition Qround_he (x : Q) : Z :=
  let f := Qfloor x in
  let d := (x - inject_Z f)%Q in
  match Qcompare d (1#2) with
  | Lt => f | Gt => f + 1
  | Eq => if Z.even f then f else f + 1
  end.

Definition clear_lt (rate accel : Z) : Z :=
  let temp_rate := rate - Z.quot accel 2 + accel in
  if temp_rate <? 0 then 2147483647
  else if temp_rate =? 0 then (if accel <? 0 then 2147483647 else 0)
  else 0.

(* move_dist_lt(rate, accel, time, accum); accum = None stands for "clear" *)
Definition move_dist_lt (rate accel time : Z) (accum : option Z) : Z * Z :=
  if time =? 0 then (0, 0) else
  let half_accel := Z.quot accel 2 in
  let accum := match accum with None => clear_lt rate accel | Some c => c end in
  let rate_effective := (iz rate + iz accel / 2 - iz half_accel)%Q in
  let accum_final := (iz accum + rate_effective * iz time + iz accel * iz time * iz time / 2)%Q in
  let pos_final := Qfloor (accum_final / iz 2147483648) in
  let accum_final := (accum_final - iz 2147483648 * iz pos_final)%Q in
  (pos_final, Qtrunc accum_final).

(* deprecated aliases in ebb_motion.py *)
Definition moveDistLMA := move_dist_lt.
Definition moveDistLM (rate accel time : Z) : Z := fst (move_dist_lt rate accel time (Some 0)).

Definition clear_t3 (rate accel jerk : Z) : Z :=
  let half_accel := Z.quot accel 2 in
  let jerk_over_six := Z.quot jerk 6 in
  let temp_rate := rate - half_accel + jerk_over_six + accel in
  if temp_rate <? 0 then 2147483647
  else if temp_rate =? 0 then
    let temp_rate := accel + jerk in
    if temp_rate <? 0 then 2147483647
    else if temp_rate =? 0 then (if jerk <? 0 then 2147483647 else 0)
    else 0
  else 0.

Definition move_dist_t3 (time rate accel jerk : Z) (accum : option Z) : Z * Z :=
  if time =? 0 then (0, 0) else
  let half_accel := Z.quot accel 2 in
  let jerk_over_six := Z.quot jerk 6 in
  let accum := match accum with None => clear_t3 rate accel jerk | Some c => c end in
  let rate_effective := (iz rate + iz accel / 2 - iz half_accel + iz jerk_over_six - iz jerk / 6)%Q in
  let rate_effective := if Qltb (Qabs (rate_effective - iz rate)) (1#100) then iz rate else rate_effective in
  let accum_final := (iz accum + rate_effective * iz time + iz accel * iz time * iz time / 2
                      + iz jerk * iz time * iz time * iz time / 6)%Q in
  let accum_final := iz (Qround_he accum_final) in
  let pos_final := Qfloor (accum_final / iz 2147483648) in
  let accum_final := (accum_final - iz 2147483648 * iz pos_final)%Q in
  (pos_final, Qtrunc accum_final).

Definition rate_t3 (time rate accel jerk : Z) : Z :=
  if time =? 0 then rate + accel + jerk else
  Qround_he (iz rate - iz (Z.quot accel 2) + iz (Z.quot jerk 6)
             + (iz accel - iz jerk / 2) * iz time + iz jerk * iz time * iz time / 2)%Q.

Definition max_rate_t3 (time rate accel jerk : Z) : Z :=
  let v_start := Z.abs (rate_t3 1 rate accel jerk) in
  if time <=? 1 then v_start else
  let v_end := Z.abs (rate_t3 time rate accel jerk) in
  if jerk =? 0 then Z.max v_start v_end else
  let t_mid := ((iz jerk / 2 - iz accel) / iz jerk)%Q in
  if Qltb (3#2) t_mid && Qltb t_mid (iz time - (3#2)) then
    let v_mid := Z.abs (rate_t3 (Qceiling t_mid) rate accel jerk) in
    Z.max (Z.max v_start v_end) v_mid
  else Z.max v_start v_end.
