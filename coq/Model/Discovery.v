(* Port discovery in both serial layers: findPort / EBB3.find_first, listEBBports / list_ebb_ports,
   list_named_ebbs (x2), find_named_ebb / find_named.  A port is (device, description, hwid).
   comports() raising TypeError is the harness's business (every function then returns None). *)
From Plotink Require Import Base.Prelude Base.PyStr Model.Serial3.
Open Scope Z_scope.

Definition dev (p : portinfo) : text := fst (fst p).
Definition desc (p : portinfo) : text := snd (fst p).
Definition hwid (p : portinfo) : text := snd p.

Definition by_name (p : portinfo) : bool := startswith (desc p) (T "EiBotBoard").
Definition by_vidpid (p : portinfo) : bool := startswith (hwid p) (T "USB VID:PID=04D8:FD92").
Definition is_ebb_port (p : portinfo) : bool := by_name p || by_vidpid p.

(* findPort() and EBB3.find_first() are the same two-pass search (Serial3.find_first) *)
Definition findPort := find_first.

(* listEBBports() / list_ebb_ports(): None when empty *)
Definition list_ebb_ports (ports : list portinfo) : option (list portinfo) :=
  match filter is_ebb_port ports with [] => None | l => Some l end.

(* s[a:b] with python semantics for b = -1 (find failed): everything but the last character *)
Definition pyslice (s : text) (a b : Z) : text :=
  if b <? 0 then firstn (Z.to_nat (Z.of_nat (length s) + b - a)) (skipn (Z.to_nat a) s)
  else firstn (Z.to_nat (b - a)) (skipn (Z.to_nat a) s).

Definition name_of (legacy : bool) (p : portinfo) : text :=
  let from_desc := if by_name p then skipn 11 (desc p) else [] in
  match from_desc with
  | _ :: _ => from_desc
  | [] =>
      let p2 := hwid p in
      let ser :=
        if contains p2 (T "SER=") && contains p2 (T " LOCAT") then
          let i1 := find p2 (T "SER=") 0 + 4 in
          let i2 := find p2 (T " LOCAT") i1 in
          let t := pyslice p2 i1 i2 in
          if (length t <? 3)%nat then [] else t
        else [] in
      match ser with
      | _ :: _ => ser
      | [] =>
          let snr :=
            if legacy && contains p2 (T "SNR=") then
              let t := skipn (Z.to_nat (find p2 (T "SNR=") 0 + 4)) p2 in
              if (length t <? 3)%nat then [] else t
            else [] in
          match snr with _ :: _ => snr | [] => dev p end
      end
  end.
Definition list_named_ebbs (legacy : bool) (ports : list portinfo) : option (list text) :=
  match list_ebb_ports ports with None => None | Some l => Some (map (name_of legacy) l) end.

(* does this port answer to the given name?  (legacy adds the SNR= tag of pyserial 2.7) *)
Definition matches (legacy : bool) (pn : text) (p : portinfo) : bool :=
  let p0 := lower (dev p) in let p1 := lower (desc p) in let p2 := lower (hwid p) in
  contains p2 (lower (T "SER=" ++ pn)) ||
  (legacy && contains p2 (lower (T "SNR=" ++ pn))) ||
  contains p1 (lower (T "(" ++ pn ++ T ")")) ||
  startswith (skipn 11 p1) (lower pn) || startswith p0 (lower pn).
Definition find_named_l (legacy : bool) (ports : list portinfo) (pn : option text) : option text :=
  match pn with
  | None => None
  | Some n => match List.find (matches legacy n) ports with Some p => Some (dev p) | None => None end
  end.
