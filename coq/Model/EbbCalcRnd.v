(* ebb_calc.move_dist_lt with every mpmath operation followed by a rounding operator [rnd] (the arithmetic the code really runs:
   mpmath at 30 decimal digits = 103 bits).  Python ints enter mpmath operations exactly.  No proofs here. *)
From Plotink Require Import Base.Prelude Model.EbbCalc.
Open Scope Z_scope.


(* the statements of move_dist_lt in evaluation order; python ints enter mpmath operations exactly *)
Definition move_dist_lt_r (rnd : Q -> Q) (rate accel time : Z) (accum : option Z) : Z * Z :=
  if time =? 0 then (0, 0) else
  let half_accel := Z.quot accel 2 in
  let accum := match accum with None => clear_lt rate accel | Some c => c end in
  let t1 := rnd (iz accel / 2)%Q in
  let t2 := rnd (iz rate + t1)%Q in
  let re := rnd (t2 - iz half_accel)%Q in
  let u1 := rnd (re * iz time)%Q in
  let u2 := rnd (iz accum + u1)%Q in
  let v1 := rnd (iz accel * iz time)%Q in
  let v2 := rnd (v1 * iz time)%Q in
  let v3 := rnd (v2 / 2)%Q in
  let af := rnd (u2 + v3)%Q in
  let w := rnd (af / iz 2147483648)%Q in
  let pos_final := Qfloor w in
  let pr := rnd (iz 2147483648 * iz pos_final)%Q in
  let af2 := rnd (af - pr)%Q in
  (pos_final, Qtrunc af2).

(* a number with a significand of fewer than 103 bits: k / 2^n *)
Definition rep103 (x : Q) : Prop := exists k n : Z, 0 <= n /\ Z.abs k < 2 ^ 103 /\ (x == iz k / iz (2 ^ n))%Q.


(* ---- move_dist_t3: the same, with the inexact division by 6 ---- *)
(* a rounding operator with relative error at most 2^-102 (round to nearest at 103 bits has 2^-103) *)
Definition eps103 : Q := 1 # (2 ^ 102).
(* python's float literal 0.01 *)
Definition c001 : Q := 5764607523034235 # (2 ^ 59).

Definition move_dist_t3_r (rnd : Q -> Q) (time rate accel jerk : Z) (accum : option Z) : Z * Z :=
  if time =? 0 then (0, 0) else
  let half_accel := Z.quot accel 2 in
  let jerk_over_six := Z.quot jerk 6 in
  let accum := match accum with None => clear_t3 rate accel jerk | Some c => c end in
  let t1 := rnd (iz accel / 2)%Q in
  let t2 := rnd (iz rate + t1)%Q in
  let t3 := rnd (t2 - iz half_accel)%Q in
  let t4 := rnd (t3 + iz jerk_over_six)%Q in
  let t5 := rnd (iz jerk / 6)%Q in
  let re0 := rnd (t4 - t5)%Q in
  let d := rnd (re0 - iz rate)%Q in
  let re := if Qltb (Qabs d) c001 then iz rate else re0 in
  let u1 := rnd (re * iz time)%Q in
  let u2 := rnd (iz accum + u1)%Q in
  let v1 := rnd (iz accel * iz time)%Q in
  let v2 := rnd (v1 * iz time)%Q in
  let v3 := rnd (v2 / 2)%Q in
  let u3 := rnd (u2 + v3)%Q in
  let w1 := rnd (iz jerk * iz time)%Q in
  let w2 := rnd (w1 * iz time)%Q in
  let w3 := rnd (w2 * iz time)%Q in
  let w4 := rnd (w3 / 6)%Q in
  let af := rnd (u3 + w4)%Q in
  let n := Qround_he af in
  let w := rnd (iz n / iz 2147483648)%Q in
  let pos_final := Qfloor w in
  let pr := rnd (iz 2147483648 * iz pos_final)%Q in
  let af2 := rnd (iz n - pr)%Q in
  (pos_final, Qtrunc af2).


(* ---- rate_t3: CPython floats (binary64) ---- *)
(* rate_t3 in CPython's arithmetic: integers are exact, jerk/2 and the products and sums that follow are binary64 floats *)
Definition rate_t3_r (rnd : Q -> Q) (time rate accel jerk : Z) : Z :=
  if time =? 0 then rate + accel + jerk else
  let i1 := rate - Z.quot accel 2 + Z.quot jerk 6 in
  let f1 := rnd (iz jerk / 2)%Q in
  let f2 := rnd (iz accel - f1)%Q in
  let f3 := rnd (f2 * iz time)%Q in
  let s1 := rnd (iz i1 + f3)%Q in
  let f4 := rnd (iz (jerk * time * time) / 2)%Q in
  let s2 := rnd (s1 + f4)%Q in
  Qround_he s2.

(* a binary64 number: k / 2^n with |k| < 2^53 *)
Definition rep53 (x : Q) : Prop := exists k n : Z, 0 <= n /\ Z.abs k < 2 ^ 53 /\ (x == iz k / iz (2 ^ n))%Q.


(* max_rate_t3 in CPython's arithmetic: the vertex of the rate parabola t_mid = (jerk/2 - accel) / jerk is a binary64 quotient, compared
   with 1.5 and time - 1.5 and rounded up with math.ceil; the three rates come from rate_t3 (floats, above) *)
Definition max_rate_t3_r (rnd : Q -> Q) (time rate accel jerk : Z) : Z :=
  let v_start := Z.abs (rate_t3_r rnd 1 rate accel jerk) in
  if time <=? 1 then v_start else
  let v_end := Z.abs (rate_t3_r rnd time rate accel jerk) in
  if jerk =? 0 then Z.max v_start v_end else
  let f1 := rnd (iz jerk / 2)%Q in
  let f2 := rnd (f1 - iz accel)%Q in
  let t_mid := rnd (f2 / iz jerk)%Q in
  let hi := rnd (iz time - (3 # 2))%Q in
  if Qltb (3 # 2) t_mid && Qltb t_mid hi then
    let v_mid := Z.abs (rate_t3_r rnd (Qceiling t_mid) rate accel jerk) in
    Z.max (Z.max v_start v_end) v_mid
  else Z.max v_start v_end.
