(* Exact-arithmetic model of ebb_calc.calculate_lm (the tree after d4f9bdd), statement by statement.
   Half-integers are carried doubled: b2 = 2 * rate_effective, D4 = 4 * discriminant, so that everything is an integer;
   the real square root and the two mpmath.ceil calls become ceil_root (least integer n with n >= (N +- sqrt D) / M), computed
   with Z.sqrt.  mpmath at 30 digits is read as exact arithmetic (the C01 convention).  No proofs here. *)
From Coq Require Import ZArith Bool.
From Plotink Require Import Spec.Firmware.
Open Scope Z_scope.

Definition cdiv (n d : Z) : Z := - ((- n) / d).                      (* ceil (n / d), d <> 0 *)

(* least integer n with n >= (N + sg * sqrt D) / M, for D >= 0, M <> 0, sg = true for +, false for - *)
Definition ceil_root (sg : bool) (N M D : Z) : Z :=
  let s0 := Z.sqrt D in
  let sc := if s0 * s0 =? D then s0 else s0 + 1 in                   (* ceil (sqrt D) *)
  if 0 <? M then (if sg then cdiv (N + sc) M else cdiv (N - s0) M)
  else (* (N + sg sqrt D) / M = (-N - sg sqrt D) / (-M) *)
       (if sg then cdiv (- N - s0) (- M) else cdiv (- N + sc) (- M)).

Record lm_mid := { m_neg : bool; m_acc : Z; m_adj : Z; m_trev : Z; m_srev : Z; m_pos : Z; m_padj : Z; m_rev : bool }.

(* the part of calculate_lm before the time calculation; steps > 0, (rate, accel) <> (0, 0) already *)
Definition lm_front (steps rate accel : Z) (accum : option Z) : lm_mid :=
  let q := Z.quot accel 2 in
  let temp_rate := rate - q + accel in
  let neg := (temp_rate <? 0) || ((temp_rate =? 0) && (accel <? 0)) in
  let acc := match accum with None => if neg then M31 else 0 | Some c => c end in
  let adj := if neg then acc - M31 else acc in
  let rate_zero := rate - q in
  let t_rev := if neg && (0 <? accel) then (- rate_zero) / accel
               else if negb neg && (accel <? 0) then rate_zero / (- accel) else -1 in
  let s_rev := if 0 <? t_rev
               then Z.abs (adj + rate_zero * t_rev + accel * (t_rev * (t_rev + 1) / 2)) / B31 else 0 in
  if (t_rev <? 1) || (steps <=? s_rev) then
    let p := if neg then - steps else steps in
    {| m_neg := neg; m_acc := acc; m_adj := adj; m_trev := -1; m_srev := s_rev; m_pos := p; m_padj := p; m_rev := false |}
  else if s_rev =? 0 then
    let p := if 0 <? accel then steps else - steps in
    {| m_neg := neg; m_acc := acc; m_adj := adj; m_trev := t_rev; m_srev := s_rev; m_pos := p;
       m_padj := if 0 <? accel then p - 1 else p + 1; m_rev := true |}
  else
    let net := s_rev - (steps - s_rev) in
    let p := if 0 <? accel then - net else net in
    {| m_neg := neg; m_acc := acc; m_adj := adj; m_trev := t_rev; m_srev := s_rev; m_pos := p;
       m_padj := if 0 <? accel then p - 1 else p + 1; m_rev := true |}.

(* duration *)
Definition lm_time (rate accel : Z) (m : lm_mid) : Z :=
  if accel =? 0 then cdiv (B31 * m_pos m - m_adj m) rate
  else
    let b2 := 2 * rate + accel - 2 * Z.quot accel 2 in                (* 2 * rate_effective *)
    let c0 := m_adj m - m_padj m * B31 in
    let c := if m_rev m then (if accel <? 0 then c0 + 1 else c0 - 1) else c0 in
    let D4 := b2 * b2 - 8 * accel * c in                              (* 4 * discriminant *)
    if D4 <? 0 then 0 else
    let neg_root := ceil_root false (- b2) (2 * accel) D4 in
    let pos_root := ceil_root true (- b2) (2 * accel) D4 in
    let neg_root := if m_rev m && (neg_root <=? m_trev m) then -1 else neg_root in
    let pos_root := if m_rev m && (pos_root <=? m_trev m) then -1 else pos_root in
    let t0 := if 0 <? neg_root then neg_root else 0 in
    if 0 <? pos_root then (if 0 <? neg_root then (if pos_root <? neg_root then pos_root else t0) else pos_root) else t0.

Definition lm_model (steps rate accel : Z) (accum : option Z) : Z * Z * Z :=
  if (steps =? 0) || ((rate =? 0) && (accel =? 0)) then (0, 0, 0) else
  if (steps <? 0) && (rate <? 0) then (0, 0, 0) else
  let '(steps, rate, accel) := if steps <? 0 then (- steps, - rate, - accel) else (steps, rate, accel) in
  let m := lm_front steps rate accel accum in
  let T := lm_time rate accel m in
  let r0 := rate - Z.quot accel 2 in
  (T, m_pos m, m_acc m + r0 * T + accel * (T * (T + 1) / 2) - B31 * m_pos m).
