(* spatial_grid.Index: constructor, find_adjacents, nearest, remove_path.  Exact arithmetic.
   Path ends are identified by naturals: i < count is the start of path i, count + i its end (reverse only). *)
From Plotink Require Import Base.Prelude.
Open Scope Z_scope.

Notation pt := (Q * Q)%type.
Notation path := (pt * pt)%type.        (* (first vertex, last vertex) *)

(* adjacency list of one cell, in the order in which find_adjacents appends *)
Definition adjacent (b : Z) (idx : Z) : list Z :=
  let xc := idx mod b in let yr := idx / b in let mb := b - 1 in
  [idx] ++
  (if 0 <? xc then [idx - 1] ++ (if 0 <? yr then [idx - b - 1] else []) ++ (if yr <? mb then [idx + b - 1] else []) else []) ++
  (if xc <? mb then [idx + 1] ++ (if 0 <? yr then [idx - b + 1] else []) ++ (if yr <? mb then [idx + b + 1] else []) else []) ++
  (if 0 <? yr then [idx - b] else []) ++ (if yr <? mb then [idx + b] else []).

Record index := mkindex {
  bins : Z; count : nat; rev_ok : bool;
  gxmin : Q; gymin : Q; bsx : Q; bsy : Q;
  verts : list path;
  grid : list (list nat);      (* cell -> ids, in insertion order *)
  lookup : list nat            (* id -> cell *)
}.

(* extent over the points that define it: path starts, and path ends when reversal is allowed; None = no point *)
Definition ext_pts (vs : list path) (reverse : bool) : list pt :=
  flat_map (fun p => if reverse then [fst p; snd p] else [fst p]) vs.
Definition fold_min (l : list Q) : option Q := match l with [] => None | x :: t => Some (fold_left pymin t x) end.
Definition fold_max (l : list Q) : option Q := match l with [] => None | x :: t => Some (fold_left pymax t x) end.

Definition cell_coord (v lo bs : Q) (maxbin : Z) : Z := Z.min (Qfloor ((v - lo) / bs)) maxbin.
Definition cell_of_build (b : Z) (xmin ymin bx by_ : Q) (p : pt) : Z :=
  cell_coord (fst p) xmin bx (b - 1) + b * cell_coord (snd p) ymin by_ (b - 1).

Fixpoint set_nth {A} (n : nat) (f : A -> A) (l : list A) : list A :=
  match l, n with
  | [], _ => []
  | x :: t, O => f x :: t
  | x :: t, S k => x :: set_nth k f t
  end.

(* Index(vertices, bins_per_side, reverse) *)
Definition build (vs : list path) (b : Z) (reverse : bool) : outcome index :=
  let pts := ext_pts vs reverse in
  match fold_min (map fst pts), fold_max (map fst pts), fold_min (map snd pts), fold_max (map snd pts) with
  | Some x0, Some x1, Some y0, Some y1 =>
      let shim := ((x1 - x0 + y1 - y0) / 200)%Q in
      let xmin := (x0 - shim)%Q in let ymin := (y0 - shim)%Q in
      let xmax := (x1 + shim)%Q in let ymax := (y1 + shim)%Q in
      let bx := ((xmax - xmin) / inject_Z b)%Q in let by_ := ((ymax - ymin) / inject_Z b)%Q in
      if Qeqb bx 0 || Qeqb by_ 0 then Raise ZeroDivisionError else
      let n := length vs in
      let cells := Z.to_nat (b * b) in
      (* ids are appended path by path: start of path i, then (reverse) end of path i *)
      let ends : list (nat * pt) :=
        flat_map (fun ip => let '(i, p) := ip in
                            if reverse then [(i, fst p); ((n + i)%nat, snd p)] else [(i, fst p)])
                 (combine (seq 0 n) vs) in
      let g0 := repeat (@nil nat) cells in
      let g := fold_left (fun g e => set_nth (Z.to_nat (cell_of_build b xmin ymin bx by_ (snd e))) (fun l => l ++ [fst e]) g) ends g0 in
      let lk0 := repeat 0%nat (if reverse then (2 * n)%nat else n) in
      let lk := fold_left (fun lk e => set_nth (fst e) (fun _ => Z.to_nat (cell_of_build b xmin ymin bx by_ (snd e))) lk) ends lk0 in
      Ret (mkindex b n reverse xmin ymin bx by_ vs g lk)
  | _, _, _, _ => Raise OtherError        (* no vertices: inf - inf *)
  end.

Definition end_pt (ix : index) (id : nat) : pt :=
  if (count ix <=? id)%nat then snd (nth (id - count ix) (verts ix) ((0, 0), (0, 0))%Q)
  else fst (nth id (verts ix) ((0, 0), (0, 0))%Q).
Definition sqdist (a b : pt) : Q := ((fst a - fst b) * (fst a - fst b) + (snd a - snd b) * (snd a - snd b))%Q.

(* query cell: clamped into the grid on both sides *)
Definition qcell (ix : index) (q : pt) : Z :=
  let mb := bins ix - 1 in
  let xb := Z.max (Z.min (Qfloor ((fst q - gxmin ix) / bsx ix)) mb) 0 in
  let yb := Z.max (Z.min (Qfloor ((snd q - gymin ix) / bsy ix)) mb) 0 in
  xb + bins ix * yb.

(* the double loop "for cell in cells: for path_index in grid[cell]: if dist < best_dist" *)
Definition scan_ids (ix : index) (q : pt) (best : option (Q * nat)) (ids : list nat) : option (Q * nat) :=
  fold_left (fun best id =>
               let d := sqdist q (end_pt ix id) in
               match best with
               | None => Some (d, id)
               | Some (bd, _) => if Qltb d bd then Some (d, id) else best
               end) ids best.
Definition scan_cells (ix : index) (q : pt) (best : option (Q * nat)) (cells : list Z) : option (Q * nat) :=
  fold_left (fun best c => scan_ids ix q best (nth (Z.to_nat c) (grid ix) [])) cells best.

Definition nearest (ix : index) (q : pt) : option nat :=
  let nb := adjacent (bins ix) (qcell ix q) in
  let best := scan_cells ix q None nb in
  match best with
  | Some (_, S id) => Some (S id)                 (* "if best_index:" - id 0 falls through *)
  | _ =>
      let others := filter (fun c => negb (existsb (Z.eqb c) nb)) (map Z.of_nat (seq 0 (length (grid ix)))) in
      match scan_cells ix q best others with Some (_, id) => Some id | None => None end
  end.

Fixpoint remove_first (x : nat) (l : list nat) : option (list nat) :=      (* list.remove: ValueError if absent *)
  match l with
  | [] => None
  | y :: t => if (x =? y)%nat then Some t else match remove_first x t with Some t' => Some (y :: t') | None => None end
  end.
Definition remove_id (ix : index) (id : nat) : outcome index :=
  let cell := nth id (lookup ix) 0%nat in
  match remove_first id (nth cell (grid ix) []) with
  | None => Raise ValueError
  | Some l => Ret (mkindex (bins ix) (count ix) (rev_ok ix) (gxmin ix) (gymin ix) (bsx ix) (bsy ix) (verts ix)
                           (set_nth cell (fun _ => l) (grid ix)) (lookup ix))
  end.
Definition remove_path (ix : index) (i : nat) : outcome index :=
  match remove_id ix i with
  | Raise e => Raise e
  | Ret ix1 => if rev_ok ix then remove_id ix1 (i + count ix)%nat else Ret ix1
  end.
