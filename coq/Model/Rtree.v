(* rtree.Index: constructor (running-mean centre, four quadrant filters, leaf
   rule) and intersection query with extent pruning.  The flag [strict] selects
   the quadrant tests: true = the strict tests of the tree as found (x_1 < cx ...),
   false = the non-strict tests of the repaired constructor.  Exact arithmetic. *)
From Plotink Require Import Base.Prelude.
Open Scope Q_scope.

Record box := mkbox { bx1 : Q; by1 : Q; bx2 : Q; by2 : Q }.
Notation ibox := (Z * box)%type.

(* is_disjoint = x_1 > xmax or y_1 > ymax or x_2 < xmin or y_2 < ymin   (q = query, b = stored) *)
Definition disjoint (q b : box) : bool :=
  Qltb (bx2 b) (bx1 q) || Qltb (by2 b) (by1 q) || Qltb (bx2 q) (bx1 b) || Qltb (by2 q) (by1 b).
Definition overlaps (q b : box) : bool := negb (disjoint q b).

(* extent: None stands for (inf, inf, -inf, -inf) *)
Definition ext_add (e : option box) (b : box) : option box :=
  match e with
  | None => Some b
  | Some e => Some (mkbox (Qmin (bx1 e) (bx1 b)) (Qmin (by1 e) (by1 b)) (Qmax (bx2 e) (bx2 b)) (Qmax (by2 e) (by2 b)))
  end.
Definition extent (l : list ibox) : option box := fold_left (fun e ib => ext_add e (snd ib)) l None.

Definition centre (l : list ibox) : Q * Q :=
  let n := inject_Z (Z.of_nat (length l)) in
  fold_left (fun c ib => (fst c + (bx1 (snd ib) / 2 + bx2 (snd ib) / 2) / n,
                          snd c + (by1 (snd ib) / 2 + by2 (snd ib) / 2) / n)) l (0, 0).

Inductive tree := Leaf (e : option box) (bs : list ibox) | Node (e : option box) (t0 t1 t2 t3 : tree).
Definition text (t : tree) := match t with Leaf e _ => e | Node e _ _ _ _ => e end.

Definition lt_or_le (strict : bool) (a b : Q) : bool := if strict then Qltb a b else Qleb a b.
Definition quad (strict : bool) (k : nat) (cx cy : Q) (ib : ibox) : bool :=
  let b := snd ib in
  match k with
  | 0%nat => lt_or_le strict (bx1 b) cx && lt_or_le strict (by1 b) cy
  | 1%nat => lt_or_le strict cx (bx2 b) && lt_or_le strict (by1 b) cy
  | 2%nat => lt_or_le strict (bx1 b) cx && lt_or_le strict cy (by2 b)
  | _ => lt_or_le strict cx (bx2 b) && lt_or_le strict cy (by2 b)
  end.

Fixpoint build (strict : bool) (fuel : nat) (l : list ibox) : tree :=
  match fuel with
  | O => Leaf (extent l) l
  | S f =>
      let '(cx, cy) := centre l in
      let q0 := filter (quad strict 0 cx cy) l in let q1 := filter (quad strict 1 cx cy) l in
      let q2 := filter (quad strict 2 cx cy) l in let q3 := filter (quad strict 3 cx cy) l in
      if Nat.eqb (Nat.max (Nat.max (length q0) (length q1)) (Nat.max (length q2) (length q3))) (length l)
      then Leaf (extent l) l
      else Node (extent l) (build strict f q0) (build strict f q1) (build strict f q2) (build strict f q3)
  end.

Definition hit (q : box) (e : option box) : bool := match e with None => false | Some e => overlaps q e end.

Fixpoint query (t : tree) (q : box) : list Z :=
  match t with
  | Leaf _ bs => map fst (filter (fun ib => overlaps q (snd ib)) bs)
  | Node _ t0 t1 t2 t3 =>
      (if hit q (text t0) then query t0 q else []) ++ (if hit q (text t1) then query t1 q else []) ++
      (if hit q (text t2) then query t2 q else []) ++ (if hit q (text t3) then query t3 q else [])
  end.

(* Index(bboxes).intersection(q): the recursion depth never exceeds the number of boxes *)
Definition intersection (strict : bool) (l : list ibox) (q : box) : list Z :=
  query (build strict (length l) l) q.

(* executable brute force = the specification *)
Definition brute_list (l : list ibox) (q : box) : list Z :=
  map fst (filter (fun ib => overlaps q (snd ib)) l).
