From Plotink Require Import Base.Prelude Model.Clip.
Open Scope Q_scope.

(* impl: None = raised; Some (accept, x1, y1, x2, y2) *)
Inductive case08 := K08 (exact : bool) (s : st) (xmin xmax ymin ymax : Q) (impl : option (bool * st)).

Definition st_eqb (a b : st) : bool := Qeqb (x1 a) (x1 b) && Qeqb (y1 a) (y1 b) && Qeqb (x2 a) (x2 b) && Qeqb (y2 a) (y2 b).
Definition accept_of (e : exit) : bool := match e with Accept | Failsafe => true | _ => false end.

(* ---- exact inside part of a segment (Liang-Barsky), used as the reference for the tolerant judgement of float runs ---- *)
Definition lb_step (acc : option (Q * Q)) (p q : Q) : option (Q * Q) :=
  match acc with
  | None => None
  | Some (t1, t2) =>
      if Qeqb p 0 then (if Qltb q 0 then None else Some (t1, t2))
      else let t := q / p in
           if Qltb p 0 then Some (Qmax t1 t, t2) else Some (t1, Qmin t2 t)
  end.
Definition exact_clip (s : st) (xmin xmax ymin ymax : Q) : option (Q * Q) :=
  let dx := x2 s - x1 s in let dy := y2 s - y1 s in
  match lb_step (lb_step (lb_step (lb_step (Some (0, 1)) (- dx) (x1 s - xmin)) dx (xmax - x1 s)) (- dy) (y1 s - ymin)) dy (ymax - y1 s) with
  | Some (t1, t2) => if Qleb t1 t2 then Some (t1, t2) else None
  | None => None
  end.
Definition sq (x : Q) := x * x.
Definition d2seg (ax ay bx by_ px py : Q) : Q :=
  let dx := bx - ax in let dy := by_ - ay in
  let L := sq dx + sq dy in
  if Qeqb L 0 then sq (px - ax) + sq (py - ay) else
  let t := ((px - ax) * dx + (py - ay) * dy) / L in
  let t := Qmax 0 (Qmin 1 t) in
  sq (px - (ax + t * dx)) + sq (py - (ay + t * dy)).
Definition outside_by (xmin xmax ymin ymax px py : Q) : Q :=
  Qmax (Qmax (xmin - px) (px - xmax)) (Qmax (Qmax (ymin - py) (py - ymax)) 0).

(* sandwich: accept => returned endpoints within eps of the input segment and of the rectangle, order preserved up to eps,
   and the part inside the eps-deflated rectangle is within eps of the returned segment; reject => nothing inside the deflated rectangle *)
Definition sandwich_ok (eps : Q) (s : st) (xmin xmax ymin ymax : Q) (acc : bool) (r : st) : bool :=
  let dxm := xmin + eps in let dxM := xmax - eps in let dym := ymin + eps in let dyM := ymax - eps in
  let exd := if Qleb dxm dxM && Qleb dym dyM then exact_clip s dxm dxM dym dyM else None in
  if negb acc then match exd with None => true | Some _ => false end else
  let e2 := sq eps in
  let on_seg := Qleb (d2seg (x1 s) (y1 s) (x2 s) (y2 s) (x1 r) (y1 r)) e2 && Qleb (d2seg (x1 s) (y1 s) (x2 s) (y2 s) (x2 r) (y2 r)) e2 in
  let in_rect := Qleb (outside_by xmin xmax ymin ymax (x1 r) (y1 r)) eps && Qleb (outside_by xmin xmax ymin ymax (x2 r) (y2 r)) eps in
  let dx := x2 s - x1 s in let dy := y2 s - y1 s in
  let dot := (x2 r - x1 r) * dx + (y2 r - y1 r) * dy in
  let orient := Qleb 0 dot || Qleb (sq dot) (e2 * (sq dx + sq dy)) in
  let covers := match exd with
                | None => true
                | Some (u1, u2) =>
                    Qleb (d2seg (x1 r) (y1 r) (x2 r) (y2 r) (x1 s + u1 * dx) (y1 s + u1 * dy)) e2 &&
                    Qleb (d2seg (x1 r) (y1 r) (x2 r) (y2 r) (x1 s + u2 * dx) (y1 s + u2 * dy)) e2
                end in
  on_seg && in_rect && orient && covers.

Definition scale_of (s : st) (xmin xmax ymin ymax : Q) : Q :=
  let m := fold_left (fun a b => Qmax a (Qabs b)) [x1 s; y1 s; x2 s; y2 s; xmin; xmax; ymin; ymax] 0 in
  if Qeqb m 0 then 1 else m.

Definition check08 (c : case08) : Z :=
  match c with
  | K08 exact s xmin xmax ymin ymax None => 3%Z
  | K08 exact s xmin xmax ymin ymax (Some (acc, r)) =>
      let m := clip_segment xmin xmax ymin ymax s in
      let eps := if exact then 0 else scale_of s xmin xmax ymin ymax * (1 # 1000000000) in
      code_of (if exact then negb (Bool.eqb (accept_of (fst m)) acc && st_eqb (snd m) r) else false)
              (negb (sandwich_ok eps s xmin xmax ymin ymax acc r))
  end.
Definition run08 (cs : list case08) := report (map check08 cs).
