From Plotink Require Import Base.Prelude Base.PyStr Model.Serial3 Model.SerialLegacy.
Open Scope Z_scope.

Inductive lreq := LQuery (c : option text) | LCommand (c : option text).
(* observation: raised?, returned text (None = returned None), was it a str (false = bytes), lines written (as sent), events consumed *)
Record lobs := mklobs { lo_raised : bool; lo_ret : option text; lo_is_str : bool; lo_writes : list text; lo_consumed : nat }.
(* expectation for runs against the conforming legacy board: the data line of this request (None = not judged) *)
Inductive case07 := K07 (dec : bool) (has_port : bool) (sc : script) (h : list (lreq * lobs * option text)).

Fixpoint texts_eqb (a b : list text) : bool :=
  match a, b with [], [] => true | x :: a', y :: b' => text_eqb x y && texts_eqb a' b' | _, _ => false end.
Definition otext_eqb (a b : option text) : bool := match a, b with Some x, Some y => text_eqb x y | None, None => true | _, _ => false end.

Fixpoint replay07 (dec hp : bool) (sc : script) (h : list (lreq * lobs * option text)) (mis spec : bool) : bool * bool :=
  match h with
  | [] => (mis, spec)
  | (rq, ob, ex) :: t =>
      let '(raised, ret, w, sc') :=
        match rq with
        | LQuery c => let '(o, w, sc') := lquery dec hp c sc in
                      (match o with Raise _ => true | Ret _ => false end, match o with Ret r => r | Raise _ => None end, w, sc')
        | LCommand c => let '(o, w, sc') := lcommand hp c sc in (false, None, w, sc')
        end in
      let m := negb (Bool.eqb raised (lo_raised ob) && (raised || otext_eqb ret (lo_ret ob)) && texts_eqb w (lo_writes ob)
                     && Nat.eqb (length sc - length sc') (lo_consumed ob)) in
      (* the property, on the observation: never raises, writes the request at most once (exactly once unless the write itself
         faulted or there is nothing to send), a query returns text, and against the conforming board the data line of this request *)
      let text_req := match rq with LQuery (Some _) | LCommand (Some _) => hp | _ => false end in
      let s := negb (
        negb (lo_raised ob) &&
        (if text_req then match lo_writes ob with [] => match sc with Fault :: _ => true | _ => false end | [x] => match rq with LQuery (Some c) | LCommand (Some c) => text_eqb x c | _ => false end | _ => false end
         else match lo_writes ob with [] => Nat.eqb (lo_consumed ob) 0 | _ => false end) &&
        (match rq with LQuery (Some _) => if hp then lo_is_str ob && match lo_ret ob with Some _ => true | None => false end else true | _ => true end) &&
        (match ex with Some d => otext_eqb (lo_ret ob) (Some d) | None => true end)) in
      replay07 dec hp (skipn (lo_consumed ob) sc) t (mis || m) (spec || s)
  end.
Definition check07 (k : case07) : Z :=
  match k with K07 dec hp sc h => let '(m, s) := replay07 dec hp sc h false false in code_of m s end.
Definition run07 (cs : list case07) := report (map check07 cs).
