From Plotink Require Import Base.Prelude Base.Rnd Base.PyStr Model.VbScale.
Open Scope Q_scope.

(* impl: None = raised an exception; scale = magnitude of the inputs, for the tolerance of the exact comparison *)
Inductive case11 := K11 (raises : bool) (vb par : option text) (dw dh : Q) (scale : Q) (impl : option (Q * Q * Q * Q)).

Definition ex (x : Q) : Q := x.
Definition close (scale a b : Q) : bool := Qleb (Qabs (a - b)) ((1 # 1000000000) * (Qabs b + scale)).
Definition q4_eqb (a b : Q * Q * Q * Q) : bool :=
  let '(a1, a2, a3, a4) := a in let '(b1, b2, b3, b4) := b in Qeqb a1 b1 && Qeqb a2 b2 && Qeqb a3 b3 && Qeqb a4 b4.
Definition q4_close (scale : Q) (a b : Q * Q * Q * Q) : bool :=
  let '(a1, a2, a3, a4) := a in let '(b1, b2, b3, b4) := b in
  close 0 a1 b1 && close 0 a2 b2 && close scale a3 b3 && close scale a4 b4.

Definition check11 (c : case11) : Z :=
  match c with
  | K11 raises vb par dw dh scale impl =>
      code_of (negb match vb_scale rnd53 raises vb par dw dh, impl with
                    | Ret m, Some i => q4_eqb m i
                    | Raise _, None => true
                    | _, _ => false end)
              (negb match vb_scale ex false vb par dw dh, impl with
                    | Ret e, Some i => q4_close scale i e
                    | _, _ => false end)
  end.
Definition run11 (cs : list case11) := report (map check11 cs).
