From Plotink Require Import Base.Prelude Model.Rtree.
Open Scope Q_scope.

(* one case: the boxes, the query, the implementation's sorted id list;
   exact = the run was on exact rationals (then the model must agree as well);
   strict selects which constructor model the implementation is compared with *)
Inductive case14 := K14 (strict exact : bool) (boxes : list ibox) (q : box) (impl : option (list Z)).

Definition subsetb (a b : list Z) : bool := forallb (fun i => existsb (Z.eqb i) b) a.
Definition same_set (a b : list Z) : bool := subsetb a b && subsetb b a.

Definition check14 (c : case14) : Z :=
  match c with
  | K14 strict exact boxes q None => 3%Z     (* the implementation raised / did not terminate *)
  | K14 strict exact boxes q (Some impl) =>
      code_of (if exact then negb (same_set (intersection strict boxes q) impl) else false)
              (negb (same_set (brute_list boxes q) impl))
  end.
Definition run14 (cs : list case14) := report (map check14 cs).
