From Plotink Require Import Base.Prelude Base.Rnd Spec.Firmware Model.EbbCalc Model.EbbCalcRnd.
Open Scope Z_scope.

(* O(1) closed forms of the third-order recurrence (proved equal to the tick-by-tick spec: t3_closed_spec) *)
Definition t3_rate_closed (T rate accel jerk : Z) : Z :=
  t3_start rate accel jerk + T * accel + jerk * (T * (T - 1) / 2).
Definition t3_closed (T rate accel jerk : Z) (acc0 : option Z) : Z * Z :=
  let re := t3_start rate accel jerk in
  let c := match acc0 with Some c => c | None => t3_clear re accel jerk end in
  let tot := c + T * re + accel * (T * (T + 1) / 2) + jerk * ((T - 1) * T * (T + 1) / 6) in
  (tot / B31, tot mod B31).

Inductive case02 :=
| K02d (T rate accel jerk : Z) (acc : option Z) (ipos iacc : Z)     (* move_dist_t3 *)
| K02r (T rate accel jerk : Z) (irate : Z)                          (* rate_t3 *)
| K02z (T rate accel : Z) (acc : option Z) (ipos iacc lpos lacc : Z) (* zero jerk: t3 result and move_dist_lt result *).

Definition pair_eqb (a b : Z * Z) := (fst a =? fst b) && (snd a =? snd b).
Definition check02 (c : case02) : Z :=
  match c with
  (* bit 0: the output differs from the exact model or from the executed rounded model (Model/EbbCalcRnd.v: every mpmath operation rounded
     to nearest-even at 103 bits, the float operations of rate_t3 at 53 bits) *)
  | K02d T rate accel jerk acc ipos iacc =>
      code_of (negb (pair_eqb (move_dist_t3 T rate accel jerk acc) (ipos, iacc) && pair_eqb (move_dist_t3_r (round_ne 103) T rate accel jerk acc) (ipos, iacc)))
              (negb (pair_eqb (t3_closed T rate accel jerk acc) (ipos, iacc)))
  | K02r T rate accel jerk irate =>
      code_of (negb ((rate_t3 T rate accel jerk =? irate) && (rate_t3_r (round_ne 53) T rate accel jerk =? irate))) (negb (t3_rate_closed T rate accel jerk =? irate))
  | K02z T rate accel acc ipos iacc lpos lacc =>
      code_of (negb (pair_eqb (move_dist_t3 T rate accel 0 acc) (ipos, iacc)))
              (negb (pair_eqb (ipos, iacc) (lpos, lacc) && pair_eqb (t3_closed T rate accel 0 acc) (ipos, iacc)))
  end.
Definition run02 (cs : list case02) := report (map check02 cs).
