From Plotink Require Import Base.Prelude Base.PyStr Model.Serial3 Corr.S3.
Open Scope Z_scope.
(* expect: for runs against the conforming device model, what each call must return (None = not judged) *)
Inductive exp := ENone | ERet (r : rv) | EFail.
Inductive case05 := K05 (c : cfg) (sc : script) (h : list (call * obs)) (expect : list exp).

(* ---- C05 judged on the observations and the script alone ---- *)
Definition ev_is_fault (e : ev) : bool := match e with Fault => true | _ => false end.
Definition ev_has_err (e : ev) : bool := match e with Line s => contains s (T "Err:") | _ => false end.
Definition raw_close (k : call) : bool := match k with CReboot | CBootload => true | _ => false end.
Definition rebootlike_text (t : text) : bool := match cmd_name (strip t) with Some nm => reboot_like nm | None => false end.
Definition exempt (k : call) : bool :=
  match k with CReboot | CBootload => true | CCommand t | CQuery t => rebootlike_text t | _ => false end.
Definition nonempty_req (k : call) : bool :=
  match k with CCommand t | CQuery t => match strip t with [] => false | _ => true end | _ => true end.
(* methods whose only value is None whether or not they fail *)
Definition returns_nothing (k : call) : bool :=
  match k with
  | CQueryNick | CPause _ | CXY _ _ _ | CAbs _ _ _ | CMotorsOff | CMotorsOn _ _ | CClearSteps | CClearAcc | CPenLower _ _ | CPenRaise _ _
  | CBConfig _ _ _ | CBSet _ _ | CPosDown _ | CPosUp _ | CRateDown _ | CRateUp _ | CServoTimeout _ _ | CDisconnect => true
  | _ => false
  end.

Fixpoint fault_ok (sc : script) (err_before : option Z) (port_before : bool) (h : list (call * obs)) : bool :=
  match h with
  | [] => true
  | (k, ob) :: t =>
      let used := firstn (o_consumed ob) sc in
      let rest := skipn (o_consumed ob) sc in
      let clean := port_before && match err_before with None => true | Some _ => false end in
      (if clean && is_request k && nonempty_req k then
         (* no request method raises *)
         negb (o_raised ob) &&
         (* a serial exception or a device error line during the call is recorded and reported *)
         (if (existsb ev_is_fault used || existsb ev_has_err used) && negb (exempt k)
          then match o_err ob with Some _ => true | None => false end else true) &&
         (* a recorded failure is reported by the return value *)
         (match o_err ob with
          | Some _ => returns_nothing k || rv_eqb (o_ret ob) (failure_value k) || rv_eqb (o_ret ob) RNone
          | None => true end) &&
         (* command / query: the trimmed text, once *)
         (match k with
          | CCommand t | CQuery t =>
              match used with
              | Fault :: _ => match o_writes ob with [] => true | _ => false end
              | _ => texts_eqb (o_writes ob) [strip t]
              end && Nat.leb (o_consumed ob) 27
          | _ => true
          end)
       else true) &&
      fault_ok rest (o_err ob) (o_port ob) t
  end.

(* attribution: against a conforming device every request gets its own reply *)
Fixpoint expect_ok (h : list (call * obs)) (ex : list exp) : bool :=
  match h, ex with
  | (k, ob) :: t, e :: et =>
      match e with
      | ERet r => negb (o_raised ob) && rv_eqb (o_ret ob) r && match o_err ob with None => true | Some _ => false end
      | EFail => negb (o_raised ob) && match o_err ob with None => false | Some _ => true end &&
                 (returns_nothing k || rv_eqb (o_ret ob) (failure_value k) || rv_eqb (o_ret ob) RNone)
      | ENone => true
      end && expect_ok t et
  | _, _ => true
  end.
Definition check05 (k : case05) : Z :=
  match k with K05 c sc h ex => code_of (0 <=? replay c init sc h 0) (negb (fault_ok sc None false h && expect_ok h ex)) end.
Definition run05 (cs : list case05) := report (map check05 cs).
