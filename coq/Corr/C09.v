From Plotink Require Import Base.Prelude Model.Simplify.
Open Scope Q_scope.

Inductive case09 :=
| K09s (v : list ipt) (tol : Q) (impl : option (list Z))         (* supersample: indices of the surviving objects *)
| K09p (pts : list pt) (tol : Q) (impl : option bool) (maxdist : option Q)   (* points_in_tolerance; max_dist_from_n_points *)
| K09f (v : list ipt) (tol : Q) (impl : option (list Z)).        (* supersample run on floats: judged in exact arithmetic, tolerance slack 1e-6 *)

Fixpoint zlist_eqb (a b : list Z) : bool :=
  match a, b with [], [] => true | x :: a', y :: b' => (x =? y)%Z && zlist_eqb a' b' | _, _ => false end.

Definition coord (v : list ipt) (i : Z) : pt := snd (nth (Z.to_nat i) v (0%Z, (0, 0))).
(* every index strictly between a and b is near the segment a-b *)
Fixpoint between_ok (tol2 : Q) (v : list ipt) (a b : Z) (fuel : nat) (j : Z) : bool :=
  match fuel with
  | O => true
  | S f => if (j <? b)%Z then near tol2 (coord v a) (coord v b) (coord v j) && between_ok tol2 v a b f (j + 1)%Z else true
  end.
Fixpoint chain_ok (tol2 : Q) (v : list ipt) (kept : list Z) : bool :=
  match kept with
  | a :: (b :: _) as t => (a <? b)%Z && between_ok tol2 v a b (length v) (a + 1)%Z && chain_ok tol2 v t
  | _ => true
  end.
Definition red_ok (v : list ipt) (tol : Q) (kept : list Z) : bool :=
  let n := Z.of_nat (length v) in
  if (n <=? 2)%Z || Qleb tol 0 then zlist_eqb kept (map fst v)
  else match kept with
       | k0 :: _ => (k0 =? 0)%Z && (last kept 0%Z =? n - 1)%Z && chain_ok (tol * tol) v kept
       | [] => false
       end.

Definition check09 (c : case09) : Z :=
  match c with
  | K09s v tol None => 3%Z
  | K09s v tol (Some kept) => code_of (negb (zlist_eqb (supersample_idx v tol) kept)) (negb (red_ok v tol kept))
  | K09f v tol None => 3%Z
  | K09f v tol (Some kept) => code_of false (negb (red_ok v (tol * (1000001 # 1000000)) kept))
  | K09p pts tol None _ => 3%Z
  | K09p pts tol (Some b) md =>
      let m := points_in_tolerance pts tol in
      code_of (negb (Bool.eqb m b))
              (negb (Bool.eqb m b &&
                     match md with
                     | None => true
                     | Some d => (if Qltb d (tol * (999999999 # 1000000000)) then b else true) &&
                                 (if Qltb (tol * (1000000001 # 1000000000)) d then negb b else true)
                     end))
  end.
Definition run09 (cs : list case09) := report (map check09 cs).
