From Plotink Require Import Base.Prelude Base.PyStr Model.Serial3 Spec.EbbDoc Model.Motion.
Open Scope Z_scope.

(* one helper call of either layer, with its arguments *)
Inductive helper :=
| L_XY (dx dy dur : Z) | L_AB (da db dur : Z) | L_LM (r1 s1 a1 r2 s2 a2 : Z) (clear : option Z) | L_Abs (rate : Z) (p1 p2 : option Z)
| L_Pause (n : Z) | L_MotorsOff | L_Motors (res : Z) | L_Pen (up : bool) (delay : Z) (pin : option Z)
| L_BConfig (pin state : Z) | L_BSet (pin state : Z) | L_Toggle | L_PenPos (up : bool) (v : Z) | L_PenRate (up : bool) (v : Z)
| L_LayerVar (v : Z) | L_Servo (ms : Z) (st : option Z) | L_ServoV (va vb vc : Z) (ms : Z) (st : option Z)
| E_XY (dx dy dur : Z) | E_Abs (rate : Z) (p1 p2 : option Z) | E_Pause (n : Z) | E_MotorsOff | E_MotorsOn (r1 r2 : Z)
| E_Pen (up : bool) (delay : Z) (pin : option Z) | E_BConfig (pin state dir : Z) | E_BSet (pin state : Z)
| E_PenPos (up : bool) (v : Z) | E_PenRate (up : bool) (v : Z) | E_Servo (ms : Z) (st : option Z) | E_Var (v i : Z) | E_ClearSteps | E_ClearAcc
| E_MotorsOnQ (r1 r2 q1 q2 : Z)      (* motors_enable against a board whose QE reply is q1,q2 (0, 1, 2, 4, 8, 16) *)
| NoPort (tag : Z).                  (* any helper called with no port (legacy: port None; class layer: not connected): nothing is sent *)

Definition both (p1 p2 : option Z) : option (Z * Z) := match p1, p2 with Some a, Some b => Some (a, b) | _, _ => None end.
(* what the model of the code emits *)
Definition model_emit (fx : bool) (h : helper) : list text :=
  match h with
  | L_XY dx dy dur => doXYMove dx dy dur | L_AB a b d => doABMove a b d | L_LM r1 s1 a1 r2 s2 a2 c => doLowLevelMove fx r1 s1 a1 r2 s2 a2 c
  | L_Abs r p1 p2 => doAbsMove fx r p1 p2 | L_Pause n => doTimedPause n | L_MotorsOff => sendDisableMotors | L_Motors r => sendEnableMotors r
  | L_Pen up d p => sendPen fx up d p | L_BConfig p s => PBOutConfig p s | L_BSet p s => PBOutValue p s | L_Toggle => TogglePen
  | L_PenPos up v => if up then setPenUpPos v else setPenDownPos v | L_PenRate up v => if up then setPenUpRate v else setPenDownRate v
  | L_LayerVar v => setEBBLV v | L_Servo ms st => legacy_servo_timeout ms st
  | L_ServoV va vb vc ms st => T "V" :: (if ver_ge [va; vb; vc] [2; 6; 0] then legacy_servo_timeout ms st else [])
  | E_XY dx dy dur => e3_xy_move dx dy dur | E_Abs r p1 p2 => e3_abs_move r p1 p2 | E_Pause n => e3_timed_pause n | E_MotorsOff => e3_motors_disable
  | E_MotorsOn r1 r2 => [cat [T "EM,"; z (clamp05 r1); T ","; z (clamp05 r2)]]          (* the last line; the CU / QE preamble is C16's business *)
  | E_Pen up d p => e3_pen fx up d p | E_BConfig p s d => e3_dio_b_config p s d | E_BSet p s => e3_dio_b_set p s
  | E_PenPos up v => e3_pen_pos up v | E_PenRate up v => e3_pen_rate up v | E_Servo ms st => e3_servo_timeout ms st | E_Var v i => e3_var_write v i
  | E_ClearSteps => e3_clear_steps | E_ClearAcc => e3_clear_acc
  | E_MotorsOnQ r1 r2 _ _ => [cat [T "EM,"; z (clamp05 r1); T ","; z (clamp05 r2)]]
  | NoPort _ => []
  end.
(* motors_enable as documented in its comments, against a board that reports both motors disabled (QE,0,0 - the harness's port):
   CU,50,0 first iff exactly one motor is requested; for a motor-2-only request the scale is read (QE) and set by EM,r2,r2
   when it differs (it does: 0); the request itself, EM,r1,r2, comes last.  Every call, whatever was sent before. *)
Definition doc_motors_on (r1 r2 : Z) : list text :=
  let c1 := clamp 0 5 r1 in let c2 := clamp 0 5 r2 in
  (if negb (c1 =? c2) && (c1 * c2 =? 0) then [T "CU,50,0"] else []) ++
  (if (c1 =? 0) && negb (c2 =? 0) then [T "QE"; commas [Td "EM"; sz c2; sz c2]] else []) ++
  [commas [Td "EM"; sz c1; sz c2]].
(* the same against a board in any motor state: QE reports 0 for a disabled motor and 1/2/4/8/16 (full .. 1/16 step) for an enabled
   one; the scale in use is motor 1's entry if it is enabled, else motor 2's; the scale-setting EM,r2,r2 is sent iff it differs from r2 *)
Definition res_of_qe (q : Z) : Z := if q =? 16 then 1 else if q =? 8 then 2 else if q =? 4 then 3 else if q =? 2 then 4 else if q =? 1 then 5 else 0.
Definition doc_motors_on_q (r1 r2 q1 q2 : Z) : list text :=
  let c1 := clamp 0 5 r1 in let c2 := clamp 0 5 r2 in
  let old := if negb (res_of_qe q1 =? 0) then res_of_qe q1 else res_of_qe q2 in
  (if negb (c1 =? c2) && (c1 * c2 =? 0) then [T "CU,50,0"] else []) ++
  (if (c1 =? 0) && negb (c2 =? 0) then T "QE" :: (if old =? c2 then [] else [commas [Td "EM"; sz c2; sz c2]]) else []) ++
  [commas [Td "EM"; sz c1; sz c2]].
(* what is documented *)
Definition doc_of (h : helper) : list text :=
  match h with
  | L_XY dx dy dur | E_XY dx dy dur => doc (RqXY dx dy dur) | L_AB a b d => doc (RqAB a b d) | L_LM r1 s1 a1 r2 s2 a2 c => doc (RqLM r1 s1 a1 r2 s2 a2 c)
  | L_Abs r p1 p2 | E_Abs r p1 p2 => doc (RqAbs r (both p1 p2)) | L_Pause n | E_Pause n => doc (RqPause n)
  | L_MotorsOff | E_MotorsOff => doc RqMotorsOff | L_Motors r => doc (RqMotorsBoth r)
  | E_MotorsOn r1 r2 => doc_motors_on r1 r2
  | L_Pen up d p | E_Pen up d p => doc (RqPen up d p) | L_BConfig p s => doc (RqBConfig p s 0) | E_BConfig p s d => doc (RqBConfig p s d)
  | L_BSet p s | E_BSet p s => doc (RqBSet p s) | L_Toggle => doc RqToggle | L_PenPos up v | E_PenPos up v => doc (RqPenPos up v)
  | L_PenRate up v | E_PenRate up v => doc (RqPenRate up v) | L_LayerVar v => doc (RqVarSet v None) | E_Var v i => doc (RqVarSet v (Some i))
  | E_MotorsOnQ r1 r2 q1 q2 => doc_motors_on_q r1 r2 q1 q2
  | NoPort _ => []
  | L_Servo ms st | E_Servo ms st => doc (RqServoTimeout ms st)
  (* legacy layer, against a board that reports firmware va.vb.vc: the version query, then the command only from 2.6.0 on *)
  | L_ServoV va vb vc ms st => T "V" :: (if ver_ge [va; vb; vc] [2; 6; 0] then doc (RqServoTimeout ms st) else []) | E_ClearSteps => doc RqClearSteps | E_ClearAcc => doc RqClearAcc
  end.

Fixpoint texts_eqb (a b : list text) : bool :=
  match a, b with [], [] => true | x :: a', y :: b' => text_eqb x y && texts_eqb a' b' | _, _ => false end.
(* impl: the lines written (final CR removed; a missing CR is marked by the harness), None = raised;
   last_only: compare only the last line written (motors_enable's final EM) *)
Inductive case06 := K06 (fx : bool) (h : helper) (impl : option (list text)).
Definition last_only (h : helper) (w : list text) : list text :=
  match h with E_MotorsOn _ _ | E_MotorsOnQ _ _ _ _ => match rev w with x :: _ => [x] | [] => [] end | _ => w end.
Definition check06 (c : case06) : Z :=
  match c with
  | K06 fx h None => 3
  | K06 fx h (Some w) => code_of (negb (texts_eqb (model_emit fx h) (last_only h w))) (negb (texts_eqb (doc_of h) w))
  end.
Definition run06 (cs : list case06) := report (map check06 cs).
