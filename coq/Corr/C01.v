From Plotink Require Import Base.Prelude Base.Rnd Spec.Firmware Model.EbbCalc Model.EbbCalcRnd.
Open Scope Z_scope.

(* O(1) closed form of the recurrence (proved equal to lt_spec in Proofs/EbbCalcProofs.v: lt_closed_spec) *)
Definition lt_closed (rate accel T : Z) (acc0 : option Z) : Z * Z :=
  let r0 := lt_start rate accel in
  let c := match acc0 with Some c => c | None => lt_clear r0 accel end in
  let tot := c + T * r0 + accel * (T * (T + 1) / 2) in (tot / B31, tot mod B31).

(* which entry point was called: 0 move_dist_lt, 1 moveDistLMA, 2 moveDistLM (position only, accumulator 0) *)
Inductive case01 := K01 (entry : Z) (rate accel T : Z) (acc : option Z) (ipos iacc : Z).

Definition pair_eqb (a b : Z * Z) := (fst a =? fst b) && (snd a =? snd b).
Definition check01 (c : case01) : Z :=
  match c with
  | K01 e rate accel T acc ipos iacc =>
      if e =? 2 then
        code_of (negb (moveDistLM rate accel T =? ipos)) (negb (fst (lt_closed rate accel T (Some 0)) =? ipos))
      else
        (* bit 0: the output differs from the exact model or from the model with every mpmath operation rounded to nearest-even at 103 bits
           (Model/EbbCalcRnd.v, executed; equal to the exact model on the domain by C01_rounding_exact_rne) *)
        code_of (negb (pair_eqb (move_dist_lt rate accel T acc) (ipos, iacc) && pair_eqb (move_dist_lt_r (round_ne 103) rate accel T acc) (ipos, iacc)))
                (negb (pair_eqb (lt_closed rate accel T acc) (ipos, iacc)))
  end.
Definition run01 (cs : list case01) := report (map check01 cs).
