(* Correspondence of the rounding operator itself: CPython's float arithmetic (p = 53) and mpmath's arithmetic at the working precision of
   the calculators (dps = 30: p = 103) against Base.Rnd.round_ne applied to the exact result, operation by operation, on generated
   operands.  The theorems C01_rounding_exact, C02_rounding, C02_rate_float_exact, C03_rounding and C17_float_exact hold for every rounding
   operator with a few order properties; this run checks that the operators the code uses coincide with the executable round-to-nearest-even
   (which has those properties) wherever they are sampled. *)
From Plotink Require Import Base.Prelude Base.Rnd.
Open Scope Q_scope.

(* op: 0 add, 1 sub, 2 mul, 3 div, 4 sqrt (b unused; judged by the defining inequalities of a correctly rounded root, and for operands
   of 1/4 and above also against the executable Base.Rnd.sqrt_ne 110 p, which the fully rounded model of calculate_lm runs with) *)
Inductive rcase := KR (p : Z) (op : Z) (a b r : Q).

Definition ulp_at (p : Z) (s : Q) : Q :=
  let e := (ilog2q (Z.abs (Qnum s)) (Zpos (Qden s)) - (p - 1))%Z in if (0 <=? e)%Z then inject_Z (pow2 e) else 1 # Z.to_pos (pow2 (- e)).

(* r is x's square root rounded to nearest at p bits: r is a p-bit number and x lies between the squares of the midpoints to its neighbours
   (the lower neighbour of a power of two is half as far: the looser bound is used there, a necessary condition) *)
Definition sqrt_rounded (p : Z) (x r : Q) : bool :=
  if Qeqb x 0 then Qeqb r 0 else
  Qltb 0 r && Qeqb (round_ne p r) r &&
  let h := ulp_at p r / 2 in Qleb ((r - h) * (r - h)) x && Qleb x ((r + h) * (r + h)).

Definition checkR (c : rcase) : Z :=
  match c with
  | KR p op a b r =>
      let ok := if (op =? 0)%Z then Qeqb (round_ne p (a + b)) r
                else if (op =? 1)%Z then Qeqb (round_ne p (a - b)) r
                else if (op =? 2)%Z then Qeqb (round_ne p (a * b)) r
                else if (op =? 3)%Z then Qeqb (round_ne p (a / b)) r
                else sqrt_rounded p a r && (if Qleb (1 # 4) a then Qeqb (sqrt_ne 110 p a) r else true) in
      if ok then 0%Z else 1%Z
  end.
Definition runR (cs : list rcase) := report (map checkR cs).
