(* replay of a history of EBB3 / EBBMotionWrap calls against the model, with the implementation's observations *)
From Plotink Require Import Base.Prelude Base.PyStr Model.Serial3.
Open Scope Z_scope.

(* what the harness observed for one call *)
Record obs := mkobs {
  o_raised : bool;            (* the call raised an exception *)
  o_ret : rv;                 (* its return value otherwise *)
  o_writes : list text;       (* lines written (final CR removed) *)
  o_err : option Z;           (* kind of the recorded error after the call *)
  o_port : bool;              (* port is not None after the call *)
  o_name : option text;       (* nickname attribute after the call *)
  o_consumed : nat            (* script events consumed by the call *)
}.

Fixpoint rv_eqb (a b : rv) : bool :=
  match a, b with
  | RNone, RNone => true
  | RBool x, RBool y => Bool.eqb x y
  | RInt x, RInt y => x =? y
  | RStr x, RStr y => text_eqb x y
  | RPair a1 a2, RPair b1 b2 => rv_eqb a1 b1 && rv_eqb a2 b2
  | _, _ => false
  end.
Fixpoint texts_eqb (a b : list text) : bool :=
  match a, b with [], [] => true | x :: a', y :: b' => text_eqb x y && texts_eqb a' b' | _, _ => false end.
(* error kinds are recognised from the message text by the harness; kind 99 = a message it does not recognise (reworded): it stands
   for "some error" and matches any recorded error *)
Definition oz_eqb (a b : option Z) : bool := match a, b with Some x, Some y => (x =? y) || (x =? 99) || (y =? 99) | None, None => true | _, _ => false end.
Definition otext_eqb (a b : option text) : bool := match a, b with Some x, Some y => text_eqb x y | None, None => true | _, _ => false end.

Definition obs_matches (s' : ebb3) (o : outcome rv) (w : list text) (consumed : nat) (ob : obs) : bool :=
  match o with
  | Raise _ => o_raised ob
  | Ret r => negb (o_raised ob) && rv_eqb r (o_ret ob)
  end && texts_eqb w (o_writes ob) && oz_eqb (err s') (o_err ob) && Bool.eqb (port s') (o_port ob) && otext_eqb (name s') (o_name ob)
  && Nat.eqb consumed (o_consumed ob).

(* run the model along the history; returns the index (from 0) of the first call whose observation differs, or -1 *)
Fixpoint replay (c : cfg) (s : ebb3) (sc : script) (h : list (call * obs)) (i : Z) : Z :=
  match h with
  | [] => -1
  | (k, ob) :: t =>
      let '(s', o, w, sc') := step c s k sc in
      if obs_matches s' o w (length sc - length sc')%nat ob then replay c s' sc' t (i + 1) else i
  end.

(* ---- C04, judged on the observations alone: once an error is recorded (or while not connected) every request writes
   nothing, returns its failure value and leaves the error alone; a recorded error is never replaced ---- *)
Fixpoint latch_ok (err_before : option Z) (port_before : bool) (h : list (call * obs)) : bool :=
  match h with
  | [] => true
  | (k, ob) :: t =>
      let blocked := negb port_before || match err_before with Some _ => true | None => false end in
      (if blocked && is_request k
       then negb (o_raised ob) && rv_eqb (o_ret ob) (failure_value k) && match o_writes ob with [] => true | _ => false end
            && oz_eqb (o_err ob) err_before && Nat.eqb (o_consumed ob) 0
       else true) &&
      (match err_before with Some e => oz_eqb (o_err ob) (Some e) | None => true end) &&
      (* after a disconnect, and after a reboot / bootload that reports success, the object is not connected whatever became of the port object *)
      (let port_after := match k with
                         | CDisconnect => false
                         | CReboot | CBootload => if rv_eqb (o_ret ob) (RBool true) then false else o_port ob
                         | _ => o_port ob end in
       latch_ok (o_err ob) port_after t)
  end.
