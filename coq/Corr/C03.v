From Plotink Require Import Base.Prelude Spec.Firmware Spec.LmSpec Spec.LmCheck.
Open Scope Z_scope.
(* entry 0 = ebb_calc.calculate_lm, 1 = ebb_motion.moveTimeLM (duration only, accumulator "clear", argument order rate, steps, accel) *)
Inductive case03 := K03 (entry : Z) (steps rate accel : Z) (accum : option Z) (iT ip ic : Z).
(* decided by the proved checker alone (translation validation of the output); the duration of the unique answer, for moveTimeLM,
   is recovered by checking the reported duration with the position and accumulator the closed form gives at that duration *)
Definition check03 (c : case03) : Z :=
  match c with
  | K03 e steps rate accel accum iT ip ic =>
      let ok :=
        if e =? 0 then lm_check steps rate accel accum iT ip ic
        else match lm_normalise steps rate accel None with
             | None => iT =? 0
             | Some (budget, r0, a, acc) => lm_check steps rate accel None iT (cpos r0 a acc iT) (ctotal r0 a acc iT mod B31)
             end in
      code_of false (negb ok)
  end.
Definition run03 (cs : list case03) := report (map check03 cs).
