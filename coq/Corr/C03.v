From Plotink Require Import Base.Prelude Base.Rnd Spec.Firmware Spec.LmSpec Spec.LmCheck Model.LmModel Model.LmModelFull.
Open Scope Z_scope.
(* entry 0 = ebb_calc.calculate_lm, 1 = ebb_motion.moveTimeLM (duration only, accumulator "clear", argument order rate, steps, accel) *)
Inductive case03 := K03 (entry : Z) (steps rate accel : Z) (accum : option Z) (iT ip ic : Z).
(* bit 0: the implementation's output differs from the exact model of calculate_lm (Model/LmModel.v, proved correct on the domain:
   Props/C03.v, C03_model_correct) or from the fully rounded model (Model/LmModelFull.v: every mpmath operation in source order, executed
   with round-to-nearest-even at 103 bits and the executable square root; equal to the exact model on the domain by C03_full_rounding_rne); bit 1: the output is rejected by the proved checker (translation validation of the output,
   independent of the model); the duration of the unique answer, for moveTimeLM, is recovered by checking the reported duration
   with the position and accumulator the closed form gives at that duration *)
Definition check03 (c : case03) : Z :=
  match c with
  | K03 e steps rate accel accum iT ip ic =>
      let ok :=
        if e =? 0 then lm_check steps rate accel accum iT ip ic
        else match lm_normalise steps rate accel None with
             | None => iT =? 0
             | Some (budget, r0, a, acc) => lm_check steps rate accel None iT (cpos r0 a acc iT) (ctotal r0 a acc iT mod B31)
             end in
      let '(mT, mp, mc) := lm_model steps rate accel (if e =? 0 then accum else None) in
      let '(fT, fp, fc) := lm_model_full_r (round_ne 103) (sqrt_ne 110 103) steps rate accel (if e =? 0 then accum else None) in
      let same := if e =? 0 then (mT =? iT) && (mp =? ip) && (mc =? ic) && (fT =? iT) && (fp =? ip) && (fc =? ic) else (mT =? iT) && (fT =? iT) in
      code_of (negb same) (negb ok)
  end.
Definition run03 (cs : list case03) := report (map check03 cs).
