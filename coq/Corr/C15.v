From Plotink Require Import Base.Prelude Base.PyStr Model.Serial3 Model.SerialLegacy Model.LegacyGates Corr.S3.
Open Scope Z_scope.

Inductive gcall := G_Servo (ms : Z) (st : option Z) | G_Voltage | G_QueryNick | G_WriteNick (n : text) | G_Reboot | G_MinVersion (vs : text).
(* observation of a legacy helper: raised?, return value, lines written, events consumed *)
Record gobs := mkgobs { go_raised : bool; go_ret : grv; go_writes : list text; go_consumed : nat }.

Inductive case15 :=
(* version order: have >= want according to packaging (the reference), for both layers' min_version *)
| K15v (have want : text) (ref_ge : bool) (ebb3_result legacy_result : option bool)
(* EBB3.connect on a fresh object: ports, given name, script, observation *)
| K15c (c : cfg) (ports : list portinfo) (given : option text) (sc : script) (ob : obs)
(* a legacy gated helper against a script *)
| K15g (g : gcall) (sc : script) (ob : gobs)
(* a history on one EBB3 object: connects (repeated), requests, disconnects *)
| K15h (c : cfg) (sc : script) (h : list (call * obs)).

Definition obool_eqb (a b : option bool) : bool := match a, b with Some x, Some y => Bool.eqb x y | None, None => true | _, _ => false end.
Definition grv_eqb (a b : grv) : bool := match a, b with GNone, GNone => true | GBool x, GBool y => Bool.eqb x y | GText x, GText y => text_eqb x y | _, _ => false end.
Definition run_g (g : gcall) (sc : script) : outcome grv * list text * script :=
  match g with
  | G_Servo ms st => l_servo_timeout ms st sc | G_Voltage => l_query_voltage sc | G_QueryNick => l_query_nickname sc
  | G_WriteNick n => l_write_nickname n sc | G_Reboot => l_reboot sc
  | G_MinVersion vs => let '(o, w, sc') := lmin_version vs sc in
                       (match o with Ret (Some b) => Ret (GBool b) | Ret None => Ret GNone | Raise e => Raise e end, w, sc')
  end.
Definition threshold (g : gcall) : list Z := match g with G_Servo _ _ => [2; 6; 0] | G_Voltage => [2; 2; 3] | G_MinVersion _ => [0] | _ => [2; 5; 5] end.
Definition gated_prefix (g : gcall) : text :=
  match g with G_Servo _ _ => T "SR" | G_Voltage => T "QC" | G_QueryNick => T "QT" | G_WriteNick _ => T "ST" | G_Reboot => T "RB" | G_MinVersion _ => T "~" end.
(* the version the board reported in its reply to V: first line of the script that contains "Firmware Version " *)
Definition reported (sc : script) : option (list Z) :=
  match flat_map (fun e => match e with Line s => match split_once (T "Firmware Version ") s with (_, Some r) => [parse_version r] | _ => [] end | _ => [] end) sc with
  | v :: _ => v | [] => None end.

(* the device identified itself as an EBB with firmware >= 3.0.2 in one of these events *)
Definition ebb_supported (used : script) : bool :=
  existsb (fun e => match e with
                    | Line s => contains (strip s) (T "EBB") &&
                                match split_once (T "Firmware Version ") (strip s) with
                                | (_, Some r) => match parse_version r with Some v => ver_ge v [3; 0; 2] | None => false end
                                | _ => false end
                    | _ => false end) used.
(* the gate over a history: nothing beyond the version probe is written before the device of the current connection has
   identified itself as supported, and connect reports True-without-error only for such a device *)
Fixpoint gate_ok (sc : script) (seen : bool) (h : list (call * obs)) : bool :=
  match h with
  | [] => true
  | (k, ob) :: t =>
      let used := firstn (o_consumed ob) sc in
      let ok_now := seen || ebb_supported used in
      forallb (fun w => text_eqb w (T "v") || ok_now) (o_writes ob) &&
      (match k with
       | CConnect _ _ => if rv_eqb (o_ret ob) (RBool true) && match o_err ob with None => true | Some _ => false end then ok_now else true
       | _ => true end) &&
      gate_ok (skipn (o_consumed ob) sc) (match k with CDisconnect | CReboot | CBootload => false | _ => ok_now end) t
  end.

Definition check15 (k : case15) : Z :=
  match k with
  | K15v have want ref_ge e3 lg =>
      let m := match parse_version have, parse_version want with Some h, Some w => Some (ver_ge h w) | _, _ => None end in
      code_of (negb (obool_eqb m e3 && obool_eqb m lg)) (negb (obool_eqb (Some ref_ge) e3 && obool_eqb (Some ref_ge) lg))
  | K15c c ports given sc ob =>
      let '(s', o, w, sc') := connect init ports given sc in
      let mis := negb (obs_matches s' (match o with Ret b => Ret (RBool b) | Raise e => Raise e end) w (length sc - length sc')%nat ob) in
      (* the property on the observation: True with no error only for an EBB reply with version >= 3.0.2 among the consumed lines;
         False comes with an error and at most the two probes *)
      let used := firstn (o_consumed ob) sc in
      let ebb_ok := existsb (fun e => match e with
                                      | Line s => contains (strip s) (T "EBB") &&
                                                  match split_once (T "Firmware Version ") (strip s) with
                                                  | (_, Some r) => match parse_version r with Some v => ver_ge v [3; 0; 2] | None => false end
                                                  | _ => false end
                                      | _ => false end) used in
      let spec :=
        negb (if o_raised ob then existsb (fun e => match e with Line s => contains (strip s) (T "EBB") | _ => false end) used
              (* a handshake that raises is outside the property only when a device did answer as an EBB (e.g. without a version text);
                 a silent or non-EBB device, or a port that cannot be opened, must give False with an error recorded, not an exception *)
              else match o_ret ob with
                   | RBool true => match o_err ob with None => ebb_ok | Some _ => true end
                   | RBool false => match o_err ob with Some _ => true | None => false end &&
                                    forallb (fun x => text_eqb x (T "v")) (o_writes ob) && Nat.leb (length (o_writes ob)) 2 &&
                                    negb (ebb_ok && match reported used with Some _ => true | None => false end && false)
                   | _ => false
                   end) in
      code_of mis spec
  | K15g g sc ob =>
      let '(o, w, sc') := run_g g sc in
      let mis := negb (match o with Raise _ => go_raised ob | Ret r => negb (go_raised ob) && grv_eqb r (go_ret ob) end &&
                       texts_eqb w (go_writes ob) && Nat.eqb (length sc - length sc')%nat (go_consumed ob)) in
      (* gate: the gated command appears among the writes only if the board reported a version >= the threshold *)
      let spec := negb (if existsb (fun x => startswith x (gated_prefix g)) (go_writes ob)
                        then match reported (firstn (go_consumed ob) sc) with Some v => ver_ge v (threshold g) | None => false end
                        else true) in
      code_of mis spec
  | K15h c sc h => code_of (0 <=? replay c init sc h 0) (negb (gate_ok sc false h))
  end.
Definition run15 (cs : list case15) := report (map check15 cs).
