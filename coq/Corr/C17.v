From Plotink Require Import Base.Prelude Base.Rnd Spec.Firmware Model.EbbCalc Model.EbbCalcRnd Corr.C02.
Open Scope Z_scope.

(* O(1) true peak of |rate| over ticks 1..T: the ends and the integers around the vertex 1/2 - A/J *)
Definition clampk (T k : Z) : Z := Z.max 1 (Z.min T k).
Definition t3_peak (T rate accel jerk : Z) : Z :=
  let r k := Z.abs (t3_rate_closed k rate accel jerk) in
  let ends := Z.max (r 1) (r T) in
  if jerk =? 0 then ends else
  let f := (jerk - 2 * accel) / (2 * jerk) in       (* floor of the vertex *)
  Z.max ends (Z.max (r (clampk T f)) (r (clampk T (f + 1)))).

Inductive case17 := K17 (T rate accel jerk : Z) (imax : Z).
Definition check17 (c : case17) : Z :=
  match c with
  | K17 T rate accel jerk imax =>
      let r k := Z.abs (t3_rate_closed k rate accel jerk) in
      let peak := t3_peak T rate accel jerk in
      (* bit 0: the output differs from the exact model or from the executed float model (max_rate_t3_r with round-to-nearest-even at 53 bits) *)
      code_of (negb ((max_rate_t3 T rate accel jerk =? imax) && (max_rate_t3_r (round_ne 53) T rate accel jerk =? imax)))
              (negb ((imax <=? peak) && (r 1 <=? imax) && (r T <=? imax) && (peak - imax <=? Z.abs jerk)))
  end.
Definition run17 (cs : list case17) := report (map check17 cs).
