From Plotink Require Import Base.Prelude Base.PyStr Model.Serial3 Corr.S3 Corr.C05.
Open Scope Z_scope.
(* read_err: for every call, whether the port handed it a line containing "Err:" or raised an I/O exception at one of its writes / reads
   (observed by the fake port) *)
Inductive case04 := K04 (c : cfg) (sc : script) (h : list (call * obs)) (read_err : list bool).

(* "once an object has recorded an error (device error reply, ..., USB exception)": a request that read a device error line or met an
   I/O exception while the object was connected and error-free must leave an error recorded (the latch can only be judged on errors that get recorded at all) *)
Fixpoint dev_err_recorded (err_before : option Z) (port_before : bool) (h : list (call * obs)) (re : list bool) : bool :=
  match h, re with
  | (k, ob) :: t, r :: rt =>
      let clean := port_before && match err_before with None => true | Some _ => false end in
      (if clean && is_request k && negb (exempt k) && r
       then match o_err ob with Some _ => true | None => false end else true) &&
      dev_err_recorded (o_err ob) (o_port ob) t rt
  | _, _ => true
  end.

Definition check04 (k : case04) : Z :=
  match k with K04 c sc h re => code_of (0 <=? replay c init sc h 0) (negb (latch_ok None false h && dev_err_recorded None false h re)) end.
Definition run04 (cs : list case04) := report (map check04 cs).
