From Plotink Require Import Base.Prelude Base.PyStr Model.Serial3 Corr.S3.
Open Scope Z_scope.
Inductive case04 := K04 (c : cfg) (sc : script) (h : list (call * obs)).
Definition check04 (k : case04) : Z :=
  match k with K04 c sc h => code_of (0 <=? replay c init sc h 0) (negb (latch_ok None false h)) end.
Definition run04 (cs : list case04) := report (map check04 cs).
