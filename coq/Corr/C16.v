From Plotink Require Import Base.Prelude Base.PyStr Model.Serial3 Spec.Board Corr.S3.
Open Scope Z_scope.

(* the client ran against the harness's fake board; [sc] is the I/O log of that run (writes as Empty, replies as Line) *)
Inductive case16 := K16 (c : cfg) (b0 : board) (sc : script) (h : list (call * obs)).

Fixpoint texts_eqb' (a b : list text) : bool :=
  match a, b with [], [] => true | x :: a', y :: b' => text_eqb x y && texts_eqb' a' b' | _, _ => false end.
Definition lines_of (sc : script) : list text := flat_map (fun e => match e with Line s => [s] | _ => [] end) sc.
Definition slot (b : board) (i : Z) : Z := nth (Z.to_nat i) (slots b) 0.
Definition others_same (b b' : board) (i : Z) : bool :=
  forallb (fun j => ((i <=? j) && (j <=? i + 3)) || (slot b j =? slot b' j)) (map Z.of_nat (seq 0 32)).
Definition bytes_of (v : Z) : list Z := let u := v mod 4294967296 in [u / 16777216; (u / 65536) mod 256; (u / 256) mod 256; u mod 256].
Definition word_at (b : board) (i : Z) : Z :=
  let u := slot b i * 16777216 + slot b (i + 1) * 65536 + slot b (i + 2) * 256 + slot b (i + 3) in if u <? 2147483648 then u else u - 4294967296.
Definition res_of (b : board) : rv := RPair (RInt (if en1 b then mode b else 0)) (RInt (if en2 b then mode b else 0)).
Fixpoint zl_eqb (a b : list Z) : bool := match a, b with [], [] => true | x :: a', y :: b' => (x =? y) && zl_eqb a' b' | _, _ => false end.

(* returns (board validation ok, property ok) *)
Fixpoint judge (b : board) (sc : script) (h : list (call * obs)) (vok pok : bool) : bool * bool :=
  match h with
  | [] => (vok, pok)
  | (k, ob) :: t =>
      let used := firstn (o_consumed ob) sc in
      let '(replies, b') := board_replies b (o_writes ob) in
      let v := texts_eqb' replies (lines_of used) in
      let p :=
        negb (o_raised ob) && match o_err ob with None => true | Some _ => false end &&
        match k with
        | CVarWrite32 val i => rv_eqb (o_ret ob) (RBool true) && zl_eqb [slot b' i; slot b' (i + 1); slot b' (i + 2); slot b' (i + 3)] (bytes_of val)
                               && others_same b b' i && forallb (fun x => (0 <=? x) && (x <=? 255)) (bytes_of val)
        | CVarRead32 i => rv_eqb (o_ret ob) (RInt (word_at b i))
        | CVarWrite val i => rv_eqb (o_ret ob) (RBool true) && (slot b' i =? val)
        | CVarRead i => rv_eqb (o_ret ob) (RInt (slot b i))
        | CWriteNick (Some n) => rv_eqb (o_ret ob) (RBool true) && text_eqb (nick b') (strip n) && otext_eqb (o_name ob) (Some (strip n))
        | CQueryNick => match nick b with [] => true | _ => if isspace (nick b) then true else otext_eqb (o_name ob) (Some (strip (nick b))) end
        | CMotorsOn r1 r2 =>
            let c1 := clamp05 r1 in let c2 := clamp05 r2 in
            Bool.eqb (en1 b') (negb (c1 =? 0)) && Bool.eqb (en2 b') (negb (c2 =? 0)) &&
            (if negb (c1 =? 0) then mode b' =? c1 else if negb (c2 =? 0) then mode b' =? c2 else true)
        | CMotorsQuery => rv_eqb (o_ret ob) (res_of b)
        | CMotorsOff => negb (en1 b') && negb (en2 b')
        | _ => true
        end in
      judge b' (skipn (o_consumed ob) sc) t (vok && v) (pok && p)
  end.

Definition check16 (k : case16) : Z :=
  match k with
  | K16 c b0 sc h =>
      let s0 := mkebb true None (Some [3; 0; 3]) None in
      let '(vok, pok) := judge b0 sc h true true in
      (code_of (0 <=? replay c s0 sc h 0) (negb pok) + (if vok then 0 else 4))
  end.
Definition run16 (cs : list case16) := report (map check16 cs).
