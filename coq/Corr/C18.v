(* correspondence vocabulary for C18: one case = one call of one helper with the
   implementation's observed result *)
From Plotink Require Import Base.Prelude Model.Limits.
Open Scope Q_scope.

Inductive case18 :=
| K_check (v lo hi : Q) (r : Q) (f : bool)
| K_tol (v lo hi tol : Q) (r : Q) (f : bool)
| K_pib (x y xmin ymin xmax ymax tol : Q) (b : bool)
| K_con (v lo hi : Q) (r : Q)
(* a sequence of point_in_bounds calls that were made with one bounds object, changed in place between the calls *)
| K_pibs (steps : list (Q * Q * Q * Q * Q * Q * Q * bool)).

(* the spec is functional (clamp + flag), so "implementation output satisfies the
   spec" is decided by the direct characterisation, independent of the model *)
Definition clamp_fn (v lo hi : Q) : Q := if Qltb v lo then lo else if Qltb hi v then hi else v.
Definition pib_code (x y xmin ymin xmax ymax tol : Q) (b : bool) : Z :=
  let m := point_in_bounds x y xmin ymin xmax ymax tol in
  code_of (negb (Bool.eqb m b))
          (negb (Bool.eqb (negb (Qltb x (xmin - tol) || Qltb (xmax + tol) x) && negb (Qltb y (ymin - tol) || Qltb (ymax + tol) y)) b)).
Definition check18 (c : case18) : Z :=
  match c with
  | K_pibs steps => fold_left (fun acc st => match st with (x, y, xmin, ymin, xmax, ymax, tol, b) => Z.lor acc (pib_code x y xmin ymin xmax ymax tol b) end) steps 0%Z
  | K_check v lo hi r f =>
      let m := checkLimits v lo hi in
      code_of (negb (Qeqb (fst m) r && Bool.eqb (snd m) f))
              (negb (Qeqb (clamp_fn v lo hi) r && Bool.eqb (Qltb v lo || Qltb hi v) f))
  | K_tol v lo hi tol r f =>
      let m := checkLimitsTol v lo hi tol in
      code_of (negb (Qeqb (fst m) r && Bool.eqb (snd m) f))
              (negb (Qeqb (clamp_fn v lo hi) r && Bool.eqb (Qltb v (lo - tol) || Qltb (hi + tol) v) f))
  | K_pib x y xmin ymin xmax ymax tol b =>
      let m := point_in_bounds x y xmin ymin xmax ymax tol in
      code_of (negb (Bool.eqb m b))
              (negb (Bool.eqb (negb (Qltb x (xmin - tol) || Qltb (xmax + tol) x) && negb (Qltb y (ymin - tol) || Qltb (ymax + tol) y)) b))
  | K_con v lo hi r =>
      code_of (negb (Qeqb (constrainLimits v lo hi) r)) (negb (Qeqb (clamp_fn v lo hi) r))
  end.
Definition run18 (cs : list case18) := report (map check18 cs).
