From Plotink Require Import Base.Prelude Base.Rnd Spec.Xml Model.EbbCalc Model.Text.
Open Scope Z_scope.

Fixpoint text_eqb (a b : list Z) : bool :=
  match a, b with [] , [] => true | x :: a', y :: b' => (x =? y) && text_eqb a' b' | _, _ => false end.

Inductive case20 :=
(* text, implementation's escaped text, what the reference XML parser reads back from it as element content,
   from a double-quoted and from a single-quoted attribute *)
| K20x (s esc lx_content lx_dq lx_sq : list Z)
(* duration (exact rational of the float/int argument), milliseconds flag, printed text *)
| K20h (d : Q) (ms : bool) (out : list Z).

Definition special (c : Z) := (c =? 60) || (c =? 62) || (c =? 34) || (c =? 39).

(* parse the printed duration back: (form, total seconds or milliseconds) *)
Fixpoint parse_num (s : list Z) (acc : Z) : Z * list Z :=
  match s with c :: t => if (48 <=? c) && (c <=? 57) then parse_num t (acc * 10 + (c - 48)) else (acc, s) | [] => (acc, []) end.
Definition hms_spec_ok (d : Q) (out : list Z) : bool :=
  if Qltb d 10 then
    let '(ip, r1) := parse_num out 0 in
    match r1 with
    | 46 :: r2 => let '(fp, r3) := parse_num r2 0 in
        text_eqb r3 s_seconds && (Z.of_nat (List.length r2) - Z.of_nat (List.length r3) =? 3) && (ip * 1000 + fp =? Qround_he (d * 1000))
    | _ => false
    end
  else
    let r := Qround_he d in
    let '(a, r1) := parse_num out 0 in
    match r1 with
    | 58 :: r2 =>
        let '(b, r3) := parse_num r2 0 in
        match r3 with
        | 58 :: r4 =>
            let '(c, r5) := parse_num r4 0 in
            text_eqb r5 s_hms && (3600 <=? r) && (a * 3600 + b * 60 + c =? r) && (b <? 60) && (c <? 60)
            && (Z.of_nat (List.length r2) - Z.of_nat (List.length r3) =? 2) && (Z.of_nat (List.length r4) - Z.of_nat (List.length r5) =? 2)
        | _ => text_eqb r3 s_minsec && (60 <=? r) && (r <? 3600) && (a * 60 + b =? r) && (b <? 60)
               && (Z.of_nat (List.length r2) - Z.of_nat (List.length r3) =? 2)
        end
    | _ => text_eqb r1 s_seconds && (r <? 60) && (a =? r) && (Z.of_nat (List.length out) - Z.of_nat (List.length r1) =? 2)
    end.

Definition check20 (c : case20) : Z :=
  match c with
  | K20x s esc lc ldq lsq =>
      let oracle_ok := text_eqb (read_content esc) lc && text_eqb (read_attr esc) ldq && text_eqb (read_attr esc) lsq in
      let prop_ok := negb (existsb special esc) && text_eqb lc s && text_eqb ldq s && text_eqb lsq s in
      (code_of (negb (text_eqb (xml_escape s) esc)) (negb prop_ok) + (if oracle_ok then 0 else 4))%Z
  | K20h d ms out =>
      let d' := if ms then rnd53 (d / 1000) else d in
      code_of (negb (text_eqb (format_hms d ms) out)) (negb (hms_spec_ok d' out))
  end.
Definition run20 (cs : list case20) := report (map check20 cs).
