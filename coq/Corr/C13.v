From Plotink Require Import Base.Prelude Model.Grid.
Open Scope Z_scope.

Inductive op13 :=
| ONearest (q : pt) (impl : option (option nat))      (* None = raised; Some r = returned r *)
| ORemove (i : nat) (raised : bool).
Inductive case13 := K13 (vs : list path) (b : Z) (reverse : bool) (build_raised : bool) (ops : list op13).

Definition onat_eqb (a b : option nat) : bool :=
  match a, b with Some x, Some y => Nat.eqb x y | None, None => true | _, _ => false end.

(* ---- the property, judged by brute force over the live ends ---- *)
Definition live_ends (ix : index) (removed : list nat) : list nat :=
  let n := count ix in
  let live i := negb (existsb (Nat.eqb i) removed) in
  filter live (seq 0 n) ++ (if rev_ok ix then map (fun i => (n + i)%nat) (filter live (seq 0 n)) else []).
Definition end_cell (ix : index) (id : nat) : Z :=
  cell_of_build (bins ix) (gxmin ix) (gymin ix) (bsx ix) (bsy ix) (end_pt ix id).
Definition nearest_ok (ix : index) (removed : list nat) (q : pt) (r : option nat) : bool :=
  let live := live_ends ix removed in
  match r with
  | None => match live with [] => true | _ => false end
  | Some e =>
      existsb (Nat.eqb e) live &&
      let nb := adjacent (bins ix) (qcell ix q) in
      let in_nb := filter (fun e' => existsb (Z.eqb (end_cell ix e')) nb) live in
      let d := sqdist q (end_pt ix e) in
      match in_nb with
      | [] => forallb (fun e' => Qleb d (sqdist q (end_pt ix e'))) live
      | _ => forallb (fun e' => Qleb d (sqdist q (end_pt ix e'))) in_nb
      end
  end.

Fixpoint replay (ix : index) (removed : list nat) (ops : list op13) (mis spec : bool) : bool * bool :=
  match ops with
  | [] => (mis, spec)
  | ONearest q None :: t => (true, true)           (* a query never raises on a built index *)
  | ONearest q (Some r) :: t =>
      replay ix removed t (mis || negb (onat_eqb (nearest ix q) r)) (spec || negb (nearest_ok ix removed q r))
  | ORemove i raised :: t =>
      match remove_path ix i with
      | Ret ix' => replay ix' (i :: removed) t (mis || raised) (spec || raised)
      | Raise _ => (mis || negb raised, spec)       (* removing twice is outside the property; the history stops there *)
      end
  end.

Definition check13 (c : case13) : Z :=
  match c with
  | K13 vs b reverse build_raised ops =>
      match build vs b reverse with
      | Raise _ => code_of (negb build_raised) false          (* zero extent / no path: outside the property's domain *)
      | Ret ix => if build_raised then 3 else let '(m, s) := replay ix [] ops false false in code_of m s
      end
  end.
Definition run13 (cs : list case13) := report (map check13 cs).
