From Plotink Require Import Base.Prelude Model.Simplify Model.Subdiv.
Open Scope Q_scope.

Inductive case10 := K10 (exact : bool) (flat : Q) (scale : Q) (inp : list node) (impl : option (list node)).

Definition pt_close (eps : Q) (a b : pt) : bool := Qleb (Qabs (fst a - fst b)) eps && Qleb (Qabs (snd a - snd b)) eps.
Definition piece_close (eps : Q) (p q : piece) : bool :=
  let '(p0, p1, p2, p3) := p in let '(q0, q1, q2, q3) := q in
  pt_close eps p0 q0 && pt_close eps p1 q1 && pt_close eps p2 q2 && pt_close eps p3 q3.
Definition node_close (eps : Q) (a b : node) : bool := pt_close eps (hin a) (hin b) && pt_close eps (npt a) (npt b) && pt_close eps (hout a) (hout b).
Fixpoint nodes_close (eps : Q) (a b : list node) : bool :=
  match a, b with [], [] => true | x :: a', y :: b' => node_close eps x y && nodes_close eps a' b' | _, _ => false end.

Fixpoint pieces (a : node) (rest : list node) : list piece :=
  match rest with [] => [] | b :: r => piece_of a b :: pieces b r end.

(* consume from [outs] the leaves of a dyadic subdivision tree of p; None = no such tree within the depth *)
Fixpoint match_piece (depth : nat) (eps : Q) (p : piece) (outs : list piece) : option (list piece) :=
  match outs with
  | [] => None
  | q :: rest =>
      if piece_close eps p q then Some rest else
      match depth with
      | O => None
      | S d => match match_piece d eps (split_left p) outs with
               | Some rest1 => match_piece d eps (split_right p) rest1
               | None => None
               end
      end
  end.
Fixpoint match_all (eps : Q) (ps outs : list piece) : bool :=
  match ps with
  | [] => match outs with [] => true | _ => false end
  | p :: ps' => match match_piece 40 eps p outs with Some rest => match_all eps ps' rest | None => false end
  end.

Definition refines_ok (eps flat : Q) (inp out : list node) : bool :=
  match inp, out with
  | [], [] => true
  | a :: rest, a0 :: r0 =>
      pt_close eps (hin a) (hin a0) && pt_close eps (hout (last rest a)) (hout (last r0 a0)) &&
      match_all eps (pieces a rest) (pieces a0 r0) &&
      forallb (flat_piece (flat * (1 + eps))) (pieces a0 r0)
  | _, _ => false
  end.

Definition check10 (c : case10) : Z :=
  match c with
  | K10 exact flat scale inp None => 3%Z
  | K10 exact flat scale inp (Some out) =>
      let eps := if exact then 0 else scale * (1 # 1000000000) in
      code_of (if exact then negb match subdivide flat 4000 inp with Some m => nodes_close 0 m out | None => false end else false)
              (negb (refines_ok eps flat inp out))
  end.
Definition run10 (cs : list case10) := report (map check10 cs).
