From Plotink Require Import Base.Prelude Base.Rnd Base.PyStr Model.Units.
Open Scope Q_scope.

Definition unit_of_code (c : Z) : unit :=
  match c with 0 => UPx | 1 => UIn | 2 => UMm | 3 => UCm | 4 => UPt | 5 => UPc | 6 => UQ | _ => UPct end%Z.

Inductive case12 :=
| K12p (s : text) (impl : option (Q * Z))                       (* parseLengthWithUnits *)
| K12u (truthy : bool) (s : text) (ref : option Q) (impl : option Q)   (* unitsToUserUnits *)
| K12b (d : Q) (u : Z) (impl : Q)                               (* userUnitToUnits *)
| K12g (attr : option text) (dflt : Q) (ilen iinch : option Q)   (* getLength, getLengthInches *)
| K12r (v : Q) (u : Z) (back : Q).                              (* userUnitToUnits(unitsToUserUnits(v u), u) *)

Definition close (a b : Q) : bool := Qleb (Qabs (a - b)) ((1 # 1000000000000) * Qabs b).
Definition oq_eqb (a b : option Q) : bool :=
  match a, b with Some x, Some y => Qeqb x y | None, None => true | _, _ => false end.
Definition oq_close (a b : option Q) : bool :=
  match a, b with Some x, Some y => close x y | None, None => true | _, _ => false end.

(* the exact-layer answers (what the theorems of Props/C12.v are about) *)
Definition ex (x : Q) : Q := x.

Definition check12 (c : case12) : Z :=
  match c with
  | K12p s impl =>
      let m := parseLengthWithUnits rnd53 s in
      let e := parseLengthWithUnits ex s in
      code_of (negb match m, impl with Some (v, u), Some (iv, iu) => Qeqb v iv && unit_eqb u (unit_of_code iu) | None, None => true | _, _ => false end)
              (negb match e, impl with Some (v, u), Some (iv, iu) => close iv v && unit_eqb u (unit_of_code iu) | None, None => true | _, _ => false end)
  | K12u truthy s ref impl =>
      code_of (negb (oq_eqb (unitsToUserUnits rnd53 truthy s ref) impl))
              (negb (oq_close impl (unitsToUserUnits ex false s ref)))
  | K12b d u impl =>
      code_of (negb (Qeqb (userUnitToUnits rnd53 d (unit_of_code u)) impl))
              (negb (close impl (userUnitToUnits ex d (unit_of_code u))))
  | K12g attr dflt ilen iinch =>
      code_of (negb (oq_eqb (getLength rnd53 attr dflt) ilen && oq_eqb (getLengthInches rnd53 attr) iinch))
              (negb (oq_close ilen (getLength ex attr dflt) && oq_close iinch (getLengthInches ex attr)))
  | K12r v u back => code_of false (negb (close back v))
  end.
Definition run12 (cs : list case12) := report (map check12 cs).
