From Plotink Require Import Base.Prelude Base.PyStr Model.Serial3 Model.Discovery.
Open Scope Z_scope.

Definition otext_eqb (a b : option text) : bool := match a, b with Some x, Some y => text_eqb x y | None, None => true | _, _ => false end.
Fixpoint texts_eqb (a b : list text) : bool :=
  match a, b with [], [] => true | x :: a', y :: b' => text_eqb x y && texts_eqb a' b' | _, _ => false end.
Definition otexts_eqb (a b : option (list text)) : bool := match a, b with Some x, Some y => texts_eqb x y | None, None => true | _, _ => false end.

(* observations: first board (legacy, ebb3), listed devices (legacy, ebb3; None = the function returned None), listed names (legacy, ebb3),
   lookups: (name, legacy result, ebb3 result) *)
Inductive case19 := K19 (ports : list portinfo) (first_l first_3 : option text) (list_l list_3 : option (list text))
                        (names_l names_3 : option (list text)) (lookups : list (option text * option text * option text))
                        (* connect(name) on an EBB3 object that discovered some other board earlier: (name, port it tried to open) *)
                        (objlk : list (option text * option text)).

(* the property, written directly *)
Definition first_spec (ports : list portinfo) : option text :=
  match filter by_name ports with
  | p :: _ => Some (dev p)
  | [] => match filter by_vidpid ports with p :: _ => Some (dev p) | [] => None end
  end.
Definition list_spec (ports : list portinfo) : option (list text) :=
  match filter (fun p => by_name p || by_vidpid p) ports with [] => None | l => Some (map dev l) end.

Definition check19 (c : case19) : Z :=
  match c with
  | K19 ports fl f3 ll l3 nl n3 lookups objlk =>
      (* what an object's connect(name) looks up does not depend on what the object found before *)
      let obj_ok := forallb (fun q => let '(n, opened) := q in
                               otext_eqb opened (match n with Some _ => find_named_l false ports n | None => findPort ports end)) objlk in
      let m_first := findPort ports in
      let m_list := match list_ebb_ports ports with Some l => Some (map dev l) | None => None end in
      let mis :=
        negb (otext_eqb m_first fl && otext_eqb m_first f3 && otexts_eqb m_list ll && otexts_eqb m_list l3 &&
              otexts_eqb (list_named_ebbs true ports) nl && otexts_eqb (list_named_ebbs false ports) n3 &&
              forallb (fun q => let '(n, rl, r3) := q in otext_eqb (find_named_l true ports n) rl && otext_eqb (find_named_l false ports n) r3) lookups && obj_ok) in
      let spec :=
        negb (obj_ok && otext_eqb (first_spec ports) fl && otext_eqb fl f3 && otexts_eqb (list_spec ports) ll && otexts_eqb ll l3 &&
              (* a lookup never returns a port that is not in the list, and returns the first port that answers to the name *)
              forallb (fun q => let '(n, rl, r3) := q in
                         (match rl with Some d => existsb (fun p => text_eqb (dev p) d) ports | None => true end) &&
                         (match r3 with Some d => existsb (fun p => text_eqb (dev p) d) ports | None => true end) &&
                         otext_eqb (find_named_l true ports n) rl && otext_eqb (find_named_l false ports n) r3) lookups &&
              (* the names the library reports for its boards find those boards (when no earlier port matches) *)
              match nl, n3, list_ebb_ports ports with
              | Some nsl, Some ns3, Some l =>
                  forallb (fun pn => let '(p, n) := pn in matches true n p) (combine l nsl) &&
                  forallb (fun pn => let '(p, n) := pn in matches false n p) (combine l ns3)
              | None, None, None => true
              | _, _, _ => false
              end) in
      code_of mis spec
  end.
Definition run19 (cs : list case19) := report (map check19 cs).
