(* C17 - Reported peak T3 rate brackets the true peak within one jerk increment.  Statements only. *)
From Plotink Require Import Base.Prelude Spec.Firmware Model.EbbCalc Model.EbbCalcRnd Proofs.PeakProofs Corr.C17 Proofs.PeakOracle Proofs.TmidFloat Base.Rnd Proofs.RndProofs.
Open Scope Z_scope.

(* never exceeds the true peak: the reported value is the absolute rate of some tick 1..T *)
Theorem C17_is_a_tick : forall (T : nat) rate accel jerk, (1 <= T)%nat ->
  exists k : nat, (1 <= k <= T)%nat /\ max_rate_t3 (Z.of_nat T) rate accel jerk = Z.abs (t3_spec_rate k rate accel jerk).
Proof. exact peak_is_a_tick. Qed.

Theorem C17_ends : forall (T : nat) rate accel jerk, (1 <= T)%nat ->
  Z.abs (t3_spec_rate 1 rate accel jerk) <= max_rate_t3 (Z.of_nat T) rate accel jerk /\
  Z.abs (t3_spec_rate T rate accel jerk) <= max_rate_t3 (Z.of_nat T) rate accel jerk.
Proof. exact peak_ge_ends. Qed.

(* every tick's absolute rate is within |jerk| of the reported value, for all integers and all T *)
Theorem C17_within_jerk : forall (T k : nat) rate accel jerk, (1 <= k <= T)%nat ->
  Z.abs (t3_spec_rate k rate accel jerk) <= max_rate_t3 (Z.of_nat T) rate accel jerk + Z.abs jerk.
Proof. exact peak_within_jerk. Qed.

Theorem C17_limit : forall (T k : nat) rate accel jerk, (1 <= k <= T)%nat ->
  max_rate_t3 (Z.of_nat T) rate accel jerk <= M31 ->
  Z.abs (t3_spec_rate k rate accel jerk) <= M31 + Z.abs jerk.
Proof. exact limit_consequence. Qed.

(* the O(1) peak with which the correspondence run judges the implementation's outputs (Corr/C17.v) is the true peak:
   an upper bound of every tick's absolute rate, attained at a tick of the move *)
Theorem C17_oracle_is_peak : forall (T : nat) rate accel jerk, (1 <= T)%nat ->
  (forall k, (1 <= k <= T)%nat -> Z.abs (t3_spec_rate k rate accel jerk) <= t3_peak (Z.of_nat T) rate accel jerk) /\
  (exists k, (1 <= k <= T)%nat /\ t3_peak (Z.of_nat T) rate accel jerk = Z.abs (t3_spec_rate k rate accel jerk)).
Proof. exact t3_peak_is_spec_peak. Qed.

(* non-vacuity: the |jerk| slack is attained: T=4, rate -6, accel -8, jerk 4 reports 10, ticks 2 and 3 run at 14 *)
Example C17_tight : max_rate_t3 4 (-6) (-8) 4 = 10 /\ Z.abs (t3_spec_rate 2 (-6) (-8) 4) = 14 /\ Z.abs (t3_spec_rate 1 (-6) (-8) 4) = 10.
Proof. repeat split; vm_compute; reflexivity. Qed.

(* max_rate_t3 in the float arithmetic CPython uses (the vertex (jerk/2 - accel)/jerk is a binary64 quotient, compared with 1.5 and
   time - 1.5 and rounded up by math.ceil; the rates come from rate_t3's float expression): equal to the exact model on the whole domain,
   for every rounding operator that is monotone and fixes binary64 numbers - so the theorems above speak about the code's arithmetic *)
Theorem C17_float_exact : forall rnd : Q -> Q,
  (forall x y, (x == y)%Q -> (rnd x == rnd y)%Q) -> (forall x, rep53 x -> (rnd x == x)%Q) -> (forall x y, (x <= y)%Q -> (rnd x <= rnd y)%Q) ->
  forall time rate accel jerk, 0 <= time <= 2 ^ 32 -> Z.abs rate <= 2 ^ 34 -> Z.abs accel <= 2 ^ 32 -> Z.abs jerk <= 2 ^ 32 ->
  Z.abs (2 * accel - jerk) * time <= 2 ^ 50 -> Z.abs jerk * time * time <= 2 ^ 50 ->
  max_rate_t3_r rnd time rate accel jerk = max_rate_t3 time rate accel jerk.
Proof. exact max_rate_t3_float_exact. Qed.

(* the hypotheses are satisfiable (the exact operator meets all three), on a move whose vertex 50.5 lies inside the window, so that the
   quotient, both comparisons and the ceiling are all exercised *)
Example C17_float_nonvacuous :
  let rnd := fun x : Q => x in
  (forall x y, (x == y)%Q -> (rnd x == rnd y)%Q) /\ (forall x, rep53 x -> (rnd x == x)%Q) /\ (forall x y, (x <= y)%Q -> (rnd x <= rnd y)%Q) /\
  max_rate_t3_r rnd 100 1000 500 (-10) = max_rate_t3 100 1000 500 (-10) /\ max_rate_t3 100 1000 500 (-10) = 13499 /\
  Z.abs (rate_t3 100 1000 500 (-10)) = 1249.
Proof. cbv zeta. split; [intros x y E; exact E|]. split; [intros x _; reflexivity|]. split; [intros x y L; exact L|]. repeat split; vm_compute; reflexivity. Qed.

(* the executable round-to-nearest-even at 53 bits (Base.Rnd.round_ne 53: the operator the float models of C11 / C12 are executed with, bit for
   bit against CPython, and compared with CPython's operations in Corr/Rounding.v) is such an operator (Proofs/RndProofs.v) *)
Theorem C17_float_exact_rne : forall time rate accel jerk, 0 <= time <= 2 ^ 32 -> Z.abs rate <= 2 ^ 34 -> Z.abs accel <= 2 ^ 32 -> Z.abs jerk <= 2 ^ 32 ->
  Z.abs (2 * accel - jerk) * time <= 2 ^ 50 -> Z.abs jerk * time * time <= 2 ^ 50 ->
  max_rate_t3_r (round_ne 53) time rate accel jerk = max_rate_t3 time rate accel jerk.
Proof.
  apply C17_float_exact; [intros x y; apply round_ne_comp; lia|intros x R; apply round_ne_exact; [lia|exact R]|intros x y; apply round_ne_mono; lia].
Qed.

Print Assumptions C17_is_a_tick.
Print Assumptions C17_ends.
Print Assumptions C17_within_jerk.
Print Assumptions C17_limit.
Print Assumptions C17_oracle_is_peak.
Print Assumptions C17_float_exact.
Print Assumptions C17_float_exact_rne.
