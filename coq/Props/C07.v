(* C07 - Legacy serial primitives: one write, aligned replies, no exception on faults.  Statements only.
   [lquery true] / [lcommand] are the repaired ebb_serial.query (retry loop decodes) and ebb_serial.command. *)
From Plotink Require Import Base.Prelude Base.PyStr Model.Serial3 Model.SerialLegacy Proofs.LegacyProofs.
Open Scope Z_scope.

(* for every script (empty reads, error lines, exceptions at any write or read): query never raises, writes its request at most
   once, returns text whenever there is a port and a request, and does nothing at all without a port or a request *)
Theorem C07_query : forall hp c sc, exists r w sc',
  lquery true hp c sc = (Ret r, w, sc') /\ (w = [] \/ exists t, c = Some t /\ w = [t]) /\
  (hp = true -> forall t, c = Some t -> exists x, r = Some x) /\
  ((hp = false \/ c = None) -> r = None /\ w = [] /\ sc' = sc).
Proof. exact lquery_shape. Qed.

Theorem C07_command : forall hp c sc, exists w sc',
  lcommand hp c sc = (Ret tt, w, sc') /\ (w = [] \/ exists t, c = Some t /\ w = [t]) /\ ((hp = false \/ c = None) -> w = [] /\ sc' = sc).
Proof. exact lcommand_shape. Qed.

(* against the conforming legacy board (data line then OK; one line for the no-OK queries; OK for commands; each line preceded by
   up to 100 empty reads) a request returns its own data line and consumes exactly its own reply *)
Theorem C07_one_aligned : forall e rest, lex_ok e ->
  match lx_kind e with
  | KCommand => lcommand true (Some (lx_text e)) (lreply e ++ rest) = (Ret tt, [lx_text e], rest)
  | _ => lquery true true (Some (lx_text e)) (lreply e ++ rest) = (Ret (Some (lx_data e ++ CRLF)), [lx_text e], rest)
  end.
Proof. exact one_aligned. Qed.

(* hence every sequence of requests stays aligned *)
Theorem C07_sequence_aligned : forall es rest, Forall lex_ok es ->
  lrun es (flat_map lreply es ++ rest) =
  (map (fun e => match lx_kind e with KCommand => None | _ => Some (lx_data e ++ CRLF) end) es, rest).
Proof. exact sequence_aligned. Qed.

(* the retry loop as found (547df41) violated the property: a late reply raised TypeError (fixed in /repo) *)
Theorem C07_as_found_refuted :
  fst (fst (lquery false true (Some (T "QS")) [Empty; Empty; Line (T "1,2"); Line (T "OK")])) = Raise TypeError.
Proof. exact lquery_as_found_refuted. Qed.

Example C07_example : lex_ok (mklex KQuery (T "QS") (T "12,-7") 100 100) /\ lex_ok (mklex KNoOk (T " qg ,1") (T "3E") 0 0).
Proof. split; (split; [cbn; lia|split; [cbn; lia|vm_compute; reflexivity]]). Qed.

Print Assumptions C07_query.
Print Assumptions C07_command.
Print Assumptions C07_one_aligned.
Print Assumptions C07_sequence_aligned.
Print Assumptions C07_as_found_refuted.
