(* C18 - Travel-limit helpers return an in-range value and flag exactly the outliers.
   This file holds only statements closed by [exact]; the proofs are in Proofs/LimitsProofs.v. *)
From Plotink Require Import Base.Prelude Model.Limits Proofs.LimitsProofs.
Open Scope Q_scope.

Theorem C18_checkLimits_value : forall v lo hi, lo <= hi ->
  clamp_spec v lo hi (fst (checkLimits v lo hi)) /\ lo <= fst (checkLimits v lo hi) <= hi.
Proof. intros v lo hi H. split; [exact (checkLimits_clamp v lo hi H) | exact (checkLimits_in_range v lo hi H)]. Qed.

Theorem C18_checkLimits_flag : forall v lo hi, lo <= hi ->
  (snd (checkLimits v lo hi) = true <-> (v < lo \/ hi < v)).
Proof. exact checkLimits_flag. Qed.

Theorem C18_checkLimitsTol_value : forall v lo hi tol, lo <= hi ->
  clamp_spec v lo hi (fst (checkLimitsTol v lo hi tol)) /\ lo <= fst (checkLimitsTol v lo hi tol) <= hi.
Proof. intros v lo hi tol H. split; [exact (checkLimitsTol_clamp v lo hi tol H) | exact (checkLimitsTol_in_range v lo hi tol H)]. Qed.

Theorem C18_checkLimitsTol_flag : forall v lo hi tol, lo <= hi -> 0 <= tol ->
  (snd (checkLimitsTol v lo hi tol) = true <-> (v < lo - tol \/ hi + tol < v)).
Proof. exact checkLimitsTol_flag. Qed.

Theorem C18_constrainLimits : forall v lo hi, lo <= hi ->
  clamp_spec v lo hi (constrainLimits v lo hi) /\ lo <= constrainLimits v lo hi <= hi.
Proof. intros v lo hi H. split; [exact (constrainLimits_clamp v lo hi H) | exact (constrainLimits_in_range v lo hi H)]. Qed.

Theorem C18_nearer_bound : forall v lo hi r, lo <= hi -> clamp_spec v lo hi r ->
  (v < lo -> Qabs (v - r) <= Qabs (v - hi)) /\ (hi < v -> Qabs (v - r) <= Qabs (v - lo)).
Proof. exact clamp_nearer. Qed.

Theorem C18_point_in_bounds : forall x y xmin ymin xmax ymax tol,
  xmin <= xmax -> ymin <= ymax -> 0 <= tol ->
  point_in_bounds x y xmin ymin xmax ymax tol =
  negb (snd (checkLimitsTol x xmin xmax tol)) && negb (snd (checkLimitsTol y ymin ymax tol)).
Proof. exact point_in_bounds_agrees. Qed.

(* non-vacuity: a value outside by less than the tolerance is clamped without a flag *)
Example C18_example : checkLimitsTol (21#2) 0 10 1 = (10, false) /\ checkLimits (21#2) 0 10 = (10, true).
Proof. split; reflexivity. Qed.

Print Assumptions C18_checkLimits_value.
Print Assumptions C18_checkLimits_flag.
Print Assumptions C18_checkLimitsTol_value.
Print Assumptions C18_checkLimitsTol_flag.
Print Assumptions C18_constrainLimits.
Print Assumptions C18_nearer_bound.
Print Assumptions C18_point_in_bounds.
