(* C15 - Firmware version gating uses numeric version order and blocks unsupported boards.  Statements only. *)
From Plotink Require Import Base.Prelude Base.PyStr Model.Serial3 Model.SerialLegacy Model.LegacyGates Proofs.VersionProofs.
Open Scope Z_scope.

(* the order both layers use (through packaging.version) is the component-wise numeric order after zero padding *)
Theorem C15_order_is_numeric : forall n a b, (length a <= n)%nat -> (length b <= n)%nat -> ver_cmp a b = lex_cmp (pad n a) (pad n b).
Proof. exact ver_cmp_is_padded_lex. Qed.
Theorem C15_order_laws : forall a b, ver_ge a a = true /\ (ver_ge a b = true \/ ver_ge b a = true) /\ ver_cmp b a = CompOpp (ver_cmp a b).
Proof. intros a b. split; [apply ver_ge_refl|split; [apply ver_ge_total|apply ver_cmp_antisym]]. Qed.
Example C15_2_10_newer_than_2_9 : ver_ge [2; 10; 0] [2; 9; 9] = true /\ ver_ge [2; 9; 9] [2; 10; 0] = false /\ lex_cmp (T "2.10.0") (T "2.9.9") = Lt.
Proof. exact numeric_not_string_order. Qed.
Theorem C15_min_version : forall s vs have want, vparsed s = Some have -> parse_version vs = Some want ->
  min_version s vs = Ret (Some (ver_ge have want)).
Proof. exact ebb3_min_version_spec. Qed.

(* connect on an object without an open port, every port list, every handshake script (late, absent, non-EBB, raising):
   True only with the port open and a parsed firmware version >= 3.0.2 taken from a reply that identified an EBB;
   False always with an error recorded and nothing but (at most two) version probes sent *)
Theorem C15_connect : forall s ports g sc, port s = false ->
  let '(s', o, w, sc') := connect s ports g sc in
  (o = Ret true -> port s' = true /\ exists v, vparsed s' = Some v /\ ver_ge v [3; 0; 2] = true) /\
  (o = Ret false -> err s' <> None /\ (w = [] \/ w = [T "v"] \/ w = [T "v"; T "v"])).
Proof. exact connect_outcome. Qed.

(* legacy features: the gated command is transmitted only after the board reported at least the threshold version *)
Theorem C15_gate_servo_timeout : forall ms st sc x, In x (snd (fst (l_servo_timeout ms st sc))) -> startswith x (T "SR") = true ->
  exists v, version_seen (T "2.6.0") sc = Some v /\ ver_ge v [2; 6; 0] = true.
Proof. exact gate_servo. Qed.
Theorem C15_gate_voltage : forall sc x, In x (snd (fst (l_query_voltage sc))) -> startswith x (T "QC") = true ->
  exists v, version_seen (T "2.2.3") sc = Some v /\ ver_ge v [2; 2; 3] = true.
Proof. exact gate_voltage. Qed.
Theorem C15_gate_nickname : forall nick sc x,
  (In x (snd (fst (l_write_nickname nick sc))) -> startswith x (T "ST") = true -> exists v, version_seen (T "2.5.5") sc = Some v /\ ver_ge v [2; 5; 5] = true) /\
  (In x (snd (fst (l_query_nickname sc))) -> startswith x (T "QT") = true -> exists v, version_seen (T "2.5.5") sc = Some v /\ ver_ge v [2; 5; 5] = true) /\
  (In x (snd (fst (l_reboot sc))) -> startswith x (T "RB") = true -> exists v, version_seen (T "2.5.5") sc = Some v /\ ver_ge v [2; 5; 5] = true).
Proof. intros nick sc x. split; [apply gate_write_nickname|split; [apply gate_query_nickname|apply gate_reboot]]. Qed.

Print Assumptions C15_order_is_numeric.
Print Assumptions C15_order_laws.
Print Assumptions C15_min_version.
Print Assumptions C15_connect.
Print Assumptions C15_gate_servo_timeout.
Print Assumptions C15_gate_voltage.
Print Assumptions C15_gate_nickname.
