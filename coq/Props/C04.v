(* C04 - EBB3 connection object latches its first error and then transmits nothing.  Statements only.
   The model covers all 32 request methods of EBB3 / EBBMotionWrap plus connect and disconnect; every write and read
   consumes one event of an arbitrary I/O script, so a fault of any kind can sit at any I/O position of any call. *)
From Plotink Require Import Base.Prelude Base.PyStr Model.Serial3 Proofs.Serial3Proofs.
Open Scope Z_scope.

(* one step: a request on an object that is not connected or holds an error writes nothing, consumes nothing from the port,
   returns its failure value and leaves the object exactly as it was - for every method, all arguments, every script *)
Theorem C04_step_silent : forall c s k sc, blocked s = true -> is_request k = true ->
  step c s k sc = (s, Ret (failure_value k), [], sc).
Proof. exact step_silent. Qed.

(* the recorded error is never replaced, by any call (connect and disconnect included) *)
Theorem C04_err_first_wins : forall c s k sc m, err s = Some m -> let '(s', _, _, _) := step c s k sc in err s' = Some m.
Proof. exact step_keeps_err. Qed.

(* all histories, all scripts, any start state *)
Theorem C04_history : forall c h s sc,
  Forall (fun e => let '(pre, k, post, o, w) := e in
            (blocked pre = true -> is_request k = true -> post = pre /\ o = Ret (failure_value k) /\ w = []) /\
            (forall m, err pre = Some m -> err post = Some m) /\
            (k = CDisconnect -> w = []))
         (run c s sc h).
Proof. exact history_latched. Qed.

(* hence every byte written after an error has been recorded was written by connect *)
Theorem C04_only_connect_writes : forall c h s sc,
  Forall (fun e => let '(pre, k, post, o, w) := e in
            (exists m, err pre = Some m) -> w <> [] -> exists ports g, k = CConnect ports g)
         (run c s sc h).
Proof. exact writes_after_error_are_connects. Qed.

(* non-vacuity: a timeout on EM latches the object; the following SP writes nothing although a reply is waiting *)
Example C04_example :
  let c := mkcfg false false false false in
  let s0 := mkebb true None (Some [3; 0; 3]) None in
  let '(s1, o1, w1, sc1) := step c s0 (CCommand (T "EM,1,1")) (repeat Empty 27 ++ [Empty; Line (T "SP")]) in
  let '(s2, o2, w2, sc2) := step c s1 (CPenLower 100 None) sc1 in
  err s1 = Some E_TIMEOUT /\ w1 = [T "EM,1,1"] /\ o2 = Ret RNone /\ w2 = [] /\ sc2 = sc1 /\ s2 = s1.
Proof. vm_compute. repeat split; reflexivity. Qed.

Print Assumptions C04_step_silent.
Print Assumptions C04_err_first_wins.
Print Assumptions C04_history.
Print Assumptions C04_only_connect_writes.
