(* C01 - Timed-move prediction equals the firmware step-accumulator recurrence.  Statements only. *)
From Plotink Require Import Base.Prelude Spec.Firmware Model.EbbCalc Model.EbbCalcRnd Proofs.EbbCalcProofs Proofs.EbbRndProofs Proofs.EbbClosed Corr.C01 Base.Rnd Proofs.RndProofs Proofs.TruncFloat.
Open Scope Z_scope.

(* exact model of move_dist_lt = tick-by-tick recurrence, for all integers and every tick count T >= 1,
   both with a given accumulator and with "clear" *)
Theorem C01_exact : forall rate accel (T : nat) acc0, (1 <= T)%nat ->
  move_dist_lt rate accel (Z.of_nat T) acc0 = lt_spec rate accel T acc0.
Proof. exact move_dist_lt_exact. Qed.

Theorem C01_remainder_in_range : forall rate accel T acc0, 0 <= snd (lt_spec rate accel T acc0) < B31.
Proof. exact lt_spec_range. Qed.

(* the recurrence has the closed form used by the O(1) checker, for every T *)
Theorem C01_closed_form : forall n a r acc,
  lt_ticks n a r acc = (r + Z.of_nat n * a, acc + Z.of_nat n * r + a * triN n).
Proof. exact lt_ticks_closed. Qed.

Theorem C01_checker_is_spec : forall rate accel (T : nat) acc0,
  lt_closed rate accel (Z.of_nat T) acc0 = lt_spec rate accel T acc0.
Proof. exact lt_closed_spec. Qed.

Theorem C01_aliases : forall rate accel time acc,
  moveDistLMA rate accel time acc = move_dist_lt rate accel time acc /\
  moveDistLM rate accel time = fst (move_dist_lt rate accel time (Some 0)).
Proof. exact aliases_agree. Qed.

(* the arithmetic the code really runs: every mpmath operation of move_dist_lt followed by a rounding to 103 bits (dps = 30).
   For ANY rounding operator that respects == and leaves 103-bit numbers (k / 2^n, |k| < 2^103) unchanged - round to nearest with any
   tie rule, or directed - the rounded computation is the exact one on (a superset of) the firmware-valid domain; so C01_exact is a
   statement about what the code computes, whatever the caller's ambient precision was before the call forced dps = 30 *)
Theorem C01_rounding_exact : forall rnd : Q -> Q,
  (forall x y, (x == y)%Q -> (rnd x == rnd y)%Q) -> (forall x, rep103 x -> (rnd x == x)%Q) ->
  forall rate accel time accum, Z.abs rate <= 2 ^ 33 -> Z.abs accel <= 2 ^ 32 -> 0 <= time <= 2 ^ 32 ->
  match accum with Some c => 0 <= c < 2 ^ 31 | None => True end ->
  move_dist_lt_r rnd rate accel time accum = move_dist_lt rate accel time accum.
Proof. exact move_dist_lt_rounding_exact. Qed.

(* non-vacuity: odd negative acceleration, zero first-tick rate (backward second tick), cleared accumulator *)
Example C01_example : move_dist_lt (-2) (-3) 5 None = lt_spec (-2) (-3) 5 None /\ lt_spec (-2) (-3) 5 None = (0, 2147483597)
  /\ lt_spec 1 (-1) 2 None = (0, 2147483646) /\ lt_spec (-5) (-3) 5 (Some 10) = (-1, 2147483593).
Proof. repeat split; vm_compute; reflexivity. Qed.

(* ... and the executable round-to-nearest-even at 103 bits (Base.Rnd.round_ne 103, compared with mpmath's operations on every run:
   Corr/Rounding.v) is such an operator (Proofs/RndProofs.v): no hypothesis about the rounding is left *)
Theorem C01_rounding_exact_rne : forall rate accel time accum, Z.abs rate <= 2 ^ 33 -> Z.abs accel <= 2 ^ 32 -> 0 <= time <= 2 ^ 32 ->
  match accum with Some c => 0 <= c < 2 ^ 31 | None => True end ->
  move_dist_lt_r (round_ne 103) rate accel time accum = move_dist_lt rate accel time accum.
Proof.
  apply C01_rounding_exact; [intros x y; apply round_ne_comp; lia|intros x R; apply round_ne_exact; [lia|exact R]].
Qed.

(* int(accel / 2) as Python computes it - a binary64 quotient truncated by int() - is the truncating integer quotient the model uses (Z.quot),
   for the executable round-to-nearest-even and every divisor up to 1024 *)
Theorem C01_int_half_float : forall n d, 0 < d <= 2 ^ 10 -> Z.abs n <= 2 ^ 40 -> Qtrunc (round_ne 53 (iz n / iz d)) = Z.quot n d.
Proof. intros n d. apply trunc_rounded_quotient; [intros x R; apply round_ne_exact; [lia|exact R]|intros x y; apply round_ne_mono; lia]. Qed.

Print Assumptions C01_exact.
Print Assumptions C01_remainder_in_range.
Print Assumptions C01_closed_form.
Print Assumptions C01_checker_is_spec.
Print Assumptions C01_aliases.
Print Assumptions C01_rounding_exact.
Print Assumptions C01_rounding_exact_rne.
Print Assumptions C01_int_half_float.
