(* C19 - Port discovery picks only EiBotBoards, in enumeration order, and finds by name.  Statements only.
   Both layers share the first-board search and the listing; the lookups are [find_named_l true] (legacy find_named_ebb,
   which also understands SNR=) and [find_named_l false] (ebb3_serial.find_named). ASCII descriptor strings. *)
From Plotink Require Import Base.Prelude Base.PyStr Model.Serial3 Model.Discovery Proofs.DiscoveryProofs.
Open Scope Z_scope.

Theorem C19_first : forall ports,
  match findPort ports with
  | Some d => exists pre p post, ports = pre ++ p :: post /\ d = dev p /\
               ((by_name p = true /\ forallb (fun y => negb (by_name y)) pre = true) \/
                (by_vidpid p = true /\ forallb (fun y => negb (by_name y)) ports = true /\ forallb (fun y => negb (by_vidpid y)) pre = true))
  | None => forallb (fun y => negb (is_ebb_port y)) ports = true
  end.
Proof. exact findPort_spec. Qed.

Theorem C19_list : forall ports,
  match list_ebb_ports ports with
  | Some l => l = filter is_ebb_port ports /\ l <> []
  | None => filter is_ebb_port ports = []
  end.
Proof. exact list_ebb_ports_spec. Qed.

(* a lookup returns the device of the first port that answers to the name, hence never a port outside the list *)
Theorem C19_lookup : forall legacy ports n,
  match find_named_l legacy ports (Some n) with
  | Some d => exists pre p post, ports = pre ++ p :: post /\ d = dev p /\ matches legacy n p = true /\
              forallb (fun y => negb (matches legacy n y)) pre = true
  | None => forallb (fun y => negb (matches legacy n y)) ports = true
  end.
Proof. exact find_named_spec. Qed.

(* the name the library itself reports for a port (part of the description, SER= tag, SNR= tag, device name) finds that port,
   in any letter case, unless an earlier port also matches *)
Theorem C19_own_name_matches : forall legacy p, matches legacy (name_of legacy p) p = true.
Proof. exact matches_own_name. Qed.
Theorem C19_lookup_self : forall legacy pre p post n, lower n = lower (name_of legacy p) ->
  forallb (fun y => negb (matches legacy n y)) pre = true ->
  find_named_l legacy (pre ++ p :: post) (Some n) = Some (dev p).
Proof. exact lookup_own_name. Qed.
Theorem C19_case_insensitive : forall legacy n n' p, lower n = lower n' -> matches legacy n p = matches legacy n' p.
Proof. exact matches_case_insensitive. Qed.

(* the layers agree except that the legacy one additionally understands the old SNR= tag *)
Theorem C19_layers : forall n p,
  (contains (lower (hwid p)) (lower (T "SNR=" ++ n)) = false -> matches true n p = matches false n p) /\
  (matches false n p = true -> matches true n p = true).
Proof. intros n p. split; [apply layers_agree|apply legacy_finds_more]. Qed.

Example C19_example :
  let ports := [(T "COM3", T "USB Serial Device (COM3)", T "USB VID:PID=2341:0043 SER=55 LOCATION=1-3");
                (T "COM7", T "USB Serial Device (COM7)", T "USB VID:PID=04D8:FD92 SER=East LOCATION=1-4");
                (T "/dev/ttyACM0", T "EiBotBoard,West", T "USB VID:PID=04D8:FD92")] in
  findPort ports = Some (T "/dev/ttyACM0") /\ list_named_ebbs false ports = Some [T "East"; T "West"] /\
  find_named_l false ports (Some (T "eAST")) = Some (T "COM7") /\ find_named_l true ports (Some (T "com7")) = Some (T "COM7").
Proof. vm_compute. repeat split; reflexivity. Qed.

Print Assumptions C19_first.
Print Assumptions C19_list.
Print Assumptions C19_lookup.
Print Assumptions C19_own_name_matches.
Print Assumptions C19_lookup_self.
Print Assumptions C19_case_insensitive.
Print Assumptions C19_layers.
