(* C13 - Grid index: nearest() returns a live path end that no neighbouring end beats.  Statements only.
   Proved here: the adjacency lists are exactly the Chebyshev-1 neighbourhoods; ends within one cell width fall in adjacent
   cells; nearest() returns the first minimum over the ids stored in the neighbourhood cells (over all cells when that is empty,
   or when the only candidate is id 0).  NOT yet proved (stated as C13_grid_invariant_todo in DESIGN.md): that after construction
   and any removals the cells hold exactly the live ends lying in them; that part of the property is covered by the correspondence
   and the brute-force judgement of every query of every generated history. *)
From Plotink Require Import Base.Prelude Model.Grid Proofs.GridProofs.
Open Scope Z_scope.

Theorem C13_adjacent : forall b x y x' y', 1 <= b -> 0 <= x < b -> 0 <= y < b -> 0 <= x' < b -> 0 <= y' < b ->
  (In (x' + b * y') (adjacent b (x + b * y)) <-> Z.abs (x - x') <= 1 /\ Z.abs (y - y') <= 1).
Proof. exact adjacent_spec. Qed.

(* two coordinates at most one cell width apart fall in the same or in neighbouring columns / rows *)
Theorem C13_within_one_cell : forall u v : Q, (Qabs (u - v) <= 1)%Q -> Z.abs (Qfloor u - Qfloor v) <= 1.
Proof. exact floor_near. Qed.

(* nearest() against the grid contents: None iff no id is stored anywhere; otherwise a stored id that is at least as close as
   every id stored in the query's cell and its neighbours, and as every stored id when those cells are empty *)
Theorem C13_nearest_partial : forall ix q,
  match nearest ix q with
  | None => all_ids ix q = []
  | Some e => In e (all_ids ix q) /\ (forall e', In e' (nb_ids ix q) -> (dist ix q e <= dist ix q e')%Q) /\
              (nb_ids ix q = [] -> forall e', In e' (all_ids ix q) -> (dist ix q e <= dist ix q e')%Q)
  end.
Proof. exact nearest_wrt_grid. Qed.

Example C13_example :
  match build [((0, 0), (4, 0)); ((1, 3), (2, 2)); ((9, 9), (8, 8))]%Q 3 true with
  | Ret ix => (nearest ix (4, 1)%Q, match remove_path ix 0 with Ret ix' => nearest ix' (4, 1)%Q | Raise _ => None end)
  | Raise _ => (None, None)
  end = (Some 3%nat, Some 4%nat).
Proof. vm_compute. reflexivity. Qed.

Print Assumptions C13_adjacent.
Print Assumptions C13_within_one_cell.
Print Assumptions C13_nearest_partial.
