(* C13 - Grid index: nearest() returns a live path end that no neighbouring end beats.  Statements only.
   The whole statement is proved for every vertex list, bins >= 1, reversal setting, and every history of removals of
   distinct existing paths: the constructor files every end in the cell its coordinates fall in (all of them inside the grid:
   shim lemma), removals take out exactly the removed path's ends and never raise, and a query returns None exactly when no
   path remains, otherwise the id of a live end at least as close as every live end in the query's cell and its eight
   neighbours, and as every live end when those cells hold none.  Exact rational arithmetic (the floats of the code are
   tied to it by the correspondence run, see DESIGN.md). *)
From Plotink Require Import Base.Prelude Model.Grid Proofs.GridProofs Proofs.GridInv.
Open Scope Z_scope.

Theorem C13_adjacent : forall b x y x' y', 1 <= b -> 0 <= x < b -> 0 <= y < b -> 0 <= x' < b -> 0 <= y' < b ->
  (In (x' + b * y') (adjacent b (x + b * y)) <-> Z.abs (x - x') <= 1 /\ Z.abs (y - y') <= 1).
Proof. exact adjacent_spec. Qed.

(* two coordinates at most one cell width apart fall in the same or in neighbouring columns / rows *)
Theorem C13_within_one_cell : forall u v : Q, (Qabs (u - v) <= 1)%Q -> Z.abs (Qfloor u - Qfloor v) <= 1.
Proof. exact floor_near. Qed.

(* nearest() against the grid contents, whatever they are *)
Theorem C13_nearest_wrt_grid : forall ix q,
  match nearest ix q with
  | None => all_ids ix q = []
  | Some e => In e (all_ids ix q) /\ (forall e', In e' (nb_ids ix q) -> (dist ix q e <= dist ix q e')%Q) /\
              (nb_ids ix q = [] -> forall e', In e' (all_ids ix q) -> (dist ix q e <= dist ix q e')%Q)
  end.
Proof. exact nearest_wrt_grid. Qed.

(* the property: ends_of = the (id, point) pairs of all path ends (starts; ends too when reversal is allowed);
   alive_rs rs = ends of paths not in rs; near_cell = column and row differ by at most 1 from the query's (clamped) cell.
     nearest_ok r := match r with
       | None    => no end is alive
       | Some id => id is the id of an alive end e, e is at least as close to q as every alive end in a near cell,
                    and as every alive end if no alive end is in a near cell  end *)
Theorem C13_nearest : forall vs b reverse ix0 rs, 1 <= b -> build vs b reverse = Ret ix0 ->
  NoDup rs -> (forall i, In i rs -> (i < length vs)%nat) ->
  exists ix, removes ix0 rs = Ret ix /\
    forall q, nearest_ok vs b reverse ix0 (alive_rs vs rs) q (nearest ix q).
Proof. exact nearest_history. Qed.

(* "returns None exactly when no path remains": no end is alive iff every path has been removed *)
Theorem C13_none_iff : forall vs reverse rs,
  (forall e, In e (ends_of vs reverse) -> alive_rs vs rs e = false) <-> (forall i, (i < length vs)%nat -> In i rs).
Proof. exact no_live_iff. Qed.

(* "the true nearest end whenever one lies within one cell width": such an end is in a near cell, so by C13_nearest the
   result is at least as close as it *)
Theorem C13_one_cell_width : forall vs b reverse ix0, 1 <= b -> build vs b reverse = Ret ix0 -> forall q e, In e (ends_of vs reverse) ->
  (Qabs (fst q - fst (snd e)) <= bsx ix0)%Q -> (Qabs (snd q - snd (snd e)) <= bsy ix0)%Q -> near_cell b ix0 q (snd e).
Proof. exact within_one_cell_near. Qed.

(* the constructor: a zero extent raises, otherwise every end is filed in range *)
Theorem C13_build : forall vs b reverse ix, 1 <= b -> build vs b reverse = Ret ix ->
  bins ix = b /\ count ix = length vs /\ rev_ok ix = reverse /\ verts ix = vs /\
  length (grid ix) = Z.to_nat (b * b) /\
  (forall e, In e (ends_of vs reverse) -> (cellnat ix (snd e) < Z.to_nat (b * b))%nat) /\
  (forall c, nth c (grid ix) [] = map fst (filter (fun e => Nat.eqb (cellnat ix (snd e)) c) (ends_of vs reverse))) /\
  (0 < bsx ix)%Q /\ (0 < bsy ix)%Q /\
  (forall e, In e (ends_of vs reverse) -> (gxmin ix <= fst (snd e))%Q /\ (gymin ix <= snd (snd e))%Q).
Proof. exact build_spec. Qed.

Example C13_example :
  match build [((0, 0), (4, 0)); ((1, 3), (2, 2)); ((9, 9), (8, 8))]%Q 3 true with
  | Ret ix => (nearest ix (4, 1)%Q, match remove_path ix 0 with Ret ix' => nearest ix' (4, 1)%Q | Raise _ => None end)
  | Raise _ => (None, None)
  end = (Some 3%nat, Some 4%nat).
Proof. vm_compute. reflexivity. Qed.
(* the hypotheses of C13_nearest are met by a concrete history *)
Example C13_nonvacuous :
  match build [((0, 0), (4, 0)); ((1, 3), (2, 2)); ((9, 9), (8, 8))]%Q 3 true with
  | Ret ix => match removes ix [2%nat; 0%nat] with Ret ix' => nearest ix' (9, 9)%Q | Raise _ => None end
  | Raise _ => None end = Some 4%nat.
Proof. vm_compute. reflexivity. Qed.

Print Assumptions C13_adjacent.
Print Assumptions C13_within_one_cell.
Print Assumptions C13_nearest_wrt_grid.
Print Assumptions C13_nearest.
Print Assumptions C13_none_iff.
Print Assumptions C13_one_cell_width.
Print Assumptions C13_build.
