(* C12 - Length parsing and unit conversion are mutually consistent and follow SVG units.  Statements only.
   [idq] is the exact layer (no rounding); the float code is the same source with rnd53 after every operation. *)
From Plotink Require Import Base.Prelude Base.PyStr Model.Units Proofs.UnitsProofs.
Open Scope Q_scope.

(* parsing: whitespace, a numeral ending in a digit or a dot, one of the recognised suffixes, whitespace *)
Theorem C12_parse : forall rnd w1 w2 a m z sfx u v,
  Forall (fun c => is_ws c = true) w1 -> Forall (fun c => is_ws c = true) w2 ->
  is_ws a = false -> numeral_end z = true -> suffix_of sfx u ->
  parse_float (a :: m ++ [z]) = Some v ->
  parseLengthWithUnits rnd (w1 ++ ((a :: m ++ [z]) ++ sfx) ++ w2) = Some (rnd v, u).
Proof. exact parse_spec. Qed.

(* conversion to user units multiplies by the SVG factor at 96 px per inch *)
Theorem C12_to_user_units : forall b s ref v u, parseLengthWithUnits idq s = Some (v, u) -> u <> UPct ->
  exists r, unitsToUserUnits idq b s ref = Some r /\ r == v * uu_factor u.
Proof. exact to_user_units_table. Qed.

(* percentages are taken of the supplied reference, a reference of 0 included (repaired reading) *)
Theorem C12_percent : forall s ref v, parseLengthWithUnits idq s = Some (v, UPct) ->
  exists r, unitsToUserUnits idq false s ref = Some r /\
            r == match ref with Some p => v * p / 100 | None => v / 100 end.
Proof. exact to_user_units_percent. Qed.

Theorem C12_from_user_units : forall d u, u <> UPct -> userUnitToUnits idq d u == d / uu_factor u.
Proof. exact from_user_units_table. Qed.

Theorem C12_roundtrip : forall v u, u <> UPct -> userUnitToUnits idq (v * uu_factor u) u == v.
Proof. exact roundtrip_units. Qed.
Theorem C12_roundtrip_percent : forall v, userUnitToUnits idq (v / 100) UPct == v.
Proof. exact roundtrip_percent. Qed.

(* the document-attribute readers use the same table: pixels = inches x 96 *)
Theorem C12_getLength : forall s dflt v u, s <> [] -> parseLengthWithUnits idq s = Some (v, u) -> u <> UPct ->
  exists px inch, getLength idq (Some s) dflt = Some px /\ getLengthInches idq (Some s) = Some inch /\
                  px == v * uu_factor u /\ px == inch * 96.
Proof. exact getLength_table. Qed.
Theorem C12_getLength_percent : forall s dflt v, s <> [] -> parseLengthWithUnits idq s = Some (v, UPct) ->
  exists px, getLength idq (Some s) dflt = Some px /\ px == dflt * v / 100 /\ getLengthInches idq (Some s) = None.
Proof. exact getLength_percent. Qed.

(* no numeric part / unsupported unit: None from every reader, never a number *)
Theorem C12_unparsable : forall b s ref dflt, parseLengthWithUnits idq s = None ->
  unitsToUserUnits idq b s ref = None /\ (s <> [] -> getLength idq (Some s) dflt = None /\ getLengthInches idq (Some s) = None).
Proof. exact unparsable_gives_none. Qed.

(* 12em, 3ex, "mm", "" and "abc" have no value; " 2.5e1mm " is 25 mm *)
Example C12_examples :
  parseLengthWithUnits idq [49; 50; 101; 109]%Z = None /\ parseLengthWithUnits idq [51; 101; 120]%Z = None /\
  parseLengthWithUnits idq [109; 109]%Z = None /\ parseLengthWithUnits idq [] = None /\ parseLengthWithUnits idq [97; 98; 99]%Z = None /\
  match parseLengthWithUnits idq [32; 50; 46; 53; 101; 49; 109; 109; 32]%Z with Some (v, u) => Qeq_bool v 25 && unit_eqb u UMm | None => false end = true.
Proof. repeat split; vm_compute; reflexivity. Qed.

Print Assumptions C12_parse.
Print Assumptions C12_to_user_units.
Print Assumptions C12_percent.
Print Assumptions C12_from_user_units.
Print Assumptions C12_roundtrip.
Print Assumptions C12_roundtrip_percent.
Print Assumptions C12_getLength.
Print Assumptions C12_getLength_percent.
Print Assumptions C12_unparsable.
