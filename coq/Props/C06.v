(* C06 - Motion/configuration helpers emit exactly the documented EBB command text.  Statements only.
   The theorems are about the models of the text construction in both layers (repaired optional-argument tests), for all
   integer arguments; the content is a table equality plus the pause chunking, the weight is carried by the correspondence. *)
From Plotink Require Import Base.Prelude Base.PyStr Model.Serial3 Spec.EbbDoc Model.Motion Proofs.MotionProofs.
Open Scope Z_scope.

Theorem C06_legacy : forall dx dy dur da db r1 s1 a1 r2 s2 a2 clear rate p1 p2 res up delay pin bpin state v ms st,
  doXYMove dx dy dur = doc (RqXY dx dy dur) /\ doABMove da db dur = doc (RqAB da db dur) /\
  doLowLevelMove true r1 s1 a1 r2 s2 a2 clear = doc (RqLM r1 s1 a1 r2 s2 a2 clear) /\
  doAbsMove true rate p1 p2 = doc (RqAbs rate (match p1, p2 with Some a, Some b => Some (a, b) | _, _ => None end)) /\
  sendDisableMotors = doc RqMotorsOff /\ sendEnableMotors res = doc (RqMotorsBoth res) /\
  sendPen true up delay pin = doc (RqPen up delay pin) /\ PBOutConfig bpin state = doc (RqBConfig bpin state 0) /\
  PBOutValue bpin state = doc (RqBSet bpin state) /\ TogglePen = doc RqToggle /\
  (setPenDownPos v = doc (RqPenPos false v) /\ setPenUpPos v = doc (RqPenPos true v) /\
   setPenDownRate v = doc (RqPenRate false v) /\ setPenUpRate v = doc (RqPenRate true v)) /\
  setEBBLV v = doc (RqVarSet v None) /\ legacy_servo_timeout ms st = doc (RqServoTimeout ms st).
Proof.
  intros. repeat split; first [apply legacy_xy | apply legacy_ab | apply legacy_lm | apply legacy_abs | apply legacy_motors_off | apply legacy_motors
    | apply legacy_pen | apply legacy_bconfig | apply legacy_bset | apply legacy_toggle | apply legacy_pen_pos_rate | apply legacy_layer_var | apply legacy_servo].
Qed.

Theorem C06_ebb3 : forall dx dy dur rate p1 p2 up delay pin bpin state dir v i ms st,
  e3_xy_move dx dy dur = doc (RqXY dx dy dur) /\
  e3_abs_move rate p1 p2 = doc (RqAbs rate (match p1, p2 with Some a, Some b => Some (a, b) | _, _ => None end)) /\
  e3_motors_disable = doc RqMotorsOff /\ e3_pen true up delay pin = doc (RqPen up delay pin) /\
  e3_dio_b_config bpin state dir = doc (RqBConfig bpin state dir) /\ e3_dio_b_set bpin state = doc (RqBSet bpin state) /\
  (e3_pen_pos up v = doc (RqPenPos up v) /\ e3_pen_rate up v = doc (RqPenRate up v)) /\
  e3_servo_timeout ms st = doc (RqServoTimeout ms st) /\ e3_var_write v i = doc (RqVarSet v (Some i)) /\
  (e3_clear_steps = doc RqClearSteps /\ e3_clear_acc = doc RqClearAcc).
Proof.
  intros. repeat split; first [apply e3_xy | apply e3_abs | apply e3_motors_off | apply e3_pen_doc | apply e3_bconfig | apply e3_bset
    | apply e3_pos_rate | apply e3_servo | apply e3_var | apply e3_clear].
Qed.

(* the two layers therefore emit the same text for the same request; in particular XY moves send duration, Y, X in both *)
Theorem C06_layers_agree : forall dx dy dur, doXYMove dx dy dur = e3_xy_move dx dy dur.
Proof. intros. rewrite legacy_xy, e3_xy. reflexivity. Qed.

(* timed pause, every integer n: no command for n <= 0; for n >= 1 chunks in 1..750 summing to n; the fuel the models use suffices *)
Theorem C06_pause : forall n,
  (e3_timed_pause n = doc (RqPause n) /\ doTimedPause n = doc (RqPause n)) /\
  let ds := pause_chunks (Z.to_nat (n / 750 + 2)) n in
  (n <= 0 -> ds = []) /\ (1 <= n -> Forall (fun d => 1 <= d <= 750) ds /\ zsum ds = n).
Proof.
  intros n. split; [apply pause_doc|]. apply pause_chunks_fuel_enough.
  destruct (Z_le_gt_dec 0 (n / 750)); lia.
Qed.

(* a low-level move is suppressed exactly when neither axis can move *)
Theorem C06_lowlevel_suppressed_iff : forall fx r1 s1 a1 r2 s2 a2 clear,
  doLowLevelMove fx r1 s1 a1 r2 s2 a2 clear = [] <->
  ((r1 = 0 /\ a1 = 0) \/ s1 = 0) /\ ((r2 = 0 /\ a2 = 0) \/ s2 = 0).
Proof.
  intros. unfold doLowLevelMove.
  destruct (((r1 =? 0) && (a1 =? 0) || (s1 =? 0)) && ((r2 =? 0) && (a2 =? 0) || (s2 =? 0))) eqn:E.
  - split; [intros _|reflexivity]. apply andb_true_iff in E. destruct E as [E1 E2].
    apply orb_true_iff in E1, E2. rewrite !andb_true_iff, !Z.eqb_eq in *. tauto.
  - split; [destruct (truthy fx clear); discriminate|]. intros [H1 H2]. exfalso.
    apply andb_false_iff in E. rewrite !orb_false_iff, !andb_false_iff, !Z.eqb_neq in E. lia.
Qed.

Print Assumptions C06_legacy.
Print Assumptions C06_ebb3.
Print Assumptions C06_layers_agree.
Print Assumptions C06_pause.
Print Assumptions C06_lowlevel_suppressed_iff.
