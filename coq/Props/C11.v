(* C11 - viewBox scaling follows the SVG preserveAspectRatio rules.  Statements only. *)
From Plotink Require Import Base.Prelude Base.PyStr Model.VbScale Spec.Svg Proofs.VbScaleProofs Proofs.VbParseGen.
Open Scope Q_scope.

(* numeric core (exact layer): for positive sizes and every alignment x meet/slice the result satisfies the SVG equations *)
Theorem C11_core : forall a m min_x min_y w h dw dh, 0 < w -> 0 < h -> 0 < dw -> 0 < dh -> m <> MosOther ->
  svg_ok a m min_x min_y w h dw dh (vb_core idq a m min_x min_y w h dw dh).
Proof. exact vb_core_svg. Qed.

(* on a valid viewBox and positive sizes the function is the core applied to the parsed numbers and attribute *)
Theorem C11_valid : forall rnd b t0 t1 t2 t3 rest vb par dw dh a0 a1 a2 a3,
  split_ws (replace1 44%Z [32%Z] (strip vb)) = t0 :: t1 :: t2 :: t3 :: rest ->
  parse_float t0 = Some a0 -> parse_float t1 = Some a1 -> parse_float t2 = Some a2 -> parse_float t3 = Some a3 ->
  0 < rnd a2 -> 0 < rnd a3 -> 0 < dw -> 0 < dh ->
  vb_scale rnd b (Some vb) par dw dh =
  Ret (vb_core rnd (align_of (fst (parse_par par))) (mos_of (snd (parse_par par))) (rnd a0) (rnd a1) (rnd a2) (rnd a3) dw dh).
Proof. exact vb_scale_valid. Qed.

(* attribute parsing: all 10 x {absent, meet, slice} x {defer, -} settings, in lower / upper / mixed case, with
   space, comma, tab, comma-with-spaces and newline separators and surrounding whitespace: 8100 strings, kernel-evaluated *)
Theorem C11_parse_sweep : sweep = true.
Proof. exact sweep_true. Qed.
(* ... and for every spelling, not only the swept ones: any letter case of defer, of the alignment and of meet / slice, any non-empty run
   of white space and commas between the parts, any such run (or none) before and after *)
Theorem C11_parse_general : forall (A : align) (M : option mos) (use_defer : bool) pre w1 w2 wl d a m,
  seps_only pre -> seps_only wl -> seps_only w1 -> w1 <> [] -> seps_only w2 -> w2 <> [] ->
  lower d = t_defer -> lower a = align_txt A ->
  match M with Some MosOther => False | Some mm => lower m = mos_text mm | None => True end ->
  let body := (if use_defer then [(d, w1)] else []) ++ match M with Some _ => [(a, w2)] | None => [] end in
  let tl := match M with Some _ => m | None => a end in
  let (pa, pm) := parse_par (Some (pre ++ (join body ++ tl) ++ wl)) in
  align_of pa = A /\ mos_of pm = match M with Some mm => mm | None => Meet end.
Proof. exact parse_par_general. Qed.
(* the tokeniser itself, for any number of words *)
Theorem C11_tokens : forall pre body tl wl, seps_only pre -> wf (body ++ [(tl, [])]) -> seps_only wl ->
  split_ws (lower (replace1 44%Z [32%Z] (strip (pre ++ (join body ++ tl) ++ wl)))) = map (fun p => lower (fst p)) body ++ [lower tl].
Proof. exact tokens_of_sentence. Qed.
(* non-vacuity: "\t DeFeR ,, XMAXymid\n,slice ,\n" *)
Example C11_parse_general_example :
  let pa_pm := parse_par (Some [9; 32; 68; 101; 70; 101; 82; 32; 44; 44; 32; 88; 77; 65; 88; 121; 109; 105; 100; 10; 44; 115; 108; 105; 99; 101; 32; 44; 10]%Z) in
  align_of (fst pa_pm) = AXY AMax AMid /\ mos_of (snd pa_pm) = Slice.
Proof. vm_compute. split; reflexivity. Qed.

Theorem C11_parse_absent : parse_par None = (t_xmidymid, t_meet) /\ align_of t_xmidymid = AXY AMid AMid /\ mos_of t_meet = Meet.
Proof. exact parse_absent. Qed.

(* identity transform: missing viewBox, fewer than four tokens, non-positive sizes; never an exception (repaired reading) *)
Theorem C11_identity : forall rnd b par dw dh,
  vb_scale rnd b None par dw dh = Ret identity4 /\
  (forall vb, (length (split_ws (replace1 44%Z [32%Z] (strip vb))) < 4)%nat -> vb_scale rnd b (Some vb) par dw dh = Ret identity4).
Proof. exact vb_identity. Qed.
Theorem C11_nonpositive : forall rnd b t0 t1 t2 t3 rest vb par dw dh a0 a1 a2 a3,
  split_ws (replace1 44%Z [32%Z] (strip vb)) = t0 :: t1 :: t2 :: t3 :: rest ->
  parse_float t0 = Some a0 -> parse_float t1 = Some a1 -> parse_float t2 = Some a2 -> parse_float t3 = Some a3 ->
  (rnd a2 <= 0 \/ rnd a3 <= 0 \/ dw <= 0 \/ dh <= 0) ->
  vb_scale rnd b (Some vb) par dw dh = Ret identity4.
Proof. exact vb_nonpositive. Qed.
Theorem C11_no_raise : forall rnd vb par dw dh, exists r, vb_scale rnd false vb par dw dh = Ret r.
Proof. exact vb_no_raise. Qed.

(* non-vacuity: "0 0 100 100", xMinYMid slice on a 300 x 100 page: scale 3, the viewBox centre lands on the page centre *)
Example C11_example :
  vb_scale idq false (Some [48; 32; 48; 32; 49; 48; 48; 32; 49; 48; 48]%Z)
           (Some [120; 77; 105; 110; 89; 77; 105; 100; 32; 115; 108; 105; 99; 101]%Z) 300 100
  = Ret (300 / 100, 300 / 100, - 0, - 0 + (100 / 300 * 100 - 100) / 2).
Proof. vm_compute. reflexivity. Qed.

Print Assumptions C11_core.
Print Assumptions C11_valid.
Print Assumptions C11_parse_sweep.
Print Assumptions C11_parse_absent.
Print Assumptions C11_identity.
Print Assumptions C11_nonpositive.
Print Assumptions C11_no_raise.
Print Assumptions C11_parse_general.
Print Assumptions C11_tokens.
