(* C09 - Vertex reduction keeps the path within tolerance of the original.  Statements only.
   Exact arithmetic (supersample and points_in_tolerance run unchanged on fractions.Fraction). *)
From Plotink Require Import Base.Prelude Model.Simplify Proofs.SimplifyProofs.
Open Scope Q_scope.

(* the fast predicate decides the true point-to-segment distance: it accepts a point iff some point of the chord
   is strictly closer than the tolerance (zero-length chords included; the "zero-length segment" exit is unreachable) *)
Theorem C09_predicate_is_distance : forall tol2 s0 s1 p, near tol2 s0 s1 p = true <-> within tol2 s0 s1 p.
Proof. exact near_iff_within. Qed.

Theorem C09_points_in_tolerance : forall first interior lst tol,
  points_in_tolerance (first :: interior ++ [lst]) tol = true <-> Forall (within (tol * tol) first lst) interior.
Proof. exact pit_iff. Qed.

(* supersample only deletes: the result keeps the first vertex and, between consecutive survivors a and b, every
   deleted vertex passes the distance test against the segment a-b; for every vertex list and every tolerance *)
Theorem C09_reduction : forall (v : list ipt) tol, v <> [] ->
  Red ipt (near_i (tol * tol)) v (supersample ipt (near_i (tol * tol)) (0%Z, (0, 0)) v (Qltb 0 tol)).
Proof. intros v tol H. apply supersample_Red. exact H. Qed.

(* consequences of the reduction relation: in-order subsequence, same first and last vertex *)
Theorem C09_subsequence : forall (V : Type) nearV (l o : list V), Red V nearV l o ->
  sublist V l o /\ hd_error l = hd_error o /\ forall d, last l d = last o d.
Proof.
  intros V nearV l o R. destruct l as [|W l']; [exfalso; inversion R|]. set (l := W :: l') in *.
  split; [exact (Red_sublist V nearV W l o R)|]. split; [exact (Red_head V nearV l o R)|]. intros d. exact (Red_last V nearV l o d R).
Qed.

Theorem C09_unchanged : forall (v : list ipt) tol, ((length v <= 2)%nat \/ tol <= 0) ->
  supersample ipt (near_i (tol * tol)) (0%Z, (0, 0)) v (Qltb 0 tol) = v.
Proof.
  intros v tol [H|H]; apply supersample_unchanged; [left; exact H|right; apply Qltb_false; exact H].
Qed.

(* non-vacuity: the middle vertex of a flat triple is deleted, a sharp spike is kept *)
Example C09_example :
  supersample_idx [(0%Z, (0, 0)); (1%Z, (1, 1 # 100)); (2%Z, (2, 0)); (3%Z, (3, 5)); (4%Z, (4, 0))] (1 # 10) = [0%Z; 2%Z; 3%Z; 4%Z].
Proof. vm_compute. reflexivity. Qed.

Print Assumptions C09_predicate_is_distance.
Print Assumptions C09_points_in_tolerance.
Print Assumptions C09_reduction.
Print Assumptions C09_subsequence.
Print Assumptions C09_unchanged.
