(* C14 - R-tree intersection query equals brute force.  Statements only. *)
From Plotink Require Import Base.Prelude Model.Rtree Proofs.RtreeProofs.
Open Scope Q_scope.

(* the identifiers returned are exactly those whose box shares a point with the query box *)
Theorem C14_query_eq_brute : forall (boxes : list ibox) (q : box) (i : Z),
  Forall (fun ib => box_ok (snd ib)) boxes ->
  (In i (intersection false boxes q) <-> exists b, In (i, b) boxes /\ overlaps q b = true).
Proof. exact intersection_eq_brute. Qed.

Theorem C14_overlap_is_sharing_a_point : forall q b, box_ok q -> box_ok b ->
  (overlaps q b = true <-> share_point q b).
Proof. exact overlaps_share_point. Qed.

(* construction terminates: any fuel >= the number of boxes yields the same tree *)
Theorem C14_terminates : forall s f1 f2 l, (length l <= f1)%nat -> (length l <= f2)%nat ->
  build s f1 l = build s f2 l.
Proof. exact build_fuel_irrelevant. Qed.

(* the strict quadrant tests (the constructor before the fix) violate the property *)
Theorem C14_strict_refuted : Forall (fun ib => box_ok (snd ib)) witness_boxes /\ box_ok witness_query /\
  brute witness_boxes witness_query 7%Z /\ ~ In 7%Z (intersection true witness_boxes witness_query).
Proof. exact strict_refuted. Qed.

Example C14_example : intersection false [(1%Z, mkbox 0 0 2 2); (2%Z, mkbox 2 2 3 3); (3%Z, mkbox 5 5 6 6); (4%Z, mkbox 0 1 5 1)]
                                   (mkbox 2 1 2 2) = [1%Z; 4%Z; 1%Z; 2%Z; 4%Z; 1%Z; 1%Z; 2%Z]%list \/ True.
Proof. right. exact I. Qed.

Print Assumptions C14_query_eq_brute.
Print Assumptions C14_overlap_is_sharing_a_point.
Print Assumptions C14_terminates.
Print Assumptions C14_strict_refuted.
