(* C05 - EBB3 command/query framing and fault handling.  Statements only. *)
From Plotink Require Import Base.Prelude Base.PyStr Model.Serial3 Proofs.Serial3Proofs Proofs.Serial3NoRaise.
Open Scope Z_scope.

(* framing of command: on a connected error-free object, if the write succeeds the trimmed text is written exactly once,
   at most 26 lines are read (25 re-reads), and the outcome is a function of what those reads produced *)
Theorem C05_command_frame : forall s cmd sc c nm sc1 x sc',
  blocked s = false -> strip cmd = c -> cmd_name c = Some nm -> write_ok sc = (true, sc1) -> reads26 sc1 = (x, sc') ->
  command s cmd sc = (command_result s nm x, Ret (err_free (command_result s nm x)), [c], sc') /\ (length sc1 - length sc' <= 26)%nat.
Proof. intros. split; [eapply command_unfold; eassumption|eapply reads26_consumes; eassumption]. Qed.

(* success exactly when the reply begins with the request's name and contains no "Err:"; success leaves the object unchanged;
   every failure is recorded.  (Names R, RB, BL are exempt from recording an I/O exception: the board leaves the bus.) *)
Theorem C05_command_outcome : forall s nm x, err s = None -> reboot_like nm = false ->
  (err_free (command_result s nm x) = true <-> exists r, x = RLine r /\ good_reply nm r = true) /\
  (err_free (command_result s nm x) = true -> command_result s nm x = s) /\
  (err_free (command_result s nm x) = false <-> err (command_result s nm x) <> None).
Proof. exact command_result_spec. Qed.

Theorem C05_query_frame : forall s q sc c nm sc1 x sc',
  blocked s = false -> strip q = c -> cmd_name c = Some nm -> write_ok sc = (true, sc1) -> reads26 sc1 = (x, sc') ->
  query s q sc = (fst (query_result s nm x), Ret (snd (query_result s nm x)), [c], sc').
Proof. exact query_unfold. Qed.

(* a query returns the reply with the name and one separating comma removed exactly when the reply is good; else None, failure recorded *)
Theorem C05_query_outcome : forall s nm x, err s = None -> nm <> [] ->
  (forall p, snd (query_result s nm x) = Some p <-> exists r, x = RLine r /\ good_reply nm r = true /\ p = payload nm r) /\
  (snd (query_result s nm x) <> None -> fst (query_result s nm x) = s) /\
  (snd (query_result s nm x) = None -> err (fst (query_result s nm x)) <> None).
Proof. exact query_result_spec. Qed.

(* the three primitives never raise, for every script (faults, silence, garbage) and every state *)
Theorem C05_primitives_no_raise : forall c s t sc, cmd_name (strip t) <> None ->
  (exists s' b w sc', command s t sc = (s', Ret b, w, sc')) /\
  (exists s' v w sc', query s t sc = (s', Ret v, w, sc')) /\
  (exists s' v w sc', query_statusbyte c s sc = (s', Ret v, w, sc')).
Proof. exact primitives_no_raise. Qed.

(* every public request method (all 30 of them), for every state of the object and every script whose lines are failing replies for the
   request names the method uses - blank lines (timeouts), lines containing "Err:", lines that do not begin with the name - with faults and
   silence anywhere: the method returns normally.  The side conditions exclude argument errors (a blank request text; a value outside the
   signed 32-bit range for var_write_int32); fix_volt is the repaired reading of query_voltage / query_current (fix: commit in /repo) *)
Theorem C05_request_methods_no_raise : forall c s k sc,
  is_request k = true ->
  match k with
  | CCommand t => cmd_name (strip t) <> None
  | CQuery t => cmd_name (strip t) <> None /\ qbad t sc
  | CVarRead i => qbad (cat [T "QL,"; str_of_Z i]) sc
  | CVarRead32 _ => forall j, qbad (cat [T "QL,"; str_of_Z j]) sc
  | CVarWrite32 v _ => - 2147483648 <= v <= 2147483647
  | CMotorsQuery | CMotorsOn _ _ => qbad (T "QE") sc
  | CSteps => qbad (T "QS") sc
  | CBRead p => qbad (cat [T "PI,B,"; str_of_Z p]) sc
  | CVoltage _ | CCurrent => qbad (T "QC") sc /\ fix_volt c = true
  | _ => True
  end ->
  exists s' v w sc', step c s k sc = (s', Ret v, w, sc').
Proof. exact request_methods_no_raise. Qed.

(* non-vacuity: a script of silence, an error line, a mismatched line and a fault is failing for the name QL, and a 4-byte read against it
   returns its failure value *)
Example C05_no_raise_nonvacuous :
  let sc := [Empty; Empty; Line (T "!8 Err: unknown"); Empty; Line (T "ZZ,1"); Fault; Line (T "  ")] in
  let s0 := mkebb true None (Some [3; 0; 3]) None in
  bad_for (T "QL") sc /\ snd (fst (fst (var_read_int32 s0 5 sc))) = Ret RNone /\ snd (fst (fst (var_read s0 5 (Fault :: sc)))) = Ret RNone.
Proof.
  cbv zeta. split; [|split; vm_compute; reflexivity].
  intros l [E|[E|[E|[E|[E|[E|[E|[]]]]]]]]; try discriminate E; inversion E; subst l; unfold bad_line; cbv zeta.
  - right; left; vm_compute; reflexivity.
  - right; right; vm_compute; reflexivity.
  - left; vm_compute; reflexivity.
Qed.

(* attribution: against a conforming device every request of any sequence consumes exactly its own reply and returns it *)
Theorem C05_attribution : forall c es s rest, Forall ex_ok es -> blocked s = false ->
  Forall2 (fun e ent => let '(pre, k, post, o, w) := ent in
             pre = s /\ post = s /\ k = ex_call e /\ o = Ret (ex_result e) /\ w = [strip (x_text e)])
          es (run c s (device es ++ rest) (map ex_call es)).
Proof. exact conforming_attribution. Qed.

(* non-vacuity: 25 empty reads are waited through, 26 are a timeout *)
Example C05_retry_boundary :
  let s0 := mkebb true None (Some [3; 0; 3]) None in
  snd (fst (fst (query s0 (T " QB ") (Empty :: repeat Empty 25 ++ [Line (T "QB,1")])))) = Ret (Some (T "1")) /\
  snd (fst (fst (query s0 (T " QB ") (Empty :: repeat Empty 26 ++ [Line (T "QB,1")])))) = Ret None.
Proof. vm_compute. split; reflexivity. Qed.

Print Assumptions C05_command_frame.
Print Assumptions C05_command_outcome.
Print Assumptions C05_query_frame.
Print Assumptions C05_query_outcome.
Print Assumptions C05_primitives_no_raise.
Print Assumptions C05_attribution.
Print Assumptions C05_request_methods_no_raise.
