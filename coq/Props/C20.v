(* C20 - Text helpers: XML escaping round-trips; durations format to the nearest second.  Statements only. *)
From Plotink Require Import Base.Prelude Base.Rnd Spec.Xml Model.EbbCalc Model.Text Proofs.TextProofs Proofs.RenderProofs.
Open Scope Z_scope.

(* the five sequential .replace calls are a per-character map *)
Theorem C20_escape_is_charmap : forall s, xml_escape s = escape s.
Proof. exact xml_escape_eq. Qed.

(* the escaped form contains no raw less-than, greater-than, double or single quote, and every ampersand starts one of the five entities *)
Theorem C20_no_specials : forall s, existsb special (xml_escape s) = false /\ amp_ok (xml_escape s) = true.
Proof. intros s. rewrite xml_escape_eq. split; [exact (no_raw_specials s)|exact (every_amp_is_entity s)]. Qed.

(* element content: read back as the original text, for every text without CR (pre-escaped text included) *)
Theorem C20_roundtrip_content : forall s, has 13 s = false -> read_content (xml_escape s) = s.
Proof. exact roundtrip_content. Qed.

(* attribute value (either quote kind: no raw quote of either kind survives): for every text without TAB, LF, CR *)
Theorem C20_roundtrip_attr : forall s, has 9 s = false -> has 10 s = false -> has 13 s = false -> read_attr (xml_escape s) = s.
Proof. exact roundtrip_attr. Qed.

(* the full statement (all XML-legal characters, CR / TAB / LF included) is false: known finding C20-D10 *)
Theorem C20_cr_tab_refuted : read_content (xml_escape [97; 13; 98]) <> [97; 13; 98] /\ read_attr (xml_escape [97; 9; 98]) <> [97; 9; 98].
Proof. exact cr_refuted. Qed.

(* durations of at least 10 s: the printed fields encode exactly the duration rounded to the nearest second
   (ties to even), minutes and seconds in 0..59, form chosen by the rounded value *)
Theorem C20_hms_long : forall d, (10 <= d)%Q ->
  let x := format_hms_struct d false in
  hms_value x = Qround_he d /\ hms_wf x /\
  match x with
  | Millis _ => False
  | Secs _ => Qround_he d < 60
  | MinSec _ _ => 60 <= Qround_he d < 3600
  | HourMinSec _ _ _ => 3600 <= Qround_he d
  end.
Proof. exact hms_long. Qed.

Theorem C20_hms_short : forall d, (d < 10)%Q -> format_hms_struct d false = Millis (Qround_he (d * 1000)).
Proof. exact hms_short. Qed.

Theorem C20_hms_millis : forall d, format_hms d true = format_hms (rnd53 (d / 1000)) false.
Proof. exact hms_millis. Qed.

Example C20_example : format_hms (7201 # 2) false = [49; 58; 48; 48; 58; 48; 48] ++ s_hms /\
  xml_escape [38; 97; 109; 112; 59; 60] = [38; 97; 109; 112; 59; 97; 109; 112; 59; 38; 108; 116; 59].
Proof. split; vm_compute; reflexivity. Qed.

(* the characters printed encode the structured result faithfully: a reader that takes the text up to the first blank, splits it at
   '.' or ':' and reads the decimal fields (and requires the unit text after the blank) recovers exactly the fields that were printed -
   for every field combination the printer can be handed (seconds and minutes below 100, any hour count, any millisecond count) *)
Theorem C20_render_reads_back : forall x, hms_printable x -> read_hms (render x) = Some x.
Proof. exact render_reads_back. Qed.
(* so for every duration of at least 10 s the text decodes to fields whose value is the duration rounded to the nearest second *)
Corollary C20_hms_text_long : forall d, (10 <= d)%Q -> Qround_he d < 10 ^ 400 ->
  exists x, read_hms (format_hms d false) = Some x /\ hms_value x = Qround_he d /\ hms_wf x.
Proof.
  intros d Hd Hb. pose proof (hms_long d Hd) as H. cbv zeta in H. destruct H as (V & W & M).
  exists (format_hms_struct d false). split; [|split; assumption].
  unfold format_hms. apply render_reads_back.
  destruct (format_hms_struct d false) as [n|s|m s|h m s]; cbn [hms_printable hms_wf hms_value] in *.
  - contradiction.
  - lia.
  - split; [apply small_pow; lia|lia].
  - split; [|lia]. remember (10 ^ 400) as big. lia.
Qed.
Example C20_render_example : read_hms (format_hms (7201 # 2) false) = Some (HourMinSec 1 0 0) /\ read_hms (format_hms (1234 # 1000) false) = Some (Millis 1234).
Proof. split; vm_compute; reflexivity. Qed.

Print Assumptions C20_escape_is_charmap.
Print Assumptions C20_no_specials.
Print Assumptions C20_roundtrip_content.
Print Assumptions C20_roundtrip_attr.
Print Assumptions C20_cr_tab_refuted.
Print Assumptions C20_hms_long.
Print Assumptions C20_hms_short.
Print Assumptions C20_hms_millis.
Print Assumptions C20_render_reads_back.
Print Assumptions C20_hms_text_long.
