(* C16 - Board-state round trips through the EBB3 layer are faithful.  Statements only.
   The board is the ASSUMED device model Spec/Board.v.  The client model (Model/Serial3.v) is co-simulated with it:
   [settled] returns the run in which the lines written are exactly the lines the board answered.
   The motor protocol and the one-byte variables range over finite domains, which are swept completely inside the kernel;
   the 32-bit split/join is proved for all values. *)
From Plotink Require Import Base.Prelude Base.PyStr Model.Serial3 Spec.Board Proofs.BoardProofs.
Open Scope Z_scope.

(* every signed 32-bit value is split into four bytes 0..255 (big-endian) and joined back to itself *)
Theorem C16_int32_split_join : forall v, -2147483648 <= v <= 2147483647 ->
  exists b, to_bytes4 v = Some b /\ from_bytes4 b = Some v /\ Forall (fun x => 0 <= x <= 255) b /\ length b = 4%nat.
Proof. exact int32_roundtrip. Qed.

(* every byte value at every slot: written by var_write, stored by the board in that slot only, read back by var_read
   (256 x 32 cases, exhaustive); var_write_int32 / var_read_int32 are four such exchanges at consecutive slots by definition *)
Theorem C16_byte_exchange : byte_sweep = true.
Proof. exact byte_sweep_true. Qed.

(* the motor protocol from all 20 prior board motor states x all 36 requests (exhaustive): enabled flags and global mode as
   requested - including "only motor 2" from any prior mode - and motors_query_enabled decodes the resulting state *)
Theorem C16_motors : motors_sweep = true.
Proof. exact motors_sweep_true. Qed.
(* requests outside 0..5 are the clamped requests, so the sweep covers all integer arguments *)
Theorem C16_motors_clamp : forall s r1 r2 sc, motors_enable s r1 r2 sc = motors_enable s (clamp05 r1) (clamp05 r2) sc /\
  In (clamp05 r1) range06 /\ In (clamp05 r2) range06.
Proof. intros. split; [apply motors_enable_clamps|split; apply clamp05_range]. Qed.

Example C16_nickname : forallb nick_case_ok [Tt "Bot"; Tt "  Axi Draw "; Tt "x"; Tt "a b  c"; Tt "0123456789abcdef"] = true.
Proof. exact nick_examples. Qed.

Print Assumptions C16_int32_split_join.
Print Assumptions C16_byte_exchange.
Print Assumptions C16_motors.
Print Assumptions C16_motors_clamp.
