(* C16 - Board-state round trips through the EBB3 layer are faithful.  Statements only.
   The board is the ASSUMED device model Spec/Board.v.  The client model (Model/Serial3.v) is co-simulated with it:
   [settled] returns the run in which the lines written are exactly the lines the board answered.
   The motor protocol and the one-byte variables range over finite domains, which are swept completely inside the kernel;
   the 32-bit split/join is proved for all values. *)
From Plotink Require Import Base.Prelude Base.PyStr Model.Serial3 Spec.Board Proofs.BoardProofs Proofs.BoardCompose.
Open Scope Z_scope.

(* every signed 32-bit value is split into four bytes 0..255 (big-endian) and joined back to itself *)
Theorem C16_int32_split_join : forall v, -2147483648 <= v <= 2147483647 ->
  exists b, to_bytes4 v = Some b /\ from_bytes4 b = Some v /\ Forall (fun x => 0 <= x <= 255) b /\ length b = 4%nat.
Proof. exact int32_roundtrip. Qed.

(* the 4-byte writer and reader against the board, composed from byte exchanges: for EVERY board content (32 slots, any nickname and
   motor state), every connected error-free client state, every signed 32-bit value and every start slot 0..28 the write run is
   coherent (the lines written are the lines the board answered; whole script consumed), returns True, stores the four big-endian
   bytes in slots i..i+3 and changes nothing else; the read run from the resulting board is coherent and returns the value *)
Theorem C16_int32_round_trip : forall c s b v i, s_live s -> length (slots b) = 32%nat -> -2147483648 <= v <= 2147483647 -> 0 <= i <= 28 ->
  exists bytes w b' w2,
    to_bytes4 v = Some bytes /\ Forall (fun x => 0 <= x <= 255) bytes /\ length bytes = 4%nat /\
    coherent c s (CVarWrite32 v i) b s (Ret (RBool true)) w b' /\
    (forall j, nth j (slots b') 0 = if (Nat.leb (Z.to_nat i) j && Nat.ltb j (Z.to_nat i + 4))%bool then nth (j - Z.to_nat i) bytes 0 else nth j (slots b) 0) /\
    length (slots b') = 32%nat /\ nick b' = nick b /\ en1 b' = en1 b /\ en2 b' = en2 b /\ mode b' = mode b /\
    coherent c s (CVarRead32 i) b' s (Ret (RInt v)) w2 b'.
Proof. exact int32_write_read. Qed.

(* a nickname: for EVERY text (not containing the device's error marker), every board and every connected error-free client state,
   write_nickname transmits ST,<trimmed text>, the board stores the trimmed text and nothing else changes; query_nickname on the
   resulting board reads it back and the object's name is the trimmed text *)
Theorem C16_nickname_round_trip : forall c s b n0, s_live s -> let n := strip n0 in
  contains (T "QT," ++ n) (T "Err:") = false ->
  exists b', coherent c s (CWriteNick (Some n0)) b (set_name s n) (Ret (RBool true)) [T "ST," ++ n] b' /\
             nick b' = n /\ slots b' = slots b /\ en1 b' = en1 b /\ en2 b' = en2 b /\ mode b' = mode b /\
             coherent c (set_name s n) CQueryNick b' (set_name s n) (Ret RNone) [T "QT"] b'.
Proof. exact nickname_write_read. Qed.

(* the motor protocol for EVERY board (any variable store, any nickname, any of the 20 motor states), every connected error-free
   client state and every integer request: the run is coherent, nothing but the motor state changes, the enabled flags are
   clamp(r) <> 0 and the global mode is the requested non-zero scale (motor 1's when both are given, unchanged when none);
   and the query decodes any board's motor state *)
Theorem C16_motors_any_board : forall c s b r1 r2, s_live s -> 1 <= mode b <= 5 ->
  let c1 := clamp05 r1 in let c2 := clamp05 r2 in
  exists w b', coherent c s (CMotorsOn r1 r2) b s (Ret RNone) w b' /\
    slots b' = slots b /\ nick b' = nick b /\ en1 b' = negb (c1 =? 0) /\ en2 b' = negb (c2 =? 0) /\
    mode b' = (if negb (c1 =? 0) then c1 else if negb (c2 =? 0) then c2 else mode b).
Proof. exact motors_general. Qed.
Theorem C16_motors_query_any_board : forall c s b, s_live s -> 1 <= mode b <= 5 ->
  coherent c s CMotorsQuery b s (Ret (RPair (RInt (if en1 b then mode b else 0)) (RInt (if en2 b then mode b else 0)))) [T "QE"] b.
Proof. exact motors_query_general. Qed.

(* every byte value at every slot: written by var_write, stored by the board in that slot only, read back by var_read
   (256 x 32 cases, exhaustive); var_write_int32 / var_read_int32 are four such exchanges at consecutive slots by definition *)
Theorem C16_byte_exchange : byte_sweep = true.
Proof. exact byte_sweep_true. Qed.

(* the motor protocol from all 20 prior board motor states x all 36 requests (exhaustive): enabled flags and global mode as
   requested - including "only motor 2" from any prior mode - and motors_query_enabled decodes the resulting state *)
Theorem C16_motors : motors_sweep = true.
Proof. exact motors_sweep_true. Qed.
(* requests outside 0..5 are the clamped requests, so the sweep covers all integer arguments *)
Theorem C16_motors_clamp : forall s r1 r2 sc, motors_enable s r1 r2 sc = motors_enable s (clamp05 r1) (clamp05 r2) sc /\
  In (clamp05 r1) range06 /\ In (clamp05 r2) range06.
Proof. intros. split; [apply motors_enable_clamps|split; apply clamp05_range]. Qed.

Example C16_nickname : forallb nick_case_ok [Tt "Bot"; Tt "  Axi Draw "; Tt "x"; Tt "a b  c"; Tt "0123456789abcdef"] = true.
Proof. exact nick_examples. Qed.

Print Assumptions C16_int32_split_join.
Print Assumptions C16_int32_round_trip.
Print Assumptions C16_nickname_round_trip.
Print Assumptions C16_motors_any_board.
Print Assumptions C16_motors_query_any_board.
Print Assumptions C16_byte_exchange.
Print Assumptions C16_motors.
Print Assumptions C16_motors_clamp.
