(* C10 - Bezier subdivision refines the same curve until every piece is flat.  Statements only.
   Exact arithmetic.  The call returns for every node list and every flat > 0 (C10_terminates); the other theorems describe what it returns. *)
From Plotink Require Import Base.Prelude Model.Simplify Model.Subdiv Proofs.SimplifyProofs Proofs.SubdivProofs Proofs.SubdivTerm.
Open Scope Q_scope.

(* de Casteljau at 1/2: the halves are the original cubic on [0,1/2] and [1/2,1] *)
Theorem C10_halves : forall p s,
  (bezx (split_left p) s == bezx p (s / 2) /\ bezy (split_left p) s == bezy p (s / 2)) /\
  (bezx (split_right p) s == bezx p ((1 + s) / 2) /\ bezy (split_right p) s == bezy p ((1 + s) / 2)).
Proof. intros p s. split; [exact (left_half p s)|exact (right_half p s)]. Qed.

(* a returning run yields a node list whose first in-handle, first point and last out-handle are unchanged, whose pieces
   refine the original pieces one by one (each original piece replaced by its halves, recursively), and all of whose pieces are flat *)
Theorem C10_refines_and_flat : forall flat fuel a rest out, subdivide flat fuel (a :: rest) = Some out -> Spec flat a rest out.
Proof. exact subdivide_spec. Qed.

(* refinement means: the new pieces of one original piece are that piece restricted to consecutive dyadic intervals tiling [0,1] *)
Theorem C10_dyadic_tiling : forall p qs, PieceRef p qs -> dtiles p 0 1 qs.
Proof. exact ref_dyadic_tiles. Qed.

(* ... and they start and end at the original piece's end points: every original node survives, in order *)
Theorem C10_nodes_survive : forall p qs, PieceRef p qs ->
  match qs with
  | [] => False
  | q :: _ => (let '(q0, _, _, _) := q in let '(p0, _, _, _) := p in q0 = p0) /\
              (let '(_, _, _, q3) := last qs q in let '(_, _, _, p3) := p in q3 = p3)
  end.
Proof. exact PieceRef_ends. Qed.

(* flat means: both inner control points are strictly closer than the flatness to the chord *)
Theorem C10_flat_is_distance : forall flat p0 p1 p2 p3,
  flat_piece flat (p0, p1, p2, p3) = true <-> within (flat * flat) p0 p3 p1 /\ within (flat * flat) p0 p3 p2.
Proof.
  intros flat p0 p1 p2 p3. unfold flat_piece.
  change [p0; p1; p2; p3] with (p0 :: [p1; p2] ++ [p3]). rewrite pit_iff. split.
  - intros H. inversion H as [|x l H1 H2]; subst. inversion H2; subst. tauto.
  - intros [H1 H2]. repeat constructor; assumption.
Qed.

(* termination: for every node list and every flat > 0 some number of loop iterations suffices, and any larger budget
   gives the same result (the fuel of the model is the number of iterations of the two nested while loops) *)
Theorem C10_terminates : forall flat sp, 0 < flat ->
  exists fuel out, forall g, (fuel <= g)%nat -> subdivide flat g sp = Some out.
Proof. exact subdivide_terminates. Qed.

(* ... with an explicit bound per piece: a piece whose control-polygon edges are at most e in every coordinate, with
   2 e^2 < flat^2 4^k, is finished after at most 2^(k+1) - 1 iterations, leaving the following pieces untouched *)
Theorem C10_piece_bound : forall flat k a b, lev flat (piece_of a b) k ->
  forall acc rest, exists n acc' b', (n <= 2 ^ (k + 1) - 1)%nat /\ npt b' = npt b /\ hout b' = hout b /\
    forall fuel, go flat (n + fuel) acc a (b :: rest) = go flat fuel acc' b' rest.
Proof. exact go_piece. Qed.

(* the result of a returning run does not depend on the budget *)
Theorem C10_terminates_fuel_irrelevant : forall flat f acc a rest out, go flat f acc a rest = Some out ->
  forall g, (f <= g)%nat -> go flat g acc a rest = Some out.
Proof. exact go_fuel_mono. Qed.

Example C10_example :
  match subdivide 1 100 [mknode (0, 0) (0, 0) (0, 8); mknode (8, 8) (8, 0) (8, 0)] with
  | Some out => length out | None => 0%nat end = 5%nat.
Proof. vm_compute. reflexivity. Qed.

Print Assumptions C10_halves.
Print Assumptions C10_refines_and_flat.
Print Assumptions C10_dyadic_tiling.
Print Assumptions C10_nodes_survive.
Print Assumptions C10_flat_is_distance.
Print Assumptions C10_terminates.
Print Assumptions C10_piece_bound.
Print Assumptions C10_terminates_fuel_irrelevant.
