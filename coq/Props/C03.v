(* C03 - Step-limited (LM) move duration is the first tick that exhausts the step budget.  Statements only.
   What is proved: an O(1) checker is equivalent, for all integers, to the tick-by-tick specification (Spec/LmSpec.v), plus the
   consequences and the "cannot move" cases.  Every output of calculate_lm / moveTimeLM that the harness generates is decided
   by that checker inside Coq.  C03_model_correct: the exact-arithmetic model of calculate_lm (Model/LmModel.v: the branch
   structure, the reversal tick, the quadratic solve with both ceilings and the discarding of roots, statement by statement, with
   mpmath read as exact arithmetic) returns the specified answer for every request in the property's domain, for all integers; the
   implementation is compared with that model on every generated case. *)
From Plotink Require Import Base.Prelude Spec.Firmware Spec.LmSpec Spec.LmCheck Model.LmModel Proofs.LmProofs Proofs.LmModelProofs.
Open Scope Z_scope.

Theorem C03_checker_iff_spec : forall steps rate accel accum T p c,
  lm_check steps rate accel accum T p c = true <-> lm_spec steps rate accel accum T p c.
Proof. exact lm_check_iff_spec. Qed.

(* the model of calculate_lm: whenever its own answer keeps the request inside the property's domain (start accumulator in
   [0, 2^31) or clear, per-tick |rate| <= 2^31-1 through the reported duration) that answer is the specified one *)
Theorem C03_model_correct : forall steps rate accel accum,
  let '(T, p, c) := lm_model steps rate accel accum in
  lm_domain steps rate accel accum T = true -> lm_check steps rate accel accum T p c = true.
Proof. exact lm_model_correct. Qed.
Corollary C03_model_meets_spec : forall steps rate accel accum T p c,
  lm_model steps rate accel accum = (T, p, c) -> lm_domain steps rate accel accum T = true -> lm_spec steps rate accel accum T p c.
Proof. intros * E D. apply C03_checker_iff_spec. pose proof (lm_model_correct steps rate accel accum) as H. rewrite E in H. exact (H D). Qed.
(* the hypothesis is met by concrete requests: a reversing move, an accelerating move, a legacy request *)
Example C03_model_nonvacuous :
  lm_model 1 9 (-1) (Some 0) = (18, -1, 2147483639) /\ lm_domain 1 9 (-1) (Some 0) 18 = true /\
  lm_model 26 110000000 40000000 None = (51, 26, 1795425152) /\ lm_domain 26 110000000 40000000 None 51 = true /\
  lm_model (-5) 1000000000 0 None = (11, -5, 1884901887) /\ lm_domain (-5) 1000000000 0 None 11 = true.
Proof. vm_compute. repeat split; reflexivity. Qed.

(* the number of steps taken through tick n, in closed form (one sign change of the rate at most), for every n *)
Theorem C03_steps_closed_form : forall r0 a acc n, lm_steps r0 a acc n = csteps r0 a acc (Z.of_nat n).
Proof. intros. rewrite lm_steps_Vseg. apply steps_closed. Qed.

Theorem C03_consequence : forall steps rate accel accum T p c, 0 < steps ->
  lm_check steps rate accel accum T p c = true ->
  (T = 0 /\ p = 0 /\ c = 0) \/ (1 <= T /\ 0 <= c < B31 /\ lt_closed' rate accel T accum = (p, c)).
Proof. exact lm_consequence. Qed.

Theorem C03_invalid : forall steps rate accel accum,
  (steps = 0 \/ (rate = 0 /\ accel = 0) \/ (steps < 0 /\ rate < 0)) ->
  forall T p c, lm_spec steps rate accel accum T p c <-> (T = 0 /\ p = 0 /\ c = 0).
Proof. exact lm_invalid. Qed.

(* the three defect classes of the tree as found (547df41), as outputs the specification rejects, with the right answers *)
Example C03_as_found_refuted :
  lm_check 2 4271570 (-3429980) None 0 2 (-4294967296) = false /\ lm_check 2 4271570 (-3429980) None 37 (-2) 2105194076 = true /\
  lm_check 1 9 (-1) (Some 0) 17 (-1) 2147483648 = false /\ lm_check 1 9 (-1) (Some 0) 18 (-1) 2147483639 = true /\
  lm_check 2 2 (-1) (Some 2147483647) 0 0 2147483647 = false.
Proof. vm_compute. repeat split; reflexivity. Qed.

Print Assumptions C03_checker_iff_spec.
Print Assumptions C03_model_correct.
Print Assumptions C03_model_meets_spec.
Print Assumptions C03_steps_closed_form.
Print Assumptions C03_consequence.
Print Assumptions C03_invalid.
