(* C03 - Step-limited (LM) move duration is the first tick that exhausts the step budget.  Statements only.
   What is proved: an O(1) checker is equivalent, for all integers, to the tick-by-tick specification (Spec/LmSpec.v), plus the
   consequences and the "cannot move" cases.  Every output of calculate_lm / moveTimeLM that the harness generates is decided
   by that checker inside Coq.  C03_model_correct: the exact-arithmetic model of calculate_lm (Model/LmModel.v: the branch
   structure, the reversal tick, the quadratic solve with both ceilings and the discarding of roots, statement by statement, with
   mpmath read as exact arithmetic) returns the specified answer for every request in the property's domain, for all integers; the
   implementation is compared with that model on every generated case. *)
From Plotink Require Import Base.Prelude Spec.Firmware Spec.LmSpec Spec.LmCheck Model.EbbCalc Model.EbbCalcRnd Model.LmModel Model.LmModelRnd Model.LmModelFull Proofs.LmProofs Proofs.LmModelProofs Proofs.LmRootRnd Proofs.LmFullRnd Proofs.SqrtRnd Base.Rnd Proofs.RndProofs.
Open Scope Z_scope.

Theorem C03_checker_iff_spec : forall steps rate accel accum T p c,
  lm_check steps rate accel accum T p c = true <-> lm_spec steps rate accel accum T p c.
Proof. exact lm_check_iff_spec. Qed.

(* the model of calculate_lm: whenever its own answer keeps the request inside the property's domain (start accumulator in
   [0, 2^31) or clear, per-tick |rate| <= 2^31-1 through the reported duration) that answer is the specified one *)
Theorem C03_model_correct : forall steps rate accel accum,
  let '(T, p, c) := lm_model steps rate accel accum in
  lm_domain steps rate accel accum T = true -> lm_check steps rate accel accum T p c = true.
Proof. exact lm_model_correct. Qed.
Corollary C03_model_meets_spec : forall steps rate accel accum T p c,
  lm_model steps rate accel accum = (T, p, c) -> lm_domain steps rate accel accum T = true -> lm_spec steps rate accel accum T p c.
Proof. intros * E D. apply C03_checker_iff_spec. pose proof (lm_model_correct steps rate accel accum) as H. rewrite E in H. exact (H D). Qed.
(* the hypothesis is met by concrete requests: a reversing move, an accelerating move, a legacy request *)
Example C03_model_nonvacuous :
  lm_model 1 9 (-1) (Some 0) = (18, -1, 2147483639) /\ lm_domain 1 9 (-1) (Some 0) 18 = true /\
  lm_model 26 110000000 40000000 None = (51, 26, 1795425152) /\ lm_domain 26 110000000 40000000 None 51 = true /\
  lm_model (-5) 1000000000 0 None = (11, -5, 1884901887) /\ lm_domain (-5) 1000000000 0 None 11 = true.
Proof. vm_compute. repeat split; reflexivity. Qed.

(* rounding layer: calculate_lm with mpmath's rounding made explicit at the square root, the sums -b +- sqrt, the divisions by 2a and
   the division of the constant-rate case (Model/LmModelRnd.v) equals the exact model for every request within the firmware's
   argument ranges - for every rounding operator rnd that is monotone and fixes 103-bit numbers, and every rounded square root sq
   that is non-negative, monotone and exact on squares of binary fractions with at most 52 fractional bits: mpmath's 30-digit
   arithmetic is exact where C03_model_correct reads it as exact *)
Theorem C03_rounding : forall rnd : Q -> Q,
  (forall x y, (x == y)%Q -> (rnd x == rnd y)%Q) -> (forall x, rep103 x -> (rnd x == x)%Q) -> (forall x y, (x <= y)%Q -> (rnd x <= rnd y)%Q) ->
  forall sq : Q -> Q,
  (forall x, (0 <= x)%Q -> (0 <= sq x)%Q) ->
  (forall K n, 0 <= K < 2 ^ 103 -> 0 <= n <= 52 -> (sq ((iz K / iz (2 ^ n)) * (iz K / iz (2 ^ n))) == iz K / iz (2 ^ n))%Q) ->
  (forall x y, (0 <= x)%Q -> (x <= y)%Q -> (sq x <= sq y)%Q) ->
  forall steps rate accel accum, Z.abs steps <= 2 ^ 31 -> Z.abs rate <= 2 ^ 31 -> Z.abs accel <= 2 ^ 31 ->
  match accum with None => True | Some c => 0 <= c < 2 ^ 31 end ->
  lm_model_r rnd sq steps rate accel accum = lm_model steps rate accel accum.
Proof. exact lm_model_rounding. Qed.

(* each root separately, for the discriminants that occur: D4 = 4 * discriminant up to 2^98 *)
Theorem C03_root_rounding : forall rnd : Q -> Q,
  (forall x y, (x == y)%Q -> (rnd x == rnd y)%Q) -> (forall x, rep103 x -> (rnd x == x)%Q) -> (forall x y, (x <= y)%Q -> (rnd x <= rnd y)%Q) ->
  forall sq : Q -> Q,
  (forall x, (0 <= x)%Q -> (0 <= sq x)%Q) ->
  (forall K n, 0 <= K < 2 ^ 103 -> 0 <= n <= 52 -> (sq ((iz K / iz (2 ^ n)) * (iz K / iz (2 ^ n))) == iz K / iz (2 ^ n))%Q) ->
  (forall x y, (0 <= x)%Q -> (x <= y)%Q -> (sq x <= sq y)%Q) ->
  forall sg b2 accel D4, accel <> 0 -> Z.abs accel <= 2 ^ 32 -> Z.abs b2 <= 2 ^ 34 -> 0 <= D4 <= 2 ^ 98 ->
  lm_root_r rnd sq sg b2 accel D4 = ceil_root sg (- b2) (2 * accel) D4.
Proof. exact root_rounding. Qed.

(* the hypotheses are satisfiable: the exact operator and the integer square root at the scale 2^-52 meet all six, and with them the
   rounded model computes the answers of the three requests above (a reversing move whose roots are irrational, an accelerating move,
   a constant-rate legacy request) *)
Example C03_rounding_nonvacuous :
  let rnd := fun x : Q => x in
  (forall x y, (x == y)%Q -> (rnd x == rnd y)%Q) /\ (forall x, rep103 x -> (rnd x == x)%Q) /\ (forall x y, (x <= y)%Q -> (rnd x <= rnd y)%Q) /\
  (forall x, (0 <= x)%Q -> (0 <= sq_floor x)%Q) /\
  (forall K n, 0 <= K < 2 ^ 103 -> 0 <= n <= 52 -> (sq_floor ((iz K / iz (2 ^ n)) * (iz K / iz (2 ^ n))) == iz K / iz (2 ^ n))%Q) /\
  (forall x y, (0 <= x)%Q -> (x <= y)%Q -> (sq_floor x <= sq_floor y)%Q) /\
  lm_model_r rnd sq_floor 1 9 (-1) (Some 0) = (18, -1, 2147483639) /\
  lm_model_r rnd sq_floor 26 110000000 40000000 None = (51, 26, 1795425152) /\
  lm_model_r rnd sq_floor (-5) 1000000000 0 None = (11, -5, 1884901887).
Proof.
  cbv zeta. split; [intros x y E; exact E|]. split; [intros x _; reflexivity|]. split; [intros x y L; exact L|].
  split; [exact sq_floor_nonneg|]. split; [exact sq_floor_exact|]. split; [exact sq_floor_mono|].
  repeat split; vm_compute; reflexivity.
Qed.

(* the number of steps taken through tick n, in closed form (one sign change of the rate at most), for every n *)
Theorem C03_steps_closed_form : forall r0 a acc n, lm_steps r0 a acc n = csteps r0 a acc (Z.of_nat n).
Proof. intros. rewrite lm_steps_Vseg. apply steps_closed. Qed.

Theorem C03_consequence : forall steps rate accel accum T p c, 0 < steps ->
  lm_check steps rate accel accum T p c = true ->
  (T = 0 /\ p = 0 /\ c = 0) \/ (1 <= T /\ 0 <= c < B31 /\ lt_closed' rate accel T accum = (p, c)).
Proof. exact lm_consequence. Qed.

Theorem C03_invalid : forall steps rate accel accum,
  (steps = 0 \/ (rate = 0 /\ accel = 0) \/ (steps < 0 /\ rate < 0)) ->
  forall T p c, lm_spec steps rate accel accum T p c <-> (T = 0 /\ p = 0 /\ c = 0).
Proof. exact lm_invalid. Qed.

(* the three defect classes of the tree as found (547df41), as outputs the specification rejects, with the right answers *)
Example C03_as_found_refuted :
  lm_check 2 4271570 (-3429980) None 0 2 (-4294967296) = false /\ lm_check 2 4271570 (-3429980) None 37 (-2) 2105194076 = true /\
  lm_check 1 9 (-1) (Some 0) 17 (-1) 2147483648 = false /\ lm_check 1 9 (-1) (Some 0) 18 (-1) 2147483639 = true /\
  lm_check 2 2 (-1) (Some 2147483647) 0 0 2147483647 = false.
Proof. vm_compute. repeat split; reflexivity. Qed.

(* with the executable round-to-nearest-even at 103 bits for the arithmetic operations (Proofs/RndProofs.v), only the square root keeps its
   three hypotheses *)
Theorem C03_rounding_rne : forall sq : Q -> Q,
  (forall x, (0 <= x)%Q -> (0 <= sq x)%Q) ->
  (forall K n, 0 <= K < 2 ^ 103 -> 0 <= n <= 52 -> (sq ((iz K / iz (2 ^ n)) * (iz K / iz (2 ^ n))) == iz K / iz (2 ^ n))%Q) ->
  (forall x y, (0 <= x)%Q -> (x <= y)%Q -> (sq x <= sq y)%Q) ->
  forall steps rate accel accum, Z.abs steps <= 2 ^ 31 -> Z.abs rate <= 2 ^ 31 -> Z.abs accel <= 2 ^ 31 ->
  match accum with None => True | Some c => 0 <= c < 2 ^ 31 end ->
  lm_model_r (round_ne 103) sq steps rate accel accum = lm_model steps rate accel accum.
Proof.
  apply C03_rounding; [intros x y; apply round_ne_comp; lia|intros x R; apply round_ne_exact; [lia|exact R]|intros x y; apply round_ne_mono; lia].
Qed.

(* every mpmath operation of calculate_lm rounded, in the order the source evaluates them (Model/LmModelFull.v): whenever the exact
   model's answer has a duration of at most 2^32 ticks (the property's domain), the fully rounded computation returns that answer *)
Theorem C03_full_rounding : forall rnd : Q -> Q,
  (forall x y, (x == y)%Q -> (rnd x == rnd y)%Q) -> (forall x, rep103 x -> (rnd x == x)%Q) -> (forall x y, (x <= y)%Q -> (rnd x <= rnd y)%Q) ->
  forall sq : Q -> Q,
  (forall x, (0 <= x)%Q -> (0 <= sq x)%Q) ->
  (forall K n, 0 <= K < 2 ^ 103 -> 0 <= n <= 52 -> (sq ((iz K / iz (2 ^ n)) * (iz K / iz (2 ^ n))) == iz K / iz (2 ^ n))%Q) ->
  (forall x y, (0 <= x)%Q -> (x <= y)%Q -> (sq x <= sq y)%Q) ->
  forall steps rate accel accum, Z.abs steps <= 2 ^ 31 -> Z.abs rate <= 2 ^ 31 -> Z.abs accel <= 2 ^ 31 ->
  match accum with None => True | Some c => 0 <= c < 2 ^ 31 end ->
  forall T p c, lm_model steps rate accel accum = (T, p, c) -> Z.abs T <= 2 ^ 32 ->
  lm_model_full_r rnd sq steps rate accel accum = (T, p, c).
Proof. exact lm_model_full_rounding. Qed.

(* the executable square root (integer square root at the scale 2^-110 with a sticky bit, then round-to-nearest-even at 103 bits: the
   correctly rounded root of every x >= 1/4, compared with mpmath.sqrt on every run) meets the three hypotheses *)
Theorem C03_sqrt_ne_hypotheses :
  (forall x, (0 <= x)%Q -> (0 <= sqrt_ne 110 103 x)%Q) /\
  (forall K n, 0 <= K < 2 ^ 103 -> 0 <= n <= 52 -> (sqrt_ne 110 103 ((iz K / iz (2 ^ n)) * (iz K / iz (2 ^ n))) == iz K / iz (2 ^ n))%Q) /\
  (forall x y, (0 <= x)%Q -> (x <= y)%Q -> (sqrt_ne 110 103 x <= sqrt_ne 110 103 y)%Q).
Proof.
  split; [intros x _; apply sqrt_ne_nonneg; lia|]. split; [intros K n HK Hn; apply sqrt_ne_exact; [lia|exact HK|lia]|].
  intros x y Px L. apply sqrt_ne_mono; [lia|lia|exact Px|exact L].
Qed.

(* no hypothesis left: with the executable round-to-nearest-even and the executable square root - the operators the implementation's
   outputs are compared with on every run (Corr/C03.v, Corr/Rounding.v) - the fully rounded calculate_lm is the exact model *)
Theorem C03_full_rounding_rne : forall steps rate accel accum, Z.abs steps <= 2 ^ 31 -> Z.abs rate <= 2 ^ 31 -> Z.abs accel <= 2 ^ 31 ->
  match accum with None => True | Some c => 0 <= c < 2 ^ 31 end ->
  forall T p c, lm_model steps rate accel accum = (T, p, c) -> Z.abs T <= 2 ^ 32 ->
  lm_model_full_r (round_ne 103) (sqrt_ne 110 103) steps rate accel accum = (T, p, c).
Proof.
  destruct C03_sqrt_ne_hypotheses as (H1 & H2 & H3).
  apply C03_full_rounding; [intros x y; apply round_ne_comp; lia|intros x R; apply round_ne_exact; [lia|exact R]|intros x y; apply round_ne_mono; lia|exact H1|exact H2|exact H3].
Qed.
Example C03_full_rounding_nonvacuous :
  lm_model_full_r (round_ne 103) (sqrt_ne 110 103) 1 9 (-1) (Some 0) = (18, -1, 2147483639) /\
  lm_model_full_r (round_ne 103) (sqrt_ne 110 103) 26 110000000 40000000 None = (51, 26, 1795425152) /\
  lm_model_full_r (round_ne 103) (sqrt_ne 110 103) (-5) 1000000000 0 None = (11, -5, 1884901887) /\
  lm_model_full_r (round_ne 103) (sqrt_ne 110 103) 74838422 1500000000 (-7) (Some 1879980596) = lm_model 74838422 1500000000 (-7) (Some 1879980596).
Proof. vm_compute. repeat split; reflexivity. Qed.

Print Assumptions C03_checker_iff_spec.
Print Assumptions C03_model_correct.
Print Assumptions C03_model_meets_spec.
Print Assumptions C03_rounding.
Print Assumptions C03_root_rounding.
Print Assumptions C03_steps_closed_form.
Print Assumptions C03_consequence.
Print Assumptions C03_invalid.
Print Assumptions C03_rounding_rne.
Print Assumptions C03_full_rounding.
Print Assumptions C03_full_rounding_rne.
Print Assumptions C03_sqrt_ne_hypotheses.
