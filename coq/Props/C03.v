From Plotink Require Import Base.Prelude Spec.Firmware Spec.LmSpec Spec.LmCheck Proofs.LmProofs.
Example C03_smoke : lm_check 1 9 (-1) (Some 0) 18 (-1) 2147483639 = true. Proof. vm_compute. reflexivity. Qed.
