(* C02 - Jerk (T3) move prediction equals the third-order firmware recurrence.  Statements only. *)
From Plotink Require Import Base.Prelude Spec.Firmware Model.EbbCalc Model.EbbCalcRnd Proofs.EbbCalcProofs Proofs.EbbRndProofs Proofs.EbbClosed Corr.C02 Base.Rnd Proofs.RndProofs Proofs.TruncFloat.
Open Scope Z_scope.

Theorem C02_exact_dist : forall (T : nat) rate accel jerk acc0, (1 <= T)%nat ->
  move_dist_t3 (Z.of_nat T) rate accel jerk acc0 = t3_spec_dist T rate accel jerk acc0.
Proof. exact move_dist_t3_exact. Qed.

Theorem C02_exact_rate : forall (T : nat) rate accel jerk, (1 <= T)%nat ->
  rate_t3 (Z.of_nat T) rate accel jerk = t3_spec_rate T rate accel jerk.
Proof. exact rate_t3_exact. Qed.

Theorem C02_closed_form : forall n j a r acc,
  t3_ticks n j a r acc =
  (r + Z.of_nat n * a + j * triN (pred n), a + Z.of_nat n * j, acc + Z.of_nat n * r + a * triN n + j * tetN n).
Proof. exact t3_ticks_closed. Qed.

Theorem C02_zero_jerk : forall (T : nat) rate accel acc0, (1 <= T)%nat ->
  move_dist_t3 (Z.of_nat T) rate accel 0 acc0 = move_dist_lt rate accel (Z.of_nat T) acc0.
Proof. exact t3_zero_jerk. Qed.

Theorem C02_checker_is_spec : forall (T : nat) rate accel jerk acc0,
  t3_closed (Z.of_nat T) rate accel jerk acc0 = t3_spec_dist T rate accel jerk acc0 /\
  ((1 <= T)%nat -> t3_rate_closed (Z.of_nat T) rate accel jerk = t3_spec_rate T rate accel jerk).
Proof. exact t3_closed_spec. Qed.

(* the arithmetic the code really runs: every mpmath operation of move_dist_t3 followed by a rounding to 103 bits.  The division by 6
   is inexact, so an error is carried to the final round(); for ANY rounding operator that respects ==, leaves 103-bit numbers
   unchanged and has relative error at most 2^-102 (round to nearest has 2^-103), that error is at most 1/4 on the domain
   (|rate| <= 2^33, |accel|, |jerk| <= 2^32, T <= 2^32, |jerk| T <= 2^33 - the acceleration stays in range -, accumulator in [0, 2^31)),
   the exact total is an integer, the snap test takes the same branch, and the rounded computation equals the exact one *)
Theorem C02_rounding : forall rnd : Q -> Q,
  (forall x y, (x == y)%Q -> (rnd x == rnd y)%Q) -> (forall x, rep103 x -> (rnd x == x)%Q) ->
  (forall x, (Qabs (rnd x - x) <= eps103 * Qabs x)%Q) ->
  forall (T : nat) rate accel jerk accum, (1 <= T)%nat ->
  Z.abs rate <= 2 ^ 33 -> Z.abs accel <= 2 ^ 32 -> Z.abs jerk <= 2 ^ 32 -> Z.of_nat T <= 2 ^ 32 -> Z.abs jerk * Z.of_nat T <= 2 ^ 33 ->
  match accum with Some c => 0 <= c < 2 ^ 31 | None => True end ->
  move_dist_t3_r rnd (Z.of_nat T) rate accel jerk accum = move_dist_t3 (Z.of_nat T) rate accel jerk accum.
Proof. exact move_dist_t3_rounding. Qed.

(* rate_t3 in the float arithmetic CPython uses: exact on the domain, for any rounding operator that fixes binary64 numbers *)
Theorem C02_rate_float_exact : forall rnd : Q -> Q,
  (forall x y, (x == y)%Q -> (rnd x == rnd y)%Q) -> (forall x, rep53 x -> (rnd x == x)%Q) ->
  forall time rate accel jerk, 0 <= time <= 2 ^ 32 -> Z.abs rate <= 2 ^ 34 -> Z.abs accel <= 2 ^ 32 -> Z.abs jerk <= 2 ^ 32 ->
  Z.abs (2 * accel - jerk) * time <= 2 ^ 50 -> Z.abs jerk * time * time <= 2 ^ 50 ->
  rate_t3_r rnd time rate accel jerk = rate_t3 time rate accel jerk.
Proof. exact rate_t3_float_exact. Qed.

(* the three hypotheses on the rounding operator are satisfiable (the exact operator meets them; round-to-nearest at 103 bits is the
   intended instance, part of the trusted base), and the domain hypotheses are met by a concrete long move with jerk not divisible by 6 *)
Example C02_rounding_nonvacuous :
  let rnd := fun x : Q => x in
  (forall x y, (x == y)%Q -> (rnd x == rnd y)%Q) /\ (forall x, rep103 x -> (rnd x == x)%Q) /\ (forall x, (Qabs (rnd x - x) <= eps103 * Qabs x)%Q) /\
  move_dist_t3_r rnd (Z.of_nat 1000) 2000000000 (-1000) 1 None = move_dist_t3 (Z.of_nat 1000) 2000000000 (-1000) 1 None.
Proof.
  cbv zeta. split; [intros x y E; exact E|]. split; [reflexivity|]. split.
  - intros x. setoid_replace (x - x)%Q with 0%Q by ring. cbn [Qabs]. apply Qmult_le_0_compat; [discriminate|apply Qabs_nonneg].
  - vm_compute. reflexivity.
Qed.

(* non-vacuity: negative jerk not divisible by 6, odd accel, first two tick rates zero -> cleared to 2^31-1 *)
Example C02_example : t3_spec_dist 7 (-3) 5 (-7) None = (0, 2147483353) /\ move_dist_t3 7 (-3) 5 (-7) None = (0, 2147483353)
  /\ t3_spec_rate 7 (-3) 5 (-7) = -118 /\ t3_spec_dist 4 0 1 (-1) None = (0, 0).
Proof. repeat split; vm_compute; reflexivity. Qed.

(* the executable round-to-nearest-even (Base.Rnd.round_ne, compared with CPython's and mpmath's operations on every run:
   Corr/Rounding.v) meets the hypotheses of both theorems (Proofs/RndProofs.v): no hypothesis about the rounding is left *)
Theorem C02_rounding_rne : forall (T : nat) rate accel jerk accum, (1 <= T)%nat ->
  Z.abs rate <= 2 ^ 33 -> Z.abs accel <= 2 ^ 32 -> Z.abs jerk <= 2 ^ 32 -> Z.of_nat T <= 2 ^ 32 -> Z.abs jerk * Z.of_nat T <= 2 ^ 33 ->
  match accum with Some c => 0 <= c < 2 ^ 31 | None => True end ->
  move_dist_t3_r (round_ne 103) (Z.of_nat T) rate accel jerk accum = move_dist_t3 (Z.of_nat T) rate accel jerk accum.
Proof.
  apply C02_rounding; [intros x y; apply round_ne_comp; lia|intros x R; apply round_ne_exact; [lia|exact R]|].
  intros x. eapply Qle_trans; [apply (round_ne_err 103 x); lia|]. apply Qmult_le_compat_r; [unfold eps103, Qle; cbn; lia|apply Qabs_nonneg].
Qed.
Theorem C02_rate_float_exact_rne : forall time rate accel jerk, 0 <= time <= 2 ^ 32 -> Z.abs rate <= 2 ^ 34 -> Z.abs accel <= 2 ^ 32 -> Z.abs jerk <= 2 ^ 32 ->
  Z.abs (2 * accel - jerk) * time <= 2 ^ 50 -> Z.abs jerk * time * time <= 2 ^ 50 ->
  rate_t3_r (round_ne 53) time rate accel jerk = rate_t3 time rate accel jerk.
Proof.
  apply C02_rate_float_exact; [intros x y; apply round_ne_comp; lia|intros x R; apply round_ne_exact; [lia|exact R]].
Qed.

(* int(accel / 2) and int(jerk / 6) as Python computes it - a binary64 quotient truncated by int() - is the truncating integer quotient the model uses (Z.quot),
   for the executable round-to-nearest-even and every divisor up to 1024 *)
Theorem C02_int_div_float : forall n d, 0 < d <= 2 ^ 10 -> Z.abs n <= 2 ^ 40 -> Qtrunc (round_ne 53 (iz n / iz d)) = Z.quot n d.
Proof. intros n d. apply trunc_rounded_quotient; [intros x R; apply round_ne_exact; [lia|exact R]|intros x y; apply round_ne_mono; lia]. Qed.

Print Assumptions C02_exact_dist.
Print Assumptions C02_exact_rate.
Print Assumptions C02_closed_form.
Print Assumptions C02_zero_jerk.
Print Assumptions C02_checker_is_spec.
Print Assumptions C02_rounding.
Print Assumptions C02_rate_float_exact.
Print Assumptions C02_rounding_rne.
Print Assumptions C02_rate_float_exact_rne.
Print Assumptions C02_int_div_float.
