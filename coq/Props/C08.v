(* C08 - Segment clipping returns exactly the part of the segment inside the rectangle.  Statements only.
   Exact arithmetic (the code runs unchanged on fractions.Fraction, which is how the model is tied to it). *)
From Plotink Require Import Base.Prelude Model.Clip Proofs.ClipProofs Corr.C08 Proofs.ClipOracle.
Open Scope Q_scope.

(* the whole result: on accept the returned endpoints are points seg t1, seg t2 of the input segment with
   0 <= t1 <= t2 <= 1 (same orientation), both inside, and every inside parameter lies in [t1, t2];
   on reject no point of the segment is inside; the failsafe, a division by zero and fuel exhaustion never occur *)
Theorem C08_result : forall xmin xmax ymin ymax, xmin <= xmax -> ymin <= ymax -> forall X1 Y1 X2 Y2,
  clip_spec xmin xmax ymin ymax X1 Y1 X2 Y2 (clip_segment xmin xmax ymin ymax (mkst X1 Y1 X2 Y2)).
Proof. exact clip_segment_correct. Qed.

Theorem C08_accept_iff : forall xmin xmax ymin ymax, xmin <= xmax -> ymin <= ymax -> forall X1 Y1 X2 Y2,
  fst (clip_segment xmin xmax ymin ymax (mkst X1 Y1 X2 Y2)) = Accept <->
  exists t, 0 <= t <= 1 /\ inside xmin xmax ymin ymax (sx X1 X2 t) (sy Y1 Y2 t).
Proof. exact clip_accept_iff. Qed.

(* no pass divides by zero, whatever the state *)
Theorem C08_no_div0 : forall xmin xmax ymin ymax, xmin <= xmax -> ymin <= ymax -> forall it s,
  pass xmin xmax ymin ymax it s <> inl DivZero.
Proof. exact pass_no_div0. Qed.

(* termination: every clip strictly lowers the number of sides with an endpoint outside (at most 4) *)
Theorem C08_measure : forall xmin xmax ymin ymax, xmin <= xmax -> ymin <= ymax -> forall it s s',
  pass xmin xmax ymin ymax it s = inr s' -> (cnt xmin xmax ymin ymax s' < cnt xmin xmax ymin ymax s)%nat.
Proof. exact pass_decreases. Qed.

(* the reference interval with which float runs are judged (Corr/C08.v, Liang-Barsky) is exactly the set of parameters of the input
   segment that lie inside the closed rectangle; None = no point of the segment is inside *)
Theorem C08_reference_interval : forall s xmin xmax ymin ymax,
  match exact_clip s xmin xmax ymin ymax with
  | Some (t1, t2) => 0 <= t1 /\ t1 <= t2 /\ t2 <= 1 /\
                     forall t, (t1 <= t <= t2 <-> 0 <= t <= 1 /\ inside_rect xmin xmax ymin ymax (seg_x s t) (seg_y s t))
  | None => forall t, 0 <= t <= 1 -> ~ inside_rect xmin xmax ymin ymax (seg_x s t) (seg_y s t)
  end.
Proof. exact exact_clip_spec. Qed.

(* what the tolerant judgement of float runs certifies.  A rejection passes only if no point of the input segment is inside the
   rectangle by more than eps; an acceptance passes only if both returned endpoints are within eps of points of the input segment and
   within eps of the rectangle (the judgement further demands orientation and coverage of the inside part, see Corr/C08.v) *)
Theorem C08_judgement_reject : forall eps s xmin xmax ymin ymax r,
  sandwich_ok eps s xmin xmax ymin ymax false r = true ->
  forall t, 0 <= t <= 1 -> ~ inside_rect (xmin + eps) (xmax - eps) (ymin + eps) (ymax - eps) (seg_x s t) (seg_y s t).
Proof. exact sandwich_reject_sound. Qed.
Theorem C08_judgement_accept : forall eps s xmin xmax ymin ymax r,
  sandwich_ok eps s xmin xmax ymin ymax true r = true ->
  (exists t, 0 <= t <= 1 /\ sq (x1 r - seg_x s t) + sq (y1 r - seg_y s t) <= sq eps) /\
  (exists t, 0 <= t <= 1 /\ sq (x2 r - seg_x s t) + sq (y2 r - seg_y s t) <= sq eps) /\
  (xmin - eps <= x1 r /\ x1 r <= xmax + eps /\ ymin - eps <= y1 r /\ y1 r <= ymax + eps) /\
  (xmin - eps <= x2 r /\ x2 r <= xmax + eps /\ ymin - eps <= y2 r /\ y2 r <= ymax + eps).
Proof. exact sandwich_accept_sound. Qed.

(* non-vacuity: corner-to-corner crossing needs four clips; a grazing segment; a zero-area rectangle *)
Example C08_examples :
  let r := clip_segment 0 10 0 10 (mkst (-2) (-6) 12 15) in
  fst r = Accept /\ x1 (snd r) == 2 /\ y1 (snd r) == 0 /\ x2 (snd r) == 26 # 3 /\ y2 (snd r) == 10.
Proof. vm_compute. repeat split; reflexivity. Qed.
(* grazing along the top edge of a zero-height rectangle is accepted; a parallel segment just above it is rejected *)
Example C08_degenerate :
  fst (clip_segment 0 10 5 5 (mkst (-3) 5 20 5)) = Accept /\ fst (clip_segment 0 10 5 5 (mkst (-3) (11 # 2) 20 (11 # 2))) = Reject.
Proof. vm_compute. split; reflexivity. Qed.

(* ... and the accepted segment covers the inside part: every point of the input segment inside the rectangle deflated by eps is
   within eps of a point of the returned segment *)
Theorem C08_judgement_covers : forall eps s xmin xmax ymin ymax r,
  sandwich_ok eps s xmin xmax ymin ymax true r = true ->
  forall u, 0 <= u <= 1 -> inside_rect (xmin + eps) (xmax - eps) (ymin + eps) (ymax - eps) (seg_x s u) (seg_y s u) ->
  exists t, 0 <= t <= 1 /\ sq (seg_x s u - seg_x r t) + sq (seg_y s u - seg_y r t) <= sq eps.
Proof. exact sandwich_covers_sound. Qed.

Print Assumptions C08_result.
Print Assumptions C08_accept_iff.
Print Assumptions C08_no_div0.
Print Assumptions C08_measure.
Print Assumptions C08_reference_interval.
Print Assumptions C08_judgement_reject.
Print Assumptions C08_judgement_accept.
Print Assumptions C08_judgement_covers.
