(* Step-limited (LM) moves: the duration is the first tick at which the number of motor steps taken (in either direction)
   under the C01 recurrence reaches the step budget.  Specification, tick by tick. *)
From Coq Require Import ZArith List Lia Bool.
From Plotink Require Import Spec.Firmware.
Open Scope Z_scope.

(* accumulator total and step position after n ticks of the recurrence *)
Definition lm_total (r0 a acc : Z) (n : nat) : Z := snd (lt_ticks n a r0 acc).
Definition lm_pos (r0 a acc : Z) (n : nat) : Z := lm_total r0 a acc n / B31.
(* motor steps taken during ticks 1..n: the position changes by at most one step per tick on the valid domain *)
Fixpoint lm_steps (r0 a acc : Z) (n : nat) : Z :=
  match n with O => 0 | S m => lm_steps r0 a acc m + Z.abs (lm_pos r0 a acc (S m) - lm_pos r0 a acc m) end.

(* normalisation of a request: None = "cannot move" (reported as (0,0,0)); legacy negative step counts mirror the move *)
Definition lm_normalise (steps rate accel : Z) (accum : option Z) : option (Z * Z * Z * Z) :=     (* (budget, r0, accel, start accumulator) *)
  if (steps =? 0) || ((rate =? 0) && (accel =? 0)) then None else
  if (steps <? 0) && (rate <? 0) then None else
  let '(steps, rate, accel) := if steps <? 0 then (- steps, - rate, - accel) else (steps, rate, accel) in
  let r0 := lt_start rate accel in
  Some (steps, r0, accel, match accum with Some c => c | None => lt_clear r0 accel end).

(* (T, p, c) is the answer for the request *)
Definition lm_spec (steps rate accel : Z) (accum : option Z) (T p c : Z) : Prop :=
  match lm_normalise steps rate accel accum with
  | None => T = 0 /\ p = 0 /\ c = 0
  | Some (budget, r0, a, acc) =>
      exists n : nat, T = Z.of_nat n /\ (1 <= n)%nat /\
        budget <= lm_steps r0 a acc n /\ (forall k : nat, (k < n)%nat -> lm_steps r0 a acc k < budget) /\
        p = lm_pos r0 a acc n /\ c = lm_total r0 a acc n mod B31
  end.
