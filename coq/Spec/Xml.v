(* What "a standard XML parser" does to character data and attribute values
   (XML 1.0: predefined entities 4.6, line-end normalisation 2.11, attribute-value
   normalisation 3.3.3).  Text is a list of Unicode code points.  The definitions
   are validated against lxml on every run of the C20 check. *)
From Coq Require Import ZArith List Bool.
Import ListNotations.
Open Scope Z_scope.

Definition text := list Z.

Fixpoint starts (p s : text) : bool :=
  match p, s with
  | [], _ => true
  | a :: p', b :: s' => (a =? b) && starts p' s'
  | _, [] => false
  end.

(* entity decoding; [skip] characters of an already recognised entity are dropped *)
Fixpoint dec (skip : nat) (s : text) : text :=
  match s with
  | [] => []
  | c :: t =>
      match skip with
      | S k => dec k t
      | O =>
          if c =? 38 then
            if starts [97; 109; 112; 59] t then 38 :: dec 4 t            (* &amp;  *)
            else if starts [108; 116; 59] t then 60 :: dec 3 t            (* &lt;   *)
            else if starts [103; 116; 59] t then 62 :: dec 3 t            (* &gt;   *)
            else if starts [113; 117; 111; 116; 59] t then 34 :: dec 5 t  (* &quot; *)
            else if starts [97; 112; 111; 115; 59] t then 39 :: dec 5 t   (* &apos; *)
            else c :: dec 0 t
          else c :: dec 0 t
      end
  end.

(* 2.11: CR LF -> LF, lone CR -> LF *)
Fixpoint norm_eol (s : text) : text :=
  match s with
  | [] => []
  | c :: t =>
      if c =? 13 then
        match t with
        | d :: _ => if d =? 10 then norm_eol t else 10 :: norm_eol t
        | [] => [10]
        end
      else c :: norm_eol t
  end.

(* 3.3.3: literal TAB / LF / CR in an attribute value become a space *)
Definition attr_ws (c : Z) : Z := if (c =? 9) || (c =? 10) || (c =? 13) then 32 else c.

Definition read_content (s : text) : text := dec 0 (norm_eol s).
Definition read_attr (s : text) : text := dec 0 (map attr_ws (norm_eol s)).
