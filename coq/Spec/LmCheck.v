(* O(1) decision of lm_spec for a given output: closed form of the total, and of the number of steps taken
   (the position is monotone before and after the single tick at which the rate changes sign). *)
From Coq Require Import ZArith List Lia Bool.
From Plotink Require Import Spec.Firmware Spec.LmSpec.
Open Scope Z_scope.

Definition ctotal (r0 a acc k : Z) : Z := acc + r0 * k + a * (k * (k + 1) / 2).
Definition cpos (r0 a acc k : Z) : Z := ctotal r0 a acc k / B31.
(* last tick whose rate r0 + a*k still has the initial (weak) sign; None = the rate never changes sign *)
Definition krev (r0 a : Z) : option Z :=
  let r1 := r0 + a in
  if a =? 0 then None
  else if (0 <? r1) || ((r1 =? 0) && (0 <? a)) then (if 0 <? a then None else Some (r0 / (- a)))
  else (if a <? 0 then None else Some ((- r0) / a)).
(* steps taken during ticks 1..k *)
Definition csteps (r0 a acc k : Z) : Z :=
  match krev r0 a with
  | None => Z.abs (cpos r0 a acc k - cpos r0 a acc 0)
  | Some kr =>
      let kr := Z.max kr 0 in
      if k <=? kr then Z.abs (cpos r0 a acc k - cpos r0 a acc 0)
      else Z.abs (cpos r0 a acc kr - cpos r0 a acc 0) + Z.abs (cpos r0 a acc k - cpos r0 a acc kr)
  end.

Definition lm_check (steps rate accel : Z) (accum : option Z) (T p c : Z) : bool :=
  match lm_normalise steps rate accel accum with
  | None => (T =? 0) && (p =? 0) && (c =? 0)
  | Some (budget, r0, a, acc) =>
      (1 <=? T) && (budget <=? csteps r0 a acc T) && (csteps r0 a acc (T - 1) <? budget) &&
      (p =? cpos r0 a acc T) && (c =? ctotal r0 a acc T mod B31)
  end.

(* the property's domain: start accumulator in [0, 2^31) (so the position starts at 0) and every tick rate of the move within
   +-(2^31 - 1) (at most one step per tick); the rate is linear in the tick, so the two ends suffice *)
Definition lm_domain (steps rate accel : Z) (accum : option Z) (T : Z) : bool :=
  match lm_normalise steps rate accel accum with
  | None => true
  | Some (budget, r0, a, acc) => (0 <=? acc) && (acc <? B31) && (Z.abs (r0 + a) <=? M31) && (Z.abs (r0 + a * T) <=? M31)
  end.
