(* The EBB board as far as property C16 needs it: 32 one-byte variables (SL / QL), the nickname (ST / QT) and the
   motor-enable state (EM / QE), as documented in the docstrings of ebb3_serial.py / ebb3_motion.py and the public
   EBB command reference.  CU,<n>,<v> is acknowledged and has no effect on these three pieces of state.
   This is an ASSUMED device model (no firmware source is available offline); the python fake board used by the
   harness is checked against it, reply by reply, on every run. *)
From Plotink Require Import Base.Prelude Base.PyStr.
Open Scope Z_scope.

Record board := mkboard { slots : list Z; nick : text; en1 : bool; en2 : bool; mode : Z }.   (* mode 1..5 = 1/16 .. full step *)
Definition board0 : board := mkboard (repeat 0 32) [] false false 1.

Definition Tt (s : string) : text := map (fun c => Z.of_nat (nat_of_ascii c)) (list_ascii_of_string s).
Fixpoint set_slot (l : list Z) (i : nat) (v : Z) : list Z :=
  match l, i with [], _ => [] | _ :: t, O => v :: t | x :: t, S k => x :: set_slot t k v end.
Definition qe_code (m : Z) : Z := match m with 1 => 16 | 2 => 8 | 3 => 4 | 4 => 2 | _ => 1 end.

(* one request line (without CR) -> new state and the reply line; unknown requests get an error line *)
Definition board_step (b : board) (line : text) : board * text :=
  let fields := split_c 44 line in
  let ints := map parse_int (tl fields) in
  match fields with
  | nm :: _ =>
      if text_eqb nm (Tt "SL") then
        match ints with
        | [Some v; Some i] => if (0 <=? v) && (v <=? 255) && (0 <=? i) && (i <=? 31)
                              then (mkboard (set_slot (slots b) (Z.to_nat i) v) (nick b) (en1 b) (en2 b) (mode b), Tt "SL")
                              else (b, Tt "!3 Err: Argument outside allowed range")
        | _ => (b, Tt "!2 Err: Invalid parameter")
        end
      else if text_eqb nm (Tt "QL") then
        match ints with
        | [Some i] => if (0 <=? i) && (i <=? 31) then (b, Tt "QL," ++ str_of_Z (nth (Z.to_nat i) (slots b) 0))
                      else (b, Tt "!3 Err: Argument outside allowed range")
        | _ => (b, Tt "!2 Err: Invalid parameter")
        end
      else if text_eqb nm (Tt "ST") then (mkboard (slots b) (skipn 3 line) (en1 b) (en2 b) (mode b), Tt "ST")
      else if text_eqb nm (Tt "QT") then (b, Tt "QT," ++ nick b)
      else if text_eqb nm (Tt "EM") then
        match ints with
        | [Some e1; Some e2] =>
            if (0 <=? e1) && (e1 <=? 5) && (0 <=? e2) && (e2 <=? 5)
            then (mkboard (slots b) (nick b) (negb (e1 =? 0)) (negb (e2 =? 0)) (if e1 =? 0 then mode b else e1), Tt "EM")
            else (b, Tt "!3 Err: Argument outside allowed range")
        | _ => (b, Tt "!2 Err: Invalid parameter")
        end
      else if text_eqb nm (Tt "QE") then
        (b, Tt "QE," ++ str_of_Z (if en1 b then qe_code (mode b) else 0) ++ Tt "," ++ str_of_Z (if en2 b then qe_code (mode b) else 0))
      else if text_eqb nm (Tt "CU") then (b, Tt "CU")
      else (b, Tt "!8 Err: Unknown command")
  | [] => (b, Tt "!8 Err: Unknown command")
  end.

(* the I/O script the board produces for a list of request lines: a successful write, then the reply line *)
Fixpoint board_replies (b : board) (lines : list text) : list text * board :=
  match lines with
  | [] => ([], b)
  | l :: t => let '(b1, r) := board_step b l in let '(rs, b2) := board_replies b1 t in (r :: rs, b2)
  end.
