(* SVG 1.1 section 7.8 preserveAspectRatio, as equations on the transform  page = s * (user + o). *)
From Plotink Require Import Base.Prelude Base.PyStr Model.VbScale.
Open Scope Q_scope.

(* alignment of one axis: the viewBox min edge, centre or max edge lands on the page's *)
Definition axis_aligned (a : al) (s o vmin vlen page : Q) : Prop :=
  match a with
  | AMin => s * (vmin + o) == 0
  | AMid => s * (vmin + vlen / 2 + o) == page / 2
  | AMax => s * (vmin + vlen + o) == page
  end.

Definition svg_ok (a : align) (m : mos) (min_x min_y w h dw dh : Q) (r : Q * Q * Q * Q) : Prop :=
  let '(sx, sy, ox, oy) := r in
  match a with
  | ANone => sx * (min_x + ox) == 0 /\ sx * (min_x + w + ox) == dw /\ sy * (min_y + oy) == 0 /\ sy * (min_y + h + oy) == dh
  | AXY xa ya =>
      sx == sy /\
      match m with Meet => sx == Qmin (dw / w) (dh / h) | Slice => sx == Qmax (dw / w) (dh / h) | MosOther => True end /\
      axis_aligned xa sx ox min_x w dw /\ axis_aligned ya sy oy min_y h dh
  end.
