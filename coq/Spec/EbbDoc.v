(* The EBB command text documented for each helper (docstrings of ebb_motion.py / ebb3_motion.py / ebb3_serial.py and the
   command reference they cite).  A request carries every supplied argument; optional arguments are options. *)
From Plotink Require Import Base.Prelude Base.PyStr.
Open Scope Z_scope.

Definition Td (s : string) : text := map (fun c => Z.of_nat (nat_of_ascii c)) (list_ascii_of_string s).
Definition sz := str_of_Z.
Definition commas (l : list text) : text :=
  match l with [] => [] | x :: t => x ++ concat (map (fun y => 44 :: y) t) end.
Definition clamp (lo hi v : Z) : Z := Z.min (Z.max v lo) hi.

Inductive request :=
| RqXY (dx dy dur : Z)                          (* SM,<dur>,<axis1 = Y>,<axis2 = X> *)
| RqAB (da db dur : Z)                          (* XM,<dur>,<A>,<B>            (legacy layer only) *)
| RqLM (r1 s1 a1 r2 s2 a2 : Z) (clear : option Z)   (* LM,<r1>,<s1>,<a1>,<r2>,<s2>,<a2>[,<clear>]   (legacy layer only) *)
| RqAbs (rate : Z) (pos : option (Z * Z))       (* HM,<rate>[,<p1>,<p2>] *)
| RqPause (n : Z)                               (* SM,<d>,0,0 with 1 <= d <= 750, durations summing to n *)
| RqMotorsOff                                   (* EM,0,0 *)
| RqMotorsBoth (res : Z)                        (* EM,<r>,<r> with r clamped to 0..5   (legacy sendEnableMotors) *)
| RqPen (up : bool) (delay : Z) (pin : option Z)   (* SP,<1 up|0 down>,<delay>[,<pin>] *)
| RqBConfig (pin state dir : Z)                 (* PO,B,<pin>,<state> then PD,B,<pin>,<direction>  (legacy: direction 0) *)
| RqBSet (pin state : Z)                        (* PO,B,<pin>,<state> *)
| RqToggle                                      (* TP   (legacy only) *)
| RqPenPos (up : bool) (v : Z)                  (* SC,4,<v> (up) / SC,5,<v> (down) *)
| RqPenRate (up : bool) (v : Z)                 (* SC,11,<v> (up) / SC,12,<v> (down) *)
| RqServoTimeout (ms : Z) (state : option Z)    (* SR,<ms>[,<state>] *)
| RqVarSet (v : Z) (idx : option Z)             (* SL,<v>[,<index>]  (legacy: layer variable without index) *)
| RqClearSteps                                  (* CS  (EBB3 layer) *)
| RqClearAcc.                                   (* T3,1,0,0,0,0,0,0,3 (EBB3 layer) *)

Fixpoint pause_chunks (fuel : nat) (n : Z) : list Z :=
  match fuel with
  | O => []
  | S f => if n <=? 0 then [] else let d := if 750 <? n then 750 else Z.max n 1 in d :: pause_chunks f (n - d)
  end.

Definition doc (r : request) : list text :=
  match r with
  | RqXY dx dy dur => [commas [Td "SM"; sz dur; sz dy; sz dx]]
  | RqAB da db dur => [commas [Td "XM"; sz dur; sz da; sz db]]
  | RqLM r1 s1 a1 r2 s2 a2 clear =>
      if ((r1 =? 0) && (a1 =? 0) || (s1 =? 0)) && ((r2 =? 0) && (a2 =? 0) || (s2 =? 0)) then []    (* neither axis can move *)
      else [commas ([Td "LM"; sz r1; sz s1; sz a1; sz r2; sz s2; sz a2] ++ match clear with Some c => [sz c] | None => [] end)]
  | RqAbs rate pos => [commas ([Td "HM"; sz rate] ++ match pos with Some (a, b) => [sz a; sz b] | None => [] end)]
  | RqPause n => map (fun d => commas [Td "SM"; sz d; Td "0"; Td "0"]) (pause_chunks (Z.to_nat (n / 750 + 2)) n)
  | RqMotorsOff => [Td "EM,0,0"]
  | RqMotorsBoth res => [commas [Td "EM"; sz (clamp 0 5 res); sz (clamp 0 5 res)]]
  | RqPen up delay pin => [commas ([Td "SP"; if up then Td "1" else Td "0"; sz delay] ++ match pin with Some p => [sz p] | None => [] end)]
  | RqBConfig pin state dir => [commas [Td "PO"; Td "B"; sz pin; sz state]; commas [Td "PD"; Td "B"; sz pin; sz dir]]
  | RqBSet pin state => [commas [Td "PO"; Td "B"; sz pin; sz state]]
  | RqToggle => [Td "TP"]
  | RqPenPos up v => [commas [Td "SC"; if up then Td "4" else Td "5"; sz v]]
  | RqPenRate up v => [commas [Td "SC"; if up then Td "11" else Td "12"; sz v]]
  | RqServoTimeout ms state => [commas ([Td "SR"; sz ms] ++ match state with Some s => [sz s] | None => [] end)]
  | RqVarSet v idx => [commas ([Td "SL"; sz v] ++ match idx with Some i => [sz i] | None => [] end)]
  | RqClearSteps => [Td "CS"]
  | RqClearAcc => [Td "T3,1,0,0,0,0,0,0,3"]
  end.
