(* The firmware's step-accumulator recurrences, tick by tick.  This is the
   specification the calculators in ebb_calc.py are measured against. *)
From Coq Require Import ZArith List.
Open Scope Z_scope.

Definition B31 : Z := 2147483648.          (* 2^31 *)
Definition M31 : Z := 2147483647.          (* 2^31 - 1 *)

(* ---- second order (LM / LT commands): each tick  rate += accel; acc += rate ---- *)
Fixpoint lt_ticks (n : nat) (a r acc : Z) : Z * Z :=
  match n with O => (r, acc) | S n' => let r' := r + a in lt_ticks n' a r' (acc + r') end.

(* the rate used at tick k (k >= 1) *)
Definition lt_rate (r0 a : Z) (k : Z) : Z := r0 + a * k.

(* cleared accumulator: 0 when the first non-zero motion is forward, 2^31-1 when backward
   (ticks 1 and 2 of the recurrence are looked at) *)
Definition lt_clear (r0 a : Z) : Z :=
  let r1 := r0 + a in
  if r1 <? 0 then M31 else if r1 =? 0 then (if a <? 0 then M31 else 0) else 0.

Definition lt_start (rate accel : Z) : Z := rate - Z.quot accel 2.

Definition lt_spec (rate accel : Z) (T : nat) (acc0 : option Z) : Z * Z :=
  let r0 := lt_start rate accel in
  let c := match acc0 with Some c => c | None => lt_clear r0 accel end in
  let tot := snd (lt_ticks T accel r0 c) in (tot / B31, tot mod B31).

(* ---- third order (T3 command): each tick  rate += accel; accel += jerk; acc += rate ---- *)
Fixpoint t3_ticks (n : nat) (j a r acc : Z) : Z * Z * Z :=
  match n with
  | O => (r, a, acc)
  | S n' => let r' := r + a in t3_ticks n' j (a + j) r' (acc + r')
  end.

Definition t3_start (rate accel jerk : Z) : Z := rate - Z.quot accel 2 + Z.quot jerk 6.

(* first non-zero rate among ticks 1..3 decides the cleared accumulator *)
Definition t3_clear (re a j : Z) : Z :=
  let r1 := re + a in
  if r1 <? 0 then M31 else if 0 <? r1 then 0 else
  let r2 := r1 + (a + j) in
  if r2 <? 0 then M31 else if 0 <? r2 then 0 else
  let r3 := r2 + (a + j + j) in
  if r3 <? 0 then M31 else 0.

Definition t3_spec_dist (T : nat) (rate accel jerk : Z) (acc0 : option Z) : Z * Z :=
  let re := t3_start rate accel jerk in
  let c := match acc0 with Some c => c | None => t3_clear re accel jerk end in
  let tot := snd (t3_ticks T jerk accel re c) in (tot / B31, tot mod B31).

Definition t3_spec_rate (T : nat) (rate accel jerk : Z) : Z :=
  fst (fst (t3_ticks T jerk accel (t3_start rate accel jerk) 0)).
