From Plotink Require Import Base.Prelude Model.Rtree.
From Coq Require Import Arith.
Open Scope Q_scope.

Definition box_ok (b : box) := bx1 b <= bx2 b /\ by1 b <= by2 b.

Lemma overlaps_iff q b : overlaps q b = true <->
  bx1 q <= bx2 b /\ by1 q <= by2 b /\ bx1 b <= bx2 q /\ by1 b <= by2 q.
Proof. unfold overlaps, disjoint. rewrite negb_true_iff, !orb_false_iff, !Qltb_false. tauto. Qed.

(* "shares at least one point (touching counts)" *)
Definition share_point (q b : box) : Prop :=
  exists x y, bx1 q <= x <= bx2 q /\ by1 q <= y <= by2 q /\ bx1 b <= x <= bx2 b /\ by1 b <= y <= by2 b.
Lemma overlaps_share_point q b : box_ok q -> box_ok b -> (overlaps q b = true <-> share_point q b).
Proof.
  intros [Q1 Q2] [B1 B2]. rewrite overlaps_iff. split.
  - intros (H1 & H2 & H3 & H4). exists (Qmax (bx1 q) (bx1 b)), (Qmax (by1 q) (by1 b)).
    repeat split; try apply Q.le_max_l; try apply Q.le_max_r; apply Q.max_lub; lra.
  - intros (x & y & Hx & Hy & Hx' & Hy'). lra.
Qed.

Definition covers (e : option box) (b : box) :=
  match e with None => False | Some e => bx1 e <= bx1 b /\ by1 e <= by1 b /\ bx2 b <= bx2 e /\ by2 b <= by2 e end.
Lemma ext_add_covers_new e b : covers (ext_add e b) b.
Proof. destruct e as [e|]; cbn; [|lra]. repeat split; try apply Q.le_min_r; try apply Q.le_max_r. Qed.
Lemma ext_add_covers_old e b c : covers e c -> covers (ext_add e b) c.
Proof.
  destruct e as [e|]; cbn; [|tauto]. intros (A&B&C&D). repeat split.
  - eapply Qle_trans; [apply Q.le_min_l|exact A]. - eapply Qle_trans; [apply Q.le_min_l|exact B].
  - eapply Qle_trans; [exact C|apply Q.le_max_l]. - eapply Qle_trans; [exact D|apply Q.le_max_l].
Qed.
Lemma fold_covers (l : list ibox) : forall e c, (covers e c \/ In c (map snd l)) ->
  covers (fold_left (fun e ib => ext_add e (snd ib)) l e) c.
Proof.
  induction l as [|ib l IH]; intros e c [H|H]; cbn in *; try tauto.
  - apply IH. left. apply ext_add_covers_old, H.
  - destruct H as [<-|H]; apply IH; [left; apply ext_add_covers_new|right; exact H].
Qed.
Lemma extent_covers l ib : In ib l -> covers (extent l) (snd ib).
Proof. intros H. apply fold_covers. right. apply in_map, H. Qed.
Lemma hit_of_cover q e b : covers e b -> overlaps q b = true -> hit q e = true.
Proof. destruct e as [e|]; cbn; [|tauto]. intros (A&B&C&D) H. apply overlaps_iff in H. apply overlaps_iff. lra. Qed.

(* with the non-strict tests every valid box falls in some quadrant *)
Lemma quad_cover cx cy ib : box_ok (snd ib) -> exists k, (k < 4)%nat /\ quad false k cx cy ib = true.
Proof.
  intros [Hx Hy].
  destruct (Qlt_le_dec cx (bx1 (snd ib))) as [X|X]; destruct (Qlt_le_dec cy (by1 (snd ib))) as [Y|Y].
  - exists 3%nat. split; [lia|]. cbn. rewrite andb_true_iff, !Qleb_iff. lra.
  - exists 1%nat. split; [lia|]. cbn. rewrite andb_true_iff, !Qleb_iff. lra.
  - exists 2%nat. split; [lia|]. cbn. rewrite andb_true_iff, !Qleb_iff. lra.
  - exists 0%nat. split; [lia|]. cbn. rewrite andb_true_iff, !Qleb_iff. lra.
Qed.

Definition brute (l : list ibox) (q : box) (i : Z) := exists b, In (i, b) l /\ overlaps q b = true.
Lemma leaf_ok l q i : In i (map fst (filter (fun ib => overlaps q (snd ib)) l)) <-> brute l q i.
Proof.
  rewrite in_map_iff. split.
  - intros ([j b] & <- & H). apply filter_In in H. exists b. tauto.
  - intros (b & H1 & H2). exists (i, b). split; [reflexivity|]. apply filter_In. tauto.
Qed.
Lemma filter_len_le {A} (f : A -> bool) l : (length (filter f l) <= length l)%nat.
Proof. induction l; cbn; [lia|]. destruct (f a); cbn; lia. Qed.
Lemma text_build s ff ll : text (build s ff ll) = extent ll.
Proof. destruct ff; cbn; [reflexivity|]. destruct (centre ll). destruct (Nat.eqb _ _); reflexivity. Qed.

Theorem query_eq_brute : forall fuel l q i, (length l <= fuel)%nat -> Forall (fun ib => box_ok (snd ib)) l ->
  (In i (query (build false fuel l) q) <-> brute l q i).
Proof.
  induction fuel as [|f IH]; intros l q i Hf Hok.
  - cbn [build query]. apply leaf_ok.
  - cbn [build]. destruct (centre l) as [cx cy].
    set (q0 := filter (quad false 0 cx cy) l). set (q1 := filter (quad false 1 cx cy) l).
    set (q2 := filter (quad false 2 cx cy) l). set (q3 := filter (quad false 3 cx cy) l).
    destruct (Nat.eqb _ _) eqn:E.
    + cbn [query]. apply leaf_ok.
    + apply Nat.eqb_neq in E.
      assert (L0 : (length q0 <= length l)%nat) by apply filter_len_le.
      assert (L1 : (length q1 <= length l)%nat) by apply filter_len_le.
      assert (L2 : (length q2 <= length l)%nat) by apply filter_len_le.
      assert (L3 : (length q3 <= length l)%nat) by apply filter_len_le.
      assert (Hsub: forall k, Forall (fun ib => box_ok (snd ib)) (filter (quad false k cx cy) l)).
      { intros k. apply Forall_forall. intros x Hx. apply filter_In in Hx. rewrite Forall_forall in Hok. apply Hok; tauto. }
      assert (Sub: forall k qk, qk = filter (quad false k cx cy) l -> (length qk <= f)%nat ->
                 (In i (if hit q (text (build false f qk)) then query (build false f qk) q else []) <-> brute qk q i)).
      { intros k qk -> Hl. split.
        - destruct (hit q _); [|cbn; tauto]. apply IH; [exact Hl|apply Hsub].
        - intros Hb. assert (Hh: hit q (text (build false f (filter (quad false k cx cy) l))) = true).
          { destruct Hb as (b & Hin & Hov). rewrite text_build.
            eapply hit_of_cover; [apply (extent_covers _ (i, b)); exact Hin|exact Hov]. }
          rewrite Hh. apply IH; [exact Hl|apply Hsub|exact Hb]. }
      cbn [query]. rewrite !in_app_iff.
      assert (M0 : (length q0 <= f)%nat) by lia. assert (M1 : (length q1 <= f)%nat) by lia.
      assert (M2 : (length q2 <= f)%nat) by lia. assert (M3 : (length q3 <= f)%nat) by lia.
      rewrite (Sub 0%nat q0 eq_refl M0), (Sub 1%nat q1 eq_refl M1), (Sub 2%nat q2 eq_refl M2), (Sub 3%nat q3 eq_refl M3).
      split.
      * intros [H|[H|[H|H]]]; destruct H as (b & Hin & Hov); exists b; (split; [apply filter_In in Hin; tauto|exact Hov]).
      * intros (b & Hin & Hov). rewrite Forall_forall in Hok.
        destruct (quad_cover cx cy (i, b) (Hok _ Hin)) as (k & Hk & Hq).
        assert (In (i, b) (filter (quad false k cx cy) l)) by (apply filter_In; tauto).
        destruct k as [|[|[|[|k]]]]; try lia; [left|right;left|right;right;left|right;right;right]; exists b; tauto.
Qed.

(* termination: the constructor recurses only into strictly smaller lists, so the tree does not
   depend on the fuel once fuel >= number of boxes: fuel = length is the real, unbounded recursion *)
Theorem build_fuel_irrelevant s : forall f1 f2 l, (length l <= f1)%nat -> (length l <= f2)%nat ->
  build s f1 l = build s f2 l.
Proof.
  induction f1 as [|f1 IH]; intros f2 l H1 H2.
  - assert (l = []) by (destruct l; [reflexivity|cbn in H1; lia]). subst l.
    destruct f2; reflexivity.
  - destruct f2 as [|f2].
    + assert (l = []) by (destruct l; [reflexivity|cbn in H2; lia]). subst l. reflexivity.
    + cbn [build]. destruct (centre l) as [cx cy].
      destruct (Nat.eqb _ _) eqn:E; [reflexivity|]. apply Nat.eqb_neq in E.
      pose proof (filter_len_le (quad s 0 cx cy) l). pose proof (filter_len_le (quad s 1 cx cy) l).
      pose proof (filter_len_le (quad s 2 cx cy) l). pose proof (filter_len_le (quad s 3 cx cy) l).
      f_equal; apply IH; lia.
Qed.

Theorem intersection_eq_brute l q i : Forall (fun ib => box_ok (snd ib)) l ->
  (In i (intersection false l q) <-> brute l q i).
Proof. intros H. unfold intersection. apply query_eq_brute; [lia|exact H]. Qed.

Theorem intersection_eq_brute_list l q i : Forall (fun ib => box_ok (snd ib)) l ->
  (In i (intersection false l q) <-> In i (brute_list l q)).
Proof. intros H. rewrite intersection_eq_brute by exact H. unfold brute_list. symmetry. apply leaf_ok. Qed.

(* the constructor as found (strict tests) loses degenerate boxes *)
Definition witness_boxes : list ibox := [(7%Z, mkbox 0 1 5 1)].
Definition witness_query : box := mkbox 0 0 9 9.
Lemma strict_refuted : Forall (fun ib => box_ok (snd ib)) witness_boxes /\ box_ok witness_query /\
  brute witness_boxes witness_query 7%Z /\ ~ In 7%Z (intersection true witness_boxes witness_query).
Proof.
  split; [repeat constructor; cbn; lra|]. split; [split; cbn; lra|]. split.
  - exists (mkbox 0 1 5 1). split; [left; reflexivity|reflexivity].
  - vm_compute. tauto.
Qed.
