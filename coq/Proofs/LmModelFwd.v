(* C03, part 1: ceil_root is the least integer at or above a root of the quadratic (via Z.sqrt); the exact model of calculate_lm
   (Model/LmModel.v) is correct on forward-starting moves: constant rate, acceleration, deceleration with the budget reached
   before / after the reversal.  For all integers. *)
From Coq Require Import ZArith Bool Lia.
From Plotink Require Import Spec.Firmware Spec.LmSpec Spec.LmCheck Model.LmModel.
Open Scope Z_scope.

(* ------------------------------------------------------------------ *)
Lemma cdiv_pos n d : 0 < d -> d * (cdiv n d - 1) < n <= d * cdiv n d.
Proof.
  intros Hd. unfold cdiv. pose proof (Z.div_mod (- n) d ltac:(lia)). pose proof (Z.mod_pos_bound (- n) d Hd). nia.
Qed.
Lemma cdiv_neg n d : d < 0 -> d * cdiv n d <= n < d * (cdiv n d - 1).
Proof.
  intros Hd. unfold cdiv. pose proof (Z.div_mod (- n) d ltac:(lia)). pose proof (Z.mod_neg_bound (- n) d Hd). nia.
Qed.

Definition ge_sqrt (m D : Z) := 0 <= m /\ D <= m * m.       (* m >= sqrt D *)
Definition ge_nsqrt (m D : Z) := 0 <= m \/ m * m <= D.      (* m >= - sqrt D *)

Lemma sqrt_ceil D : 0 <= D -> let s0 := Z.sqrt D in let sc := if s0 * s0 =? D then s0 else s0 + 1 in
  0 <= s0 /\ s0 * s0 <= D < (s0 + 1) * (s0 + 1) /\ (forall m, sc <= m <-> ge_sqrt m D) /\ (forall m, - s0 <= m <-> ge_nsqrt m D).
Proof.
  intros HD s0 sc. pose proof (Z.sqrt_spec D HD) as S. pose proof (Z.sqrt_nonneg D) as N. fold s0 in S, N. unfold Z.succ in S.
  split; [exact N|]. split; [lia|]. unfold ge_sqrt, ge_nsqrt. split; intros m; subst sc.
  - destruct (Z.eqb_spec (s0 * s0) D) as [E|E]; split; intros H; nia.
  - split; intros H; nia.
Qed.

(* M > 0: the least n with  M n - N >= +- sqrt D *)
Lemma ceil_root_pos sg N M D : 0 < M -> 0 <= D -> let n := ceil_root sg N M D in
  if sg then ge_sqrt (M * n - N) D /\ ~ ge_sqrt (M * (n - 1) - N) D
  else ge_nsqrt (M * n - N) D /\ ~ ge_nsqrt (M * (n - 1) - N) D.
Proof.
  intros HM HD n. subst n. unfold ceil_root. destruct (sqrt_ceil D HD) as (S0 & S1 & S2 & S3).
  cbv zeta in S2, S3. destruct (Z.ltb_spec 0 M) as [_|]; [|lia].
  set (s0 := Z.sqrt D) in *. destruct sg.
  - set (sc := if s0 * s0 =? D then s0 else s0 + 1) in *. pose proof (cdiv_pos (N + sc) M HM) as C.
    split; [apply S2; lia|rewrite <- S2; lia].
  - pose proof (cdiv_pos (N - s0) M HM) as C. split; [apply S3; lia|rewrite <- S3; lia].
Qed.
(* M < 0: the least n with  N - M n >= -+ sqrt D *)
Lemma ceil_root_neg sg N M D : M < 0 -> 0 <= D -> let n := ceil_root sg N M D in
  if sg then ge_nsqrt (N - M * n) D /\ ~ ge_nsqrt (N - M * (n - 1)) D
  else ge_sqrt (N - M * n) D /\ ~ ge_sqrt (N - M * (n - 1)) D.
Proof.
  intros HM HD n. subst n. unfold ceil_root. destruct (sqrt_ceil D HD) as (S0 & S1 & S2 & S3).
  cbv zeta in S2, S3. destruct (Z.ltb_spec 0 M) as [|_]; [lia|].
  set (s0 := Z.sqrt D) in *. destruct sg.
  - pose proof (cdiv_pos (- N - s0) (- M) ltac:(lia)) as C. split; [apply S3; lia|rewrite <- S3; lia].
  - set (sc := if s0 * s0 =? D then s0 else s0 + 1) in *. pose proof (cdiv_pos (- N + sc) (- M) ltac:(lia)) as C.
    split; [apply S2; lia|rewrite <- S2; lia].
Qed.

Lemma ge_sqrt_mono m m' D : ge_sqrt m D -> m <= m' -> ge_sqrt m' D.
Proof. unfold ge_sqrt. intros [H1 H2] H. split; nia. Qed.
Lemma ge_nsqrt_mono m m' D : ge_nsqrt m D -> m <= m' -> ge_nsqrt m' D.
Proof. unfold ge_nsqrt. intros [H1|H1] H; [left; lia|]. destruct (Z_le_gt_dec 0 m'); [left; lia|right; nia]. Qed.

(* ------------------------------------------------------------------ *)
Lemma tri2 k : 2 * (k * (k + 1) / 2) = k * (k + 1).
Proof.
  assert (exists q, k * (k + 1) = 2 * q) as [q Hq].
  { destruct (Z.Even_or_Odd k) as [[h ->]|[h ->]]; [exists (h * (2 * h + 1))|exists ((2 * h + 1) * (h + 1))]; ring. }
  rewrite Hq, (Z.mul_comm 2 q), Z.div_mul by lia. ring.
Qed.
Lemma ctotal2 r0 a acc k : 2 * ctotal r0 a acc k = a * k * k + (2 * r0 + a) * k + 2 * acc.
Proof. unfold ctotal. pose proof (tri2 k). nia. Qed.
Lemma cpos_bounds r0 a acc k : B31 * cpos r0 a acc k <= ctotal r0 a acc k < B31 * cpos r0 a acc k + B31.
Proof. unfold cpos. pose proof (Z.div_mod (ctotal r0 a acc k) B31 ltac:(discriminate)). pose proof (Z.mod_pos_bound (ctotal r0 a acc k) B31 eq_refl). lia. Qed.
Lemma cpos_ge r0 a acc k p : p <= cpos r0 a acc k <-> B31 * p <= ctotal r0 a acc k.
Proof. pose proof (cpos_bounds r0 a acc k). unfold B31 in *. split; intros; nia. Qed.
Lemma cpos_le r0 a acc k p : cpos r0 a acc k <= p <-> ctotal r0 a acc k < B31 * (p + 1).
Proof. pose proof (cpos_bounds r0 a acc k). unfold B31 in *. split; intros; nia. Qed.
Lemma cpos0 r0 a acc : 0 <= acc < B31 -> cpos r0 a acc 0 = 0.
Proof. intros H. unfold cpos, ctotal. replace (acc + r0 * 0 + a * (0 * (0 + 1) / 2)) with acc by (cbn; lia). apply Z.div_small, H. Qed.
Lemma ctotal_step r0 a acc k : ctotal r0 a acc k = ctotal r0 a acc (k - 1) + (r0 + a * k).
Proof. pose proof (ctotal2 r0 a acc k). pose proof (ctotal2 r0 a acc (k - 1)). nia. Qed.
Lemma ctotal_diff r0 a acc k j : 2 * (ctotal r0 a acc k - ctotal r0 a acc j) = (k - j) * ((r0 + a * k) + (r0 + a * (j + 1))).
Proof. pose proof (ctotal2 r0 a acc k). pose proof (ctotal2 r0 a acc j). nia. Qed.
Lemma ctotal0 r0 a acc : ctotal r0 a acc 0 = acc.
Proof. unfold ctotal. cbn. lia. Qed.

(* ------------------------------------------------------------------ *)
Definition good (st r0 a acc : Z) (m : lm_mid) (T : Z) : Prop :=
  1 <= T /\ st <= csteps r0 a acc T /\ csteps r0 a acc (T - 1) < st /\ m_pos m = cpos r0 a acc T /\ m_acc m = acc.

Section Pos.
Variables (st rate a : Z) (accum : option Z).
Let q := Z.quot a 2.
Let r0 := rate - q.
Let acc := match accum with Some c => c | None => 0 end.
Hypothesis Hst : 0 < st.
Hypothesis Hpos : 0 < r0 + a \/ (r0 + a = 0 /\ 0 < a).
Hypothesis Hacc : 0 <= acc < B31.

Lemma neg_false : ((rate - q + a <? 0) || ((rate - q + a =? 0) && (a <? 0))) = false.
Proof. replace (rate - q + a) with (r0 + a) by (unfold r0; lia).
  destruct (Z.ltb_spec (r0 + a) 0); [lia|]. destruct (Z.eqb_spec (r0 + a) 0); destruct (Z.ltb_spec a 0); cbn; try reflexivity; lia. Qed.

(* no deceleration: a >= 0 *)
Lemma front_up : 0 <= a ->
  lm_front st rate a accum = {| m_neg := false; m_acc := acc; m_adj := acc; m_trev := -1; m_srev := 0; m_pos := st; m_padj := st; m_rev := false |}.
Proof.
  intros Ha. unfold lm_front. fold q. rewrite neg_false. cbn [andb negb orb].
  destruct (Z.ltb_spec a 0); [lia|]. cbn [andb negb orb]. change (0 <? -1) with false. cbv iota. change (-1 <? 1) with true. cbn [orb].
  unfold acc. destruct accum; reflexivity.
Qed.

Hypothesis Hr1 : Z.abs (r0 + a) <= M31.

Lemma b2_eq : 2 * rate + a - 2 * Z.quot a 2 = 2 * r0 + a.
Proof. unfold r0, q. lia. Qed.

(* the discriminant identity *)
Lemma disc_id (A Bc C n : Z) : (2 * A * n + Bc) * (2 * A * n + Bc) - (Bc * Bc - 4 * A * C) = 4 * A * (A * n * n + Bc * n + C).
Proof. ring. Qed.

Lemma csteps_up k : 0 <= a -> 0 <= k -> csteps r0 a acc k = cpos r0 a acc k.
Proof.
  intros Ha Hk. unfold csteps, krev. cbv zeta. rewrite (cpos0 r0 a acc Hacc).
  assert (P : 0 <= cpos r0 a acc k).
  { apply cpos_ge. pose proof (ctotal_diff r0 a acc k 0) as D. rewrite ctotal0 in D.
    assert (0 <= k * (r0 + a * k + (r0 + a * (0 + 1)))); [|unfold B31 in *; lia].
    destruct (Z.eq_dec k 0) as [->|]; [lia|]. assert (0 <= r0 + a * k) by nia. apply Z.mul_nonneg_nonneg; lia. }
  destruct (Z.eqb_spec a 0); [lia|].
  destruct ((0 <? r0 + a) || ((r0 + a =? 0) && (0 <? a))) eqn:E.
  - destruct (Z.ltb_spec 0 a); [lia|lia].
  - exfalso. apply orb_false_iff in E. destruct E as [E1 E2]. apply Z.ltb_ge in E1.
    destruct Hpos as [|[H1 H2]]; [lia|]. rewrite H1 in E2. cbn in E2. apply Z.ltb_ge in E2. lia.
Qed.

Lemma time_const : a = 0 -> let m := lm_front st rate a accum in let T := lm_time rate a m in
  Z.abs (r0 + a * T) <= M31 -> good st r0 a acc m T.
Proof.
  intros Ha m T HT. subst m. unfold T in *. clear T. rewrite (front_up ltac:(lia)) in *. unfold lm_time in *. cbn [m_pos m_adj m_padj m_rev m_trev m_acc] in *.
  destruct (Z.eqb_spec a 0); [|lia]. set (T := cdiv (B31 * st - acc) rate) in *.
  assert (Er : rate = r0) by (unfold r0, q; subst a; cbn; lia).
  assert (Hr : 0 < r0) by lia. pose proof (cdiv_pos (B31 * st - acc) rate ltac:(lia)) as C. fold T in C. rewrite Er in C.
  assert (F : forall k, ctotal r0 a acc k = acc + r0 * k) by (intros k; unfold ctotal; subst a; lia).
  assert (T1 : 1 <= T) by (unfold B31 in *; nia).
  unfold good. cbn [m_pos m_acc]. rewrite !csteps_up by lia.
  split; [exact T1|]. 
  assert (G1 : st <= cpos r0 a acc T) by (apply cpos_ge; rewrite F; lia).
  assert (G2 : cpos r0 a acc (T - 1) <= st - 1) by (apply cpos_le; rewrite F; lia).
  assert (G3 : cpos r0 a acc T <= st). { apply cpos_le. rewrite F. unfold M31, B31 in *. lia. }
  lia.
Qed.

Lemma time_accel : 0 < a -> let m := lm_front st rate a accum in let T := lm_time rate a m in
  Z.abs (r0 + a * T) <= M31 -> good st r0 a acc m T.
Proof.
  intros Ha m T HT. subst m. unfold T in *. clear T. rewrite (front_up ltac:(lia)) in *. unfold lm_time in *. cbn [m_pos m_adj m_padj m_rev m_trev m_acc andb] in *.
  destruct (Z.eqb_spec a 0); [lia|]. rewrite b2_eq in *. set (b2 := 2 * r0 + a) in *. set (c := acc - st * B31) in *.
  set (D4 := b2 * b2 - 8 * a * c) in *.
  assert (Hc : c < 0) by (unfold c, B31 in *; nia).
  assert (HD : b2 * b2 < D4) by (unfold D4; nia).
  destruct (Z.ltb_spec D4 0); [nia|].
  pose proof (ceil_root_pos false (- b2) (2 * a) D4 ltac:(lia) ltac:(lia)) as R1.
  pose proof (ceil_root_pos true (- b2) (2 * a) D4 ltac:(lia) ltac:(lia)) as R2. cbv zeta in R1, R2.
  set (n1 := ceil_root false (- b2) (2 * a) D4) in *. set (n2 := ceil_root true (- b2) (2 * a) D4) in *.
  destruct R1 as [R1a R1b]. destruct R2 as [R2a R2b].
  assert (N1 : n1 <= 0).
  { destruct (Z_le_gt_dec n1 0); [assumption|]. exfalso. apply R1b. apply (ge_nsqrt_mono (2 * a * 0 - - b2)); [right; nia|nia]. }
  assert (N2 : 1 <= n2).
  { destruct (Z_le_gt_dec 1 n2); [assumption|]. exfalso. assert (G : ge_sqrt (2 * a * 0 - - b2) D4) by (apply (ge_sqrt_mono _ _ _ R2a); nia).
    destruct G as [G1 G2]. nia. }
  destruct (Z.ltb_spec 0 n1); [lia|]. destruct (Z.ltb_spec 0 n2); [|lia].
  assert (Q : forall n, a * n * n + b2 * n + 2 * c = 2 * ctotal r0 a acc n - 2 * st * B31) by (intros n0; rewrite ctotal2; unfold c, b2; ring).
  unfold good. cbn [m_pos m_acc]. rewrite !csteps_up by lia. split; [lia|].
  assert (G1 : st <= cpos r0 a acc n2).
  { apply cpos_ge. destruct R2a as [G1 G2]. pose proof (disc_id a b2 (2 * c) n2) as I. pose proof (Q n2).
    replace (b2 * b2 - 4 * a * (2 * c)) with D4 in I by (unfold D4; ring). nia. }
  assert (G2 : ctotal r0 a acc (n2 - 1) < B31 * st).
  { destruct (Z.eq_dec n2 1) as [E|E]; [rewrite E; replace (1 - 1) with 0 by lia; rewrite ctotal0; clear - Hacc Hst; unfold B31 in *; lia|].
    assert (0 <= 2 * a * (n2 - 1) - - b2) by (unfold b2; nia).
    assert (G : (2 * a * (n2 - 1) - - b2) * (2 * a * (n2 - 1) - - b2) < D4) by (unfold ge_sqrt in R2b; nia).
    pose proof (disc_id a b2 (2 * c) (n2 - 1)) as I. pose proof (Q (n2 - 1)).
    replace (b2 * b2 - 4 * a * (2 * c)) with D4 in I by (unfold D4; ring). nia. }
  assert (G3 : cpos r0 a acc (n2 - 1) <= st - 1) by (apply cpos_le; lia).
  assert (G4 : cpos r0 a acc n2 <= st). { apply cpos_le. rewrite (ctotal_step r0 a acc n2). unfold M31, B31 in *. lia. }
  lia.
Qed.

(* ---- deceleration: a < 0, the rate changes sign after tick kr = r0 / (-a) >= 1 ---- *)
Section Down.
Hypothesis Ha : a < 0.
Let kr := r0 / (- a).
Lemma kr_spec : 1 <= kr /\ 0 <= r0 + a * kr /\ r0 + a * (kr + 1) < 0.
Proof.
  unfold kr. pose proof (Z.div_mod r0 (- a) ltac:(lia)) as D. pose proof (Z.mod_pos_bound r0 (- a) ltac:(lia)) as M.
  assert (0 <= r0 + a) by lia. split; [|nia]. destruct (Z_le_gt_dec 1 (r0 / - a)); [lia|]. nia.
Qed.
Lemma rate_before k : k <= kr -> 0 <= r0 + a * k.
Proof. intros H. pose proof kr_spec. nia. Qed.
Lemma rate_after k : kr < k -> r0 + a * k < 0.
Proof. intros H. pose proof kr_spec. nia. Qed.
Lemma ctotal_up k j : 0 <= j <= k -> k <= kr -> ctotal r0 a acc j <= ctotal r0 a acc k.
Proof.
  intros H1 H2. pose proof (ctotal_diff r0 a acc k j) as D. pose proof (rate_before k H2).
  destruct (Z.eq_dec j k) as [->|]; [lia|]. pose proof (rate_before (j + 1) ltac:(lia)).
  assert (0 <= (k - j) * (r0 + a * k + (r0 + a * (j + 1)))) by (apply Z.mul_nonneg_nonneg; lia). lia.
Qed.
Lemma ctotal_down k j : kr <= j <= k -> ctotal r0 a acc k <= ctotal r0 a acc j.
Proof.
  intros H. pose proof (ctotal_diff r0 a acc k j) as D.
  destruct (Z.eq_dec j k) as [->|]; [lia|]. pose proof (rate_after k ltac:(lia)). pose proof (rate_after (j + 1) ltac:(lia)).
  assert ((k - j) * (r0 + a * k + (r0 + a * (j + 1))) <= 0) by (apply Z.mul_nonneg_nonpos; lia). lia.
Qed.
Lemma cpos_mono k j : ctotal r0 a acc j <= ctotal r0 a acc k -> cpos r0 a acc j <= cpos r0 a acc k.
Proof. intros H. unfold cpos. apply Z.div_le_mono; [reflexivity|exact H]. Qed.
Lemma cpos_nonneg_up k : 0 <= k <= kr -> 0 <= cpos r0 a acc k.
Proof. intros H. rewrite <- (cpos0 r0 a acc Hacc). apply cpos_mono, ctotal_up; lia. Qed.

Lemma csteps_down k : 0 <= k ->
  csteps r0 a acc k = if k <=? kr then cpos r0 a acc k else 2 * cpos r0 a acc kr - cpos r0 a acc k.
Proof.
  intros Hk. pose proof kr_spec as K. unfold csteps, krev. cbv zeta. rewrite (cpos0 r0 a acc Hacc).
  destruct (Z.eqb_spec a 0); [lia|].
  assert (E : ((0 <? r0 + a) || ((r0 + a =? 0) && (0 <? a))) = true).
  { destruct Hpos as [H|[H1 H2]]; [|lia]. apply orb_true_iff. left. apply Z.ltb_lt, H. }
  rewrite E. destruct (Z.ltb_spec 0 a); [lia|]. fold kr. rewrite Z.max_l by lia.
  destruct (Z.leb_spec k kr).
  - pose proof (cpos_nonneg_up k ltac:(lia)). lia.
  - pose proof (cpos_nonneg_up kr ltac:(lia)). pose proof (cpos_mono kr k (ctotal_down k kr ltac:(lia))). lia.
Qed.

Lemma front_down : let s_rev := cpos r0 a acc kr in
  lm_front st rate a accum =
  if st <=? s_rev then {| m_neg := false; m_acc := acc; m_adj := acc; m_trev := -1; m_srev := s_rev; m_pos := st; m_padj := st; m_rev := false |}
  else {| m_neg := false; m_acc := acc; m_adj := acc; m_trev := kr; m_srev := s_rev; m_pos := 2 * s_rev - st; m_padj := 2 * s_rev - st + 1; m_rev := true |}.
Proof.
  intros s_rev. pose proof kr_spec as K. unfold lm_front. fold q. rewrite neg_false. cbn [andb negb orb].
  destruct (Z.ltb_spec a 0); [|lia]. cbn [andb negb orb]. fold r0. fold kr.
  destruct (Z.ltb_spec 0 kr); [|lia]. destruct (Z.ltb_spec kr 1); [lia|]. cbn [orb].
  destruct (Z.ltb_spec 0 a); [lia|].
  assert (Es : Z.abs (match accum with Some c => c | None => 0 end + r0 * kr + a * (kr * (kr + 1) / 2)) / B31 = s_rev).
  { unfold s_rev, cpos. f_equal. fold acc. fold (ctotal r0 a acc kr). apply Z.abs_eq.
    pose proof (ctotal_up kr 0 ltac:(lia) ltac:(lia)). rewrite ctotal0 in *. lia. }
  assert (Ea : match accum with Some c => c | None => 0 end = acc) by reflexivity.
  rewrite Es. destruct (Z.leb_spec st s_rev).
  - rewrite Ea. reflexivity.
  - destruct (Z.eqb_spec s_rev 0) as [E0|E0].
    + rewrite Ea, E0. f_equal; lia.
    + rewrite Ea. f_equal; lia.
Qed.

Lemma time_down_before : st <= cpos r0 a acc kr -> let m := lm_front st rate a accum in let T := lm_time rate a m in
  good st r0 a acc m T.
Proof.
  intros Hs m T. subst m. unfold T. clear T. rewrite front_down. destruct (Z.leb_spec st (cpos r0 a acc kr)); [|lia].
  unfold lm_time. cbn [m_pos m_adj m_padj m_rev m_trev m_acc andb].
  pose proof kr_spec as K. destruct (Z.eqb_spec a 0); [lia|]. rewrite b2_eq. set (b2 := 2 * r0 + a) in *. set (c := acc - st * B31) in *.
  set (D4 := b2 * b2 - 8 * a * c) in *.
  assert (Hc : c < 0) by (unfold c, B31 in *; nia).
  assert (Q : forall n0, a * n0 * n0 + b2 * n0 + 2 * c = 2 * ctotal r0 a acc n0 - 2 * st * B31) by (intros n0; rewrite ctotal2; unfold c, b2; ring).
  assert (I : forall n0, (2 * a * n0 + b2) * (2 * a * n0 + b2) - D4 = 4 * a * (a * n0 * n0 + b2 * n0 + 2 * c)) by (intros n0; unfold D4; ring).
  assert (Fk : B31 * st <= ctotal r0 a acc kr) by (apply cpos_ge; lia).
  assert (Qk : 0 <= a * kr * kr + b2 * kr + 2 * c) by (rewrite Q; lia).
  assert (HD : 0 <= D4).
  { pose proof (I kr) as Ik. set (X := 2 * a * kr + b2) in *. set (Y := a * kr * kr + b2 * kr + 2 * c) in *.
    assert (0 <= X * X) by nia. assert (a * Y <= 0) by nia. lia. }
  destruct (Z.ltb_spec D4 0); [lia|].
  pose proof (ceil_root_neg false (- b2) (2 * a) D4 ltac:(lia) HD) as R1.
  pose proof (ceil_root_neg true (- b2) (2 * a) D4 ltac:(lia) HD) as R2. cbv zeta in R1, R2.
  set (n1 := ceil_root false (- b2) (2 * a) D4) in *. set (n2 := ceil_root true (- b2) (2 * a) D4) in *.
  destruct R1 as [R1a R1b]. destruct R2 as [R2a R2b].
  assert (Hb2 : 0 < b2) by (unfold b2; lia).
  assert (N2 : 1 <= n2).
  { destruct (Z_le_gt_dec 1 n2); [assumption|]. exfalso.
    assert (G : ge_nsqrt (- b2 - 2 * a * 0) D4) by (apply (ge_nsqrt_mono _ _ _ R2a); nia).
    destruct G as [G|G]; [lia|]. unfold D4 in G. nia. }
  assert (N12 : n2 <= n1).
  { destruct (Z_le_gt_dec n2 n1); [assumption|]. exfalso. apply R2b. destruct R1a as [G1 G2].
    apply (ge_nsqrt_mono (- b2 - 2 * a * n1)); [left; assumption|nia]. }
  assert (N2k : n2 <= kr).
  { destruct (Z_le_gt_dec n2 kr); [assumption|]. exfalso. apply R2b.
    apply (ge_nsqrt_mono (- b2 - 2 * a * kr)); [|nia]. right. pose proof (I kr). pose proof (Q kr). nia. }
  destruct (Z.ltb_spec 0 n1); [|lia]. destruct (Z.ltb_spec 0 n2); [|lia].
  assert (ET : (if n2 <? n1 then n2 else n1) = n2) by (destruct (Z.ltb_spec n2 n1); lia). rewrite ET.
  unfold good. cbn [m_pos m_acc]. rewrite !csteps_down by lia.
  destruct (Z.leb_spec n2 kr); [|lia]. destruct (Z.leb_spec (n2 - 1) kr); [|lia].
  split; [lia|].
  assert (G1 : B31 * st <= ctotal r0 a acc n2).
  { destruct R2a as [G|G].
    - (* past the vertex: only possible at kr itself *)
      assert (En : n2 = kr); [|rewrite En; exact Fk].
      destruct (Z.eq_dec n2 kr); [assumption|]. exfalso.
      pose proof (rate_before n2 ltac:(lia)). pose proof (rate_before (n2 + 1) ltac:(lia)). unfold b2 in G. nia.
    - pose proof (I n2). pose proof (Q n2). nia. }
  assert (G2 : ctotal r0 a acc (n2 - 1) < B31 * st).
  { unfold ge_nsqrt in R2b. pose proof (I (n2 - 1)). pose proof (Q (n2 - 1)).
    assert ((2 * a * (n2 - 1) + b2) * (2 * a * (n2 - 1) + b2) > D4) by nia. nia. }
  assert (G3 : cpos r0 a acc (n2 - 1) <= st - 1) by (apply cpos_le; lia).
  assert (G4 : cpos r0 a acc n2 <= st).
  { apply cpos_le. rewrite (ctotal_step r0 a acc n2). assert (r0 + a * n2 <= r0 + a) by nia. unfold M31, B31 in *. lia. }
  assert (G5 : st <= cpos r0 a acc n2) by (apply cpos_ge; lia).
  lia.
Qed.

Lemma time_down_after : cpos r0 a acc kr < st -> let m := lm_front st rate a accum in let T := lm_time rate a m in
  Z.abs (r0 + a * T) <= M31 -> good st r0 a acc m T.
Proof.
  intros Hs m T. subst m. unfold T. clear T. rewrite front_down. destruct (Z.leb_spec st (cpos r0 a acc kr)); [lia|].
  unfold lm_time. cbn [m_pos m_adj m_padj m_rev m_trev m_acc andb].
  pose proof kr_spec as K. destruct (Z.eqb_spec a 0); [lia|]. rewrite b2_eq. set (b2 := 2 * r0 + a) in *.
  destruct (Z.ltb_spec a 0); [|lia].
  set (s := cpos r0 a acc kr) in *. set (net := 2 * s - st) in *. set (c := acc - (net + 1) * B31 + 1) in *.
  set (D4 := b2 * b2 - 8 * a * c) in *.
  assert (Q : forall n0, a * n0 * n0 + b2 * n0 + 2 * c = 2 * ctotal r0 a acc n0 - 2 * (net + 1) * B31 + 2) by (intros n0; rewrite ctotal2; unfold c, b2; ring).
  assert (I : forall n0, (2 * a * n0 + b2) * (2 * a * n0 + b2) - D4 = 4 * a * (a * n0 * n0 + b2 * n0 + 2 * c)) by (intros n0; unfold D4; ring).
  assert (Fk : B31 * s <= ctotal r0 a acc kr) by (apply cpos_ge; lia).
  assert (Fk' : B31 * (net + 1) <= ctotal r0 a acc kr) by (unfold net, B31 in *; lia).
  assert (Qk : 0 < a * kr * kr + b2 * kr + 2 * c) by (rewrite Q; lia).
  assert (HD : 0 <= D4).
  { pose proof (I kr) as Ik. set (X := 2 * a * kr + b2) in *. set (Y := a * kr * kr + b2 * kr + 2 * c) in *.
    assert (0 <= X * X) by nia. assert (a * Y <= 0) by nia. lia. }
  destruct (Z.ltb_spec D4 0); [lia|].
  pose proof (ceil_root_neg false (- b2) (2 * a) D4 ltac:(lia) HD) as R1.
  pose proof (ceil_root_neg true (- b2) (2 * a) D4 ltac:(lia) HD) as R2. cbv zeta in R1, R2.
  set (n1 := ceil_root false (- b2) (2 * a) D4) in *. set (n2 := ceil_root true (- b2) (2 * a) D4) in *.
  destruct R1 as [R1a R1b]. destruct R2 as [R2a R2b].
  assert (N2k : n2 <= kr).
  { destruct (Z_le_gt_dec n2 kr); [assumption|]. exfalso. apply R2b.
    apply (ge_nsqrt_mono (- b2 - 2 * a * kr)); [|nia]. right. pose proof (I kr). nia. }
  assert (N1k : kr < n1).
  { destruct (Z_lt_ge_dec kr n1); [assumption|]. exfalso.
    assert (G : ge_sqrt (- b2 - 2 * a * kr) D4) by (apply (ge_sqrt_mono _ _ _ R1a); nia).
    destruct G as [G1 G2]. pose proof (I kr). nia. }
  destruct (Z.leb_spec n1 kr); [lia|]. destruct (Z.leb_spec n2 kr); [|lia]. cbn [andb].
  destruct (Z.ltb_spec 0 n1); [|lia]. change (0 <? -1) with false. cbv iota.
  intros HT. unfold good. cbn [m_pos m_acc]. rewrite !csteps_down by lia. fold s.
  destruct (Z.leb_spec n1 kr); [lia|]. split; [lia|].
  assert (G1 : ctotal r0 a acc n1 < B31 * (net + 1)).
  { destruct R1a as [G1 G2]. pose proof (I n1). pose proof (Q n1). nia. }
  assert (G1' : cpos r0 a acc n1 <= net) by (apply cpos_le; lia).
  assert (G2 : B31 * (net + 1) <= ctotal r0 a acc (n1 - 1)).
  { destruct (Z.eq_dec (n1 - 1) kr) as [E|E]; [rewrite E; assumption|].
    pose proof (rate_after (n1 - 1) ltac:(lia)). pose proof (rate_after n1 ltac:(lia)).
    unfold ge_sqrt in R1b. pose proof (I (n1 - 1)). pose proof (Q (n1 - 1)).
    assert (0 <= - b2 - 2 * a * (n1 - 1)) by (unfold b2; nia).
    assert ((2 * a * (n1 - 1) + b2) * (2 * a * (n1 - 1) + b2) < D4) by nia. nia. }
  assert (G3 : net <= cpos r0 a acc n1).
  { apply cpos_ge. rewrite (ctotal_step r0 a acc n1). unfold M31, B31 in *. lia. }
  assert (G4 : net + 1 <= cpos r0 a acc (n1 - 1)) by (apply cpos_ge; lia).
  split; [lia|]. split; [|split; [lia|reflexivity]].
  destruct (Z.leb_spec (n1 - 1) kr).
  - replace (n1 - 1) with kr by lia. fold s. lia.
  - unfold net in *. lia.
Qed.
End Down.
End Pos.
