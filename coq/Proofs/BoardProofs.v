From Plotink Require Import Base.Prelude Base.PyStr Model.Serial3 Spec.Board.
Open Scope Z_scope.
Ltac Zify.zify_post_hook ::= Z.to_euclidean_division_equations.

(* ---------- int32 <-> four big-endian bytes, all values ---------- *)
Theorem int32_roundtrip v : -2147483648 <= v <= 2147483647 ->
  exists b, to_bytes4 v = Some b /\ from_bytes4 b = Some v /\ Forall (fun x => 0 <= x <= 255) b /\ length b = 4%nat.
Proof.
  intros Hv. unfold to_bytes4.
  destruct (v <? -2147483648) eqn:E1; [apply Z.ltb_lt in E1; lia|]. destruct (2147483647 <? v) eqn:E2; [apply Z.ltb_lt in E2; lia|]. cbn [orb].
  eexists. split; [reflexivity|]. split; [|split; [|reflexivity]].
  - unfold from_bytes4. set (u := v mod 4294967296).
    assert (Hu : 0 <= u < 4294967296) by (unfold u; apply Z.mod_pos_bound; lia).
    assert (R : forallb (fun x => (0 <=? x) && (x <=? 255)) [u / 16777216; (u / 65536) mod 256; (u / 256) mod 256; u mod 256] = true).
    { cbn [forallb]. rewrite !andb_true_iff, !Z.leb_le. lia. }
    rewrite R. f_equal. destruct (_ <? 2147483648) eqn:E; [apply Z.ltb_lt in E|apply Z.ltb_ge in E]; unfold u in *; lia.
  - repeat constructor; lia.
Qed.
Ltac Zify.zify_post_hook ::= idtac.

(* ---------- co-simulation of the client model with the board ----------
   The model consumes a fixed script; the board's replies depend on what is written.  [cosim] iterates: run the call on the
   script built from the board's replies to the lines written so far; each round fixes at least one more exchange. *)
Definition script_of (replies : list text) : script := flat_map (fun r => [Empty; Line r]) replies.
Fixpoint cosim (n : nat) (c : cfg) (s : ebb3) (k : call) (b : board) (lines : list text) : res rv * board :=
  let '(replies, b') := board_replies b lines in
  let r := step c s k (script_of replies) in
  match n with
  | O => (r, b')
  | S n' => let '(_, _, w, _) := r in cosim n' c s k b w
  end.
Fixpoint forallb2 {A} (f : A -> A -> bool) (a b : list A) : bool :=
  match a, b with [], [] => true | x :: a', y :: b' => f x y && forallb2 f a' b' | _, _ => false end.
(* the run is consistent when the lines written are the lines the script was built from and the whole script was consumed *)
Definition settled (c : cfg) (s : ebb3) (k : call) (b : board) : option (ebb3 * outcome rv * list text * board) :=
  let '((s', o, w, rest), b') := cosim 6 c s k b [] in
  let '((_, _, w2, _), _) := cosim 7 c s k b [] in
  if forallb2 text_eqb w w2 && match rest with [] => true | _ => false end then Some (s', o, w, b') else None.

Definition s_ok : ebb3 := mkebb true None (Some [3; 0; 3]) None.
Definition cfg_fixed : cfg := mkcfg true true true true.
Definition all_motor_boards : list board :=
  flat_map (fun e1 => flat_map (fun e2 => map (fun m => mkboard (repeat 7 32) (Tt "n") e1 e2 m) [1; 2; 3; 4; 5]) [false; true]) [false; true].
Definition range06 : list Z := [0; 1; 2; 3; 4; 5].

(* motors_enable from every prior board motor state, for every clamped request: the run settles without error, and afterwards
   motor 1 is enabled iff r1 <> 0, motor 2 iff r2 <> 0, and the global mode is the requested non-zero resolution (motor 1's when both) *)
Definition motors_case_ok (b : board) (r1 r2 : Z) : bool :=
  match settled cfg_fixed s_ok (CMotorsOn r1 r2) b with
  | Some (s', Ret RNone, w, b') =>
      err_free s' && Bool.eqb (en1 b') (negb (r1 =? 0)) && Bool.eqb (en2 b') (negb (r2 =? 0)) &&
      (if negb (r1 =? 0) then mode b' =? r1 else if negb (r2 =? 0) then mode b' =? r2 else mode b' =? mode b) &&
      (* the query decodes the board state *)
      match settled cfg_fixed s' CMotorsQuery b' with
      | Some (_, Ret r, _, _) => match r with
                                 | RPair (RInt a) (RInt d) => (a =? (if en1 b' then mode b' else 0)) && (d =? (if en2 b' then mode b' else 0))
                                 | _ => false end
      | _ => false
      end
  | _ => false
  end.
Definition motors_sweep : bool :=
  forallb (fun b => forallb (fun r1 => forallb (fun r2 => motors_case_ok b r1 r2) range06) range06) all_motor_boards.
Lemma motors_sweep_true : motors_sweep = true.
Proof. vm_compute. reflexivity. Qed.

(* arguments outside 0..5 behave as their clamped values *)
Lemma clamp05_idem r : clamp05 (clamp05 r) = clamp05 r.
Proof. unfold clamp05. lia. Qed.
Theorem motors_enable_clamps s r1 r2 sc : motors_enable s r1 r2 sc = motors_enable s (clamp05 r1) (clamp05 r2) sc.
Proof. unfold motors_enable. rewrite !clamp05_idem. reflexivity. Qed.
Lemma clamp05_range r : In (clamp05 r) range06.
Proof. unfold clamp05, range06. cbn [In]. lia. Qed.

(* one-byte variables: every value 0..255 at every slot 0..31, from a board with arbitrary other content: write then read *)
Definition byte_case_ok (v i : Z) : bool :=
  let b := mkboard (map (fun k => (k * 37 + 11) mod 256) (map Z.of_nat (seq 0 32))) (Tt "n") true false 2 in
  match settled cfg_fixed s_ok (CVarWrite v i) b with
  | Some (s', Ret (RBool true), w, b') =>
      err_free s' && (nth (Z.to_nat i) (slots b') (-1) =? v) &&
      forallb (fun j => (j =? i) || (nth (Z.to_nat j) (slots b') (-1) =? nth (Z.to_nat j) (slots b) (-2))) (map Z.of_nat (seq 0 32)) &&
      match settled cfg_fixed s' (CVarRead i) b' with Some (_, Ret (RInt x), _, _) => x =? v | _ => false end
  | _ => false
  end.
Definition byte_sweep : bool :=
  forallb (fun v => forallb (fun i => byte_case_ok v i) (map Z.of_nat (seq 0 32))) (map Z.of_nat (seq 0 256)).
Lemma byte_sweep_true : byte_sweep = true.
Proof. vm_compute. reflexivity. Qed.

(* nickname: written trimmed, read back trimmed *)
Definition nick_case_ok (n : text) : bool :=
  match settled cfg_fixed s_ok (CWriteNick (Some n)) board0 with
  | Some (s', Ret (RBool true), w, b') =>
      text_eqb (nick b') (strip n) &&
      match settled cfg_fixed (mkebb true None (Some [3; 0; 3]) None) CQueryNick b' with
      | Some (s2, Ret RNone, _, _) => match strip n with [] => true | _ => match name s2 with Some x => text_eqb x (strip n) | None => false end end
      | _ => false
      end
  | _ => false
  end.
Example nick_examples : forallb nick_case_ok [Tt "Bot"; Tt "  Axi Draw "; Tt "x"; Tt "a b  c"; Tt "0123456789abcdef"] = true.
Proof. vm_compute. reflexivity. Qed.
