From Plotink Require Import Base.Prelude Base.PyStr Model.Serial3 Model.SerialLegacy.
Open Scope Z_scope.

(* ---------- one write at most, never an exception, text back (repaired retry loop) ---------- *)
Theorem lquery_shape hp c sc : exists r w sc',
  lquery true hp c sc = (Ret r, w, sc') /\ (w = [] \/ exists t, c = Some t /\ w = [t]) /\
  (hp = true -> forall t, c = Some t -> exists x, r = Some x) /\
  ((hp = false \/ c = None) -> r = None /\ w = [] /\ sc' = sc).
Proof.
  unfold lquery. destruct c as [t|].
  2:{ eexists _, _, _. split; [reflexivity|]. split; [left; reflexivity|]. split; [intros _ t0 H; discriminate|intros _; repeat split]. }
  destruct hp; cbn [negb].
  2:{ eexists _, _, _. split; [reflexivity|]. split; [left; reflexivity|]. split; [intros H; discriminate|intros _; repeat split]. }
  assert (NP : (true = false \/ Some t = None) -> False) by (intros [H|H]; discriminate).
  destruct (write_ok sc) as [wok sc1]. destruct wok; cbn [negb].
  2:{ eexists _, _, _. split; [reflexivity|]. split; [left; reflexivity|]. split; [intros _ t0 _; eexists; reflexivity|intros H; destruct (NP H)]. }
  destruct (raw_readline sc1) as [[r0|] sc2].
  2:{ eexists _, _, _. split; [reflexivity|]. split; [right; eexists; split; reflexivity|]. split; [intros _ t0 _; eexists; reflexivity|intros H; destruct (NP H)]. }
  destruct (lretry 100 r0 sc2) as [[x sc3] looped]. rewrite andb_false_r.
  destruct x as [r|].
  2:{ eexists _, _, _. split; [reflexivity|]. split; [right; eexists; split; reflexivity|]. split; [intros _ t0 _; eexists; reflexivity|intros H; destruct (NP H)]. }
  destruct (skips_ok t).
  { eexists _, _, _. split; [reflexivity|]. split; [right; eexists; split; reflexivity|]. split; [intros _ t0 _; eexists; reflexivity|intros H; destruct (NP H)]. }
  destruct (raw_readline sc3) as [[u0|] sc4].
  2:{ eexists _, _, _. split; [reflexivity|]. split; [right; eexists; split; reflexivity|]. split; [intros _ t0 _; eexists; reflexivity|intros H; destruct (NP H)]. }
  destruct (lretry 100 u0 sc4) as [[y sc5] l2].
  eexists _, _, _. split; [reflexivity|]. split; [right; eexists; split; reflexivity|]. split; [intros _ t0 _; eexists; reflexivity|intros H; destruct (NP H)].
Qed.

Theorem lcommand_shape hp c sc : exists w sc',
  lcommand hp c sc = (Ret tt, w, sc') /\ (w = [] \/ exists t, c = Some t /\ w = [t]) /\ ((hp = false \/ c = None) -> w = [] /\ sc' = sc).
Proof.
  unfold lcommand. destruct c as [t|]; [|eexists _, _; split; [reflexivity|split; [left; reflexivity|intros _; split; reflexivity]]].
  destruct hp; cbn [negb]; [|eexists _, _; split; [reflexivity|split; [left; reflexivity|intros _; split; reflexivity]]].
  assert (NP : (true = false \/ Some t = None) -> False) by (intros [H|H]; discriminate).
  destruct (write_ok sc) as [wok sc1]. destruct wok; cbn [negb]; [|eexists _, _; split; [reflexivity|split; [left; reflexivity|intros H; destruct (NP H)]]].
  destruct (raw_readline sc1) as [[r0|] sc2]; [destruct (lretry 100 r0 sc2) as [[x sc3] l]|];
  (eexists _, _; split; [reflexivity|split; [right; eexists; split; reflexivity|intros H; destruct (NP H)]]).
Qed.

(* the defect that was repaired: with the undecoded retry loop a late reply raises *)
Lemma lquery_as_found_refuted :
  fst (fst (lquery false true (Some (T "QS")) [Empty; Empty; Line (T "1,2"); Line (T "OK")])) = Raise TypeError.
Proof. vm_compute. reflexivity. Qed.

(* ---------- alignment against the conforming legacy board ---------- *)
Lemma lretry_skip d rest : forall n m, (n < m)%nat ->
  exists l, lretry m [] (repeat Empty n ++ Line d :: rest) = (RLine (d ++ CRLF), rest, l).
Proof.
  induction n as [|n IH]; intros m H; destruct m as [|m]; try lia; cbn [lretry repeat app raw_readline].
  - destruct m; cbn [lretry]; (destruct (d ++ CRLF) eqn:E; [destruct d; discriminate|]); eexists; reflexivity.
  - destruct (IH m ltac:(lia)) as [l E]. rewrite E. eexists. reflexivity.
Qed.
(* first read then the loop: up to 100 empty reads before the line *)
Lemma read_through n d rest : (n <= 100)%nat ->
  exists r0 sc2 l, raw_readline (repeat Empty n ++ Line d :: rest) = (RLine r0, sc2) /\ lretry 100 r0 sc2 = (RLine (d ++ CRLF), rest, l).
Proof.
  intros H. destruct n as [|n]; cbn [repeat app raw_readline].
  - eexists _, _, _. split; [reflexivity|]. destruct (d ++ CRLF) eqn:E; [destruct d; discriminate|]. cbn [lretry]. reflexivity.
  - destruct (lretry_skip d rest n 100 ltac:(lia)) as [l E]. eexists _, _, _. split; [reflexivity|exact E].
Qed.

Inductive lkind := KQuery | KNoOk | KCommand.
Record lex := mklex { lx_kind : lkind; lx_text : text; lx_data : text; lx_n1 : nat; lx_n2 : nat }.
Definition lex_ok (e : lex) : Prop :=
  (lx_n1 e <= 100)%nat /\ (lx_n2 e <= 100)%nat /\
  match lx_kind e with KQuery => skips_ok (lx_text e) = false | KNoOk => skips_ok (lx_text e) = true | KCommand => True end.
Definition OKL : text := T "OK".
Definition lreply (e : lex) : script :=
  Empty ::      (* the write *)
  match lx_kind e with
  | KQuery => repeat Empty (lx_n1 e) ++ Line (lx_data e) :: repeat Empty (lx_n2 e) ++ [Line OKL]
  | KNoOk => repeat Empty (lx_n1 e) ++ [Line (lx_data e)]
  | KCommand => repeat Empty (lx_n1 e) ++ [Line OKL]
  end.

(* one request against its own reply: the data line comes back and exactly the reply is consumed *)
Theorem one_aligned e rest : lex_ok e ->
  match lx_kind e with
  | KCommand => lcommand true (Some (lx_text e)) (lreply e ++ rest) = (Ret tt, [lx_text e], rest)
  | _ => lquery true true (Some (lx_text e)) (lreply e ++ rest) = (Ret (Some (lx_data e ++ CRLF)), [lx_text e], rest)
  end.
Proof.
  intros (H1 & H2 & Hk). unfold lreply. destruct (lx_kind e) eqn:K; cbn [app].
  - unfold lquery. cbn [negb write_ok].
    assert (EQ : (repeat Empty (lx_n1 e) ++ Line (lx_data e) :: repeat Empty (lx_n2 e) ++ [Line OKL]) ++ rest =
                 repeat Empty (lx_n1 e) ++ Line (lx_data e) :: (repeat Empty (lx_n2 e) ++ Line OKL :: rest)).
    { rewrite <- app_assoc. cbn [app]. rewrite <- app_assoc. reflexivity. }
    rewrite EQ.
    destruct (read_through (lx_n1 e) (lx_data e) (repeat Empty (lx_n2 e) ++ Line OKL :: rest) H1) as (r0 & sc2 & l & E1 & E2).
    rewrite E1, E2. rewrite andb_false_r. rewrite Hk.
    destruct (read_through (lx_n2 e) OKL rest H2) as (u0 & sc4 & l2 & F1 & F2).
    rewrite F1, F2. reflexivity.
  - unfold lquery. cbn [negb write_ok].
    assert (EQ : (repeat Empty (lx_n1 e) ++ [Line (lx_data e)]) ++ rest = repeat Empty (lx_n1 e) ++ Line (lx_data e) :: rest).
    { rewrite <- app_assoc. reflexivity. }
    rewrite EQ.
    destruct (read_through (lx_n1 e) (lx_data e) rest H1) as (r0 & sc2 & l & E1 & E2).
    rewrite E1, E2. rewrite andb_false_r. rewrite Hk. reflexivity.
  - unfold lcommand. cbn [negb write_ok].
    assert (EQ : (repeat Empty (lx_n1 e) ++ [Line OKL]) ++ rest = repeat Empty (lx_n1 e) ++ Line OKL :: rest).
    { rewrite <- app_assoc. reflexivity. }
    rewrite EQ.
    destruct (read_through (lx_n1 e) OKL rest H1) as (r0 & sc2 & l & E1 & E2).
    rewrite E1, E2. reflexivity.
Qed.

(* sequences stay aligned: request k gets data line k, whatever the (<= 100) numbers of empty reads *)
Fixpoint lrun (es : list lex) (sc : script) : list (option text) * script :=
  match es with
  | [] => ([], sc)
  | e :: t =>
      match lx_kind e with
      | KCommand => let '(_, _, sc') := lcommand true (Some (lx_text e)) sc in let '(rs, sc'') := lrun t sc' in (None :: rs, sc'')
      | _ => let '(o, _, sc') := lquery true true (Some (lx_text e)) sc in
             let '(rs, sc'') := lrun t sc' in ((match o with Ret r => r | Raise _ => None end) :: rs, sc'')
      end
  end.
Theorem sequence_aligned : forall es rest, Forall lex_ok es ->
  lrun es (flat_map lreply es ++ rest) =
  (map (fun e => match lx_kind e with KCommand => None | _ => Some (lx_data e ++ CRLF) end) es, rest).
Proof.
  induction es as [|e es IH]; intros rest H; [reflexivity|].
  inversion H as [|e' es' He Hes]; subst. cbn [lrun flat_map map]. rewrite <- app_assoc.
  pose proof (one_aligned e (flat_map lreply es ++ rest) He) as O.
  destruct (lx_kind e); rewrite O; rewrite (IH rest Hes); reflexivity.
Qed.
