(* C17: max_rate_t3 reports a tick's rate, at least both end rates, within |jerk| of the true peak *)
From Plotink Require Import Base.Prelude Spec.Firmware Model.EbbCalc Proofs.EbbCalcProofs Proofs.EbbClosed Corr.C02.
Open Scope Z_scope.

(* doubled rate at tick k: 2 * t3_rate_closed k, without division *)
Definition D (re A J k : Z) := 2 * re + 2 * A * k + J * k * (k - 1).

Lemma even_prod k : exists q, k * (k - 1) = 2 * q.
Proof. destruct (Z.Even_or_Odd k) as [[h ->]|[h ->]]; [exists (h * (2 * h - 1))|exists ((2 * h + 1) * h)]; ring. Qed.
Lemma D_is_double rate accel jerk k :
  D (t3_start rate accel jerk) accel jerk k = 2 * t3_rate_closed k rate accel jerk.
Proof.
  unfold D, t3_rate_closed. destruct (even_prod k) as [q Hq].
  rewrite Hq. replace (2 * q / 2) with q by (symmetry; rewrite Z.mul_comm; apply Z.div_mul; lia).
  replace (jerk * k * (k - 1)) with (jerk * (k * (k - 1))) by ring. rewrite Hq. ring.
Qed.

(* ---------- integer facts about the convex quadratic D (J > 0) ---------- *)
Lemma convex_upper re A J T k : 0 < J -> 1 <= k <= T ->
  (T - 1) * D re A J k <= (T - k) * D re A J 1 + (k - 1) * D re A J T.
Proof.
  intros HJ Hk. unfold D.
  assert (E: (T-k) * (2*re + 2*A*1 + J*1*(1-1)) + (k-1) * (2*re + 2*A*T + J*T*(T-1)) - (T-1) * (2*re + 2*A*k + J*k*(k-1)) = J*((k-1)*(T-k))*(T-1)) by ring.
  assert (0 <= J*((k-1)*(T-k))*(T-1)) by (apply Z.mul_nonneg_nonneg; [apply Z.mul_nonneg_nonneg; [lia|apply Z.mul_nonneg_nonneg; lia]|lia]).
  lia.
Qed.
Lemma upper_by_ends re A J T k m : 0 < J -> 1 <= k <= T -> D re A J 1 <= m -> D re A J T <= m -> D re A J k <= m.
Proof.
  intros HJ Hk H1 HT. destruct (Z.eq_dec T 1) as [->|Hne]; [replace k with 1 by lia; exact H1|].
  pose proof (convex_upper re A J T k HJ Hk) as C.
  assert ((T - k) * D re A J 1 <= (T - k) * m) by (apply Z.mul_le_mono_nonneg_l; lia).
  assert ((k - 1) * D re A J T <= (k - 1) * m) by (apply Z.mul_le_mono_nonneg_l; lia).
  assert ((T - 1) * D re A J k <= (T - 1) * m) by lia.
  apply Z.mul_le_mono_pos_l with (p := T - 1); lia.
Qed.
Lemma near_vertex re A J c k : 0 < J -> 2*J*(c-1) < J - 2*A <= 2*J*c ->
  D re A J c - J <= D re A J k.
Proof.
  intros HJ [H1 H2]. unfold D.
  set (d := k - c). replace k with (c + d) by (unfold d; lia). clearbody d.
  assert (E: 2*re + 2*A*(c+d) + J*(c+d)*(c+d-1) - (2*re + 2*A*c + J*c*(c-1)) = d*(2*A + J*(2*c-1)) + J*d*d) by ring.
  set (u := 2*A + J*(2*c-1)) in *. assert (Hu: 0 <= u < 2*J) by (unfold u; lia). clearbody u.
  destruct (Z_le_gt_dec 0 d) as [Hd|Hd].
  - assert (0 <= d*u) by (apply Z.mul_nonneg_nonneg; lia).
    assert (0 <= J*d*d) by (rewrite <- Z.mul_assoc; apply Z.mul_nonneg_nonneg; [lia|apply Z.square_nonneg]). lia.
  - assert (d = -1 \/ d <= -2) as [->|Hd2] by lia; [lia|].
    assert (d*u >= d*(2*J)) by nia.
    assert (0 <= J*(d*(d+2))) by (apply Z.mul_nonneg_nonneg; [lia|nia]). nia.
Qed.
(* vertex at or before 3/2: D is non-decreasing on k >= 1 *)
Lemma mono_after re A J T k : 0 < J -> - A <= J -> 2 <= T -> 1 <= k <= T ->
  D re A J 1 <= D re A J k <= D re A J T.
Proof.
  intros HJ HA HT Hk. unfold D.
  assert (E1 : 2*re + 2*A*k + J*k*(k-1) - (2*re + 2*A*1 + J*1*(1-1)) = (k-1)*(2*A + J*k)) by ring.
  assert (E2 : 2*re + 2*A*T + J*T*(T-1) - (2*re + 2*A*k + J*k*(k-1)) = (T-k)*(2*A + J*(T+k-1))) by ring.
  assert (0 <= (k-1)*(2*A + J*k)).
  { destruct (Z.eq_dec k 1) as [->|]; [lia|]. apply Z.mul_nonneg_nonneg; [lia|]. nia. }
  assert (0 <= (T-k)*(2*A + J*(T+k-1))) by (apply Z.mul_nonneg_nonneg; [lia|nia]).
  lia.
Qed.
(* vertex at or after T - 3/2: the dip below the last tick is at most 2J (doubled units) *)
Lemma dip_at_end re A J T k : 0 < J -> (T - 2) * J <= - A -> 1 <= k <= T ->
  D re A J T - 2 * J <= D re A J k.
Proof.
  intros HJ HA Hk. unfold D.
  assert (E2 : 2*re + 2*A*T + J*T*(T-1) - (2*re + 2*A*k + J*k*(k-1)) = (T-k)*(2*A + J*(T+k-1))) by ring.
  set (d := T - k) in *. assert (Hd : 0 <= d) by (unfold d; lia).
  assert (B : 2*A + J*(T+k-1) <= J*(3 - d)) by (unfold d; replace (J*(3-(T-k))) with (J*(T+k-1) - 2*((T-2)*J)) by ring; lia).
  assert (d*(2*A + J*(T+k-1)) <= d*(J*(3-d))) by (apply Z.mul_le_mono_nonneg_l; lia).
  assert (d*(J*(3-d)) <= 2*J).
  { assert (d = 0 \/ d = 1 \/ d = 2 \/ 3 <= d) as [->|[->|[->|H3]]] by lia; try lia.
    assert (d*(J*(3-d)) <= 0); [|lia]. apply Z.mul_nonneg_nonpos; [lia|]. apply Z.mul_nonneg_nonpos; lia. }
  lia.
Qed.
(* zero jerk: linear, between the ends *)
Lemma linear_between re A T k : 1 <= k <= T ->
  (D re A 0 1 <= D re A 0 k <= D re A 0 T) \/ (D re A 0 T <= D re A 0 k <= D re A 0 1).
Proof. intros Hk. unfold D. destruct (Z_le_gt_dec 0 A); [left|right]; nia. Qed.
Lemma D_neg re A J k : D (-re) (-A) (-J) k = - D re A J k.
Proof. unfold D. ring. Qed.

(* ---------- the model, read in integers ---------- *)
Lemma rate_t3_closed_Z T rate accel jerk : 1 <= T ->
  rate_t3 T rate accel jerk = t3_rate_closed T rate accel jerk.
Proof.
  intros HT. assert (E : T = Z.of_nat (Z.to_nat T)) by lia.
  assert (Hn : (1 <= Z.to_nat T)%nat) by lia. revert E Hn. generalize (Z.to_nat T). intros n -> Hn.
  rewrite rate_t3_exact by exact Hn. symmetry. apply (proj2 (t3_closed_spec n rate accel jerk None)). exact Hn.
Qed.

Definition tmid (accel jerk : Z) : Q := ((iz jerk / 2 - iz accel) / iz jerk)%Q.

(* comparisons of the vertex with half-integers, as integer inequalities (J > 0) *)
Lemma tmid_half accel jerk h : 0 < jerk ->
  (tmid accel jerk - iz h / 2 == iz (jerk - 2 * accel - jerk * h) * / iz (2 * jerk))%Q.
Proof.
  intros HJ. unfold tmid. push_iz.
  assert (~ inject_Z jerk == 0)%Q by (intros C; change 0%Q with (inject_Z 0) in C; apply eq_Q_eq in C || (rewrite inject_Z_injective in C; lia); lia).
  change (inject_Z 2) with 2%Q. field. exact H.
Qed.
Lemma pos_den_sign (n d : Z) : 0 < d ->
  ((0 < iz n * / iz d)%Q <-> 0 < n) /\ ((iz n * / iz d < 0)%Q <-> n < 0).
Proof.
  intros Hd. unfold iz.
  assert (P : (0 < / inject_Z d)%Q) by (apply Qinv_lt_0_compat; change 0%Q with (inject_Z 0); rewrite <- Zlt_Qlt; exact Hd).
  split; split; intros H.
  - destruct (Z_lt_le_dec 0 n) as [L|L]; [exact L|exfalso].
    assert (inject_Z n <= 0)%Q by (change 0%Q with (inject_Z 0); rewrite <- Zle_Qle; exact L).
    assert (inject_Z n * / inject_Z d <= 0 * / inject_Z d)%Q by (apply Qmult_le_compat_r; [assumption|lra]). lra.
  - apply Qmult_lt_0_compat; [|exact P]. change 0%Q with (inject_Z 0); rewrite <- Zlt_Qlt; exact H.
  - destruct (Z_lt_le_dec n 0) as [L|L]; [exact L|exfalso].
    assert (0 <= inject_Z n)%Q by (change 0%Q with (inject_Z 0); rewrite <- Zle_Qle; exact L).
    assert (0 <= inject_Z n * / inject_Z d)%Q by (apply Qmult_le_0_compat; lra). lra.
  - assert (0 < inject_Z (- n) * / inject_Z d)%Q.
    { apply Qmult_lt_0_compat; [|exact P]. change 0%Q with (inject_Z 0); rewrite <- Zlt_Qlt; lia. }
    rewrite inject_Z_opp in H0. lra.
Qed.
Lemma tmid_gt accel jerk h : 0 < jerk -> ((iz h / 2 < tmid accel jerk)%Q <-> jerk * h < jerk - 2 * accel).
Proof.
  intros HJ. pose proof (tmid_half accel jerk h HJ) as E.
  destruct (pos_den_sign (jerk - 2 * accel - jerk * h) (2 * jerk) ltac:(lia)) as [P _].
  split; intros H.
  - assert (0 < tmid accel jerk - iz h / 2)%Q by lra. rewrite E in H0. apply P in H0. lia.
  - assert (0 < tmid accel jerk - iz h / 2)%Q by (rewrite E; apply P; lia). lra.
Qed.
Lemma tmid_lt accel jerk h : 0 < jerk -> ((tmid accel jerk < iz h / 2)%Q <-> jerk - 2 * accel < jerk * h).
Proof.
  intros HJ. pose proof (tmid_half accel jerk h HJ) as E.
  destruct (pos_den_sign (jerk - 2 * accel - jerk * h) (2 * jerk) ltac:(lia)) as [_ P].
  split; intros H.
  - assert (tmid accel jerk - iz h / 2 < 0)%Q by lra. rewrite E in H0. apply P in H0. lia.
  - assert (tmid accel jerk - iz h / 2 < 0)%Q by (rewrite E; apply P; lia). lra.
Qed.
Lemma iz_half (n : Z) : (iz n == iz (2 * n) / 2)%Q.
Proof. push_iz. change (inject_Z 2) with 2%Q. field. Qed.

(* ---------- main theorem for J > 0 ---------- *)
Lemma max_rate_pos T rate accel jerk k : 0 < jerk -> 1 <= k <= T ->
  let re := t3_start rate accel jerk in
  let m := 2 * max_rate_t3 T rate accel jerk in
  - (m + 2 * jerk) <= D re accel jerk k <= m.
Proof.
  intros HJ Hk re m. subst m. unfold max_rate_t3. cbv zeta.
  rewrite (rate_t3_closed_Z 1) by lia.
  destruct (T <=? 1) eqn:ET.
  { apply Z.leb_le in ET. assert (k = 1) by lia. subst k. subst re. rewrite D_is_double. lia. }
  apply Z.leb_gt in ET. rewrite (rate_t3_closed_Z T) by lia.
  destruct (jerk =? 0) eqn:EJ; [apply Z.eqb_eq in EJ; lia|].
  fold (tmid accel jerk).
  pose proof (D_is_double rate accel jerk 1) as D1. pose proof (D_is_double rate accel jerk T) as DT.
  pose proof (D_is_double rate accel jerk k) as Dk. fold re in D1, DT, Dk.
  set (R1 := t3_rate_closed 1 rate accel jerk) in *. set (RT := t3_rate_closed T rate accel jerk) in *.
  destruct (Qltb (3 # 2) (tmid accel jerk) && Qltb (tmid accel jerk) (iz T - (3 # 2))) eqn:EC.
  - (* vertex strictly inside *)
    apply andb_true_iff in EC. destruct EC as [C1 C2]. apply Qltb_iff in C1, C2.
    set (c := Qceiling (tmid accel jerk)).
    assert (G1 : (iz (2 * (c - 1)) / 2 < tmid accel jerk)%Q).
    { rewrite <- iz_half. unfold iz, c. exact (Qceiling_lt (tmid accel jerk)). }
    assert (G2 : ~ (iz (2 * c) / 2 < tmid accel jerk)%Q).
    { rewrite <- iz_half. unfold iz, c. pose proof (Qle_ceiling (tmid accel jerk)). lra. }
    rewrite tmid_gt in G1 by exact HJ. rewrite tmid_gt in G2 by exact HJ.
    assert (C1' : (iz 3 / 2 < tmid accel jerk)%Q) by (setoid_replace (iz 3 / 2)%Q with (3#2)%Q by reflexivity; exact C1).
    assert (C2' : (tmid accel jerk < iz (2 * T - 3) / 2)%Q).
    { setoid_replace (iz (2 * T - 3) / 2)%Q with (iz T - (3#2))%Q; [exact C2|]. push_iz. change (inject_Z 2) with 2%Q. change (inject_Z (-3)) with (-3)%Q. field. }
    rewrite tmid_gt in C1' by exact HJ. rewrite tmid_lt in C2' by exact HJ.
    assert (Hc : 2 <= c <= T - 1) by nia.
    rewrite (rate_t3_closed_Z c) by lia.
    pose proof (D_is_double rate accel jerk c) as Dc. fold re in Dc.
    set (Rc := t3_rate_closed c rate accel jerk) in *.
    split.
    + pose proof (near_vertex re accel jerk c k HJ ltac:(lia)). lia.
    + apply (upper_by_ends re accel jerk T k); try assumption; lia.
  - (* vertex near an end or outside *)
    apply andb_false_iff in EC.
    assert (Cs : - accel <= jerk \/ (T - 2) * jerk <= - accel).
    { destruct EC as [C|C]; apply Qltb_false in C.
      - left. assert (N : ~ (iz 3 / 2 < tmid accel jerk)%Q) by (setoid_replace (iz 3 / 2)%Q with (3#2)%Q by reflexivity; lra).
        rewrite tmid_gt in N by exact HJ. lia.
      - right. assert (N : ~ (tmid accel jerk < iz (2 * T - 3) / 2)%Q).
        { setoid_replace (iz (2 * T - 3) / 2)%Q with (iz T - (3#2))%Q; [lra|]. push_iz. change (inject_Z 2) with 2%Q. change (inject_Z (-3)) with (-3)%Q. field. }
        rewrite tmid_lt in N by exact HJ. lia. }
    split.
    + destruct Cs as [Ca|Cb].
      * pose proof (mono_after re accel jerk T k HJ Ca ltac:(lia) Hk). lia.
      * pose proof (dip_at_end re accel jerk T k HJ Cb Hk). lia.
    + apply (upper_by_ends re accel jerk T k); try assumption; lia.
Qed.

(* ---------- symmetry under negation of (rate, accel, jerk) ---------- *)
Lemma closed_neg k rate accel jerk :
  t3_rate_closed k (-rate) (-accel) (-jerk) = - t3_rate_closed k rate accel jerk.
Proof. unfold t3_rate_closed, t3_start. rewrite !Z.quot_opp_l by lia. ring. Qed.
Lemma Qltb_comp x x' y y' : (x == x')%Q -> (y == y')%Q -> Qltb x y = Qltb x' y'.
Proof.
  intros Ex Ey. destruct (Qltb x' y') eqn:F.
  - apply Qltb_iff in F. apply Qltb_iff. rewrite Ex, Ey. exact F.
  - apply Qltb_false in F. apply Qltb_false. rewrite Ex, Ey. exact F.
Qed.
Lemma tmid_neg accel jerk : jerk <> 0 -> (tmid (-accel) (-jerk) == tmid accel jerk)%Q.
Proof.
  intros HJ. unfold tmid, iz. rewrite !inject_Z_opp.
  assert (~ inject_Z jerk == 0)%Q by (intros C; change 0%Q with (inject_Z 0) in C; rewrite inject_Z_injective in C; lia).
  field. exact H.
Qed.
Lemma max_rate_neg T rate accel jerk : jerk <> 0 ->
  max_rate_t3 T (-rate) (-accel) (-jerk) = max_rate_t3 T rate accel jerk.
Proof.
  intros HJ. unfold max_rate_t3. cbv zeta.
  rewrite !(rate_t3_closed_Z 1) by lia. rewrite closed_neg, Z.abs_opp.
  destruct (T <=? 1) eqn:ET; [reflexivity|]. apply Z.leb_gt in ET.
  rewrite !(rate_t3_closed_Z T) by lia. rewrite closed_neg, Z.abs_opp.
  destruct (- jerk =? 0) eqn:E1; [apply Z.eqb_eq in E1; lia|].
  destruct (jerk =? 0) eqn:E2; [apply Z.eqb_eq in E2; lia|].
  fold (tmid (-accel) (-jerk)). fold (tmid accel jerk).
  pose proof (tmid_neg accel jerk HJ) as TN.
  rewrite (Qltb_comp (3#2) (3#2) _ _ (Qeq_refl _) TN).
  rewrite (Qltb_comp _ _ (iz T - (3#2)) (iz T - (3#2)) TN (Qeq_refl _)).
  rewrite (Qceiling_comp _ _ TN).
  destruct (Qltb (3 # 2) (tmid accel jerk) && Qltb (tmid accel jerk) (iz T - (3 # 2))) eqn:EC; [|reflexivity].
  apply andb_true_iff in EC. destruct EC as [C1 _]. apply Qltb_iff in C1.
  assert (1 <= Qceiling (tmid accel jerk)).
  { pose proof (Qle_ceiling (tmid accel jerk)) as L.
    assert ((inject_Z 1 < inject_Z (Qceiling (tmid accel jerk)))%Q) by (change (inject_Z 1) with 1%Q; lra).
    rewrite <- Zlt_Qlt in H. lia. }
  rewrite !(rate_t3_closed_Z (Qceiling (tmid accel jerk))) by lia. rewrite closed_neg, Z.abs_opp. reflexivity.
Qed.

(* ---------- the three clauses of C17 ---------- *)
Theorem max_rate_within_jerk T rate accel jerk k : 1 <= k <= T ->
  Z.abs (t3_rate_closed k rate accel jerk) <= max_rate_t3 T rate accel jerk + Z.abs jerk.
Proof.
  intros Hk. pose proof (D_is_double rate accel jerk k) as Dk.
  destruct (Z.lt_trichotomy jerk 0) as [HJ|[HJ|HJ]].
  - pose proof (max_rate_pos T (-rate) (-accel) (-jerk) k ltac:(lia) Hk) as P. cbv zeta in P.
    rewrite max_rate_neg in P by lia.
    assert (E : t3_start (-rate) (-accel) (-jerk) = - t3_start rate accel jerk) by (unfold t3_start; rewrite !Z.quot_opp_l by lia; ring).
    rewrite E, D_neg in P. lia.
  - subst jerk. unfold max_rate_t3. cbv zeta. rewrite (rate_t3_closed_Z 1) by lia.
    destruct (T <=? 1) eqn:ET.
    { apply Z.leb_le in ET. assert (k = 1) by lia. subst k. lia. }
    apply Z.leb_gt in ET. rewrite (rate_t3_closed_Z T) by lia. cbn [Z.eqb].
    pose proof (D_is_double rate accel 0 1) as D1. pose proof (D_is_double rate accel 0 T) as DT.
    destruct (linear_between (t3_start rate accel 0) accel T k Hk); lia.
  - pose proof (max_rate_pos T rate accel jerk k HJ Hk) as P. cbv zeta in P. lia.
Qed.

Theorem max_rate_is_a_tick T rate accel jerk : 1 <= T ->
  exists k, 1 <= k <= T /\ max_rate_t3 T rate accel jerk = Z.abs (t3_rate_closed k rate accel jerk).
Proof.
  intros HT. unfold max_rate_t3. cbv zeta. rewrite (rate_t3_closed_Z 1) by lia.
  destruct (T <=? 1) eqn:ET; [exists 1; split; [lia|reflexivity]|]. apply Z.leb_gt in ET.
  rewrite (rate_t3_closed_Z T) by lia.
  set (v1 := Z.abs (t3_rate_closed 1 rate accel jerk)). set (vT := Z.abs (t3_rate_closed T rate accel jerk)).
  assert (Ends : exists k, 1 <= k <= T /\ Z.max v1 vT = Z.abs (t3_rate_closed k rate accel jerk)).
  { destruct (Z.max_spec v1 vT) as [[_ ->]|[_ ->]]; [exists T|exists 1]; split; try lia; reflexivity. }
  destruct (jerk =? 0); [exact Ends|].
  fold (tmid accel jerk).
  destruct (Qltb (3 # 2) (tmid accel jerk) && Qltb (tmid accel jerk) (iz T - (3 # 2))) eqn:EC; [|exact Ends].
  apply andb_true_iff in EC. destruct EC as [C1 C2]. apply Qltb_iff in C1, C2.
  set (c := Qceiling (tmid accel jerk)).
  assert (Hc : 2 <= c <= T - 1).
  { pose proof (Qle_ceiling (tmid accel jerk)) as L. pose proof (Qceiling_lt (tmid accel jerk)) as U. fold c in L, U.
    assert ((inject_Z 1 < inject_Z c)%Q) by (change (inject_Z 1) with 1%Q; lra).
    assert ((inject_Z (c - 1) < inject_Z (T - 1))%Q).
    { eapply Qlt_trans; [exact U|]. unfold Z.sub. rewrite inject_Z_plus, inject_Z_opp. change (inject_Z 1) with 1%Q. unfold iz in C2. lra. }
    rewrite <- Zlt_Qlt in H, H0. lia. }
  rewrite (rate_t3_closed_Z c) by lia.
  destruct (Z.max_spec (Z.max v1 vT) (Z.abs (t3_rate_closed c rate accel jerk))) as [[_ ->]|[_ ->]].
  - exists c. split; [lia|reflexivity].
  - exact Ends.
Qed.

Theorem max_rate_ge_ends T rate accel jerk : 1 <= T ->
  Z.abs (t3_rate_closed 1 rate accel jerk) <= max_rate_t3 T rate accel jerk /\
  Z.abs (t3_rate_closed T rate accel jerk) <= max_rate_t3 T rate accel jerk.
Proof.
  intros HT. unfold max_rate_t3. cbv zeta. rewrite (rate_t3_closed_Z 1) by lia.
  destruct (T <=? 1) eqn:ET.
  { apply Z.leb_le in ET. assert (T = 1) by lia. subst T. lia. }
  apply Z.leb_gt in ET. rewrite (rate_t3_closed_Z T) by lia.
  destruct (jerk =? 0); [lia|].
  destruct (_ && _); lia.
Qed.

(* ---------- the same, stated against the tick-by-tick recurrence ---------- *)
Lemma spec_rate_closed (k : nat) rate accel jerk : (1 <= k)%nat ->
  t3_spec_rate k rate accel jerk = t3_rate_closed (Z.of_nat k) rate accel jerk.
Proof. intros H. symmetry. apply (proj2 (t3_closed_spec k rate accel jerk None)). exact H. Qed.

Theorem peak_within_jerk (T k : nat) rate accel jerk : (1 <= k <= T)%nat ->
  Z.abs (t3_spec_rate k rate accel jerk) <= max_rate_t3 (Z.of_nat T) rate accel jerk + Z.abs jerk.
Proof. intros H. rewrite spec_rate_closed by lia. apply max_rate_within_jerk. lia. Qed.

Theorem peak_is_a_tick (T : nat) rate accel jerk : (1 <= T)%nat ->
  exists k : nat, (1 <= k <= T)%nat /\ max_rate_t3 (Z.of_nat T) rate accel jerk = Z.abs (t3_spec_rate k rate accel jerk).
Proof.
  intros H. destruct (max_rate_is_a_tick (Z.of_nat T) rate accel jerk ltac:(lia)) as (k & Hk & E).
  exists (Z.to_nat k). split; [lia|]. rewrite spec_rate_closed by lia. rewrite Z2Nat.id by lia. exact E.
Qed.

Theorem peak_ge_ends (T : nat) rate accel jerk : (1 <= T)%nat ->
  Z.abs (t3_spec_rate 1 rate accel jerk) <= max_rate_t3 (Z.of_nat T) rate accel jerk /\
  Z.abs (t3_spec_rate T rate accel jerk) <= max_rate_t3 (Z.of_nat T) rate accel jerk.
Proof.
  intros H. rewrite !spec_rate_closed by lia. apply (max_rate_ge_ends (Z.of_nat T)). lia.
Qed.

Theorem limit_consequence (T k : nat) rate accel jerk : (1 <= k <= T)%nat ->
  max_rate_t3 (Z.of_nat T) rate accel jerk <= M31 ->
  Z.abs (t3_spec_rate k rate accel jerk) <= M31 + Z.abs jerk.
Proof. intros H L. pose proof (peak_within_jerk T k rate accel jerk H). lia. Qed.
