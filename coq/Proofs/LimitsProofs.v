From Plotink Require Import Base.Prelude Model.Limits.
Open Scope Q_scope.

(* the mathematical clamp: v inside -> v, below -> lo, above -> hi *)
Definition clamp_spec (v lo hi r : Q) : Prop :=
  (lo <= v <= hi -> r == v) /\ (v < lo -> r == lo) /\ (hi < v -> r == hi).

Ltac qcases :=
  repeat match goal with
  | |- context [Qltb ?a ?b] =>
      let E := fresh "E" in destruct (Qltb a b) eqn:E;
      [apply Qltb_iff in E | apply Qltb_false in E]
  end.

Lemma checkLimits_clamp v lo hi : lo <= hi -> clamp_spec v lo hi (fst (checkLimits v lo hi)).
Proof. intros H. unfold clamp_spec, checkLimits. qcases; cbn [fst]; repeat split; intros; lra. Qed.

Lemma checkLimits_in_range v lo hi : lo <= hi ->
  lo <= fst (checkLimits v lo hi) <= hi.
Proof. intros H. unfold checkLimits. qcases; cbn [fst]; lra. Qed.

Lemma checkLimits_flag v lo hi : lo <= hi ->
  (snd (checkLimits v lo hi) = true <-> (v < lo \/ hi < v)).
Proof. intros H. unfold checkLimits. qcases; cbn [snd]; split; intros; try discriminate; try reflexivity; lra. Qed.

Lemma checkLimitsTol_clamp v lo hi tol : lo <= hi ->
  clamp_spec v lo hi (fst (checkLimitsTol v lo hi tol)).
Proof. intros H. unfold clamp_spec, checkLimitsTol. qcases; cbn [fst]; repeat split; intros; lra. Qed.

Lemma checkLimitsTol_in_range v lo hi tol : lo <= hi ->
  lo <= fst (checkLimitsTol v lo hi tol) <= hi.
Proof. intros H. unfold checkLimitsTol. qcases; cbn [fst]; lra. Qed.

Lemma checkLimitsTol_flag v lo hi tol : lo <= hi -> 0 <= tol ->
  (snd (checkLimitsTol v lo hi tol) = true <-> (v < lo - tol \/ hi + tol < v)).
Proof. intros H Ht. unfold checkLimitsTol. qcases; cbn [snd]; split; intros; try discriminate; try reflexivity; lra. Qed.

Lemma constrainLimits_clamp v lo hi : lo <= hi -> clamp_spec v lo hi (constrainLimits v lo hi).
Proof.
  intros H. unfold clamp_spec, constrainLimits, pymax, pymin.
  destruct (Qltb v hi) eqn:E1; [apply Qltb_iff in E1 | apply Qltb_false in E1];
  match goal with |- context [Qltb lo ?x] => destruct (Qltb lo x) eqn:E2; [apply Qltb_iff in E2 | apply Qltb_false in E2] end;
  repeat split; intros; lra.
Qed.

Lemma constrainLimits_in_range v lo hi : lo <= hi -> lo <= constrainLimits v lo hi <= hi.
Proof.
  intros H. destruct (constrainLimits_clamp v lo hi H) as (A & B & C).
  destruct (Qlt_le_dec v lo) as [L|L]; [rewrite (B L); lra|].
  destruct (Qlt_le_dec hi v) as [U|U]; [rewrite (C U); lra|].
  rewrite (A (conj L U)). lra.
Qed.

(* the 2-D test is the conjunction of the tolerant checker's "no flag" on each coordinate *)
Lemma point_in_bounds_agrees x y xmin ymin xmax ymax tol :
  xmin <= xmax -> ymin <= ymax -> 0 <= tol ->
  point_in_bounds x y xmin ymin xmax ymax tol =
  negb (snd (checkLimitsTol x xmin xmax tol)) && negb (snd (checkLimitsTol y ymin ymax tol)).
Proof.
  intros Hx Hy Ht. unfold point_in_bounds, checkLimitsTol.
  qcases; cbn [snd negb andb]; try reflexivity; exfalso; lra.
Qed.

(* the clamped value is the nearer bound when outside *)
Lemma clamp_nearer v lo hi r : lo <= hi -> clamp_spec v lo hi r ->
  (v < lo -> Qabs (v - r) <= Qabs (v - hi)) /\ (hi < v -> Qabs (v - r) <= Qabs (v - lo)).
Proof.
  intros H (A & B & C). split; intros O.
  - rewrite (B O). apply Qabs_Qle_condition. split.
    + assert (Qabs (v - hi) == -(v - hi)) as -> by (apply Qabs_neg; lra). lra.
    + assert (Qabs (v - hi) == -(v - hi)) as -> by (apply Qabs_neg; lra). lra.
  - rewrite (C O). apply Qabs_Qle_condition. split.
    + assert (Qabs (v - lo) == v - lo) as -> by (apply Qabs_pos; lra). lra.
    + assert (Qabs (v - lo) == v - lo) as -> by (apply Qabs_pos; lra). lra.
Qed.
