From Plotink Require Import Base.Prelude Base.PyStr Model.Serial3 Model.Discovery.
From Coq Require Import Arith.
Open Scope Z_scope.

(* ---------- "the first element that ..." ---------- *)
Lemma find_first_split {A} (f : A -> bool) l x : List.find f l = Some x ->
  exists pre post, l = pre ++ x :: post /\ f x = true /\ forallb (fun y => negb (f y)) pre = true.
Proof.
  induction l as [|y l IH]; cbn [List.find]; [discriminate|]. destruct (f y) eqn:E.
  - intros H. injection H as <-. exists [], l. repeat split. exact E.
  - intros H. destruct (IH H) as (pre & post & -> & Fx & Fp). exists (y :: pre), post. repeat split; [exact Fx|]. cbn. rewrite E. exact Fp.
Qed.
Lemma find_none_all {A} (f : A -> bool) l : List.find f l = None -> forallb (fun y => negb (f y)) l = true.
Proof. induction l as [|y l IH]; cbn; [reflexivity|]. destruct (f y); [discriminate|]. intros H. cbn. apply IH, H. Qed.

(* first-board discovery: the first port whose description starts with the product name, otherwise the first whose hardware id
   starts with the vendor/product id, otherwise None *)
Theorem findPort_spec ports :
  match findPort ports with
  | Some d => exists pre p post, ports = pre ++ p :: post /\ d = dev p /\
               ((by_name p = true /\ forallb (fun y => negb (by_name y)) pre = true) \/
                (by_vidpid p = true /\ forallb (fun y => negb (by_name y)) ports = true /\ forallb (fun y => negb (by_vidpid y)) pre = true))
  | None => forallb (fun y => negb (is_ebb_port y)) ports = true
  end.
Proof.
  unfold findPort, find_first. fold by_name.
  change (fun p : portinfo => startswith (snd (fst p)) (T "EiBotBoard")) with by_name.
  change (fun p : portinfo => startswith (snd p) (T "USB VID:PID=04D8:FD92")) with by_vidpid.
  destruct (List.find by_name ports) as [p|] eqn:E1.
  - destruct (find_first_split _ _ _ E1) as (pre & post & -> & F & G). exists pre, p, post. split; [reflexivity|]. split; [reflexivity|]. left. split; assumption.
  - pose proof (find_none_all _ _ E1) as N1.
    destruct (List.find by_vidpid ports) as [p|] eqn:E2.
    + destruct (find_first_split _ _ _ E2) as (pre & post & Ep & F & G). exists pre, p, post. split; [exact Ep|]. split; [reflexivity|]. right. repeat split; assumption.
    + pose proof (find_none_all _ _ E2) as N2. rewrite forallb_forall in *. intros y Hy. unfold is_ebb_port.
      specialize (N1 y Hy). specialize (N2 y Hy). apply negb_true_iff in N1, N2. rewrite N1, N2. reflexivity.
Qed.

(* board listing: exactly the ports matching either test, in order; None when there is none *)
Theorem list_ebb_ports_spec ports :
  match list_ebb_ports ports with
  | Some l => l = filter is_ebb_port ports /\ l <> []
  | None => filter is_ebb_port ports = []
  end.
Proof. unfold list_ebb_ports. destruct (filter is_ebb_port ports); [reflexivity|split; [reflexivity|discriminate]]. Qed.

(* lookup: the device of the first port answering to the name; never a port that is not in the list *)
Theorem find_named_spec legacy ports n :
  match find_named_l legacy ports (Some n) with
  | Some d => exists pre p post, ports = pre ++ p :: post /\ d = dev p /\ matches legacy n p = true /\
              forallb (fun y => negb (matches legacy n y)) pre = true
  | None => forallb (fun y => negb (matches legacy n y)) ports = true
  end.
Proof.
  unfold find_named_l. destruct (List.find (matches legacy n) ports) as [p|] eqn:E.
  - destruct (find_first_split _ _ _ E) as (pre & post & -> & F & G). exists pre, p, post. repeat split; assumption.
  - apply find_none_all, E.
Qed.

(* ---------- text lemmas ---------- *)
Lemma startswith_refl s : startswith s s = true.
Proof. induction s as [|c s IH]; cbn; [reflexivity|]. rewrite Z.eqb_refl. exact IH. Qed.
Lemma startswith_app s t : startswith (s ++ t) s = true.
Proof. induction s as [|c s IH]; cbn; [destruct t; reflexivity|]. rewrite Z.eqb_refl. exact IH. Qed.
Lemma contains_here s t : contains (s ++ t) s = true.
Proof. pose proof (startswith_app s t) as H. destruct (s ++ t) eqn:E; cbn [contains]; rewrite H; reflexivity. Qed.
Lemma contains_skip pre s p : contains s p = true -> contains (pre ++ s) p = true.
Proof. induction pre as [|c pre IH]; intros H; [exact H|]. cbn [app contains]. rewrite (IH H). apply orb_true_r. Qed.
Lemma contains_mid pre p post : contains (pre ++ p ++ post) p = true.
Proof. apply contains_skip, contains_here. Qed.
Lemma lower_app a b : lower (a ++ b) = lower a ++ lower b.
Proof. unfold lower. apply map_app. Qed.
Lemma lower_skipn n s : lower (skipn n s) = skipn n (lower s).
Proof. unfold lower. revert s. induction n; intros [|c s]; cbn; try reflexivity. apply IHn. Qed.
Lemma lower_firstn n s : lower (firstn n s) = firstn n (lower s).
Proof. unfold lower. revert s. induction n; intros [|c s]; cbn; try reflexivity. f_equal. apply IHn. Qed.

(* the name matters only up to letter case *)
Theorem matches_case_insensitive legacy n n' p : lower n = lower n' -> matches legacy n p = matches legacy n' p.
Proof. intros H. unfold matches. rewrite !lower_app, H. reflexivity. Qed.

(* find_from locates an occurrence *)
Lemma find_from_split p : forall s i k, find_from s p i = k -> 0 <= i -> i <= k ->
  exists pre post, s = pre ++ p ++ post /\ Z.of_nat (length pre) = k - i.
Proof.
  induction s as [|c s IH]; intros i k H Hi Hk; cbn [find_from] in H.
  - destruct (startswith [] p) eqn:E; [|lia]. destruct p; [|discriminate]. exists [], []. split; [reflexivity|cbn; lia].
  - destruct (startswith (c :: s) p) eqn:E.
    + subst k. exists []. 
      assert (S : forall (s p : text), startswith s p = true -> exists post, s = p ++ post).
      { clear. intros s p; revert s. induction p as [|a p IHp]; intros s H; [exists s; reflexivity|].
        destruct s as [|b s]; [discriminate|]. cbn in H. apply andb_true_iff in H. destruct H as [H1 H2]. apply Z.eqb_eq in H1. subst b.
        destruct (IHp s H2) as (post & ->). exists post. reflexivity. }
      destruct (S _ _ E) as (post & ->). exists post. split; [reflexivity|cbn; lia].
    + destruct (Z.eq_dec k (-1)); [lia|].
      assert (Hk' : i + 1 <= k).
      { (* find_from never returns less than its start index unless -1 *)
        assert (G : forall s i, 0 <= i -> find_from s p i = -1 \/ i <= find_from s p i).
        { clear. induction s as [|c s IH]; intros i Hi; cbn [find_from]; [destruct (startswith [] p); lia|].
          destruct (startswith (c :: s) p); [lia|]. destruct (IH (i + 1) ltac:(lia)); lia. }
        destruct (G s (i + 1) ltac:(lia)); lia. }
      destruct (IH (i + 1) k H ltac:(lia) Hk') as (pre & post & -> & L). exists (c :: pre), post. split; [reflexivity|cbn [length]; lia].
Qed.


Lemma contains_find p : forall s i, 0 <= i -> contains s p = true -> i <= find_from s p i.
Proof.
  induction s as [|c s IH]; intros i Hi H; cbn [find_from contains] in *.
  - rewrite orb_false_r in H. rewrite H. lia.
  - destruct (startswith (c :: s) p); [lia|]. cbn [orb] in H. specialize (IH (i + 1) ltac:(lia) H). lia.
Qed.

(* the text right after an occurrence of [key]: any prefix of it, glued to the key, occurs in the string (in lower case too) *)
Lemma tag_occurs (key p2 : text) (m : nat) : contains p2 key = true ->
  contains (lower p2) (lower (key ++ firstn m (skipn (Z.to_nat (find p2 key 0 + Z.of_nat (length key))) p2))) = true.
Proof.
  intros Hc. unfold find. cbn [Z.to_nat skipn].
  pose proof (contains_find key p2 0 ltac:(lia) Hc) as Hk.
  destruct (find_from_split key p2 0 (find_from p2 key 0) eq_refl ltac:(lia) Hk) as (pre & post & E & L).
  assert (SK : skipn (Z.to_nat (find_from p2 key 0 + Z.of_nat (length key))) p2 = post).
  { rewrite E at 2. replace (Z.to_nat (find_from p2 key 0 + Z.of_nat (length key))) with (length pre + length key)%nat by lia.
    rewrite app_assoc. rewrite <- app_length. rewrite skipn_app, skipn_all, Nat.sub_diag. reflexivity. }
  rewrite SK. rewrite E at 1.
  rewrite <- (firstn_skipn m post) at 1. rewrite (app_assoc key), !lower_app.
  rewrite <- lower_app. apply contains_mid.
Qed.

(* every name the library reports for a port finds that port (in any letter case: matches_case_insensitive) *)
Theorem matches_own_name legacy p : matches legacy (name_of legacy p) p = true.
Proof.
  unfold name_of. cbv zeta.
  destruct (if by_name p then skipn 11 (desc p) else []) as [|c r] eqn:E1.
  2:{ (* the part of the description after "EiBotBoard," *)
    destruct (by_name p); [|discriminate]. rewrite <- E1. unfold matches. rewrite lower_skipn, startswith_refl. rewrite !orb_true_r. reflexivity. }
  set (p2 := hwid p).
  destruct (contains p2 (T "SER=") && contains p2 (T " LOCAT")) eqn:E2.
  - apply andb_true_iff in E2. destruct E2 as [C1 C2].
    set (i1 := find p2 (T "SER=") 0 + 4). set (i2 := find p2 (T " LOCAT") i1).
    assert (SL : exists m, pyslice p2 i1 i2 = firstn m (skipn (Z.to_nat i1) p2)).
    { unfold pyslice. destruct (i2 <? 0); eexists; reflexivity. }
    destruct SL as [m SL].
    destruct (length (pyslice p2 i1 i2) <? 3)%nat eqn:E3.
    + (* tag too short: fall through to SNR / device *)
      destruct (legacy && contains p2 (T "SNR=")) eqn:E4.
      * apply andb_true_iff in E4. destruct E4 as [-> C3].
        destruct (length (skipn (Z.to_nat (find p2 (T "SNR=") 0 + 4)) p2) <? 3)%nat eqn:E5.
        -- unfold matches. rewrite startswith_refl. rewrite !orb_true_r. reflexivity.
        -- destruct (skipn (Z.to_nat (find p2 (T "SNR=") 0 + 4)) p2) as [|c r] eqn:E6; [cbn in E5; discriminate|].
           unfold matches. cbn [andb]. rewrite <- E6.
           pose proof (tag_occurs (T "SNR=") p2 (length p2) C3) as G. change (Z.of_nat (length (T "SNR="))) with 4 in G.
           rewrite firstn_all2 in G by (rewrite skipn_length; lia). fold p2. rewrite G. rewrite !orb_true_r. reflexivity.
      * unfold matches. rewrite startswith_refl. rewrite !orb_true_r. reflexivity.
    + destruct (pyslice p2 i1 i2) as [|c r] eqn:E6; [cbn in E3; discriminate|].
      unfold matches. rewrite SL. unfold i1.
      pose proof (tag_occurs (T "SER=") p2 m C1) as G. change (Z.of_nat (length (T "SER="))) with 4 in G. fold p2. rewrite G. reflexivity.
  - destruct (legacy && contains p2 (T "SNR=")) eqn:E4.
    + apply andb_true_iff in E4. destruct E4 as [-> C3].
      destruct (length (skipn (Z.to_nat (find p2 (T "SNR=") 0 + 4)) p2) <? 3)%nat eqn:E5.
      * unfold matches. rewrite startswith_refl. rewrite !orb_true_r. reflexivity.
      * destruct (skipn (Z.to_nat (find p2 (T "SNR=") 0 + 4)) p2) as [|c r] eqn:E6; [cbn in E5; discriminate|].
        unfold matches. cbn [andb]. rewrite <- E6.
        pose proof (tag_occurs (T "SNR=") p2 (length p2) C3) as G. change (Z.of_nat (length (T "SNR="))) with 4 in G.
        rewrite firstn_all2 in G by (rewrite skipn_length; lia). fold p2. rewrite G. rewrite !orb_true_r. reflexivity.
    + unfold matches. rewrite startswith_refl. rewrite !orb_true_r. reflexivity.
Qed.

(* consequently: looking a board up by the name the library reports for it returns that board's port unless an earlier port matches *)
Theorem lookup_own_name legacy pre p post n : lower n = lower (name_of legacy p) ->
  forallb (fun y => negb (matches legacy n y)) pre = true ->
  find_named_l legacy (pre ++ p :: post) (Some n) = Some (dev p).
Proof.
  intros Hn Hpre. unfold find_named_l.
  assert (M : matches legacy n p = true) by (rewrite (matches_case_insensitive legacy n _ p Hn); apply matches_own_name).
  induction pre as [|y pre IH]; cbn [app List.find].
  - rewrite M. reflexivity.
  - cbn [forallb] in Hpre. apply andb_true_iff in Hpre. destruct Hpre as [H1 H2]. apply negb_true_iff in H1. rewrite H1. exact (IH H2).
Qed.

(* the two layers: same first board, same listing; lookups differ only through the legacy SNR= tag *)
Theorem layers_agree n p : contains (lower (hwid p)) (lower (T "SNR=" ++ n)) = false -> matches true n p = matches false n p.
Proof. intros H. unfold matches. rewrite H. cbn [andb orb]. reflexivity. Qed.
Theorem legacy_finds_more n p : matches false n p = true -> matches true n p = true.
Proof.
  unfold matches. cbn [andb].
  destruct (contains (lower (hwid p)) (lower (T "SER=" ++ n))); destruct (contains (lower (hwid p)) (lower (T "SNR=" ++ n)));
  destruct (contains (lower (desc p)) (lower (T "(" ++ n ++ T ")"))); destruct (startswith (skipn 11 (lower (desc p))) (lower n));
  destruct (startswith (lower (dev p)) (lower n)); cbn [orb]; intros H; try reflexivity; discriminate H.
Qed.
