From Plotink Require Import Base.Prelude Base.PyStr Model.VbScale Spec.Svg.
Open Scope Q_scope.

Definition idq (x : Q) : Q := x.

Lemma div_le_cross a b c d : 0 < b -> 0 < d -> (a / b <= c / d <-> a * d <= c * b).
Proof.
  intros Hb Hd. split; intros H.
  - assert (a / b * (b * d) <= c / d * (b * d)) by (apply Qmult_le_compat_r; [exact H|apply Qlt_le_weak, Qmult_lt_0_compat; assumption]).
    setoid_replace (a / b * (b * d)) with (a * d) in H0 by (field; lra).
    setoid_replace (c / d * (b * d)) with (c * b) in H0 by (field; lra). exact H0.
  - apply Qle_shift_div_l; [exact Hd|].
    setoid_replace (a / b * d) with (a * d / b) by (field; lra).
    apply Qle_shift_div_r; [exact Hb|exact H].
Qed.

Theorem vb_core_svg a m min_x min_y w h dw dh : 0 < w -> 0 < h -> 0 < dw -> 0 < dh -> m <> MosOther ->
  svg_ok a m min_x min_y w h dw dh (vb_core idq a m min_x min_y w h dw dh).
Proof.
  intros Hw Hh Hdw Hdh Hm. unfold vb_core, svg_ok. unfold fadd, fsub, fmul, fdiv, idq.
  destruct a as [|xa ya].
  - cbv beta iota zeta. split; [|split; [|split]]; field; lra.
  - assert (X : h / w <= dh / dw <-> dw / w <= dh / h).
    { rewrite (div_le_cross h w dh dw Hw Hdw), (div_le_cross dw w dh h Hw Hh).
      split; intros; lra. }
    destruct m; [| |congruence]; cbv beta iota zeta.
    + (* meet *)
      destruct (Qleb (h / w) (dh / dw)) eqn:E; cbv beta iota zeta.
      * apply Qleb_iff in E. apply X in E.
        split; [reflexivity|]. split; [symmetry; apply Q.min_l; exact E|].
        split; [destruct xa; unfold axis_aligned; field; lra|]. destruct ya; unfold axis_aligned; field; lra.
      * apply Qleb_false in E. assert (E' : dh / h <= dw / w).
        { apply Qlt_le_weak. apply Qnot_le_lt. intros C. apply X in C. lra. }
        split; [reflexivity|]. split; [symmetry; apply Q.min_r; exact E'|].
        split; [destruct xa; unfold axis_aligned; field; lra|destruct ya; unfold axis_aligned; field; lra].
    + (* slice *)
      destruct (Qltb (dh / dw) (h / w)) eqn:E; cbv beta iota zeta.
      * apply Qltb_iff in E. assert (E' : dh / h <= dw / w).
        { apply Qlt_le_weak. apply Qnot_le_lt. intros C. apply X in C. lra. }
        split; [reflexivity|]. split; [symmetry; apply Q.max_l; exact E'|].
        split; [destruct xa; unfold axis_aligned; field; lra|]. destruct ya; unfold axis_aligned; field; lra.
      * apply Qltb_false in E. apply X in E.
        split; [reflexivity|]. split; [symmetry; apply Q.max_r; exact E|].
        split; [destruct xa; unfold axis_aligned; field; lra|destruct ya; unfold axis_aligned; field; lra].
Qed.

(* identity transform for a missing / short viewBox or non-positive sizes *)
Theorem vb_identity rnd b par dw dh :
  vb_scale rnd b None par dw dh = Ret (identity4) /\
  (forall vb, (length (split_ws (replace1 44%Z [32%Z] (strip vb))) < 4)%nat -> vb_scale rnd b (Some vb) par dw dh = Ret identity4).
Proof.
  split; [reflexivity|]. intros vb H. unfold vb_scale.
  destruct (split_ws _) as [|t0 [|t1 [|t2 [|t3 r]]]]; try reflexivity. cbn in H. lia.
Qed.

Theorem vb_nonpositive rnd b t0 t1 t2 t3 rest vb par dw dh a0 a1 a2 a3 :
  split_ws (replace1 44%Z [32%Z] (strip vb)) = t0 :: t1 :: t2 :: t3 :: rest ->
  parse_float t0 = Some a0 -> parse_float t1 = Some a1 -> parse_float t2 = Some a2 -> parse_float t3 = Some a3 ->
  (rnd a2 <= 0 \/ rnd a3 <= 0 \/ dw <= 0 \/ dh <= 0) ->
  vb_scale rnd b (Some vb) par dw dh = Ret identity4.
Proof.
  intros S P0 P1 P2 P3 H. unfold vb_scale. rewrite S, P0, P1, P2, P3.
  destruct (Qleb (rnd a2) 0) eqn:E2; [reflexivity|]. destruct (Qleb (rnd a3) 0) eqn:E3; [reflexivity|].
  apply Qleb_false in E2, E3. cbn [orb].
  destruct (Qleb dw 0) eqn:E4; [reflexivity|]. destruct (Qleb dh 0) eqn:E5; [reflexivity|].
  apply Qleb_false in E4, E5. exfalso. destruct H as [H|[H|[H|H]]]; lra.
Qed.

(* the repaired function never raises: a non-numeric token yields the identity *)
Theorem vb_no_raise rnd vb par dw dh : exists r, vb_scale rnd false vb par dw dh = Ret r.
Proof.
  unfold vb_scale. destruct vb as [vb|]; [|eexists; reflexivity].
  destruct (split_ws _) as [|t0 [|t1 [|t2 [|t3 r]]]]; try (eexists; reflexivity).
  destruct (parse_float t0), (parse_float t1), (parse_float t2), (parse_float t3); try (eexists; reflexivity).
  destruct (_ || _); [eexists; reflexivity|]. destruct (_ || _); [eexists; reflexivity|].
  destruct (parse_par par). eexists; reflexivity.
Qed.

(* the valid path: the result is the core on the parsed numbers and the parsed attribute *)
Theorem vb_scale_valid rnd b t0 t1 t2 t3 rest vb par dw dh a0 a1 a2 a3 :
  split_ws (replace1 44%Z [32%Z] (strip vb)) = t0 :: t1 :: t2 :: t3 :: rest ->
  parse_float t0 = Some a0 -> parse_float t1 = Some a1 -> parse_float t2 = Some a2 -> parse_float t3 = Some a3 ->
  0 < rnd a2 -> 0 < rnd a3 -> 0 < dw -> 0 < dh ->
  vb_scale rnd b (Some vb) par dw dh =
  Ret (vb_core rnd (align_of (fst (parse_par par))) (mos_of (snd (parse_par par))) (rnd a0) (rnd a1) (rnd a2) (rnd a3) dw dh).
Proof.
  intros S P0 P1 P2 P3 H2 H3 Hw Hh. unfold vb_scale. rewrite S, P0, P1, P2, P3.
  assert (E2 : Qleb (rnd a2) 0 = false) by (apply Qleb_false; exact H2).
  assert (E3 : Qleb (rnd a3) 0 = false) by (apply Qleb_false; exact H3).
  assert (E4 : Qleb dw 0 = false) by (apply Qleb_false; exact Hw).
  assert (E5 : Qleb dh 0 = false) by (apply Qleb_false; exact Hh).
  rewrite E2, E3, E4, E5. cbn [orb]. destruct (parse_par par). reflexivity.
Qed.

(* ---------- attribute parsing: the 10 x {meet, slice, absent} x {defer, -} canonical spellings, in lower, upper and mixed case,
   with space / comma / tab separators (a finite sweep evaluated by the kernel) ---------- *)
Local Open Scope Z_scope.
Definition all_al := [AMin; AMid; AMax].
Definition all_align : list align := ANone :: flat_map (fun x => map (AXY x) all_al) all_al.
Definition text_of_align (a : align) : text := match a with ANone => t_none | AXY x y => align_text x y end.
Definition upper_c (c : Z) : Z := if (97 <=? c) && (c <=? 122) then c - 32 else c.
Definition camel (t : text) : text := match t with c :: r => c :: map upper_c r | [] => [] end.   (* xMIDYMID-like mixed case *)
Definition variants (t : text) : list text := [t; map upper_c t; camel t].
Definition seps : list text := (32 :: nil) :: (44 :: nil) :: (9 :: nil) :: (32 :: 44 :: 32 :: nil) :: (10 :: 32 :: nil) :: nil.
Definition mos_opts : list (option mos) := [None; Some Meet; Some Slice].
Definition text_of_mos (m : mos) : text := match m with Meet => t_meet | Slice => t_slice | MosOther => [] end.
Definition align_eqb (a b : align) : bool :=
  match a, b with
  | ANone, ANone => true
  | AXY x y, AXY x' y' => (match x, x' with AMin, AMin | AMid, AMid | AMax, AMax => true | _, _ => false end) &&
                          (match y, y' with AMin, AMin | AMid, AMid | AMax, AMax => true | _, _ => false end)
  | _, _ => false end.
Definition mos_eqb (a b : mos) : bool := match a, b with Meet, Meet | Slice, Slice | MosOther, MosOther => true | _, _ => false end.
Definition parse_ok (a : align) (m : option mos) (s : text) : bool :=
  let '(pa, pm) := parse_par (Some s) in
  align_eqb (align_of pa) a && mos_eqb (mos_of pm) (match m with Some m => m | None => Meet end).
Definition sweep : bool :=
  forallb (fun a : align => forallb (fun m : option mos => forallb (fun sep : text => forallb (fun defer : bool =>
    forallb (fun av : text => forallb (fun mv : text => forallb (fun dv : text =>
      let body := av ++ match m with Some _ => sep ++ mv | None => [] end in
      let s := [32] ++ (if defer then dv ++ sep else []) ++ body ++ [32; 10] in
      parse_ok a m s)
      (variants t_defer)) (match m with Some m => variants (text_of_mos m) | None => (nil :: nil) end)) (variants (text_of_align a)))
    [true; false]) seps) mos_opts) all_align.
Lemma sweep_true : sweep = true.
Proof. vm_compute. reflexivity. Qed.
Lemma parse_absent : parse_par None = (t_xmidymid, t_meet) /\ align_of t_xmidymid = AXY AMid AMid /\ mos_of t_meet = Meet.
Proof. repeat split. Qed.
