(* int(accel / 2), int(jerk / 6) in the calculators: the quotient is a binary64 float and int() truncates it; the models use the truncating
   integer quotient Z.quot.  For every monotone rounding that fixes binary64 numbers the two agree (0 < d <= 1024, |n| <= 2^40). *)
From Plotink Require Import Base.Prelude Base.Rnd Model.EbbCalc Model.EbbCalcRnd Proofs.EbbCalcProofs Proofs.TmidFloat Proofs.RndProofs.
Open Scope Z_scope.

(* int(n / d) in Python: the quotient is a float, int() truncates it.  For 0 < d and |n| small enough the truncation of the rounded quotient
   is the truncating integer quotient Z.quot n d (which the models use): the rounded quotient cannot reach the next integer, because
   between n/d and that integer lies the binary64 number q + (2^k - 1)/2^k with 2^k >= d *)
Lemma Qtrunc_frac n d : 0 < d -> Qtrunc (iz n / iz d) = Z.quot n d.
Proof.
  intros Hd. unfold Qtrunc. destruct (Qltb (iz n / iz d) 0) eqn:E.
  - apply Qltb_iff in E. change 0%Q with (iz 0 / iz 1)%Q in E. apply (proj1 (Qdiv_lt_cross n d 0 1 Hd ltac:(lia))) in E.
    unfold Qceiling. assert (X : (- (iz n / iz d) == iz (- n) / iz d)%Q) by (unfold iz; rewrite inject_Z_opp; field; unfold Qeq; simpl; lia).
    rewrite (Qfloor_comp _ _ X), Qfloor_iz_div by exact Hd.
    rewrite <- (Z.opp_involutive n) at 2. rewrite Z.quot_opp_l by lia. rewrite Z.quot_div_nonneg by lia. reflexivity.
  - apply Qltb_false in E. change 0%Q with (iz 0 / iz 1)%Q in E. apply (proj1 (Qdiv_le_cross 0 1 n d ltac:(lia) Hd)) in E.
    rewrite Qfloor_iz_div by exact Hd. rewrite Z.quot_div_nonneg by lia. reflexivity.
Qed.

Lemma iz_pos' a : 0 < a -> (0 < iz a)%Q.
Proof. intros H. unfold iz. change 0%Q with (inject_Z 0). rewrite <- Zlt_Qlt. exact H. Qed.
Lemma floor_uniq y q : (inject_Z q <= y)%Q -> (y < inject_Z (q + 1))%Q -> Qfloor y = q.
Proof.
  intros L U. pose proof (Qfloor_le y) as A. pose proof (Qlt_floor y) as B.
  assert (X1 : (inject_Z q < inject_Z (Qfloor y + 1))%Q) by lra.
  assert (X2 : (inject_Z (Qfloor y) < inject_Z (q + 1))%Q) by lra.
  rewrite <- Zlt_Qlt in X1, X2. lia.
Qed.
Lemma ceil_uniq y c : (inject_Z (c - 1) < y)%Q -> (y <= inject_Z c)%Q -> Qceiling y = c.
Proof.
  intros L U. pose proof (Qle_ceiling y) as A. pose proof (Qceiling_lt y) as B.
  assert (X1 : (inject_Z (c - 1) < inject_Z (Qceiling y))%Q) by lra.
  assert (X2 : (inject_Z (Qceiling y - 1) < inject_Z c)%Q) by lra.
  rewrite <- Zlt_Qlt in X1, X2. lia.
Qed.

Section TruncRounded.
Variable rnd : Q -> Q.
Hypothesis rnd_exact : forall x, rep53 x -> (rnd x == x)%Q.
Hypothesis rnd_mono : forall x y, (x <= y)%Q -> (rnd x <= rnd y)%Q.

Lemma rep53_frac k n : 0 <= n -> Z.abs k < 2 ^ 53 -> rep53 (iz k / iz (2 ^ n)).
Proof. intros Hn Hk. exists k, n. repeat split; assumption || reflexivity. Qed.

Theorem trunc_rounded_quotient n d : 0 < d <= 2 ^ 10 -> Z.abs n <= 2 ^ 40 -> Qtrunc (rnd (iz n / iz d)) = Z.quot n d.
Proof.
  intros Hd Hn. change (2 ^ 10) with 1024 in Hd. change (2 ^ 40) with 1099511627776 in Hn.
  set (q := Z.quot n d). pose proof (Z.quot_rem' n d) as QR. pose proof (Z.rem_bound_abs n d ltac:(lia)) as RB. fold q in QR.
  set (k := Z.log2_up d). pose proof (pow2_log2_up d ltac:(lia)) as [P1 P2]. fold k in P1, P2. assert (Hk : 0 <= k) by apply Z.log2_up_nonneg. set (P := 2 ^ k) in *.
  assert (Bq : Z.abs q <= 1099511627776) by (unfold q; destruct (Z_le_gt_dec 0 n); [rewrite Z.quot_div_nonneg by lia; pose proof (Z.div_pos n d); pose proof (Z.div_le_upper_bound n d n ltac:(lia)); rewrite Z.abs_eq by (apply Z.div_pos; lia); nia|
                                                  pose proof (Z.quot_opp_l n d ltac:(lia)); pose proof (Z.quot_div_nonneg (- n) d ltac:(lia) ltac:(lia)); pose proof (Z.div_pos (- n) d ltac:(lia) ltac:(lia)); pose proof (Z.div_le_upper_bound (- n) d (- n) ltac:(lia)); nia]).
  assert (RQ : rep53 (iz q)) by (exists q, 0; split; [lia|]; split; [change (2 ^ 53) with 9007199254740992; lia|]; change (iz (2 ^ 0)) with 1%Q; unfold Qdiv; change (/ 1)%Q with 1%Q; ring).
  destruct (Z_le_gt_dec 0 n) as [Pn|Nn].
  - (* q <= n/d <= q + (P-1)/P *)
    assert (R0 : 0 <= Z.rem n d < d) by (pose proof (Z.rem_nonneg n d ltac:(lia) Pn); lia).
    assert (Q0 : 0 <= q) by (unfold q; apply Z.quot_pos; lia).
    assert (L : (iz q <= iz n / iz d)%Q) by (rewrite <- (Qdiv_le_cross q 1 n d ltac:(lia) ltac:(lia)) at 1 || idtac; apply Qle_shift_div_l; [apply iz_pos'; lia|]; unfold iz; rewrite <- inject_Z_mult, <- Zle_Qle; nia).
    set (M := q * P + (P - 1)).
    assert (RM : rep53 (iz M / iz P)) by (apply rep53_frac; [exact Hk|]; unfold M; change (2 ^ 53) with 9007199254740992; nia).
    assert (U : (iz n / iz d <= iz M / iz P)%Q) by (apply Qdiv_le_cross; [lia|lia|]; unfold M; nia).
    pose proof (rnd_mono _ _ L) as L'. rewrite (rnd_exact _ RQ) in L'. pose proof (rnd_mono _ _ U) as U'. rewrite (rnd_exact _ RM) in U'.
    assert (U2 : (iz M / iz P < inject_Z (q + 1))%Q).
    { assert (E : (inject_Z (q + 1) == iz (q + 1) / iz 1)%Q) by (unfold iz, Qdiv; change (/ inject_Z 1)%Q with 1%Q; ring). rewrite E. apply Qdiv_lt_cross; [lia|lia|]. unfold M. lia. }
    unfold Qtrunc. assert (NN : Qltb (rnd (iz n / iz d)) 0 = false).
    { apply Qltb_false. assert (0 <= iz q)%Q by (unfold iz; change 0%Q with (inject_Z 0); rewrite <- Zle_Qle; exact Q0). lra. }
    rewrite NN. apply floor_uniq; [exact L'|lra].
  - assert (R0 : - d < Z.rem n d <= 0) by (pose proof (Z.rem_nonpos n d ltac:(lia) ltac:(lia)); lia).
    assert (Q0 : q <= 0) by (unfold q; pose proof (Z.quot_opp_l n d ltac:(lia)); pose proof (Z.quot_pos (- n) d ltac:(lia) ltac:(lia)); lia).
    assert (U : (iz n / iz d <= iz q)%Q) by (apply Qle_shift_div_r; [apply iz_pos'; lia|]; unfold iz; rewrite <- inject_Z_mult, <- Zle_Qle; nia).
    set (M := q * P - (P - 1)).
    assert (RM : rep53 (iz M / iz P)) by (apply rep53_frac; [exact Hk|]; unfold M; change (2 ^ 53) with 9007199254740992; nia).
    assert (L : (iz M / iz P <= iz n / iz d)%Q) by (apply Qdiv_le_cross; [lia|lia|]; unfold M; nia).
    pose proof (rnd_mono _ _ U) as U'. rewrite (rnd_exact _ RQ) in U'. pose proof (rnd_mono _ _ L) as L'. rewrite (rnd_exact _ RM) in L'.
    assert (L2 : (inject_Z (q - 1) < iz M / iz P)%Q).
    { assert (E : (inject_Z (q - 1) == iz (q - 1) / iz 1)%Q) by (unfold iz, Qdiv; change (/ inject_Z 1)%Q with 1%Q; ring). rewrite E. apply Qdiv_lt_cross; [lia|lia|]. unfold M. lia. }
    unfold Qtrunc. destruct (Qltb (rnd (iz n / iz d)) 0) eqn:NN.
    + apply ceil_uniq; [lra|exact U'].
    + apply Qltb_false in NN. assert (q = 0) by (assert (X : (0 <= iz q)%Q) by lra; unfold iz in X; change 0%Q with (inject_Z 0) in X; rewrite <- Zle_Qle in X; lia).
      apply floor_uniq; [subst q; rewrite H in *; exact NN|rewrite H in *; change (inject_Z (0 + 1)) with 1%Q; change (iz 0) with 0%Q in U'; lra].
Qed.
End TruncRounded.
