(* C10: termination of subdivideCubicPath for every node list and every flat > 0 (exact arithmetic).
   The control polygon of a half is at most half as long (in every coordinate) as that of its parent; a piece whose
   control-polygon edges are short enough is flat; hence a piece is finished after boundedly many loop iterations. *)
From Plotink Require Import Base.Prelude Model.Simplify Model.Subdiv Proofs.SimplifyProofs Proofs.SubdivProofs.
From Coq Require Import Arith.
Open Scope Q_scope.

(* every coordinate of every edge of the control polygon is at most e in absolute value *)
Definition small (p : piece) (e : Q) : Prop :=
  let '(p0, p1, p2, p3) := p in
  Qabs (fst p1 - fst p0) <= e /\ Qabs (snd p1 - snd p0) <= e /\
  Qabs (fst p2 - fst p1) <= e /\ Qabs (snd p2 - snd p1) <= e /\
  Qabs (fst p3 - fst p2) <= e /\ Qabs (snd p3 - snd p2) <= e.

Ltac unabs := repeat match goal with
  | H : Qabs _ <= _ |- _ => apply Qabs_Qle_condition in H; destruct H
  | |- Qabs _ <= _ => apply Qabs_Qle_condition; split
  end.

Lemma small_halves p e : small p e -> small (split_left p) ((1 # 2) * e) /\ small (split_right p) ((1 # 2) * e).
Proof.
  destruct p as [[[[x0 y0] [x1 y1]] [x2 y2]] [x3 y3]]. unfold small, split_left, split_right, tpoint. cbn [fst snd].
  intros (H1 & H2 & H3 & H4 & H5 & H6). rewrite !Qred_correct.
  repeat split; unabs; lra.
Qed.

Lemma small_exists p : exists e, 0 <= e /\ small p e.
Proof.
  destruct p as [[[[x0 y0] [x1 y1]] [x2 y2]] [x3 y3]]. unfold small. cbn [fst snd].
  exists (Qabs (x1 - x0) + Qabs (y1 - y0) + Qabs (x2 - x1) + Qabs (y2 - y1) + Qabs (x3 - x2) + Qabs (y3 - y2)).
  pose proof (Qabs_nonneg (x1 - x0)). pose proof (Qabs_nonneg (y1 - y0)). pose proof (Qabs_nonneg (x2 - x1)).
  pose proof (Qabs_nonneg (y2 - y1)). pose proof (Qabs_nonneg (x3 - x2)). pose proof (Qabs_nonneg (y3 - y2)).
  repeat split; lra.
Qed.

Lemma sq_le_of_abs u e : Qabs u <= e -> u * u <= e * e.
Proof. intros H. apply Qabs_Qle_condition in H. destruct H. nra. Qed.

(* short control polygon => flat *)
Lemma small_flat flat p e : small p e -> 2 * (e * e) < flat * flat -> flat_piece flat p = true.
Proof.
  destruct p as [[[[x0 y0] [x1 y1]] [x2 y2]] [x3 y3]]. unfold small. cbn [fst snd]. intros (H1 & H2 & H3 & H4 & H5 & H6) Hf.
  unfold flat_piece. change [(x0, y0); (x1, y1); (x2, y2); (x3, y3)] with ((x0, y0) :: [(x1, y1); (x2, y2)] ++ [(x3, y3)]).
  apply pit_iff. repeat constructor.
  - exists 0. split; [lra|]. unfold d2_at.
    pose proof (sq_le_of_abs _ _ H1). pose proof (sq_le_of_abs _ _ H2).
    setoid_replace (x1 - (x0 + 0 * (x3 - x0))) with (x1 - x0) by ring. setoid_replace (y1 - (y0 + 0 * (y3 - y0))) with (y1 - y0) by ring. lra.
  - exists 1. split; [lra|]. unfold d2_at.
    pose proof (sq_le_of_abs _ _ H5). pose proof (sq_le_of_abs _ _ H6).
    setoid_replace (x2 - (x0 + 1 * (x3 - x0))) with (- (x3 - x2)) by ring. setoid_replace (y2 - (y0 + 1 * (y3 - y0))) with (- (y3 - y2)) by ring.
    setoid_replace (- (x3 - x2) * - (x3 - x2)) with ((x3 - x2) * (x3 - x2)) by ring.
    setoid_replace (- (y3 - y2) * - (y3 - y2)) with ((y3 - y2) * (y3 - y2)) by ring. lra.
Qed.

(* pow4 k = 4^k as a rational *)
Fixpoint pow4 (k : nat) : Q := match k with O => 1 | S k' => 4 * pow4 k' end.
Lemma pow4_pos k : 0 < pow4 k.
Proof. induction k; cbn [pow4]; lra. Qed.
Lemma pow4_ge1 k : 1 <= pow4 k.
Proof. induction k; cbn [pow4]; lra. Qed.
Lemma pow4_ge k : inject_Z (Z.of_nat k) <= pow4 k.
Proof.
  induction k as [|k IH]; cbn [pow4]; [unfold Qle; cbn; lia|]. rewrite Nat2Z.inj_succ. unfold Z.succ. rewrite inject_Z_plus.
  pose proof (pow4_ge1 k). change (inject_Z 1) with 1. lra.
Qed.

(* a piece needs at most k halvings *)
Definition lev (flat : Q) (p : piece) (k : nat) : Prop := exists e, 0 <= e /\ small p e /\ 2 * (e * e) < flat * flat * pow4 k.

Lemma lev_zero_flat flat p : lev flat p 0 -> flat_piece flat p = true.
Proof. intros (e & _ & S & H). cbn [pow4] in H. apply (small_flat flat p e S). lra. Qed.
Lemma lev_halves flat p k : lev flat p (S k) -> lev flat (split_left p) k /\ lev flat (split_right p) k.
Proof.
  intros (e & E0 & S & H). destruct (small_halves p e S) as [SL SR]. cbn [pow4] in H.
  split; exists ((1 # 2) * e); (split; [lra|]); (split; [assumption|]).
  all: setoid_replace (2 * ((1 # 2) * e * ((1 # 2) * e))) with ((1 # 4) * (2 * (e * e))) by ring; lra.
Qed.
Lemma lev_exists flat p : 0 < flat -> exists k, lev flat p k.
Proof.
  intros Hf. destruct (small_exists p) as (e & E0 & S).
  assert (F2 : 0 < flat * flat) by nra.
  set (x := 2 * (e * e) / (flat * flat)).
  exists (Z.to_nat (Qfloor x + 1)). exists e. split; [exact E0|]. split; [exact S|].
  assert (X0 : 0 <= x) by (unfold x; apply Qle_shift_div_l; [exact F2|nra]).
  assert (Hz : (0 <= Qfloor x + 1)%Z) by (apply Qfloor_resp_le in X0; change (Qfloor 0) with 0%Z in X0; lia).
  pose proof (pow4_ge (Z.to_nat (Qfloor x + 1))) as P. rewrite Z2Nat.id in P by exact Hz.
  pose proof (Qlt_floor x) as L.
  assert (x < pow4 (Z.to_nat (Qfloor x + 1))) by lra.
  assert (E : 2 * (e * e) == x * (flat * flat)) by (unfold x; field; lra).
  assert (H' : x * (flat * flat) < pow4 (Z.to_nat (Qfloor x + 1)) * (flat * flat)) by (apply Qmult_lt_compat_r; assumption).
  rewrite E. lra.
Qed.

(* ---------- one piece is finished after boundedly many iterations ---------- *)
Lemma pow2_ge1 m : (1 <= 2 ^ m)%nat.
Proof. induction m as [|m IH]; [cbn; lia|]. rewrite Nat.pow_succ_r'. lia. Qed.
Lemma go_piece flat : forall k a b, lev flat (piece_of a b) k ->
  forall acc rest, exists n acc' b', (n <= 2 ^ (k + 1) - 1)%nat /\ npt b' = npt b /\ hout b' = hout b /\
    forall fuel, go flat (n + fuel) acc a (b :: rest) = go flat fuel acc' b' rest.
Proof.
  induction k as [|k IH]; intros a b L acc rest.
  - exists 1%nat, (a :: acc), b. split; [cbn; lia|]. split; [reflexivity|]. split; [reflexivity|].
    intros fuel. cbn [Nat.add go]. rewrite (lev_zero_flat flat _ L). reflexivity.
  - destruct (flat_piece flat (piece_of a b)) eqn:F.
    + exists 1%nat, (a :: acc), b. split; [replace (S k + 1)%nat with (S (k + 1)) by lia; rewrite Nat.pow_succ_r'; pose proof (pow2_ge1 (k + 1)); lia|].
      split; [reflexivity|]. split; [reflexivity|]. intros fuel. cbn [Nat.add go]. rewrite F. reflexivity.
    + destruct (lev_halves flat _ k L) as [LL LR].
      remember (piece_of a b) as bl eqn:Ebl.
      destruct (split_left bl) as [[[l0 one1] one2] one3] eqn:EL.
      destruct (split_right bl) as [[[r0' two1] two2] r3] eqn:ER.
      set (a' := mknode (hin a) (npt a) one1). set (mid := mknode one2 one3 two1). set (b1 := mknode two2 (npt b) (hout b)).
      assert (HL : piece_of a' mid = split_left bl).
      { rewrite EL. unfold piece_of. cbn. subst bl. unfold split_left, piece_of in EL. cbn in EL. injection EL as E0 E1 E2 E3. rewrite <- E0. reflexivity. }
      rewrite EL in HL. rewrite <- HL in LL.
      destruct (IH a' mid LL acc (b1 :: rest)) as (n1 & acc1 & mid' & N1 & M1 & M2 & G1).
      assert (HR : piece_of mid' b1 = split_right bl).
      { rewrite ER. unfold piece_of. rewrite M1, M2. cbn. subst bl. unfold split_right, split_left, piece_of in *. cbn in *.
        injection EL as E0 E1 E2 E3. injection ER as F0 F1 F2 F3. rewrite <- F3, <- F0, <- E3. reflexivity. }
      rewrite ER in HR. rewrite <- HR in LR.
      destruct (IH mid' b1 LR acc1 rest) as (n2 & acc2 & b2 & N2 & B1 & B2 & G2).
      exists (1 + n1 + n2)%nat, acc2, b2.
      split. { replace (S k + 1)%nat with (S (k + 1)) by lia. rewrite Nat.pow_succ_r'. pose proof (pow2_ge1 (k + 1)). lia. }
      split; [rewrite B1; reflexivity|]. split; [rewrite B2; reflexivity|].
      intros fuel. replace (1 + n1 + n2 + fuel)%nat with (S (n1 + (n2 + fuel))) by lia. cbn [go].
      rewrite <- Ebl, F, EL, ER. fold a' mid b1. rewrite G1, G2. reflexivity.
Qed.

(* ---------- the whole path ---------- *)
Theorem go_terminates flat : 0 < flat -> forall rest a acc, exists n out, forall fuel, go flat (n + fuel) acc a rest = Some out.
Proof.
  intros Hf. induction rest as [|b rest IH]; intros a acc.
  - exists 1%nat, (rev (a :: acc)). intros fuel. reflexivity.
  - destruct (lev_exists flat (piece_of a b) Hf) as (k & L).
    destruct (go_piece flat k a b L acc rest) as (n1 & acc1 & b1 & _ & _ & _ & G1).
    destruct (IH b1 acc1) as (n2 & out & G2).
    exists (n1 + n2)%nat, out. intros fuel. rewrite <- Nat.add_assoc, G1. apply G2.
Qed.

Theorem subdivide_terminates flat sp : 0 < flat -> exists fuel out, forall g, (fuel <= g)%nat -> subdivide flat g sp = Some out.
Proof.
  intros Hf. destruct sp as [|a rest]; [exists 0%nat, []; reflexivity|].
  destruct (go_terminates flat Hf rest a []) as (n & out & G). exists n, out. intros g Hg.
  replace g with (n + (g - n))%nat by lia. apply G.
Qed.
