(* C17: the O(1) peak used by the correspondence check to judge outputs (Corr/C17.v: t3_peak) IS the largest absolute
   rate over ticks 1..T of the third-order recurrence, for all integers. *)
From Plotink Require Import Base.Prelude Spec.Firmware Model.EbbCalc Proofs.EbbCalcProofs Proofs.EbbClosed Corr.C02 Corr.C17 Proofs.PeakProofs.
Open Scope Z_scope.

(* D k - D m = (k - m) (2A + J (k + m - 1)) *)
Lemma D_diff re A J k m : D re A J k - D re A J m = (k - m) * (2 * A + J * (k + m - 1)).
Proof. unfold D. ring. Qed.

(* convex case: every tick is at least the smaller of the two ticks around the vertex (clamped into 1..T) *)
Lemma lower_by_vertex re A J T f k : 0 < J -> 2 * J * f <= J - 2 * A < 2 * J * (f + 1) -> 1 <= k <= T ->
  D re A J (clampk T f) <= D re A J k \/ D re A J (clampk T (f + 1)) <= D re A J k.
Proof.
  intros HJ [H1 H2] Hk. destruct (Z_le_gt_dec (f + 1) k) as [Hge|Hlt].
  - right. set (m := clampk T (f + 1)). assert (Hm : f + 1 <= m <= k) by (unfold m, clampk; lia).
    pose proof (D_diff re A J k m) as E.
    assert (0 <= (k - m) * (2 * A + J * (k + m - 1))).
    { destruct (Z.eq_dec k m) as [->|Hne]; [lia|]. apply Z.mul_nonneg_nonneg; [lia|].
      assert (J * (2 * f + 1) <= J * (k + m - 1)) by (apply Z.mul_le_mono_nonneg_l; lia). lia. }
    lia.
  - left. set (m := clampk T f). assert (Hm : k <= m <= f) by (unfold m, clampk; lia).
    pose proof (D_diff re A J k m) as E.
    assert (0 <= (m - k) * (- (2 * A + J * (k + m - 1)))).
    { destruct (Z.eq_dec k m) as [->|Hne]; [lia|]. apply Z.mul_nonneg_nonneg; [lia|].
      assert (J * (k + m - 1) <= J * (2 * f - 2)) by (apply Z.mul_le_mono_nonneg_l; lia). lia. }
    lia.
Qed.

Lemma absD_bound_pos re A J T k : 0 < J -> 1 <= k <= T ->
  let f := (J - 2 * A) / (2 * J) in
  Z.abs (D re A J k) <= Z.max (Z.max (Z.abs (D re A J 1)) (Z.abs (D re A J T)))
                              (Z.max (Z.abs (D re A J (clampk T f))) (Z.abs (D re A J (clampk T (f + 1))))).
Proof.
  intros HJ Hk f.
  assert (Hf : 2 * J * f <= J - 2 * A < 2 * J * (f + 1)).
  { unfold f. pose proof (Z.div_mod (J - 2 * A) (2 * J) ltac:(lia)). pose proof (Z.mod_pos_bound (J - 2 * A) (2 * J) ltac:(lia)). lia. }
  pose proof (upper_by_ends re A J T k (Z.max (D re A J 1) (D re A J T)) HJ Hk ltac:(lia) ltac:(lia)) as U.
  destruct (lower_by_vertex re A J T f k HJ Hf Hk) as [L|L]; lia.
Qed.

Lemma absD_bound re A J T k : J <> 0 -> 1 <= k <= T ->
  let f := (J - 2 * A) / (2 * J) in
  Z.abs (D re A J k) <= Z.max (Z.max (Z.abs (D re A J 1)) (Z.abs (D re A J T)))
                              (Z.max (Z.abs (D re A J (clampk T f))) (Z.abs (D re A J (clampk T (f + 1))))).
Proof.
  intros HJ Hk. destruct (Z_lt_ge_dec 0 J) as [Hp|Hn]; [apply absD_bound_pos; assumption|].
  pose proof (absD_bound_pos (- re) (- A) (- J) T k ltac:(lia) Hk) as H. cbv zeta in H.
  rewrite !D_neg, !Z.abs_opp in H.
  replace ((- J - 2 * - A) / (2 * - J)) with ((J - 2 * A) / (2 * J)) in H.
  - exact H.
  - replace (- J - 2 * - A) with (- (J - 2 * A)) by ring. replace (2 * - J) with (- (2 * J)) by ring. symmetry. apply Z.div_opp_opp. lia.
Qed.

Lemma absD_bound_zero re A T k : 1 <= k <= T -> Z.abs (D re A 0 k) <= Z.max (Z.abs (D re A 0 1)) (Z.abs (D re A 0 T)).
Proof. intros Hk. destruct (linear_between re A T k Hk); lia. Qed.

Lemma abs_rate_D rate accel jerk k : 2 * Z.abs (t3_rate_closed k rate accel jerk) = Z.abs (D (t3_start rate accel jerk) accel jerk k).
Proof. rewrite D_is_double, Z.abs_mul. reflexivity. Qed.

(* the oracle is an upper bound of every tick's absolute rate ... *)
Theorem t3_peak_upper T rate accel jerk k : 1 <= k <= T ->
  Z.abs (t3_rate_closed k rate accel jerk) <= t3_peak T rate accel jerk.
Proof.
  intros Hk. unfold t3_peak. cbv zeta.
  pose proof (abs_rate_D rate accel jerk) as E.
  destruct (Z.eqb_spec jerk 0) as [->|HJ].
  - pose proof (absD_bound_zero (t3_start rate accel 0) accel T k Hk) as H. rewrite <- !E in H. lia.
  - pose proof (absD_bound (t3_start rate accel jerk) accel jerk T k HJ Hk) as H. cbv zeta in H. rewrite <- !E in H. lia.
Qed.

(* ... and is attained at a tick of the move *)
Theorem t3_peak_attained T rate accel jerk : 1 <= T ->
  exists k, 1 <= k <= T /\ t3_peak T rate accel jerk = Z.abs (t3_rate_closed k rate accel jerk).
Proof.
  intros HT. unfold t3_peak. cbv zeta.
  set (f := (jerk - 2 * accel) / (2 * jerk)).
  assert (C1 : 1 <= clampk T f <= T) by (unfold clampk; lia).
  assert (C2 : 1 <= clampk T (f + 1) <= T) by (unfold clampk; lia).
  set (k1 := clampk T f) in *. set (k2 := clampk T (f + 1)) in *.
  set (r := fun k => Z.abs (t3_rate_closed k rate accel jerk)).
  change (exists k, 1 <= k <= T /\ (if jerk =? 0 then Z.max (r 1) (r T) else Z.max (Z.max (r 1) (r T)) (Z.max (r k1) (r k2))) = r k).
  clearbody r k1 k2.
  assert (H : forall x y : Z, Z.max x y = x \/ Z.max x y = y) by (intros; lia).
  destruct (jerk =? 0).
  - destruct (H (r 1) (r T)) as [-> | ->]; [exists 1|exists T]; split; try reflexivity; lia.
  - destruct (H (Z.max (r 1) (r T)) (Z.max (r k1) (r k2))) as [-> | ->].
    + destruct (H (r 1) (r T)) as [-> | ->]; [exists 1|exists T]; split; try reflexivity; lia.
    + destruct (H (r k1) (r k2)) as [-> | ->]; [exists k1|exists k2]; split; try reflexivity; assumption.
Qed.

(* in terms of the tick-by-tick firmware recurrence *)
Theorem t3_peak_is_spec_peak (T : nat) rate accel jerk : (1 <= T)%nat ->
  (forall k, (1 <= k <= T)%nat -> Z.abs (t3_spec_rate k rate accel jerk) <= t3_peak (Z.of_nat T) rate accel jerk) /\
  (exists k, (1 <= k <= T)%nat /\ t3_peak (Z.of_nat T) rate accel jerk = Z.abs (t3_spec_rate k rate accel jerk)).
Proof.
  intros HT. split.
  - intros k Hk. rewrite spec_rate_closed by lia. apply t3_peak_upper. lia.
  - destruct (t3_peak_attained (Z.of_nat T) rate accel jerk ltac:(lia)) as (k & Hk & E).
    exists (Z.to_nat k). split; [lia|]. rewrite spec_rate_closed by lia. rewrite Z2Nat.id by lia. exact E.
Qed.
