(* C03, rounding layer, all of calculate_lm.  Model/LmModelFull.v rounds EVERY mpmath operation of calculate_lm in the order the Python
   source evaluates them.  For every rounding operator that respects ==, is monotone and leaves 103-bit numbers unchanged, and every
   rounded square root that is non-negative, monotone and exact on squares of binary fractions, that computation returns the answer of
   the exact model (Model/LmModel.v) for every request within the firmware's argument ranges whose duration is at most 2^32 ticks:
   the effective rate, the running total at the reversal tick, the constant term, the discriminant and the final accumulator are sums
   and products of integers and half-integers below 2^100 - exact at 103 bits (the argument of C01_rounding_exact) - and the roots are
   those of Proofs/LmRootRnd.v. *)
From Plotink Require Import Base.Prelude Spec.Firmware Model.EbbCalc Model.EbbCalcRnd Model.LmModel Model.LmModelRnd Model.LmModelFull Proofs.EbbCalcProofs Proofs.EbbRndProofs Proofs.TmidFloat Proofs.LmRootRnd.
Open Scope Z_scope.

Lemma tri2 t : 2 * (t * (t + 1) / 2) = t * (t + 1).
Proof.
  destruct (Z.Even_or_Odd t) as [[q E]|[q E]]; subst t.
  - replace (2 * q * (2 * q + 1)) with (q * (2 * q + 1) * 2) by ring. rewrite Z.div_mul by lia. ring.
  - replace ((2 * q + 1) * (2 * q + 1 + 1)) with ((2 * q + 1) * (q + 1) * 2) by ring. rewrite Z.div_mul by lia. ring.
Qed.

Lemma quot2_bound a : Z.abs a <= 2147483648 -> Z.abs (Z.quot a 2) <= 1073741824.
Proof. intros H. pose proof (Z.quot_rem' a 2). pose proof (Z.rem_bound_abs a 2 ltac:(lia)). lia. Qed.

Section FullRounding.
Variable rnd : Q -> Q.
Hypothesis rnd_comp : forall x y, (x == y)%Q -> (rnd x == rnd y)%Q.
Hypothesis rnd_exact : forall x, rep103 x -> (rnd x == x)%Q.

Let rid := rnd_id rnd rnd_comp rnd_exact.

Lemma re_exact rate accel : Z.abs rate <= 2147483648 -> Z.abs accel <= 2147483648 ->
  (lm_re_r rnd rate accel == iz (2 * rate + accel - 2 * Z.quot accel 2) / 2)%Q.
Proof.
  intros Hr Ha. pose proof (quot2_bound accel Ha) as Hh. unfold lm_re_r. set (h := Z.quot accel 2) in *.
  assert (P103 : 2 ^ 103 = 10141204801825835211973625643008) by reflexivity.
  assert (E1 : (rnd (iz accel / 2) == iz accel / 2)%Q) by (apply rid; [reflexivity|apply rep_half; lia]).
  assert (E2 : (rnd (iz rate + rnd (iz accel / 2)) == iz (2 * rate + accel) / 2)%Q).
  { apply rid; [rewrite E1; push_iz; field|apply rep_half; lia]. }
  apply rid; [rewrite E2; push_iz; field|apply rep_half; lia].
Qed.

Lemma srev_exact re accel t adj b2 rz : (re == iz b2 / 2)%Q -> b2 = 2 * rz + accel -> 0 < t <= 4294967296 ->
  Z.abs adj <= 2147483648 -> Z.abs accel <= 2147483648 -> Z.abs rz <= 4294967296 ->
  lm_srev_r rnd re accel t adj = Z.abs (adj + rz * t + accel * (t * (t + 1) / 2)) / B31.
Proof.
  intros Ere Eb Ht Hadj Ha Hrz. unfold lm_srev_r. cbv zeta.
  assert (P103 : 2 ^ 103 = 10141204801825835211973625643008) by reflexivity.
  assert (A1 : (rnd (re * iz t) == iz (b2 * t) / 2)%Q) by (apply rid; [rewrite Ere; push_iz; field|apply rep_half; nia]).
  assert (H1 : (rnd ((1 # 2) * iz accel) == iz accel / 2)%Q) by (apply rid; [field|apply rep_half; lia]).
  assert (H2 : (rnd (rnd ((1 # 2) * iz accel) * iz t) == iz (accel * t) / 2)%Q) by (apply rid; [rewrite H1; push_iz; field|apply rep_half; nia]).
  assert (H3 : (rnd (rnd (rnd ((1 # 2) * iz accel) * iz t) * iz t) == iz (accel * t * t) / 2)%Q) by (apply rid; [rewrite H2; push_iz; field|apply rep_half; nia]).
  set (h3 := rnd (rnd (rnd ((1 # 2) * iz accel) * iz t) * iz t)) in *. set (a1 := rnd (re * iz t)) in *.
  assert (A2 : (rnd (a1 + h3) == iz (b2 * t + accel * t * t) / 2)%Q) by (apply rid; [rewrite A1, H3; push_iz; field|apply rep_half; nia]).
  set (K := 2 * adj + b2 * t + accel * t * t).
  assert (HK : Z.abs K < 2 ^ 100) by (unfold K; change (2 ^ 100) with 1267650600228229401496703205376; nia).
  change (2 ^ 100) with 1267650600228229401496703205376 in HK.
  assert (A3 : (rnd (rnd (a1 + h3) + iz adj) == iz K / 2)%Q) by (apply rid; [rewrite A2; unfold K; push_iz; field|apply rep_half; lia]).
  assert (A4 : (rnd (rnd (rnd (a1 + h3) + iz adj) / iz 2147483648) == iz K / iz (2 ^ 32))%Q).
  { apply rid; [rewrite A3; change (iz (2 ^ 32)) with (iz 4294967296); unfold iz; field|exists K, 32; split; [lia|split; [lia|reflexivity]]]. }
  set (a4 := rnd (rnd (rnd (a1 + h3) + iz adj) / iz 2147483648)) in *.
  set (X := adj + rz * t + accel * (t * (t + 1) / 2)).
  assert (EK : K = 2 * X) by (unfold K, X; subst b2; pose proof (tri2 t); nia).
  assert (A5 : (rnd (Qabs a4) == iz (Z.abs X) / iz 2147483648)%Q).
  { apply rid.
    - rewrite A4. rewrite EK. change (iz (2 ^ 32)) with (iz 4294967296).
      setoid_replace (iz (2 * X) / iz 4294967296)%Q with (iz X / iz 2147483648)%Q by (push_iz; field).
      unfold Qdiv. rewrite Qabs_Qmult. unfold iz. change (Qabs (inject_Z X)) with (inject_Z (Z.abs X)). rewrite (Qabs_pos (/ inject_Z 2147483648)) by (unfold Qle; simpl; lia). reflexivity.
    - exists (Z.abs X), 31. split; [lia|split; [lia|reflexivity]]. }
  rewrite (Qfloor_comp _ _ A5). rewrite Qfloor_iz_div by lia. reflexivity.
Qed.

Lemma front_full steps rate accel accum : Z.abs rate <= 2147483648 -> Z.abs accel <= 2147483648 ->
  match accum with None => True | Some c => 0 <= c < 2147483648 end ->
  lm_front_full_r rnd steps rate accel accum = lm_front steps rate accel accum.
Proof.
  intros Hr Ha Hc. pose proof (quot2_bound accel Ha) as Hq. unfold lm_front_full_r, lm_front, lm_front_tail. cbv zeta.
  set (q := Z.quot accel 2) in *.
  set (neg := (rate - q + accel <? 0) || ((rate - q + accel =? 0) && (accel <? 0))).
  set (acc := match accum with None => if neg then M31 else 0 | Some c => c end).
  assert (Hacc : 0 <= acc < 2147483648) by (unfold acc, M31; destruct accum; [exact Hc|destruct neg; lia]).
  set (adj := if neg then acc - M31 else acc).
  assert (Hadj : Z.abs adj <= 2147483648) by (unfold adj, M31; destruct neg; lia).
  set (t_rev := if neg && (0 <? accel) then - (rate - q) / accel else if negb neg && (accel <? 0) then (rate - q) / - accel else -1).
  assert (Ht : t_rev <= 4294967296).
  { unfold t_rev. destruct (neg && (0 <? accel)) eqn:E1.
    - apply andb_prop in E1. destruct E1 as [_ E1]. apply Z.ltb_lt in E1. apply Z.div_le_upper_bound; nia.
    - destruct (negb neg && (accel <? 0)) eqn:E2; [|lia].
      apply andb_prop in E2. destruct E2 as [_ E2]. apply Z.ltb_lt in E2. apply Z.div_le_upper_bound; nia. }
  set (s1 := if 0 <? t_rev then lm_srev_r rnd (lm_re_r rnd rate accel) accel t_rev adj else 0).
  set (s2 := if 0 <? t_rev then Z.abs (adj + (rate - q) * t_rev + accel * (t_rev * (t_rev + 1) / 2)) / B31 else 0).
  assert (S : s1 = s2).
  { unfold s1, s2. destruct (Z.ltb_spec 0 t_rev) as [P|P]; [|reflexivity].
    apply (srev_exact _ accel t_rev adj (2 * rate + accel - 2 * q) (rate - q)); [apply re_exact; assumption|ring|lia|exact Hadj|exact Ha|lia]. }
  rewrite S. reflexivity.
Qed.

Variable sq : Q -> Q.
Hypothesis sq_mono : forall x y, (0 <= x)%Q -> (x <= y)%Q -> (sq x <= sq y)%Q.
Lemma sq_comp x y : (0 <= x)%Q -> (x == y)%Q -> (sq x == sq y)%Q.
Proof.
  intros P E. apply Qle_antisym.
  - apply sq_mono; [exact P|rewrite E; apply Qle_refl].
  - apply sq_mono; [rewrite <- E; exact P|rewrite E; apply Qle_refl].
Qed.

Lemma time_full rate accel m : Z.abs rate <= 2147483648 -> Z.abs accel <= 2147483648 ->
  Z.abs (m_pos m) <= 2147483648 -> Z.abs (m_padj m) <= 2147483648 + 1 -> Z.abs (m_adj m) <= 2147483648 ->
  lm_time_full_r rnd sq rate accel m = lm_time_r rnd sq rate accel m.
Proof.
  intros Hr Ha Hp Hq Hc. unfold lm_time_full_r, lm_time_r. cbv zeta.
  assert (P103 : 2 ^ 103 = 10141204801825835211973625643008) by reflexivity.
  destruct (Z.eqb_spec accel 0) as [E|E].
  - unfold lm_cdiv_r, B31. apply Qceiling_comp, rnd_comp.
    rewrite (rid (iz (2147483648 * m_pos m) - iz (m_adj m))%Q (iz (2147483648 * m_pos m - m_adj m))); [reflexivity|push_iz; reflexivity|apply rep_int; lia].
  - pose proof (quot2_bound accel Ha) as Hh. pose proof (re_exact rate accel Hr Ha) as Ere.
    set (re := lm_re_r rnd rate accel) in *. set (b2 := 2 * rate + accel - 2 * Z.quot accel 2) in *.
    assert (Bb : Z.abs b2 <= 17179869184) by (unfold b2; lia).
    unfold B31.
    set (c0 := m_adj m - m_padj m * 2147483648).
    set (cZ := if m_rev m then if accel <? 0 then c0 + 1 else c0 - 1 else c0).
    assert (Bc0 : Z.abs c0 <= 4611686022722355200) by (unfold c0; lia).
    assert (Bc : Z.abs cZ <= 4611686022722355201) by (unfold cZ; destruct (m_rev m); [destruct (accel <? 0)|]; lia).
    assert (P1 : (rnd (iz (m_padj m) * iz 2147483648) == iz (m_padj m * 2147483648))%Q) by (apply rid; [push_iz; reflexivity|apply rep_int; lia]).
    assert (C0 : (rnd (iz (m_adj m) - rnd (iz (m_padj m) * iz 2147483648)) == iz c0)%Q) by (apply rid; [rewrite P1; unfold c0; push_iz; reflexivity|apply rep_int; lia]).
    set (c0r := rnd (iz (m_adj m) - rnd (iz (m_padj m) * iz 2147483648))) in *.
    set (cr := if m_rev m then if accel <? 0 then rnd (c0r + 1) else rnd (c0r - 1) else c0r).
    assert (C : (cr == iz cZ)%Q).
    { unfold cr, cZ. destruct (m_rev m); [|exact C0]. destruct (accel <? 0); (apply rid; [rewrite C0; push_iz; reflexivity|apply rep_int; lia]). }
    assert (D1 : (rnd (re * re) == iz (b2 * b2) / iz 4)%Q).
    { apply rid; [rewrite Ere; push_iz; field|exists (b2 * b2), 2; split; [lia|split; [nia|reflexivity]]]. }
    assert (D2 : (rnd (2 * iz accel) == iz (2 * accel))%Q) by (apply rid; [push_iz; reflexivity|apply rep_int; lia]).
    assert (D3 : (rnd (rnd (2 * iz accel) * cr) == iz (2 * accel * cZ))%Q) by (apply rid; [rewrite D2, C; push_iz; reflexivity|apply rep_int; nia]).
    set (D4 := b2 * b2 - 8 * accel * cZ).
    assert (BD : Z.abs D4 < 2 ^ 103) by (unfold D4; rewrite P103; nia).
    assert (DISC : (rnd (rnd (re * re) - rnd (rnd (2 * iz accel) * cr)) == iz D4 / iz 4)%Q).
    { apply rid; [rewrite D1, D3; unfold D4; push_iz; field|exists D4, 2; split; [lia|split; [exact BD|reflexivity]]]. }
    set (disc := rnd (rnd (re * re) - rnd (rnd (2 * iz accel) * cr))) in *.
    fold c0. fold cZ. fold D4.
    assert (L : Qltb disc 0 = (D4 <? 0)).
    { rewrite (Qltb_comp _ _ _ _ DISC (Qeq_refl 0)). destruct (Z.ltb_spec D4 0) as [N|N].
      - apply Qltb_iff. unfold Qlt, Qdiv, iz; simpl. lia.
      - apply Qltb_false. unfold Qle, Qdiv, iz; simpl. lia. }
    rewrite L. destruct (Z.ltb_spec D4 0) as [N|N]; [reflexivity|].
    assert (Pd : (0 <= disc)%Q) by (rewrite DISC; unfold Qle, Qdiv, iz; simpl; lia).
    pose proof (sq_comp _ _ Pd DISC) as ES.
    assert (NRE : (rnd (- re) == - (iz b2 / iz 2))%Q).
    { apply rid; [rewrite Ere; reflexivity|exists (- b2), 1; split; [lia|split; [lia|]]]. change (iz (2 ^ 1)) with (iz 2). push_iz. field. }
    unfold lm_root_r. cbv zeta.
    assert (R1 : Qceiling (rnd (rnd (rnd (- re) - sq disc) / iz accel)) = Qceiling (rnd (rnd (- (iz b2 / iz 2) - sq (iz D4 / iz 4)) / iz accel))).
    { apply Qceiling_comp, rnd_comp. apply Qdiv_comp; [|reflexivity]. apply rnd_comp. rewrite NRE, ES. reflexivity. }
    assert (R2 : Qceiling (rnd (rnd (rnd (- re) + sq disc) / iz accel)) = Qceiling (rnd (rnd (- (iz b2 / iz 2) + sq (iz D4 / iz 4)) / iz accel))).
    { apply Qceiling_comp, rnd_comp. apply Qdiv_comp; [|reflexivity]. apply rnd_comp. rewrite NRE, ES. reflexivity. }
    rewrite R1, R2. reflexivity.
Qed.

Lemma cfinal_exact re accel acc T pos b2 r0 : (re == iz b2 / 2)%Q -> b2 = 2 * r0 + accel -> Z.abs T <= 4294967296 ->
  Z.abs acc <= 2147483648 -> Z.abs accel <= 2147483648 -> Z.abs r0 <= 4294967296 -> Z.abs pos <= 2147483648 ->
  lm_cfinal_r rnd re accel acc T pos = acc + r0 * T + accel * (T * (T + 1) / 2) - B31 * pos.
Proof.
  intros Ere Eb HT Hacc Ha Hr0 Hpos. unfold lm_cfinal_r, B31. cbv zeta.
  assert (P103 : 2 ^ 103 = 10141204801825835211973625643008) by reflexivity.
  assert (E1 : (rnd (re * iz T) == iz (b2 * T) / 2)%Q) by (apply rid; [rewrite Ere; push_iz; field|apply rep_half; nia]).
  assert (E2 : (rnd (iz acc + rnd (re * iz T)) == iz (2 * acc + b2 * T) / 2)%Q) by (apply rid; [rewrite E1; push_iz; field|apply rep_half; nia]).
  assert (G1 : (rnd (iz accel * iz T) == iz (accel * T))%Q) by (apply rid; [push_iz; reflexivity|apply rep_int; nia]).
  assert (G2 : (rnd (rnd (iz accel * iz T) * iz T) == iz (accel * T * T))%Q) by (apply rid; [rewrite G1; push_iz; reflexivity|apply rep_int; nia]).
  assert (G3 : (rnd (rnd (rnd (iz accel * iz T) * iz T) / 2) == iz (accel * T * T) / 2)%Q) by (apply rid; [rewrite G2; reflexivity|apply rep_half; nia]).
  set (e2 := rnd (iz acc + rnd (re * iz T))) in *. set (g3 := rnd (rnd (rnd (iz accel * iz T) * iz T) / 2)) in *.
  set (K := 2 * acc + b2 * T + accel * T * T).
  assert (HK : Z.abs K < 1267650600228229401496703205376) by (unfold K; nia).
  assert (CF : (rnd (e2 + g3) == iz K / 2)%Q) by (apply rid; [rewrite E2, G3; unfold K; push_iz; field|apply rep_half; lia]).
  assert (KK : (rnd (iz 2147483648 * iz pos) == iz (2147483648 * pos))%Q) by (apply rid; [push_iz; reflexivity|apply rep_int; lia]).
  set (X := acc + r0 * T + accel * (T * (T + 1) / 2) - 2147483648 * pos).
  assert (EK : K - 2 * (2147483648 * pos) = 2 * X) by (unfold K, X; subst b2; pose proof (tri2 T); nia).
  rewrite (Qtrunc_comp _ (iz X)); [apply Qtrunc_iz|].
  apply rid; [|apply rep_int; unfold X; pose proof (tri2 T); nia].
  rewrite CF, KK. setoid_replace (iz K / 2 - iz (2147483648 * pos))%Q with (iz (K - 2 * (2147483648 * pos)) / 2)%Q by (push_iz; field).
  rewrite EK. push_iz. field.
Qed.
End FullRounding.

Lemma front_acc steps rate accel accum : match accum with None => True | Some c => 0 <= c < 2147483648 end ->
  0 <= m_acc (lm_front steps rate accel accum) < 2147483648.
Proof.
  intros Hc. unfold lm_front. cbv zeta.
  set (neg := (rate - Z.quot accel 2 + accel <? 0) || ((rate - Z.quot accel 2 + accel =? 0) && (accel <? 0))).
  set (acc := match accum with None => if neg then M31 else 0 | Some c => c end).
  assert (Hacc : 0 <= acc < 2147483648) by (unfold acc, M31; destruct accum; [exact Hc|destruct neg; lia]).
  set (adj := if neg then acc - M31 else acc).
  set (t_rev := if neg && (0 <? accel) then - (rate - Z.quot accel 2) / accel else if negb neg && (accel <? 0) then (rate - Z.quot accel 2) / - accel else -1).
  set (s_rev := if 0 <? t_rev then Z.abs (adj + (rate - Z.quot accel 2) * t_rev + accel * (t_rev * (t_rev + 1) / 2)) / B31 else 0).
  destruct ((t_rev <? 1) || (steps <=? s_rev)); [exact Hacc|]. destruct (s_rev =? 0); exact Hacc.
Qed.

Section FullTheorem.
Variable rnd : Q -> Q.
Hypothesis rnd_comp : forall x y, (x == y)%Q -> (rnd x == rnd y)%Q.
Hypothesis rnd_exact : forall x, rep103 x -> (rnd x == x)%Q.
Hypothesis rnd_mono : forall x y, (x <= y)%Q -> (rnd x <= rnd y)%Q.
Variable sq : Q -> Q.
Hypothesis sq_nonneg : forall x, (0 <= x)%Q -> (0 <= sq x)%Q.
Hypothesis sq_exact : forall K n, 0 <= K < 2 ^ 103 -> 0 <= n <= 52 -> (sq ((iz K / iz (2 ^ n)) * (iz K / iz (2 ^ n))) == iz K / iz (2 ^ n))%Q.
Hypothesis sq_mono : forall x y, (0 <= x)%Q -> (x <= y)%Q -> (sq x <= sq y)%Q.

Lemma full_core steps rate accel accum : 0 < steps <= 2147483648 -> Z.abs rate <= 2147483648 -> Z.abs accel <= 2147483648 ->
  match accum with None => True | Some c => 0 <= c < 2147483648 end ->
  forall T p c,
  (let m := lm_front steps rate accel accum in let T := lm_time_r rnd sq rate accel m in let r0 := rate - Z.quot accel 2 in
   (T, m_pos m, m_acc m + r0 * T + accel * (T * (T + 1) / 2) - B31 * m_pos m)) = (T, p, c) ->
  Z.abs T <= 4294967296 ->
  (let m := lm_front_full_r rnd steps rate accel accum in let T := lm_time_full_r rnd sq rate accel m in
   (T, m_pos m, lm_cfinal_r rnd (lm_re_r rnd rate accel) accel (m_acc m) T (m_pos m))) = (T, p, c).
Proof.
  intros Hs Hr Ha Hc T p c E HT. cbv zeta in *.
  rewrite (front_full rnd rnd_comp rnd_exact steps rate accel accum Hr Ha Hc).
  pose proof (front_bounds steps rate accel accum ltac:(change (2 ^ 31) with 2147483648; lia) Hc) as (B1 & B2 & B3). cbv zeta in B1, B2, B3.
  change (2 ^ 31) with 2147483648 in B1, B2, B3.
  pose proof (front_acc steps rate accel accum Hc) as B4.
  set (m := lm_front steps rate accel accum) in *.
  rewrite (time_full rnd rnd_comp rnd_exact sq sq_mono rate accel m Hr Ha B1 B2 B3).
  injection E as ET Ep Ec. rewrite ET. f_equal; [f_equal; exact Ep|]. rewrite <- Ec, ET.
  pose proof (quot2_bound accel Ha) as Hq.
  apply (cfinal_exact rnd rnd_comp rnd_exact _ accel (m_acc m) T (m_pos m) (2 * rate + accel - 2 * Z.quot accel 2) (rate - Z.quot accel 2));
    [apply re_exact; assumption|ring|exact HT|lia|exact Ha|lia|exact B1].
Qed.

Theorem lm_model_full_rounding steps rate accel accum : Z.abs steps <= 2 ^ 31 -> Z.abs rate <= 2 ^ 31 -> Z.abs accel <= 2 ^ 31 ->
  match accum with None => True | Some c => 0 <= c < 2 ^ 31 end ->
  forall T p c, lm_model steps rate accel accum = (T, p, c) -> Z.abs T <= 2 ^ 32 ->
  lm_model_full_r rnd sq steps rate accel accum = (T, p, c).
Proof.
  intros Hs Hr Ha Hc T p c E HT.
  rewrite <- (lm_model_rounding rnd rnd_comp rnd_exact rnd_mono sq sq_nonneg sq_exact sq_mono steps rate accel accum Hs Hr Ha Hc) in E.
  change (2 ^ 31) with 2147483648 in *. change (2 ^ 32) with 4294967296 in *.
  unfold lm_model_r in E. unfold lm_model_full_r.
  destruct ((steps =? 0) || ((rate =? 0) && (accel =? 0))) eqn:E1; [exact E|].
  destruct ((steps <? 0) && (rate <? 0)) eqn:E2; [exact E|].
  apply orb_false_iff in E1. destruct E1 as [E1a _]. apply Z.eqb_neq in E1a.
  destruct (Z.ltb_spec steps 0) as [L|G].
  - apply full_core; [lia|rewrite Z.abs_opp; exact Hr|rewrite Z.abs_opp; exact Ha|exact Hc|exact E|exact HT].
  - apply full_core; [lia|exact Hr|exact Ha|exact Hc|exact E|exact HT].
Qed.
End FullTheorem.
