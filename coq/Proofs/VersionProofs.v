From Plotink Require Import Base.Prelude Base.PyStr Model.Serial3 Model.SerialLegacy Model.LegacyGates Proofs.Serial3Proofs Proofs.LegacyProofs.
Open Scope Z_scope.

(* ---------- numeric, component-wise version order ---------- *)
Lemma zeros_cmp_opp l : zeros_cmp l = Eq -> Forall (fun x => x = 0) l.
Proof. induction l as [|x l IH]; cbn; [constructor|]. destruct (Z.compare_spec x 0) as [E|E|E]; try discriminate. intros G. constructor; [exact E|apply IH, G]. Qed.
Lemma ver_cmp_antisym : forall a b, ver_cmp b a = CompOpp (ver_cmp a b).
Proof.
  induction a as [|x a IH]; intros [|y b]; cbn [ver_cmp zeros_cmp].
  - reflexivity.
  - destruct (y ?= 0); cbn; rewrite ?CompOpp_involutive; reflexivity.
  - destruct (x ?= 0) eqn:E; cbn; rewrite ?CompOpp_involutive; reflexivity.
  - rewrite (Z.compare_antisym x y). destruct (x ?= y); cbn; [apply IH|reflexivity|reflexivity].
Qed.
Theorem ver_ge_total a b : ver_ge a b = true \/ ver_ge b a = true.
Proof. unfold ver_ge. rewrite (ver_cmp_antisym a b). destruct (ver_cmp a b); cbn; auto. Qed.
Theorem ver_ge_refl a : ver_ge a a = true.
Proof. unfold ver_ge. assert (ver_cmp a a = Eq) as ->; [|reflexivity]. induction a as [|x a IH]; cbn; [reflexivity|]. rewrite Z.compare_refl. exact IH. Qed.

(* the order is the lexicographic order of the components read as numbers, after padding with zeros *)
Fixpoint pad (n : nat) (l : list Z) : list Z := match n with O => l | S k => match l with [] => 0 :: pad k [] | x :: t => x :: pad k t end end.
Fixpoint lex_cmp (a b : list Z) : comparison :=
  match a, b with x :: a', y :: b' => match x ?= y with Eq => lex_cmp a' b' | c => c end | [], [] => Eq | [], _ => Lt | _, [] => Gt end.
Lemma zeros_cmp_pad : forall n l, (length l <= n)%nat -> zeros_cmp l = lex_cmp (pad n l) (pad n []).
Proof.
  induction n as [|n IH]; intros l H.
  - destruct l; [reflexivity|cbn in H; lia].
  - destruct l as [|x l]; cbn [pad zeros_cmp lex_cmp].
    + rewrite Z.compare_refl. apply (IH [] ltac:(cbn; lia)).
    + destruct (x ?= 0); try reflexivity. apply IH. cbn in H. lia.
Qed.
Lemma lex_cmp_opp : forall a b, lex_cmp b a = CompOpp (lex_cmp a b).
Proof. induction a as [|x a IH]; intros [|y b]; cbn; try reflexivity. rewrite (Z.compare_antisym x y). destruct (x ?= y); cbn; auto. Qed.
Theorem ver_cmp_is_padded_lex : forall n a b, (length a <= n)%nat -> (length b <= n)%nat -> ver_cmp a b = lex_cmp (pad n a) (pad n b).
Proof.
  induction n as [|n IH]; intros a b Ha Hb.
  - destruct a; [|cbn in Ha; lia]. destruct b; [reflexivity|cbn in Hb; lia].
  - destruct a as [|x a]; destruct b as [|y b]; cbn [pad ver_cmp lex_cmp zeros_cmp].
    + rewrite Z.compare_refl. rewrite <- (zeros_cmp_pad n [] ltac:(cbn; lia)). reflexivity.
    + rewrite (Z.compare_antisym y 0). destruct (y ?= 0) eqn:E; cbn; try reflexivity.
      rewrite (zeros_cmp_pad n b ltac:(cbn in Hb; lia)). rewrite <- lex_cmp_opp. reflexivity.
    + destruct (x ?= 0); try reflexivity. apply (zeros_cmp_pad n a). cbn in Ha. lia.
    + destruct (x ?= y); try reflexivity. apply IH; cbn in *; lia.
Qed.

(* 2.10.0 is newer than 2.9.9, although "2.10.0" < "2.9.9" as strings *)
Example numeric_not_string_order : ver_ge [2; 10; 0] [2; 9; 9] = true /\ ver_ge [2; 9; 9] [2; 10; 0] = false /\
  lex_cmp (T "2.10.0") (T "2.9.9") = Lt.
Proof. repeat split; vm_compute; reflexivity. Qed.

(* both layers: min_version is ver_ge on the parsed version *)
Theorem ebb3_min_version_spec s vs have want : vparsed s = Some have -> parse_version vs = Some want ->
  min_version s vs = Ret (Some (ver_ge have want)).
Proof. intros H1 H2. unfold min_version. rewrite H2, H1. reflexivity. Qed.

(* ---------- connect ---------- *)
(* on a fresh (or merely disconnected) object: True only with a verified EBB of at least the minimum version, port open;
   False always comes with a recorded error and at most the two version probes on the wire *)
Theorem connect_outcome s ports g sc : port s = false ->
  let '(s', o, w, sc') := connect s ports g sc in
  (o = Ret true -> port s' = true /\ exists v, vparsed s' = Some v /\ ver_ge v [3; 0; 2] = true) /\
  (o = Ret false -> err s' <> None /\ (w = [] \/ w = [T "v"] \/ w = [T "v"; T "v"])).
Proof.
  intros Hp. unfold connect. rewrite Hp.
  assert (RE : forall x k, err (record_error x k) <> None).
  { intros x k. unfold record_error. destruct (err x) eqn:E; [rewrite E; discriminate|cbn; discriminate]. }
  destruct (match g with None => find_first ports | Some g0 => find_named ports g0 end).
  2:{ split; [discriminate|]. intros _. split; [apply RE|left; reflexivity]. }
  destruct (write_ok sc) as [opened sc0]. destruct opened; cbv beta iota delta [negb].
  2:{ split; [discriminate|]. intros _. split; [cbn; apply RE|left; reflexivity]. }
  unfold probe. destruct (write_ok sc0) as [w1 sc1]. destruct w1.
  2:{ split; [discriminate|]. intros _. split; [cbn; apply RE|left; reflexivity]. }
  assert (V : forall ver w sc', (w = [T "v"] \/ w = [T "v"; T "v"]) -> let '(s', o, w', sc'') :=
    (let s1 := set_port s true in
     let s2 := match split_once (T "Firmware Version ") ver with (_, Some rest) => set_version s1 (parse_version rest) | (_, None) => s1 end in
     match split_once (T "Firmware Version ") ver with
     | (_, Some rest) => match parse_version rest with None => (s2, Raise OtherError, w, sc') | Some _ =>
         match min_version s2 MIN_VERSION with
         | Raise e => (s2, Raise e, w, sc')
         | Ret (Some true) =>
             let '(wok, sc2) := write_ok sc' in
             if negb wok then (s2, Raise OtherError, w, sc2) else
             match readline sc2 with
             | (RRaise, sc3) => (s2, Raise OtherError, w ++ [T "CU,10,1"], sc3)
             | (RLine _, sc3) =>
                 let '(s3, o, wq, sc4) := query_nickname s2 sc3 in
                 match o with Raise e => (s3, Raise e, w ++ [T "CU,10,1"] ++ wq, sc4) | Ret _ => (s3, Ret true, w ++ [T "CU,10,1"] ++ wq, sc4) end
             end
         | Ret _ => (record_error s2 E_VERSION, Ret false, w, sc')
         end end
     | (_, None) => (s2, Raise TypeError, w, sc')
     end : res bool) in
    (o = Ret true -> port s' = true /\ exists v, vparsed s' = Some v /\ ver_ge v [3; 0; 2] = true) /\
    (o = Ret false -> err s' <> None /\ (w' = [] \/ w' = [T "v"] \/ w' = [T "v"; T "v"]))).
  { intros ver w sc' Hw. cbv zeta.
    destruct (split_once (T "Firmware Version ") ver) as [pre [rest|]]; [|split; discriminate].
    destruct (parse_version rest) as [v|] eqn:PV; [|split; discriminate].
    set (s2 := set_version (set_port s true) (Some v)).
    unfold min_version. change (parse_version MIN_VERSION) with (Some [3; 0; 2]). change (vparsed s2) with (Some v).
    cbv beta iota.
    destruct (ver_ge v [3; 0; 2]) eqn:G.
    - destruct (write_ok sc') as [wok sc2]. destruct wok; cbv beta iota delta [negb]; [|split; discriminate].
      destruct (readline sc2) as [[lx|] sc3]; [|split; discriminate].
      (* query_nickname changes neither the port nor the parsed version *)
      assert (QN : let '(s3, o, _, _) := query_nickname s2 sc3 in port s3 = true /\ vparsed s3 = Some v).
      { unfold query_nickname. destruct (blocked s2); [split; reflexivity|].
        unfold query. destruct (blocked s2); [split; reflexivity|]. change (cmd_name (strip (T "QT"))) with (Some (T "QT")). cbv iota.
        destruct (write_read (strip (T "QT")) sc3) as [[wr io] sc4]. destruct io as [r|].
        - destruct (contains r (T "Err:") || negb (startswith r (T "QT"))); [unfold record_error; destruct (err s2); split; reflexivity|].
          destruct (isspace _); split; reflexivity.
        - change (reboot_like (T "QT")) with false. cbv iota. unfold record_error; destruct (err s2); split; reflexivity. }
      destruct (query_nickname s2 sc3) as [[[s3 o] wq] sc4]. destruct QN as [Q1 Q2].
      destruct o; [|split; discriminate]. split; [|discriminate]. intros _. split; [exact Q1|]. exists v. split; [exact Q2|exact G].
    - split; [discriminate|]. intros _. split; [apply RE|right; exact Hw]. }
  destruct (readline sc1) as [[l1|] sc2].
  2:{ split; [discriminate|]. intros _. split; [cbn; apply RE|right; left; reflexivity]. }
  destruct (is_ebb (strip l1)); [apply V; left; reflexivity|].
  destruct (write_ok sc2) as [w2 sc3]. destruct w2.
  2:{ split; [discriminate|]. intros _. split; [cbn; apply RE|right; left; reflexivity]. }
  destruct (readline sc3) as [[l2|] sc4].
  2:{ split; [discriminate|]. intros _. split; [cbn; apply RE|right; right; reflexivity]. }
  destruct (is_ebb (strip l2)); [apply V; right; reflexivity|].
  split; [discriminate|]. intros _. split; [cbn; apply RE|right; right; reflexivity].
Qed.

(* ---------- legacy gates: the gated command is written only after a version reply of at least the threshold ---------- *)
Definition gate_ok (thr : list Z) (cmd_prefix : text) (r : outcome grv * list text * script) (vq_reply_version : option (list Z)) : Prop :=
  forall x, In x (snd (fst r)) -> startswith x cmd_prefix = true -> exists v, vq_reply_version = Some v /\ ver_ge v thr = true.

(* what lmin_version concluded from the reply to V *)
Definition version_seen (vs : text) (sc : script) : option (list Z) :=
  match fst (fst (lquery true true (Some VQ) sc)) with
  | Ret (Some resp) => match split_once (T "Firmware Version ") resp with (_, Some rest) => parse_version rest | _ => None end
  | _ => None
  end.
Lemma lmin_version_true vs want sc : parse_version vs = Some want ->
  forall w sc1, lmin_version vs sc = (Ret (Some true), w, sc1) -> exists v, version_seen vs sc = Some v /\ ver_ge v want = true.
Proof.
  intros Hw w sc1. unfold lmin_version, version_seen.
  destruct (lquery true true (Some VQ) sc) as [[o w0] sc0]. cbn [fst].
  destruct o as [[resp|]|e]; try discriminate.
  destruct (split_once (T "Firmware Version ") resp) as [pre [rest|]]; [|discriminate].
  rewrite Hw. destruct (parse_version rest) as [have|]; [|discriminate].
  intros H. injection H as H _ _. exists have. split; [reflexivity|exact H].
Qed.
Lemma lmin_version_writes vs sc : let '(_, w, _) := lmin_version vs sc in w = [] \/ w = [VQ].
Proof.
  unfold lmin_version. destruct (lquery_shape true (Some VQ) sc) as (r & w & sc' & E & [W|(t & Et & W)] & _).
  - rewrite E. subst w. destruct r as [resp|]; [destruct (split_once _ resp) as [p [rest|]]; [destruct (parse_version rest), (parse_version vs)|]|]; left; reflexivity.
  - injection Et as <-. rewrite E. subst w. destruct r as [resp|]; [destruct (split_once _ resp) as [p [rest|]]; [destruct (parse_version rest), (parse_version vs)|]|]; right; reflexivity.
Qed.

Theorem gate_servo ms st sc x : In x (snd (fst (l_servo_timeout ms st sc))) -> startswith x (T "SR") = true ->
  exists v, version_seen (T "2.6.0") sc = Some v /\ ver_ge v [2; 6; 0] = true.
Proof.
  unfold l_servo_timeout. pose proof (lmin_version_writes (T "2.6.0") sc) as W. pose proof (lmin_version_true (T "2.6.0") [2; 6; 0] sc eq_refl) as L.
  destruct (lmin_version (T "2.6.0") sc) as [[o w] sc1]. destruct o as [v|e]; cbn [fst snd].
  - destruct v as [[|]|]; cbn [truthy_ob].
    + intros _ _. exact (L w sc1 eq_refl).
    + intros Hin Hs. destruct W as [-> | ->]; [contradiction|]. destruct Hin as [<-|[]]. vm_compute in Hs. discriminate.
    + intros Hin Hs. destruct W as [-> | ->]; [contradiction|]. destruct Hin as [<-|[]]. vm_compute in Hs. discriminate.
  - intros Hin Hs. destruct W as [-> | ->]; [contradiction|]. destruct Hin as [<-|[]]. vm_compute in Hs. discriminate.
Qed.
Theorem gate_generic (thr_text : text) (thr : list Z) (pref : text) (f : script -> gres) sc :
  parse_version thr_text = Some thr -> startswith VQ pref = false ->
  (forall sc0, let '(o, w, sc1) := lmin_version thr_text sc0 in
     match o with
     | Ret v => if truthy_ob v then True else f sc0 = (Ret (match fst (fst (f sc0)) with Ret r => r | Raise _ => GNone end), w, sc1)
     | Raise e => f sc0 = (Raise e, w, sc1)
     end) ->
  forall x, In x (snd (fst (f sc))) -> startswith x pref = true -> exists v, version_seen thr_text sc = Some v /\ ver_ge v thr = true.
Proof.
  intros Hp Hv Hf x Hin Hs. specialize (Hf sc).
  pose proof (lmin_version_writes thr_text sc) as W. pose proof (lmin_version_true thr_text thr sc Hp) as L.
  destruct (lmin_version thr_text sc) as [[o w] sc1]. destruct o as [v|e].
  - destruct v as [[|]|]; cbn [truthy_ob] in Hf.
    + exact (L w sc1 eq_refl).
    + rewrite Hf in Hin. cbn [fst snd] in Hin. destruct W as [-> | ->]; [contradiction|]. destruct Hin as [<-|[]]. congruence.
    + rewrite Hf in Hin. cbn [fst snd] in Hin. destruct W as [-> | ->]; [contradiction|]. destruct Hin as [<-|[]]. congruence.
  - rewrite Hf in Hin. cbn [fst snd] in Hin. destruct W as [-> | ->]; [contradiction|]. destruct Hin as [<-|[]]. congruence.
Qed.

Ltac gate_tac f :=
  intros sc0; unfold f; destruct (lmin_version _ sc0) as [[o w] sc1]; destruct o as [v|e]; [|reflexivity];
  destruct v as [[|]|]; cbn [truthy_ob negb]; try exact I; reflexivity.
Theorem gate_reboot sc x : In x (snd (fst (l_reboot sc))) -> startswith x (T "RB") = true ->
  exists v, version_seen (T "2.5.5") sc = Some v /\ ver_ge v [2; 5; 5] = true.
Proof. apply (gate_generic (T "2.5.5") [2; 5; 5] (T "RB") l_reboot sc eq_refl eq_refl). gate_tac l_reboot. Qed.
Theorem gate_write_nickname nick sc x : In x (snd (fst (l_write_nickname nick sc))) -> startswith x (T "ST") = true ->
  exists v, version_seen (T "2.5.5") sc = Some v /\ ver_ge v [2; 5; 5] = true.
Proof. apply (gate_generic (T "2.5.5") [2; 5; 5] (T "ST") (l_write_nickname nick) sc eq_refl eq_refl). gate_tac l_write_nickname. Qed.
Theorem gate_query_nickname sc x : In x (snd (fst (l_query_nickname sc))) -> startswith x (T "QT") = true ->
  exists v, version_seen (T "2.5.5") sc = Some v /\ ver_ge v [2; 5; 5] = true.
Proof. apply (gate_generic (T "2.5.5") [2; 5; 5] (T "QT") l_query_nickname sc eq_refl eq_refl). gate_tac l_query_nickname. Qed.
Theorem gate_voltage sc x : In x (snd (fst (l_query_voltage sc))) -> startswith x (T "QC") = true ->
  exists v, version_seen (T "2.2.3") sc = Some v /\ ver_ge v [2; 2; 3] = true.
Proof. apply (gate_generic (T "2.2.3") [2; 2; 3] (T "QC") l_query_voltage sc eq_refl eq_refl). gate_tac l_query_voltage. Qed.
