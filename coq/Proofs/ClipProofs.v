From Plotink Require Import Base.Prelude Model.Clip.
From Coq Require Import Arith.
Open Scope Q_scope.

Section Clip.
Variables xmin xmax ymin ymax : Q.
Hypothesis Hx : xmin <= xmax.
Hypothesis Hy : ymin <= ymax.

Definition inside (x y : Q) := xmin <= x /\ x <= xmax /\ ymin <= y /\ y <= ymax.

Lemma czero_inside x y : czero (clip_code x y xmin xmax ymin ymax) = true <-> inside x y.
Proof. unfold czero, clip_code, inside; cbn. rewrite negb_true_iff, !orb_false_iff, !Qltb_false. tauto. Qed.

Variables X1 Y1 X2 Y2 : Q.   (* the original segment *)
Definition sx (t : Q) := X1 + t * (X2 - X1).
Definition sy (t : Q) := Y1 + t * (Y2 - Y1).

(* invariant: the current endpoints are points of the original segment, in order, and nothing inside was cut off *)
Definition Inv (s : st) := exists t1 t2, 0 <= t1 /\ t1 <= t2 /\ t2 <= 1 /\
  x1 s == sx t1 /\ y1 s == sy t1 /\ x2 s == sx t2 /\ y2 s == sy t2 /\
  forall t, 0 <= t <= 1 -> inside (sx t) (sy t) -> t1 <= t <= t2.

Lemma Inv_init : Inv (mkst X1 Y1 X2 Y2).
Proof.
  exists 0, 1. cbn [x1 y1 x2 y2]. unfold sx, sy.
  split; [lra|]. split; [lra|]. split; [lra|].
  split; [ring|]. split; [ring|]. split; [ring|]. split; [ring|]. intros t Ht _. exact Ht.
Qed.

(* local parametrisation of the current piece *)
Definition px (s : st) (v : Q) := x1 s + v * (x2 s - x1 s).
Definition py (s : st) (v : Q) := y1 s + v * (y2 s - y1 s).

Lemma inv_move1 s u xn yn : Inv s -> 0 <= u -> u <= 1 ->
  xn == px s u -> yn == py s u ->
  (forall v, 0 <= v < u -> ~ inside (px s v) (py s v)) ->
  Inv (mkst xn yn (x2 s) (y2 s)).
Proof.
  intros (t1 & t2 & H0 & H12 & H1 & E1 & E2 & E3 & E4 & Hc) Hu0 Hu1 Ex Ey Hout.
  exists (t1 + u * (t2 - t1)), t2. cbn [x1 y1 x2 y2].
  assert (0 <= u * (t2 - t1)) by (apply Qmult_le_0_compat; lra).
  assert (Hb: u * (t2 - t1) <= t2 - t1) by (setoid_replace (t2 - t1) with (1 * (t2 - t1)) at 2 by ring; apply Qmult_le_compat_r; lra).
  split; [lra|]. split; [lra|]. split; [lra|].
  split; [rewrite Ex; unfold px; rewrite E1, E3; unfold sx; ring|].
  split; [rewrite Ey; unfold py; rewrite E2, E4; unfold sy; ring|].
  split; [exact E3|]. split; [exact E4|].
  intros t Ht Hin. destruct (Hc t Ht Hin) as [A B]. split; [|exact B].
  destruct (Qlt_le_dec t (t1 + u * (t2 - t1))) as [C|C]; [|exact C]. exfalso.
  assert (D: t1 < t2) by lra.
  apply (Hout ((t - t1) / (t2 - t1))).
  + split. * apply Qle_shift_div_l; lra. * apply Qlt_shift_div_r; lra.
  + assert (Ex' : px s ((t - t1) / (t2 - t1)) == sx t) by (unfold px; rewrite E1, E3; unfold sx; field; lra).
    assert (Ey' : py s ((t - t1) / (t2 - t1)) == sy t) by (unfold py; rewrite E2, E4; unfold sy; field; lra).
    unfold inside in *. rewrite Ex', Ey'. exact Hin.
Qed.

Lemma inv_move2 s u xn yn : Inv s -> 0 <= u -> u <= 1 ->
  xn == px s u -> yn == py s u ->
  (forall v, u < v <= 1 -> ~ inside (px s v) (py s v)) ->
  Inv (mkst (x1 s) (y1 s) xn yn).
Proof.
  intros (t1 & t2 & H0 & H12 & H1 & E1 & E2 & E3 & E4 & Hc) Hu0 Hu1 Ex Ey Hout.
  exists t1, (t1 + u * (t2 - t1)). cbn [x1 y1 x2 y2].
  assert (0 <= u * (t2 - t1)) by (apply Qmult_le_0_compat; lra).
  assert (Hb: u * (t2 - t1) <= t2 - t1) by (setoid_replace (t2 - t1) with (1 * (t2 - t1)) at 2 by ring; apply Qmult_le_compat_r; lra).
  split; [lra|]. split; [lra|]. split; [lra|].
  split; [exact E1|]. split; [exact E2|].
  split; [rewrite Ex; unfold px; rewrite E1, E3; unfold sx; ring|].
  split; [rewrite Ey; unfold py; rewrite E2, E4; unfold sy; ring|].
  intros t Ht Hin. destruct (Hc t Ht Hin) as [A B]. split; [exact A|].
  destruct (Qlt_le_dec (t1 + u * (t2 - t1)) t) as [C|C]; [|exact C]. exfalso.
  assert (D: t1 < t2) by lra.
  apply (Hout ((t - t1) / (t2 - t1))).
  + split. * apply Qlt_shift_div_l; lra. * apply Qle_shift_div_r; lra.
  + assert (Ex' : px s ((t - t1) / (t2 - t1)) == sx t) by (unfold px; rewrite E1, E3; unfold sx; field; lra).
    assert (Ey' : py s ((t - t1) / (t2 - t1)) == sy t) by (unfold py; rewrite E2, E4; unfold sy; field; lra).
    unfold inside in *. rewrite Ex', Ey'. exact Hin.
Qed.

(* ---------- one affine coordinate: moving toward the boundary value b along a coordinate that crosses it ---------- *)
(* a = coordinate of endpoint 1, c = of endpoint 2, b = boundary.  u = (b - a)/(c - a). *)
Lemma param_range a c b : ~ c - a == 0 -> ((a <= b /\ b <= c) \/ (c <= b /\ b <= a)) ->
  0 <= (b - a) / (c - a) /\ (b - a) / (c - a) <= 1.
Proof.
  intros Hd [[A B]|[A B]].
  - assert (0 < c - a) by (destruct (Qlt_le_dec 0 (c - a)); [assumption|exfalso; apply Hd; lra]).
    split; [apply Qle_shift_div_l; lra|apply Qle_shift_div_r; lra].
  - assert (c - a < 0) by (destruct (Qlt_le_dec (c - a) 0); [assumption|exfalso; apply Hd; lra]).
    setoid_replace ((b - a) / (c - a)) with ((a - b) / (a - c)) by (field; lra).
    split; [apply Qle_shift_div_l; lra|apply Qle_shift_div_r; lra].
Qed.
Lemma mul_lt_pos v u d : 0 < d -> v < u -> v * d < u * d.
Proof. intros. apply Qmult_lt_compat_r; assumption. Qed.
Lemma mul_lt_neg v u d : d < 0 -> v < u -> u * d < v * d.
Proof. intros Hd H. assert (v * (- d) < u * (- d)) by (apply Qmult_lt_compat_r; lra). lra. Qed.

(* ---------- one pass preserves the invariant, never divides by zero ---------- *)
Lemma pass_step it s s' : Inv s -> pass xmin xmax ymin ymax it s = inr s' -> Inv s'.
Proof.
  intros I. unfold pass. cbv zeta.
  set (c1 := clip_code (x1 s) (y1 s) xmin xmax ymin ymax). set (c2 := clip_code (x2 s) (y2 s) xmin xmax ymin ymax).
  destruct (czero c1 && czero c2) eqn:EA; [discriminate|].
  destruct (cand c1 c2) eqn:EC; [discriminate|].
  destruct (3 <? it)%nat; [discriminate|].
  unfold cand in EC. unfold czero in EA. apply orb_false_iff in EC. destruct EC as [EC EB]. apply orb_false_iff in EC. destruct EC as [EC ET].
  apply orb_false_iff in EC. destruct EC as [EL ER].
  subst c1 c2. unfold clip_code in *. cbn [cL cR cT cB] in *.
  unfold czero. cbn [cL cR cT cB].
  destruct (Qltb (x1 s) xmin) eqn:L1; destruct (Qltb xmax (x1 s)) eqn:R1; destruct (Qltb (y1 s) ymin) eqn:T1; destruct (Qltb ymax (y1 s)) eqn:B1;
  cbn [orb negb andb] in *;
  destruct (Qltb (x2 s) xmin) eqn:L2; destruct (Qltb xmax (x2 s)) eqn:R2; destruct (Qltb (y2 s) ymin) eqn:T2; destruct (Qltb ymax (y2 s)) eqn:B2;
  cbn [orb negb andb cL cR cT cB] in *; try discriminate;
  repeat match goal with
  | H : Qltb _ _ = true |- _ => apply Qltb_iff in H
  | H : Qltb _ _ = false |- _ => apply Qltb_false in H
  end; try (exfalso; lra);
  match goal with
  | |- (if Qeqb ?d 0 then _ else _) = _ -> _ =>
      let E := fresh "E" in destruct (Qeqb d 0) eqn:E; [discriminate|apply Qeqb_false in E]; intros Hs; injection Hs as <-
  end.
  (* each remaining goal: Inv of the moved state; the moved coordinate determines the parameter *)
  all: match goal with
  | |- Inv (mkst xmin ?yn (x2 ?s0) (y2 ?s0)) => apply (inv_move1 s0 ((xmin - x1 s0) / (x2 s0 - x1 s0)))
  | |- Inv (mkst xmax ?yn (x2 ?s0) (y2 ?s0)) => apply (inv_move1 s0 ((xmax - x1 s0) / (x2 s0 - x1 s0)))
  | |- Inv (mkst ?xn ymin (x2 ?s0) (y2 ?s0)) => apply (inv_move1 s0 ((ymin - y1 s0) / (y2 s0 - y1 s0)))
  | |- Inv (mkst ?xn ymax (x2 ?s0) (y2 ?s0)) => apply (inv_move1 s0 ((ymax - y1 s0) / (y2 s0 - y1 s0)))
  | |- Inv (mkst (x1 ?s0) (y1 ?s0) xmin ?yn) => apply (inv_move2 s0 ((xmin - x1 s0) / (x2 s0 - x1 s0)))
  | |- Inv (mkst (x1 ?s0) (y1 ?s0) xmax ?yn) => apply (inv_move2 s0 ((xmax - x1 s0) / (x2 s0 - x1 s0)))
  | |- Inv (mkst (x1 ?s0) (y1 ?s0) ?xn ymin) => apply (inv_move2 s0 ((ymin - y1 s0) / (y2 s0 - y1 s0)))
  | |- Inv (mkst (x1 ?s0) (y1 ?s0) ?xn ymax) => apply (inv_move2 s0 ((ymax - y1 s0) / (y2 s0 - y1 s0)))
  end; try exact I.
  all: try match goal with
  | |- 0 <= (?b - ?a) / (?c - ?a) => apply (proj1 (param_range a c b ltac:(assumption) ltac:(lra)))
  | |- (?b - ?a) / (?c - ?a) <= 1 => apply (proj2 (param_range a c b ltac:(assumption) ltac:(lra)))
  end.
  all: try (unfold px, py; field; assumption).
  (* the cut-off part lies strictly beyond the boundary that was clipped *)
  all: intros v Hv (A & B & C & D); unfold px, py in *.
  all: match goal with
  | E : ~ ?d == 0 |- _ =>
      let P := fresh "P" in
      destruct (Qlt_le_dec 0 d) as [P|P];
      [ | assert (d < 0) by (destruct (Qlt_le_dec d 0); [assumption|exfalso; apply E; lra]) ]
  end.
  all: try (exfalso; lra).
  all: match goal with
  | Hv : _ <= ?w < ?u |- _ => destruct Hv as [Hv0 Hv1]
  | Hv : ?u < ?w <= _ |- _ => destruct Hv as [Hv0 Hv1]
  end.
  all: match goal with
  | P : 0 < ?d, Hlt : ?w < (?b - ?a) / ?d |- _ =>
      assert (w * d < b - a) by (setoid_replace (b - a) with ((b - a) / d * d) by (field; lra); apply mul_lt_pos; assumption)
  | P : ?d < 0, Hlt : ?w < (?b - ?a) / ?d |- _ =>
      assert (b - a < w * d) by (setoid_replace (b - a) with ((b - a) / d * d) by (field; lra); apply mul_lt_neg; assumption)
  | P : 0 < ?d, Hlt : (?b - ?a) / ?d < ?w |- _ =>
      assert (b - a < w * d) by (setoid_replace (b - a) with ((b - a) / d * d) by (field; lra); apply mul_lt_pos; assumption)
  | P : ?d < 0, Hlt : (?b - ?a) / ?d < ?w |- _ =>
      assert (w * d < b - a) by (setoid_replace (b - a) with ((b - a) / d * d) by (field; lra); apply mul_lt_neg; assumption)
  end.
  all: lra.
Qed.

(* ---------- no division by zero ---------- *)
Lemma pass_no_div0 it s : pass xmin xmax ymin ymax it s <> inl DivZero.
Proof.
  unfold pass. cbv zeta.
  set (c1 := clip_code (x1 s) (y1 s) xmin xmax ymin ymax). set (c2 := clip_code (x2 s) (y2 s) xmin xmax ymin ymax).
  destruct (czero c1 && czero c2) eqn:EA; [discriminate|].
  destruct (cand c1 c2) eqn:EC; [discriminate|].
  destruct (3 <? it)%nat; [discriminate|].
  unfold cand in EC. unfold czero in EA. apply orb_false_iff in EC. destruct EC as [EC EB]. apply orb_false_iff in EC. destruct EC as [EC ET].
  apply orb_false_iff in EC. destruct EC as [EL ER].
  subst c1 c2. unfold clip_code in *. cbn [cL cR cT cB] in *.
  unfold czero. cbn [cL cR cT cB].
  destruct (Qltb (x1 s) xmin) eqn:L1; destruct (Qltb xmax (x1 s)) eqn:R1; destruct (Qltb (y1 s) ymin) eqn:T1; destruct (Qltb ymax (y1 s)) eqn:B1;
  cbn [orb negb andb] in *;
  destruct (Qltb (x2 s) xmin) eqn:L2; destruct (Qltb xmax (x2 s)) eqn:R2; destruct (Qltb (y2 s) ymin) eqn:T2; destruct (Qltb ymax (y2 s)) eqn:B2;
  cbn [orb negb andb cL cR cT cB] in *; try discriminate;
  repeat match goal with
  | H : Qltb _ _ = true |- _ => apply Qltb_iff in H
  | H : Qltb _ _ = false |- _ => apply Qltb_false in H
  end; try (exfalso; lra);
  match goal with
  | |- (if Qeqb ?d 0 then _ else _) <> _ =>
      let E := fresh "E" in destruct (Qeqb d 0) eqn:E; [apply Qeqb_iff in E; exfalso; lra|discriminate]
  end.
Qed.

(* ---------- the number of sides with an endpoint strictly outside drops at every clip ---------- *)
Definition b2n (b : bool) : nat := if b then 1%nat else 0%nat.
Definition cnt (s : st) : nat :=
  (b2n (Qltb (x1 s) xmin || Qltb (x2 s) xmin) + b2n (Qltb xmax (x1 s) || Qltb xmax (x2 s)) +
   b2n (Qltb (y1 s) ymin || Qltb (y2 s) ymin) + b2n (Qltb ymax (y1 s) || Qltb ymax (y2 s)))%nat.

Lemma conv_ge a c u m : 0 <= u -> u <= 1 -> m <= a -> m <= c -> m <= a + u * (c - a).
Proof.
  intros U0 U1 A C.
  setoid_replace (a + u * (c - a)) with (m + ((1 - u) * (a - m) + u * (c - m))) by ring.
  assert (0 <= (1 - u) * (a - m)) by (apply Qmult_le_0_compat; lra).
  assert (0 <= u * (c - m)) by (apply Qmult_le_0_compat; lra). lra.
Qed.
Lemma conv_le a c u m : 0 <= u -> u <= 1 -> a <= m -> c <= m -> a + u * (c - a) <= m.
Proof.
  intros U0 U1 A C.
  setoid_replace (a + u * (c - a)) with (m - ((1 - u) * (m - a) + u * (m - c))) by ring.
  assert (0 <= (1 - u) * (m - a)) by (apply Qmult_le_0_compat; lra).
  assert (0 <= u * (m - c)) by (apply Qmult_le_0_compat; lra). lra.
Qed.

Lemma cnt_le_4 s : (cnt s <= 4)%nat.
Proof. unfold cnt, b2n. repeat match goal with |- context [if ?b then _ else _] => destruct b end; lia. Qed.
Lemma cnt_zero_accept s : cnt s = 0%nat ->
  czero (clip_code (x1 s) (y1 s) xmin xmax ymin ymax) && czero (clip_code (x2 s) (y2 s) xmin xmax ymin ymax) = true.
Proof.
  unfold cnt, czero, clip_code, b2n. cbn [cL cR cT cB].
  destruct (Qltb (x1 s) xmin); destruct (Qltb (x2 s) xmin); destruct (Qltb xmax (x1 s)); destruct (Qltb xmax (x2 s));
  destruct (Qltb (y1 s) ymin); destruct (Qltb (y2 s) ymin); destruct (Qltb ymax (y1 s)); destruct (Qltb ymax (y2 s)); cbn; intros; try reflexivity; lia.
Qed.

(* the new point is the point at parameter u in [0,1] of the current piece: used for all eight moves *)
Lemma moved_point_flags (s : st) (u xn yn : Q) : (0 <= u) -> (u <= 1) -> (xn == px s u) -> (yn == py s u) ->
  and (Qltb xn xmin = true -> orb (Qltb (x1 s) xmin) (Qltb (x2 s) xmin) = true)
 (and (Qltb xmax xn = true -> orb (Qltb xmax (x1 s)) (Qltb xmax (x2 s)) = true)
 (and (Qltb yn ymin = true -> orb (Qltb (y1 s) ymin) (Qltb (y2 s) ymin) = true)
      (Qltb ymax yn = true -> orb (Qltb ymax (y1 s)) (Qltb ymax (y2 s)) = true))).
Proof.
  intros U0 U1 Ex Ey. unfold px in Ex. unfold py in Ey.
  repeat split; intros H; apply Qltb_iff in H; apply orb_true_iff;
  match goal with
  | |- Qltb ?a ?b = true \/ Qltb ?c ?d = true =>
      destruct (Qltb a b) eqn:F1; [left; reflexivity|]; destruct (Qltb c d) eqn:F2; [right; reflexivity|];
      apply Qltb_false in F1, F2; exfalso
  end.
  - pose proof (conv_ge (x1 s) (x2 s) u xmin U0 U1 F1 F2). lra.
  - pose proof (conv_le (x1 s) (x2 s) u xmax U0 U1 F1 F2). lra.
  - pose proof (conv_ge (y1 s) (y2 s) u ymin U0 U1 F1 F2). lra.
  - pose proof (conv_le (y1 s) (y2 s) u ymax U0 U1 F1 F2). lra.
Qed.

Lemma Qltb_irrefl a : Qltb a a = false.
Proof. apply Qltb_false. lra. Qed.

Lemma pass_decreases it s s' : pass xmin xmax ymin ymax it s = inr s' -> (cnt s' < cnt s)%nat.
Proof.
  unfold pass. cbv zeta.
  set (c1 := clip_code (x1 s) (y1 s) xmin xmax ymin ymax). set (c2 := clip_code (x2 s) (y2 s) xmin xmax ymin ymax).
  destruct (czero c1 && czero c2) eqn:EA; [discriminate|].
  destruct (cand c1 c2) eqn:EC; [discriminate|].
  destruct (3 <? it)%nat; [discriminate|].
  unfold cand in EC. unfold czero in EA. apply orb_false_iff in EC. destruct EC as [EC EB]. apply orb_false_iff in EC. destruct EC as [EC ET].
  apply orb_false_iff in EC. destruct EC as [EL ER].
  subst c1 c2. unfold clip_code in *. cbn [cL cR cT cB] in *.
  unfold czero. cbn [cL cR cT cB].
  destruct (Qltb (x1 s) xmin) eqn:L1; destruct (Qltb xmax (x1 s)) eqn:R1; destruct (Qltb (y1 s) ymin) eqn:T1; destruct (Qltb ymax (y1 s)) eqn:B1;
  cbn [orb negb andb] in *;
  destruct (Qltb (x2 s) xmin) eqn:L2; destruct (Qltb xmax (x2 s)) eqn:R2; destruct (Qltb (y2 s) ymin) eqn:T2; destruct (Qltb ymax (y2 s)) eqn:B2;
  cbn [orb negb andb cL cR cT cB] in *; try discriminate;
  pose proof (eq_sym L1) as L1'; pose proof (eq_sym R1) as R1'; pose proof (eq_sym T1) as T1'; pose proof (eq_sym B1) as B1';
  pose proof (eq_sym L2) as L2'; pose proof (eq_sym R2) as R2'; pose proof (eq_sym T2) as T2'; pose proof (eq_sym B2) as B2';
  repeat match goal with
  | H : Qltb _ _ = true |- _ => apply Qltb_iff in H
  | H : Qltb _ _ = false |- _ => apply Qltb_false in H
  end; try (exfalso; lra);
  match goal with
  | |- (if Qeqb ?d 0 then _ else _) = _ -> _ =>
      let E := fresh "E" in destruct (Qeqb d 0) eqn:E; [discriminate|apply Qeqb_false in E]; intros Hs; injection Hs as <-
  end.
  all: unfold cnt; cbn [x1 y1 x2 y2].
  (* parameter of the new point, and the flags of the new point *)
  all: match goal with
  | |- context [Qltb (?dy * ((?b - x1 ?s0) / ?dx) + y1 ?s0) ymin] =>
      let u := constr:((b - x1 s0) / dx) in
      assert (U0 : 0 <= u) by (apply (proj1 (param_range (x1 s0) (x2 s0) b ltac:(assumption) ltac:(lra))));
      assert (U1 : u <= 1) by (apply (proj2 (param_range (x1 s0) (x2 s0) b ltac:(assumption) ltac:(lra))));
      destruct (moved_point_flags s0 u b (dy * ((b - x1 s0) / dx) + y1 s0) U0 U1
                 ltac:(unfold px; field; assumption) ltac:(unfold py; field; assumption)) as (F1 & F2 & F3 & F4)
  | |- context [Qltb (?dx * ((?b - y1 ?s0) / ?dy) + x1 ?s0) xmin] =>
      let u := constr:((b - y1 s0) / dy) in
      assert (U0 : 0 <= u) by (apply (proj1 (param_range (y1 s0) (y2 s0) b ltac:(assumption) ltac:(lra))));
      assert (U1 : u <= 1) by (apply (proj2 (param_range (y1 s0) (y2 s0) b ltac:(assumption) ltac:(lra))));
      destruct (moved_point_flags s0 u (dx * ((b - y1 s0) / dy) + x1 s0) b U0 U1
                 ltac:(unfold px; field; assumption) ltac:(unfold py; field; assumption)) as (F1 & F2 & F3 & F4)
  end.
  all: rewrite <- ?L1', <- ?R1', <- ?T1', <- ?B1', <- ?L2', <- ?R2', <- ?T2', <- ?B2' in *; rewrite ?Qltb_irrefl in *.
  all: assert (Hmn : Qltb xmax xmin = false) by (apply Qltb_false; exact Hx).
  all: assert (Hmn' : Qltb ymax ymin = false) by (apply Qltb_false; exact Hy).
  all: rewrite ?Hmn, ?Hmn' in *.
  all: cbn [orb] in *.
  all: repeat match goal with |- context [Qltb ?a ?b] => let E := fresh "N" in destruct (Qltb a b) eqn:E end.
  all: cbn [orb b2n] in *.
  all: try lia.
  all: repeat match goal with
  | F : true = true -> false = true |- _ => specialize (F eq_refl); discriminate F
  | F : true = true -> _ |- _ => specialize (F eq_refl)
  end.
  all: try discriminate.
  all: try lia.
Qed.

(* ---------- how a pass can stop ---------- *)
Lemma pass_inl it s e : pass xmin xmax ymin ymax it s = inl e ->
  let c1 := clip_code (x1 s) (y1 s) xmin xmax ymin ymax in
  let c2 := clip_code (x2 s) (y2 s) xmin xmax ymin ymax in
  (e = Accept /\ czero c1 && czero c2 = true) \/
  (e = Reject /\ cand c1 c2 = true) \/
  (e = Failsafe /\ czero c1 && czero c2 = false /\ (3 <? it)%nat = true) \/
  e = DivZero.
Proof.
  unfold pass. cbv zeta.
  destruct (czero _ && czero _) eqn:EA; [intros H; injection H as <-; left; split; reflexivity|].
  destruct (cand _ _) eqn:EC; [intros H; injection H as <-; right; left; split; reflexivity|].
  destruct (3 <? it)%nat eqn:EI; [intros H; injection H as <-; right; right; left; repeat split; reflexivity|].
  repeat match goal with |- context [if ?b then _ else _] => destruct b end; intros H; try discriminate H; injection H as <-; right; right; right; reflexivity.
Qed.

Lemma loop_ok : forall fuel it s, Inv s -> (cnt s + it <= 4)%nat -> (cnt s < fuel)%nat ->
  let r := loop fuel xmin xmax ymin ymax it s in
  Inv (snd r) /\
  ((fst r = Accept /\ czero (clip_code (x1 (snd r)) (y1 (snd r)) xmin xmax ymin ymax) && czero (clip_code (x2 (snd r)) (y2 (snd r)) xmin xmax ymin ymax) = true) \/
   (fst r = Reject /\ cand (clip_code (x1 (snd r)) (y1 (snd r)) xmin xmax ymin ymax) (clip_code (x2 (snd r)) (y2 (snd r)) xmin xmax ymin ymax) = true)).
Proof.
  induction fuel as [|f IH]; intros it s I Hc Hf; [lia|].
  cbn [loop]. destruct (pass xmin xmax ymin ymax it s) as [e|s'] eqn:P.
  - cbn [fst snd]. split; [exact I|].
    destruct (pass_inl it s e P) as [[Ee A]|[[Ee A]|[[Ee [A B]]|Ee]]]; subst e.
    + left. split; [reflexivity|exact A].
    + right. split; [reflexivity|exact A].
    + exfalso. apply Nat.ltb_lt in B. assert (Z0 : cnt s = 0%nat) by lia.
      rewrite (cnt_zero_accept s Z0) in A. discriminate.
    + exfalso. exact (pass_no_div0 it s P).
  - pose proof (pass_decreases it s s' P) as D. pose proof (pass_step it s s' I P) as I'.
    apply IH; [exact I'|lia|lia].
Qed.

Lemma affine_lt a b t1 t2 t m : t1 <= t -> t <= t2 -> a + t1 * b < m -> a + t2 * b < m -> a + t * b < m.
Proof.
  intros H1 H2 A B. destruct (Qlt_le_dec b 0) as [N|P].
  - assert (0 <= (t - t1) * (- b)) by (apply Qmult_le_0_compat; lra). lra.
  - assert (0 <= (t2 - t) * b) by (apply Qmult_le_0_compat; lra). lra.
Qed.
Lemma affine_gt a b t1 t2 t m : t1 <= t -> t <= t2 -> m < a + t1 * b -> m < a + t2 * b -> m < a + t * b.
Proof.
  intros H1 H2 A B. destruct (Qlt_le_dec b 0) as [N|P].
  - assert (0 <= (t2 - t) * (- b)) by (apply Qmult_le_0_compat; lra). lra.
  - assert (0 <= (t - t1) * b) by (apply Qmult_le_0_compat; lra). lra.
Qed.

(* ---------- the result ---------- *)
Definition clip_spec (r : exit * st) : Prop :=
  match fst r with
  | Accept => exists t1 t2, 0 <= t1 /\ t1 <= t2 /\ t2 <= 1 /\
      x1 (snd r) == sx t1 /\ y1 (snd r) == sy t1 /\ x2 (snd r) == sx t2 /\ y2 (snd r) == sy t2 /\
      inside (x1 (snd r)) (y1 (snd r)) /\ inside (x2 (snd r)) (y2 (snd r)) /\
      forall t, 0 <= t <= 1 -> inside (sx t) (sy t) -> t1 <= t <= t2
  | Reject => forall t, 0 <= t <= 1 -> ~ inside (sx t) (sy t)
  | _ => False
  end.

Theorem clip_segment_correct : clip_spec (clip_segment xmin xmax ymin ymax (mkst X1 Y1 X2 Y2)).
Proof.
  unfold clip_segment.
  pose proof (cnt_le_4 (mkst X1 Y1 X2 Y2)) as C4.
  destruct (loop_ok 6 0 (mkst X1 Y1 X2 Y2) Inv_init ltac:(lia) ltac:(lia)) as [I [[E A]|[E A]]];
  set (r := loop 6 xmin xmax ymin ymax 0 (mkst X1 Y1 X2 Y2)) in *; unfold clip_spec; rewrite E.
  - apply andb_true_iff in A. destruct A as [A1 A2]. apply czero_inside in A1, A2.
    destruct I as (t1 & t2 & H0 & H12 & H1 & E1 & E2 & E3 & E4 & Hc).
    exists t1, t2. repeat (split; [assumption|]). exact Hc.
  - destruct I as (t1 & t2 & H0 & H12 & H1 & E1 & E2 & E3 & E4 & Hc).
    intros t Ht Hin. destruct (Hc t Ht Hin) as [Ta Tb].
    unfold cand, clip_code in A. cbn [cL cR cT cB] in A.
    rewrite E1, E2, E3, E4 in A || idtac.
    destruct Hin as (I1 & I2 & I3 & I4).
    repeat (apply orb_true_iff in A; destruct A as [A|A]); apply andb_true_iff in A; destruct A as [P1 P2];
      apply Qltb_iff in P1, P2.
    + rewrite E1 in P1. rewrite E3 in P2. unfold sx in *. pose proof (affine_lt X1 (X2 - X1) t1 t2 t xmin Ta Tb P1 P2). lra.
    + rewrite E1 in P1. rewrite E3 in P2. unfold sx in *. pose proof (affine_gt X1 (X2 - X1) t1 t2 t xmax Ta Tb P1 P2). lra.
    + rewrite E2 in P1. rewrite E4 in P2. unfold sy in *. pose proof (affine_lt Y1 (Y2 - Y1) t1 t2 t ymin Ta Tb P1 P2). lra.
    + rewrite E2 in P1. rewrite E4 in P2. unfold sy in *. pose proof (affine_gt Y1 (Y2 - Y1) t1 t2 t ymax Ta Tb P1 P2). lra.
Qed.

(* accept exactly when some part of the segment is inside *)
Corollary clip_accept_iff : fst (clip_segment xmin xmax ymin ymax (mkst X1 Y1 X2 Y2)) = Accept <->
  exists t, 0 <= t <= 1 /\ inside (sx t) (sy t).
Proof.
  pose proof clip_segment_correct as C. unfold clip_spec in C.
  destruct (fst (clip_segment xmin xmax ymin ymax (mkst X1 Y1 X2 Y2))) eqn:E; try contradiction.
  - split; [intros _|reflexivity].
    destruct C as (t1 & t2 & H0 & H12 & H1 & E1 & E2 & E3 & E4 & In1 & In2 & Hc).
    exists t1. split; [lra|]. unfold inside in *. rewrite <- E1, <- E2. exact In1.
  - split; [discriminate|]. intros (t & Ht & Hin). exfalso. exact (C t Ht Hin).
Qed.
End Clip.
