From Plotink Require Import Base.Prelude Base.Rnd Spec.Xml Model.EbbCalc Model.Text.
Open Scope Z_scope.

(* ---------- xml_escape as a per-character map ---------- *)
Definition esc1 (c : Z) : text :=
  if c =? 38 then AMP else if c =? 60 then LT else if c =? 62 then GT
  else if c =? 34 then QUOT else if c =? 39 then APOS else [c].
Fixpoint escape (s : text) : text := match s with [] => [] | c :: t => esc1 c ++ escape t end.

Lemma rep_app c r a b : rep c r (a ++ b) = rep c r a ++ rep c r b.
Proof. induction a as [|x a IH]; cbn; [reflexivity|]. destruct (x =? c); rewrite IH; [rewrite app_assoc|]; reflexivity. Qed.

Theorem xml_escape_eq s : xml_escape s = escape s.
Proof.
  unfold xml_escape. induction s as [|c t IH]; [reflexivity|].
  cbn [rep escape]. unfold esc1.
  destruct (c =? 38) eqn:E1.
  { rewrite !rep_app, IH. reflexivity. }
  cbn [rep]. destruct (c =? 60) eqn:E2.
  { rewrite !rep_app, IH. reflexivity. }
  cbn [rep]. destruct (c =? 62) eqn:E3.
  { rewrite !rep_app, IH. reflexivity. }
  cbn [rep]. destruct (c =? 34) eqn:E4.
  { rewrite !rep_app, IH. reflexivity. }
  cbn [rep]. destruct (c =? 39) eqn:E5.
  { rewrite IH. reflexivity. }
  rewrite IH. reflexivity.
Qed.

(* ---------- decoding the escaped text gives the original back ---------- *)
Theorem dec_escape s : dec 0 (escape s) = s.
Proof.
  induction s as [|c t IH]; [reflexivity|]. cbn [escape]. unfold esc1.
  destruct (c =? 38) eqn:E1; [apply Z.eqb_eq in E1; subst; cbn; f_equal; exact IH|].
  destruct (c =? 60) eqn:E2; [apply Z.eqb_eq in E2; subst; cbn; f_equal; exact IH|].
  destruct (c =? 62) eqn:E3; [apply Z.eqb_eq in E3; subst; cbn; f_equal; exact IH|].
  destruct (c =? 34) eqn:E4; [apply Z.eqb_eq in E4; subst; cbn; f_equal; exact IH|].
  destruct (c =? 39) eqn:E5; [apply Z.eqb_eq in E5; subst; cbn; f_equal; exact IH|].
  cbn [app dec]. rewrite E1. f_equal. exact IH.
Qed.

(* ---------- none of the five specials survives outside an entity ---------- *)
Definition special (c : Z) := (c =? 60) || (c =? 62) || (c =? 34) || (c =? 39).
Definition entity_at (t : text) : bool :=   (* t = the text after an ampersand *)
  starts [97; 109; 112; 59] t || starts [108; 116; 59] t || starts [103; 116; 59] t ||
  starts [113; 117; 111; 116; 59] t || starts [97; 112; 111; 115; 59] t.
Fixpoint amp_ok (s : text) : bool :=
  match s with [] => true | c :: t => (if c =? 38 then entity_at t else true) && amp_ok t end.

Lemma existsb_app' {A} (f : A -> bool) a b : existsb f (a ++ b) = existsb f a || existsb f b.
Proof. induction a; cbn; [reflexivity|]. rewrite IHa, orb_assoc. reflexivity. Qed.

Theorem no_raw_specials s : existsb special (escape s) = false.
Proof.
  induction s as [|c t IH]; [reflexivity|]. cbn [escape]. rewrite existsb_app', IH, orb_false_r. unfold esc1.
  destruct (c =? 38) eqn:E1; [reflexivity|].
  destruct (c =? 60) eqn:E2; [reflexivity|].
  destruct (c =? 62) eqn:E3; [reflexivity|].
  destruct (c =? 34) eqn:E4; [reflexivity|].
  destruct (c =? 39) eqn:E5; [reflexivity|].
  cbn. unfold special. rewrite E2, E3, E4, E5. reflexivity.
Qed.

Theorem every_amp_is_entity s : amp_ok (escape s) = true.
Proof.
  induction s as [|c t IH]; [reflexivity|]. cbn [escape]. unfold esc1.
  destruct (c =? 38) eqn:E1; [cbn; exact IH|].
  destruct (c =? 60) eqn:E2; [cbn; exact IH|].
  destruct (c =? 62) eqn:E3; [cbn; exact IH|].
  destruct (c =? 34) eqn:E4; [cbn; exact IH|].
  destruct (c =? 39) eqn:E5; [cbn; exact IH|].
  cbn [app amp_ok]. rewrite E1. exact IH.
Qed.

(* ---------- parser normalisations are the identity without CR (content) / TAB, LF, CR (attributes) ---------- *)
Definition has (c : Z) (s : text) : bool := existsb (Z.eqb c) s.
Lemma has_escape c s : c <> 38 -> c <> 97 -> c <> 109 -> c <> 112 -> c <> 59 -> c <> 108 -> c <> 116 -> c <> 103 ->
  c <> 113 -> c <> 117 -> c <> 111 -> c <> 115 -> has c s = false -> has c (escape s) = false.
Proof.
  intros N1 N2 N3 N4 N5 N6 N7 N8 N9 N10 N11 N12. unfold has.
  induction s as [|x t IH]; [reflexivity|]. cbn [existsb escape]. intros H. apply orb_false_iff in H. destruct H as [Hx Ht].
  rewrite existsb_app', (IH Ht), orb_false_r. unfold esc1.
  assert (F : forall k, c <> k -> (c =? k) = false) by (intros k Hk; apply Z.eqb_neq; exact Hk).
  destruct (x =? 38); [cbn; rewrite !F by assumption; reflexivity|].
  destruct (x =? 60); [cbn; rewrite !F by assumption; reflexivity|].
  destruct (x =? 62); [cbn; rewrite !F by assumption; reflexivity|].
  destruct (x =? 34); [cbn; rewrite !F by assumption; reflexivity|].
  destruct (x =? 39); [cbn; rewrite !F by assumption; reflexivity|].
  cbn. rewrite Hx. reflexivity.
Qed.
Lemma norm_eol_id s : has 13 s = false -> norm_eol s = s.
Proof.
  unfold has. induction s as [|c t IH]; [reflexivity|]. cbn [existsb norm_eol]. intros H.
  apply orb_false_iff in H. destruct H as [Hc Ht]. rewrite Z.eqb_sym in Hc. rewrite Hc. f_equal. apply IH, Ht.
Qed.
Lemma attr_ws_id s : has 9 s = false -> has 10 s = false -> has 13 s = false -> map attr_ws s = s.
Proof.
  unfold has. induction s as [|c t IH]; [reflexivity|]. cbn [existsb map]. intros H1 H2 H3.
  apply orb_false_iff in H1, H2, H3. destruct H1 as [A1 B1], H2 as [A2 B2], H3 as [A3 B3].
  unfold attr_ws at 1. rewrite (Z.eqb_sym c 9), (Z.eqb_sym c 10), (Z.eqb_sym c 13), A1, A2, A3. cbn. f_equal. apply IH; assumption.
Qed.

Theorem roundtrip_content s : has 13 s = false -> read_content (xml_escape s) = s.
Proof.
  intros H. unfold read_content. rewrite xml_escape_eq. rewrite norm_eol_id by (apply has_escape; try lia; exact H).
  apply dec_escape.
Qed.
Theorem roundtrip_attr s : has 9 s = false -> has 10 s = false -> has 13 s = false -> read_attr (xml_escape s) = s.
Proof.
  intros H9 H10 H13. unfold read_attr. rewrite xml_escape_eq.
  rewrite norm_eol_id by (apply has_escape; try lia; exact H13).
  rewrite attr_ws_id by (apply has_escape; try lia; assumption).
  apply dec_escape.
Qed.
(* without the side conditions the statement is false: "a\rb" reads back as "a\nb" *)
Lemma cr_refuted : read_content (xml_escape [97; 13; 98]) <> [97; 13; 98] /\ read_attr (xml_escape [97; 9; 98]) <> [97; 9; 98].
Proof. split; vm_compute; discriminate. Qed.

(* ---------- format_hms: the printed fields encode the rounded duration ---------- *)
Definition hms_value (x : hms) : Z :=
  match x with Millis n => n | Secs s => s | MinSec m s => m * 60 + s | HourMinSec h m s => h * 3600 + m * 60 + s end.
Definition hms_wf (x : hms) : Prop :=
  match x with
  | Millis n => True
  | Secs s => 0 <= s < 60
  | MinSec m s => 1 <= m < 60 /\ 0 <= s < 60
  | HourMinSec h m s => 1 <= h /\ 0 <= m < 60 /\ 0 <= s < 60
  end.

Theorem hms_long d : (10 <= d)%Q ->
  let x := format_hms_struct d false in
  hms_value x = Qround_he d /\ hms_wf x /\
  match x with
  | Millis _ => False
  | Secs _ => Qround_he d < 60
  | MinSec _ _ => 60 <= Qround_he d < 3600
  | HourMinSec _ _ _ => 3600 <= Qround_he d
  end.
Proof.
  intros Hd x. subst x. unfold format_hms_struct.
  assert (E : Qltb d 10 = false) by (apply Qltb_false; exact Hd). rewrite E.
  set (r := Qround_he d).
  assert (Hr : 10 <= r).
  { subst r. unfold Qround_he.
    assert (10 <= Qfloor d). { apply Qfloor_resp_le in Hd. exact Hd. }
    destruct (Qcompare _ _); [destruct (Z.even _)|..]; lia. }
  destruct (r <? 60) eqn:E1.
  - apply Z.ltb_lt in E1. cbn. repeat split; lia.
  - apply Z.ltb_ge in E1. destruct (r <? 3600) eqn:E2.
    + apply Z.ltb_lt in E2. cbn [hms_value hms_wf].
      pose proof (Z.div_mod r 60 ltac:(lia)). pose proof (Z.mod_pos_bound r 60 ltac:(lia)).
      assert (1 <= r / 60 < 60) by (split; [apply Z.div_le_lower_bound; lia|apply Z.div_lt_upper_bound; lia]).
      repeat split; lia.
    + apply Z.ltb_ge in E2. cbn [hms_value hms_wf].
      pose proof (Z.div_mod r 60 ltac:(lia)). pose proof (Z.mod_pos_bound r 60 ltac:(lia)).
      pose proof (Z.div_mod (r / 60) 60 ltac:(lia)). pose proof (Z.mod_pos_bound (r / 60) 60 ltac:(lia)).
      assert (1 <= r / 60 / 60) by (apply Z.div_le_lower_bound; [lia|]; apply Z.div_le_lower_bound; lia).
      repeat split; lia.
Qed.

Theorem hms_short d : (d < 10)%Q -> format_hms_struct d false = Millis (Qround_he (d * 1000)).
Proof. intros Hd. unfold format_hms_struct. assert (E : Qltb d 10 = true) by (apply Qltb_iff; exact Hd). rewrite E. reflexivity. Qed.

(* a millisecond input is formatted as the float quotient ms / 1000.0 in seconds *)
Theorem hms_millis d : format_hms d true = format_hms (rnd53 (d / 1000)) false.
Proof. reflexivity. Qed.
