(* C17, float layer.  max_rate_t3 locates the vertex of the rate parabola with a binary64 division.  For every rounding operator that is
   monotone and fixes binary64 numbers (round-to-nearest with any tie rule, and the directed roundings), the rounded quotient falls on
   the same side of every half-integer as the exact one and has the same ceiling: two distinct values N/(2J) and n/2 are at least
   1/(2J) apart, and whenever they are less than 1/2 apart |n| J is below 2^35, so a binary64 number lies between them.
   Hence the window test 1.5 < t_mid < time - 1.5 and math.ceil(t_mid) are decided as in exact arithmetic, and together with
   rate_t3_float_exact the float computation of max_rate_t3 equals the exact model on the whole domain. *)
From Plotink Require Import Base.Prelude Spec.Firmware Model.EbbCalc Model.EbbCalcRnd Proofs.EbbCalcProofs Proofs.EbbRndProofs.
Open Scope Z_scope.

Lemma Qdiv_lt_cross a b c d : 0 < b -> 0 < d -> (iz a / iz b < iz c / iz d)%Q <-> a * d < c * b.
Proof.
  intros Hb Hd. destruct b as [|b|b]; try lia. destruct d as [|d|d]; try lia.
  unfold Qlt, Qdiv, Qinv, Qmult, iz, inject_Z. cbn [Qnum Qden Z.mul Pos.mul]. rewrite !Z.mul_1_r. cbn. lia.
Qed.
Lemma Qdiv_le_cross a b c d : 0 < b -> 0 < d -> (iz a / iz b <= iz c / iz d)%Q <-> a * d <= c * b.
Proof.
  intros Hb Hd. destruct b as [|b|b]; try lia. destruct d as [|d|d]; try lia.
  unfold Qle, Qdiv, Qinv, Qmult, iz, inject_Z. cbn [Qnum Qden Z.mul Pos.mul]. rewrite !Z.mul_1_r. cbn. lia.
Qed.

Lemma pow2_log2_up j : 1 <= j -> j <= 2 ^ Z.log2_up j < 2 * j.
Proof.
  intros Hj. destruct (Z.eq_dec j 1) as [->|N]; [cbn; lia|].
  pose proof (Z.log2_up_spec j ltac:(lia)) as [L U]. split; [exact U|].
  replace (Z.log2_up j) with (Z.succ (Z.pred (Z.log2_up j))) by lia. rewrite Z.pow_succ_r; [lia|].
  assert (0 < Z.log2_up j) by (apply Z.log2_up_pos; lia). lia.
Qed.

Section FloatVertex.
Variable rnd : Q -> Q.
Hypothesis rnd_comp : forall x y, (x == y)%Q -> (rnd x == rnd y)%Q.
Hypothesis rnd_exact : forall x, rep53 x -> (rnd x == x)%Q.
Hypothesis rnd_mono : forall x y, (x <= y)%Q -> (rnd x <= rnd y)%Q.

Lemma rnd_gt x m h : rep53 m -> (h < m)%Q -> (m <= x)%Q -> (h < rnd x)%Q.
Proof. intros R H1 H2. pose proof (rnd_mono _ _ H2) as M. rewrite (rnd_exact m R) in M. lra. Qed.
Lemma rnd_lt x m h : rep53 m -> (m < h)%Q -> (x <= m)%Q -> (rnd x < h)%Q.
Proof. intros R H1 H2. pose proof (rnd_mono _ _ H2) as M. rewrite (rnd_exact m R) in M. lra. Qed.

(* a binary64 number strictly above n/2 and not above N/(2J), when n/2 < N/(2J) *)
Lemma between_up N J n : 0 < J <= 2 ^ 32 -> Z.abs N <= 2 ^ 34 -> Z.abs n <= 2 ^ 40 -> n * J < N ->
  exists m, rep53 m /\ (iz n / iz 2 < m)%Q /\ (m <= iz N / iz (2 * J))%Q.
Proof.
  intros HJ HN Hn H. change (2 ^ 32) with 4294967296 in *. change (2 ^ 34) with 17179869184 in *. change (2 ^ 40) with 1099511627776 in *.
  destruct (Z_le_gt_dec ((n + 1) * J) N) as [A|B].
  - exists (iz (n + 1) / iz 2)%Q. split; [|split].
    + exists (n + 1), 1. split; [lia|]. split; [change (2 ^ 53) with 9007199254740992; lia|reflexivity].
    + apply Qdiv_lt_cross; lia.
    + apply Qdiv_le_cross; lia.
  - set (e := Z.log2_up J). pose proof (pow2_log2_up J ltac:(lia)) as [P1 P2]. fold e in P1, P2.
    assert (He : 0 <= e) by apply Z.log2_up_nonneg.
    assert (Hp : 0 < 2 ^ e) by (apply Z.pow_pos_nonneg; lia).
    exists (iz (n * 2 ^ e + 1) / iz (2 ^ (e + 1)))%Q. rewrite Z.pow_add_r by lia. change (2 ^ 1) with 2.
    assert (BN : Z.abs n * J <= 34359738368).
    { assert (Z.abs (n * J) <= Z.abs N + J) by lia. rewrite Z.abs_mul, (Z.abs_eq J) in H0 by lia. lia. }
    assert (BE : Z.abs n * 2 ^ e <= 68719476736) by nia.
    split; [|split].
    + exists (n * 2 ^ e + 1), (e + 1). split; [lia|]. split; [|rewrite Z.pow_add_r by lia; reflexivity].
      change (2 ^ 53) with 9007199254740992. assert (Z.abs (n * 2 ^ e) <= 68719476736) by (rewrite Z.abs_mul, (Z.abs_eq (2 ^ e)) by lia; exact BE). lia.
    + apply Qdiv_lt_cross; lia.
    + apply Qdiv_le_cross; [lia|lia|]. nia.
Qed.
Lemma between_down N J n : 0 < J <= 2 ^ 32 -> Z.abs N <= 2 ^ 34 -> Z.abs n <= 2 ^ 40 -> N < n * J ->
  exists m, rep53 m /\ (m < iz n / iz 2)%Q /\ (iz N / iz (2 * J) <= m)%Q.
Proof.
  intros HJ HN Hn H. change (2 ^ 32) with 4294967296 in *. change (2 ^ 34) with 17179869184 in *. change (2 ^ 40) with 1099511627776 in *.
  destruct (Z_le_gt_dec N ((n - 1) * J)) as [A|B].
  - exists (iz (n - 1) / iz 2)%Q. split; [|split].
    + exists (n - 1), 1. split; [lia|]. split; [change (2 ^ 53) with 9007199254740992; lia|reflexivity].
    + apply Qdiv_lt_cross; lia.
    + apply Qdiv_le_cross; lia.
  - set (e := Z.log2_up J). pose proof (pow2_log2_up J ltac:(lia)) as [P1 P2]. fold e in P1, P2.
    assert (He : 0 <= e) by apply Z.log2_up_nonneg.
    assert (Hp : 0 < 2 ^ e) by (apply Z.pow_pos_nonneg; lia).
    exists (iz (n * 2 ^ e - 1) / iz (2 ^ (e + 1)))%Q. rewrite Z.pow_add_r by lia. change (2 ^ 1) with 2.
    assert (BN : Z.abs n * J <= 34359738368).
    { assert (Z.abs (n * J) <= Z.abs N + J) by lia. rewrite Z.abs_mul, (Z.abs_eq J) in H0 by lia. lia. }
    assert (BE : Z.abs n * 2 ^ e <= 68719476736) by nia.
    split; [|split].
    + exists (n * 2 ^ e - 1), (e + 1). split; [lia|]. split; [|rewrite Z.pow_add_r by lia; reflexivity].
      change (2 ^ 53) with 9007199254740992. assert (Z.abs (n * 2 ^ e) <= 68719476736) by (rewrite Z.abs_mul, (Z.abs_eq (2 ^ e)) by lia; exact BE). lia.
    + apply Qdiv_lt_cross; lia.
    + apply Qdiv_le_cross; [lia|lia|]. nia.
Qed.

Lemma Qltb_ext a b c d : ((a < b)%Q <-> (c < d)%Q) -> Qltb a b = Qltb c d.
Proof.
  intros H. destruct (Qltb a b) eqn:E1, (Qltb c d) eqn:E2; try reflexivity.
  - apply Qltb_iff in E1. apply H in E1. apply Qltb_iff in E1. congruence.
  - apply Qltb_iff in E2. apply H in E2. apply Qltb_iff in E2. congruence.
Qed.

Lemma rep53_int c : Z.abs c < 2 ^ 53 -> rep53 (iz c).
Proof. intros H. exists c, 0. split; [lia|]. split; [exact H|]. change (2 ^ 0) with 1. unfold Qdiv. change (/ iz 1)%Q with 1%Q. ring. Qed.

Section Quotient.
Variables (q : Q) (N J : Z).
Hypothesis HJ : 0 < J <= 2 ^ 32.
Hypothesis HN : Z.abs N <= 2 ^ 34.
Hypothesis Hq : (q == iz N / iz (2 * J))%Q.

Lemma half_lt_q n : (iz n / iz 2 < q)%Q <-> n * J < N.
Proof. rewrite Hq. rewrite Qdiv_lt_cross by lia. lia. Qed.
Lemma q_lt_half n : (q < iz n / iz 2)%Q <-> N < n * J.
Proof. rewrite Hq. rewrite Qdiv_lt_cross by lia. lia. Qed.
Lemma q_eq_half n : N = n * J -> (q == iz n / iz 2)%Q.
Proof.
  intros E. rewrite Hq, E. assert (NZ : ~ (iz J == 0)%Q) by (unfold iz, Qeq; simpl; lia).
  unfold iz. rewrite !inject_Z_mult. fold (iz n) (iz J). field. exact NZ.
Qed.

Lemma cmp_lo n : Z.abs n <= 2 ^ 40 -> Qltb (iz n / iz 2) (rnd q) = Qltb (iz n / iz 2) q.
Proof.
  intros Hn. apply Qltb_ext. rewrite half_lt_q.
  destruct (Z.lt_trichotomy (n * J) N) as [L|[E|G]].
  - destruct (between_up N J n HJ HN Hn L) as [m [R [M1 M2]]]. split; [intros _; exact L|intros _].
    apply (rnd_gt q m); [exact R|exact M1|rewrite Hq; exact M2].
  - pose proof (q_eq_half n (eq_sym E)) as Q1. rewrite (rnd_comp _ _ Q1).
    assert (R : rep53 (iz n / iz 2)) by (exists n, 1; split; [lia|]; split; [change (2 ^ 53) with 9007199254740992; change (2 ^ 40) with 1099511627776 in Hn; lia|reflexivity]).
    rewrite (rnd_exact _ R). split; [intros C; lra|lia].
  - destruct (between_down N J n HJ HN Hn G) as [m [R [M1 M2]]]. split; [|lia]. intros C. exfalso.
    assert (X : (rnd q < iz n / iz 2)%Q) by (apply (rnd_lt q m); [exact R|exact M1|rewrite Hq; exact M2]). lra.
Qed.
Lemma cmp_hi n : Z.abs n <= 2 ^ 40 -> Qltb (rnd q) (iz n / iz 2) = Qltb q (iz n / iz 2).
Proof.
  intros Hn. apply Qltb_ext. rewrite q_lt_half.
  destruct (Z.lt_trichotomy (n * J) N) as [L|[E|G]].
  - destruct (between_up N J n HJ HN Hn L) as [m [R [M1 M2]]]. split; [|lia]. intros C. exfalso.
    assert (X : (iz n / iz 2 < rnd q)%Q) by (apply (rnd_gt q m); [exact R|exact M1|rewrite Hq; exact M2]). lra.
  - pose proof (q_eq_half n (eq_sym E)) as Q1. rewrite (rnd_comp _ _ Q1).
    assert (R : rep53 (iz n / iz 2)) by (exists n, 1; split; [lia|]; split; [change (2 ^ 53) with 9007199254740992; change (2 ^ 40) with 1099511627776 in Hn; lia|reflexivity]).
    rewrite (rnd_exact _ R). split; [intros C; lra|lia].
  - destruct (between_down N J n HJ HN Hn G) as [m [R [M1 M2]]]. split; [intros _; exact G|intros _].
    apply (rnd_lt q m); [exact R|exact M1|rewrite Hq; exact M2].
Qed.

Lemma ceiling_unique y c : (inject_Z (c - 1) < y)%Q -> (y <= inject_Z c)%Q -> Qceiling y = c.
Proof.
  intros L U. pose proof (Qle_ceiling y) as A. pose proof (Qceiling_lt y) as B.
  assert (X1 : (inject_Z (c - 1) < inject_Z (Qceiling y))%Q) by lra.
  assert (X2 : (inject_Z (Qceiling y - 1) < inject_Z c)%Q) by lra.
  rewrite <- Zlt_Qlt in X1, X2. lia.
Qed.

Lemma half_int c : (iz (2 * c) / iz 2 == inject_Z c)%Q.
Proof. unfold iz. rewrite inject_Z_mult. field. Qed.

Lemma ceiling_bound : Z.abs (Qceiling q) <= 2 ^ 33 + 1.
Proof.
  pose proof (Qle_ceiling q) as A. pose proof (Qceiling_lt q) as B. set (c := Qceiling q) in *.
  rewrite <- (half_int c) in A. rewrite <- (half_int (c - 1)) in B.
  assert (A' : ~ (N > 2 * c * J)) by (intros C; apply Z.gt_lt in C; apply half_lt_q in C; lra).
  apply half_lt_q in B.
  change (2 ^ 32) with 4294967296 in *. change (2 ^ 34) with 17179869184 in *. change (2 ^ 33) with 8589934592.
  destruct (Z_le_gt_dec 0 c); nia.
Qed.

Lemma ceil_rnd : Qceiling (rnd q) = Qceiling q.
Proof.
  pose proof ceiling_bound as CB. pose proof (Qle_ceiling q) as A. pose proof (Qceiling_lt q) as B. set (c := Qceiling q) in *.
  change (2 ^ 33) with 8589934592 in CB.
  apply ceiling_unique.
  - rewrite <- (half_int (c - 1)) in B |- *. pose proof (cmp_lo (2 * (c - 1)) ltac:(change (2 ^ 40) with 1099511627776; lia)) as E.
    apply Qltb_iff. rewrite E. apply Qltb_iff. exact B.
  - pose proof (rnd_mono _ _ A) as M. fold (iz c) in M. rewrite (rnd_exact (iz c)) in M; [exact M|].
    apply rep53_int. change (2 ^ 53) with 9007199254740992. lia.
Qed.
End Quotient.

Lemma Qltb_comp a b c d : (a == c)%Q -> (b == d)%Q -> Qltb a b = Qltb c d.
Proof. intros E1 E2. apply Qltb_ext. rewrite E1, E2. reflexivity. Qed.

Lemma iz_nonzero j : j <> 0 -> ~ (iz j == 0)%Q.
Proof. intros H. unfold iz, Qeq. simpl. lia. Qed.

(* the vertex (jerk/2 - accel)/jerk as a fraction with a positive denominator *)
Lemma tmid_norm accel jerk : jerk <> 0 -> Z.abs accel <= 2 ^ 32 -> Z.abs jerk <= 2 ^ 32 ->
  exists N J, 0 < J <= 2 ^ 32 /\ Z.abs N <= 2 ^ 34 /\ ((iz jerk / 2 - iz accel) / iz jerk == iz N / iz (2 * J))%Q.
Proof.
  intros Hj Ha Hb. change (2 ^ 32) with 4294967296 in *. change (2 ^ 34) with 17179869184.
  pose proof (iz_nonzero jerk Hj) as NZ.
  destruct (Z_lt_le_dec jerk 0) as [L|G].
  - exists (2 * accel - jerk), (- jerk). split; [lia|]. split; [lia|].
    unfold iz in NZ. push_iz. field. exact NZ.
  - exists (jerk - 2 * accel), jerk. split; [lia|]. split; [lia|].
    unfold iz in NZ. push_iz. field. exact NZ.
Qed.

Theorem max_rate_t3_float_exact time rate accel jerk :
  0 <= time <= 2 ^ 32 -> Z.abs rate <= 2 ^ 34 -> Z.abs accel <= 2 ^ 32 -> Z.abs jerk <= 2 ^ 32 ->
  Z.abs (2 * accel - jerk) * time <= 2 ^ 50 -> Z.abs jerk * time * time <= 2 ^ 50 ->
  max_rate_t3_r rnd time rate accel jerk = max_rate_t3 time rate accel jerk.
Proof.
  intros Ht Hr Ha Hj Hat Hjt. unfold max_rate_t3_r, max_rate_t3.
  assert (R1 : rate_t3_r rnd 1 rate accel jerk = rate_t3 1 rate accel jerk).
  { apply (rate_t3_float_exact rnd rnd_comp rnd_exact); try assumption;
      change (2 ^ 32) with 4294967296 in *; change (2 ^ 50) with 1125899906842624; lia. }
  rewrite R1. destruct (time <=? 1) eqn:E1; [reflexivity|]. apply Z.leb_gt in E1.
  rewrite (rate_t3_float_exact rnd rnd_comp rnd_exact time rate accel jerk Ht Hr Ha Hj Hat Hjt).
  destruct (jerk =? 0) eqn:Ej; [reflexivity|]. apply Z.eqb_neq in Ej. cbv zeta.
  destruct (tmid_norm accel jerk Ej Ha Hj) as [N [J [HJ [HN Hq]]]].
  set (q := ((iz jerk / 2 - iz accel) / iz jerk)%Q) in *.
  pose proof (iz_nonzero jerk Ej) as NZ.
  assert (P53 : 2 ^ 53 = 9007199254740992) by reflexivity.
  assert (F1 : (rnd (iz jerk / 2) == iz jerk / 2)%Q).
  { apply (rnd_id53 rnd rnd_comp rnd_exact); [reflexivity|apply rep53_half]. change (2 ^ 32) with 4294967296 in *. lia. }
  assert (F2 : (rnd (rnd (iz jerk / 2) - iz accel) == iz (jerk - 2 * accel) / 2)%Q).
  { apply (rnd_id53 rnd rnd_comp rnd_exact); [rewrite F1; push_iz; field|apply rep53_half]. change (2 ^ 32) with 4294967296 in *. lia. }
  assert (F3 : (rnd (rnd (iz jerk / 2) - iz accel) / iz jerk == q)%Q).
  { rewrite F2. unfold q. push_iz. field. exact NZ. }
  pose proof (rnd_comp _ _ F3) as T.
  assert (FH : (rnd (iz time - (3 # 2)) == iz (2 * time - 3) / iz 2)%Q).
  { apply (rnd_id53 rnd rnd_comp rnd_exact); [push_iz; field|apply rep53_half]. change (2 ^ 32) with 4294967296 in *. lia. }
  assert (XH : (iz time - (3 # 2) == iz (2 * time - 3) / iz 2)%Q) by (push_iz; field).
  assert (C1 : Qltb (3 # 2) (rnd (rnd (rnd (iz jerk / 2) - iz accel) / iz jerk)) = Qltb (3 # 2) q).
  { rewrite (Qltb_comp _ _ (iz 3 / iz 2) (rnd q)); [|reflexivity|exact T].
    rewrite (cmp_lo q N J HJ HN Hq 3); [reflexivity|]. change (2 ^ 40) with 1099511627776. lia. }
  assert (C2 : Qltb (rnd (rnd (rnd (iz jerk / 2) - iz accel) / iz jerk)) (rnd (iz time - (3 # 2))) = Qltb q (iz time - (3 # 2))).
  { rewrite (Qltb_comp _ _ (rnd q) (iz (2 * time - 3) / iz 2) T FH).
    rewrite (cmp_hi q N J HJ HN Hq (2 * time - 3)); [|change (2 ^ 40) with 1099511627776; change (2 ^ 32) with 4294967296 in *; lia].
    apply Qltb_comp; [reflexivity|symmetry; exact XH]. }
  rewrite C1, C2.
  destruct (Qltb (3 # 2) q) eqn:W1; [|reflexivity]. destruct (Qltb q (iz time - (3 # 2))) eqn:W2; [|reflexivity]. cbn [andb].
  rewrite (Qceiling_comp _ _ T), (ceil_rnd q N J HJ HN Hq).
  apply Qltb_iff in W1. apply Qltb_iff in W2.
  pose proof (Qle_ceiling q) as A. pose proof (Qceiling_lt q) as B. set (c := Qceiling q) in *.
  assert (Hc : 2 <= c <= time).
  { assert (X1 : (inject_Z 1 < inject_Z c)%Q) by (change (inject_Z 1) with 1%Q; lra).
    assert (X2 : (inject_Z (c - 1) < inject_Z time)%Q) by (fold (iz time); lra).
    rewrite <- Zlt_Qlt in X1, X2. lia. }
  rewrite (rate_t3_float_exact rnd rnd_comp rnd_exact c rate accel jerk); try assumption; [reflexivity|lia| |].
  - apply Z.le_trans with (Z.abs (2 * accel - jerk) * time); [|exact Hat]. apply Z.mul_le_mono_nonneg_l; lia.
  - apply Z.le_trans with (Z.abs jerk * time * time); [|exact Hjt]. rewrite <- !Z.mul_assoc. apply Z.mul_le_mono_nonneg_l; [lia|]. nia.
Qed.
End FloatVertex.
