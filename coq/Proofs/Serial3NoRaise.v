(* C05: no public request method raises on silence, device error lines, mismatched replies or I/O faults.  A raise in the model of a
   request method can only come from parsing the payload of a name-correct, error-free reply (or from an argument error: a blank request
   text, a value outside the 32-bit range); when every line the script can deliver is a failing reply for the request names involved - blank,
   containing "Err:", or not beginning with the name - and for any placement of faults, each of the 30 request methods returns normally. *)
From Plotink Require Import Base.Prelude Base.PyStr Model.Serial3 Proofs.Serial3Proofs.
Open Scope Z_scope.

(* ---------- what a request can read comes from the script ---------- *)
Definition tail_of (sc' sc : script) : Prop := forall e, In e sc' -> In e sc.
Lemma tail_refl sc : tail_of sc sc. Proof. intros e H; exact H. Qed.
Lemma tail_trans a b c : tail_of a b -> tail_of b c -> tail_of a c. Proof. intros H1 H2 e H. apply H2, H1, H. Qed.
Lemma tail_cons e sc : tail_of sc (e :: sc). Proof. intros x H. right. exact H. Qed.

Lemma readline_from sc y sc2 : readline sc = (y, sc2) -> tail_of sc2 sc /\ (forall r, y = RLine r -> r = [] \/ In (Line r) sc).
Proof.
  destruct sc as [|[l| |] t]; cbn [readline]; intros E; inversion E; subst; (split; [try apply tail_refl; try apply tail_cons|]); intros r Hr; inversion Hr; subst; auto.
  right. left. reflexivity.
Qed.
Lemma write_from sc b sc1 : write_ok sc = (b, sc1) -> tail_of sc1 sc.
Proof. destruct sc as [|[l| |] t]; cbn [write_ok]; intros E; inversion E; subst; try apply tail_refl; apply tail_cons. Qed.

Lemma retry_from n : forall r0 sc x sc', retry n r0 sc = (x, sc') ->
  tail_of sc' sc /\ (forall r, x = RLine r -> r = r0 \/ r = [] \/ exists l, In (Line l) sc /\ r = strip l).
Proof.
  induction n as [|n IH]; intros r0 sc x sc' E; cbn [retry] in E.
  - inversion E; subst. split; [apply tail_refl|]. intros r Hr; inversion Hr; auto.
  - destruct r0 as [|c0 r0'].
    + destruct (readline sc) as [[l|] sc1] eqn:R.
      * destruct (readline_from _ _ _ R) as [T1 F1]. destruct (IH _ _ _ _ E) as [T2 F2]. split; [eapply tail_trans; eassumption|].
        intros r Hr. destruct (F2 r Hr) as [H|[H|(l' & I & H)]].
        -- subst r. destruct (F1 l eq_refl) as [Z|I]; [subst l; right; left; reflexivity|right; right; exists l; split; [exact I|reflexivity]].
        -- right; left; exact H.
        -- right; right; exists l'; split; [apply T1, I|exact H].
      * inversion E; subst. destruct (readline_from _ _ _ R) as [T1 _]. split; [exact T1|]. intros r Hr; discriminate Hr.
    + inversion E; subst. split; [apply tail_refl|]. intros r Hr; inversion Hr; auto.
Qed.

Lemma write_read_from line sc w x sc' : write_read line sc = (w, x, sc') ->
  tail_of sc' sc /\ (forall r, x = RLine r -> r = [] \/ exists l, In (Line l) sc /\ r = strip l).
Proof.
  unfold write_read. destruct (write_ok sc) as [wok sc1] eqn:W. pose proof (write_from _ _ _ W) as T0. destruct wok.
  - destruct (readline sc1) as [[l|] sc2] eqn:R.
    + destruct (readline_from _ _ _ R) as [T1 F1]. destruct (retry 25 (strip l) sc2) as [x3 sc3] eqn:RT. intros E; inversion E; subst.
      destruct (retry_from _ _ _ _ _ RT) as [T2 F2]. split; [eapply tail_trans; [exact T2|eapply tail_trans; eassumption]|].
      intros r Hr. destruct (F2 r Hr) as [H|[H|(l' & I & H)]].
      * subst r. destruct (F1 l eq_refl) as [Z|I]; [subst l; left; reflexivity|right; exists l; split; [apply T0, I|reflexivity]].
      * left; exact H.
      * right; exists l'; split; [apply T0, T1, I|exact H].
    + intros E; inversion E; subst. destruct (readline_from _ _ _ R) as [T1 _]. split; [eapply tail_trans; eassumption|]. intros r Hr; discriminate Hr.
  - intros E; inversion E; subst. split; [exact T0|]. intros r Hr; discriminate Hr.
Qed.

(* ---------- failing replies: silence, device error lines, mismatched replies ---------- *)
Definition bad_line (nm l : text) : Prop := let t := strip l in t = [] \/ contains t (T "Err:") = true \/ startswith t nm = false.
Definition bad_for (nm : text) (sc : script) : Prop := forall l, In (Line l) sc -> bad_line nm l.
Lemma bad_tail nm sc' sc : tail_of sc' sc -> bad_for nm sc -> bad_for nm sc'.
Proof. intros Ht H l I. apply H, Ht, I. Qed.

Lemma startswith_nil nm : nm <> [] -> startswith [] nm = false.
Proof. destruct nm; [congruence|reflexivity]. Qed.
Lemma cmd_name_nonempty c nm : cmd_name c = Some nm -> nm <> [].
Proof. destruct c as [|a [|b t]]; cbn [cmd_name]; intros E; try discriminate; [inversion E; discriminate|destruct (b =? 44); inversion E; discriminate]. Qed.

(* a query that meets only failing replies (or faults) returns None, never raises, and records the failure *)
Lemma query_fails s q sc nm : cmd_name (strip q) = Some nm -> bad_for nm sc ->
  exists s' w sc', query s q sc = (s', Ret None, w, sc') /\ tail_of sc' sc /\ (blocked s = false -> err s' <> None).
Proof.
  intros Hn Hb. pose proof (cmd_name_nonempty _ _ Hn) as Hne. unfold query. destruct (blocked s) eqn:B.
  - exists s, [], sc. split; [reflexivity|]. split; [apply tail_refl|discriminate].
  - rewrite Hn. destruct (write_read (strip q) sc) as [[wr io] sc'] eqn:W. destruct (write_read_from _ _ _ _ _ W) as [Tl Fr].
    assert (Hs : err s = None) by (unfold blocked in B; apply orb_false_iff in B; destruct B as [_ B]; destruct (err s); [discriminate|reflexivity]).
    assert (Rec : forall k, err (record_error s k) <> None) by (intros k; unfold record_error; rewrite Hs; cbn; discriminate).
    destruct io as [r|].
    + assert (C : contains r (T "Err:") || negb (startswith r nm) = true).
      { destruct (Fr r eq_refl) as [Z|(l & I & E)].
        - subst r. rewrite (startswith_nil nm Hne). apply orb_true_r.
        - subst r. destruct (Hb l I) as [Z|[Z|Z]]; cbv zeta in Z; [rewrite Z, (startswith_nil nm Hne); apply orb_true_r|rewrite Z; reflexivity|rewrite Z; apply orb_true_r]. }
      rewrite C. eexists _, _, _. split; [reflexivity|]. split; [exact Tl|intros _; apply Rec].
    + destruct (reboot_like nm).
      * rewrite (startswith_nil nm Hne). rewrite orb_true_r. eexists _, _, _. split; [reflexivity|]. split; [exact Tl|intros _; apply Rec].
      * eexists _, _, _. split; [reflexivity|]. split; [exact Tl|intros _; apply Rec].
Qed.

(* a command never raises when its text is not blank, whatever the script; what it leaves is a tail of the script *)
Lemma command_total s t sc : cmd_name (strip t) <> None -> exists s' b w sc', command s t sc = (s', Ret b, w, sc') /\ tail_of sc' sc.
Proof.
  intros Hn. unfold command. destruct (blocked s); [exists s, false, [], sc; split; [reflexivity|apply tail_refl]|].
  destruct (cmd_name (strip t)) as [nm|]; [|congruence].
  destruct (write_read (strip t) sc) as [[wr io] sc'] eqn:W. destruct (write_read_from _ _ _ _ _ W) as [Tl _].
  destruct io; repeat eexists; exact Tl.
Qed.

(* texts the library builds begin with a letter: they are never blank *)
Lemma lstrip_nil_ws x : lstrip x = [] -> forall y, In y x -> is_ws y = true.
Proof. induction x as [|c t IH]; cbn [lstrip]; [intros _ y []|]. destruct (is_ws c) eqn:E; [|discriminate]. intros H y [Y|Y]; [subst y; exact E|apply IH; assumption]. Qed.
Lemma strip_nonblank c t : is_ws c = false -> strip (c :: t) <> [].
Proof.
  intros Hc. unfold strip. cbn [lstrip]. rewrite Hc. unfold rstrip. intros E.
  assert (L : lstrip (rev (c :: t)) = []) by (destruct (lstrip (rev (c :: t))); [reflexivity|cbn in E; destruct (rev l); discriminate]).
  pose proof (lstrip_nil_ws _ L c ltac:(apply in_rev; rewrite rev_involutive; left; reflexivity)) as W. congruence.
Qed.
Lemma cmd_name_some c : c <> [] -> cmd_name c <> None.
Proof. destruct c as [|a [|b t]]; [congruence| |]; cbn [cmd_name]; [discriminate|destruct (b =? 44); discriminate]. Qed.
Lemma built_text_named c t : is_ws c = false -> cmd_name (strip (c :: t)) <> None.
Proof. intros H. apply cmd_name_some, strip_nonblank, H. Qed.

(* ---------- building blocks of the request methods ---------- *)
Ltac eval_T :=
  repeat match goal with
  | |- context [T ?s] => let v := eval vm_compute in (T s) in change (T s) with v
  end.
Ltac named := unfold cat; eval_T; cbn [concat app]; apply built_text_named; reflexivity.

Definition total {A} (r : res A) (sc : script) : Prop := exists s' v w sc', r = (s', Ret v, w, sc') /\ tail_of sc' sc.

Lemma cmd_rv_total s line sc : cmd_name (strip line) <> None -> total (cmd_rv s line sc) sc.
Proof. intros H. unfold cmd_rv. destruct (command_total s line sc H) as (s' & b & w & sc' & E & Tl). rewrite E. repeat eexists. exact Tl. Qed.
Lemma simple_cmd_total s line sc : cmd_name (strip line) <> None -> total (simple_cmd s line sc) sc.
Proof. intros H. unfold simple_cmd, guarded. destruct (blocked s); [repeat eexists; apply tail_refl|apply cmd_rv_total, H]. Qed.
Lemma seq_rv_total r1 k sc : total r1 sc -> (forall s1 sc1, tail_of sc1 sc -> total (k s1 sc1) sc1) -> total (seq_rv r1 k) sc.
Proof.
  intros (s1 & v & w & sc1 & E & T1) Hk. subst r1. unfold seq_rv. destruct (Hk s1 sc1 T1) as (s2 & v2 & w2 & sc2 & E2 & T2). rewrite E2.
  repeat eexists. eapply tail_trans; eassumption.
Qed.

Lemma pause_loop_S f s n sc w : pause_loop (S f) s n sc w =
  if n <=? 0 then (s, Ret RNone, w, sc) else
  let d := if 750 <? n then 750 else Z.max n 1 in
  let '(s1, o, w1, sc1) := cmd_rv s (cat [T "SM,"; str_of_Z d; T ",0,0"]) sc in
  match o with Raise e => (s1, Raise e, w ++ w1, sc1) | Ret _ => pause_loop f s1 (n - d) sc1 (w ++ w1) end.
Proof. reflexivity. Qed.
Lemma pause_loop_total : forall f s n sc w, n <= 750 * Z.of_nat f -> total (pause_loop (S f) s n sc w) sc.
Proof.
  induction f as [|f IH]; intros s n sc w Hn; rewrite pause_loop_S; (destruct (Z.leb_spec n 0) as [L|G]; [repeat eexists; apply tail_refl|]).
  - exfalso. cbn in Hn. lia.
  - cbv zeta. set (d := if 750 <? n then 750 else Z.max n 1).
    assert (cmd_name (strip (cat [T "SM,"; str_of_Z d; T ",0,0"])) <> None) as Hc by named.
    destruct (cmd_rv_total s _ sc Hc) as (s1 & v & w1 & sc1 & E & T1). rewrite E.
    assert (Hd : n - d <= 750 * Z.of_nat f) by (unfold d; destruct (Z.ltb_spec 750 n); lia).
    destruct (IH s1 (n - d) sc1 (w ++ w1) Hd) as (s2 & v2 & w2 & sc2 & E2 & T2). rewrite E2. repeat eexists. eapply tail_trans; eassumption.
Qed.
Lemma timed_pause_total s n sc : total (timed_pause s n sc) sc.
Proof.
  unfold timed_pause, guarded. destruct (blocked s); [repeat eexists; apply tail_refl|]. apply pause_loop_total.
  destruct (Z_lt_le_dec n 0) as [N|P]; [lia|]. rewrite Z2Nat.id by (pose proof (Z.div_pos n 750 P ltac:(lia)); lia).
  pose proof (Z.div_mod n 750 ltac:(lia)). pose proof (Z.mod_pos_bound n 750 ltac:(lia)). lia.
Qed.

(* ---------- the methods that parse a payload: a failing query gives the failure value ---------- *)
Lemma var_read_total s i sc : (forall nm, cmd_name (strip (cat [T "QL,"; str_of_Z i])) = Some nm -> bad_for nm sc) -> total (var_read s i sc) sc.
Proof.
  intros Hb. unfold var_read. destruct (blocked s) eqn:B; [repeat eexists; apply tail_refl|].
  assert (cmd_name (strip (cat [T "QL,"; str_of_Z i])) <> None) as Hc by named.
  destruct (cmd_name (strip (cat [T "QL,"; str_of_Z i]))) as [nm|] eqn:N; [|congruence].
  destruct (query_fails s _ sc nm N (Hb nm eq_refl)) as (s1 & w & sc1 & E & Tl & Er). rewrite E.
  specialize (Er B). unfold err_free. destruct (err s1); [|congruence]. cbn [negb]. repeat eexists. exact Tl.
Qed.

Definition qbad (t : text) (sc : script) : Prop := forall nm, cmd_name (strip t) = Some nm -> bad_for nm sc.
Lemma qbad_tail t sc' sc : tail_of sc' sc -> qbad t sc -> qbad t sc'.
Proof. intros Ht H nm E. eapply bad_tail; [exact Ht|apply H, E]. Qed.

(* a library query text (begins with a letter) against failing replies: Ret None, error recorded *)
Lemma lib_query_fails s c t sc : is_ws c = false -> qbad (c :: t) sc ->
  exists s' w sc', query s (c :: t) sc = (s', Ret None, w, sc') /\ tail_of sc' sc /\ (blocked s = false -> err s' <> None).
Proof.
  intros Hc Hb. pose proof (built_text_named c t Hc) as Hn. destruct (cmd_name (strip (c :: t))) as [nm|] eqn:N; [|congruence].
  exact (query_fails s _ sc nm N (Hb nm N)).
Qed.
Ltac as_cons := unfold cat; eval_T; cbn [concat app].

Lemma var_read_seq_total : forall n s i sc w acc, (forall j, qbad (cat [T "QL,"; str_of_Z j]) sc) -> total (var_read_seq s n i sc w acc) sc.
Proof.
  induction n as [|n IH]; intros s i sc w acc Hb; cbn [var_read_seq]; [repeat eexists; apply tail_refl|].
  destruct (var_read_total s i sc (Hb i)) as (s1 & v & w1 & sc1 & E & T1). rewrite E.
  destruct (IH s1 (i + 1) sc1 (w ++ w1) (v :: acc) (fun j => qbad_tail _ _ _ T1 (Hb j))) as (s2 & v2 & w2 & sc2 & E2 & T2). rewrite E2.
  repeat eexists. eapply tail_trans; eassumption.
Qed.

Lemma var_read_int32_total s i sc : (forall j, qbad (cat [T "QL,"; str_of_Z j]) sc) -> total (var_read_int32 s i sc) sc.
Proof.
  intros Hb. unfold var_read_int32. destruct (blocked s) eqn:B; [repeat eexists; apply tail_refl|].
  (* the first read fails and records the error; the remaining three are silent *)
  cbn [var_read_seq]. unfold var_read at 1. rewrite B.
  assert (HQ : exists c t, cat [T "QL,"; str_of_Z i] = c :: t /\ is_ws c = false) by (as_cons; eexists _, _; split; reflexivity).
  destruct HQ as (c & t & Eq & Hc). pose proof (Hb i) as Hbi. rewrite Eq in *.
  destruct (lib_query_fails s c t sc Hc Hbi) as (s1 & w & sc1 & E & Tl & Er). rewrite E. specialize (Er B).
  assert (B1 : blocked s1 = true) by (unfold blocked; destruct (err s1); [apply orb_true_r|congruence]).
  assert (F1 : err_free s1 = false) by (unfold err_free; destruct (err s1); [reflexivity|congruence]).
  rewrite F1. cbn [negb]. unfold var_read. rewrite !B1. cbn [app rev]. rewrite F1. cbn [negb]. repeat eexists. exact Tl.
Qed.

Lemma var_write_total s v i sc : total (var_write s v i sc) sc.
Proof.
  unfold var_write. destruct (blocked s); [repeat eexists; apply tail_refl|].
  assert (cmd_name (strip (cat [T "SL,"; str_of_Z v; T ","; str_of_Z i])) <> None) as Hc by named.
  destruct (command_total s _ sc Hc) as (s1 & b & w & sc1 & E & Tl). rewrite E. repeat eexists. exact Tl.
Qed.
Lemma var_write_seq_total : forall bs s i sc w, total (var_write_seq s bs i sc w) sc.
Proof.
  induction bs as [|b bs IH]; intros s i sc w; cbn [var_write_seq]; [repeat eexists; apply tail_refl|].
  destruct (var_write_total s b i sc) as (s1 & v & w1 & sc1 & E & T1). rewrite E.
  destruct (IH s1 (i + 1) sc1 (w ++ w1)) as (s2 & v2 & w2 & sc2 & E2 & T2). rewrite E2. repeat eexists. eapply tail_trans; eassumption.
Qed.

Lemma motors_query_total s sc : qbad (T "QE") sc -> total (motors_query_enabled s sc) sc.
Proof.
  intros Hb. unfold motors_query_enabled, guarded. destruct (blocked s) eqn:B; [repeat eexists; apply tail_refl|].
  assert (HQ : exists c t, T "QE" = c :: t /\ is_ws c = false) by (eval_T; eexists _, _; split; reflexivity).
  destruct HQ as (c & t & Eq & Hc). rewrite Eq in *.
  destruct (lib_query_fails s c t sc Hc Hb) as (s1 & w & sc1 & E & Tl & _). rewrite E. repeat eexists. exact Tl.
Qed.

Lemma motors_query_none s sc : qbad (T "QE") sc -> exists s' w sc', motors_query_enabled s sc = (s', Ret RNone, w, sc') /\ tail_of sc' sc.
Proof.
  intros Hb. unfold motors_query_enabled, guarded. destruct (blocked s) eqn:B; [repeat eexists; apply tail_refl|].
  assert (HQ : exists c t, T "QE" = c :: t /\ is_ws c = false) by (eval_T; eexists _, _; split; reflexivity).
  destruct HQ as (c & t & Eq & Hc). rewrite Eq in *.
  destruct (lib_query_fails s c t sc Hc Hb) as (s1 & w & sc1 & E & Tl & _). rewrite E. repeat eexists. exact Tl.
Qed.

Ltac lib_query name st Hb B :=
  let c := fresh "c" in let t := fresh "t" in let Eq := fresh "Eq" in let Hc := fresh "Hc" in
  assert (HQ : exists c t, name = c :: t /\ is_ws c = false) by (as_cons; eexists _, _; split; reflexivity);
  destruct HQ as (c & t & Eq & Hc); rewrite Eq in *;
  let s1 := fresh "s1" in let w := fresh "w" in let sc1 := fresh "sc1" in let E := fresh "E" in let Tl := fresh "Tl" in let Er := fresh "Er" in
  destruct (lib_query_fails st c t _ Hc Hb) as (s1 & w & sc1 & E & Tl & Er); rewrite E; specialize (Er B).

Theorem request_methods_no_raise c s k sc :
  is_request k = true ->
  match k with
  | CCommand t => cmd_name (strip t) <> None                      (* a blank request text is an argument error, not a reply failure *)
  | CQuery t => cmd_name (strip t) <> None /\ qbad t sc
  | CVarRead i => qbad (cat [T "QL,"; str_of_Z i]) sc
  | CVarRead32 _ => forall j, qbad (cat [T "QL,"; str_of_Z j]) sc
  | CVarWrite32 v _ => - 2147483648 <= v <= 2147483647            (* to_bytes raises OverflowError outside the 32-bit range: an argument error *)
  | CMotorsQuery | CMotorsOn _ _ => qbad (T "QE") sc
  | CSteps => qbad (T "QS") sc
  | CBRead p => qbad (cat [T "PI,B,"; str_of_Z p]) sc
  | CVoltage _ | CCurrent => qbad (T "QC") sc /\ fix_volt c = true
  | _ => True
  end ->
  exists s' v w sc', step c s k sc = (s', Ret v, w, sc').
Proof.
  intros R H. destruct k; cbn [is_request] in R; try discriminate R; cbn [step].
  - (* command *) destruct (command_total s c0 sc H) as (s1 & b & w & sc1 & E & _). unfold lift_bool. rewrite E. repeat eexists.
  - (* query *) destruct H as [Hn Hb]. destruct (cmd_name (strip q)) as [nm|] eqn:N; [|congruence].
    destruct (query_fails s q sc nm N (Hb nm N)) as (s1 & w & sc1 & E & _ & _). unfold lift_otext. rewrite E. repeat eexists.
  - (* status *) destruct (primitives_no_raise c s (T "QG") sc ltac:(vm_compute; discriminate)) as (_ & _ & (s1 & v & w & sc1 & E)). rewrite E. repeat eexists.
  - (* reboot *) unfold reboot, raw_write_then_close. destruct (blocked s); [repeat eexists|]. destruct (write_ok sc) as [[|] sc1]; repeat eexists.
  - (* bootload *) unfold bootload, raw_write_then_close. destruct (blocked s); [repeat eexists|]. destruct (write_ok sc) as [[|] sc1]; repeat eexists.
  - (* var_write *) destruct (var_write_total s v i sc) as (s1 & b & w & sc1 & E & _). unfold lift_bool. rewrite E. repeat eexists.
  - (* var_read *) destruct (var_read_total s i sc H) as (s1 & v & w & sc1 & E & _). rewrite E. repeat eexists.
  - (* var_write_int32 *) unfold var_write_int32. destruct (blocked s); [repeat eexists|]. unfold to_bytes4.
    destruct (Z.ltb_spec v (-2147483648)); [lia|]. destruct (Z.ltb_spec 2147483647 v); [lia|]. cbn [orb].
    destruct (var_write_seq_total [v mod 4294967296 / 16777216; (v mod 4294967296 / 65536) mod 256; (v mod 4294967296 / 256) mod 256; (v mod 4294967296) mod 256] s i sc [])
      as (s1 & u & w & sc1 & E & _). rewrite E. repeat eexists.
  - (* var_read_int32 *) destruct (var_read_int32_total s i sc H) as (s1 & v & w & sc1 & E & _). rewrite E. repeat eexists.
  - (* query_nickname *) unfold query_nickname. destruct (blocked s); [repeat eexists|].
    destruct (primitives_no_raise c s (T "QT") sc ltac:(vm_compute; discriminate)) as (_ & (s1 & v & w & sc1 & E) & _). rewrite E. destruct v; repeat eexists.
  - (* write_nickname *) unfold write_nickname. destruct n as [n0|]; [|repeat eexists]. destruct (blocked s); [repeat eexists|].
    assert (cmd_name (strip (T "ST," ++ strip n0)) <> None) as Hc by (eval_T; cbn [app]; apply built_text_named; reflexivity).
    destruct (command_total s _ sc Hc) as (s1 & b & w & sc1 & E & _). rewrite E. destruct (fix_nick c && negb b); repeat eexists.
  - (* timed_pause *) destruct (timed_pause_total s n sc) as (s1 & v & w & sc1 & E & _). rewrite E. repeat eexists.
  - (* xy_move *) unfold xy_move. destruct (simple_cmd_total s (cat [T "SM,"; str_of_Z dur; T ","; str_of_Z dy; T ","; str_of_Z dx]) sc ltac:(named)) as (s1 & v & w & sc1 & E & _). rewrite E. repeat eexists.
  - (* abs_move *) unfold abs_move. destruct p1, p2;
      match goal with |- context [simple_cmd s ?l sc] => destruct (simple_cmd_total s l sc ltac:(named)) as (s1 & v & w & sc1 & E & _); rewrite E; repeat eexists end.
  - (* motors_disable *) unfold motors_disable. destruct (simple_cmd_total s (T "EM,0,0") sc ltac:(eval_T; apply built_text_named; reflexivity)) as (s1 & v & w & sc1 & E & _). rewrite E. repeat eexists.
  - (* motors_enable *) unfold motors_enable, guarded. destruct (blocked s); [repeat eexists|]. cbv zeta.
    set (q1 := clamp05 r1). set (q2 := clamp05 r2).
    match goal with |- exists s' v w sc', seq_rv ?r1 ?k = _ => assert (X : total (seq_rv r1 k) sc) end.
    { apply seq_rv_total.
      - destruct (negb (q1 =? q2) && (q1 * q2 =? 0)); [apply cmd_rv_total; eval_T; apply built_text_named; reflexivity|repeat eexists; apply tail_refl].
      - intros s1 sc1 T1. destruct ((q1 =? 0) && negb (q2 =? 0)); [|apply cmd_rv_total; named].
        destruct (motors_query_none s1 sc1 (qbad_tail _ _ _ T1 H)) as (s2 & w & sc2 & E & T2). rewrite E. repeat eexists. exact T2. }
    destruct X as (s1 & v & w & sc1 & E & _). rewrite E. repeat eexists.
  - (* motors_query *) destruct (motors_query_total s sc H) as (s1 & v & w & sc1 & E & _). rewrite E. repeat eexists.
  - (* query_steps *) unfold query_steps, guarded. destruct (blocked s) eqn:B; [repeat eexists|]. lib_query (T "QS") s H B.
    unfold err_free. destruct (err s1); [|congruence]. cbn [negb]. repeat eexists.
  - (* clear_steps *) unfold clear_steps. destruct (simple_cmd_total s (T "CS") sc ltac:(eval_T; apply built_text_named; reflexivity)) as (s1 & v & w & sc1 & E & _). rewrite E. repeat eexists.
  - (* clear_acc *) unfold clear_accumulators. destruct (simple_cmd_total s (T "T3,1,0,0,0,0,0,0,3") sc ltac:(eval_T; apply built_text_named; reflexivity)) as (s1 & v & w & sc1 & E & _). rewrite E. repeat eexists.
  - (* pen_lower *) unfold pen_lower, pen_cmd. match goal with |- context [simple_cmd s ?l sc] => destruct (simple_cmd_total s l sc ltac:(destruct pin as [p|]; [destruct (fix_pin c); [|destruct (negb (p =? 0))]|]; named)) as (s1 & v & w & sc1 & E & _); rewrite E; repeat eexists end.
  - (* pen_raise *) unfold pen_raise, pen_cmd. match goal with |- context [simple_cmd s ?l sc] => destruct (simple_cmd_total s l sc ltac:(destruct pin as [p|]; [destruct (fix_pin c); [|destruct (negb (p =? 0))]|]; named)) as (s1 & v & w & sc1 & E & _); rewrite E; repeat eexists end.
  - (* dio_b_config *) unfold dio_b_config, guarded. destruct (blocked s); [repeat eexists|].
    assert (X : total (seq_rv (cmd_rv s (cat [T "PO,B,"; str_of_Z pin; T ","; str_of_Z st]) sc) (fun s1 sc1 => cmd_rv s1 (cat [T "PD,B,"; str_of_Z pin; T ","; str_of_Z dir]) sc1)) sc).
    { apply seq_rv_total; [apply cmd_rv_total; named|intros s1 sc1 _; apply cmd_rv_total; named]. }
    destruct X as (s1 & v & w & sc1 & E & _). rewrite E. repeat eexists.
  - (* dio_b_set *) unfold dio_b_set. destruct (simple_cmd_total s (cat [T "PO,B,"; str_of_Z pin; T ","; str_of_Z st]) sc ltac:(named)) as (s1 & v & w & sc1 & E & _). rewrite E. repeat eexists.
  - (* dio_b_read *) unfold dio_b_read, guarded. destruct (blocked s) eqn:B; [repeat eexists|]. lib_query (cat [T "PI,B,"; str_of_Z pin]) s H B. repeat eexists.
  - unfold pen_pos_down. destruct (simple_cmd_total s (cat [T "SC,5,"; str_of_Z v]) sc ltac:(named)) as (s1 & u & w & sc1 & E & _). rewrite E. repeat eexists.
  - unfold pen_pos_up. destruct (simple_cmd_total s (cat [T "SC,4,"; str_of_Z v]) sc ltac:(named)) as (s1 & u & w & sc1 & E & _). rewrite E. repeat eexists.
  - unfold pen_rate_down. destruct (simple_cmd_total s (cat [T "SC,12,"; str_of_Z v]) sc ltac:(named)) as (s1 & u & w & sc1 & E & _). rewrite E. repeat eexists.
  - unfold pen_rate_up. destruct (simple_cmd_total s (cat [T "SC,11,"; str_of_Z v]) sc ltac:(named)) as (s1 & u & w & sc1 & E & _). rewrite E. repeat eexists.
  - (* servo_timeout *) unfold servo_timeout. destruct st; match goal with |- context [simple_cmd s ?l sc] => destruct (simple_cmd_total s l sc ltac:(named)) as (s1 & v & w & sc1 & E & _); rewrite E; repeat eexists end.
  - (* voltage *) destruct H as [Hb Fv]. unfold query_voltage, guarded, qc. destruct (blocked s) eqn:B; [repeat eexists|]. lib_query (T "QC") s Hb B. rewrite Fv. repeat eexists.
  - (* current *) destruct H as [Hb Fv]. unfold query_current, guarded, qc. destruct (blocked s) eqn:B; [repeat eexists|]. lib_query (T "QC") s Hb B. rewrite Fv. repeat eexists.
Qed.

