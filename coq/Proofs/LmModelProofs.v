(* C03, part 3: the specification has the same mirror symmetry; hence the model is correct on backward-starting moves as well, and
   on every request inside the property's domain (legacy negative budgets included) its answer passes lm_check - i.e. it is the
   first tick that exhausts the step budget, with the recurrence's position and accumulator.  For all integers. *)
From Coq Require Import ZArith Bool Lia.
From Plotink Require Import Spec.Firmware Spec.LmSpec Spec.LmCheck Model.LmModel Proofs.LmModelFwd Proofs.LmModelMirror.
Open Scope Z_scope.

(* ------------------------------------------------------------------ *)
(* ---- the specification is symmetric under (r0, a, acc) -> (-r0, -a, 2^31-1 - acc) ---- *)
Lemma ctotal_mirror r0 a acc k : ctotal (- r0) (- a) (M31 - acc) k = M31 - ctotal r0 a acc k.
Proof. unfold ctotal. ring. Qed.
Lemma div_mirror F : (M31 - F) / B31 = - (F / B31).
Proof.
  pose proof (Z.div_mod F B31 ltac:(discriminate)) as D. pose proof (Z.mod_pos_bound F B31 eq_refl) as M.
  symmetry. apply (Z.div_unique _ _ _ (M31 - F mod B31)); unfold M31, B31 in *; lia.
Qed.
Lemma cpos_mirror r0 a acc k : cpos (- r0) (- a) (M31 - acc) k = - cpos r0 a acc k.
Proof. unfold cpos. rewrite ctotal_mirror. apply div_mirror. Qed.
Lemma csteps_mirror r0 a acc k : csteps (- r0) (- a) (M31 - acc) k = csteps r0 a acc k.
Proof.
  unfold csteps, krev. cbv zeta. rewrite !cpos_mirror.
  replace (- r0 + - a) with (- (r0 + a)) by ring. set (r1 := r0 + a).
  assert (A1 : forall x y, Z.abs (- x - - y) = Z.abs (x - y)) by (intros; lia).
  destruct (Z.eqb_spec a 0), (Z.eqb_spec (- a) 0); try lia.
  destruct (Z.ltb_spec 0 r1), (Z.eqb_spec r1 0), (Z.ltb_spec 0 a), (Z.ltb_spec 0 (- r1)), (Z.eqb_spec (- r1) 0), (Z.ltb_spec 0 (- a)), (Z.ltb_spec a 0), (Z.ltb_spec (- a) 0);
    try lia; cbn [andb orb]; rewrite ?Z.opp_involutive, ?cpos_mirror; try apply A1.
  all: repeat match goal with |- context [if ?b then _ else _] => destruct b end; rewrite ?A1; reflexivity.
Qed.

Lemma front_none st rate a : lm_front st rate a None =
  lm_front st rate a (Some (if (rate - Z.quot a 2 + a <? 0) || ((rate - Z.quot a 2 + a =? 0) && (a <? 0)) then M31 else 0)).
Proof. reflexivity. Qed.

(* ---- the model on a normalised request ---- *)
Theorem core st rate a accum : 0 < st -> (rate <> 0 \/ a <> 0) ->
  let r0 := lt_start rate a in
  let acc := match accum with Some c => c | None => lt_clear r0 a end in
  let m := lm_front st rate a accum in let T := lm_time rate a m in
  0 <= acc < B31 -> Z.abs (r0 + a) <= M31 -> Z.abs (r0 + a * T) <= M31 -> good st r0 a acc m T.
Proof.
  intros Hst Hnz r0 acc m T Hacc H1 HT. unfold lt_start in r0.
  assert (Hr : r0 + a <> 0 \/ a <> 0).
  { destruct (Z.eq_dec a 0) as [->|]; [|right; assumption]. left. unfold r0. cbn. lia. }
  destruct (Z_lt_ge_dec 0 (r0 + a)) as [P|P]; [|destruct (Z.eq_dec (r0 + a) 0) as [Z0|Z0]; [destruct (Z_lt_ge_dec 0 a) as [P2|P2]|]].
  1,2: (* forward *)
    assert (Hpos : 0 < r0 + a \/ (r0 + a = 0 /\ 0 < a)) by lia;
    assert (Eacc : acc = match accum with Some c => c | None => 0 end)
      by (unfold acc, lt_clear; destruct accum; [reflexivity|]; destruct (Z.ltb_spec (r0 + a) 0); [lia|]; destruct (Z.eqb_spec (r0 + a) 0); [destruct (Z.ltb_spec a 0); [lia|reflexivity]|reflexivity]);
    rewrite Eacc in *;
    destruct (Z.lt_trichotomy a 0) as [Ha|[Ha|Ha]];
    [ destruct (Z_le_gt_dec st (cpos r0 a (match accum with Some c => c | None => 0 end) (r0 / - a)));
      [apply (time_down_before st rate a accum Hst Hpos Hacc H1 Ha); assumption|apply (time_down_after st rate a accum Hpos Hacc Ha); [apply Z.gt_lt; assumption|exact HT]]
    | apply (time_const st rate a accum Hst Hpos Hacc H1 Ha); exact HT
    | apply (time_accel st rate a accum Hst Hpos Hacc H1 Ha); exact HT ].
  all: (* backward: mirror image *)
    assert (Hneg : ((rate - Z.quot a 2 + a <? 0) || ((rate - Z.quot a 2 + a =? 0) && (a <? 0))) = true)
      by (fold r0; destruct (Z.ltb_spec (r0 + a) 0); [reflexivity|]; destruct (Z.eqb_spec (r0 + a) 0); [|lia]; destruct (Z.ltb_spec a 0); [reflexivity|lia]);
    assert (Eacc : acc = match accum with Some c => c | None => M31 end)
      by (unfold acc, lt_clear; destruct accum; [reflexivity|]; destruct (Z.ltb_spec (r0 + a) 0); [reflexivity|]; destruct (Z.eqb_spec (r0 + a) 0); [|lia]; destruct (Z.ltb_spec a 0); [reflexivity|lia]);
    assert (Em : m = lm_front st rate a (Some acc))
      by (unfold m; destruct accum; [reflexivity|]; rewrite front_none, Hneg, Eacc; reflexivity);
    assert (Hpos' : 0 < (- rate - Z.quot (- a) 2) + - a \/ ((- rate - Z.quot (- a) 2) + - a = 0 /\ 0 < - a))
      by (rewrite Z.quot_opp_l by lia; fold r0; lia);
    assert (Hacc' : 0 <= match Some (M31 - acc) with Some c => c | None => 0 end < B31) by (unfold M31, B31 in *; lia);
    assert (H1' : Z.abs ((- rate - Z.quot (- a) 2) + - a) <= M31) by (rewrite Z.quot_opp_l by lia; fold r0; lia);
    assert (G : good st (- rate - Z.quot (- a) 2) (- a) (M31 - acc) (lm_front st (- rate) (- a) (Some (M31 - acc))) (lm_time (- rate) (- a) (lm_front st (- rate) (- a) (Some (M31 - acc))))).
  1,3: (
    destruct (Z.lt_trichotomy (- a) 0) as [Ha|[Ha|Ha]];
    [ destruct (Z_le_gt_dec st (cpos (- rate - Z.quot (- a) 2) (- a) (M31 - acc) ((- rate - Z.quot (- a) 2) / - - a)));
      [apply (time_down_before st (- rate) (- a) (Some (M31 - acc)) Hst Hpos' Hacc' H1' Ha); assumption
      |apply (time_down_after st (- rate) (- a) (Some (M31 - acc)) Hpos' Hacc' Ha); [apply Z.gt_lt; assumption|]]
    | apply (time_const st (- rate) (- a) (Some (M31 - acc)) Hst Hpos' Hacc' H1' Ha)
    | apply (time_accel st (- rate) (- a) (Some (M31 - acc)) Hst Hpos' Hacc' H1' Ha) ];
    rewrite front_mirror by (fold r0; lia); rewrite time_mirror; rewrite <- Em; fold T;
    rewrite Z.quot_opp_l by lia; fold r0; replace (- rate - - (a ÷ 2) + - a * T) with (- (r0 + a * T)) by (unfold r0; ring); lia).
  all: rewrite front_mirror in G by (fold r0; lia); rewrite time_mirror in G; rewrite <- Em in G; fold T in G;
    rewrite Z.quot_opp_l in G by lia; replace (- rate - - (a ÷ 2)) with (- r0) in G by (unfold r0; ring);
    unfold good in *; rewrite !csteps_mirror, cpos_mirror in G; unfold mirror in G; cbn [m_pos m_acc] in G;
    destruct G as (G1 & G2 & G3 & G4 & G5); repeat split; try assumption; lia.
Qed.

(* ------------------------------------------------------------------ *)
Theorem lm_model_correct steps rate accel accum :
  let '(T, p, c) := lm_model steps rate accel accum in
  lm_domain steps rate accel accum T = true -> lm_check steps rate accel accum T p c = true.
Proof.
  unfold lm_model, lm_check, lm_domain, lm_normalise.
  destruct ((steps =? 0) || ((rate =? 0) && (accel =? 0))) eqn:E1; [intros _; reflexivity|].
  destruct ((steps <? 0) && (rate <? 0)) eqn:E2; [intros _; reflexivity|].
  apply orb_false_iff in E1. destruct E1 as [E1a E1b]. apply Z.eqb_neq in E1a.
  assert (Hnz : rate <> 0 \/ accel <> 0).
  { apply andb_false_iff in E1b. destruct E1b as [E|E]; apply Z.eqb_neq in E; [left|right]; exact E. }
  set (tr := if steps <? 0 then (- steps, - rate, - accel) else (steps, rate, accel)).
  assert (Htr : exists st rt ac, tr = (st, rt, ac) /\ 0 < st /\ (rt <> 0 \/ ac <> 0)).
  { unfold tr. destruct (Z.ltb_spec steps 0); [exists (- steps), (- rate), (- accel)|exists steps, rate, accel]; (split; [reflexivity|split; lia]). }
  destruct Htr as (st & rt & ac & -> & Hst & Hnz'). cbv beta iota.
  pose proof (core st rt ac accum Hst Hnz') as G. cbv zeta in G.
  set (r0 := lt_start rt ac) in *. set (acc := match accum with Some c => c | None => lt_clear r0 ac end) in *.
  set (m := lm_front st rt ac accum) in *. set (T := lm_time rt ac m) in *.
  replace (rt - ac ÷ 2) with r0 by reflexivity.
  rewrite !andb_true_iff, !Z.leb_le, !Z.ltb_lt. intros [[[A1 A2] A3] A4].
  specialize (G ltac:(lia) A3 A4). destruct G as (G1 & G2 & G3 & G4 & G5).
  rewrite !Z.eqb_eq. repeat split; try assumption.
  rewrite G5, G4. unfold cpos. rewrite Z.mod_eq by discriminate. unfold ctotal. ring.
Qed.

(* in terms of the tick-by-tick specification *)
Corollary lm_model_meets_spec steps rate accel accum T p c :
  lm_model steps rate accel accum = (T, p, c) -> lm_domain steps rate accel accum T = true ->
  lm_check steps rate accel accum T p c = true.
Proof. intros E. pose proof (lm_model_correct steps rate accel accum) as H. rewrite E in H. exact H. Qed.

(* the hypotheses are met by concrete non-trivial requests: a move that reverses, one that does not, a legacy request *)
Example lm_model_nonvacuous :
  lm_model 1 9 (-1) (Some 0) = (18, -1, 2147483639) /\ lm_domain 1 9 (-1) (Some 0) 18 = true /\
  lm_model 2 4271570 (-3429980) None = (37, -2, 2105194076) /\ lm_domain 2 4271570 (-3429980) None 37 = true /\
  lm_model 26 110000000 40000000 None = (51, 26, 1795425152) /\ lm_domain 26 110000000 40000000 None 51 = true /\
  lm_model (-5) 1000000000 0 None = (11, -5, 1884901887) /\ lm_domain (-5) 1000000000 0 None 11 = true.
Proof. vm_compute. repeat split; reflexivity. Qed.
