From Plotink Require Import Base.Prelude Model.Grid.
From Coq Require Import Arith.
Open Scope Z_scope.

(* ---------- floors of numbers at most 1 apart are adjacent ---------- *)
Lemma floor_near (u v : Q) : (Qabs (u - v) <= 1)%Q -> Z.abs (Qfloor u - Qfloor v) <= 1.
Proof.
  intros H. apply Qabs_Qle_condition in H. destruct H as [H1 H2].
  pose proof (Qfloor_le u) as A1. pose proof (Qlt_floor u) as A2.
  pose proof (Qfloor_le v) as B1. pose proof (Qlt_floor v) as B2.
  rewrite inject_Z_plus in A2, B2. change (inject_Z 1) with 1%Q in A2, B2.
  assert (C1: (inject_Z (Qfloor u) < inject_Z (Qfloor v) + 2)%Q) by lra.
  assert (C2: (inject_Z (Qfloor v) < inject_Z (Qfloor u) + 2)%Q) by lra.
  change 2%Q with (inject_Z 2) in C1, C2. rewrite <- inject_Z_plus in C1, C2. rewrite <- Zlt_Qlt in C1, C2. lia.
Qed.

(* ---------- the adjacency list is exactly the Chebyshev-1 neighbourhood, for every bins >= 1 ---------- *)
Ltac Zify.zify_post_hook ::= Z.to_euclidean_division_equations.
Lemma In_adj b x y e : 1 <= b -> 0 <= x < b -> 0 <= y < b ->
  (In e (adjacent b (x + b*y)) <-> exists dx dy, -1 <= dx <= 1 /\ -1 <= dy <= 1 /\ 0 <= x+dx < b /\ 0 <= y+dy < b /\ e = x + b*y + dx + b*dy).
Proof.
  intros Hb Hx Hy. unfold adjacent. cbv zeta.
  assert (Ex: (x + b*y) mod b = x). { replace (x + b*y) with (x + y*b) by ring. rewrite Z.mod_add by lia. apply Z.mod_small; lia. }
  assert (Ey: (x + b*y) / b = y). { replace (x + b*y) with (x + y*b) by ring. rewrite Z.div_add by lia. rewrite Z.div_small by lia. reflexivity. }
  rewrite Ex, Ey. set (i := x + b*y).
  destruct (Z.ltb_spec 0 x) as [A|A]; destruct (Z.ltb_spec x (b-1)) as [B|B]; destruct (Z.ltb_spec 0 y) as [C|C]; destruct (Z.ltb_spec y (b-1)) as [D|D];
  cbn [app In]; (split; [intros H | intros (dx & dy & Hdx & Hdy & Rx & Ry & ->)]).
  all: try (repeat match goal with H : _ \/ _ |- _ => destruct H | H : False |- _ => contradiction end; subst e;
            first [ exists 0, 0; lia | exists (-1), 0; lia | exists 1, 0; lia | exists 0, (-1); lia | exists 0, 1; lia
                  | exists (-1), (-1); lia | exists (-1), 1; lia | exists 1, (-1); lia | exists 1, 1; lia ]).
  all: assert (Hd: dx = -1 \/ dx = 0 \/ dx = 1) by lia; assert (He: dy = -1 \/ dy = 0 \/ dy = 1) by lia;
       destruct Hd as [-> | [-> | ->]]; destruct He as [-> | [-> | ->]]; try lia;
       try solve [repeat (first [left; lia | right]); lia].
Qed.
Theorem adjacent_spec b x y x' y' : 1 <= b -> 0 <= x < b -> 0 <= y < b -> 0 <= x' < b -> 0 <= y' < b ->
  (In (x' + b * y') (adjacent b (x + b * y)) <-> Z.abs (x - x') <= 1 /\ Z.abs (y - y') <= 1).
Proof.
  intros Hb Hx Hy Hx' Hy'. rewrite In_adj by assumption. split.
  - intros (dx & dy & Hdx & Hdy & Rx & Ry & E).
    assert (E2: b * (y' - y - dy) = x + dx - x') by (rewrite !Z.mul_sub_distr_l; lia).
    assert (E3: y' - y - dy = 0) by nia. rewrite E3, Z.mul_0_r in E2. lia.
  - intros [H1 H2]. exists (x' - x), (y' - y). repeat split; first [lia | rewrite Z.mul_sub_distr_l; lia].
Qed.
Ltac Zify.zify_post_hook ::= idtac.

(* ---------- nearest() against the contents of the grid ---------- *)
Section Scan.
Variable ix : index.
Variable q : pt.
Definition dist (id : nat) : Q := sqdist q (end_pt ix id).
Definition cell_ids (c : Z) : list nat := nth (Z.to_nat c) (grid ix) [].

(* a scan result: None, or the first strict minimum seen so far *)
Definition best_ok (seen : list nat) (best : option (Q * nat)) : Prop :=
  match best with
  | None => seen = []
  | Some (d, id) => In id seen /\ (d == dist id)%Q /\ forall e, In e seen -> (d <= dist e)%Q
  end.

Lemma scan_ids_ok ids : forall seen best, best_ok seen best -> best_ok (seen ++ ids) (scan_ids ix q best ids).
Proof.
  induction ids as [|i ids IH]; intros seen best H; cbn [scan_ids fold_left].
  - rewrite app_nil_r. exact H.
  - replace (seen ++ i :: ids) with ((seen ++ [i]) ++ ids) by (rewrite <- app_assoc; reflexivity).
    apply IH. fold (dist i). destruct best as [[bd bid]|].
    + destruct H as (Hin & Hd & Hmin). destruct (Qltb (dist i) bd) eqn:E.
      * apply Qltb_iff in E. cbn. split; [apply in_or_app; right; left; reflexivity|]. split; [reflexivity|].
        intros e He. apply in_app_or in He. destruct He as [He|[<-|[]]]; [specialize (Hmin e He); lra|lra].
      * apply Qltb_false in E. cbn. split; [apply in_or_app; left; exact Hin|]. split; [exact Hd|].
        intros e He. apply in_app_or in He. destruct He as [He|[<-|[]]]; [exact (Hmin e He)|exact E].
    + cbn in H. subst seen. cbn. split; [left; reflexivity|]. split; [reflexivity|]. intros e [<-|[]]. lra.
Qed.

Lemma scan_cells_ok cells : forall seen best, best_ok seen best ->
  best_ok (seen ++ flat_map cell_ids cells) (scan_cells ix q best cells).
Proof.
  induction cells as [|c cells IH]; intros seen best H; cbn [scan_cells fold_left flat_map].
  - rewrite app_nil_r. exact H.
  - rewrite app_assoc. apply IH. apply scan_ids_ok. exact H.
Qed.

Definition nb := adjacent (bins ix) (qcell ix q).
Definition all_cells := map Z.of_nat (seq 0 (length (grid ix))).
Definition others := filter (fun c => negb (existsb (Z.eqb c) nb)) all_cells.
Definition nb_ids := flat_map cell_ids nb.
Definition all_ids := nb_ids ++ flat_map cell_ids others.

(* what nearest() returns, in terms of the ids stored in the neighbourhood cells and in the other cells *)
Theorem nearest_wrt_grid :
  match nearest ix q with
  | None => all_ids = []
  | Some e => In e all_ids /\ (forall e', In e' nb_ids -> (dist e <= dist e')%Q) /\
              (nb_ids = [] -> forall e', In e' all_ids -> (dist e <= dist e')%Q)
  end.
Proof.
  unfold nearest. fold nb. fold all_cells. fold others.
  pose proof (scan_cells_ok nb [] None eq_refl) as H1. cbn [app] in H1. fold nb_ids in H1.
  destruct (scan_cells ix q None nb) as [[d0 id0]|] eqn:E1.
  - destruct H1 as (Hin & Hd & Hmin).
    destruct id0 as [|k].
    + (* id 0 is falsy: the scan continues over the other cells, keeping the best distance *)
      pose proof (scan_cells_ok others nb_ids (Some (d0, 0%nat)) (conj Hin (conj Hd Hmin))) as H2. fold all_ids in H2.
      destruct (scan_cells ix q (Some (d0, 0%nat)) others) as [[d1 id1]|] eqn:E2.
      * destruct H2 as (Hin2 & Hd2 & Hmin2). split; [exact Hin2|]. split.
        -- intros e' He'. rewrite <- Hd2. apply Hmin2. unfold all_ids. apply in_or_app. left. exact He'.
        -- intros _ e' He'. rewrite <- Hd2. apply Hmin2. exact He'.
      * unfold best_ok in H2. exact H2.
    + split; [unfold all_ids; apply in_or_app; left; exact Hin|]. split.
      * intros e' He'. rewrite <- Hd. apply Hmin. exact He'.
      * intros Hn. rewrite Hn in Hin. contradiction.
  - unfold best_ok in H1. pose proof (scan_cells_ok others nb_ids None H1) as H2. fold all_ids in H2.
    destruct (scan_cells ix q None others) as [[d1 id1]|] eqn:E2.
    + destruct H2 as (Hin2 & Hd2 & Hmin2). split; [exact Hin2|]. split.
      * intros e' He'. rewrite H1 in He'. contradiction.
      * intros _ e' He'. rewrite <- Hd2. apply Hmin2. exact He'.
    + unfold best_ok in H2. exact H2.
Qed.
End Scan.
