From Plotink Require Import Base.Prelude Model.Grid.
From Coq Require Import Arith.
Open Scope Z_scope.

(* ---------- floors of numbers at most 1 apart are adjacent ---------- *)
Lemma floor_near (u v : Q) : (Qabs (u - v) <= 1)%Q -> Z.abs (Qfloor u - Qfloor v) <= 1.
Proof.
  intros H. apply Qabs_Qle_condition in H. destruct H as [H1 H2].
  pose proof (Qfloor_le u) as A1. pose proof (Qlt_floor u) as A2.
  pose proof (Qfloor_le v) as B1. pose proof (Qlt_floor v) as B2.
  rewrite inject_Z_plus in A2, B2. change (inject_Z 1) with 1%Q in A2, B2.
  assert (C1: (inject_Z (Qfloor u) < inject_Z (Qfloor v) + 2)%Q) by lra.
  assert (C2: (inject_Z (Qfloor v) < inject_Z (Qfloor u) + 2)%Q) by lra.
  change 2%Q with (inject_Z 2) in C1, C2. rewrite <- inject_Z_plus in C1, C2. rewrite <- Zlt_Qlt in C1, C2. lia.
Qed.

(* ---------- the adjacency list is exactly the Chebyshev-1 neighbourhood, for every bins >= 1 ---------- *)
Ltac Zify.zify_post_hook ::= Z.to_euclidean_division_equations.
Lemma In_adj b x y e : 1 <= b -> 0 <= x < b -> 0 <= y < b ->
  (In e (adjacent b (x + b*y)) <-> exists dx dy, -1 <= dx <= 1 /\ -1 <= dy <= 1 /\ 0 <= x+dx < b /\ 0 <= y+dy < b /\ e = x + b*y + dx + b*dy).
Proof.
  intros Hb Hx Hy. unfold adjacent. cbv zeta.
  assert (Ex: (x + b*y) mod b = x). { replace (x + b*y) with (x + y*b) by ring. rewrite Z.mod_add by lia. apply Z.mod_small; lia. }
  assert (Ey: (x + b*y) / b = y). { replace (x + b*y) with (x + y*b) by ring. rewrite Z.div_add by lia. rewrite Z.div_small by lia. reflexivity. }
  rewrite Ex, Ey. set (i := x + b*y).
  destruct (Z.ltb_spec 0 x) as [A|A]; destruct (Z.ltb_spec x (b-1)) as [B|B]; destruct (Z.ltb_spec 0 y) as [C|C]; destruct (Z.ltb_spec y (b-1)) as [D|D];
  cbn [app In]; (split; [intros H | intros (dx & dy & Hdx & Hdy & Rx & Ry & ->)]).
  all: try (repeat match goal with H : _ \/ _ |- _ => destruct H | H : False |- _ => contradiction end; subst e;
            first [ exists 0, 0; lia | exists (-1), 0; lia | exists 1, 0; lia | exists 0, (-1); lia | exists 0, 1; lia
                  | exists (-1), (-1); lia | exists (-1), 1; lia | exists 1, (-1); lia | exists 1, 1; lia ]).
  all: assert (Hd: dx = -1 \/ dx = 0 \/ dx = 1) by lia; assert (He: dy = -1 \/ dy = 0 \/ dy = 1) by lia;
       destruct Hd as [-> | [-> | ->]]; destruct He as [-> | [-> | ->]]; try lia;
       try solve [repeat (first [left; lia | right]); lia].
Qed.
Theorem adjacent_spec b x y x' y' : 1 <= b -> 0 <= x < b -> 0 <= y < b -> 0 <= x' < b -> 0 <= y' < b ->
  (In (x' + b * y') (adjacent b (x + b * y)) <-> Z.abs (x - x') <= 1 /\ Z.abs (y - y') <= 1).
Proof.
  intros Hb Hx Hy Hx' Hy'. rewrite In_adj by assumption. split.
  - intros (dx & dy & Hdx & Hdy & Rx & Ry & E).
    assert (E2: b * (y' - y - dy) = x + dx - x') by (rewrite !Z.mul_sub_distr_l; lia).
    assert (E3: y' - y - dy = 0) by nia. rewrite E3, Z.mul_0_r in E2. lia.
  - intros [H1 H2]. exists (x' - x), (y' - y). repeat split; first [lia | rewrite Z.mul_sub_distr_l; lia].
Qed.
Ltac Zify.zify_post_hook ::= idtac.

(* ---------- nearest() against the contents of the grid ---------- *)
Section Scan.
Variable ix : index.
Variable q : pt.
Definition dist (id : nat) : Q := sqdist q (end_pt ix id).
Definition cell_ids (c : Z) : list nat := nth (Z.to_nat c) (grid ix) [].

(* a scan result: None, or the first strict minimum seen so far *)
Definition best_ok (seen : list nat) (best : option (Q * nat)) : Prop :=
  match best with
  | None => seen = []
  | Some (d, id) => In id seen /\ (d == dist id)%Q /\ forall e, In e seen -> (d <= dist e)%Q
  end.

Lemma scan_ids_ok ids : forall seen best, best_ok seen best -> best_ok (seen ++ ids) (scan_ids ix q best ids).
Proof.
  induction ids as [|i ids IH]; intros seen best H; cbn [scan_ids fold_left].
  - rewrite app_nil_r. exact H.
  - replace (seen ++ i :: ids) with ((seen ++ [i]) ++ ids) by (rewrite <- app_assoc; reflexivity).
    apply IH. fold (dist i). destruct best as [[bd bid]|].
    + destruct H as (Hin & Hd & Hmin). destruct (Qltb (dist i) bd) eqn:E.
      * apply Qltb_iff in E. cbn. split; [apply in_or_app; right; left; reflexivity|]. split; [reflexivity|].
        intros e He. apply in_app_or in He. destruct He as [He|[<-|[]]]; [specialize (Hmin e He); lra|lra].
      * apply Qltb_false in E. cbn. split; [apply in_or_app; left; exact Hin|]. split; [exact Hd|].
        intros e He. apply in_app_or in He. destruct He as [He|[<-|[]]]; [exact (Hmin e He)|exact E].
    + cbn in H. subst seen. cbn. split; [left; reflexivity|]. split; [reflexivity|]. intros e [<-|[]]. lra.
Qed.

Lemma scan_cells_ok cells : forall seen best, best_ok seen best ->
  best_ok (seen ++ flat_map cell_ids cells) (scan_cells ix q best cells).
Proof.
  induction cells as [|c cells IH]; intros seen best H; cbn [scan_cells fold_left flat_map].
  - rewrite app_nil_r. exact H.
  - rewrite app_assoc. apply IH. apply scan_ids_ok. exact H.
Qed.

Definition nb := adjacent (bins ix) (qcell ix q).
Definition all_cells := map Z.of_nat (seq 0 (length (grid ix))).
Definition others := filter (fun c => negb (existsb (Z.eqb c) nb)) all_cells.
Definition nb_ids := flat_map cell_ids nb.
Definition all_ids := nb_ids ++ flat_map cell_ids others.

(* what nearest() returns, in terms of the ids stored in the neighbourhood cells and in the other cells *)
Theorem nearest_wrt_grid :
  match nearest ix q with
  | None => all_ids = []
  | Some e => In e all_ids /\ (forall e', In e' nb_ids -> (dist e <= dist e')%Q) /\
              (nb_ids = [] -> forall e', In e' all_ids -> (dist e <= dist e')%Q)
  end.
Proof.
  unfold nearest. fold nb. fold all_cells. fold others.
  pose proof (scan_cells_ok nb [] None eq_refl) as H1. cbn [app] in H1. fold nb_ids in H1.
  destruct (scan_cells ix q None nb) as [[d0 id0]|] eqn:E1.
  - destruct H1 as (Hin & Hd & Hmin).
    destruct id0 as [|k].
    + (* id 0 is falsy: the scan continues over the other cells, keeping the best distance *)
      pose proof (scan_cells_ok others nb_ids (Some (d0, 0%nat)) (conj Hin (conj Hd Hmin))) as H2. fold all_ids in H2.
      destruct (scan_cells ix q (Some (d0, 0%nat)) others) as [[d1 id1]|] eqn:E2.
      * destruct H2 as (Hin2 & Hd2 & Hmin2). split; [exact Hin2|]. split.
        -- intros e' He'. rewrite <- Hd2. apply Hmin2. unfold all_ids. apply in_or_app. left. exact He'.
        -- intros _ e' He'. rewrite <- Hd2. apply Hmin2. exact He'.
      * unfold best_ok in H2. exact H2.
    + split; [unfold all_ids; apply in_or_app; left; exact Hin|]. split.
      * intros e' He'. rewrite <- Hd. apply Hmin. exact He'.
      * intros Hn. rewrite Hn in Hin. contradiction.
  - unfold best_ok in H1. pose proof (scan_cells_ok others nb_ids None H1) as H2. fold all_ids in H2.
    destruct (scan_cells ix q None others) as [[d1 id1]|] eqn:E2.
    + destruct H2 as (Hin2 & Hd2 & Hmin2). split; [exact Hin2|]. split.
      * intros e' He'. rewrite H1 in He'. contradiction.
      * intros _ e' He'. rewrite <- Hd2. apply Hmin2. exact He'.
    + unfold best_ok in H2. exact H2.
Qed.
End Scan.

(* ================= the grid invariant: construction ================= *)
Section Fold.
Context {E : Type}.
Variables (key : E -> nat) (val : E -> nat).
Lemma set_nth_length {A} n (f : A -> A) l : length (set_nth n f l) = length l.
Proof. revert n. induction l as [|x l IH]; intros [|n]; cbn; try reflexivity. rewrite IH. reflexivity. Qed.
Lemma nth_set_nth {A} (d : A) n f l c : (n < length l)%nat ->
  nth c (set_nth n f l) d = if Nat.eqb c n then f (nth n l d) else nth c l d.
Proof.
  revert n c. induction l as [|x l IH]; intros n c H; cbn in H; [lia|].
  destruct n as [|n]; destruct c as [|c]; cbn; try reflexivity.
  rewrite IH by lia. reflexivity.
Qed.
Definition place (g : list (list nat)) (e : E) := set_nth (key e) (fun l => l ++ [val e]) g.
Lemma fold_place_length es : forall g, length (fold_left place es g) = length g.
Proof. induction es as [|e es IH]; intros g; cbn; [reflexivity|]. rewrite IH. apply set_nth_length. Qed.
Lemma fold_place_spec es : forall g c, (forall e, In e es -> (key e < length g)%nat) ->
  nth c (fold_left place es g) [] = nth c g [] ++ map val (filter (fun e => Nat.eqb (key e) c) es).
Proof.
  induction es as [|e es IH]; intros g c H; cbn [fold_left filter map].
  - rewrite app_nil_r. reflexivity.
  - rewrite IH by (intros e' He'; unfold place; rewrite set_nth_length; apply H; right; exact He').
    unfold place at 1. rewrite nth_set_nth by (apply H; left; reflexivity).
    rewrite (Nat.eqb_sym c (key e)). destruct (Nat.eqb (key e) c) eqn:Ek.
    + apply Nat.eqb_eq in Ek. subst c. cbn [map]. rewrite <- app_assoc. reflexivity.
    + reflexivity.
Qed.
End Fold.

(* the ends inserted by the constructor, in insertion order: (id, point) *)
Definition ends_of (vs : list path) (reverse : bool) : list (nat * pt) :=
  let n := length vs in
  flat_map (fun ip => let '(i, p) := ip in if reverse then [(i, fst p); ((n + i)%nat, snd p)] else [(i, fst p)]) (combine (seq 0 n) vs).

(* extent lemmas: the folded minimum is below every element, the maximum above *)
Lemma fold_pymin_le l : forall x0 y, (In y l \/ y = x0) -> (fold_left pymin l x0 <= y)%Q.
Proof.
  induction l as [|a l IH]; intros x0 y H; cbn [fold_left].
  - destruct H as [[] | ->]. apply Qle_refl.
  - destruct (pymin_spec x0 a) as (M1 & M2 & _).
    destruct H as [[<- | H] | ->].
    + eapply Qle_trans; [apply IH; right; reflexivity|exact M2].
    + apply IH. left. exact H.
    + eapply Qle_trans; [apply IH; right; reflexivity|exact M1].
Qed.
Lemma fold_pymax_ge l : forall x0 y, (In y l \/ y = x0) -> (y <= fold_left pymax l x0)%Q.
Proof.
  induction l as [|a l IH]; intros x0 y H; cbn [fold_left].
  - destruct H as [[] | ->]. apply Qle_refl.
  - destruct (pymax_spec x0 a) as (M1 & M2 & _).
    destruct H as [[<- | H] | ->].
    + eapply Qle_trans; [exact M2|apply IH; right; reflexivity].
    + apply IH. left. exact H.
    + eapply Qle_trans; [exact M1|apply IH; right; reflexivity].
Qed.
Lemma fold_min_spec l m y : fold_min l = Some m -> In y l -> (m <= y)%Q.
Proof. destruct l as [|a l]; cbn; [discriminate|]. intros H Hy. injection H as <-. apply fold_pymin_le. destruct Hy as [<- | Hy]; [right; reflexivity|left; exact Hy]. Qed.
Lemma fold_max_spec l m y : fold_max l = Some m -> In y l -> (y <= m)%Q.
Proof. destruct l as [|a l]; cbn; [discriminate|]. intros H Hy. injection H as <-. apply fold_pymax_ge. destruct Hy as [<- | Hy]; [right; reflexivity|left; exact Hy]. Qed.

(* a coordinate inside the extent falls in a column 0..b-1 *)
Lemma cell_coord_range v lo bs b : (0 < bs)%Q -> (lo <= v)%Q -> 1 <= b -> 0 <= cell_coord v lo bs (b - 1) <= b - 1.
Proof.
  intros Hbs Hv Hb. unfold cell_coord.
  assert (0 <= Qfloor ((v - lo) / bs)).
  { assert (Q0 : (0 <= (v - lo) / bs)%Q) by (apply Qle_shift_div_l; lra).
    apply Qfloor_resp_le in Q0. exact Q0. }
  lia.
Qed.

(* ---------- what the constructor builds ---------- *)
Definition cellnat (ix : index) (p : pt) : nat := Z.to_nat (cell_of_build (bins ix) (gxmin ix) (gymin ix) (bsx ix) (bsy ix) p).

Lemma ends_of_pts vs reverse e : In e (ends_of vs reverse) -> In (snd e) (ext_pts vs reverse).
Proof.
  unfold ends_of, ext_pts. rewrite !in_flat_map. intros ([i p] & Hin & He).
  exists p. split; [apply in_combine_r in Hin; exact Hin|]. destruct reverse; cbn in *.
  - destruct He as [<-|[<-|[]]]; cbn; auto.
  - destruct He as [<-|[]]; cbn; auto.
Qed.

Theorem build_spec vs b reverse ix : 1 <= b -> build vs b reverse = Ret ix ->
  bins ix = b /\ count ix = length vs /\ rev_ok ix = reverse /\ verts ix = vs /\
  length (grid ix) = Z.to_nat (b * b) /\
  (forall e, In e (ends_of vs reverse) -> (cellnat ix (snd e) < Z.to_nat (b * b))%nat) /\
  (forall c, nth c (grid ix) [] = map fst (filter (fun e => Nat.eqb (cellnat ix (snd e)) c) (ends_of vs reverse))) /\
  (0 < bsx ix)%Q /\ (0 < bsy ix)%Q /\
  (forall e, In e (ends_of vs reverse) -> (gxmin ix <= fst (snd e))%Q /\ (gymin ix <= snd (snd e))%Q).
Proof.
  intros Hb. unfold build.
  set (pts := ext_pts vs reverse).
  destruct (fold_min (map fst pts)) as [x0|] eqn:Ex0; [|discriminate].
  destruct (fold_max (map fst pts)) as [x1|] eqn:Ex1; [|discriminate].
  destruct (fold_min (map snd pts)) as [y0|] eqn:Ey0; [|discriminate].
  destruct (fold_max (map snd pts)) as [y1|] eqn:Ey1; [|discriminate].
  cbv zeta.
  set (shim := ((x1 - x0 + y1 - y0) / 200)%Q).
  set (bx := ((x1 + shim - (x0 - shim)) / inject_Z b)%Q). set (by_ := ((y1 + shim - (y0 - shim)) / inject_Z b)%Q).
  destruct (Qeqb bx 0 || Qeqb by_ 0) eqn:Ez; [discriminate|]. intros H. injection H as <-.
  apply orb_false_iff in Ez. destruct Ez as [Zx Zy]. apply Qeqb_false in Zx, Zy.
  (* extent facts *)
  assert (Hne : pts <> []).
  { destruct pts; [cbn in Ex0; discriminate|discriminate]. }
  assert (P0 : exists p0, In p0 pts) by (destruct pts as [|p0 r]; [congruence|exists p0; left; reflexivity]).
  destruct P0 as [p0 Hp0].
  assert (X01 : (x0 <= x1)%Q).
  { eapply Qle_trans; [apply (fold_min_spec _ _ (fst p0) Ex0), in_map, Hp0|apply (fold_max_spec _ _ (fst p0) Ex1), in_map, Hp0]. }
  assert (Y01 : (y0 <= y1)%Q).
  { eapply Qle_trans; [apply (fold_min_spec _ _ (snd p0) Ey0), in_map, Hp0|apply (fold_max_spec _ _ (snd p0) Ey1), in_map, Hp0]. }
  assert (Hsh : (0 <= shim)%Q) by (unfold shim; apply Qle_shift_div_l; lra).
  assert (Hbq : (0 < inject_Z b)%Q) by (change 0%Q with (inject_Z 0); rewrite <- Zlt_Qlt; lia).
  assert (Bx : (0 < bx)%Q).
  { assert (0 <= bx)%Q by (unfold bx; apply Qle_shift_div_l; [exact Hbq|lra]). destruct (Qlt_le_dec 0 bx); [assumption|]. exfalso. apply Zx. lra. }
  assert (By : (0 < by_)%Q).
  { assert (0 <= by_)%Q by (unfold by_; apply Qle_shift_div_l; [exact Hbq|lra]). destruct (Qlt_le_dec 0 by_); [assumption|]. exfalso. apply Zy. lra. }
  cbn [bins count rev_ok verts grid gxmin gymin bsx bsy].
  split; [reflexivity|]. split; [reflexivity|]. split; [reflexivity|]. split; [reflexivity|].
  fold (ends_of vs reverse).
  set (ix0 := mkindex b (length vs) reverse (x0 - shim)%Q (y0 - shim)%Q bx by_ vs [] []).
  assert (CN : forall p, Z.to_nat (cell_of_build b (x0 - shim) (y0 - shim) bx by_ p) = cellnat ix0 p) by reflexivity.
  (* every end falls in a cell of the grid *)
  assert (RNG : forall e, In e (ends_of vs reverse) -> (cellnat ix0 (snd e) < Z.to_nat (b * b))%nat).
  { intros e He. apply ends_of_pts in He. fold pts in He. unfold cellnat, cell_of_build. cbn [bins gxmin gymin bsx bsy ix0].
    pose proof (cell_coord_range (fst (snd e)) (x0 - shim)%Q bx b Bx ltac:(pose proof (fold_min_spec _ _ (fst (snd e)) Ex0 (in_map fst _ _ He)); lra) Hb) as Cx.
    pose proof (cell_coord_range (snd (snd e)) (y0 - shim)%Q by_ b By ltac:(pose proof (fold_min_spec _ _ (snd (snd e)) Ey0 (in_map snd _ _ He)); lra) Hb) as Cy.
    nia. }
  split; [exact (eq_trans (fold_place_length (fun e : nat * pt => cellnat ix0 (snd e)) fst (ends_of vs reverse) (repeat [] (Z.to_nat (b * b)))) (repeat_length _ _))|].
  split; [exact RNG|].
  split.
  { intros c.
  pose proof (fold_place_spec (fun e : nat * pt => cellnat ix0 (snd e)) fst (ends_of vs reverse) (repeat [] (Z.to_nat (b * b))) c) as FS.
  specialize (FS ltac:(intros e He; rewrite repeat_length; apply RNG, He)).
  assert (R0 : nth c (repeat (@nil nat) (Z.to_nat (b * b))) [] = []).
  { clear. generalize (Z.to_nat (b * b)). intros n. revert c. induction n; intros [|c]; cbn; auto. }
  rewrite R0 in FS; cbn [app] in FS; exact FS. }
  split; [exact Bx|]. split; [exact By|].
  intros e He. apply ends_of_pts in He. fold pts in He.
  pose proof (fold_min_spec _ _ (fst (snd e)) Ex0 (in_map fst _ _ He)). pose proof (fold_min_spec _ _ (snd (snd e)) Ey0 (in_map snd _ _ He)).
  split; lra.
Qed.

(* the lookup table maps every end id to the cell the constructor put it in (ids are distinct) *)
Section Put.
Context {E : Type}.
Variables (key : E -> nat) (val : E -> nat).
Definition put (lk : list nat) (e : E) := set_nth (key e) (fun _ => val e) lk.
Lemma fold_put_length es : forall lk, length (fold_left put es lk) = length lk.
Proof. induction es as [|e es IH]; intros lk; cbn; [reflexivity|]. rewrite IH. apply set_nth_length. Qed.
Lemma fold_put_other es : forall lk k, (forall e, In e es -> (key e < length lk)%nat) -> ~ In k (map key es) ->
  nth k (fold_left put es lk) 0%nat = nth k lk 0%nat.
Proof.
  induction es as [|e es IH]; intros lk k R H; cbn [fold_left]; [reflexivity|].
  rewrite IH; [|intros e' He'; unfold put; rewrite set_nth_length; apply R; right; exact He'|intros C; apply H; right; exact C].
  unfold put. rewrite nth_set_nth by (apply R; left; reflexivity).
  destruct (Nat.eqb k (key e)) eqn:Ek; [|reflexivity]. apply Nat.eqb_eq in Ek. exfalso. apply H. left. symmetry. exact Ek.
Qed.
Lemma fold_put_spec es : forall lk e, NoDup (map key es) -> (forall e, In e es -> (key e < length lk)%nat) -> In e es ->
  nth (key e) (fold_left put es lk) 0%nat = val e.
Proof.
  induction es as [|a es IH]; intros lk e ND R He; [contradiction|]. cbn [fold_left]. cbn [map] in ND. inversion ND as [|x l Hni ND']. subst x l.
  assert (R' : forall e', In e' es -> (key e' < length (put lk a))%nat) by (intros e' He'; unfold put; rewrite set_nth_length; apply R; right; exact He').
  destruct He as [<- | He].
  - rewrite fold_put_other by assumption. unfold put. rewrite nth_set_nth by (apply R; left; reflexivity). rewrite Nat.eqb_refl. reflexivity.
  - apply IH; assumption.
Qed.
End Put.

