(* C03, rounding layer.  calculate_lm solves its quadratic with mpmath at 30 digits: the square root of the discriminant, the sum
   -b +- sqrt, and the division by 2a are rounded (Model/LmModelRnd.v), as is the one division of the constant-rate case.  For every
   rounding operator that is monotone and leaves 103-bit numbers unchanged, and every rounded square root that is monotone,
   non-negative and exact on squares of binary fractions k / 2^n (n <= 52, k < 2^103), each rounded root has the same ceiling as the
   exact one (ceil_root, on Z.sqrt): a half-integer threshold U/2 on the other side of sqrt(D4)/2 is at least 2^-52 away from it
   (|U^2 - D4| >= 1, U < 2^50), U/2 +- 2^-52 is a 103-bit number whose square is still on the same side of D4/4, so monotonicity
   keeps the rounded root on its side; the sum and the quotient are then kept on their sides by 103-bit numbers in between
   (core).  Hence lm_model_r = lm_model for every request within the firmware's argument ranges (lm_model_rounding). *)
From Plotink Require Import Base.Prelude Spec.Firmware Model.EbbCalc Model.EbbCalcRnd Model.LmModel Model.LmModelRnd Proofs.EbbCalcProofs Proofs.EbbRndProofs Proofs.TmidFloat Proofs.LmModelFwd.
Open Scope Z_scope.

Definition gap52 : Q := (1 # (2 ^ 52))%Q.

Lemma iz_div_mul a b c d : 0 < b -> 0 < d -> ((iz a / iz b) * (iz c / iz d) == iz (a * c) / iz (b * d))%Q.
Proof.
  intros Hb Hd. unfold iz. rewrite !inject_Z_mult. field. split; unfold Qeq; simpl; lia.
Qed.


Lemma gap_sq_up U D4 : 0 < U < 2 ^ 50 -> D4 < U * U -> D4 * (2 ^ 52 * 2 ^ 52) <= (U * 2 ^ 51 - 1) * (U * 2 ^ 51 - 1) * 4.
Proof.
  intros HU H. change (2 ^ 50) with 1125899906842624 in HU. change (2 ^ 52) with 4503599627370496. change (2 ^ 51) with 2251799813685248.
  replace ((U * 2251799813685248 - 1) * (U * 2251799813685248 - 1) * 4) with (U * U * 20282409603651670423947251286016 - U * 18014398509481984 + 4) by ring.
  lia.
Qed.
Lemma gap_sq_down U D4 : 0 <= U < 2 ^ 50 -> U * U < D4 -> (U * 2 ^ 51 + 1) * (U * 2 ^ 51 + 1) * 4 <= D4 * (2 ^ 52 * 2 ^ 52).
Proof.
  intros HU H. change (2 ^ 50) with 1125899906842624 in HU. change (2 ^ 52) with 4503599627370496. change (2 ^ 51) with 2251799813685248.
  replace ((U * 2251799813685248 + 1) * (U * 2251799813685248 + 1) * 4) with (U * U * 20282409603651670423947251286016 + U * 18014398509481984 + 4) by ring.
  lia.
Qed.

Lemma ceiling_uniq y c : (inject_Z (c - 1) < y)%Q -> (y <= inject_Z c)%Q -> Qceiling y = c.
Proof.
  intros L U. pose proof (Qle_ceiling y) as A. pose proof (Qceiling_lt y) as B.
  assert (X1 : (inject_Z (c - 1) < inject_Z (Qceiling y))%Q) by lra.
  assert (X2 : (inject_Z (Qceiling y - 1) < inject_Z c)%Q) by lra.
  rewrite <- Zlt_Qlt in X1, X2. lia.
Qed.
Lemma frac_mul K D A : 0 < D -> (iz K / iz D * iz A == iz (K * A) / iz D)%Q.
Proof. intros H. unfold iz. rewrite inject_Z_mult. field. unfold Qeq; simpl; lia. Qed.
Lemma int_plus_gap X P : 0 < P -> (iz X + gap52 == iz (X * (2 ^ 52 * P) + P) / iz (2 ^ 52 * P))%Q.
Proof.
  intros H. assert (G : (gap52 == 1 / iz (2 ^ 52))%Q) by reflexivity. rewrite G.
  unfold iz. rewrite inject_Z_plus, !inject_Z_mult. field. split; unfold Qeq; simpl; lia.
Qed.

Section RootRounding.
Variable rnd : Q -> Q.
Hypothesis rnd_comp : forall x y, (x == y)%Q -> (rnd x == rnd y)%Q.
Hypothesis rnd_exact : forall x, rep103 x -> (rnd x == x)%Q.
Hypothesis rnd_mono : forall x y, (x <= y)%Q -> (rnd x <= rnd y)%Q.
Variable sq : Q -> Q.
Hypothesis sq_nonneg : forall x, (0 <= x)%Q -> (0 <= sq x)%Q.
Hypothesis sq_exact : forall K n, 0 <= K < 2 ^ 103 -> 0 <= n <= 52 -> (sq ((iz K / iz (2 ^ n)) * (iz K / iz (2 ^ n))) == iz K / iz (2 ^ n))%Q.
Hypothesis sq_mono : forall x y, (0 <= x)%Q -> (x <= y)%Q -> (sq x <= sq y)%Q.

Lemma rnd_ge z w : rep103 w -> (w <= z)%Q -> (w <= rnd z)%Q.
Proof. intros R H. pose proof (rnd_mono _ _ H) as M. rewrite (rnd_exact w R) in M. exact M. Qed.
Lemma rnd_le z w : rep103 w -> (z <= w)%Q -> (rnd z <= w)%Q.
Proof. intros R H. pose proof (rnd_mono _ _ H) as M. rewrite (rnd_exact w R) in M. exact M. Qed.

Lemma rep_frac k n : 0 <= n -> Z.abs k < 2 ^ 103 -> rep103 (iz k / iz (2 ^ n)).
Proof. intros Hn Hk. exists k, n. split; [exact Hn|]. split; [exact Hk|reflexivity]. Qed.

(* thresholds are half-integers U/2; the radicand is D4/4 *)
Section Sqrt.
Variable D4 : Z.
Hypothesis HD : 0 <= D4.
Let D : Q := (iz D4 / iz 4)%Q.
Lemma D_nonneg : (0 <= D)%Q.
Proof. unfold D. change 0%Q with (iz 0 / iz 1)%Q. apply Qdiv_le_cross; lia. Qed.

Lemma sq_le_half U : 0 <= U < 2 ^ 103 -> D4 <= U * U -> (sq D <= iz U / iz 2)%Q.
Proof.
  intros HU H. rewrite <- (sq_exact U 1 HU ltac:(lia)). change (2 ^ 1) with 2.
  apply sq_mono; [apply D_nonneg|]. rewrite iz_div_mul by lia. unfold D. apply Qdiv_le_cross; lia.
Qed.
Lemma sq_ge_half U : 0 <= U < 2 ^ 103 -> U * U <= D4 -> (iz U / iz 2 <= sq D)%Q.
Proof.
  intros HU H. rewrite <- (sq_exact U 1 HU ltac:(lia)). change (2 ^ 1) with 2.
  apply sq_mono; [rewrite iz_div_mul by lia; change 0%Q with (iz 0 / iz 1)%Q; apply Qdiv_le_cross; nia|].
  rewrite iz_div_mul by lia. unfold D. apply Qdiv_le_cross; lia.
Qed.

Lemma sq_le_gap U : 0 < U < 2 ^ 50 -> D4 < U * U -> (sq D <= iz U / iz 2 - gap52)%Q.
Proof.
  intros HU H. set (K := U * 2 ^ 51 - 1).
  assert (HK : 0 <= K < 2 ^ 103) by (unfold K; change (2 ^ 50) with 1125899906842624 in HU; change (2 ^ 51) with 2251799813685248; change (2 ^ 103) with 10141204801825835211973625643008; lia).
  assert (E : (iz U / iz 2 - gap52 == iz K / iz (2 ^ 52))%Q).
  { unfold K, gap52. change (2 ^ 52) with 4503599627370496. change (2 ^ 51) with 2251799813685248.
    unfold iz, Qeq, Qminus, Qplus, Qdiv, Qmult, Qinv, Qopp, inject_Z. cbn [Qnum Qden]. lia. }
  rewrite E. rewrite <- (sq_exact K 52 HK ltac:(lia)).
  apply sq_mono; [apply D_nonneg|]. rewrite iz_div_mul by reflexivity. unfold D. apply Qdiv_le_cross; [lia|reflexivity|].
  pose proof (gap_sq_up U D4 HU H) as G. fold K in G. lia.
Qed.
Lemma sq_ge_gap U : 0 <= U < 2 ^ 50 -> U * U < D4 -> (iz U / iz 2 + gap52 <= sq D)%Q.
Proof.
  intros HU H. set (K := U * 2 ^ 51 + 1).
  assert (HK : 0 <= K < 2 ^ 103) by (unfold K; change (2 ^ 50) with 1125899906842624 in HU; change (2 ^ 51) with 2251799813685248; change (2 ^ 103) with 10141204801825835211973625643008; lia).
  assert (E : (iz U / iz 2 + gap52 == iz K / iz (2 ^ 52))%Q).
  { unfold K, gap52. change (2 ^ 52) with 4503599627370496. change (2 ^ 51) with 2251799813685248.
    unfold iz, Qeq, Qplus, Qdiv, Qmult, Qinv, inject_Z. cbn [Qnum Qden]. lia. }
  rewrite E. rewrite <- (sq_exact K 52 HK ltac:(lia)).
  apply sq_mono; [rewrite iz_div_mul by reflexivity; change 0%Q with (iz 0 / iz 1)%Q; apply Qdiv_le_cross; [lia|reflexivity|nia]|].
  rewrite iz_div_mul by reflexivity. unfold D. apply Qdiv_le_cross; [reflexivity|lia|].
  pose proof (gap_sq_down U D4 HU H) as G. fold K in G. lia.
Qed.

Lemma gap_small : (0 < gap52)%Q /\ (gap52 <= 1 # 2)%Q.
Proof. unfold gap52. split; reflexivity || (unfold Qle; simpl; lia). Qed.
Lemma half_neg V : V < 0 -> (iz V / iz 2 <= - (1 # 2))%Q.
Proof. intros H. change (- (1 # 2))%Q with (iz (-1) / iz 2)%Q. apply Qdiv_le_cross; lia. Qed.
Lemma half_opp V : (iz (- V) / iz 2 == - (iz V / iz 2))%Q.
Proof. unfold iz. rewrite inject_Z_opp. field. Qed.

Lemma s_bounds_P Un Vn : ge_sqrt Un D4 -> ~ ge_sqrt Vn D4 -> Un < 2 ^ 50 -> Vn < Un ->
  (sq D <= iz Un / iz 2)%Q /\ (iz Vn / iz 2 + gap52 <= sq D)%Q.
Proof.
  intros [U0 U1] NV HU HV. split.
  - apply sq_le_half; [change (2 ^ 103) with 10141204801825835211973625643008; change (2 ^ 50) with 1125899906842624 in HU; lia|exact U1].
  - destruct (Z_lt_le_dec Vn 0) as [Ng|Pz].
    + pose proof (half_neg Vn Ng) as H1. pose proof (sq_nonneg D D_nonneg) as H2. destruct gap_small as [G1 G2].
      set (x := (iz Vn / iz 2)%Q) in *. set (y := sq D) in *. lra.
    + apply sq_ge_gap; [lia|]. unfold ge_sqrt in NV. nia.
Qed.
Lemma s_bounds_N Un Vn : ge_nsqrt Un D4 -> ~ ge_nsqrt Vn D4 -> - 2 ^ 50 < Vn ->
  (- (iz Un / iz 2) <= sq D)%Q /\ (sq D <= - (iz Vn / iz 2) - gap52)%Q.
Proof.
  intros HUn NV HV. unfold ge_nsqrt in *. split.
  - destruct (Z_lt_le_dec Un 0) as [Ng|Pz].
    + rewrite <- half_opp. apply sq_ge_half; [split; [lia|]|nia].
      assert (Un * Un <= D4) by lia. assert (- Un < 2 ^ 103 \/ 2 ^ 103 <= - Un) as [X|X] by lia; [exact X|]. exfalso.
      change (2 ^ 103) with 10141204801825835211973625643008 in X. nia.
    + pose proof (sq_nonneg D D_nonneg) as H2. assert (H1 : (0 <= iz Un / iz 2)%Q) by (change 0%Q with (iz 0 / iz 1)%Q; apply Qdiv_le_cross; lia).
      set (x := (iz Un / iz 2)%Q) in *. set (y := sq D) in *. lra.
  - rewrite <- half_opp. apply sq_le_gap; [lia|nia].
Qed.
End Sqrt.

Lemma iz_pos a : 0 < a -> (0 < iz a)%Q.
Proof. intros H. unfold iz. change 0%Q with (inject_Z 0). rewrite <- Zlt_Qlt. exact H. Qed.

(* t / A with A(n-1) + 2^-52 <= t <= A n rounds to something in (n-1, n] *)
Lemma core A n t : 0 < A <= 2 ^ 32 -> Z.abs (A * n) <= 2 ^ 49 -> Z.abs (A * (n - 1)) <= 2 ^ 49 ->
  (iz (A * (n - 1)) + gap52 <= t)%Q -> (t <= iz (A * n))%Q -> Qceiling (rnd (t / iz A)) = n.
Proof.
  intros HA B1 B2 L U. change (2 ^ 32) with 4294967296 in HA. change (2 ^ 49) with 562949953421312 in B1, B2.
  pose proof (iz_pos A ltac:(lia)) as PA.
  assert (Hn : Z.abs n <= 562949953421312) by nia.
  apply ceiling_uniq.
  - set (e := Z.log2_up A). pose proof (pow2_log2_up A ltac:(lia)) as [P1 P2]. fold e in P1, P2.
    assert (He : 0 <= e) by apply Z.log2_up_nonneg. set (P := 2 ^ e) in *.
    set (K := (n - 1) * (2 ^ 52 * P) + 1).
    assert (HK : Z.abs K < 2 ^ 103).
    { unfold K. change (2 ^ 52) with 4503599627370496. change (2 ^ 103) with 10141204801825835211973625643008.
      assert (Z.abs ((n - 1) * P) <= 2 * 562949953421312) by (rewrite Z.abs_mul in *; rewrite (Z.abs_eq P) by lia; rewrite (Z.abs_eq A) in B2 by lia; nia).
      replace ((n - 1) * (4503599627370496 * P)) with ((n - 1) * P * 4503599627370496) by ring. lia. }
    assert (R : rep103 (iz K / iz (2 ^ 52 * P))).
    { exists K, (52 + e). split; [lia|]. split; [exact HK|]. unfold P. rewrite Z.pow_add_r by lia. reflexivity. }
    assert (PP : 0 < 2 ^ 52 * P) by (change (2 ^ 52) with 4503599627370496; lia).
    assert (M1 : (inject_Z (n - 1) < iz K / iz (2 ^ 52 * P))%Q).
    { assert (E0 : (inject_Z (n - 1) == iz (n - 1) / iz 1)%Q) by (unfold iz, Qdiv; change (/ inject_Z 1)%Q with 1%Q; ring). rewrite E0. apply Qdiv_lt_cross; [lia|exact PP|]. unfold K. lia. }
    assert (M2 : (iz K / iz (2 ^ 52 * P) <= t / iz A)%Q).
    { apply Qle_shift_div_l; [exact PA|]. apply Qle_trans with (iz (A * (n - 1)) + gap52)%Q; [|exact L].
      pose proof (frac_mul K (2 ^ 52 * P) A PP) as E1. pose proof (int_plus_gap (A * (n - 1)) P ltac:(lia)) as E2.
      rewrite E1, E2. apply Qdiv_le_cross; [exact PP|exact PP|]. apply Z.mul_le_mono_nonneg_r; [lia|]. unfold K. nia. }
    pose proof (rnd_ge (t / iz A) _ R M2) as G. exact (Qlt_le_trans _ _ _ M1 G).
  - apply rnd_le; [apply rep_int; change (2 ^ 103) with 10141204801825835211973625643008; lia|].
    apply Qle_shift_div_r; [exact PA|]. fold (iz n). assert (E : (iz n * iz A == iz (A * n))%Q) by (unfold iz; rewrite inject_Z_mult; ring). rewrite E. exact U.
Qed.

Lemma neg_div z a : a < 0 -> (z / iz a == (- z) / iz (- a))%Q.
Proof. intros H. unfold iz. rewrite inject_Z_opp. field. unfold Qeq; simpl; lia. Qed.

Lemma rep_gap X : Z.abs X <= 2 ^ 49 -> rep103 (iz X + gap52).
Proof.
  intros H. exists (X * 2 ^ 52 + 1), 52. split; [lia|]. split.
  - change (2 ^ 49) with 562949953421312 in H. change (2 ^ 52) with 4503599627370496. change (2 ^ 103) with 10141204801825835211973625643008. lia.
  - rewrite (int_plus_gap X 1) by lia. rewrite !Z.mul_1_r. reflexivity.
Qed.
Lemma rep_opp x : rep103 x -> rep103 (- x).
Proof.
  intros (k & m & Hm & Hk & E). exists (- k), m. split; [exact Hm|]. split; [rewrite Z.abs_opp; exact Hk|].
  rewrite E. unfold iz. rewrite inject_Z_opp. field. unfold Qeq; simpl. pose proof (Z.pow_pos_nonneg 2 m ltac:(lia) Hm). lia.
Qed.

Lemma finish_pos A n z : 0 < A <= 2 ^ 32 -> Z.abs (A * n) <= 2 ^ 49 -> Z.abs (A * (n - 1)) <= 2 ^ 49 ->
  (iz (A * (n - 1)) + gap52 <= z)%Q -> (z <= iz (A * n))%Q -> Qceiling (rnd (rnd z / iz A)) = n.
Proof.
  intros HA B1 B2 L U. apply core; try assumption.
  - apply rnd_ge; [apply rep_gap; exact B2|exact L].
  - apply rnd_le; [apply rep_int; change (2 ^ 103) with 10141204801825835211973625643008; change (2 ^ 49) with 562949953421312 in B1; lia|exact U].
Qed.
Lemma finish_neg a n z : - 2 ^ 32 <= a < 0 -> Z.abs (a * n) <= 2 ^ 49 -> Z.abs (a * (n - 1)) <= 2 ^ 49 ->
  (iz (a * n) <= z)%Q -> (z <= iz (a * (n - 1)) - gap52)%Q -> Qceiling (rnd (rnd z / iz a)) = n.
Proof.
  intros HA B1 B2 L U.
  rewrite (Qceiling_comp _ _ (rnd_comp _ _ (neg_div (rnd z) a (proj2 HA)))).
  assert (E1 : (iz (a * n) == - iz (- a * n))%Q) by (unfold iz; rewrite <- inject_Z_opp; replace (- (- a * n)) with (a * n) by ring; reflexivity).
  assert (E2 : (iz (a * (n - 1)) - gap52 == - (iz (- a * (n - 1)) + gap52))%Q).
  { assert (E3 : (iz (a * (n - 1)) == - iz (- a * (n - 1)))%Q) by (unfold iz; rewrite <- inject_Z_opp; replace (- (- a * (n - 1))) with (a * (n - 1)) by ring; reflexivity). rewrite E3. ring. }
  assert (B1' : Z.abs (- a * n) <= 2 ^ 49) by (rewrite Z.mul_opp_l, Z.abs_opp; exact B1).
  assert (B2' : Z.abs (- a * (n - 1)) <= 2 ^ 49) by (rewrite Z.mul_opp_l, Z.abs_opp; exact B2).
  apply core; [lia|exact B1'|exact B2'| |].
  - assert (X : (rnd z <= - (iz (- a * (n - 1)) + gap52))%Q) by (apply rnd_le; [apply rep_opp, rep_gap; exact B2'|rewrite <- E2; exact U]).
    set (r := rnd z) in *. set (w := (iz (- a * (n - 1)) + gap52)%Q) in *. lra.
  - assert (X : (- iz (- a * n) <= rnd z)%Q).
    { apply rnd_ge; [apply rep_opp, rep_int; change (2 ^ 103) with 10141204801825835211973625643008; change (2 ^ 49) with 562949953421312 in B1'; lia|rewrite <- E1; exact L]. }
    set (r := rnd z) in *. set (w := iz (- a * n)) in *. lra.
Qed.

Lemma half_sum X Y : (iz (2 * X + Y) / iz 2 == iz X + iz Y / iz 2)%Q.
Proof. unfold iz. rewrite inject_Z_plus, inject_Z_mult. field. Qed.


Theorem root_rounding sg b2 accel D4 : accel <> 0 -> Z.abs accel <= 2 ^ 32 -> Z.abs b2 <= 2 ^ 34 -> 0 <= D4 <= 2 ^ 98 ->
  lm_root_r rnd sq sg b2 accel D4 = ceil_root sg (- b2) (2 * accel) D4.
Proof.
  intros Ha Ba Bb [HD BD]. unfold lm_root_r. cbv zeta. set (n := ceil_root sg (- b2) (2 * accel) D4).
  change (2 ^ 32) with 4294967296 in Ba. change (2 ^ 34) with 17179869184 in Bb. change (2 ^ 98) with 316912650057057350374175801344 in BD.
  assert (P50 : 2 ^ 50 = 1125899906842624) by reflexivity. assert (P49 : 2 ^ 49 = 562949953421312) by reflexivity.
  destruct gap_small as [G1 G2].
  destruct (Z_lt_le_dec 0 accel) as [Pos|Neg].
  - (* accel > 0 *)
    pose proof (ceil_root_pos sg (- b2) (2 * accel) D4 ltac:(lia) HD) as C. cbv zeta in C. fold n in C.
    set (Un := 2 * (accel * n) + b2). set (Vn := 2 * (accel * (n - 1)) + b2).
    replace (2 * accel * n - - b2) with Un in C by (unfold Un; ring). replace (2 * accel * (n - 1) - - b2) with Vn in C by (unfold Vn; ring).
    pose proof (half_sum (accel * n) b2) as EU. pose proof (half_sum (accel * (n - 1)) b2) as EV. fold Un in EU. fold Vn in EV.
    assert (VU : Vn < Un) by (unfold Un, Vn; nia).
    destruct sg.
    + destruct C as [C1 C2].
      assert (BV : Vn < 2 ^ 49) by (rewrite P49; unfold ge_sqrt in C2; nia).
      assert (BU : 0 <= Un < 2 ^ 50) by (rewrite P50; rewrite P49 in BV; destruct C1; unfold Un, Vn in *; nia).
      destruct (s_bounds_P D4 HD Un Vn C1 C2 (proj2 BU) VU) as [S1 S2].
      apply finish_pos; [lia|rewrite P49; rewrite P50 in BU; unfold Un in BU; lia|rewrite P49 in *; rewrite P50 in BU; unfold Un, Vn in *; lia| |].
      * set (s := sq (iz D4 / iz 4)) in *. set (hb := (iz b2 / iz 2)%Q) in *. set (u := iz (accel * (n - 1))) in *. set (v := (iz Vn / iz 2)%Q) in *. remember gap52 as g eqn:Eg; clear Eg. lra.
      * set (s := sq (iz D4 / iz 4)) in *. set (hb := (iz b2 / iz 2)%Q) in *. set (u := iz (accel * n)) in *. set (v := (iz Un / iz 2)%Q) in *. remember gap52 as g eqn:Eg; clear Eg. lra.
    + destruct C as [C1 C2].
      assert (BV : - 2 ^ 50 < Vn < 0) by (rewrite P50; unfold ge_nsqrt in *; unfold Un, Vn in *; nia).
      assert (BU : - 2 ^ 49 <= Un < 2 ^ 34) by (rewrite P49; rewrite P50 in BV; change (2 ^ 34) with 17179869184; unfold ge_nsqrt in C1; split; [nia|unfold Un, Vn in *; lia]).
      destruct (s_bounds_N D4 HD Un Vn C1 C2 (proj1 BV)) as [S1 S2].
      apply finish_pos; [lia|rewrite P49 in *; change (2 ^ 34) with 17179869184 in BU; unfold Un in BU; lia|rewrite P49 in *; rewrite P50 in BV; change (2 ^ 34) with 17179869184 in BU; unfold Un, Vn in *; lia| |].
      * set (s := sq (iz D4 / iz 4)) in *. set (hb := (iz b2 / iz 2)%Q) in *. set (u := iz (accel * (n - 1))) in *. set (v := (iz Vn / iz 2)%Q) in *. remember gap52 as g eqn:Eg; clear Eg. lra.
      * set (s := sq (iz D4 / iz 4)) in *. set (hb := (iz b2 / iz 2)%Q) in *. set (u := iz (accel * n)) in *. set (v := (iz Un / iz 2)%Q) in *. remember gap52 as g eqn:Eg; clear Eg. lra.
  - (* accel < 0 *)
    assert (Ng : accel < 0) by lia.
    pose proof (ceil_root_neg sg (- b2) (2 * accel) D4 ltac:(lia) HD) as C. cbv zeta in C. fold n in C.
    set (Un := - (2 * (accel * n) + b2)). set (Vn := - (2 * (accel * (n - 1)) + b2)).
    replace (- b2 - 2 * accel * n) with Un in C by (unfold Un; ring). replace (- b2 - 2 * accel * (n - 1)) with Vn in C by (unfold Vn; ring).
    pose proof (half_sum (accel * n) b2) as EU. pose proof (half_sum (accel * (n - 1)) b2) as EV.
    pose proof (half_opp (2 * (accel * n) + b2)) as OU. pose proof (half_opp (2 * (accel * (n - 1)) + b2)) as OV. fold Un in OU. fold Vn in OV.
    assert (VU : Vn < Un) by (unfold Un, Vn; nia).
    destruct sg.
    + destruct C as [C1 C2].
      assert (BV : - 2 ^ 50 < Vn < 0) by (rewrite P50; unfold ge_nsqrt in *; unfold Un, Vn in *; nia).
      assert (BU : - 2 ^ 49 <= Un < 2 ^ 34) by (rewrite P49; rewrite P50 in BV; change (2 ^ 34) with 17179869184; unfold ge_nsqrt in C1; split; [nia|unfold Un, Vn in *; lia]).
      destruct (s_bounds_N D4 HD Un Vn C1 C2 (proj1 BV)) as [S1 S2].
      apply finish_neg; [change (2 ^ 32) with 4294967296; lia|rewrite P49 in *; change (2 ^ 34) with 17179869184 in BU; unfold Un in BU; lia|rewrite P49 in *; rewrite P50 in BV; change (2 ^ 34) with 17179869184 in BU; unfold Un, Vn in *; lia| |].
      * set (s := sq (iz D4 / iz 4)) in *. set (hb := (iz b2 / iz 2)%Q) in *. set (u := iz (accel * n)) in *. set (v := (iz Un / iz 2)%Q) in *. set (w := (iz (2 * (accel * n) + b2) / iz 2)%Q) in *. remember gap52 as g eqn:Eg; clear Eg. lra.
      * set (s := sq (iz D4 / iz 4)) in *. set (hb := (iz b2 / iz 2)%Q) in *. set (u := iz (accel * (n - 1))) in *. set (v := (iz Vn / iz 2)%Q) in *. set (w := (iz (2 * (accel * (n - 1)) + b2) / iz 2)%Q) in *. remember gap52 as g eqn:Eg; clear Eg. lra.
    + destruct C as [C1 C2].
      assert (BV : Vn < 2 ^ 49) by (rewrite P49; unfold ge_sqrt in C2; nia).
      assert (BU : 0 <= Un < 2 ^ 50) by (rewrite P50; rewrite P49 in BV; destruct C1; unfold Un, Vn in *; nia).
      destruct (s_bounds_P D4 HD Un Vn C1 C2 (proj2 BU) VU) as [S1 S2].
      apply finish_neg; [change (2 ^ 32) with 4294967296; lia|rewrite P49; rewrite P50 in BU; unfold Un in BU; lia|rewrite P49 in *; rewrite P50 in BU; unfold Un, Vn in *; lia| |].
      * set (s := sq (iz D4 / iz 4)) in *. set (hb := (iz b2 / iz 2)%Q) in *. set (u := iz (accel * n)) in *. set (v := (iz Un / iz 2)%Q) in *. set (w := (iz (2 * (accel * n) + b2) / iz 2)%Q) in *. remember gap52 as g eqn:Eg; clear Eg. lra.
      * set (s := sq (iz D4 / iz 4)) in *. set (hb := (iz b2 / iz 2)%Q) in *. set (u := iz (accel * (n - 1))) in *. set (v := (iz Vn / iz 2)%Q) in *. set (w := (iz (2 * (accel * (n - 1)) + b2) / iz 2)%Q) in *. remember gap52 as g eqn:Eg; clear Eg. lra.
Qed.

(* the constant-rate case: one rounded division, then the ceiling *)
Lemma cdiv_opp n d : d <> 0 -> cdiv n d = cdiv (- n) (- d).
Proof. intros H. unfold cdiv. rewrite Z.opp_involutive. f_equal. rewrite <- (Z.div_opp_opp (- n) d H). rewrite Z.opp_involutive. reflexivity. Qed.

Lemma cdiv_rounding_pos n d : 0 < d <= 2 ^ 32 -> Z.abs n <= 2 ^ 64 -> lm_cdiv_r rnd n d = cdiv n d.
Proof.
  intros Hd Hn. unfold lm_cdiv_r. pose proof (cdiv_pos n d (proj1 Hd)) as [C1 C2]. set (c := cdiv n d) in *.
  change (2 ^ 32) with 4294967296 in Hd. change (2 ^ 64) with 18446744073709551616 in Hn.
  assert (Bc : Z.abs c <= 18446744073709551617) by nia.
  pose proof (iz_pos d (proj1 Hd)) as PD.
  apply ceiling_uniq.
  - set (e := Z.log2_up d). pose proof (pow2_log2_up d ltac:(lia)) as [P1 P2]. fold e in P1, P2.
    assert (He : 0 <= e) by apply Z.log2_up_nonneg. set (P := 2 ^ e) in *.
    set (K := (c - 1) * P + 1).
    assert (R : rep103 (iz K / iz P)).
    { exists K, e. split; [exact He|]. split; [|reflexivity]. unfold K. change (2 ^ 103) with 10141204801825835211973625643008.
      assert (Z.abs ((c - 1) * P) <= 18446744073709551618 * 8589934592) by (rewrite Z.abs_mul, (Z.abs_eq P) by lia; apply Z.mul_le_mono_nonneg; lia). lia. }
    assert (M1 : (inject_Z (c - 1) < iz K / iz P)%Q).
    { assert (E0 : (inject_Z (c - 1) == iz (c - 1) / iz 1)%Q) by (unfold iz, Qdiv; change (/ inject_Z 1)%Q with 1%Q; ring). rewrite E0. apply Qdiv_lt_cross; [lia|lia|]. unfold K. lia. }
    assert (M2 : (iz K / iz P <= iz n / iz d)%Q) by (apply Qdiv_le_cross; [lia|lia|]; unfold K; nia).
    exact (Qlt_le_trans _ _ _ M1 (rnd_ge _ _ R M2)).
  - apply rnd_le; [apply rep_int; change (2 ^ 103) with 10141204801825835211973625643008; lia|].
    apply Qle_shift_div_r; [exact PD|]. fold (iz c). assert (E : (iz c * iz d == iz (d * c))%Q) by (unfold iz; rewrite inject_Z_mult; ring). rewrite E.
    unfold iz. rewrite <- Zle_Qle. exact C2.
Qed.
Lemma cdiv_rounding n d : d <> 0 -> Z.abs d <= 2 ^ 32 -> Z.abs n <= 2 ^ 64 -> lm_cdiv_r rnd n d = cdiv n d.
Proof.
  intros H0 Hd Hn. destruct (Z_lt_le_dec 0 d) as [P|N]; [apply cdiv_rounding_pos; [lia|exact Hn]|].
  rewrite (cdiv_opp n d H0). rewrite <- (cdiv_rounding_pos (- n) (- d)); [|lia|rewrite Z.abs_opp; exact Hn].
  unfold lm_cdiv_r. apply Qceiling_comp, rnd_comp. unfold iz. rewrite !inject_Z_opp. field. unfold Qeq; simpl; lia.
Qed.

Lemma lm_time_rounding rate accel m : rate <> 0 \/ accel <> 0 -> Z.abs rate <= 2 ^ 31 -> Z.abs accel <= 2 ^ 31 ->
  Z.abs (m_pos m) <= 2 ^ 31 -> Z.abs (m_padj m) <= 2 ^ 31 + 1 -> Z.abs (m_adj m) <= 2 ^ 31 ->
  lm_time_r rnd sq rate accel m = lm_time rate accel m.
Proof.
  intros Hnz Hr Ha Hp Hq Hc. unfold lm_time_r, lm_time. change (2 ^ 31) with 2147483648 in *. unfold B31 in *.
  destruct (Z.eqb_spec accel 0) as [E|E].
  - apply cdiv_rounding; [lia|change (2 ^ 32) with 4294967296; lia|change (2 ^ 64) with 18446744073709551616; lia].
  - cbv zeta. set (b2 := 2 * rate + accel - 2 * Z.quot accel 2).
    set (c := if m_rev m then if accel <? 0 then m_adj m - m_padj m * 2147483648 + 1 else m_adj m - m_padj m * 2147483648 - 1 else m_adj m - m_padj m * 2147483648).
    set (D4 := b2 * b2 - 8 * accel * c).
    destruct (Z.ltb_spec D4 0) as [L|G]; [reflexivity|].
    assert (Bq : Z.abs (Z.quot accel 2) <= 1073741824) by (pose proof (Z.quot_rem' accel 2); pose proof (Z.rem_bound_abs accel 2 ltac:(lia)); lia).
    assert (Bb : Z.abs b2 <= 2 ^ 34) by (change (2 ^ 34) with 17179869184; unfold b2; lia).
    assert (Bc : Z.abs c <= 4611686022722355201) by (unfold c; destruct (m_rev m); [destruct (accel <? 0)|]; lia).
    assert (BD : 0 <= D4 <= 2 ^ 98).
    { split; [exact G|]. change (2 ^ 98) with 316912650057057350374175801344. unfold D4. change (2 ^ 34) with 17179869184 in Bb.
      assert (b2 * b2 <= 17179869184 * 17179869184) by nia.
      assert (Z.abs (accel * c) <= 2147483648 * 4611686022722355201) by (rewrite Z.abs_mul; apply Z.mul_le_mono_nonneg; lia). lia. }
    rewrite !(root_rounding _ b2 accel D4 E ltac:(change (2 ^ 32) with 4294967296; lia) Bb BD). reflexivity.
Qed.

Lemma front_bounds steps rate accel accum : 0 < steps <= 2 ^ 31 ->
  match accum with None => True | Some c => 0 <= c < 2 ^ 31 end ->
  let m := lm_front steps rate accel accum in
  Z.abs (m_pos m) <= 2 ^ 31 /\ Z.abs (m_padj m) <= 2 ^ 31 + 1 /\ Z.abs (m_adj m) <= 2 ^ 31.
Proof.
  intros Hs Hc. change (2 ^ 31) with 2147483648 in *. unfold lm_front. cbv zeta.
  set (neg := (rate - Z.quot accel 2 + accel <? 0) || ((rate - Z.quot accel 2 + accel =? 0) && (accel <? 0))).
  set (acc := match accum with None => if neg then M31 else 0 | Some c => c end).
  assert (Hacc : 0 <= acc < 2147483648) by (unfold acc, M31; destruct accum; [exact Hc|destruct neg; lia]).
  set (adj := if neg then acc - M31 else acc).
  assert (Hadj : Z.abs adj <= 2147483648) by (unfold adj, M31; destruct neg; lia).
  set (t_rev := if neg && (0 <? accel) then - (rate - Z.quot accel 2) / accel else if negb neg && (accel <? 0) then (rate - Z.quot accel 2) / - accel else -1).
  set (s_rev := if 0 <? t_rev then Z.abs (adj + (rate - Z.quot accel 2) * t_rev + accel * (t_rev * (t_rev + 1) / 2)) / B31 else 0).
  assert (Hsr : 0 <= s_rev) by (unfold s_rev, B31; destruct (0 <? t_rev); [apply Z.div_pos; lia|lia]).
  destruct ((t_rev <? 1) || (steps <=? s_rev)) eqn:E1.
  - cbn [m_pos m_padj m_adj]. destruct neg; lia.
  - apply orb_false_iff in E1. destruct E1 as [_ E1]. apply Z.leb_gt in E1.
    destruct (s_rev =? 0) eqn:E2; cbn [m_pos m_padj m_adj]; destruct (0 <? accel); lia.
Qed.

Theorem lm_model_rounding steps rate accel accum : Z.abs steps <= 2 ^ 31 -> Z.abs rate <= 2 ^ 31 -> Z.abs accel <= 2 ^ 31 ->
  match accum with None => True | Some c => 0 <= c < 2 ^ 31 end ->
  lm_model_r rnd sq steps rate accel accum = lm_model steps rate accel accum.
Proof.
  intros Hs Hr Ha Hc. unfold lm_model_r, lm_model.
  destruct ((steps =? 0) || ((rate =? 0) && (accel =? 0))) eqn:E1; [reflexivity|].
  destruct ((steps <? 0) && (rate <? 0)) eqn:E2; [reflexivity|].
  apply orb_false_iff in E1. destruct E1 as [E1a E1b]. apply Z.eqb_neq in E1a.
  assert (Hnz : rate <> 0 \/ accel <> 0) by (apply andb_false_iff in E1b; destruct E1b as [E|E]; apply Z.eqb_neq in E; [left|right]; exact E).
  destruct (Z.ltb_spec steps 0) as [L|G].
  - pose proof (front_bounds (- steps) (- rate) (- accel) accum ltac:(lia) Hc) as (B1 & B2 & B3). cbv zeta in B1, B2, B3.
    rewrite (lm_time_rounding (- rate) (- accel) _ ltac:(lia) ltac:(rewrite Z.abs_opp; exact Hr) ltac:(rewrite Z.abs_opp; exact Ha) B1 B2 B3). reflexivity.
  - pose proof (front_bounds steps rate accel accum ltac:(lia) Hc) as (B1 & B2 & B3). cbv zeta in B1, B2, B3.
    rewrite (lm_time_rounding rate accel _ Hnz Hr Ha B1 B2 B3). reflexivity.
Qed.
End RootRounding.

(* an operator that meets the three hypotheses on the rounded square root (used for the non-vacuity example in Props/C03.v):
   the integer square root at a fixed binary scale *)
Definition sq_floor (x : Q) : Q := (iz (Z.sqrt (Qfloor (x * iz (2 ^ 104)))) / iz (2 ^ 52))%Q.
Lemma sq_floor_nonneg x : (0 <= x)%Q -> (0 <= sq_floor x)%Q.
Proof. intros _. unfold sq_floor. change 0%Q with (iz 0 / iz 1)%Q. apply Qdiv_le_cross; [lia|reflexivity|]. pose proof (Z.sqrt_nonneg (Qfloor (x * iz (2 ^ 104)))). lia. Qed.
Lemma sq_floor_mono x y : (0 <= x)%Q -> (x <= y)%Q -> (sq_floor x <= sq_floor y)%Q.
Proof.
  intros _ H. unfold sq_floor. apply Qdiv_le_cross; [reflexivity|reflexivity|]. apply Z.mul_le_mono_nonneg_r; [change (2 ^ 52) with 4503599627370496; lia|].
  apply Z.sqrt_le_mono, Qfloor_resp_le. apply Qmult_le_compat_r; [exact H|]. unfold iz. change 0%Q with (inject_Z 0). rewrite <- Zle_Qle. change (2 ^ 104) with 20282409603651670423947251286016. lia.
Qed.
Lemma sq_floor_exact K n : 0 <= K < 2 ^ 103 -> 0 <= n <= 52 ->
  (sq_floor ((iz K / iz (2 ^ n)) * (iz K / iz (2 ^ n))) == iz K / iz (2 ^ n))%Q.
Proof.
  intros HK Hn. unfold sq_floor.
  assert (Pn : 0 < 2 ^ n) by (apply Z.pow_pos_nonneg; lia). assert (Pm : 0 < 2 ^ (52 - n)) by (apply Z.pow_pos_nonneg; lia).
  assert (E52 : 2 ^ 52 = 2 ^ n * 2 ^ (52 - n)) by (rewrite <- Z.pow_add_r by lia; f_equal; lia).
  assert (E104 : 2 ^ 104 = 2 ^ 52 * 2 ^ 52) by reflexivity.
  rewrite E104, E52. remember (2 ^ n) as p1 eqn:Ep1. remember (2 ^ (52 - n)) as p2 eqn:Ep2. clear Ep1 Ep2 E52 E104.
  assert (N1 : ~ (inject_Z p1 == 0)%Q) by (unfold Qeq; cbn [Qnum Qden inject_Z]; lia).
  assert (N2 : ~ (inject_Z p2 == 0)%Q) by (unfold Qeq; cbn [Qnum Qden inject_Z]; lia).
  set (m := K * p2).
  assert (E : (iz K / iz p1 * (iz K / iz p1) * iz (p1 * p2 * (p1 * p2)) == iz (m * m))%Q).
  { unfold m, iz. rewrite !inject_Z_mult. field. exact N1. }
  rewrite (Qfloor_comp _ _ E). unfold iz at 1. rewrite Qfloor_Z. rewrite Z.sqrt_square by (unfold m; lia).
  unfold m, iz. rewrite !inject_Z_mult. field. split; assumption.
Qed.
