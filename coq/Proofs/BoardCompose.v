(* C16: the four-byte variable writer / reader against the board, composed from byte exchanges, for EVERY board content, every
   signed 32-bit value and every start slot 0..28.  The text-level facts (formatting and parsing of the request and reply lines)
   range over finite domains (byte values x slots) and are swept inside the kernel; everything else is symbolic. *)
From Plotink Require Import Base.Prelude Base.PyStr Model.Serial3 Spec.Board Proofs.Serial3Proofs Proofs.BoardProofs.
Open Scope Z_scope.

Definition SLline (v i : Z) : text := cat [T "SL,"; str_of_Z v; T ","; str_of_Z i].
Definition QLline (i : Z) : text := cat [T "QL,"; str_of_Z i].
Definition QLreply (x : Z) : text := Tt "QL," ++ str_of_Z x.
Definition zrange (n : nat) : list Z := map Z.of_nat (seq 0 n).
Lemma in_zrange n z : 0 <= z < Z.of_nat n -> In z (zrange n).
Proof. intros H. unfold zrange. apply in_map_iff. exists (Z.to_nat z). split; [lia|apply in_seq; lia]. Qed.

Fixpoint texts_eq (a b : list text) : bool :=
  match a, b with [], [] => true | x :: a', y :: b' => text_eqb x y && texts_eq a' b' | _, _ => false end.
Definition oz_eq (a : option Z) (b : Z) : bool := match a with Some x => x =? b | None => false end.
Definition otext_eq (a : option text) (b : text) : bool := match a with Some x => text_eqb x b | None => false end.

(* request line SL,v,i: what the client's framing and the board's parser make of it *)
Definition sl_text_ok (v i : Z) : bool :=
  let l := SLline v i in
  text_eqb (strip l) l && otext_eq (cmd_name l) (T "SL") &&
  texts_eq (split_c 44 l) [Tt "SL"; str_of_Z v; str_of_Z i] && oz_eq (parse_int (str_of_Z v)) v && oz_eq (parse_int (str_of_Z i)) i.
Definition ql_text_ok (i : Z) : bool :=
  let l := QLline i in
  text_eqb (strip l) l && otext_eq (cmd_name l) (T "QL") && texts_eq (split_c 44 l) [Tt "QL"; str_of_Z i] && oz_eq (parse_int (str_of_Z i)) i.
Definition ql_reply_ok (x : Z) : bool :=
  let r := QLreply x in
  text_eqb (strip r) r && match r with [] => false | _ => true end && good_reply (T "QL") r &&
  text_eqb (payload (T "QL") r) (str_of_Z x) && oz_eq (parse_int (str_of_Z x)) x.
Lemma sl_sweep : forallb (fun v => forallb (fun i => sl_text_ok v i) (zrange 32)) (zrange 256) = true.
Proof. vm_compute. reflexivity. Qed.
Lemma ql_sweep : forallb ql_text_ok (zrange 32) = true.
Proof. vm_compute. reflexivity. Qed.
Lemma qr_sweep : forallb ql_reply_ok (zrange 256) = true.
Proof. vm_compute. reflexivity. Qed.

Lemma text_eqb_eq a : forall b, text_eqb a b = true -> a = b.
Proof.
  induction a as [|x a IH]; intros [|y b]; cbn [text_eqb]; try discriminate; [reflexivity|].
  rewrite andb_true_iff, Z.eqb_eq. intros [-> H]. f_equal. apply IH, H.
Qed.
Lemma texts_eq_eq a : forall b, texts_eq a b = true -> a = b.
Proof.
  induction a as [|x a IH]; intros [|y b]; cbn [texts_eq]; try discriminate; [reflexivity|].
  rewrite andb_true_iff. intros [H1 H2]. f_equal; [apply text_eqb_eq, H1|apply IH, H2].
Qed.
Lemma oz_eq_eq a b : oz_eq a b = true -> a = Some b.
Proof. destruct a; cbn; [rewrite Z.eqb_eq; intros ->; reflexivity|discriminate]. Qed.
Lemma otext_eq_eq a b : otext_eq a b = true -> a = Some b.
Proof. destruct a; cbn; [intros H; f_equal; apply text_eqb_eq, H|discriminate]. Qed.

Lemma sl_text v i : 0 <= v <= 255 -> 0 <= i <= 31 ->
  strip (SLline v i) = SLline v i /\ cmd_name (SLline v i) = Some (T "SL") /\
  split_c 44 (SLline v i) = [Tt "SL"; str_of_Z v; str_of_Z i] /\ parse_int (str_of_Z v) = Some v /\ parse_int (str_of_Z i) = Some i.
Proof.
  intros Hv Hi. pose proof sl_sweep as S. rewrite forallb_forall in S. specialize (S v (in_zrange 256 v ltac:(lia))).
  rewrite forallb_forall in S. specialize (S i (in_zrange 32 i ltac:(lia))). unfold sl_text_ok in S.
  rewrite !andb_true_iff in S. destruct S as ((((A & B) & C) & D) & E).
  split; [apply text_eqb_eq, A|]. split; [apply otext_eq_eq, B|]. split; [apply texts_eq_eq, C|]. split; [apply oz_eq_eq, D|apply oz_eq_eq, E].
Qed.
Lemma ql_text i : 0 <= i <= 31 ->
  strip (QLline i) = QLline i /\ cmd_name (QLline i) = Some (T "QL") /\ split_c 44 (QLline i) = [Tt "QL"; str_of_Z i] /\ parse_int (str_of_Z i) = Some i.
Proof.
  intros Hi. pose proof ql_sweep as S. rewrite forallb_forall in S. specialize (S i (in_zrange 32 i ltac:(lia))). unfold ql_text_ok in S.
  rewrite !andb_true_iff in S. destruct S as (((A & B) & C) & D).
  split; [apply text_eqb_eq, A|]. split; [apply otext_eq_eq, B|]. split; [apply texts_eq_eq, C|apply oz_eq_eq, D].
Qed.
Lemma ql_reply x : 0 <= x <= 255 ->
  strip (QLreply x) = QLreply x /\ QLreply x <> [] /\ good_reply (T "QL") (QLreply x) = true /\
  payload (T "QL") (QLreply x) = str_of_Z x /\ parse_int (str_of_Z x) = Some x.
Proof.
  intros Hx. pose proof qr_sweep as S. rewrite forallb_forall in S. specialize (S x (in_zrange 256 x ltac:(lia))). unfold ql_reply_ok in S.
  rewrite !andb_true_iff in S. destruct S as ((((A & B) & C) & D) & E).
  split; [apply text_eqb_eq, A|]. split; [destruct (QLreply x); [discriminate|discriminate]|]. split; [exact C|]. split; [apply text_eqb_eq, D|apply oz_eq_eq, E].
Qed.

(* ---- the board, for every content ---- *)
Definition with_slots (b : board) (l : list Z) : board := mkboard l (nick b) (en1 b) (en2 b) (mode b).
Lemma board_step_SL b v i : 0 <= v <= 255 -> 0 <= i <= 31 ->
  board_step b (SLline v i) = (with_slots b (set_slot (slots b) (Z.to_nat i) v), Tt "SL").
Proof.
  intros Hv Hi. destruct (sl_text v i Hv Hi) as (_ & _ & S & Pv & Pi).
  unfold board_step. rewrite S. cbn [tl map]. rewrite Pv, Pi.
  change (text_eqb (Tt "SL") (Tt "SL")) with true. cbv iota.
  destruct (Z.leb_spec 0 v); [|lia]. destruct (Z.leb_spec v 255); [|lia]. destruct (Z.leb_spec 0 i); [|lia]. destruct (Z.leb_spec i 31); [|lia].
  reflexivity.
Qed.
Lemma board_step_QL b i : 0 <= i <= 31 ->
  board_step b (QLline i) = (b, QLreply (nth (Z.to_nat i) (slots b) 0)).
Proof.
  intros Hi. destruct (ql_text i Hi) as (_ & _ & S & Pi).
  unfold board_step. rewrite S. cbn [tl map]. rewrite Pi.
  change (text_eqb (Tt "QL") (Tt "SL")) with false. change (text_eqb (Tt "QL") (Tt "QL")) with true. cbv iota.
  destruct (Z.leb_spec 0 i); [|lia]. destruct (Z.leb_spec i 31); [|lia]. reflexivity.
Qed.

(* ---- the client, one exchange, for every rest of the script ---- *)
Definition s_live (s : ebb3) : Prop := port s = true /\ err s = None.
Lemma live_not_blocked s : s_live s -> blocked s = false.
Proof. intros [P E]. unfold blocked. rewrite P, E. reflexivity. Qed.
Lemma live_err_free s : s_live s -> err_free s = true.
Proof. intros [P E]. unfold err_free. rewrite E. reflexivity. Qed.

Lemma var_write_ok s v i rest : s_live s -> 0 <= v <= 255 -> 0 <= i <= 31 ->
  var_write s v i (Empty :: Line (Tt "SL") :: rest) = (s, Ret true, [SLline v i], rest).
Proof.
  intros L Hv Hi. destruct (sl_text v i Hv Hi) as (St & Nm & _).
  unfold var_write. rewrite (live_not_blocked s L). fold (SLline v i).
  rewrite (command_unfold s (SLline v i) (Empty :: Line (Tt "SL") :: rest) (SLline v i) (T "SL") (Line (Tt "SL") :: rest) (RLine (Tt "SL")) rest
             (live_not_blocked s L) St Nm eq_refl ltac:(apply (reads26_line (Tt "SL") rest); discriminate)).
  assert (E : command_result s (T "SL") (RLine (Tt "SL")) = s) by reflexivity.
  rewrite E, (live_err_free s L). reflexivity.
Qed.
Lemma var_read_ok s i x rest : s_live s -> 0 <= i <= 31 -> 0 <= x <= 255 ->
  var_read s i (Empty :: Line (QLreply x) :: rest) = (s, Ret (RInt x), [QLline i], rest).
Proof.
  intros L Hi Hx. destruct (ql_text i Hi) as (St & Nm & _). destruct (ql_reply x Hx) as (Rs & Rn & Rg & Rp & Rv).
  unfold var_read. rewrite (live_not_blocked s L). fold (QLline i).
  assert (R26 : reads26 (Line (QLreply x) :: rest) = (RLine (QLreply x), rest)).
  { rewrite <- Rs at 2. apply reads26_line. rewrite Rs. exact Rn. }
  rewrite (query_unfold s (QLline i) (Empty :: Line (QLreply x) :: rest) (QLline i) (T "QL") (Line (QLreply x) :: rest) (RLine (QLreply x)) rest
             (live_not_blocked s L) St Nm eq_refl R26).
  unfold query_result. unfold good_reply in Rg. apply andb_true_iff in Rg. destruct Rg as [G1 G2]. apply negb_true_iff in G2.
  rewrite G1, G2. cbn [orb negb fst snd]. rewrite (live_err_free s L). cbn [negb]. rewrite Rp, Rv. reflexivity.
Qed.

(* ---- four exchanges in a row ---- *)
Definition sl_replies (n : nat) : script := flat_map (fun _ => [Empty; Line (Tt "SL")]) (seq 0 n).
Lemma var_write_seq_ok s : s_live s -> forall bytes i w rest,
  Forall (fun x => 0 <= x <= 255) bytes -> 0 <= i -> i + Z.of_nat (length bytes) <= 32 ->
  var_write_seq s bytes i (sl_replies (length bytes) ++ rest) w =
    (s, Ret tt, w ++ map (fun p => SLline (fst p) (snd p)) (combine bytes (map (fun k => i + Z.of_nat k) (seq 0 (length bytes)))), rest).
Proof.
  intros L. induction bytes as [|b bs IH]; intros i w rest HB Hi Hn.
  - cbn. rewrite app_nil_r. reflexivity.
  - inversion HB as [|? ? Hb HB']; subst. cbn [length] in Hn.
    change (sl_replies (length (b :: bs)) ++ rest) with (Empty :: Line (Tt "SL") :: (flat_map (fun _ => [Empty; Line (Tt "SL")]) (seq 1 (length bs)) ++ rest)).
    assert (Esh : flat_map (fun _ : nat => [Empty; Line (Tt "SL")]) (seq 1 (length bs)) = sl_replies (length bs)).
    { unfold sl_replies. rewrite <- seq_shift, flat_map_concat_map, map_map, <- flat_map_concat_map. reflexivity. }
    rewrite Esh. cbn [var_write_seq]. rewrite (var_write_ok s b i _ L Hb ltac:(lia)).
    rewrite IH by (try assumption; lia). f_equal. f_equal. rewrite <- app_assoc. f_equal.
    cbn [length seq map combine fst snd]. rewrite Z.add_0_r.
    rewrite <- seq_shift, map_map. cbn [app]. f_equal. f_equal. f_equal. apply map_ext. intros k. lia.
Qed.

Definition ql_replies (xs : list Z) : script := flat_map (fun x => [Empty; Line (QLreply x)]) xs.
Lemma var_read_seq_ok s : s_live s -> forall xs i w acc rest,
  Forall (fun x => 0 <= x <= 255) xs -> 0 <= i -> i + Z.of_nat (length xs) <= 32 ->
  var_read_seq s (length xs) i (ql_replies xs ++ rest) w acc =
    (s, Ret (rev acc ++ map RInt xs), w ++ map (fun k => QLline (i + Z.of_nat k)) (seq 0 (length xs)), rest).
Proof.
  intros L. induction xs as [|x xs IH]; intros i w acc rest HX Hi Hn.
  - cbn. rewrite !app_nil_r. reflexivity.
  - inversion HX as [|? ? Hx HX']; subst. cbn [length] in Hn.
    cbn [length var_read_seq ql_replies flat_map app]. fold (ql_replies xs).
    rewrite (var_read_ok s i x _ L ltac:(lia) Hx).
    rewrite IH by (try assumption; lia). f_equal. f_equal.
    + f_equal. cbn [rev]. rewrite <- app_assoc. reflexivity.
    + rewrite <- app_assoc. f_equal. cbn [seq map]. rewrite Z.add_0_r.
      rewrite <- seq_shift, map_map. cbn [app]. f_equal. apply map_ext. intros k. f_equal. lia.
Qed.

(* ---- the board side of four exchanges ---- *)
Fixpoint set_slots (l : list Z) (i : nat) (bytes : list Z) : list Z :=
  match bytes with [] => l | x :: t => set_slots (set_slot l i x) (S i) t end.
Lemma with_slots_id b : with_slots b (slots b) = b.
Proof. destruct b; reflexivity. Qed.
Lemma board_replies_SL : forall bytes b i, Forall (fun x => 0 <= x <= 255) bytes -> 0 <= i -> i + Z.of_nat (length bytes) <= 32 ->
  board_replies b (map (fun p => SLline (fst p) (snd p)) (combine bytes (map (fun k => i + Z.of_nat k) (seq 0 (length bytes))))) =
    (map (fun _ => Tt "SL") bytes, with_slots b (set_slots (slots b) (Z.to_nat i) bytes)).
Proof.
  induction bytes as [|x t IH]; intros b i HB Hi Hn.
  - cbn. rewrite with_slots_id. reflexivity.
  - inversion HB as [|? ? Hx HB']; subst. cbn [length] in Hn.
    cbn [length seq map combine fst snd board_replies]. rewrite Z.add_0_r, (board_step_SL b x i Hx ltac:(lia)).
    rewrite <- seq_shift, map_map.
    rewrite (map_ext (fun k => i + Z.of_nat (S k)) (fun k => (i + 1) + Z.of_nat k)) by (intros; lia).
    rewrite (IH (with_slots b (set_slot (slots b) (Z.to_nat i) x)) (i + 1) HB' ltac:(lia) ltac:(lia)).
    cbn [set_slots slots with_slots nick en1 en2 mode]. replace (Z.to_nat (i + 1)) with (S (Z.to_nat i)) by lia. reflexivity.
Qed.
Lemma board_replies_QL b : forall idxs, Forall (fun i => 0 <= i <= 31) idxs ->
  board_replies b (map QLline idxs) = (map (fun i => QLreply (nth (Z.to_nat i) (slots b) 0)) idxs, b).
Proof.
  induction idxs as [|i t IH]; intros H; [reflexivity|]. inversion H as [|? ? Hi Ht]; subst.
  cbn [map board_replies]. rewrite (board_step_QL b i Hi), (IH Ht). reflexivity.
Qed.

Lemma set_slot_length l : forall i v, length (set_slot l i v) = length l.
Proof. induction l as [|x l IH]; intros [|i] v; cbn [set_slot length]; try reflexivity. rewrite IH. reflexivity. Qed.
Lemma nth_set_slot l : forall i j v, (i < length l)%nat -> nth j (set_slot l i v) 0 = if Nat.eqb j i then v else nth j l 0.
Proof.
  induction l as [|x l IH]; intros [|i] [|j] v H; cbn [set_slot nth Nat.eqb length] in *; try reflexivity; try lia.
  apply IH. lia.
Qed.
Lemma set_slots_length : forall bytes l i, length (set_slots l i bytes) = length l.
Proof. induction bytes as [|x t IH]; intros l i; cbn [set_slots]; [reflexivity|]. rewrite IH, set_slot_length. reflexivity. Qed.
Lemma nth_set_slots : forall bytes l i j, (i + length bytes <= length l)%nat ->
  nth j (set_slots l i bytes) 0 = if (Nat.leb i j && Nat.ltb j (i + length bytes))%bool then nth (j - i) bytes 0 else nth j l 0.
Proof.
  induction bytes as [|x t IH]; intros l i j H; cbn [set_slots length] in *.
  - rewrite Nat.add_0_r. destruct (Nat.leb_spec i j), (Nat.ltb_spec j i); cbn [andb]; try reflexivity; lia.
  - rewrite IH by (rewrite set_slot_length; lia). rewrite nth_set_slot by lia.
    destruct (Nat.leb_spec (S i) j), (Nat.ltb_spec j (S i + length t)), (Nat.leb_spec i j), (Nat.ltb_spec j (i + S (length t))), (Nat.eqb_spec j i); cbn [andb]; try lia; try reflexivity.
    + replace (j - i)%nat with (S (j - S i)) by lia. reflexivity.
    + subst j. rewrite Nat.sub_diag. reflexivity.
Qed.

(* ---- coherent runs: the lines written are the lines the board answered, the whole script is consumed ---- *)
Definition coherent (c : cfg) (s : ebb3) (k : call) (b : board) (s' : ebb3) (o : outcome rv) (w : list text) (b' : board) : Prop :=
  step c s k (script_of (fst (board_replies b w))) = (s', o, w, []) /\ b' = snd (board_replies b w).

Definition idx4 (i : Z) : list Z := [i; i + 1; i + 2; i + 3].

Theorem int32_write_read c s b v i : s_live s -> length (slots b) = 32%nat -> -2147483648 <= v <= 2147483647 -> 0 <= i <= 28 ->
  exists bytes w b' w2,
    to_bytes4 v = Some bytes /\ Forall (fun x => 0 <= x <= 255) bytes /\ length bytes = 4%nat /\
    coherent c s (CVarWrite32 v i) b s (Ret (RBool true)) w b' /\
    (forall j, nth j (slots b') 0 = if (Nat.leb (Z.to_nat i) j && Nat.ltb j (Z.to_nat i + 4))%bool then nth (j - Z.to_nat i) bytes 0 else nth j (slots b) 0) /\
    length (slots b') = 32%nat /\ nick b' = nick b /\ en1 b' = en1 b /\ en2 b' = en2 b /\ mode b' = mode b /\
    coherent c s (CVarRead32 i) b' s (Ret (RInt v)) w2 b'.
Proof.
  intros L Hlen Hv Hi. destruct (int32_roundtrip v Hv) as (bytes & Eb & Ef & HB & Hl).
  set (w := map (fun p => SLline (fst p) (snd p)) (combine bytes (map (fun k => i + Z.of_nat k) (seq 0 (length bytes))))).
  set (b' := with_slots b (set_slots (slots b) (Z.to_nat i) bytes)).
  exists bytes, w, b', (map QLline (idx4 i)).
  split; [exact Eb|]. split; [exact HB|]. split; [exact Hl|].
  assert (BR : board_replies b w = (map (fun _ => Tt "SL") bytes, b')) by (apply board_replies_SL; [exact HB|lia|rewrite Hl; lia]).
  split.
  { unfold coherent. rewrite BR. cbn [fst snd]. split; [|reflexivity].
    cbn [step]. unfold var_write_int32. rewrite (live_not_blocked s L), Eb.
    assert (Esc : script_of (map (fun _ => Tt "SL") bytes) = sl_replies (length bytes) ++ []).
    { rewrite app_nil_r. destruct bytes as [|b0 [|b1 [|b2 [|b3 [|]]]]]; try discriminate. reflexivity. }
    rewrite Esc, (var_write_seq_ok s L bytes i [] [] HB ltac:(lia) ltac:(rewrite Hl; lia)).
    rewrite (live_err_free s L). reflexivity. }
  assert (Hn : forall j, nth j (slots b') 0 = if (Nat.leb (Z.to_nat i) j && Nat.ltb j (Z.to_nat i + 4))%bool then nth (j - Z.to_nat i) bytes 0 else nth j (slots b) 0).
  { intros j. unfold b'. cbn [slots with_slots]. rewrite nth_set_slots by (rewrite Hl, Hlen; lia). rewrite Hl. reflexivity. }
  split; [exact Hn|].
  split; [unfold b'; cbn [slots with_slots]; rewrite set_slots_length; exact Hlen|].
  split; [reflexivity|]. split; [reflexivity|]. split; [reflexivity|]. split; [reflexivity|].
  (* read back *)
  assert (I4 : Forall (fun k => 0 <= k <= 31) (idx4 i)) by (unfold idx4; repeat constructor; lia).
  unfold coherent. rewrite (board_replies_QL b' (idx4 i) I4). cbn [fst snd]. split; [|reflexivity].
  assert (Ex : map (fun k => nth (Z.to_nat k) (slots b') 0) (idx4 i) = bytes).
  { unfold idx4. cbn [map]. rewrite !Hn.
    destruct bytes as [|b0 [|b1 [|b2 [|b3 [|]]]]]; try discriminate.
    replace (Z.to_nat (i + 1)) with (Z.to_nat i + 1)%nat by lia. replace (Z.to_nat (i + 2)) with (Z.to_nat i + 2)%nat by lia.
    replace (Z.to_nat (i + 3)) with (Z.to_nat i + 3)%nat by lia.
    repeat match goal with |- context [Nat.leb ?a ?b] => destruct (Nat.leb_spec a b); [|lia] end.
    repeat match goal with |- context [Nat.ltb ?a ?b] => destruct (Nat.ltb_spec a b); [|lia] end.
    cbn [andb]. replace (Z.to_nat i - Z.to_nat i)%nat with 0%nat by lia. replace (Z.to_nat i + 1 - Z.to_nat i)%nat with 1%nat by lia.
    replace (Z.to_nat i + 2 - Z.to_nat i)%nat with 2%nat by lia. replace (Z.to_nat i + 3 - Z.to_nat i)%nat with 3%nat by lia. reflexivity. }
  assert (Esc : script_of (map (fun k => QLreply (nth (Z.to_nat k) (slots b') 0)) (idx4 i)) = ql_replies bytes ++ []).
  { rewrite app_nil_r, <- Ex. unfold script_of, ql_replies. rewrite !flat_map_concat_map, !map_map. reflexivity. }
  cbn [step]. unfold var_read_int32. rewrite (live_not_blocked s L), Esc.
  replace 4%nat with (length bytes) by exact Hl.
  rewrite (var_read_seq_ok s L bytes i [] [] [] HB ltac:(lia) ltac:(rewrite Hl; lia)).
  rewrite (live_err_free s L). cbn [negb rev app]. rewrite map_map. cbn beta iota.
  rewrite map_id. rewrite Ef. f_equal. f_equal.
  rewrite Hl. unfold idx4. cbn [seq map]. rewrite Z.add_0_r. reflexivity.
Qed.

(* ---- nickname: every text ---- *)
Lemma lstrip_idem s : lstrip (lstrip s) = lstrip s.
Proof. induction s as [|c t IH]; [reflexivity|]. cbn [lstrip]. destruct (is_ws c) eqn:E; [exact IH|]. cbn [lstrip]. rewrite E. reflexivity. Qed.
Lemma rstrip_idem s : rstrip (rstrip s) = rstrip s.
Proof. unfold rstrip. rewrite rev_involutive, lstrip_idem. reflexivity. Qed.
Lemma lstrip_app_nonws x y : lstrip x = x -> x <> [] -> lstrip (x ++ y) = x ++ y.
Proof. destruct x as [|c t]; [congruence|]. cbn [lstrip app]. destruct (is_ws c) eqn:E; [|reflexivity]. intros H _. exfalso.
  assert (L : (length (lstrip t) <= length t)%nat) by (clear; induction t as [|d u IH]; [apply le_n|cbn [lstrip]; destruct (is_ws d); cbn [length]; lia]).
  rewrite H in L. cbn [length] in L. lia. Qed.
Lemma rstrip_app_nonws a n : rstrip n = n -> n <> [] -> rstrip (a ++ n) = a ++ n.
Proof.
  intros H Hn. unfold rstrip in *. rewrite rev_app_distr.
  assert (E : lstrip (rev n) = rev n) by (rewrite <- H at 2; rewrite rev_involutive; reflexivity).
  rewrite lstrip_app_nonws; [rewrite <- rev_app_distr, rev_involutive; reflexivity|exact E|].
  intros C. apply Hn. rewrite <- (rev_involutive n), C. reflexivity.
Qed.
Lemma strip_prefixed (p n0 : text) c t : p = c :: t -> is_ws c = false -> rstrip p = p ->
  strip (p ++ strip n0) = p ++ strip n0.
Proof.
  intros -> Hc Hp. unfold strip at 1. cbn [app lstrip]. rewrite Hc. change (c :: t ++ strip n0) with ((c :: t) ++ strip n0).
  destruct (strip n0) as [|d u] eqn:E.
  - rewrite app_nil_r. exact Hp.
  - rewrite <- E. apply rstrip_app_nonws; [unfold strip; apply rstrip_idem|rewrite E; discriminate].
Qed.

Lemma lstrip_suffix w : exists p, w = p ++ lstrip w.
Proof. induction w as [|c t [p IH]]; [exists []; reflexivity|]. cbn [lstrip]. destruct (is_ws c); [exists (c :: p); cbn [app]; f_equal; exact IH|exists []; reflexivity]. Qed.
Lemma rstrip_prefix y : exists z, y = rstrip y ++ z.
Proof. unfold rstrip. destruct (lstrip_suffix (rev y)) as [p H]. exists (rev p). rewrite <- rev_app_distr, <- H, rev_involutive. reflexivity. Qed.
Lemma lstrip_head c t : lstrip (c :: t) = c :: t -> is_ws c = false.
Proof. cbn [lstrip]. destruct (is_ws c) eqn:E; [|reflexivity]. intros H.
  assert (L : (length (lstrip t) <= length t)%nat) by (clear; induction t as [|d u IH]; [apply le_n|cbn [lstrip]; destruct (is_ws d); cbn [length]; lia]).
  rewrite H in L. cbn [length] in L. lia. Qed.
Lemma strip_head x d u : strip x = d :: u -> is_ws d = false.
Proof.
  unfold strip. intros E. destruct (rstrip_prefix (lstrip x)) as [z Hz]. rewrite E in Hz. cbn [app] in Hz.
  apply (lstrip_head d (u ++ z)). rewrite <- Hz. apply lstrip_idem.
Qed.
Lemma strip_idem x : strip (strip x) = strip x.
Proof.
  destruct (strip x) as [|d u] eqn:E; [reflexivity|]. pose proof (strip_head x d u E) as Hd.
  unfold strip at 1. cbn [lstrip]. rewrite Hd. rewrite <- E. unfold strip. apply rstrip_idem.
Qed.

Theorem nickname_write_read c s b n0 : s_live s -> let n := strip n0 in
  contains (T "QT," ++ n) (T "Err:") = false ->
  exists b', coherent c s (CWriteNick (Some n0)) b (set_name s n) (Ret (RBool true)) [T "ST," ++ n] b' /\
             nick b' = n /\ slots b' = slots b /\ en1 b' = en1 b /\ en2 b' = en2 b /\ mode b' = mode b /\
             coherent c (set_name s n) CQueryNick b' (set_name s n) (Ret RNone) [T "QT"] b'.
Proof.
  intros L n Hc.
  assert (St : strip (T "ST," ++ n) = T "ST," ++ n) by (apply (strip_prefixed (T "ST,") n0 83 (T "T,")); reflexivity).
  assert (Sq : strip (T "QT," ++ n) = T "QT," ++ n) by (apply (strip_prefixed (T "QT,") n0 81 (T "T,")); reflexivity).
  assert (BS : board_step b (T "ST," ++ n) = (mkboard (slots b) n (en1 b) (en2 b) (mode b), Tt "ST")).
  { unfold board_step. change (T "ST," ++ n) with (83 :: 84 :: 44 :: n). unfold split_c. cbn [split_c_aux Z.eqb Pos.eqb rev app].
    change (text_eqb [83; 84] (Tt "SL")) with false. change (text_eqb [83; 84] (Tt "QL")) with false. change (text_eqb [83; 84] (Tt "ST")) with true.
    cbv iota. reflexivity. }
  exists (mkboard (slots b) n (en1 b) (en2 b) (mode b)).
  split.
  { unfold coherent. cbn [board_replies]. rewrite BS. cbn [fst snd script_of flat_map app]. split; [|reflexivity].
    cbn [step]. unfold write_nickname. rewrite (live_not_blocked s L). fold n.
    rewrite (command_unfold s (T "ST," ++ n) [Empty; Line (Tt "ST")] (T "ST," ++ n) (T "ST") [Line (Tt "ST")] (RLine (Tt "ST")) []
               (live_not_blocked s L) St eq_refl eq_refl ltac:(apply (reads26_line (Tt "ST") []); discriminate)).
    assert (E : command_result s (T "ST") (RLine (Tt "ST")) = s) by reflexivity. rewrite E, (live_err_free s L).
    destruct (fix_nick c); reflexivity. }
  split; [reflexivity|]. split; [reflexivity|]. split; [reflexivity|]. split; [reflexivity|]. split; [reflexivity|].
  set (s1 := set_name s n). assert (L1 : s_live s1) by (destruct L; split; assumption).
  unfold coherent. cbn [board_replies]. 
  assert (BQ : board_step (mkboard (slots b) n (en1 b) (en2 b) (mode b)) (T "QT") = (mkboard (slots b) n (en1 b) (en2 b) (mode b), Tt "QT," ++ n)) by reflexivity.
  rewrite BQ. cbn [fst snd script_of flat_map app]. split; [|reflexivity].
  cbn [step]. unfold query_nickname. rewrite (live_not_blocked s1 L1).
  assert (R26 : reads26 [Line (Tt "QT," ++ n)] = (RLine (T "QT," ++ n), [])).
  { change (Tt "QT,") with (T "QT,"). rewrite <- Sq at 2. apply reads26_line. rewrite Sq. discriminate. }
  rewrite (query_unfold s1 (T "QT") [Empty; Line (Tt "QT," ++ n)] (T "QT") (T "QT") [Line (Tt "QT," ++ n)] (RLine (T "QT," ++ n)) []
             (live_not_blocked s1 L1) eq_refl eq_refl eq_refl R26).
  unfold query_result. rewrite Hc. change (startswith (T "QT," ++ n) (T "QT")) with true. cbn [orb negb fst snd].
  assert (P : payload (T "QT") (T "QT," ++ n) = n) by reflexivity. rewrite P.
  assert (Sn : strip n = n) by (unfold n; apply strip_idem).
  destruct (isspace n) eqn:Ei.
  - (* a stripped text that is all white space is empty *)
    exfalso. unfold n in Ei. destruct (strip n0) as [|d u] eqn:E; [discriminate|]. pose proof (strip_head n0 d u E) as Hd.
    unfold isspace in Ei. cbn [forallb] in Ei. rewrite Hd in Ei. discriminate.
  - rewrite Sn. unfold s1. destruct s; reflexivity.
Qed.

(* ---- the motor protocol, for every board content ----
   The sweep of Proofs/BoardProofs.v runs with one fixed variable store and nickname.  Here the variable store, the nickname, the
   client's version and name are variables: each of the 20 x 36 (prior state, clamped request) cases is normalised by the kernel on
   an open term (the board only copies those fields), so the statement holds for every board. *)
(* the lines a motor request writes against a board whose variable store and nickname are arbitrary *)
Definition motor_lines (sl : list Z) (nk : text) (e1 e2 : bool) (m r1 r2 : Z) (v : option (list Z)) (n : option text) : list text :=
  let '((_, _, w, _), _) := cosim 6 cfg_fixed (mkebb true None v n) (CMotorsOn r1 r2) (mkboard sl nk e1 e2 m) [] in w.

Lemma motors_general_one sl nk v n e1 e2 m r1 r2 : In m [1; 2; 3; 4; 5] -> In r1 range06 -> In r2 range06 ->
  let b := mkboard sl nk e1 e2 m in let s := mkebb true None v n in
  exists b', coherent cfg_fixed s (CMotorsOn r1 r2) b s (Ret RNone) (motor_lines sl nk e1 e2 m r1 r2 v n) b' /\
    slots b' = sl /\ nick b' = nk /\ en1 b' = negb (r1 =? 0) /\ en2 b' = negb (r2 =? 0) /\
    mode b' = (if negb (r1 =? 0) then r1 else if negb (r2 =? 0) then r2 else m).
Proof.
  intros Hm H1 H2 b s. subst b s. unfold range06 in *. cbn [In] in Hm, H1, H2.
  destruct e1, e2;
  (destruct Hm as [<-|[<-|[<-|[<-|[<-|[]]]]]];
   destruct H1 as [<-|[<-|[<-|[<-|[<-|[<-|[]]]]]]];
   destruct H2 as [<-|[<-|[<-|[<-|[<-|[<-|[]]]]]]];
   eexists; unfold coherent; vm_compute; repeat split; reflexivity).
Qed.

(* every board (any variable store, any nickname), every connected error-free client state, every integer request *)
Theorem motors_general c s b r1 r2 : s_live s -> 1 <= mode b <= 5 ->
  let c1 := clamp05 r1 in let c2 := clamp05 r2 in
  exists w b', coherent c s (CMotorsOn r1 r2) b s (Ret RNone) w b' /\
    slots b' = slots b /\ nick b' = nick b /\ en1 b' = negb (c1 =? 0) /\ en2 b' = negb (c2 =? 0) /\
    mode b' = (if negb (c1 =? 0) then c1 else if negb (c2 =? 0) then c2 else mode b).
Proof.
  intros [Hp He] Hm c1 c2. destruct b as [sl nk e1 e2 m]. destruct s as [p e v n]. cbn [port err mode] in *. subst p e.
  assert (Im : In m [1; 2; 3; 4; 5]) by (cbn [In]; lia).
  destruct (motors_general_one sl nk v n e1 e2 m c1 c2 Im (clamp05_range r1) (clamp05_range r2)) as (b' & C & R).
  exists (motor_lines sl nk e1 e2 m c1 c2 v n), b'. split; [|exact R].
  unfold coherent in *. cbn [step] in *. destruct C as [C1 C2]. split; [|exact C2].
  rewrite motors_enable_clamps. exact C1.
Qed.

Theorem motors_query_general c s b : s_live s -> 1 <= mode b <= 5 ->
  coherent c s CMotorsQuery b s (Ret (RPair (RInt (if en1 b then mode b else 0)) (RInt (if en2 b then mode b else 0)))) [T "QE"] b.
Proof.
  intros [Hp He] Hm. destruct b as [sl nk e1 e2 m]. destruct s as [p e v n]. cbn [port err mode en1 en2] in *. subst p e.
  assert (Im : In m [1; 2; 3; 4; 5]) by (cbn [In]; lia). cbn [In] in Im.
  destruct e1, e2; (destruct Im as [<-|[<-|[<-|[<-|[<-|[]]]]]]; unfold coherent; vm_compute; split; reflexivity).
Qed.
