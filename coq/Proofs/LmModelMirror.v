(* C03, part 2: the model of calculate_lm commutes with the mirror image (rate, accel, acc) -> (-rate, -accel, 2^31-1 - acc):
   the two roots exchange their roles, the duration is the same, position and adjusted accumulator change sign. *)
From Coq Require Import ZArith Bool Lia.
From Plotink Require Import Spec.Firmware Spec.LmSpec Spec.LmCheck Model.LmModel.
Open Scope Z_scope.

(* ------------------------------------------------------------------ *)
Definition mirror (m : lm_mid) : lm_mid :=
  {| m_neg := negb (m_neg m); m_acc := M31 - m_acc m; m_adj := - m_adj m; m_trev := m_trev m; m_srev := m_srev m;
     m_pos := - m_pos m; m_padj := - m_padj m; m_rev := m_rev m |}.

Lemma front_mirror st rate a c : (rate - Z.quot a 2 + a <> 0 \/ a <> 0) ->
  lm_front st (- rate) (- a) (Some (M31 - c)) = mirror (lm_front st rate a (Some c)).
Proof.
  intros H. unfold lm_front. rewrite Z.quot_opp_l by lia. set (q := Z.quot a 2).
  replace (- rate - - q + - a) with (- (rate - q + a)) by lia. set (t := rate - q + a) in *.
  replace (- rate - - q) with (- (rate - q)) by lia. set (rz := rate - q).
  destruct (Z.ltb_spec t 0), (Z.eqb_spec t 0), (Z.ltb_spec a 0), (Z.ltb_spec 0 a), (Z.ltb_spec (-t) 0), (Z.eqb_spec (-t) 0), (Z.ltb_spec (-a) 0), (Z.ltb_spec 0 (-a)); try lia; cbn [andb orb negb].
  all: rewrite ?Z.opp_involutive.
  all: repeat match goal with
       | |- context [Z.abs (M31 - ?c + - ?rz * ?t + - ?a * ?k)] => replace (M31 - c + - rz * t + - a * k) with (- (c - M31 + rz * t + a * k)) by ring; rewrite Z.abs_opp
       | |- context [Z.abs (M31 - ?c - M31 + - ?rz * ?t + - ?a * ?k)] => replace (M31 - c - M31 + - rz * t + - a * k) with (- (c + rz * t + a * k)) by ring; rewrite Z.abs_opp
       end.
  all: repeat match goal with |- context [if ?b then _ else _] => destruct b eqn:? end.
  all: unfold mirror; cbn [m_neg m_acc m_adj m_trev m_srev m_pos m_padj m_rev negb]; try (f_equal; lia).
Qed.

Lemma ceil_root_mirror sg N M D : M <> 0 -> ceil_root sg (- N) (- M) D = ceil_root (negb sg) N M D.
Proof.
  intros HM. unfold ceil_root. destruct (Z.ltb_spec 0 M), (Z.ltb_spec 0 (- M)); try lia; destruct sg; cbn [negb]; rewrite ?Z.opp_involutive; f_equal; lia.
Qed.

Lemma time_mirror rate a m : lm_time (- rate) (- a) (mirror m) = lm_time rate a m.
Proof.
  unfold lm_time, mirror. cbn [m_neg m_acc m_adj m_trev m_srev m_pos m_padj m_rev].
  destruct (Z.eqb_spec a 0) as [E|E]; destruct (Z.eqb_spec (- a) 0); try lia.
  - unfold cdiv. f_equal. replace (- (B31 * - m_pos m - - m_adj m)) with (B31 * m_pos m - m_adj m) by ring.
    replace (- (B31 * m_pos m - m_adj m)) with (- (B31 * m_pos m - m_adj m)) by ring.
    destruct (Z.eq_dec rate 0) as [->|R]; [cbn; rewrite !Zdiv_0_r; reflexivity|].
    rewrite <- (Z.div_opp_opp (- (B31 * m_pos m - m_adj m)) rate R). f_equal. ring.
  - rewrite Z.quot_opp_l by lia.
    replace (2 * - rate + - a - 2 * - (a ÷ 2)) with (- (2 * rate + a - 2 * (a ÷ 2))) by ring. set (b2 := 2 * rate + a - 2 * (a ÷ 2)).
    replace (- m_adj m - - m_padj m * B31) with (- (m_adj m - m_padj m * B31)) by ring. set (c0 := m_adj m - m_padj m * B31).
    set (c := if m_rev m then if a <? 0 then c0 + 1 else c0 - 1 else c0).
    assert (Ec : (if m_rev m then if - a <? 0 then - c0 + 1 else - c0 - 1 else - c0) = - c).
    { unfold c. destruct (m_rev m); [|reflexivity]. destruct (Z.ltb_spec a 0), (Z.ltb_spec (- a) 0); lia. }
    rewrite Ec. replace (- b2 * - b2 - 8 * - a * - c) with (b2 * b2 - 8 * a * c) by ring. set (D4 := b2 * b2 - 8 * a * c).
    destruct (D4 <? 0); [reflexivity|].
    replace (2 * - a) with (- (2 * a)) by ring. rewrite !ceil_root_mirror by lia. cbn [negb].
    set (nn := ceil_root false (- b2) (2 * a) D4). set (pp := ceil_root true (- b2) (2 * a) D4).
    set (n' := if m_rev m && (nn <=? m_trev m) then -1 else nn). set (p' := if m_rev m && (pp <=? m_trev m) then -1 else pp).
    destruct (Z.ltb_spec 0 n'), (Z.ltb_spec 0 p'), (Z.ltb_spec p' n'), (Z.ltb_spec n' p'); lia.
Qed.
