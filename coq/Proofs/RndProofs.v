(* The executable round-to-nearest-even Base.Rnd.round_ne (the operator with which the float models of C11 / C12 / C20 are executed and
   against which CPython float and mpmath operations are compared, Corr/Rounding.v) has the properties the rounding theorems ask of a
   rounding operator: it respects ==, is monotone, leaves p-bit numbers unchanged, and has relative error at most 2^-p, for every
   precision p >= 1.  So C01_rounding_exact, C02_rounding, C02_rate_float_exact, C03_rounding and C17_float_exact hold of it. *)
From Coq Require Import ZArith QArith Qabs Lia Lqa.
From Plotink Require Import Base.Rnd Model.EbbCalc Proofs.TmidFloat.
Open Scope Z_scope.

(* ---------- round half even of n / d ---------- *)
Lemma Zrhe_spec n d : 0 < d -> let q := Zrhe n d in
  2 * Z.abs (q * d - n) <= d /\ (2 * Z.abs (q * d - n) = d -> Z.even q = true).
Proof.
  intros Hd q. subst q. unfold Zrhe. pose proof (Z.div_mod n d ltac:(lia)) as E. pose proof (Z.mod_pos_bound n d Hd) as B.
  set (k := n / d) in *. set (r := n mod d) in *.
  destruct (Z.compare_spec (2 * r) d) as [C|C|C].
  - destruct (Z.even k) eqn:Ev; split; try nia.
    + intros _. exact Ev.
    + intros _. rewrite Z.even_add, Ev. reflexivity.
  - split; nia.
  - split; nia.
Qed.

(* two integers that are both a nearest-even rounding of the same ratio are equal *)
Lemma nearest_even_unique n d q1 q2 : 0 < d ->
  2 * Z.abs (q1 * d - n) <= d -> (2 * Z.abs (q1 * d - n) = d -> Z.even q1 = true) ->
  2 * Z.abs (q2 * d - n) <= d -> (2 * Z.abs (q2 * d - n) = d -> Z.even q2 = true) -> q1 = q2.
Proof.
  intros Hd A1 E1 A2 E2. destruct (Z.lt_trichotomy q1 q2) as [L|[E|G]]; [|exact E|]; exfalso.
  - assert (q2 = q1 + 1) by nia. subst q2. assert (T1 : 2 * Z.abs (q1 * d - n) = d) by nia. assert (T2 : 2 * Z.abs ((q1 + 1) * d - n) = d) by nia.
    specialize (E1 T1). specialize (E2 T2). rewrite Z.even_add, E1 in E2. discriminate.
  - assert (q1 = q2 + 1) by nia. subst q1. assert (T2 : 2 * Z.abs (q2 * d - n) = d) by nia. assert (T1 : 2 * Z.abs ((q2 + 1) * d - n) = d) by nia.
    specialize (E1 T1). specialize (E2 T2). rewrite Z.even_add, E2 in E1. discriminate.
Qed.

(* ---------- floor (log2 (a / d)) ---------- *)
Lemma ilog2q_spec a d : 0 < a -> 0 < d -> let e := ilog2q a d in
  (0 <= e -> d * 2 ^ e <= a < d * 2 ^ (e + 1)) /\ (e < 0 -> d <= a * 2 ^ (- e) /\ a * 2 ^ (- e - 1) < d).
Proof.
  intros Ha Hd. unfold ilog2q, pow2. cbv zeta.
  pose proof (Z.log2_spec a Ha) as [A1 A2]. pose proof (Z.log2_spec d Hd) as [D1 D2].
  pose proof (Z.log2_nonneg a) as NA. pose proof (Z.log2_nonneg d) as ND.
  set (la := Z.log2 a) in *. set (ld := Z.log2 d) in *. unfold Z.succ in *.
  rewrite Z.pow_add_r in A2, D2 by lia. change (2 ^ 1) with 2 in *.
  destruct (Z.leb_spec 0 (la - ld)) as [P|N].
  - assert (E : 2 ^ la = 2 ^ ld * 2 ^ (la - ld)) by (rewrite <- Z.pow_add_r by lia; f_equal; lia).
    assert (Pk : 0 < 2 ^ (la - ld)) by (apply Z.pow_pos_nonneg; lia). assert (Pd : 0 < 2 ^ ld) by (apply Z.pow_pos_nonneg; lia).
    destruct (Z.ltb_spec a (d * 2 ^ (la - ld))) as [L|G].
    + split; intros He.
      * assert (K : 2 ^ (la - ld) = 2 * 2 ^ (la - ld - 1)) by (rewrite <- Z.pow_succ_r by lia; f_equal; lia).
        replace (la - ld - 1 + 1) with (la - ld) by lia. split; [|exact L]. nia.
      * assert (la - ld = 0) by lia. replace (- (la - ld - 1)) with 1 by lia. replace (- (la - ld - 1) - 1) with 0 by lia.
        change (2 ^ 1) with 2. change (2 ^ 0) with 1. rewrite H in *. change (2 ^ 0) with 1 in *. lia.
    + split; intros He; [|lia]. split; [exact G|]. rewrite Z.pow_add_r by lia. change (2 ^ 1) with 2. nia.
  - assert (E : 2 ^ ld = 2 ^ la * 2 ^ (- (la - ld))) by (rewrite <- Z.pow_add_r by lia; f_equal; lia).
    assert (Pk : 0 < 2 ^ (- (la - ld))) by (apply Z.pow_pos_nonneg; lia). assert (Pa : 0 < 2 ^ la) by (apply Z.pow_pos_nonneg; lia).
    destruct (Z.ltb_spec (a * 2 ^ (- (la - ld))) d) as [L|G].
    + split; intros He; [lia|]. replace (- (la - ld - 1)) with (- (la - ld) + 1) by lia. replace (- (la - ld) + 1 - 1) with (- (la - ld)) by lia.
      rewrite Z.pow_add_r by lia. change (2 ^ 1) with 2. split; [nia|exact L].
    + split; intros He; [lia|]. split; [exact G|].
      assert (K : 2 ^ (- (la - ld)) = 2 * 2 ^ (- (la - ld) - 1)) by (rewrite <- Z.pow_succ_r by lia; f_equal; lia). nia.
Qed.

(* ---------- powers of two as rationals ---------- *)
Definition p2 (e : Z) : Q := if 0 <=? e then inject_Z (2 ^ e) else (1 / inject_Z (2 ^ (- e)))%Q.
Lemma pow_pos' e : 0 <= e -> 0 < 2 ^ e. Proof. intros. apply Z.pow_pos_nonneg; lia. Qed.
Lemma izpos z : 0 < z -> (0 < inject_Z z)%Q. Proof. intros H. change 0%Q with (inject_Z 0). rewrite <- Zlt_Qlt. exact H. Qed.
Lemma iznz z : z <> 0 -> ~ (inject_Z z == 0)%Q. Proof. intros H. unfold Qeq. cbn [Qnum Qden inject_Z]. lia. Qed.
Lemma p2_pos e : (0 < p2 e)%Q.
Proof.
  unfold p2. destruct (Z.leb_spec 0 e).
  - apply izpos, pow_pos'; lia.
  - apply Qlt_shift_div_l; [apply izpos, pow_pos'; lia|]. rewrite Qmult_0_l. reflexivity.
Qed.
Lemma p2_succ e : (p2 (e + 1) == 2 * p2 e)%Q.
Proof.
  unfold p2. destruct (Z.leb_spec 0 e) as [P|N]; destruct (Z.leb_spec 0 (e + 1)) as [P'|N']; try lia.
  - rewrite Z.pow_add_r by lia. rewrite inject_Z_mult. change (inject_Z (2 ^ 1)) with 2%Q. ring.
  - assert (e = -1) by lia. subst e. reflexivity.
  - replace (- e) with (- (e + 1) + 1) by lia. rewrite Z.pow_add_r by lia. rewrite inject_Z_mult. change (inject_Z (2 ^ 1)) with 2%Q.
    field. apply iznz. pose proof (pow_pos' (- (e + 1))). lia.
Qed.
Lemma p2_add_nat e (k : nat) : (p2 (e + Z.of_nat k) == inject_Z (2 ^ Z.of_nat k) * p2 e)%Q.
Proof.
  induction k as [|k IH].
  - replace (e + Z.of_nat 0) with e by lia. change (inject_Z (2 ^ Z.of_nat 0)) with 1%Q. ring.
  - rewrite Nat2Z.inj_succ. unfold Z.succ. replace (e + (Z.of_nat k + 1)) with (e + Z.of_nat k + 1) by lia.
    rewrite p2_succ, IH. rewrite Z.pow_add_r by lia. rewrite inject_Z_mult. change (inject_Z (2 ^ 1)) with 2%Q. ring.
Qed.
Lemma p2_add e k : 0 <= k -> (p2 (e + k) == inject_Z (2 ^ k) * p2 e)%Q.
Proof. intros H. rewrite <- (Z2Nat.id k H). apply p2_add_nat. Qed.
Lemma p2_le e f : e <= f -> (p2 e <= p2 f)%Q.
Proof.
  intros H. replace f with (e + (f - e)) by lia. rewrite p2_add by lia. pose proof (p2_pos e) as P.
  assert (1 <= 2 ^ (f - e)) by (pose proof (pow_pos' (f - e)); lia).
  assert (X : (1 <= inject_Z (2 ^ (f - e)))%Q) by (change 1%Q with (inject_Z 1); rewrite <- Zle_Qle; exact H0).
  setoid_replace (p2 e) with (1 * p2 e)%Q at 1 by ring. apply Qmult_le_compat_r; [exact X|apply Qlt_le_weak, P].
Qed.

Lemma mkq_eq m e : (mkq m e == inject_Z m * p2 e)%Q.
Proof.
  unfold mkq, p2, pow2. destruct (Z.leb_spec 0 e).
  - rewrite inject_Z_mult. reflexivity.
  - rewrite Qred_correct. pose proof (pow_pos' (- e) ltac:(lia)) as P.
    unfold Qeq, Qmult, Qdiv, Qinv, inject_Z. cbn [Qnum Qden]. destruct (2 ^ (- e)) eqn:E; try lia. cbn. lia.
Qed.

(* ---------- the positive case: mantissa and exponent ---------- *)
Definition scN (a e : Z) : Z := if 0 <=? e then a else a * 2 ^ (- e).
Definition scD (d e : Z) : Z := if 0 <=? e then d * 2 ^ e else d.

Lemma scaled_value a d e : 0 < d -> (inject_Z a / inject_Z d == inject_Z (scN a e) / inject_Z (scD d e) * p2 e)%Q.
Proof.
  intros Hd. unfold scN, scD, p2. destruct (Z.leb_spec 0 e).
  - rewrite inject_Z_mult. field. split; apply iznz; [pose proof (pow_pos' e)|]; lia.
  - rewrite inject_Z_mult. field. split; apply iznz; [pose proof (pow_pos' (- e))|]; lia.
Qed.

Lemma scaled_range a d p : 0 < a -> 0 < d -> 1 <= p -> let e := ilog2q a d - (p - 1) in
  0 < scD d e /\ scD d e * 2 ^ (p - 1) <= scN a e < scD d e * 2 ^ p.
Proof.
  intros Ha Hd Hp e. pose proof (ilog2q_spec a d Ha Hd) as [S1 S2]. cbv zeta in S1, S2. set (e0 := ilog2q a d) in *.
  assert (E0 : e0 = e + (p - 1)) by (unfold e; lia). unfold scN, scD.
  assert (Pp : 2 ^ p = 2 * 2 ^ (p - 1)) by (rewrite <- Z.pow_succ_r by lia; f_equal; lia).
  assert (Pq : 0 < 2 ^ (p - 1)) by (apply pow_pos'; lia).
  destruct (Z.leb_spec 0 e) as [P|N].
  - specialize (S1 ltac:(lia)). pose proof (pow_pos' e P) as Pe. split; [nia|].
    rewrite E0 in S1. replace (e + (p - 1) + 1) with (e + p) in S1 by lia. rewrite !Z.pow_add_r in S1 by lia. nia.
  - split; [lia|]. pose proof (pow_pos' (- e) ltac:(lia)) as Pe.
    destruct (Z_le_gt_dec 0 e0) as [P0|N0].
    + specialize (S1 P0). assert (K : 2 ^ (p - 1) = 2 ^ e0 * 2 ^ (- e)) by (rewrite <- Z.pow_add_r by lia; f_equal; lia).
      rewrite Z.pow_add_r in S1 by lia. change (2 ^ 1) with 2 in S1. pose proof (pow_pos' e0 P0). nia.
    + specialize (S2 ltac:(lia)). assert (K : 2 ^ (- e) = 2 ^ (- e0) * 2 ^ (p - 1)) by (rewrite <- Z.pow_add_r by lia; f_equal; lia).
      assert (K2 : 2 ^ (- e0) = 2 * 2 ^ (- e0 - 1)) by (rewrite <- Z.pow_succ_r by lia; f_equal; lia).
      pose proof (pow_pos' (- e0 - 1) ltac:(lia)). nia.
Qed.

(* what round_ne does to a positive rational n/d *)
Lemma round_pos_unfold p a d : 0 < a ->
  round_ne p (a # d) = let e := ilog2q a (Zpos d) - (p - 1) in mkq (Zrhe (scN a e) (scD (Zpos d) e)) e.
Proof.
  intros Ha. unfold round_ne. cbn [Qnum Qden]. destruct (Z.eqb_spec a 0); [lia|]. cbv zeta.
  rewrite (Z.abs_eq a) by lia. rewrite (Z.sgn_pos a Ha). unfold scN, scD, pow2. rewrite Z.mul_1_l.
  destruct (0 <=? ilog2q a (Z.pos d) - (p - 1)); reflexivity.
Qed.


Lemma le_cross a b c d : 0 < b -> 0 < d -> (inject_Z a / inject_Z b <= inject_Z c / inject_Z d)%Q <-> a * d <= c * b.
Proof. exact (Qdiv_le_cross a b c d). Qed.
Lemma lt_cross a b c d : 0 < b -> 0 < d -> (inject_Z a / inject_Z b < inject_Z c / inject_Z d)%Q <-> a * d < c * b.
Proof. exact (Qdiv_lt_cross a b c d). Qed.

(* mantissa m and exponent e of the rounding of a positive x, with the scaled fraction N / D = x / 2^e *)
Record posfacts (p : Z) (x r : Q) (e m N D : Z) : Prop := {
  pf_val : (r == inject_Z m * p2 e)%Q;
  pf_x : (x == inject_Z N / inject_Z D * p2 e)%Q;
  pf_D : 0 < D;
  pf_range : D * 2 ^ (p - 1) <= N < D * 2 ^ p;
  pf_near : 2 * Z.abs (m * D - N) <= D;
  pf_tie : 2 * Z.abs (m * D - N) = D -> Z.even m = true;
  pf_m : 2 ^ (p - 1) <= m <= 2 ^ p }.

Lemma pos_facts p a d : 0 < a -> 1 <= p -> exists e m N D, posfacts p (a # d) (round_ne p (a # d)) e m N D.
Proof.
  intros Ha Hp. rewrite (round_pos_unfold p a d Ha). cbv zeta. set (e := ilog2q a (Z.pos d) - (p - 1)).
  pose proof (scaled_range a (Z.pos d) p Ha ltac:(lia) Hp) as [PD R]. cbv zeta in PD, R. fold e in PD, R.
  set (N := scN a e) in *. set (D := scD (Z.pos d) e) in *.
  pose proof (Zrhe_spec N D PD) as [Z1 Z2]. cbv zeta in Z1, Z2. set (m := Zrhe N D) in *.
  exists e, m, N, D. split.
  - apply mkq_eq.
  - rewrite (Qmake_Qdiv a d). apply scaled_value. lia.
  - exact PD.
  - exact R.
  - exact Z1.
  - exact Z2.
  - assert (Pq : 0 < 2 ^ (p - 1)) by (apply pow_pos'; lia). assert (Pp : 2 ^ p = 2 * 2 ^ (p - 1)) by (rewrite <- Z.pow_succ_r by lia; f_equal; lia). nia.
Qed.

Lemma mono_core p k m1 N1 D1 m2 N2 D2 : 1 <= p -> 0 <= k ->
  0 < D1 -> 2 * Z.abs (m1 * D1 - N1) <= D1 -> (2 * Z.abs (m1 * D1 - N1) = D1 -> Z.even m1 = true) -> m1 <= 2 ^ p ->
  0 < D2 -> 2 * Z.abs (m2 * D2 - N2) <= D2 -> (2 * Z.abs (m2 * D2 - N2) = D2 -> Z.even m2 = true) -> 2 ^ (p - 1) <= m2 ->
  N1 * D2 <= N2 * 2 ^ k * D1 -> m1 <= m2 * 2 ^ k.
Proof.
  intros Hp Hk PD1 A1 T1 M1 PD2 A2 T2 M2 H.
  assert (Pq : 0 < 2 ^ (p - 1)) by (apply pow_pos'; lia). assert (Pp : 2 ^ p = 2 * 2 ^ (p - 1)) by (rewrite <- Z.pow_succ_r by lia; f_equal; lia).
  destruct (Z.eq_dec k 0) as [K0|K1].
  - subst k. change (2 ^ 0) with 1 in *. rewrite Z.mul_1_r in *. destruct (Z_le_gt_dec m1 m2) as [L|G]; [exact L|exfalso].
    (* 2 N1 >= (2 m1 - 1) D1 >= (2 m2 + 1) D1 and 2 N2 <= (2 m2 + 1) D2 *)
    assert (B1 : (2 * m2 + 1) * D1 <= 2 * N1) by nia.
    assert (B2 : 2 * N2 <= (2 * m2 + 1) * D2) by nia.
    assert (E : 2 * N1 * D2 = (2 * m2 + 1) * D1 * D2 /\ 2 * N2 * D1 = (2 * m2 + 1) * D1 * D2).
    { assert ((2 * m2 + 1) * D1 * D2 <= 2 * N1 * D2) by (apply Z.mul_le_mono_nonneg_r; lia).
      assert (2 * N2 * D1 <= (2 * m2 + 1) * D2 * D1) by (apply Z.mul_le_mono_nonneg_r; lia). nia. }
    destruct E as [E1 E2].
    assert (X1 : 2 * N1 = (2 * m2 + 1) * D1) by nia. assert (X2 : 2 * N2 = (2 * m2 + 1) * D2) by nia.
    assert (m1 = m2 + 1) by nia. subst m1.
    assert (Ev1 : Z.even (m2 + 1) = true) by (apply T1; nia). assert (Ev2 : Z.even m2 = true) by (apply T2; nia).
    rewrite Z.even_add, Ev2 in Ev1. discriminate.
  - assert (2 <= 2 ^ k) by (replace k with (1 + (k - 1)) by lia; rewrite Z.pow_add_r by lia; change (2 ^ 1) with 2; pose proof (pow_pos' (k - 1)); lia). nia.
Qed.

Lemma mono_excl p k N1 D1 N2 D2 : 1 <= p -> 1 <= k -> 0 < D1 -> 0 < D2 -> D1 * 2 ^ (p - 1) <= N1 -> N2 < D2 * 2 ^ p ->
  N1 * 2 ^ k * D2 <= N2 * D1 -> False.
Proof.
  intros Hp Hk PD1 PD2 R1 R2 H.
  assert (Pq : 0 < 2 ^ (p - 1)) by (apply pow_pos'; lia). assert (Pp : 2 ^ p = 2 * 2 ^ (p - 1)) by (rewrite <- Z.pow_succ_r by lia; f_equal; lia).
  assert (K : 2 <= 2 ^ k) by (replace k with (1 + (k - 1)) by lia; rewrite Z.pow_add_r by lia; change (2 ^ 1) with 2; pose proof (pow_pos' (k - 1)); lia).
  assert (D1 * 2 ^ (p - 1) * 2 * D2 <= N1 * 2 ^ k * D2) by (apply Z.mul_le_mono_nonneg_r; [lia|]; nia).
  assert (N2 * D1 < D2 * 2 ^ p * D1) by (apply Z.mul_lt_mono_pos_r; lia). nia.
Qed.

Lemma round_pos_mono p a1 d1 a2 d2 : 1 <= p -> 0 < a1 -> 0 < a2 -> (a1 # d1 <= a2 # d2)%Q -> (round_ne p (a1 # d1) <= round_ne p (a2 # d2))%Q.
Proof.
  intros Hp H1 H2 Hle.
  destruct (pos_facts p a1 d1 H1 Hp) as (e1 & m1 & N1 & D1 & F1). destruct (pos_facts p a2 d2 H2 Hp) as (e2 & m2 & N2 & D2 & F2).
  destruct F1 as [V1 X1 PD1 R1 A1 T1 M1]. destruct F2 as [V2 X2 PD2 R2 A2 T2 M2].
  rewrite V1, V2. rewrite X1, X2 in Hle. pose proof (p2_pos e1) as P1. pose proof (p2_pos e2) as P2.
  destruct (Z_le_gt_dec e1 e2) as [L|G].
  - set (k := e2 - e1). assert (Hk : 0 <= k) by (unfold k; lia). assert (E2 : (p2 e2 == inject_Z (2 ^ k) * p2 e1)%Q) by (replace e2 with (e1 + k) by (unfold k; lia); apply p2_add; exact Hk).
    rewrite E2 in Hle |- *.
    assert (C : N1 * D2 <= N2 * 2 ^ k * D1).
    { apply (le_cross N1 D1 (N2 * 2 ^ k) D2 PD1 PD2). apply Qmult_le_r with (z := p2 e1); [exact P1|].
      setoid_replace (inject_Z (N2 * 2 ^ k) / inject_Z D2 * p2 e1)%Q with (inject_Z N2 / inject_Z D2 * (inject_Z (2 ^ k) * p2 e1))%Q by (rewrite inject_Z_mult; field; apply iznz; lia).
      exact Hle. }
    pose proof (mono_core p k m1 N1 D1 m2 N2 D2 Hp Hk PD1 A1 T1 (proj2 M1) PD2 A2 T2 (proj1 M2) C) as Mm.
    setoid_replace (inject_Z m2 * (inject_Z (2 ^ k) * p2 e1))%Q with (inject_Z (m2 * 2 ^ k) * p2 e1)%Q by (rewrite inject_Z_mult; ring).
    apply Qmult_le_compat_r; [rewrite <- Zle_Qle; exact Mm|apply Qlt_le_weak, P1].
  - exfalso. set (k := e1 - e2). assert (Hk : 1 <= k) by (unfold k; lia). assert (E1 : (p2 e1 == inject_Z (2 ^ k) * p2 e2)%Q) by (replace e1 with (e2 + k) by (unfold k; lia); apply p2_add; lia).
    rewrite E1 in Hle.
    assert (C : N1 * 2 ^ k * D2 <= N2 * D1).
    { apply (le_cross (N1 * 2 ^ k) D1 N2 D2 PD1 PD2). apply Qmult_le_r with (z := p2 e2); [exact P2|].
      setoid_replace (inject_Z (N1 * 2 ^ k) / inject_Z D1 * p2 e2)%Q with (inject_Z N1 / inject_Z D1 * (inject_Z (2 ^ k) * p2 e2))%Q by (rewrite inject_Z_mult; field; apply iznz; lia).
      exact Hle. }
    exact (mono_excl p k N1 D1 N2 D2 Hp Hk PD1 PD2 (proj1 R1) (proj2 R2) C).
Qed.

(* ---------- sign, zero, oddness ---------- *)
Lemma round_zero p d : round_ne p (0 # d) = 0%Q.
Proof. reflexivity. Qed.
Lemma round_pos_pos p a d : 1 <= p -> 0 < a -> (0 < round_ne p (a # d))%Q.
Proof.
  intros Hp Ha. destruct (pos_facts p a d Ha Hp) as (e & m & N & D & [V _ _ _ _ _ M]). rewrite V.
  assert (0 < m) by (pose proof (pow_pos' (p - 1)); lia).
  setoid_replace 0%Q with (0 * p2 e)%Q by ring. apply Qmult_lt_compat_r; [apply p2_pos|apply izpos; exact H].
Qed.
Lemma round_opp p n d : (round_ne p ((- n) # d) == - round_ne p (n # d))%Q.
Proof.
  unfold round_ne. cbn [Qnum Qden]. destruct (Z.eqb_spec n 0) as [E|E].
  - subst n. reflexivity.
  - destruct (Z.eqb_spec (- n) 0); [lia|]. cbv zeta. rewrite Z.abs_opp, Z.sgn_opp.
    set (e := ilog2q (Z.abs n) (Z.pos d) - (p - 1)).
    set (m := if 0 <=? e then Zrhe (Z.abs n) (Z.pos d * pow2 e) else Zrhe (Z.abs n * pow2 (- e)) (Z.pos d)).
    rewrite !mkq_eq. rewrite Z.mul_opp_l, inject_Z_opp. ring.
Qed.

Theorem round_ne_mono p x y : 1 <= p -> (x <= y)%Q -> (round_ne p x <= round_ne p y)%Q.
Proof.
  intros Hp H. destruct x as [n1 d1], y as [n2 d2].
  destruct (Z.lt_trichotomy n1 0) as [N1|[Z1|P1]]; destruct (Z.lt_trichotomy n2 0) as [N2|[Z2|P2]].
  - (* both negative *)
    set (a1 := - n1). set (a2 := - n2). assert (E1 : n1 = - a1) by (unfold a1; lia). assert (E2 : n2 = - a2) by (unfold a2; lia).
    rewrite E1, E2 in *. rewrite (round_opp p a1 d1), (round_opp p a2 d2).
    apply (Qopp_le_compat (round_ne p (a2 # d2)) (round_ne p (a1 # d1))). apply round_pos_mono; [exact Hp|lia|lia|]. unfold Qle in *. cbn [Qnum Qden] in *. lia.
  - subst n2. rewrite round_zero. set (a1 := - n1). assert (E1 : n1 = - a1) by (unfold a1; lia). rewrite E1. rewrite (round_opp p a1 d1).
    pose proof (round_pos_pos p a1 d1 Hp ltac:(lia)). lra.
  - set (a1 := - n1). assert (E1 : n1 = - a1) by (unfold a1; lia). rewrite E1. rewrite (round_opp p a1 d1).
    pose proof (round_pos_pos p a1 d1 Hp ltac:(lia)). pose proof (round_pos_pos p n2 d2 Hp P2). lra.
  - exfalso. subst n1. unfold Qle in H. cbn [Qnum Qden] in H. lia.
  - subst n1 n2. rewrite !round_zero. apply Qle_refl.
  - subst n1. rewrite round_zero. apply Qlt_le_weak, round_pos_pos; assumption.
  - exfalso. unfold Qle in H. cbn [Qnum Qden] in H. nia.
  - exfalso. subst n2. unfold Qle in H. cbn [Qnum Qden] in H. lia.
  - apply round_pos_mono; assumption.
Qed.

Theorem round_ne_comp p x y : 1 <= p -> (x == y)%Q -> (round_ne p x == round_ne p y)%Q.
Proof. intros Hp E. apply Qle_antisym; apply round_ne_mono; try exact Hp; rewrite E; apply Qle_refl. Qed.

(* ---------- p-bit numbers are fixed ---------- *)
Definition rep (p : Z) (x : Q) : Prop := exists k n : Z, 0 <= n /\ Z.abs k < 2 ^ p /\ (x == inject_Z k / inject_Z (2 ^ n))%Q.

Lemma eq_cross a b c d : 0 < b -> 0 < d -> (inject_Z a / inject_Z b == inject_Z c / inject_Z d)%Q -> a * d = c * b.
Proof.
  intros Hb Hd E. assert (L1 : a * d <= c * b) by (apply (le_cross a b c d Hb Hd); rewrite E; apply Qle_refl).
  assert (L2 : c * b <= a * d) by (apply (le_cross c d a b Hd Hb); rewrite E; apply Qle_refl). lia.
Qed.

Lemma round_exact_pos p k n : 1 <= p -> 0 <= n -> 0 < k < 2 ^ p -> (round_ne p (k # Z.to_pos (2 ^ n)) == k # Z.to_pos (2 ^ n))%Q.
Proof.
  intros Hp Hn Hk. pose proof (pow_pos' n Hn) as Pn. set (d := Z.to_pos (2 ^ n)). assert (Ed : Z.pos d = 2 ^ n) by (unfold d; rewrite Z2Pos.id; lia).
  destruct (pos_facts p k d (proj1 Hk) Hp) as (e & m & N & D & [V X PD R A T M]).
  rewrite V. rewrite X.
  assert (Pq : 0 < 2 ^ (p - 1)) by (apply pow_pos'; lia). assert (Pp : 2 ^ p = 2 * 2 ^ (p - 1)) by (rewrite <- Z.pow_succ_r by lia; f_equal; lia).
  rewrite (Qmake_Qdiv k d), Ed in X. pose proof (p2_pos e) as Pe.
  (* N / D is an integer *)
  assert (EM : exists Mi, N = Mi * D).
  { destruct (Z_le_gt_dec e (- n)) as [L|G].
    - (* 1/2^n = 2^j * p2 e *)
      set (j := - n - e). assert (Hj : 0 <= j) by (unfold j; lia). exists (k * 2 ^ j).
      assert (E1 : (inject_Z 1 / inject_Z (2 ^ n) == inject_Z (2 ^ j) * p2 e)%Q).
      { rewrite <- (p2_add e j Hj). replace (e + j) with (- n) by (unfold j; lia). unfold p2. destruct (Z.leb_spec 0 (- n)).
        - assert (n = 0) by lia. subst n. reflexivity.
        - rewrite Z.opp_involutive. reflexivity. }
      assert (E2 : (inject_Z N / inject_Z D == inject_Z (k * 2 ^ j) / inject_Z 1)%Q).
      { apply Qmult_inj_r with (z := p2 e); [intro Z0; rewrite Z0 in Pe; discriminate|]. rewrite <- X.
        setoid_replace (inject_Z k / inject_Z (2 ^ n))%Q with (inject_Z k * (inject_Z 1 / inject_Z (2 ^ n)))%Q by (change (inject_Z 1) with 1%Q; field; apply iznz; lia).
        rewrite E1, inject_Z_mult. change (inject_Z 1) with 1%Q. field. }
      pose proof (eq_cross N D (k * 2 ^ j) 1 PD ltac:(lia) E2). lia.
    - exfalso. set (j := e + n). assert (Hj : 1 <= j) by (unfold j; lia).
      (* p2 e = 2^j / 2^n *)
      assert (E1 : (p2 e == inject_Z (2 ^ j) * (inject_Z 1 / inject_Z (2 ^ n)))%Q).
      { replace e with (- n + j) by (unfold j; lia). rewrite (p2_add (- n) j ltac:(lia)). unfold p2. destruct (Z.leb_spec 0 (- n)).
        - assert (n = 0) by lia. subst n. reflexivity.
        - rewrite Z.opp_involutive. reflexivity. }
      assert (E2 : (inject_Z (N * 2 ^ j) / inject_Z D == inject_Z k / inject_Z 1)%Q).
      { apply Qmult_inj_r with (z := (inject_Z 1 / inject_Z (2 ^ n))%Q).
        - intro Z0. assert (0 < inject_Z 1 / inject_Z (2 ^ n))%Q by (apply Qlt_shift_div_l; [apply izpos; lia|rewrite Qmult_0_l; reflexivity]). rewrite Z0 in H. discriminate.
        - setoid_replace (inject_Z k / inject_Z 1 * (inject_Z 1 / inject_Z (2 ^ n)))%Q with (inject_Z k / inject_Z (2 ^ n))%Q by (change (inject_Z 1) with 1%Q; field; apply iznz; lia).
          rewrite X, E1, inject_Z_mult. change (inject_Z 1) with 1%Q. field. split; apply iznz; lia. }
      pose proof (eq_cross (N * 2 ^ j) D k 1 PD ltac:(lia) E2) as C.
      assert (2 <= 2 ^ j) by (replace j with (1 + (j - 1)) by lia; rewrite Z.pow_add_r by lia; change (2 ^ 1) with 2; pose proof (pow_pos' (j - 1)); lia). nia. }
  destruct EM as [Mi EM]. assert (m = Mi) by nia. subst m. rewrite EM. rewrite inject_Z_mult. field. apply iznz; lia.
Qed.

Theorem round_ne_exact p x : 1 <= p -> rep p x -> (round_ne p x == x)%Q.
Proof.
  intros Hp (k & n & Hn & Hk & E). pose proof (pow_pos' n Hn) as Pn.
  assert (Ed : Z.pos (Z.to_pos (2 ^ n)) = 2 ^ n) by (rewrite Z2Pos.id; lia).
  assert (E' : (x == k # Z.to_pos (2 ^ n))%Q) by (rewrite E, (Qmake_Qdiv k (Z.to_pos (2 ^ n))), Ed; reflexivity).
  rewrite (round_ne_comp p _ _ Hp E'), E'. clear E E' x.
  destruct (Z.lt_trichotomy k 0) as [N|[Z0|P]].
  - set (a := - k). assert (Ek : k = - a) by (unfold a; lia). rewrite Ek. rewrite (round_opp p a (Z.to_pos (2 ^ n))).
    rewrite (round_exact_pos p a n Hp Hn ltac:(unfold a; lia)). unfold Qeq, Qopp. cbn [Qnum Qden]. lia.
  - subst k. reflexivity.
  - apply round_exact_pos; [exact Hp|exact Hn|lia].
Qed.

(* ---------- relative error at most 2^-p ---------- *)
Lemma round_err_pos p a d : 1 <= p -> 0 < a -> (Qabs (round_ne p (a # d) - (a # d)) <= (1 # Z.to_pos (2 ^ p)) * (a # d))%Q.
Proof.
  intros Hp Ha. destruct (pos_facts p a d Ha Hp) as (e & m & N & D & [V X PD R A T M]).
  pose proof (p2_pos e) as Pe. pose proof (pow_pos' p ltac:(lia)) as Pp. pose proof (izpos D PD) as PDq.
  assert (Pq : 0 < 2 ^ (p - 1)) by (apply pow_pos'; lia). assert (P2 : 2 ^ p = 2 * 2 ^ (p - 1)) by (rewrite <- Z.pow_succ_r by lia; f_equal; lia).
  assert (Eeps : ((1 # Z.to_pos (2 ^ p)) == inject_Z 1 / inject_Z (2 ^ p))%Q) by (rewrite (Qmake_Qdiv 1 (Z.to_pos (2 ^ p))), Z2Pos.id by lia; reflexivity).
  rewrite V, X, Eeps.
  setoid_replace (inject_Z m * p2 e - inject_Z N / inject_Z D * p2 e)%Q with ((inject_Z (m * D - N) / inject_Z D) * p2 e)%Q
    by (unfold Z.sub; rewrite inject_Z_plus, inject_Z_opp, inject_Z_mult; field; apply iznz; lia).
  rewrite Qabs_Qmult, (Qabs_pos (p2 e)) by (apply Qlt_le_weak, Pe).
  setoid_replace (inject_Z 1 / inject_Z (2 ^ p) * (inject_Z N / inject_Z D * p2 e))%Q with ((inject_Z N / inject_Z (2 ^ p * D)) * p2 e)%Q
    by (rewrite inject_Z_mult; change (inject_Z 1) with 1%Q; field; split; apply iznz; lia).
  apply Qmult_le_compat_r; [|apply Qlt_le_weak, Pe].
  assert (Eabs : (Qabs (inject_Z (m * D - N) / inject_Z D) == inject_Z (Z.abs (m * D - N)) / inject_Z D)%Q).
  { unfold Qdiv. rewrite Qabs_Qmult. rewrite (Qabs_pos (/ inject_Z D)) by (apply Qlt_le_weak, Qinv_lt_0_compat, PDq).
    unfold Qabs, inject_Z. cbn [Qnum Qden]. reflexivity. }
  rewrite Eabs. apply (le_cross (Z.abs (m * D - N)) D N (2 ^ p * D)); [exact PD|nia|]. nia.
Qed.

Theorem round_ne_err p x : 1 <= p -> (Qabs (round_ne p x - x) <= (1 # Z.to_pos (2 ^ p)) * Qabs x)%Q.
Proof.
  intros Hp. destruct x as [n d]. destruct (Z.lt_trichotomy n 0) as [N|[Z0|P]].
  - set (a := - n). assert (E : n = - a) by (unfold a; lia). rewrite E. rewrite (round_opp p a d).
    assert (E1 : (- round_ne p (a # d) - (- a # d) == - (round_ne p (a # d) - (a # d)))%Q) by (unfold Qeq, Qminus, Qplus, Qopp; cbn [Qnum Qden]; ring).
    rewrite E1, Qabs_opp. assert (E2 : (Qabs (- a # d) == (a # d))%Q) by (unfold Qabs, Z.abs; cbn [Qnum Qden]; destruct a eqn:Ea; try lia; reflexivity).
    rewrite E2. apply round_err_pos; [exact Hp|unfold a; lia].
  - subst n. rewrite round_zero. unfold Qminus. rewrite Qplus_0_l. unfold Qabs, Qopp, Qle, Qmult. cbn. lia.
  - rewrite (Qabs_pos (n # d)) by (unfold Qle; cbn; lia). apply round_err_pos; assumption.
Qed.
