(* C01, rounding layer.  For every rounding operator that leaves numbers with a 103-bit significand unchanged (dps = 30 is 103 bits;
   round-to-nearest, directed, any tie rule), the rounded computation of move_dist_lt equals the exact one on the firmware-valid
   domain: the 30-digit arithmetic the code forces on mpmath is exact there, so the exact model is the model of the code. *)
From Plotink Require Import Base.Prelude Spec.Firmware Model.EbbCalc Model.EbbCalcRnd Proofs.EbbCalcProofs.
Open Scope Z_scope.

Section Rounded.
Variable rnd : Q -> Q.
Hypothesis rnd_comp : forall x y, (x == y)%Q -> (rnd x == rnd y)%Q.
Hypothesis rnd_exact : forall x, rep103 x -> (rnd x == x)%Q.

Lemma rnd_id x y : (x == y)%Q -> rep103 y -> (rnd x == y)%Q.
Proof. intros E R. rewrite (rnd_comp x y E). apply rnd_exact, R. Qed.

Lemma rep_half k : Z.abs k < 2 ^ 103 -> rep103 (iz k / 2).
Proof. intros H. exists k, 1. split; [lia|]. split; [exact H|]. reflexivity. Qed.
Lemma rep_int k : Z.abs k < 2 ^ 103 -> rep103 (iz k).
Proof. intros H. exists k, 0. split; [lia|]. split; [exact H|]. change (iz (2 ^ 0)) with 1%Q. field. Qed.

Theorem move_dist_lt_rounding_exact rate accel time accum :
  Z.abs rate <= 2 ^ 33 -> Z.abs accel <= 2 ^ 32 -> 0 <= time <= 2 ^ 32 ->
  match accum with Some c => 0 <= c < 2 ^ 31 | None => True end ->
  move_dist_lt_r rnd rate accel time accum = move_dist_lt rate accel time accum.
Proof.
  intros Hr Ha Ht Hc. unfold move_dist_lt_r, move_dist_lt. destruct (time =? 0); [reflexivity|]. cbv zeta.
  set (h := Z.quot accel 2).
  set (c := match accum with Some c => c | None => clear_lt rate accel end).
  assert (Hc' : 0 <= c < 2 ^ 31).
  { unfold c. destruct accum; [exact Hc|]. unfold clear_lt. cbv zeta.
    destruct (_ <? 0); [lia|]. destruct (_ =? 0); [destruct (_ <? 0); lia|lia]. }
  assert (Hh : Z.abs h <= 2 ^ 31) by (unfold h; pose proof (Z.quot_rem' accel 2); pose proof (Z.rem_bound_abs accel 2 ltac:(lia)); lia).
  assert (P103 : 2 ^ 103 = 10141204801825835211973625643008) by reflexivity.
  assert (P33 : 2 ^ 33 = 8589934592) by reflexivity. assert (P32 : 2 ^ 32 = 4294967296) by reflexivity. assert (P31 : 2 ^ 31 = 2147483648) by reflexivity.
  rewrite P33 in *. rewrite P32 in *. rewrite P31 in *.
  assert (E1 : (rnd (iz accel / 2) == iz accel / 2)%Q) by (apply rnd_id; [reflexivity|apply rep_half; lia]).
  assert (E2 : (rnd (iz rate + rnd (iz accel / 2)) == iz (2 * rate + accel) / 2)%Q).
  { apply rnd_id; [rewrite E1; push_iz; field|apply rep_half; lia]. }
  assert (E3 : (rnd (rnd (iz rate + rnd (iz accel / 2)) - iz h) == iz (2 * rate + accel - 2 * h) / 2)%Q).
  { apply rnd_id; [rewrite E2; push_iz; field|apply rep_half; lia]. }
  set (re := rnd (rnd (iz rate + rnd (iz accel / 2)) - iz h)) in *.
  assert (E4 : (rnd (re * iz time) == iz ((2 * rate + accel - 2 * h) * time) / 2)%Q).
  { apply rnd_id; [rewrite E3; push_iz; field|apply rep_half; nia]. }
  assert (E5 : (rnd (iz c + rnd (re * iz time)) == iz (2 * c + (2 * rate + accel - 2 * h) * time) / 2)%Q).
  { apply rnd_id; [rewrite E4; push_iz; field|apply rep_half; nia]. }
  assert (E6 : (rnd (iz accel * iz time) == iz (accel * time))%Q) by (apply rnd_id; [push_iz; reflexivity|apply rep_int; nia]).
  assert (E7 : (rnd (rnd (iz accel * iz time) * iz time) == iz (accel * time * time))%Q).
  { apply rnd_id; [rewrite E6; push_iz; reflexivity|apply rep_int; nia]. }
  assert (E8 : (rnd (rnd (rnd (iz accel * iz time) * iz time) / 2) == iz (accel * time * time) / 2)%Q).
  { apply rnd_id; [rewrite E7; reflexivity|apply rep_half; nia]. }
  set (u2 := rnd (iz c + rnd (re * iz time))) in *. set (v3 := rnd (rnd (rnd (iz accel * iz time) * iz time) / 2)) in *.
  set (K := 2 * c + (2 * rate + accel - 2 * h) * time + accel * time * time).
  assert (HK : Z.abs K < 2 ^ 100) by (unfold K; change (2 ^ 100) with 1267650600228229401496703205376; nia).
  change (2 ^ 100) with 1267650600228229401496703205376 in HK.
  assert (E9 : (rnd (u2 + v3) == iz K / 2)%Q).
  { apply rnd_id; [rewrite E5, E8; unfold K; push_iz; field|apply rep_half; lia]. }
  set (af := rnd (u2 + v3)) in *.
  assert (E10 : (rnd (af / iz 2147483648) == iz K / iz (2 ^ 32))%Q).
  { apply rnd_id; [rewrite E9; change (iz (2 ^ 32)) with (iz 4294967296); unfold iz; field|exists K, 32; split; [lia|split; [lia|reflexivity]]]. }
  (* the exact side *)
  set (afx := (iz c + (iz rate + iz accel / 2 - iz h) * iz time + iz accel * iz time * iz time / 2)%Q).
  assert (X : (afx == iz K / 2)%Q) by (unfold afx, K; push_iz; field).
  clearbody afx.
  assert (Ew : (rnd (af / iz 2147483648) == afx / iz 2147483648)%Q).
  { rewrite E10. rewrite X. change (iz (2 ^ 32)) with (iz 4294967296). unfold iz. field. }
  rewrite (Qfloor_comp _ _ Ew). set (pos := Qfloor (afx / iz 2147483648)).
  f_equal. apply Qtrunc_comp.
  (* pos is bounded: |K/2 / 2^31| *)
  assert (Hpos : Z.abs pos <= 2 ^ 69).
  { unfold pos. rewrite (Qfloor_comp _ (iz K / iz 4294967296)) by (rewrite X; unfold iz; field).
    rewrite Qfloor_iz_div by lia. change (2 ^ 69) with 590295810358705651712. pose proof (Z.div_mod K 4294967296 ltac:(lia)). pose proof (Z.mod_pos_bound K 4294967296 ltac:(lia)). lia. }
  change (2 ^ 69) with 590295810358705651712 in Hpos.
  assert (E11 : (rnd (iz 2147483648 * iz pos) == iz (2147483648 * pos))%Q) by (apply rnd_id; [push_iz; reflexivity|apply rep_int; lia]).
  apply rnd_id; [rewrite E9, E11, X; push_iz; reflexivity|].
  exists (K - 2 * (2147483648 * pos)), 1. split; [lia|]. split; [lia|]. rewrite X. change (iz (2 ^ 1)) with 2%Q. push_iz. field.
Qed.
End Rounded.

(* ------------------------------------------------------------------------------------------------------------------------
   C02, rounding layer.  move_dist_t3 divides by 6, which is not exact in binary: the rounded computation carries an error.  For
   every rounding operator that fixes 103-bit numbers and has relative error at most 2^-102, the error that reaches round() is
   at most 1/4 on the firmware-valid domain, the exact total is an integer, so round() returns that integer and the rounded
   computation equals the exact one.  The snap test |rate_effective - rate| < 0.01 takes the same branch in both (the exact
   difference is a multiple of 1/6, the rounded one is within 2^-64 of it). *)
Definition near (x y e : Q) : Prop := (Qabs (x - y) <= e)%Q.

Lemma near_refl x y : (x == y)%Q -> near x y 0.
Proof. intros E. unfold near. rewrite E. setoid_replace (y - y)%Q with 0%Q by ring. cbn. lra. Qed.
Lemma near_weaken x y e e' : near x y e -> (e <= e')%Q -> near x y e'.
Proof. unfold near. intros. lra. Qed.
Lemma near_add a a' b b' ea eb : near a a' ea -> near b b' eb -> near (a + b) (a' + b') (ea + eb).
Proof.
  unfold near. intros Ha Hb. setoid_replace (a + b - (a' + b'))%Q with ((a - a') + (b - b'))%Q by ring.
  pose proof (Qabs_triangle (a - a') (b - b')). lra.
Qed.
Lemma near_sub a a' b b' ea eb : near a a' ea -> near b b' eb -> near (a - b) (a' - b') (ea + eb).
Proof.
  unfold near. intros Ha Hb. setoid_replace (a - b - (a' - b'))%Q with ((a - a') + - (b - b'))%Q by ring.
  pose proof (Qabs_triangle (a - a') (- (b - b'))). rewrite Qabs_opp in H. lra.
Qed.
Lemma near_mul_int a a' e (t m : Z) : near a a' e -> 0 <= t <= m -> near (a * iz t) (a' * iz t) (e * iz m).
Proof.
  unfold near. intros Ha Ht. setoid_replace (a * iz t - a' * iz t)%Q with ((a - a') * iz t)%Q by ring.
  rewrite Qabs_Qmult. assert (T0 : (0 <= iz t)%Q) by (unfold iz; rewrite <- (Zle_Qle 0); lia).
  rewrite (Qabs_pos (iz t) T0). assert (Tm : (iz t <= iz m)%Q) by (unfold iz; rewrite <- Zle_Qle; lia).
  pose proof (Qabs_nonneg (a - a')). 
  apply Qle_trans with (Qabs (a - a') * iz m)%Q.
  - rewrite !(Qmult_comm (Qabs (a - a'))). apply Qmult_le_compat_r; assumption.
  - apply Qmult_le_compat_r; lra.
Qed.

Section Rounded3.
Variable rnd : Q -> Q.
Hypothesis rnd_comp : forall x y, (x == y)%Q -> (rnd x == rnd y)%Q.
Hypothesis rnd_exact : forall x, rep103 x -> (rnd x == x)%Q.
Hypothesis rnd_err : forall x, (Qabs (rnd x - x) <= eps103 * Qabs x)%Q.

Lemma rnd_id3 x y : (x == y)%Q -> rep103 y -> (rnd x == y)%Q.
Proof. intros E R. rewrite (rnd_comp x y E). apply rnd_exact, R. Qed.

(* rounding a value that is within e of y, |y| <= B, e <= 1: the result is within e + eps (B + 1) of y *)
Lemma rnd_near x y e B : near x y e -> (Qabs y <= B)%Q -> (e <= 1)%Q -> near (rnd x) y (e + eps103 * (B + 1)).
Proof.
  unfold near. intros Hx Hy He. pose proof (rnd_err x) as R.
  setoid_replace (rnd x - y)%Q with ((rnd x - x) + (x - y))%Q by ring.
  pose proof (Qabs_triangle (rnd x - x) (x - y)) as T.
  assert (Ax : (Qabs x <= B + 1)%Q).
  { setoid_replace x with ((x - y) + y)%Q by ring. pose proof (Qabs_triangle (x - y) y). lra. }
  assert (E0 : (0 <= eps103)%Q) by (unfold eps103; discriminate).
  assert ((eps103 * Qabs x <= eps103 * (B + 1))%Q) by (rewrite !(Qmult_comm eps103); apply Qmult_le_compat_r; assumption).
  lra.
Qed.

Lemma abs_mul_le a b A B : Z.abs a <= A -> Z.abs b <= B -> Z.abs (a * b) <= A * B.
Proof. intros Ha Hb. rewrite Z.abs_mul. apply Z.mul_le_mono_nonneg; lia. Qed.

Lemma lower_abs a x : (a <= x \/ a <= - x)%Q -> (a <= Qabs x)%Q.
Proof. intros [H|H]; [eapply Qle_trans; [exact H|apply Qle_Qabs]|]. rewrite <- Qabs_opp. eapply Qle_trans; [exact H|apply Qle_Qabs]. Qed.

Lemma Qround_he_near x n : (Qabs (x - iz n) <= 1 # 4)%Q -> Qround_he x = n.
Proof.
  intros H. apply Qabs_Qle_condition in H. destruct H as [H1 H2].
  unfold Qround_he. assert (F : Qfloor x = n \/ Qfloor x = n - 1).
  { pose proof (Qfloor_le x) as A. pose proof (Qlt_floor x) as B. rewrite inject_Z_plus in B. change (inject_Z 1) with 1%Q in B. unfold iz in *.
    assert (C1 : (inject_Z (Qfloor x) < inject_Z (n + 1))%Q) by (rewrite inject_Z_plus; change (inject_Z 1) with 1%Q; lra).
    rewrite <- Zlt_Qlt in C1.
    assert (C2 : (inject_Z n < inject_Z (Qfloor x + 2))%Q) by (rewrite inject_Z_plus; change (inject_Z 2) with 2%Q; lra).
    rewrite <- Zlt_Qlt in C2. lia. }
  destruct F as [F|F]; rewrite F.
  - assert (C : (x - inject_Z n ?= 1 # 2)%Q = Lt) by (apply (proj1 (Qlt_alt _ _)); unfold iz in *; lra). rewrite C. reflexivity.
  - pose proof (Qlt_floor x) as B. rewrite F in B. replace (n - 1 + 1) with n in B by lia. unfold iz in *.
    assert (E : inject_Z (n - 1) = (inject_Z n + inject_Z (-1))%Q) by (rewrite <- inject_Z_plus; f_equal).
    rewrite E. change (inject_Z (-1)) with (-1 # 1)%Q.
    assert (C : (x - (inject_Z n + (-1 # 1)) ?= 1 # 2)%Q = Gt) by (apply (proj1 (Qgt_alt _ _)); lra).
    rewrite C. lia.
Qed.

(* exact side: the unrounded total is an integer (Proofs/EbbCalcProofs.v, inside move_dist_t3_exact) *)
Lemma t3_total_int (T : nat) rate accel jerk c :
  let h := Z.quot accel 2 in let j6 := Z.quot jerk 6 in let t := Z.of_nat T in
  let re0 := (iz rate + iz accel / 2 - iz h + iz j6 - iz jerk / 6)%Q in
  (iz c + re0 * iz t + iz accel * iz t * iz t / 2 + iz jerk * iz t * iz t * iz t / 6
     == iz (c + t * (rate - h + j6) + accel * triN T + jerk * tetN T))%Q.
Proof.
  intros h j6 t re0. subst re0.
  pose proof (iz_tri T) as TR. pose proof (iz_tet T) as TE. fold t in TR, TE.
  unfold iz in TR, TE. push_iz. rewrite <- TR, <- TE. field.
Qed.

Theorem move_dist_t3_rounding (T : nat) rate accel jerk accum : (1 <= T)%nat ->
  Z.abs rate <= 2 ^ 33 -> Z.abs accel <= 2 ^ 32 -> Z.abs jerk <= 2 ^ 32 -> Z.of_nat T <= 2 ^ 32 -> Z.abs jerk * Z.of_nat T <= 2 ^ 33 ->
  match accum with Some c => 0 <= c < 2 ^ 31 | None => True end ->
  move_dist_t3_r rnd (Z.of_nat T) rate accel jerk accum = move_dist_t3 (Z.of_nat T) rate accel jerk accum.
Proof.
  intros HT Hr Ha Hj Ht Hjt Hc. unfold move_dist_t3_r, move_dist_t3. destruct (Z.of_nat T =? 0) eqn:E0; [lia|]. clear E0. cbv zeta.
  set (t := Z.of_nat T) in *. set (h := Z.quot accel 2). set (j6 := Z.quot jerk 6).
  set (c := match accum with Some c => c | None => clear_t3 rate accel jerk end).
  assert (Hc' : 0 <= c < 2 ^ 31).
  { unfold c. destruct accum; [exact Hc|]. unfold clear_t3. cbv zeta.
    repeat match goal with |- context [if ?b then _ else _] => destruct b end; lia. }
  assert (Hh : Z.abs (accel - 2 * h) <= 1) by (unfold h; pose proof (Z.quot_rem' accel 2); pose proof (Z.rem_bound_abs accel 2 ltac:(lia)); lia).
  assert (Hj6 : Z.abs (jerk - 6 * j6) <= 5) by (unfold j6; pose proof (Z.quot_rem' jerk 6); pose proof (Z.rem_bound_abs jerk 6 ltac:(lia)); lia).
  assert (P33 : 2 ^ 33 = 8589934592) by reflexivity. assert (P32 : 2 ^ 32 = 4294967296) by reflexivity. assert (P31 : 2 ^ 31 = 2147483648) by reflexivity.
  rewrite P33, P32, P31 in *.
  assert (P103 : 2 ^ 103 = 10141204801825835211973625643008) by reflexivity.
  (* exact prefix *)
  assert (E1 : (rnd (iz accel / 2) == iz accel / 2)%Q) by (apply rnd_id3; [reflexivity|apply rep_half; lia]).
  assert (E2 : (rnd (iz rate + rnd (iz accel / 2)) == iz (2 * rate + accel) / 2)%Q) by (apply rnd_id3; [rewrite E1; push_iz; field|apply rep_half; lia]).
  assert (E3 : (rnd (rnd (iz rate + rnd (iz accel / 2)) - iz h) == iz (2 * rate + accel - 2 * h) / 2)%Q) by (apply rnd_id3; [rewrite E2; push_iz; field|apply rep_half; lia]).
  assert (E4 : (rnd (rnd (rnd (iz rate + rnd (iz accel / 2)) - iz h) + iz j6) == iz (2 * rate + accel - 2 * h + 2 * j6) / 2)%Q).
  { apply rnd_id3; [rewrite E3; push_iz; field|apply rep_half; lia]. }
  set (t4 := rnd (rnd (rnd (iz rate + rnd (iz accel / 2)) - iz h) + iz j6)) in *.
  set (X4 := (iz (2 * rate + accel - 2 * h + 2 * j6) / 2)%Q) in *.
  set (J := (iz jerk / 6)%Q).
  set (Xre := (iz rate + iz accel / 2 - iz h + iz j6 - J)%Q).
  assert (EX : (Xre == X4 - J)%Q) by (unfold Xre, X4, J; push_iz; field).
  set (tot := c + t * (rate - h + j6) + accel * triN T + jerk * tetN T).
  set (R6 := 3 * (2 * rate + accel - 2 * h + 2 * j6) - jerk).
  set (m := 3 * (accel - 2 * h) + (6 * j6 - jerk)).
  assert (XreR : (Xre == iz R6 / 6)%Q) by (unfold Xre, J, R6; push_iz; field).
  assert (Dm : (Xre - iz rate == iz m / 6)%Q) by (unfold Xre, J, m; push_iz; field).
  assert (Hm : Z.abs m <= 8) by (unfold m; lia).
  assert (HR6 : Z.abs R6 <= 2 ^ 37) by (unfold R6; change (2 ^ 37) with 137438953472; lia).
  change (2 ^ 37) with 137438953472 in HR6.
  (* magnitudes from integer bounds *)
  assert (AB : forall k d B, 0 < d -> Z.abs k <= B * d -> (Qabs (iz k / iz d) <= iz B)%Q).
  { intros k d B Hd Hk. apply Qabs_Qle_condition. unfold iz.
    assert (D0 : (0 < inject_Z d)%Q) by (rewrite <- (Zlt_Qlt 0); lia).
    split.
    - apply Qle_shift_div_l; [exact D0|]. rewrite <- inject_Z_opp, <- inject_Z_mult, <- Zle_Qle. lia.
    - apply Qle_shift_div_r; [exact D0|]. rewrite <- inject_Z_mult, <- Zle_Qle. lia. }
  assert (QC : forall a b : Q, (Qnum a * QDen b <=? Qnum b * QDen a) = true -> (a <= b)%Q) by (intros a b H; unfold Qle; apply Z.leb_le, H).
  (* t5 and the effective rate *)
  assert (N5 : near (rnd J) J (eps103 * iz (2 ^ 31))).
  { eapply near_weaken; [apply (rnd_near J J 0 (iz (2 ^ 30)))|].
    - apply near_refl; reflexivity.
    - unfold J. change (6%Q) with (iz 6). apply AB; [lia|]. change (2 ^ 30) with 1073741824. lia.
    - discriminate.
    - apply QC. vm_compute. reflexivity. }
  assert (N6 : near (t4 - rnd J) Xre (eps103 * iz (2 ^ 31))).
  { unfold near in *. rewrite E4, EX. setoid_replace (X4 - rnd J - (X4 - J))%Q with (- (rnd J - J))%Q by ring. rewrite Qabs_opp. exact N5. }
  assert (MXre : (Qabs Xre <= iz (2 ^ 35))%Q).
  { rewrite XreR. change (6%Q) with (iz 6). apply AB; [lia|]. change (2 ^ 35) with 34359738368. lia. }
  assert (Nre0 : near (rnd (t4 - rnd J)) Xre (eps103 * iz (2 ^ 37))).
  { eapply near_weaken; [apply (rnd_near _ _ _ _ N6 MXre)|]; apply QC; vm_compute; reflexivity. }
  set (re0 := rnd (t4 - rnd J)) in *.
  (* the snap test *)
  assert (Nd0 : near (re0 - iz rate) (iz m / 6) (eps103 * iz (2 ^ 37))).
  { unfold near in *. rewrite <- Dm. setoid_replace (re0 - iz rate - (Xre - iz rate))%Q with (re0 - Xre)%Q by ring. exact Nre0. }
  assert (Mm : (Qabs (iz m / 6) <= iz 2)%Q) by (change (6%Q) with (iz 6); apply AB; lia).
  assert (Nd : near (rnd (re0 - iz rate)) (iz m / 6) (eps103 * iz (2 ^ 38))).
  { eapply near_weaken; [apply (rnd_near _ _ _ _ Nd0 Mm)|]; apply QC; vm_compute; reflexivity. }
  set (d := rnd (re0 - iz rate)) in *.
  assert (Snap : Qltb (Qabs d) c001 = Qltb (Qabs (Xre - iz rate)) (1 # 100)).
  { unfold near in Nd. apply Qabs_Qle_condition in Nd. destruct Nd as [Nd1 Nd2].
    assert (Ee : (eps103 * iz (2 ^ 38) == 1 # (2 ^ 64))%Q) by (vm_compute; reflexivity). rewrite Ee in Nd1, Nd2.
    destruct (Z.eq_dec m 0) as [M0|M0].
    - assert (Z1 : (iz m / 6 == 0)%Q) by (rewrite M0; reflexivity). rewrite Z1 in Nd1, Nd2.
      assert (L1 : Qltb (Qabs d) c001 = true).
      { apply Qltb_iff. apply Qabs_Qlt_condition. unfold c001. split; [apply Qlt_le_trans with (- (1 # 2 ^ 64))%Q|apply Qle_lt_trans with (1 # 2 ^ 64)%Q]; try lra; vm_compute; reflexivity. }
      assert (L2 : Qltb (Qabs (Xre - iz rate)) (1 # 100) = true).
      { apply Qltb_iff. rewrite Dm, Z1. vm_compute. reflexivity. }
      rewrite L1, L2. reflexivity.
    - assert (Big : (iz m / 6 <= - (1 # 6) \/ 1 # 6 <= iz m / 6)%Q).
      { destruct (Z_lt_ge_dec m 0); [left|right]; unfold iz.
        - apply Qle_shift_div_r; [reflexivity|]. assert (inject_Z m <= inject_Z (-1))%Q by (rewrite <- Zle_Qle; lia). change (inject_Z (-1)) with (-1 # 1)%Q in *. lra.
        - apply Qle_shift_div_l; [reflexivity|]. assert (inject_Z 1 <= inject_Z m)%Q by (rewrite <- Zle_Qle; lia). change (inject_Z 1) with 1%Q in *. lra. }
      assert (L1 : Qltb (Qabs d) c001 = false).
      { apply Qltb_false. unfold c001. assert (C1 : (5764607523034235 # 2 ^ 59 <= (1 # 6) - (1 # 2 ^ 64))%Q) by (vm_compute; discriminate).
        apply lower_abs. destruct Big as [B|B]; [right|left]; lra. }
      assert (L2 : Qltb (Qabs (Xre - iz rate)) (1 # 100) = false).
      { apply Qltb_false. rewrite Dm. apply lower_abs. destruct Big as [B|B]; [right|left]; lra. }
      rewrite L1, L2. reflexivity. }
  rewrite Snap.
  assert (SN : ((if Qltb (Qabs (Xre - iz rate)) (1 # 100) then iz rate else Xre) == Xre)%Q) by exact (snap_exact rate accel jerk).
  set (sn := Qltb (Qabs (Xre - iz rate)) (1 # 100)) in *.
  set (rex := if sn then iz rate else Xre) in *.
  set (rer := if sn then iz rate else re0).
  assert (Nre : near rer Xre (eps103 * iz (2 ^ 37))).
  { unfold rer. destruct sn eqn:Esn; [|exact Nre0]. apply near_weaken with 0%Q; [apply near_refl; unfold rex in SN; exact SN|discriminate]. }
  (* the exact total is the integer tot *)
  assert (TI : (iz c + Xre * iz t + iz accel * iz t * iz t / 2 + iz jerk * iz t * iz t * iz t / 6 == iz tot)%Q) by exact (t3_total_int T rate accel jerk c).
  assert (EQx : (iz c + rex * iz t + iz accel * iz t * iz t / 2 + iz jerk * iz t * iz t * iz t / 6 == iz tot)%Q) by (rewrite SN; exact TI).
  rewrite (Qround_he_iz _ _ EQx).
  (* bounds on the integer ingredients *)
  assert (Ht0 : 1 <= t) by (unfold t; lia).
  assert (At : Z.abs t <= 4294967296) by lia.
  assert (Bat : Z.abs (accel * t) <= 4294967296 * 4294967296) by (apply abs_mul_le; assumption).
  assert (Batt : Z.abs (accel * t * t) <= 79228162514264337593543950336) by (change 79228162514264337593543950336 with (4294967296 * 4294967296 * 4294967296); apply abs_mul_le; assumption).
  assert (Bjt : Z.abs (jerk * t) <= 8589934592) by (rewrite Z.abs_mul, (Z.abs_eq t) by lia; exact Hjt).
  assert (Bjtt : Z.abs (jerk * t * t) <= 8589934592 * 4294967296) by (apply abs_mul_le; assumption).
  assert (Bjttt : Z.abs (jerk * t * t * t) <= 158456325028528675187087900672) by (change 158456325028528675187087900672 with (8589934592 * 4294967296 * 4294967296); apply abs_mul_le; assumption).
  assert (BRt : Z.abs (R6 * t) <= 590295810358705651712) by (change 590295810358705651712 with (137438953472 * 4294967296); apply abs_mul_le; assumption).
  clear At.
  (* u1 = rnd (rer * t) *)
  assert (N7 : near (rer * iz t) (Xre * iz t) (eps103 * iz (2 ^ 37) * iz 4294967296)) by (apply near_mul_int; [exact Nre|lia]).
  assert (M7 : (Qabs (Xre * iz t) <= iz (2 ^ 67))%Q).
  { rewrite XreR. setoid_replace (iz R6 / 6 * iz t)%Q with (iz (R6 * t) / iz 6)%Q by (push_iz; field). apply AB; [lia|]. change (2 ^ 67) with 147573952589676412928. clear - BRt. lia. }
  assert (N8 : near (rnd (rer * iz t)) (Xre * iz t) (eps103 * iz (2 ^ 70))).
  { eapply near_weaken; [apply (rnd_near _ _ _ _ N7 M7)|]; apply QC; vm_compute; reflexivity. }
  set (u1 := rnd (rer * iz t)) in *.
  (* u2 = rnd (c + u1) *)
  assert (N9 : near (iz c + u1) (iz c + Xre * iz t) (eps103 * iz (2 ^ 70))).
  { unfold near in *. setoid_replace (iz c + u1 - (iz c + Xre * iz t))%Q with (u1 - Xre * iz t)%Q by ring. exact N8. }
  assert (M9 : (Qabs (iz c + Xre * iz t) <= iz (2 ^ 68))%Q).
  { rewrite XreR. setoid_replace (iz c + iz R6 / 6 * iz t)%Q with (iz (6 * c + R6 * t) / iz 6)%Q by (push_iz; field). apply AB; [lia|]. change (2 ^ 68) with 295147905179352825856. clear - BRt Hc'. lia. }
  assert (N10 : near (rnd (iz c + u1)) (iz c + Xre * iz t) (eps103 * iz (2 ^ 71))).
  { eapply near_weaken; [apply (rnd_near _ _ _ _ N9 M9)|]; apply QC; vm_compute; reflexivity. }
  set (u2 := rnd (iz c + u1)) in *.
  (* v3 exact *)
  assert (V1 : (rnd (iz accel * iz t) == iz (accel * t))%Q) by (apply rnd_id3; [push_iz; reflexivity|apply rep_int; clear - Bat P103; lia]).
  assert (V2 : (rnd (rnd (iz accel * iz t) * iz t) == iz (accel * t * t))%Q) by (apply rnd_id3; [rewrite V1; push_iz; reflexivity|apply rep_int; clear - Batt P103; lia]).
  assert (V3 : (rnd (rnd (rnd (iz accel * iz t) * iz t) / 2) == iz (accel * t * t) / 2)%Q) by (apply rnd_id3; [rewrite V2; reflexivity|apply rep_half; clear - Batt P103; lia]).
  set (v3 := rnd (rnd (rnd (iz accel * iz t) * iz t) / 2)) in *.
  (* u3 = rnd (u2 + v3) *)
  set (S3 := (iz c + Xre * iz t + iz accel * iz t * iz t / 2)%Q).
  assert (N11 : near (u2 + v3) S3 (eps103 * iz (2 ^ 71))).
  { unfold near in *. rewrite V3. unfold S3. setoid_replace (u2 + iz (accel * t * t) / 2 - (iz c + Xre * iz t + iz accel * iz t * iz t / 2))%Q with (u2 - (iz c + Xre * iz t))%Q by (push_iz; field). exact N10. }
  assert (M11 : (Qabs S3 <= iz (2 ^ 96))%Q).
  { unfold S3. rewrite XreR. setoid_replace (iz c + iz R6 / 6 * iz t + iz accel * iz t * iz t / 2)%Q with (iz (6 * c + R6 * t + 3 * (accel * t * t)) / iz 6)%Q by (push_iz; field).
    apply AB; [lia|]. change (2 ^ 96) with 79228162514264337593543950336. clear - BRt Hc' Batt. lia. }
  assert (N12 : near (rnd (u2 + v3)) S3 (eps103 * iz (2 ^ 97))).
  { eapply near_weaken; [apply (rnd_near _ _ _ _ N11 M11)|]; apply QC; vm_compute; reflexivity. }
  set (u3 := rnd (u2 + v3)) in *.
  (* w4 *)
  assert (W1 : (rnd (iz jerk * iz t) == iz (jerk * t))%Q) by (apply rnd_id3; [push_iz; reflexivity|apply rep_int; clear - Bjt P103; lia]).
  assert (W2 : (rnd (rnd (iz jerk * iz t) * iz t) == iz (jerk * t * t))%Q).
  { apply rnd_id3; [rewrite W1; push_iz; reflexivity|apply rep_int; clear - Bjtt P103; lia]. }
  assert (W3 : (rnd (rnd (rnd (iz jerk * iz t) * iz t) * iz t) == iz (jerk * t * t * t))%Q) by (apply rnd_id3; [rewrite W2; push_iz; reflexivity|apply rep_int; clear - Bjttt P103; lia]).
  set (w3 := rnd (rnd (rnd (iz jerk * iz t) * iz t) * iz t)) in *.
  set (Wx := (iz jerk * iz t * iz t * iz t / 6)%Q).
  assert (N13 : near (w3 / 6) Wx 0) by (apply near_refl; rewrite W3; unfold Wx; push_iz; field).
  assert (M13 : (Qabs Wx <= iz (2 ^ 95))%Q).
  { unfold Wx. setoid_replace (iz jerk * iz t * iz t * iz t / 6)%Q with (iz (jerk * t * t * t) / iz 6)%Q by (push_iz; field). apply AB; [lia|]. change (2 ^ 95) with 39614081257132168796771975168. clear - Bjttt. lia. }
  assert (N14 : near (rnd (w3 / 6)) Wx (eps103 * iz (2 ^ 96))).
  { eapply near_weaken; [apply (rnd_near _ _ _ _ N13 M13)|]; [discriminate|]; apply QC; vm_compute; reflexivity. }
  set (w4 := rnd (w3 / 6)) in *.
  (* af *)
  assert (N15 : near (u3 + w4) (iz tot) (eps103 * iz (2 ^ 97) + eps103 * iz (2 ^ 96))).
  { unfold near. rewrite <- TI. fold S3. fold Wx. apply near_add; assumption. }
  assert (Mtot : (Qabs (iz tot) <= iz (2 ^ 97))%Q).
  { rewrite <- TI. fold S3. fold Wx. pose proof (Qabs_triangle S3 Wx). apply Qle_trans with (iz (2 ^ 96) + iz (2 ^ 95))%Q; [lra|]. apply QC. vm_compute. reflexivity. }
  assert (N16 : near (rnd (u3 + w4)) (iz tot) (1 # 4)).
  { eapply near_weaken; [apply (rnd_near _ _ _ _ N15 Mtot)|]; apply QC; vm_compute; reflexivity. }
  rewrite (Qround_he_near _ _ N16).
  (* the tails agree: everything is an integer below 2^103 *)
  assert (Btot : Z.abs tot <= 2 ^ 97).
  { apply Qabs_Qle_condition in Mtot. destruct Mtot as [A1 A2]. unfold iz in A1, A2. rewrite <- inject_Z_opp in A1. rewrite <- Zle_Qle in A1, A2. clear - A1 A2. lia. }
  change (2 ^ 97) with 158456325028528675187087900672 in Btot.
  assert (Ew : (rnd (iz tot / iz 2147483648) == iz tot / iz 2147483648)%Q).
  { apply rnd_id3; [reflexivity|]. exists tot, 31. split; [lia|]. split; [clear - Btot P103; lia|reflexivity]. }
  rewrite (Qfloor_comp _ _ Ew). set (pos := Qfloor (iz tot / iz 2147483648)).
  f_equal. apply Qtrunc_comp.
  assert (Hpos : Z.abs pos <= 2 ^ 67).
  { unfold pos. rewrite Qfloor_iz_div by lia. change (2 ^ 67) with 147573952589676412928.
    pose proof (Z.div_mod tot 2147483648 ltac:(lia)) as DM. pose proof (Z.mod_pos_bound tot 2147483648 ltac:(lia)) as MB. clear - DM MB Btot. lia. }
  change (2 ^ 67) with 147573952589676412928 in Hpos.
  assert (E11 : (rnd (iz 2147483648 * iz pos) == iz (2147483648 * pos))%Q) by (apply rnd_id3; [push_iz; reflexivity|apply rep_int; clear - Hpos P103; lia]).
  apply rnd_id3; [rewrite E11; push_iz; reflexivity|].
  assert (R0 : 0 <= tot - 2147483648 * pos < 2147483648).
  { unfold pos. rewrite Qfloor_iz_div by lia. pose proof (Z.div_mod tot 2147483648 ltac:(lia)) as DM. pose proof (Z.mod_pos_bound tot 2147483648 ltac:(lia)) as MB. clear - DM MB. lia. }
  exists (tot - 2147483648 * pos), 0. split; [lia|]. split; [clear - R0 P103; lia|]. change (iz (2 ^ 0)) with 1%Q. push_iz. field.
Qed.
End Rounded3.

(* ------------------------------------------------------------------------------------------------------------------------
   C02 / C17: rate_t3 computes with CPython floats.  For every rounding operator that fixes binary64 numbers, all its intermediate
   values are half-integers below 2^52 on the domain (|(2 accel - jerk) T| <= 2^50, |jerk| T^2 <= 2^50: the rate change of a move
   whose rates stay within 32 bits), so the float computation is the exact one. *)
Section Float.
Variable rnd : Q -> Q.
Hypothesis rnd_comp : forall x y, (x == y)%Q -> (rnd x == rnd y)%Q.
Hypothesis rnd_exact : forall x, rep53 x -> (rnd x == x)%Q.
Lemma rnd_id53 x y : (x == y)%Q -> rep53 y -> (rnd x == y)%Q.
Proof. intros E R. rewrite (rnd_comp x y E). apply rnd_exact, R. Qed.
Lemma rep53_half k : Z.abs k < 2 ^ 53 -> rep53 (iz k / 2).
Proof. intros H. exists k, 1. split; [lia|]. split; [exact H|]. reflexivity. Qed.

Lemma abs_mul_le' a b A B : Z.abs a <= A -> Z.abs b <= B -> Z.abs (a * b) <= A * B.
Proof. intros Ha Hb. rewrite Z.abs_mul. apply Z.mul_le_mono_nonneg; lia. Qed.

Theorem rate_t3_float_exact time rate accel jerk :
  0 <= time <= 2 ^ 32 -> Z.abs rate <= 2 ^ 34 -> Z.abs accel <= 2 ^ 32 -> Z.abs jerk <= 2 ^ 32 ->
  Z.abs (2 * accel - jerk) * time <= 2 ^ 50 -> Z.abs jerk * time * time <= 2 ^ 50 ->
  rate_t3_r rnd time rate accel jerk = rate_t3 time rate accel jerk.
Proof.
  intros Ht Hr Ha Hj Hat Hjt. unfold rate_t3_r, rate_t3. destruct (time =? 0); [reflexivity|]. cbv zeta.
  set (h := Z.quot accel 2). set (j6 := Z.quot jerk 6).
  assert (Hh : Z.abs h <= 2 ^ 31) by (unfold h; pose proof (Z.quot_rem' accel 2); pose proof (Z.rem_bound_abs accel 2 ltac:(lia)); change (2 ^ 31) with 2147483648; change (2 ^ 32) with 4294967296 in *; lia).
  assert (Hj6 : Z.abs j6 <= 2 ^ 30) by (unfold j6; pose proof (Z.quot_rem' jerk 6); pose proof (Z.rem_bound_abs jerk 6 ltac:(lia)); change (2 ^ 30) with 1073741824; change (2 ^ 32) with 4294967296 in *; lia).
  change (2 ^ 31) with 2147483648 in *. change (2 ^ 30) with 1073741824 in *. change (2 ^ 32) with 4294967296 in *. change (2 ^ 34) with 17179869184 in *. change (2 ^ 50) with 1125899906842624 in *.
  assert (P53 : 2 ^ 53 = 9007199254740992) by reflexivity.
  assert (B1 : Z.abs ((2 * accel - jerk) * time) <= 1125899906842624) by (rewrite Z.abs_mul, (Z.abs_eq time) by lia; exact Hat).
  assert (B2 : Z.abs (jerk * time * time) <= 1125899906842624) by (rewrite !Z.abs_mul, (Z.abs_eq time) by lia; exact Hjt).
  assert (E1 : (rnd (iz jerk / 2) == iz jerk / 2)%Q) by (apply rnd_id53; [reflexivity|apply rep53_half; lia]).
  assert (E2 : (rnd (iz accel - rnd (iz jerk / 2)) == iz (2 * accel - jerk) / 2)%Q) by (apply rnd_id53; [rewrite E1; push_iz; field|apply rep53_half; lia]).
  assert (E3 : (rnd (rnd (iz accel - rnd (iz jerk / 2)) * iz time) == iz ((2 * accel - jerk) * time) / 2)%Q) by (apply rnd_id53; [rewrite E2; push_iz; field|apply rep53_half; lia]).
  set (i1 := rate - h + j6).
  assert (E4 : (rnd (iz i1 + rnd (rnd (iz accel - rnd (iz jerk / 2)) * iz time)) == iz (2 * i1 + (2 * accel - jerk) * time) / 2)%Q).
  { apply rnd_id53; [rewrite E3; push_iz; field|apply rep53_half; unfold i1; lia]. }
  assert (E5 : (rnd (iz (jerk * time * time) / 2) == iz (jerk * time * time) / 2)%Q) by (apply rnd_id53; [reflexivity|apply rep53_half; lia]).
  assert (E6 : (rnd (rnd (iz i1 + rnd (rnd (iz accel - rnd (iz jerk / 2)) * iz time)) + rnd (iz (jerk * time * time) / 2))
                == iz (2 * i1 + (2 * accel - jerk) * time + jerk * time * time) / 2)%Q).
  { apply rnd_id53; [rewrite E4, E5; push_iz; field|apply rep53_half; unfold i1; lia]. }
  assert (EQ : (rnd (rnd (iz i1 + rnd (rnd (iz accel - rnd (iz jerk / 2)) * iz time)) + rnd (iz (jerk * time * time) / 2))
               == iz rate - iz h + iz j6 + (iz accel - iz jerk / 2) * iz time + iz jerk * iz time * iz time / 2)%Q).
  { rewrite E6. unfold i1. push_iz. field. }
  unfold Qround_he. rewrite (Qfloor_comp _ _ EQ).
  set (X := (iz rate - iz h + iz j6 + (iz accel - iz jerk / 2) * iz time + iz jerk * iz time * iz time / 2)%Q) in *.
  set (Y := rnd (rnd (iz i1 + rnd (rnd (iz accel - rnd (iz jerk / 2)) * iz time)) + rnd (iz (jerk * time * time) / 2))) in *.
  assert (EC : (Y - inject_Z (Qfloor X) ?= 1 # 2)%Q = (X - inject_Z (Qfloor X) ?= 1 # 2)%Q) by (rewrite EQ; reflexivity).
  rewrite EC. reflexivity.
Qed.
End Float.
