(* C01, rounding layer.  For every rounding operator that leaves numbers with a 103-bit significand unchanged (dps = 30 is 103 bits;
   round-to-nearest, directed, any tie rule), the rounded computation of move_dist_lt equals the exact one on the firmware-valid
   domain: the 30-digit arithmetic the code forces on mpmath is exact there, so the exact model is the model of the code. *)
From Plotink Require Import Base.Prelude Spec.Firmware Model.EbbCalc Model.EbbCalcRnd Proofs.EbbCalcProofs.
Open Scope Z_scope.

Section Rounded.
Variable rnd : Q -> Q.
Hypothesis rnd_comp : forall x y, (x == y)%Q -> (rnd x == rnd y)%Q.
Hypothesis rnd_exact : forall x, rep103 x -> (rnd x == x)%Q.

Lemma rnd_id x y : (x == y)%Q -> rep103 y -> (rnd x == y)%Q.
Proof. intros E R. rewrite (rnd_comp x y E). apply rnd_exact, R. Qed.

Lemma rep_half k : Z.abs k < 2 ^ 103 -> rep103 (iz k / 2).
Proof. intros H. exists k, 1. split; [lia|]. split; [exact H|]. reflexivity. Qed.
Lemma rep_int k : Z.abs k < 2 ^ 103 -> rep103 (iz k).
Proof. intros H. exists k, 0. split; [lia|]. split; [exact H|]. change (iz (2 ^ 0)) with 1%Q. field. Qed.

Theorem move_dist_lt_rounding_exact rate accel time accum :
  Z.abs rate <= 2 ^ 33 -> Z.abs accel <= 2 ^ 32 -> 0 <= time <= 2 ^ 32 ->
  match accum with Some c => 0 <= c < 2 ^ 31 | None => True end ->
  move_dist_lt_r rnd rate accel time accum = move_dist_lt rate accel time accum.
Proof.
  intros Hr Ha Ht Hc. unfold move_dist_lt_r, move_dist_lt. destruct (time =? 0); [reflexivity|]. cbv zeta.
  set (h := Z.quot accel 2).
  set (c := match accum with Some c => c | None => clear_lt rate accel end).
  assert (Hc' : 0 <= c < 2 ^ 31).
  { unfold c. destruct accum; [exact Hc|]. unfold clear_lt. cbv zeta.
    destruct (_ <? 0); [lia|]. destruct (_ =? 0); [destruct (_ <? 0); lia|lia]. }
  assert (Hh : Z.abs h <= 2 ^ 31) by (unfold h; pose proof (Z.quot_rem' accel 2); pose proof (Z.rem_bound_abs accel 2 ltac:(lia)); lia).
  assert (P103 : 2 ^ 103 = 10141204801825835211973625643008) by reflexivity.
  assert (P33 : 2 ^ 33 = 8589934592) by reflexivity. assert (P32 : 2 ^ 32 = 4294967296) by reflexivity. assert (P31 : 2 ^ 31 = 2147483648) by reflexivity.
  rewrite P33 in *. rewrite P32 in *. rewrite P31 in *.
  assert (E1 : (rnd (iz accel / 2) == iz accel / 2)%Q) by (apply rnd_id; [reflexivity|apply rep_half; lia]).
  assert (E2 : (rnd (iz rate + rnd (iz accel / 2)) == iz (2 * rate + accel) / 2)%Q).
  { apply rnd_id; [rewrite E1; push_iz; field|apply rep_half; lia]. }
  assert (E3 : (rnd (rnd (iz rate + rnd (iz accel / 2)) - iz h) == iz (2 * rate + accel - 2 * h) / 2)%Q).
  { apply rnd_id; [rewrite E2; push_iz; field|apply rep_half; lia]. }
  set (re := rnd (rnd (iz rate + rnd (iz accel / 2)) - iz h)) in *.
  assert (E4 : (rnd (re * iz time) == iz ((2 * rate + accel - 2 * h) * time) / 2)%Q).
  { apply rnd_id; [rewrite E3; push_iz; field|apply rep_half; nia]. }
  assert (E5 : (rnd (iz c + rnd (re * iz time)) == iz (2 * c + (2 * rate + accel - 2 * h) * time) / 2)%Q).
  { apply rnd_id; [rewrite E4; push_iz; field|apply rep_half; nia]. }
  assert (E6 : (rnd (iz accel * iz time) == iz (accel * time))%Q) by (apply rnd_id; [push_iz; reflexivity|apply rep_int; nia]).
  assert (E7 : (rnd (rnd (iz accel * iz time) * iz time) == iz (accel * time * time))%Q).
  { apply rnd_id; [rewrite E6; push_iz; reflexivity|apply rep_int; nia]. }
  assert (E8 : (rnd (rnd (rnd (iz accel * iz time) * iz time) / 2) == iz (accel * time * time) / 2)%Q).
  { apply rnd_id; [rewrite E7; reflexivity|apply rep_half; nia]. }
  set (u2 := rnd (iz c + rnd (re * iz time))) in *. set (v3 := rnd (rnd (rnd (iz accel * iz time) * iz time) / 2)) in *.
  set (K := 2 * c + (2 * rate + accel - 2 * h) * time + accel * time * time).
  assert (HK : Z.abs K < 2 ^ 100) by (unfold K; change (2 ^ 100) with 1267650600228229401496703205376; nia).
  change (2 ^ 100) with 1267650600228229401496703205376 in HK.
  assert (E9 : (rnd (u2 + v3) == iz K / 2)%Q).
  { apply rnd_id; [rewrite E5, E8; unfold K; push_iz; field|apply rep_half; lia]. }
  set (af := rnd (u2 + v3)) in *.
  assert (E10 : (rnd (af / iz 2147483648) == iz K / iz (2 ^ 32))%Q).
  { apply rnd_id; [rewrite E9; change (iz (2 ^ 32)) with (iz 4294967296); unfold iz; field|exists K, 32; split; [lia|split; [lia|reflexivity]]]. }
  (* the exact side *)
  set (afx := (iz c + (iz rate + iz accel / 2 - iz h) * iz time + iz accel * iz time * iz time / 2)%Q).
  assert (X : (afx == iz K / 2)%Q) by (unfold afx, K; push_iz; field).
  clearbody afx.
  assert (Ew : (rnd (af / iz 2147483648) == afx / iz 2147483648)%Q).
  { rewrite E10. rewrite X. change (iz (2 ^ 32)) with (iz 4294967296). unfold iz. field. }
  rewrite (Qfloor_comp _ _ Ew). set (pos := Qfloor (afx / iz 2147483648)).
  f_equal. apply Qtrunc_comp.
  (* pos is bounded: |K/2 / 2^31| *)
  assert (Hpos : Z.abs pos <= 2 ^ 69).
  { unfold pos. rewrite (Qfloor_comp _ (iz K / iz 4294967296)) by (rewrite X; unfold iz; field).
    rewrite Qfloor_iz_div by lia. change (2 ^ 69) with 590295810358705651712. pose proof (Z.div_mod K 4294967296 ltac:(lia)). pose proof (Z.mod_pos_bound K 4294967296 ltac:(lia)). lia. }
  change (2 ^ 69) with 590295810358705651712 in Hpos.
  assert (E11 : (rnd (iz 2147483648 * iz pos) == iz (2147483648 * pos))%Q) by (apply rnd_id; [push_iz; reflexivity|apply rep_int; lia]).
  apply rnd_id; [rewrite E9, E11, X; push_iz; reflexivity|].
  exists (K - 2 * (2147483648 * pos)), 1. split; [lia|]. split; [lia|]. rewrite X. change (iz (2 ^ 1)) with 2%Q. push_iz. field.
Qed.
End Rounded.
