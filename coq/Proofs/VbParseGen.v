(* C11: the preserveAspectRatio parser on every spelling.  p_a_r.strip().replace(",", " ").lower().split() applied to a sentence - words
   separated by non-empty runs of white space and commas, with any such run in front and behind - yields the lower-cased words
   (tokens_of_sentence); hence for every letter-case variant of defer / the ten alignments / meet / slice and every amount of white space
   and commas between and around them, parse_par extracts exactly the alignment and the meet-or-slice keyword (parse_par_general). *)
From Plotink Require Import Base.Prelude Base.PyStr Model.VbScale.
Open Scope Z_scope.

Definition issep (c : Z) : bool := is_ws c || (c =? 44).
Definition seps_only (w : text) : Prop := Forall (fun c => issep c = true) w.
Definition word (t : text) : Prop := t <> [] /\ Forall (fun c => issep c = false) t.

(* the character map of .replace(',', ' ').lower() *)
Definition g (c : Z) : Z := lower_c (if c =? 44 then 32 else c).
Lemma prep_map s : lower (replace1 44 [32] s) = map g s.
Proof. unfold lower. induction s as [|c t IH]; [reflexivity|]. cbn [replace1 map]. unfold g at 1. destruct (c =? 44); cbn [app map]; rewrite IH; reflexivity. Qed.

Lemma is_ws_small c : is_ws c = true -> ~ (65 <= c <= 90).
Proof. unfold is_ws. intros H R. repeat (apply orb_true_iff in H; destruct H as [H|H]); try (apply andb_true_iff in H; destruct H as [H1 H2]); try apply Z.eqb_eq in H; try apply Z.leb_le in H1; try apply Z.leb_le in H2; lia. Qed.
Lemma g_sep c : issep c = true -> is_ws (g c) = true.
Proof.
  unfold issep, g. intros H. destruct (Z.eqb_spec c 44) as [E|E]; [reflexivity|]. rewrite orb_false_r in H.
  unfold lower_c. destruct ((65 <=? c) && (c <=? 90)) eqn:U; [|exact H]. apply andb_true_iff in U. destruct U as [U1 U2]. apply Z.leb_le in U1, U2.
  exfalso. exact (is_ws_small c H (conj U1 U2)).
Qed.
Lemma ws_lower c : is_ws (lower_c c) = is_ws c.
Proof.
  unfold lower_c. destruct ((65 <=? c) && (c <=? 90)) eqn:U; [|reflexivity]. apply andb_true_iff in U. destruct U as [U1 U2]. apply Z.leb_le in U1, U2.
  assert (A : is_ws c = false) by (destruct (is_ws c) eqn:W; [exfalso; exact (is_ws_small c W (conj U1 U2))|reflexivity]). rewrite A.
  unfold is_ws. repeat match goal with |- context [?a <=? ?b] => destruct (Z.leb_spec a b) end; repeat match goal with |- context [?a =? ?b] => destruct (Z.eqb_spec a b) end; try reflexivity; lia.
Qed.
Lemma g_word c : issep c = false -> is_ws (g c) = false /\ g c = lower_c c.
Proof. unfold issep, g. intros H. apply orb_false_iff in H. destruct H as [H1 H2]. rewrite H2. split; [rewrite ws_lower; exact H1|reflexivity]. Qed.

(* ---------- split on white space ---------- *)
Lemma split_skip w rest : Forall (fun c => is_ws c = true) w -> split_ws_aux (w ++ rest) [] = split_ws_aux rest [].
Proof. induction 1 as [|c t Hc _ IH]; [reflexivity|]. cbn [app split_ws_aux]. rewrite Hc. exact IH. Qed.
Lemma split_word t : forall cur rest, Forall (fun c => is_ws c = false) t -> split_ws_aux (t ++ rest) cur = split_ws_aux rest (rev t ++ cur).
Proof. induction t as [|c t IH]; intros cur rest H; [reflexivity|]. inversion H; subst. cbn [app split_ws_aux]. rewrite H2. rewrite IH by assumption. cbn [rev]. rewrite <- app_assoc. reflexivity. Qed.
(* leading white space, a word, then nothing or white space first *)
Lemma split_token w t rest : Forall (fun c => is_ws c = true) w -> t <> [] -> Forall (fun c => is_ws c = false) t ->
  (rest = [] \/ exists c r, rest = c :: r /\ is_ws c = true) -> split_ws_aux (w ++ t ++ rest) [] = t :: split_ws_aux rest [].
Proof.
  intros Hw Ht Hn Hr. rewrite (split_skip w _ Hw), (split_word t [] rest Hn), app_nil_r.
  destruct Hr as [E|(c & r & E & Hc)]; subst rest.
  - cbn [split_ws_aux]. destruct (rev t) eqn:R; [apply (f_equal (@rev Z)) in R; rewrite rev_involutive in R; cbn in R; congruence|]. rewrite <- R, rev_involutive. reflexivity.
  - cbn [split_ws_aux]. rewrite Hc. destruct (rev t) eqn:R; [apply (f_equal (@rev Z)) in R; rewrite rev_involutive in R; cbn in R; congruence|]. rewrite <- R, rev_involutive.
    f_equal.
Qed.

(* ---------- strip removes white space only: separators that remain are still separators ---------- *)
Lemma lstrip_app_head w c x : is_ws c = false -> lstrip (w ++ c :: x) = lstrip w ++ c :: x.
Proof. intros Hc. induction w as [|a w IH]; cbn [app lstrip]; [rewrite Hc; reflexivity|]. destruct (is_ws a); [exact IH|reflexivity]. Qed.
Lemma lstrip_seps w : seps_only w -> seps_only (lstrip w).
Proof. induction 1 as [|a w Ha Hw IH]; cbn [lstrip]; [constructor|]. destruct (is_ws a); [exact IH|constructor; assumption]. Qed.
Lemma seps_rev w : seps_only w -> seps_only (rev w).
Proof. unfold seps_only. intros H. apply Forall_rev. exact H. Qed.
Lemma strip_core_seps w0 core w3 c m1 m2 z : seps_only w0 -> seps_only w3 -> core = c :: m1 -> core = m2 ++ [z] -> is_ws c = false -> is_ws z = false ->
  exists w0' w3', seps_only w0' /\ seps_only w3' /\ strip (w0 ++ core ++ w3) = w0' ++ core ++ w3'.
Proof.
  intros H0 H3 E1 E2 Hc Hz.
  exists (lstrip w0), (rev (lstrip (rev w3))). split; [apply lstrip_seps, H0|]. split; [apply seps_rev, lstrip_seps, seps_rev, H3|].
  unfold strip, rstrip.
  assert (S1 : lstrip (w0 ++ core ++ w3) = lstrip w0 ++ core ++ w3) by (rewrite E1; cbn [app]; apply lstrip_app_head, Hc).
  rewrite S1. set (A := lstrip w0).
  assert (S2 : rev (A ++ core ++ w3) = rev w3 ++ z :: rev (A ++ m2)).
  { rewrite E2. rewrite !rev_app_distr. cbn [rev app]. rewrite <- !app_assoc. cbn [app]. reflexivity. }
  rewrite S2, (lstrip_app_head (rev w3) z (rev (A ++ m2)) Hz). rewrite rev_app_distr. cbn [rev]. rewrite rev_involutive, E2, <- !app_assoc. reflexivity.
Qed.

(* ---------- a sentence: words separated by non-empty runs of separators ---------- *)
Fixpoint join (items : list (text * text)) : text := match items with [] => [] | (t, w) :: r => t ++ w ++ join r end.
Fixpoint wf (items : list (text * text)) : Prop :=
  match items with
  | [] => True
  | (t, w) :: r => word t /\ seps_only w /\ (r <> [] -> w <> []) /\ wf r
  end.
Lemma join_app a b : join (a ++ b) = join a ++ join b.
Proof. induction a as [|[t w] r IH]; [reflexivity|]. cbn [app join]. rewrite IH, <- !app_assoc. reflexivity. Qed.

Lemma map_g_seps w : seps_only w -> Forall (fun c => is_ws c = true) (map g w).
Proof. induction 1; constructor; [apply g_sep; assumption|assumption]. Qed.
Lemma map_g_word t : Forall (fun c => issep c = false) t -> map g t = lower t /\ Forall (fun c => is_ws c = false) (map g t).
Proof.
  induction 1 as [|c t Hc Ht [IH1 IH2]]; [split; [reflexivity|constructor]|]. destruct (g_word c Hc) as [G1 G2]. unfold lower in *. cbn [map]. split; [rewrite G2, IH1; reflexivity|constructor; assumption].
Qed.

Lemma split_sentence : forall items pre, wf items -> seps_only pre ->
  split_ws_aux (map g (pre ++ join items)) [] = map (fun p => lower (fst p)) items.
Proof.
  induction items as [|[t w] r IH]; intros pre Hwf Hpre.
  - cbn [join map]. rewrite app_nil_r. rewrite <- (app_nil_r (map g pre)). rewrite (split_skip _ [] (map_g_seps pre Hpre)). reflexivity.
  - cbn [wf] in Hwf. destruct Hwf as ((Tne & Tw) & Ws & Wne & Wr). cbn [join map fst]. rewrite !map_app.
    destruct (map_g_word t Tw) as [G1 G2].
    rewrite (split_token (map g pre) (map g t) (map g w ++ map g (join r))); [| apply map_g_seps, Hpre | destruct t; [congruence|discriminate] | exact G2 | ].
    + rewrite G1. f_equal. rewrite <- map_app. apply IH; assumption.
    + destruct w as [|c w'].
      * destruct r as [|p r']; [left; reflexivity|exfalso; apply Wne; [discriminate|reflexivity]].
      * right. exists (g c), (map g w' ++ map g (join r)). split; [reflexivity|]. inversion Ws; subst. apply g_sep. assumption.
Qed.

(* the token list of .strip().replace(',', ' ').lower().split() on a sentence with separator margins *)
Theorem tokens_of_sentence pre body tl wl : seps_only pre -> wf (body ++ [(tl, [])]) -> seps_only wl ->
  split_ws (lower (replace1 44 [32] (strip (pre ++ (join body ++ tl) ++ wl)))) = map (fun p => lower (fst p)) body ++ [lower tl].
Proof.
  intros Hpre Hwf Hwl.
  (* the core starts and ends with a character that is not white space *)
  assert (Hw : wf (body ++ [(tl, [])]) -> word tl) by (clear; induction body as [|[t w] r IH]; cbn [app wf]; [intros (W & _); exact W|intros (_ & _ & _ & R); apply IH, R]).
  pose proof (Hw Hwf) as (TLne & TLw).
  assert (Hfirst : exists c m1, join body ++ tl = c :: m1 /\ is_ws c = false).
  { destruct body as [|[t w] r].
    - destruct tl as [|c m]; [congruence|]. exists c, m. split; [reflexivity|]. inversion TLw; subst. unfold issep in H1. apply orb_false_iff in H1. tauto.
    - cbn [app wf] in Hwf. destruct Hwf as ((Tne & Tw) & _). destruct t as [|c m]; [congruence|]. cbn [join app]. eexists c, _. split; [reflexivity|].
      inversion Tw; subst. unfold issep in H1. apply orb_false_iff in H1. tauto. }
  assert (Hlast : exists m2 z, join body ++ tl = m2 ++ [z] /\ is_ws z = false).
  { destruct (exists_last TLne) as (m & z & E). exists (join body ++ m), z. split; [rewrite E, app_assoc; reflexivity|].
    rewrite E in TLw. apply Forall_app in TLw. destruct TLw as [_ Z]. inversion Z; subst. unfold issep in H1. apply orb_false_iff in H1. tauto. }
  destruct Hfirst as (c & m1 & E1 & Hc). destruct Hlast as (m2 & z & E2 & Hz).
  destruct (strip_core_seps pre (join body ++ tl) wl c m1 m2 z Hpre Hwl E1 E2 Hc Hz) as (p' & w' & Hp' & Hw' & ES).
  rewrite ES, prep_map. unfold split_ws.
  replace (p' ++ (join body ++ tl) ++ w') with (p' ++ join (body ++ [(tl, w')])) by (rewrite join_app; cbn [join]; rewrite app_nil_r, <- !app_assoc; reflexivity).
  rewrite split_sentence; [rewrite map_app; reflexivity| |exact Hp'].
  clear - Hwf Hw'. induction body as [|[t w] r IH]; cbn [app wf] in *.
  - destruct Hwf as (W & _). split; [exact W|split; [exact Hw'|split; [congruence|exact I]]].
  - destruct Hwf as (W & S & N & R). split; [exact W|split; [exact S|split; [|apply IH, R]]]. intros _. apply N. destruct r; discriminate.
Qed.

(* a word is whatever lower-cases to a text without separators *)
Lemma issep_lower c : issep c = true -> lower_c c = c.
Proof.
  unfold issep. intros H. unfold lower_c. destruct ((65 <=? c) && (c <=? 90)) eqn:U; [|reflexivity]. apply andb_true_iff in U. destruct U as [U1 U2]. apply Z.leb_le in U1, U2.
  apply orb_true_iff in H. destruct H as [H|H]; [exfalso; exact (is_ws_small c H (conj U1 U2))|apply Z.eqb_eq in H; lia].
Qed.
Lemma word_of_lower t L : lower t = L -> L <> [] -> Forall (fun c => issep c = false) L -> word t.
Proof.
  intros E Hne HL. split; [intro Z; subst t; cbn in E; congruence|]. subst L. unfold lower in HL. clear Hne.
  induction t as [|c t IH]; [constructor|]. cbn [map] in HL. apply Forall_cons_iff in HL. destruct HL as [Hc Ht]. constructor; [|apply IH, Ht].
  destruct (issep c) eqn:S; [|reflexivity]. rewrite (issep_lower c S) in Hc. congruence.
Qed.

Definition mos_text (m : mos) : text := match m with Meet => t_meet | Slice => t_slice | MosOther => [] end.
Definition align_txt (a : align) : text := match a with ANone => t_none | AXY x y => align_text x y end.

(* preserveAspectRatio in any letter case, with any amount of white space and commas around and between its parts, optional defer,
   optional meet / slice: the parser extracts exactly the alignment and the meet-or-slice keyword *)
Theorem parse_par_general (A : align) (M : option mos) (use_defer : bool) pre w1 w2 wl d a m :
  seps_only pre -> seps_only wl -> seps_only w1 -> w1 <> [] -> seps_only w2 -> w2 <> [] ->
  lower d = t_defer -> lower a = align_txt A ->
  match M with Some MosOther => False | Some mm => lower m = mos_text mm | None => True end ->
  let body := (if use_defer then [(d, w1)] else []) ++ match M with Some _ => [(a, w2)] | None => [] end in
  let tl := match M with Some _ => m | None => a end in
  let (pa, pm) := parse_par (Some (pre ++ (join body ++ tl) ++ wl)) in
  align_of pa = A /\ mos_of pm = match M with Some mm => mm | None => Meet end.
Proof.
  intros Hpre Hwl Hw1 N1 Hw2 N2 Ed Ea Em body tl.
  assert (Wd : word d) by (apply (word_of_lower d t_defer Ed); [discriminate|repeat constructor]).
  assert (Wa : word a) by (apply (word_of_lower a (align_txt A) Ea); destruct A as [|[] []]; try discriminate; repeat constructor).
  assert (Wm : match M with Some _ => word m | None => True end).
  { destruct M as [[]|]; cbn [mos_text] in Em; try exact I; try contradiction; (apply (word_of_lower m _ Em); [discriminate|repeat constructor]). }
  assert (Hwf : wf (body ++ [(tl, [])])).
  { destruct Wd as [Wd1 Wd2]. destruct Wa as [Wa1 Wa2]. unfold body, tl. destruct use_defer, M as [mm|]; cbn [app wf]; repeat split; try assumption; try constructor; try (intros _; assumption); try (intros Hx; exfalso; apply Hx; reflexivity); try (destruct Wm; assumption). }
  unfold parse_par. rewrite (tokens_of_sentence pre body tl wl Hpre Hwf Hwl).
  unfold body, tl. destruct use_defer, M as [mm|]; cbn [app map fst]; rewrite ?Ed, ?Ea;
    try (destruct mm; [| |contradiction]; rewrite Em); destruct A as [|[] []]; vm_compute; split; reflexivity.
Qed.
