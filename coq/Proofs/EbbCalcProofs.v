From Plotink Require Import Base.Prelude Spec.Firmware Model.EbbCalc.
Open Scope Z_scope.

(* ---------- triangular / tetrahedral numbers without division ---------- *)
Fixpoint triN (n : nat) : Z := match n with O => 0 | S m => triN m + Z.of_nat (S m) end.
Fixpoint tetN (n : nat) : Z := match n with O => 0 | S m => tetN m + triN m end.
Lemma triN_closed n : 2 * triN n = Z.of_nat n * (Z.of_nat n + 1).
Proof. induction n as [|n IH]; [reflexivity|]. cbn [triN]. rewrite Z.mul_add_distr_l, IH. rewrite !Nat2Z.inj_succ. unfold Z.succ. ring. Qed.
Lemma tetN_closed n : 6 * tetN n = (Z.of_nat n - 1) * Z.of_nat n * (Z.of_nat n + 1).
Proof.
  induction n as [|n IH]; [reflexivity|]. cbn [tetN]. rewrite Z.mul_add_distr_l, IH.
  replace (6 * triN n) with (3 * (2 * triN n)) by ring. rewrite triN_closed.
  rewrite !Nat2Z.inj_succ. unfold Z.succ. ring.
Qed.

(* ---------- closed forms of the recurrences, for every tick count ---------- *)
Lemma lt_ticks_closed n : forall a r acc,
  lt_ticks n a r acc = (r + Z.of_nat n * a, acc + Z.of_nat n * r + a * triN n).
Proof.
  induction n as [|n IH]; intros a r acc.
  - cbn [lt_ticks triN]. f_equal; lia.
  - cbn [lt_ticks]. rewrite IH. cbn [triN]. rewrite !Nat2Z.inj_succ. unfold Z.succ. f_equal; ring.
Qed.

Lemma t3_ticks_closed n : forall j a r acc,
  t3_ticks n j a r acc =
  (r + Z.of_nat n * a + j * triN (pred n), a + Z.of_nat n * j, acc + Z.of_nat n * r + a * triN n + j * tetN n).
Proof.
  induction n as [|n IH]; intros j a r acc.
  - cbn [t3_ticks triN tetN pred]. f_equal; [f_equal|]; lia.
  - cbn [t3_ticks]. rewrite IH. cbn [pred].
    assert (E : Z.of_nat n + triN (pred n) = triN n).
    { destruct n as [|m]; [reflexivity|]. cbn [pred triN]. lia. }
    cbn [triN tetN]. rewrite !Nat2Z.inj_succ. unfold Z.succ.
    f_equal; [f_equal|]; [ rewrite <- E; ring | ring | ring ].
Qed.

(* ---------- Q helpers ---------- *)
Ltac push_iz := unfold iz, Z.sub; repeat first [rewrite inject_Z_plus | rewrite inject_Z_mult | rewrite inject_Z_opp].
Lemma Qfloor_iz_div (n d : Z) : 0 < d -> Qfloor (iz n / iz d) = n / d.
Proof.
  intros Hd. unfold Qdiv, Qinv, iz, inject_Z; simpl. destruct d; try lia. simpl.
  unfold Qfloor, Qmult; simpl. rewrite Z.mul_1_r. reflexivity.
Qed.
Lemma Qtrunc_iz n : Qtrunc (iz n) = n.
Proof. unfold Qtrunc, iz. destruct (Qltb (inject_Z n) 0); [apply Qceiling_Z|apply Qfloor_Z]. Qed.
Lemma Qtrunc_comp x y : (x == y)%Q -> Qtrunc x = Qtrunc y.
Proof.
  intros E. unfold Qtrunc.
  assert (Qltb x 0 = Qltb y 0) as ->.
  { destruct (Qltb y 0) eqn:F; [apply Qltb_iff in F; apply Qltb_iff; rewrite E; exact F|apply Qltb_false in F; apply Qltb_false; rewrite E; exact F]. }
  destruct (Qltb y 0); [apply Qceiling_comp, E|apply Qfloor_comp, E].
Qed.
Lemma Qround_he_iz x n : (x == iz n)%Q -> Qround_he x = n.
Proof.
  intros E. unfold Qround_he. rewrite (Qfloor_comp _ _ E). unfold iz. rewrite Qfloor_Z.
  assert (D : (x - inject_Z n == 0)%Q) by (rewrite E; unfold iz; ring).
  assert (C : Qcompare (x - inject_Z n) (1#2) = Lt).
  { rewrite (Qcompare_comp _ _ D (1#2) (1#2) (Qeq_refl _)). reflexivity. }
  rewrite C. reflexivity.
Qed.

(* division by 2^31 and the remainder: the tail shared by both distance calculators *)
Lemma finish_total (x : Q) (tot : Z) : (x == iz tot)%Q ->
  let pos := Qfloor (x / iz 2147483648) in
  (pos, Qtrunc (x - iz 2147483648 * iz pos)%Q) = (tot / B31, tot mod B31).
Proof.
  intros E pos.
  assert (P : pos = tot / B31).
  { unfold pos. rewrite (Qfloor_comp _ (iz tot / iz 2147483648)) by (rewrite E; reflexivity).
    apply Qfloor_iz_div. reflexivity. }
  rewrite P. f_equal.
  rewrite (Qtrunc_comp _ (iz (tot - 2147483648 * (tot / B31)))).
  - rewrite Qtrunc_iz. unfold B31. rewrite Z.mod_eq by lia. reflexivity.
  - rewrite E. push_iz. ring.
Qed.

Lemma half_split (a : Z) : (iz a / 2 - iz (Z.quot a 2) == iz (a - 2 * Z.quot a 2) / 2)%Q.
Proof. push_iz. field. Qed.

Lemma iz_tri (t : nat) : (iz (Z.of_nat t) * iz (Z.of_nat t) / 2 + iz (Z.of_nat t) / 2 == iz (triN t))%Q.
Proof.
  pose proof (triN_closed t) as H.
  assert (E : inject_Z (2 * triN t) = inject_Z (Z.of_nat t * (Z.of_nat t + 1))) by (f_equal; exact H).
  rewrite !inject_Z_mult, inject_Z_plus in E. unfold iz.
  setoid_replace (inject_Z (triN t)) with (inject_Z 2 * inject_Z (triN t) / 2)%Q by field.
  rewrite E. change (inject_Z 1) with 1%Q. field.
Qed.
Lemma iz_tet (t : nat) : (iz (Z.of_nat t) * iz (Z.of_nat t) * iz (Z.of_nat t) / 6 - iz (Z.of_nat t) / 6 == iz (tetN t))%Q.
Proof.
  pose proof (tetN_closed t) as H.
  assert (E : inject_Z (6 * tetN t) = inject_Z ((Z.of_nat t - 1) * Z.of_nat t * (Z.of_nat t + 1))) by (f_equal; exact H).
  unfold Z.sub in E. rewrite !inject_Z_mult, !inject_Z_plus, inject_Z_opp in E. unfold iz.
  setoid_replace (inject_Z (tetN t)) with (inject_Z 6 * inject_Z (tetN t) / 6)%Q by field.
  rewrite E. change (inject_Z 1) with 1%Q. field.
Qed.

(* ---------- C01: exact model = firmware recurrence, all integers, all T >= 1 ---------- *)
Lemma clear_lt_eq rate accel : clear_lt rate accel = lt_clear (lt_start rate accel) accel.
Proof. reflexivity. Qed.

Theorem move_dist_lt_exact rate accel (T : nat) acc0 : (1 <= T)%nat ->
  move_dist_lt rate accel (Z.of_nat T) acc0 = lt_spec rate accel T acc0.
Proof.
  intros HT. unfold move_dist_lt, lt_spec. cbv zeta.
  destruct (Z.of_nat T =? 0) eqn:E; [lia|]. clear E.
  rewrite clear_lt_eq.
  set (c := match acc0 with Some c => c | None => _ end).
  replace (match acc0 with None => lt_clear (lt_start rate accel) accel | Some c0 => c0 end) with c by (subst c; destruct acc0; reflexivity).
  clearbody c.
  rewrite lt_ticks_closed. cbn [snd]. unfold lt_start.
  set (h := Z.quot accel 2). set (t := Z.of_nat T).
  apply finish_total.
  pose proof (iz_tri T) as TR. fold t in TR.
  unfold iz in TR. push_iz. rewrite <- TR. field.
Qed.

(* the remainder is in range *)
Lemma lt_spec_range rate accel T acc0 : 0 <= snd (lt_spec rate accel T acc0) < B31.
Proof. unfold lt_spec. cbn [snd]. apply Z.mod_pos_bound. reflexivity. Qed.

Theorem aliases_agree rate accel time acc :
  moveDistLMA rate accel time acc = move_dist_lt rate accel time acc /\
  moveDistLM rate accel time = fst (move_dist_lt rate accel time (Some 0)).
Proof. split; reflexivity. Qed.

(* ---------- C02: exact models = third-order recurrence ---------- *)
Lemma clear_t3_eq rate accel jerk : clear_t3 rate accel jerk = t3_clear (t3_start rate accel jerk) accel jerk.
Proof.
  unfold clear_t3, t3_clear, t3_start. cbv zeta.
  set (re := rate - Z.quot accel 2 + Z.quot jerk 6).
  destruct (re + accel <? 0) eqn:E1; [reflexivity|].
  destruct (re + accel =? 0) eqn:E2.
  - apply Z.eqb_eq in E2. destruct (0 <? re + accel) eqn:E3; [lia|].
    replace (re + accel + (accel + jerk)) with (accel + jerk) by lia.
    destruct (accel + jerk <? 0) eqn:E4; [reflexivity|].
    destruct (accel + jerk =? 0) eqn:E5.
    + apply Z.eqb_eq in E5. destruct (0 <? accel + jerk) eqn:E6; [lia|].
      replace (accel + jerk + (accel + jerk + jerk)) with jerk by lia. reflexivity.
    + destruct (0 <? accel + jerk) eqn:E6; [reflexivity|]. lia.
  - destruct (0 <? re + accel) eqn:E3; [reflexivity|]. lia.
Qed.

(* the "snap" of rate_effective never changes its exact value: the difference is a multiple of 1/6 *)
Lemma snap_exact (rate accel jerk : Z) :
  let re := (iz rate + iz accel / 2 - iz (Z.quot accel 2) + iz (Z.quot jerk 6) - iz jerk / 6)%Q in
  ((if Qltb (Qabs (re - iz rate)) (1#100) then iz rate else re) == re)%Q.
Proof.
  intros re. destruct (Qltb _ _) eqn:E; [|reflexivity]. apply Qltb_iff in E.
  set (m := 3 * (accel - 2 * Z.quot accel 2) + (6 * Z.quot jerk 6 - jerk)).
  assert (D : (re - iz rate == iz m * (1#6))%Q).
  { subst re m. push_iz. field. }
  rewrite D in E. apply Qabs_Qlt_condition in E. destruct E as [E1 E2].
  assert (F1 : (inject_Z (-1) < iz m)%Q) by (unfold iz in *; change (inject_Z (-1)) with (-1)%Q; lra).
  assert (F2 : (iz m < inject_Z 1)%Q) by (unfold iz in *; change (inject_Z 1) with 1%Q; lra).
  unfold iz in F1, F2. rewrite <- Zlt_Qlt in F1, F2. assert (m = 0) by lia.
  assert (re - iz rate == 0)%Q by (rewrite D, H; unfold iz; ring). lra.
Qed.

Theorem move_dist_t3_exact (T : nat) rate accel jerk acc0 : (1 <= T)%nat ->
  move_dist_t3 (Z.of_nat T) rate accel jerk acc0 = t3_spec_dist T rate accel jerk acc0.
Proof.
  intros HT. unfold move_dist_t3, t3_spec_dist. cbv zeta.
  destruct (Z.of_nat T =? 0) eqn:E; [lia|]. clear E.
  rewrite clear_t3_eq.
  set (c := match acc0 with Some c => c | None => _ end).
  replace (match acc0 with None => t3_clear (t3_start rate accel jerk) accel jerk | Some c0 => c0 end) with c by (subst c; destruct acc0; reflexivity).
  clearbody c.
  rewrite t3_ticks_closed. cbn [snd]. unfold t3_start.
  set (h := Z.quot accel 2). set (j6 := Z.quot jerk 6). set (t := Z.of_nat T).
  set (tot := c + t * (rate - h + j6) + accel * triN T + jerk * tetN T).
  pose proof (snap_exact rate accel jerk) as SN. cbv zeta in SN. fold h j6 in SN.
  set (re0 := (iz rate + iz accel / 2 - iz h + iz j6 - iz jerk / 6)%Q) in *.
  set (re := if Qltb (Qabs (re0 - iz rate)) (1 # 100) then iz rate else re0) in *.
  assert (EQ : (iz c + re * iz t + iz accel * iz t * iz t / 2 + iz jerk * iz t * iz t * iz t / 6 == iz tot)%Q).
  { rewrite SN. subst re0 tot.
    pose proof (iz_tri T) as TR. pose proof (iz_tet T) as TE. fold t in TR, TE.
    unfold iz in TR, TE. push_iz. rewrite <- TR, <- TE. field. }
  rewrite (Qround_he_iz _ _ EQ).
  apply finish_total. reflexivity.
Qed.

Theorem rate_t3_exact (T : nat) rate accel jerk : (1 <= T)%nat ->
  rate_t3 (Z.of_nat T) rate accel jerk = t3_spec_rate T rate accel jerk.
Proof.
  intros HT. unfold rate_t3, t3_spec_rate.
  destruct (Z.of_nat T =? 0) eqn:E; [lia|]. clear E.
  rewrite t3_ticks_closed. cbn [fst]. unfold t3_start.
  apply Qround_he_iz.
  set (t := Z.of_nat T).
  assert (E : Z.of_nat T + triN (pred T) = triN T).
  { destruct T as [|m]; [lia|]. cbn [pred triN]. lia. }
  pose proof (iz_tri T) as TR. fold t in TR, E.
  replace (triN (pred T)) with (triN T - t) by lia.
  unfold iz in TR. push_iz. rewrite <- TR. field.
Qed.

(* zero jerk: the T3 prediction coincides with the timed-move prediction *)
Theorem t3_zero_jerk (T : nat) rate accel acc0 : (1 <= T)%nat ->
  move_dist_t3 (Z.of_nat T) rate accel 0 acc0 = move_dist_lt rate accel (Z.of_nat T) acc0.
Proof.
  intros HT. rewrite move_dist_t3_exact, move_dist_lt_exact by exact HT.
  unfold t3_spec_dist, lt_spec. rewrite t3_ticks_closed, lt_ticks_closed. cbn [snd].
  unfold t3_start, lt_start. change (Z.quot 0 6) with 0.
  assert (C : t3_clear (rate - Z.quot accel 2 + 0) accel 0 = lt_clear (rate - Z.quot accel 2) accel).
  { unfold t3_clear, lt_clear. cbv zeta. rewrite !Z.add_0_r.
    set (r1 := rate - Z.quot accel 2 + accel).
    destruct (r1 <? 0) eqn:E1; [reflexivity|].
    destruct (0 <? r1) eqn:E2; destruct (r1 =? 0) eqn:E3; try reflexivity; try lia.
    apply Z.eqb_eq in E3. rewrite E3. cbn [Z.add].
    destruct (accel <? 0) eqn:E4; [reflexivity|].
    destruct (0 <? accel) eqn:E5; [reflexivity|].
    assert (accel = 0) by lia. subst accel. reflexivity. }
  rewrite C. destruct acc0; f_equal; f_equal; ring.
Qed.
