(* the O(1) closed forms used as executable checkers are equal to the tick-by-tick specifications *)
From Plotink Require Import Base.Prelude Spec.Firmware Model.EbbCalc Proofs.EbbCalcProofs Corr.C01 Corr.C02.
Open Scope Z_scope.

Lemma tri_div (T : nat) : Z.of_nat T * (Z.of_nat T + 1) / 2 = triN T.
Proof. rewrite <- triN_closed. rewrite Z.mul_comm. apply Z.div_mul. lia. Qed.
Lemma tet_div (T : nat) : (Z.of_nat T - 1) * Z.of_nat T * (Z.of_nat T + 1) / 6 = tetN T.
Proof. rewrite <- tetN_closed. rewrite Z.mul_comm. apply Z.div_mul. lia. Qed.
Lemma tri_pred_div (T : nat) : (1 <= T)%nat -> Z.of_nat T * (Z.of_nat T - 1) / 2 = triN (pred T).
Proof.
  intros H. destruct T as [|m]; [lia|]. cbn [pred]. rewrite <- tri_div.
  rewrite Nat2Z.inj_succ. unfold Z.succ. f_equal. ring.
Qed.

Theorem lt_closed_spec rate accel (T : nat) acc0 :
  lt_closed rate accel (Z.of_nat T) acc0 = lt_spec rate accel T acc0.
Proof. unfold lt_closed, lt_spec. cbv zeta. rewrite lt_ticks_closed. cbn [snd]. rewrite tri_div. reflexivity. Qed.

Theorem t3_closed_spec (T : nat) rate accel jerk acc0 :
  t3_closed (Z.of_nat T) rate accel jerk acc0 = t3_spec_dist T rate accel jerk acc0 /\
  ((1 <= T)%nat -> t3_rate_closed (Z.of_nat T) rate accel jerk = t3_spec_rate T rate accel jerk).
Proof.
  split.
  - unfold t3_closed, t3_spec_dist. cbv zeta. rewrite t3_ticks_closed. cbn [snd]. rewrite tri_div, tet_div. reflexivity.
  - intros H. unfold t3_rate_closed, t3_spec_rate. rewrite t3_ticks_closed. cbn [fst]. rewrite tri_pred_div by exact H. reflexivity.
Qed.
