From Plotink Require Import Base.Prelude Base.PyStr Model.Serial3.
Open Scope Z_scope.

(* ---------- C04: a blocked object (not connected, or holding an error) does nothing on any request ---------- *)
Theorem step_silent c s k sc : blocked s = true -> is_request k = true ->
  step c s k sc = (s, Ret (failure_value k), [], sc).
Proof.
  intros B R. destruct k; cbn [is_request] in R; try discriminate R; cbn [step failure_value];
  unfold lift_bool, lift_otext, command, query, query_statusbyte, reboot, bootload, raw_write_then_close, var_write, var_read,
         var_write_int32, var_read_int32, query_nickname, write_nickname, timed_pause, xy_move, abs_move, motors_disable, motors_enable,
         motors_query_enabled, query_steps, clear_steps, clear_accumulators, pen_lower, pen_raise, pen_cmd, dio_b_config, dio_b_set, dio_b_read,
         pen_pos_down, pen_pos_up, pen_rate_down, pen_rate_up, servo_timeout, query_voltage, query_current, simple_cmd, guarded;
  rewrite ?B; try reflexivity.
  - (* write_nickname: a None nickname returns False before the guard *) destruct n; rewrite ?B; reflexivity.
Qed.

Lemma record_error_latched s k m : err s = Some m -> record_error s k = s.
Proof. intros H. unfold record_error. rewrite H. reflexivity. Qed.
Lemma blocked_of_err s m : err s = Some m -> blocked s = true.
Proof. intros H. unfold blocked. rewrite H. apply orb_true_r. Qed.

(* connecting never replaces a recorded error *)
Lemma connect_keeps_err s ports g sc m : err s = Some m ->
  let '(s', _, _, _) := connect s ports g sc in err s' = Some m.
Proof.
  intros H. unfold connect.
  destruct (port s); [exact H|].
  destruct (match g with None => find_first ports | Some g0 => find_named ports g0 end); [|rewrite (record_error_latched s _ m H); exact H].
  destruct (write_ok sc) as [opened sc0]. destruct opened; cbn [negb].
  2:{ rewrite !(record_error_latched s _ m H). exact H. }
  unfold probe. destruct (write_ok sc0) as [w1 sc1]. destruct w1.
  2:{ rewrite !(record_error_latched s _ m H). exact H. }
  assert (V : forall ver w sc', let '(s', _, _, _) :=
    (let s1 := set_port s true in
     let s2 := match split_once (T "Firmware Version ") ver with (_, Some rest) => set_version s1 (parse_version rest) | (_, None) => s1 end in
     match split_once (T "Firmware Version ") ver with
     | (_, Some rest) => match parse_version rest with None => (s2, Raise OtherError, w, sc') | Some _ =>
         match min_version s2 MIN_VERSION with
         | Raise e => (s2, Raise e, w, sc')
         | Ret (Some true) =>
             let '(wok, sc2) := write_ok sc' in
             if negb wok then (s2, Raise OtherError, w, sc2) else
             match readline sc2 with
             | (RRaise, sc3) => (s2, Raise OtherError, w ++ [T "CU,10,1"], sc3)
             | (RLine _, sc3) =>
                 let '(s3, o, wq, sc4) := query_nickname s2 sc3 in
                 match o with Raise e => (s3, Raise e, w ++ [T "CU,10,1"] ++ wq, sc4) | Ret _ => (s3, Ret true, w ++ [T "CU,10,1"] ++ wq, sc4) end
             end
         | Ret _ => (record_error s2 E_VERSION, Ret false, w, sc')
         end end
     | (_, None) => (s2, Raise TypeError, w, sc')
     end : res bool) in err s' = Some m).
  { intros ver w sc'. cbv zeta.
    destruct (split_once (T "Firmware Version ") ver) as [pre [rest|]]; [|exact H].
    destruct (parse_version rest) as [v|]; [|exact H].
    set (s2 := set_version (set_port s true) (Some v)).
    assert (H2 : err s2 = Some m) by exact H.
    destruct (min_version s2 MIN_VERSION) as [[[|]|]|e]; try exact H2; try (rewrite (record_error_latched s2 _ m H2); exact H2).
    destruct (write_ok sc') as [wok sc2]. destruct wok; cbn [negb]; [|exact H2].
    destruct (readline sc2) as [[lx|] sc3]; [|exact H2].
    unfold query_nickname. rewrite (blocked_of_err s2 m H2). exact H2. }
  destruct (readline sc1) as [[l1|] sc2].
  2:{ rewrite !(record_error_latched s _ m H). exact H. }
  destruct (is_ebb (strip l1)); [apply V|].
  destruct (write_ok sc2) as [w2 sc3]. destruct w2.
  2:{ rewrite !(record_error_latched s _ m H). exact H. }
  destruct (readline sc3) as [[l2|] sc4].
  2:{ rewrite !(record_error_latched s _ m H). exact H. }
  destruct (is_ebb (strip l2)); [apply V|].
  rewrite (record_error_latched s _ m H). exact H.
Qed.

Theorem step_keeps_err c s k sc m : err s = Some m -> let '(s', _, _, _) := step c s k sc in err s' = Some m.
Proof.
  intros H. destruct (is_request k) eqn:R.
  - rewrite (step_silent c s k sc (blocked_of_err s m H) R). exact H.
  - destruct k; try discriminate R; cbn [step].
    + pose proof (connect_keeps_err s ports given sc m H) as C. unfold lift_bool.
      destruct (connect s ports given sc) as [[[s' o] w] sc']. exact C.
    + exact H.
Qed.

(* ---------- histories ---------- *)
Fixpoint run (c : cfg) (s : ebb3) (sc : script) (h : list call) : list (ebb3 * call * ebb3 * outcome rv * list text) :=
  match h with
  | [] => []
  | k :: t => let '(s', o, w, sc') := step c s k sc in (s, k, s', o, w) :: run c s' sc' t
  end.

(* in every history, from every start state, with every script: a request issued while the object is blocked writes nothing,
   returns its failure value and changes nothing; no call ever replaces a recorded error; disconnect never writes *)
Theorem history_latched c : forall h s sc,
  Forall (fun e => let '(pre, k, post, o, w) := e in
            (blocked pre = true -> is_request k = true -> post = pre /\ o = Ret (failure_value k) /\ w = []) /\
            (forall m, err pre = Some m -> err post = Some m) /\
            (k = CDisconnect -> w = []))
         (run c s sc h).
Proof.
  induction h as [|k t IH]; intros s sc; cbn [run]; [constructor|].
  destruct (step c s k sc) as [[[s' o] w] sc'] eqn:E. constructor; [|apply IH].
  split; [|split].
  - intros B R. rewrite (step_silent c s k sc B R) in E. injection E as <- <- <- <-. repeat split.
  - intros m H. pose proof (step_keeps_err c s k sc m H) as K. rewrite E in K. exact K.
  - intros ->. cbn [step] in E. unfold disconnect in E. injection E as _ _ <- _. reflexivity.
Qed.

(* consequence: after the first recorded error, every byte written was written by connect (handshake probe or CU,10,1) *)
Corollary writes_after_error_are_connects c h s sc :
  Forall (fun e => let '(pre, k, post, o, w) := e in
            (exists m, err pre = Some m) -> w <> [] -> exists ports g, k = CConnect ports g)
         (run c s sc h).
Proof.
  pose proof (history_latched c h s sc) as H. rewrite Forall_forall in *. intros [[[[pre k] post] o] w] Hin.
  specialize (H _ Hin). cbn in H. destruct H as (H1 & _ & H3). intros [m Hm] Hw.
  destruct k; try (exfalso; apply Hw; apply (H1 (blocked_of_err pre m Hm) eq_refl)).
  - eexists _, _. reflexivity.
  - exfalso. apply Hw. apply H3. reflexivity.
Qed.
