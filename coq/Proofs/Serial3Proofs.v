From Plotink Require Import Base.Prelude Base.PyStr Model.Serial3.
Open Scope Z_scope.

(* ---------- C04: a blocked object (not connected, or holding an error) does nothing on any request ---------- *)
Theorem step_silent c s k sc : blocked s = true -> is_request k = true ->
  step c s k sc = (s, Ret (failure_value k), [], sc).
Proof.
  intros B R. destruct k; cbn [is_request] in R; try discriminate R; cbn [step failure_value];
  unfold lift_bool, lift_otext, command, query, query_statusbyte, reboot, bootload, raw_write_then_close, var_write, var_read,
         var_write_int32, var_read_int32, query_nickname, write_nickname, timed_pause, xy_move, abs_move, motors_disable, motors_enable,
         motors_query_enabled, query_steps, clear_steps, clear_accumulators, pen_lower, pen_raise, pen_cmd, dio_b_config, dio_b_set, dio_b_read,
         pen_pos_down, pen_pos_up, pen_rate_down, pen_rate_up, servo_timeout, query_voltage, query_current, simple_cmd, guarded;
  rewrite ?B; try reflexivity.
  - (* write_nickname: a None nickname returns False before the guard *) destruct n; rewrite ?B; reflexivity.
Qed.

Lemma record_error_latched s k m : err s = Some m -> record_error s k = s.
Proof. intros H. unfold record_error. rewrite H. reflexivity. Qed.
Lemma blocked_of_err s m : err s = Some m -> blocked s = true.
Proof. intros H. unfold blocked. rewrite H. apply orb_true_r. Qed.

(* connecting never replaces a recorded error *)
Lemma connect_keeps_err s ports g sc m : err s = Some m ->
  let '(s', _, _, _) := connect s ports g sc in err s' = Some m.
Proof.
  intros H. unfold connect.
  destruct (port s); [exact H|].
  destruct (match g with None => find_first ports | Some g0 => find_named ports g0 end); [|rewrite (record_error_latched s _ m H); exact H].
  destruct (write_ok sc) as [opened sc0]. destruct opened; cbn [negb].
  2:{ rewrite !(record_error_latched s _ m H). exact H. }
  unfold probe. destruct (write_ok sc0) as [w1 sc1]. destruct w1.
  2:{ rewrite !(record_error_latched s _ m H). exact H. }
  assert (V : forall ver w sc', let '(s', _, _, _) :=
    (let s1 := set_port s true in
     let s2 := match split_once (T "Firmware Version ") ver with (_, Some rest) => set_version s1 (parse_version rest) | (_, None) => s1 end in
     match split_once (T "Firmware Version ") ver with
     | (_, Some rest) => match parse_version rest with None => (s2, Raise OtherError, w, sc') | Some _ =>
         match min_version s2 MIN_VERSION with
         | Raise e => (s2, Raise e, w, sc')
         | Ret (Some true) =>
             let '(wok, sc2) := write_ok sc' in
             if negb wok then (s2, Raise OtherError, w, sc2) else
             match readline sc2 with
             | (RRaise, sc3) => (s2, Raise OtherError, w ++ [T "CU,10,1"], sc3)
             | (RLine _, sc3) =>
                 let '(s3, o, wq, sc4) := query_nickname s2 sc3 in
                 match o with Raise e => (s3, Raise e, w ++ [T "CU,10,1"] ++ wq, sc4) | Ret _ => (s3, Ret true, w ++ [T "CU,10,1"] ++ wq, sc4) end
             end
         | Ret _ => (record_error s2 E_VERSION, Ret false, w, sc')
         end end
     | (_, None) => (s2, Raise TypeError, w, sc')
     end : res bool) in err s' = Some m).
  { intros ver w sc'. cbv zeta.
    destruct (split_once (T "Firmware Version ") ver) as [pre [rest|]]; [|exact H].
    destruct (parse_version rest) as [v|]; [|exact H].
    set (s2 := set_version (set_port s true) (Some v)).
    assert (H2 : err s2 = Some m) by exact H.
    destruct (min_version s2 MIN_VERSION) as [[[|]|]|e]; try exact H2; try (rewrite (record_error_latched s2 _ m H2); exact H2).
    destruct (write_ok sc') as [wok sc2]. destruct wok; cbn [negb]; [|exact H2].
    destruct (readline sc2) as [[lx|] sc3]; [|exact H2].
    unfold query_nickname. rewrite (blocked_of_err s2 m H2). exact H2. }
  destruct (readline sc1) as [[l1|] sc2].
  2:{ rewrite !(record_error_latched s _ m H). exact H. }
  destruct (is_ebb (strip l1)); [apply V|].
  destruct (write_ok sc2) as [w2 sc3]. destruct w2.
  2:{ rewrite !(record_error_latched s _ m H). exact H. }
  destruct (readline sc3) as [[l2|] sc4].
  2:{ rewrite !(record_error_latched s _ m H). exact H. }
  destruct (is_ebb (strip l2)); [apply V|].
  rewrite (record_error_latched s _ m H). exact H.
Qed.

Theorem step_keeps_err c s k sc m : err s = Some m -> let '(s', _, _, _) := step c s k sc in err s' = Some m.
Proof.
  intros H. destruct (is_request k) eqn:R.
  - rewrite (step_silent c s k sc (blocked_of_err s m H) R). exact H.
  - destruct k; try discriminate R; cbn [step].
    + pose proof (connect_keeps_err s ports given sc m H) as C. unfold lift_bool.
      destruct (connect s ports given sc) as [[[s' o] w] sc']. exact C.
    + exact H.
Qed.

(* ---------- histories ---------- *)
Fixpoint run (c : cfg) (s : ebb3) (sc : script) (h : list call) : list (ebb3 * call * ebb3 * outcome rv * list text) :=
  match h with
  | [] => []
  | k :: t => let '(s', o, w, sc') := step c s k sc in (s, k, s', o, w) :: run c s' sc' t
  end.

(* in every history, from every start state, with every script: a request issued while the object is blocked writes nothing,
   returns its failure value and changes nothing; no call ever replaces a recorded error; disconnect never writes *)
Theorem history_latched c : forall h s sc,
  Forall (fun e => let '(pre, k, post, o, w) := e in
            (blocked pre = true -> is_request k = true -> post = pre /\ o = Ret (failure_value k) /\ w = []) /\
            (forall m, err pre = Some m -> err post = Some m) /\
            (k = CDisconnect -> w = []))
         (run c s sc h).
Proof.
  induction h as [|k t IH]; intros s sc; cbn [run]; [constructor|].
  destruct (step c s k sc) as [[[s' o] w] sc'] eqn:E. constructor; [|apply IH].
  split; [|split].
  - intros B R. rewrite (step_silent c s k sc B R) in E. injection E as <- <- <- <-. repeat split.
  - intros m H. pose proof (step_keeps_err c s k sc m H) as K. rewrite E in K. exact K.
  - intros ->. cbn [step] in E. unfold disconnect in E. injection E as _ _ <- _. reflexivity.
Qed.

(* consequence: after the first recorded error, every byte written was written by connect (handshake probe or CU,10,1) *)
Corollary writes_after_error_are_connects c h s sc :
  Forall (fun e => let '(pre, k, post, o, w) := e in
            (exists m, err pre = Some m) -> w <> [] -> exists ports g, k = CConnect ports g)
         (run c s sc h).
Proof.
  pose proof (history_latched c h s sc) as H. rewrite Forall_forall in *. intros [[[[pre k] post] o] w] Hin.
  specialize (H _ Hin). cbn in H. destruct H as (H1 & _ & H3). intros [m Hm] Hw.
  destruct k; try (exfalso; apply Hw; apply (H1 (blocked_of_err pre m Hm) eq_refl)).
  - eexists _, _. reflexivity.
  - exfalso. apply Hw. apply H3. reflexivity.
Qed.

(* ================= C05: framing of command / query and fault handling ================= *)
Lemma retry_consumes n : forall r sc x sc', retry n r sc = (x, sc') -> (length sc' <= length sc)%nat /\ (length sc - length sc' <= n)%nat.
Proof.
  induction n as [|n IH]; intros r sc x sc' H; cbn [retry] in H.
  - injection H as _ <-. lia.
  - destruct r as [|c r'].
    + destruct sc as [|e t]; cbn [readline] in H.
      * destruct (IH _ _ _ _ H) as [A B]. cbn [length] in *. lia.
      * destruct e; try (destruct (IH _ _ _ _ H) as [A B]; cbn [length]; lia).
        injection H as _ <-. cbn [length]. lia.
    + injection H as _ <-. lia.
Qed.
(* a non-empty line is returned as soon as it is seen *)
Lemma retry_nonempty n c r sc : retry n (c :: r) sc = (RLine (c :: r), sc).
Proof. destruct n; reflexivity. Qed.

(* the reply seen by a request: up to 26 reads, skipping empty ones *)
Definition reads26 (sc : script) : rd * script :=
  match readline sc with (RLine r, sc2) => retry 25 (strip r) sc2 | (RRaise, sc2) => (RRaise, sc2) end.
Lemma readline_consumes sc y sc2 : readline sc = (y, sc2) -> (length sc2 <= length sc)%nat /\ (length sc - length sc2 <= 1)%nat.
Proof. destruct sc as [|e t]; cbn [readline]; [|destruct e]; intros H; injection H as _ <-; cbn [length]; lia. Qed.
Lemma reads26_consumes sc x sc' : reads26 sc = (x, sc') -> (length sc - length sc' <= 26)%nat.
Proof.
  unfold reads26. destruct (readline sc) as [[r|] sc2] eqn:E; intros H; destruct (readline_consumes _ _ _ E) as [A B].
  - destruct (retry_consumes _ _ _ _ _ H) as [C D]. lia.
  - injection H as _ <-. lia.
Qed.

Definition good_reply (nm r : text) : bool := startswith r nm && negb (contains r (T "Err:")).

(* the object after a command, as a function of what the (at most 26) reads produced *)
Definition command_result (s : ebb3) (nm : text) (x : rd) : ebb3 :=
  let '(s1, response) :=
    match x with
    | RLine r => (if startswith r nm then s else record_error s (match r with [] => E_TIMEOUT | _ => E_UNEXPECTED end), r)
    | RRaise => (if reboot_like nm then s else record_error s E_USB, [])
    end in
  if contains response (T "Err:") then record_error s1 E_ERRREPLY else s1.

(* command: exactly one write of the trimmed text (then CR), at most 26 reads *)
Lemma command_unfold s cmd sc c nm sc1 x sc' :
  blocked s = false -> strip cmd = c -> cmd_name c = Some nm -> write_ok sc = (true, sc1) -> reads26 sc1 = (x, sc') ->
  command s cmd sc = (command_result s nm x, Ret (err_free (command_result s nm x)), [c], sc').
Proof.
  intros B Ec En Ew Er. unfold command. rewrite B, Ec, En. unfold write_read. rewrite Ew.
  unfold reads26 in Er. unfold command_result.
  destruct (readline sc1) as [[r0|] sc2].
  - rewrite Er. destruct x; reflexivity.
  - injection Er as <- <-. reflexivity.
Qed.
Lemma command_write_fault s cmd sc c nm sc1 :
  blocked s = false -> strip cmd = c -> cmd_name c = Some nm -> write_ok sc = (false, sc1) ->
  command s cmd sc = (command_result s nm RRaise, Ret (err_free (command_result s nm RRaise)), [], sc1).
Proof. intros B Ec En Ew. unfold command. rewrite B, Ec, En. unfold write_read. rewrite Ew. reflexivity. Qed.

(* success iff the reply begins with the request's name and carries no "Err:"; a failure is recorded; success changes nothing *)
Theorem command_result_spec s nm x : err s = None -> reboot_like nm = false ->
  (err_free (command_result s nm x) = true <-> exists r, x = RLine r /\ good_reply nm r = true) /\
  (err_free (command_result s nm x) = true -> command_result s nm x = s) /\
  (err_free (command_result s nm x) = false <-> err (command_result s nm x) <> None).
Proof.
  intros Hn RB. unfold command_result, good_reply. remember (T "Err:") as ERR.
  assert (RE : forall k, err (record_error s k) = Some k) by (intros k; unfold record_error; rewrite Hn; reflexivity).
  assert (RR : forall k k', record_error (record_error s k) k' = record_error s k).
  { intros k k'. unfold record_error at 1. rewrite RE. reflexivity. }
  assert (EF : forall k, err_free (record_error s k) = false) by (intros k; unfold err_free; rewrite RE; reflexivity).
  assert (ES : err_free s = true) by (unfold err_free; rewrite Hn; reflexivity).
  destruct x as [r|].
  - destruct (startswith r nm) eqn:S1; destruct (contains r ERR) eqn:S2; cbn [negb andb];
    rewrite ?RR, ?EF, ?ES.
    + split; [split; [discriminate|intros (r' & E & G); injection E as <-; rewrite S1, S2 in G; discriminate]|].
      split; [discriminate|]. rewrite RE. split; [discriminate|reflexivity].
    + split; [split; [intros _; exists r; rewrite S1, S2; split; reflexivity|reflexivity]|].
      split; [reflexivity|]. rewrite Hn. split; [discriminate|intros C; congruence].
    + split; [split; [discriminate|intros (r' & E & G); injection E as <-; rewrite S1 in G; discriminate]|].
      split; [discriminate|]. rewrite RE. split; [discriminate|reflexivity].
    + split; [split; [discriminate|intros (r' & E & G); injection E as <-; rewrite S1 in G; discriminate]|].
      split; [discriminate|]. rewrite RE. split; [discriminate|reflexivity].
  - rewrite RB. assert (C0 : contains [] ERR = false) by (subst ERR; reflexivity). rewrite C0, EF.
    split; [split; [discriminate|intros (r' & E & _); discriminate]|]. split; [discriminate|]. rewrite RE. split; [discriminate|reflexivity].
Qed.

(* ---------- query ---------- *)
Definition payload (nm r : text) : text :=
  let hl := length nm in
  skipn (match nth_error r hl with Some c => if c =? 44 then S hl else hl | None => hl end) r.
Definition query_result (s : ebb3) (nm : text) (x : rd) : ebb3 * option text :=
  let after (response : text) :=
    if contains response (T "Err:") || negb (startswith response nm)
    then (record_error s (match response with [] => E_TIMEOUT | _ => E_UNEXPECTED end), None)
    else (s, Some (payload nm response)) in
  match x with
  | RLine r => after r
  | RRaise => if reboot_like nm then after [] else (record_error s E_USB, None)
  end.
Lemma query_unfold s q sc c nm sc1 x sc' :
  blocked s = false -> strip q = c -> cmd_name c = Some nm -> write_ok sc = (true, sc1) -> reads26 sc1 = (x, sc') ->
  query s q sc = (fst (query_result s nm x), Ret (snd (query_result s nm x)), [c], sc').
Proof.
  intros B Ec En Ew Er. unfold query. rewrite B, Ec, En. unfold write_read. rewrite Ew.
  unfold reads26 in Er. unfold query_result, payload.
  destruct (readline sc1) as [[r0|] sc2].
  - rewrite Er. destruct x as [r|].
    + destruct (contains r (T "Err:") || negb (startswith r nm)); reflexivity.
    + destruct (reboot_like nm); [|reflexivity]. destruct (contains [] (T "Err:") || negb (startswith [] nm)); reflexivity.
  - injection Er as <- <-. destruct (reboot_like nm); [|reflexivity]. destruct (contains [] (T "Err:") || negb (startswith [] nm)); reflexivity.
Qed.
(* a query returns the reply minus the name and one separating comma exactly when the reply is good; otherwise None with the failure recorded *)
Theorem query_result_spec s nm x : err s = None -> nm <> [] ->
  (forall p, snd (query_result s nm x) = Some p <-> exists r, x = RLine r /\ good_reply nm r = true /\ p = payload nm r) /\
  (snd (query_result s nm x) <> None -> fst (query_result s nm x) = s) /\
  (snd (query_result s nm x) = None -> err (fst (query_result s nm x)) <> None).
Proof.
  intros Hn Hnm. unfold query_result, good_reply. remember (T "Err:") as ERR.
  assert (RE : forall k, err (record_error s k) = Some k) by (intros k; unfold record_error; rewrite Hn; reflexivity).
  assert (S0 : startswith [] nm = false) by (destruct nm; [congruence|reflexivity]).
  destruct x as [r|].
  - assert (Bad : contains r ERR || negb (startswith r nm) = true ->
      (forall p, None = Some p <-> exists r', RLine r = RLine r' /\ startswith r' nm && negb (contains r' ERR) = true /\ p = payload nm r')).
    { intros Hb p. split; [discriminate|]. intros (r' & E & G & _). assert (r' = r) by (inversion E; reflexivity). subst r'.
      apply andb_true_iff in G. destruct G as [G1 G2]. apply negb_true_iff in G2. rewrite G1, G2 in Hb. discriminate. }
    destruct (contains r ERR || negb (startswith r nm)) eqn:Hb; cbn [fst snd].
    + split; [exact (Bad eq_refl)|]. split; [congruence|intros _; rewrite RE; discriminate].
    + apply orb_false_iff in Hb. destruct Hb as [S2 S1]. apply negb_false_iff in S1.
      split; [|split; [reflexivity|congruence]].
      intros p. split.
      * intros E. injection E as <-. exists r. rewrite S1, S2. repeat split.
      * intros (r' & E & _ & P). assert (r' = r) by (inversion E; reflexivity). subst r'. subst p. reflexivity.
  - destruct (reboot_like nm).
    + assert (C0 : contains [] ERR = false) by (subst ERR; reflexivity). rewrite C0, S0. cbn [orb negb fst snd].
      split; [intros p; split; [discriminate|intros (r' & E & _); discriminate]|]. split; [congruence|intros _; rewrite RE; discriminate].
    + cbn [fst snd]. split; [intros p; split; [discriminate|intros (r' & E & _); discriminate]|]. split; [congruence|intros _; rewrite RE; discriminate].
Qed.

(* ---------- no exception escapes command / query / query_statusbyte, whatever the port does ---------- *)
Theorem primitives_no_raise c s t sc : cmd_name (strip t) <> None ->
  (exists s' b w sc', command s t sc = (s', Ret b, w, sc')) /\
  (exists s' v w sc', query s t sc = (s', Ret v, w, sc')) /\
  (exists s' v w sc', query_statusbyte c s sc = (s', Ret v, w, sc')).
Proof.
  intros Hn. split; [|split].
  - unfold command. destruct (blocked s); [repeat eexists|].
    destruct (cmd_name (strip t)) as [nm|]; [|congruence].
    destruct (write_read (strip t) sc) as [[wr io] sc']. destruct io; destruct (startswith _ _) || idtac; repeat eexists.
  - unfold query. destruct (blocked s); [repeat eexists|].
    destruct (cmd_name (strip t)) as [nm|]; [|congruence].
    destruct (write_read (strip t) sc) as [[wr io] sc']. destruct io as [r|].
    + destruct (contains r (T "Err:") || negb (startswith r nm)); repeat eexists.
    + destruct (reboot_like nm); [destruct (contains [] (T "Err:") || negb (startswith [] nm))|]; repeat eexists.
  - unfold query_statusbyte. destruct (blocked s); [repeat eexists|].
    destruct (write_ok sc) as [wok sc1]. destruct wok; cbn [negb]; [|repeat eexists].
    destruct (readline sc1) as [[r0|] sc2]; [|repeat eexists].
    destruct (contains (strip r0) (T "Err:")); [repeat eexists|].
    destruct (negb (startswith (strip r0) (T "QG")) && fix_status c); repeat eexists.
Qed.

(* ---------- attribution: against a conforming device each reply is consumed by the request that caused it ---------- *)
(* a request text with its name and the reply the device sends for it *)
Record exchange := mkex { x_query : bool; x_text : text; x_name : text; x_reply : text }.
Definition ex_ok (e : exchange) : Prop :=
  cmd_name (strip (x_text e)) = Some (x_name e) /\ good_reply (x_name e) (strip (x_reply e)) = true /\ strip (x_reply e) <> [].
Definition device (es : list exchange) : script := flat_map (fun e => [Empty; Line (x_reply e)]) es.
Definition ex_call (e : exchange) : call := if x_query e then CQuery (x_text e) else CCommand (x_text e).
Definition ex_result (e : exchange) : rv := if x_query e then RStr (payload (x_name e) (strip (x_reply e))) else RBool true.

Lemma reads26_line l t : strip l <> [] -> reads26 (Line l :: t) = (RLine (strip l), t).
Proof. intros H. unfold reads26. cbn [readline]. destruct (strip l) as [|c r] eqn:E; [congruence|]. apply retry_nonempty. Qed.

Theorem conforming_attribution c : forall es s rest, Forall ex_ok es -> blocked s = false ->
  Forall2 (fun e ent => let '(pre, k, post, o, w) := ent in
             pre = s /\ post = s /\ k = ex_call e /\ o = Ret (ex_result e) /\ w = [strip (x_text e)])
          es (run c s (device es ++ rest) (map ex_call es)).
Proof.
  induction es as [|e es IH]; intros s rest Hok B; [constructor|].
  inversion Hok as [|e' es' (Hn & Hg & Hne) Hrest]; subst.
  assert (Hnone : err s = None).
  { unfold blocked in B. apply orb_false_iff in B. destruct B as [_ B]. destruct (err s); [discriminate|reflexivity]. }
  assert (Hnm : x_name e <> []).
  { destruct (strip (x_text e)) as [|a [|b t]]; cbn in Hn; try discriminate; [|destruct (b =? 44)]; injection Hn as <-; discriminate. }
  assert (DC : device (e :: es) ++ rest = Empty :: Line (x_reply e) :: device es ++ rest) by reflexivity.
  rewrite DC. cbn [map run].
  change (step c s (ex_call e)) with (step c s (if x_query e then CQuery (x_text e) else CCommand (x_text e))).
  destruct (x_query e) eqn:Q; cbn [step].
  - pose proof (query_unfold s (x_text e) (Empty :: Line (x_reply e) :: device es ++ rest) _ _ _ _ _ B eq_refl Hn eq_refl (reads26_line _ _ Hne)) as U.
    rewrite U. unfold lift_otext.
    destruct (query_result_spec s (x_name e) (RLine (strip (x_reply e))) Hnone Hnm) as (A1 & A2 & A3).
    assert (P : snd (query_result s (x_name e) (RLine (strip (x_reply e)))) = Some (payload (x_name e) (strip (x_reply e)))).
    { apply A1. eexists. repeat split. exact Hg. }
    assert (S' : fst (query_result s (x_name e) (RLine (strip (x_reply e)))) = s) by (apply A2; rewrite P; discriminate).
    rewrite P, S'. constructor.
    + repeat split; unfold ex_call, ex_result; rewrite ?Q; reflexivity.
    + apply IH; assumption.
  - pose proof (command_unfold s (x_text e) (Empty :: Line (x_reply e) :: device es ++ rest) _ _ _ _ _ B eq_refl Hn eq_refl (reads26_line _ _ Hne)) as U.
    rewrite U. unfold lift_bool.
    assert (G : err_free (command_result s (x_name e) (RLine (strip (x_reply e)))) = true /\ command_result s (x_name e) (RLine (strip (x_reply e))) = s).
    { unfold command_result. unfold good_reply in Hg. apply andb_true_iff in Hg. destruct Hg as [G1 G2]. rewrite G1.
      apply negb_true_iff in G2. rewrite G2. unfold err_free. rewrite Hnone. split; reflexivity. }
    destruct G as [G1 G2]. rewrite G1, G2. constructor.
    + repeat split; unfold ex_call, ex_result; rewrite ?Q; reflexivity.
    + apply IH; assumption.
Qed.
