From Plotink Require Import Base.Prelude Spec.Firmware Spec.LmSpec Spec.LmCheck Model.EbbCalc Proofs.EbbCalcProofs Proofs.EbbClosed.
Open Scope Z_scope.

Definition rt (r0 a k : Z) := r0 + a * k.
Definition tri (k : Z) := k * (k + 1) / 2.

Lemma tri_step k : 0 <= k -> tri (k + 1) = tri k + (k + 1).
Proof.
  intros Hk. unfold tri.
  assert (exists q, k * (k + 1) = 2 * q) as [q Hq].
  { destruct (Z.Even_or_Odd k) as [[h ->]|[h ->]]; [exists (h * (2 * h + 1))|exists ((2 * h + 1) * (h + 1))]; ring. }
  replace ((k + 1) * (k + 1 + 1)) with (2 * (q + (k + 1))) by lia. rewrite Hq.
  rewrite !(Z.mul_comm 2), !Z.div_mul by lia. lia.
Qed.
Lemma S_step r0 a acc k : 0 <= k -> ctotal r0 a acc (k + 1) = ctotal r0 a acc k + rt r0 a (k + 1).
Proof. intros. unfold ctotal, rt. fold (tri (k + 1)). fold (tri k). rewrite tri_step by lia. ring. Qed.

(* the tick-by-tick total is the closed form *)
Lemma lm_total_closed r0 a acc n : lm_total r0 a acc n = ctotal r0 a acc (Z.of_nat n).
Proof. unfold lm_total, ctotal. rewrite lt_ticks_closed. cbn [snd]. rewrite tri_div. ring. Qed.
Lemma lm_pos_closed r0 a acc n : lm_pos r0 a acc n = cpos r0 a acc (Z.of_nat n).
Proof. unfold lm_pos, cpos. rewrite lm_total_closed. reflexivity. Qed.

(* variation of the position over ticks m+1 .. m+n *)
Fixpoint Vseg (r0 a acc m : Z) (n : nat) : Z :=
  match n with
  | O => 0
  | S n' => Vseg r0 a acc m n' + Z.abs (cpos r0 a acc (m + Z.of_nat n' + 1) - cpos r0 a acc (m + Z.of_nat n'))
  end.
Lemma lm_steps_Vseg r0 a acc n : lm_steps r0 a acc n = Vseg r0 a acc 0 n.
Proof.
  induction n as [|n IH]; [reflexivity|]. cbn [lm_steps Vseg]. rewrite IH, !lm_pos_closed.
  rewrite Nat2Z.inj_succ. unfold Z.succ. rewrite Z.add_0_l. reflexivity.
Qed.
Lemma Vseg_nonneg r0 a acc m n : 0 <= Vseg r0 a acc m n.
Proof. induction n; cbn [Vseg]; lia. Qed.
Lemma Vseg_app r0 a acc m n1 n2 : Vseg r0 a acc m (n1 + n2) = Vseg r0 a acc m n1 + Vseg r0 a acc (m + Z.of_nat n1) n2.
Proof.
  induction n2 as [|n2 IH].
  - rewrite Nat.add_0_r. cbn [Vseg]. lia.
  - rewrite Nat.add_succ_r. cbn [Vseg]. rewrite IH. rewrite Nat2Z.inj_add.
    replace (m + (Z.of_nat n1 + Z.of_nat n2) + 1) with (m + Z.of_nat n1 + Z.of_nat n2 + 1) by lia.
    replace (m + (Z.of_nat n1 + Z.of_nat n2)) with (m + Z.of_nat n1 + Z.of_nat n2) by lia. lia.
Qed.
Lemma Vseg_mono r0 a acc m n1 n2 : (n1 <= n2)%nat -> Vseg r0 a acc m n1 <= Vseg r0 a acc m n2.
Proof. intros H. replace n2 with (n1 + (n2 - n1))%nat by lia. rewrite Vseg_app. pose proof (Vseg_nonneg r0 a acc (m + Z.of_nat n1) (n2 - n1)). lia. Qed.

Lemma pos_mono_up r0 a acc k : 0 <= k -> 0 <= rt r0 a (k + 1) -> cpos r0 a acc k <= cpos r0 a acc (k + 1).
Proof. intros Hk Hr. unfold cpos. rewrite S_step by lia. apply Z.div_le_mono; [reflexivity|lia]. Qed.
Lemma pos_mono_down r0 a acc k : 0 <= k -> rt r0 a (k + 1) <= 0 -> cpos r0 a acc (k + 1) <= cpos r0 a acc k.
Proof. intros Hk Hr. unfold cpos. rewrite S_step by lia. apply Z.div_le_mono; [reflexivity|lia]. Qed.

Lemma phase_up r0 a acc m n : 0 <= m -> (forall j, m < j <= m + Z.of_nat n -> 0 <= rt r0 a j) ->
  Vseg r0 a acc m n = cpos r0 a acc (m + Z.of_nat n) - cpos r0 a acc m.
Proof.
  intros Hm. induction n as [|n IH]; intros H.
  - cbn [Vseg]. replace (m + Z.of_nat 0) with m by lia. lia.
  - cbn [Vseg]. rewrite IH by (intros j Hj; apply H; lia).
    pose proof (pos_mono_up r0 a acc (m + Z.of_nat n) ltac:(lia) (H (m + Z.of_nat n + 1) ltac:(lia))).
    replace (m + Z.of_nat (S n)) with (m + Z.of_nat n + 1) by lia. lia.
Qed.
Lemma phase_down r0 a acc m n : 0 <= m -> (forall j, m < j <= m + Z.of_nat n -> rt r0 a j <= 0) ->
  Vseg r0 a acc m n = cpos r0 a acc m - cpos r0 a acc (m + Z.of_nat n).
Proof.
  intros Hm. induction n as [|n IH]; intros H.
  - cbn [Vseg]. replace (m + Z.of_nat 0) with m by lia. lia.
  - cbn [Vseg]. rewrite IH by (intros j Hj; apply H; lia).
    pose proof (pos_mono_down r0 a acc (m + Z.of_nat n) ltac:(lia) (H (m + Z.of_nat n + 1) ltac:(lia))).
    replace (m + Z.of_nat (S n)) with (m + Z.of_nat n + 1) by lia. lia.
Qed.

(* where the rate changes sign *)
Lemma krev_pos_spec r0 a : a < 0 -> forall j, (j <= r0 / (- a) -> 0 <= rt r0 a j) /\ (r0 / (- a) < j -> rt r0 a j < 0).
Proof.
  intros Ha j. unfold rt.
  pose proof (Z.div_mod r0 (- a) ltac:(lia)). pose proof (Z.mod_pos_bound r0 (- a) ltac:(lia)). split; intros; nia.
Qed.
Lemma krev_neg_spec r0 a : 0 < a -> forall j, (j <= (- r0) / a -> rt r0 a j <= 0) /\ ((- r0) / a < j -> 0 < rt r0 a j).
Proof.
  intros Ha j. unfold rt.
  pose proof (Z.div_mod (- r0) a ltac:(lia)). pose proof (Z.mod_pos_bound (- r0) a ltac:(lia)). split; intros; nia.
Qed.

(* the steps taken, in closed form, for every tick count *)
Theorem steps_closed r0 a acc n : Vseg r0 a acc 0 n = csteps r0 a acc (Z.of_nat n).
Proof.
  unfold csteps, krev. cbv zeta.
  destruct (a =? 0) eqn:Ea.
  { (* constant rate *)
    apply Z.eqb_eq in Ea. subst a. destruct (Z_le_gt_dec 0 r0).
    - rewrite phase_up by (try lia; intros j _; unfold rt; lia). rewrite Z.add_0_l.
      pose proof (phase_up r0 0 acc 0 n ltac:(lia) ltac:(intros j _; unfold rt; lia)) as P. rewrite Z.add_0_l in P.
      pose proof (Vseg_nonneg r0 0 acc 0 n). lia.
    - rewrite phase_down by (try lia; intros j _; unfold rt; lia). rewrite Z.add_0_l.
      pose proof (phase_down r0 0 acc 0 n ltac:(lia) ltac:(intros j _; unfold rt; lia)) as P. rewrite Z.add_0_l in P.
      pose proof (Vseg_nonneg r0 0 acc 0 n). lia. }
  apply Z.eqb_neq in Ea.
  destruct ((0 <? r0 + a) || ((r0 + a =? 0) && (0 <? a))) eqn:Ei.
  - (* initial direction forward (weakly) *)
    assert (Hi : 0 < r0 + a \/ (r0 + a = 0 /\ 0 < a)).
    { apply orb_true_iff in Ei. destruct Ei as [E|E]; [left; apply Z.ltb_lt, E|right; apply andb_true_iff in E; destruct E as [E1 E2]; apply Z.eqb_eq in E1; apply Z.ltb_lt in E2; lia]. }
    destruct (0 <? a) eqn:Ep.
    + apply Z.ltb_lt in Ep.
      assert (U : forall j, 0 < j -> 0 <= rt r0 a j) by (intros j Hj; unfold rt; nia).
      pose proof (phase_up r0 a acc 0 n ltac:(lia) ltac:(intros j Hj; apply U; lia)) as P. rewrite Z.add_0_l in P.
      pose proof (Vseg_nonneg r0 a acc 0 n). lia.
    + apply Z.ltb_ge in Ep. assert (Ha : a < 0) by lia. assert (H1 : 0 < r0 + a) by lia.
      pose proof (krev_pos_spec r0 a Ha) as K. set (kr := r0 / (- a)) in *.
      assert (Hkr : 1 <= kr). { destruct (Z_lt_ge_dec kr 1); [|lia]. destruct (K 1) as [_ K2]. specialize (K2 ltac:(lia)). unfold rt in K2. lia. }
      rewrite Z.max_l by lia.
      destruct (Z.leb_spec (Z.of_nat n) kr) as [Hn|Hn].
      * pose proof (phase_up r0 a acc 0 n ltac:(lia) ltac:(intros j Hj; apply K; lia)) as P. rewrite Z.add_0_l in P.
        pose proof (Vseg_nonneg r0 a acc 0 n). lia.
      * replace n with (Z.to_nat kr + (n - Z.to_nat kr))%nat by lia. rewrite Vseg_app.
        pose proof (phase_up r0 a acc 0 (Z.to_nat kr) ltac:(lia) ltac:(intros j Hj; apply K; lia)) as P1.
        pose proof (phase_down r0 a acc (0 + Z.of_nat (Z.to_nat kr)) (n - Z.to_nat kr) ltac:(lia)
                      ltac:(intros j Hj; assert (rt r0 a j < 0) by (apply K; lia); lia)) as P2.
        pose proof (Vseg_nonneg r0 a acc 0 (Z.to_nat kr)). pose proof (Vseg_nonneg r0 a acc (0 + Z.of_nat (Z.to_nat kr)) (n - Z.to_nat kr)).
        rewrite !Z2Nat.id in * by lia. rewrite !Z.add_0_l in *.
        replace (kr + Z.of_nat (n - Z.to_nat kr)) with (Z.of_nat (Z.to_nat kr + (n - Z.to_nat kr))) in P2 by lia. lia.
  - (* initial direction backward (weakly) *)
    assert (Hi : r0 + a < 0 \/ (r0 + a = 0 /\ a < 0)).
    { apply orb_false_iff in Ei. destruct Ei as [E1 E2]. apply Z.ltb_ge in E1. apply andb_false_iff in E2.
      destruct E2 as [E2|E2]; [apply Z.eqb_neq in E2; lia|apply Z.ltb_ge in E2; lia]. }
    destruct (a <? 0) eqn:En.
    + apply Z.ltb_lt in En.
      assert (U : forall j, 0 < j -> rt r0 a j <= 0) by (intros j Hj; unfold rt; nia).
      pose proof (phase_down r0 a acc 0 n ltac:(lia) ltac:(intros j Hj; apply U; lia)) as P. rewrite Z.add_0_l in P.
      pose proof (Vseg_nonneg r0 a acc 0 n). lia.
    + apply Z.ltb_ge in En. assert (Ha : 0 < a) by lia. assert (H1 : r0 + a < 0) by lia.
      pose proof (krev_neg_spec r0 a Ha) as K. set (kr := (- r0) / a) in *.
      assert (Hkr : 1 <= kr). { destruct (Z_lt_ge_dec kr 1); [|lia]. destruct (K 1) as [_ K2]. specialize (K2 ltac:(lia)). unfold rt in K2. lia. }
      rewrite Z.max_l by lia.
      destruct (Z.leb_spec (Z.of_nat n) kr) as [Hn|Hn].
      * pose proof (phase_down r0 a acc 0 n ltac:(lia) ltac:(intros j Hj; apply K; lia)) as P. rewrite Z.add_0_l in P.
        pose proof (Vseg_nonneg r0 a acc 0 n). lia.
      * replace n with (Z.to_nat kr + (n - Z.to_nat kr))%nat by lia. rewrite Vseg_app.
        pose proof (phase_down r0 a acc 0 (Z.to_nat kr) ltac:(lia) ltac:(intros j Hj; apply K; lia)) as P1.
        pose proof (phase_up r0 a acc (0 + Z.of_nat (Z.to_nat kr)) (n - Z.to_nat kr) ltac:(lia)
                      ltac:(intros j Hj; assert (0 < rt r0 a j) by (apply K; lia); lia)) as P2.
        pose proof (Vseg_nonneg r0 a acc 0 (Z.to_nat kr)). pose proof (Vseg_nonneg r0 a acc (0 + Z.of_nat (Z.to_nat kr)) (n - Z.to_nat kr)).
        rewrite !Z2Nat.id in * by lia. rewrite !Z.add_0_l in *.
        replace (kr + Z.of_nat (n - Z.to_nat kr)) with (Z.of_nat (Z.to_nat kr + (n - Z.to_nat kr))) in P2 by lia. lia.
Qed.

(* "first tick that reaches the budget" only needs the two neighbouring tick counts *)
Lemma first_reach_iff r0 a acc budget n : (1 <= n)%nat ->
  ((budget <= Vseg r0 a acc 0 n /\ forall k, (k < n)%nat -> Vseg r0 a acc 0 k < budget) <->
   (budget <= Vseg r0 a acc 0 n /\ Vseg r0 a acc 0 (n - 1) < budget)).
Proof.
  intros Hn. split.
  - intros [H1 H2]. split; [exact H1|apply H2; lia].
  - intros [H1 H2]. split; [exact H1|]. intros k Hk. pose proof (Vseg_mono r0 a acc 0 k (n - 1) ltac:(lia)). lia.
Qed.

(* ---------- the checker decides the specification, for all integers ---------- *)
Theorem lm_check_iff_spec steps rate accel accum T p c :
  lm_check steps rate accel accum T p c = true <-> lm_spec steps rate accel accum T p c.
Proof.
  unfold lm_check, lm_spec. destruct (lm_normalise steps rate accel accum) as [[[[budget r0] a] acc]|].
  2:{ rewrite !andb_true_iff, !Z.eqb_eq. tauto. }
  rewrite !andb_true_iff, !Z.leb_le, Z.ltb_lt, !Z.eqb_eq. split.
  - intros ((((HT & H1) & H2) & Hp) & Hc). exists (Z.to_nat T).
    assert (ET : Z.of_nat (Z.to_nat T) = T) by lia.
    split; [lia|]. split; [lia|].
    rewrite lm_steps_Vseg, lm_pos_closed, lm_total_closed, ET.
    assert (F : budget <= Vseg r0 a acc 0 (Z.to_nat T) /\ Vseg r0 a acc 0 (Z.to_nat T - 1) < budget).
    { rewrite !steps_closed, ET. replace (Z.of_nat (Z.to_nat T - 1)) with (T - 1) by lia. split; assumption. }
    apply first_reach_iff in F; [|lia]. destruct F as [F1 F2].
    split; [exact F1|]. split; [intros k Hk; rewrite lm_steps_Vseg; apply F2, Hk|]. split; assumption.
  - intros (n & ET & Hn & H1 & H2 & Hp & Hc). subst T.
    rewrite lm_steps_Vseg in H1. rewrite lm_pos_closed in Hp. rewrite lm_total_closed in Hc.
    assert (F : budget <= Vseg r0 a acc 0 n /\ Vseg r0 a acc 0 (n - 1) < budget).
    { split; [exact H1|]. specialize (H2 (n - 1)%nat ltac:(lia)). rewrite lm_steps_Vseg in H2. exact H2. }
    destruct F as [F1 F2]. rewrite !steps_closed in F1, F2. replace (Z.of_nat (n - 1)) with (Z.of_nat n - 1) in F2 by lia.
    repeat split; try assumption; lia.
Qed.

(* ---------- consequences of a correct answer ---------- *)
Definition lt_closed' (rate accel T : Z) (acc0 : option Z) : Z * Z :=
  let r0 := lt_start rate accel in
  let c := match acc0 with Some c => c | None => lt_clear r0 accel end in
  let tot := c + T * r0 + accel * (T * (T + 1) / 2) in (tot / B31, tot mod B31).
(* for a forward request (steps > 0): the accumulator is in [0, 2^31) and the timed-move recurrence run for the reported
   duration ends at the reported position and accumulator *)
Theorem lm_consequence steps rate accel accum T p c : 0 < steps ->
  lm_check steps rate accel accum T p c = true ->
  (T = 0 /\ p = 0 /\ c = 0) \/ (1 <= T /\ 0 <= c < B31 /\ lt_closed' rate accel T accum = (p, c)).
Proof.
  intros Hs. unfold lm_check, lm_normalise.
  destruct ((steps =? 0) || ((rate =? 0) && (accel =? 0))); [rewrite !andb_true_iff, !Z.eqb_eq; intros [[A B] C]; left; tauto|].
  assert (E : (steps <? 0) = false) by (apply Z.ltb_ge; lia). rewrite E. cbn [andb].
  rewrite !andb_true_iff, !Z.leb_le, Z.ltb_lt, !Z.eqb_eq. intros ((((HT & _) & _) & Hp) & Hc). right.
  split; [exact HT|]. split; [subst c; apply Z.mod_pos_bound; reflexivity|].
  unfold lt_closed'. unfold cpos, ctotal in *. subst p c. f_equal; f_equal; ring.
Qed.

(* requests that cannot move *)
Theorem lm_invalid steps rate accel accum :
  (steps = 0 \/ (rate = 0 /\ accel = 0) \/ (steps < 0 /\ rate < 0)) ->
  forall T p c, lm_spec steps rate accel accum T p c <-> (T = 0 /\ p = 0 /\ c = 0).
Proof.
  intros H T p c. unfold lm_spec, lm_normalise.
  destruct ((steps =? 0) || ((rate =? 0) && (accel =? 0))) eqn:E1; [reflexivity|].
  destruct ((steps <? 0) && (rate <? 0)) eqn:E2; [reflexivity|]. exfalso.
  apply orb_false_iff in E1. destruct E1 as [A B]. apply Z.eqb_neq in A. apply andb_false_iff in B, E2.
  destruct H as [H|[[H1 H2]|[H1 H2]]]; [lia| |].
  - destruct B as [B|B]; apply Z.eqb_neq in B; lia.
  - destruct E2 as [E|E]; apply Z.ltb_ge in E; lia.
Qed.
