From Plotink Require Import Base.Prelude Model.Simplify.
From Coq Require Import Arith.
Open Scope Q_scope.

(* ================= supersample: reduction relation, generic in the nearness predicate ================= *)
Section Red.
Variable V : Type.
Variable nearV : V -> V -> V -> bool.
Variable dflt : V.

(* the output keeps the head, and between consecutive survivors a, b every deleted vertex is near a-b *)
Inductive Red : list V -> list V -> Prop :=
| Red_one x : Red [x] [x]
| Red_step a dels b tl out : Forall (fun p => nearV a b p = true) dels -> Red (b :: tl) out -> Red (a :: dels ++ b :: tl) (a :: out).

Lemma Red_refl l x : Red (x :: l) (x :: l).
Proof. revert x. induction l as [|y l IH]; intros x; [constructor|]. apply (Red_step x [] y l). constructor. apply IH. Qed.

Lemma inner_spec fuel s rest k : (2 <= k)%nat -> (k = 2%nat \/ (pit_slice V nearV dflt s rest (k-1) = true /\ (k-1 <= length rest)%nat)) ->
  let k' := inner V nearV dflt fuel s rest k in
  (2 <= k')%nat /\ (k' = 2%nat \/ (pit_slice V nearV dflt s rest (k'-1) = true /\ (k'-1 <= length rest)%nat)).
Proof.
  revert k. induction fuel as [|f IH]; intros k Hk Hp; cbn [inner]; [tauto|].
  destruct (pit_slice V nearV dflt s rest k && (k <=? length rest)%nat) eqn:E; [|tauto].
  apply andb_true_iff in E. destruct E as [E1 E2]. apply Nat.leb_le in E2.
  apply IH; [lia|]. right. replace (S k - 1)%nat with k by lia. tauto.
Qed.
Lemma skipn_nth_cons {A} (l : list A) n d : (n < length l)%nat -> skipn n l = nth n l d :: skipn (S n) l.
Proof. revert n. induction l as [|x l IH]; intros n H; cbn in H; [lia|]. destruct n; cbn; [reflexivity|]. apply IH. lia. Qed.

Theorem outer_Red : forall fuel s rest, (length rest <= fuel)%nat -> Red (s :: rest) (outer V nearV dflt fuel s rest).
Proof.
  induction fuel as [|f IH]; intros s rest Hf.
  - cbn. apply Red_refl.
  - cbn [outer]. destruct (length rest <? 2)%nat eqn:E; [apply Red_refl|]. apply Nat.ltb_ge in E.
    pose proof (inner_spec (length rest) s rest 2 (le_n 2) (or_introl eq_refl)) as [K1 K2].
    set (k := inner V nearV dflt (length rest) s rest 2) in *.
    destruct (skipn (k-2) rest) as [|s' rest'] eqn:S; [apply Red_refl|].
    assert (Hlen : (k - 2 < length rest)%nat).
    { destruct (Nat.lt_ge_cases (k-2) (length rest)); [assumption|]. rewrite skipn_all2 in S by lia. discriminate. }
    rewrite (skipn_nth_cons rest (k-2) dflt Hlen) in S. injection S as Hs Hr. subst s' rest'.
    rewrite <- (firstn_skipn (k-2) rest) at 1. rewrite (skipn_nth_cons rest (k-2) dflt Hlen).
    apply Red_step.
    + destruct K2 as [->|[P L]]; [cbn; constructor|].
      unfold pit_slice in P. rewrite Nat.min_l in P by lia. replace (k-1-1)%nat with (k-2)%nat in P by lia.
      rewrite forallb_forall in P. apply Forall_forall. exact P.
    + apply IH. change (length (skipn (S (k-2)) rest) <= f)%nat. rewrite skipn_length. lia.
Qed.

Theorem supersample_Red v b : v <> [] -> Red v (supersample V nearV dflt v b).
Proof.
  destruct v as [|s rest]; [congruence|]. intros _. unfold supersample.
  destruct (length (s :: rest) <=? 2)%nat; [apply Red_refl|].
  destruct b; [apply outer_Red; lia|apply Red_refl].
Qed.

(* lists of at most two vertices and non-positive tolerances are returned unchanged *)
Theorem supersample_unchanged v b : ((length v <= 2)%nat \/ b = false) -> supersample V nearV dflt v b = v.
Proof.
  intros H. destruct v as [|s rest]; [reflexivity|]. unfold supersample.
  destruct (length (s :: rest) <=? 2)%nat eqn:E; [reflexivity|].
  destruct H as [H| ->]; [apply Nat.leb_gt in E; lia|reflexivity].
Qed.

(* consequences of Red: same first and last vertex, in-order subsequence *)
Lemma Red_head l o : Red l o -> hd_error l = hd_error o.
Proof. destruct 1; reflexivity. Qed.
Lemma last_app_ne : forall (p q : list V) d, q <> [] -> last (p ++ q) d = last q d.
Proof.
  induction p as [|y p IHp]; intros q d Hq; [reflexivity|]. cbn [app].
  change (last (y :: p ++ q) d) with (match p ++ q with [] => y | _ => last (p ++ q) d end).
  destruct (p ++ q) eqn:Z; [destruct p; cbn in Z; congruence|]. rewrite <- Z. apply IHp, Hq.
Qed.
Lemma Red_last l o d : Red l o -> last l d = last o d.
Proof.
  induction 1 as [x|a dels b tl out F R IH]; [reflexivity|].
  change (a :: dels ++ b :: tl) with ((a :: dels) ++ b :: tl). rewrite last_app_ne by discriminate. rewrite IH.
  destruct out; [inversion R|reflexivity].
Qed.
Inductive sublist : list V -> list V -> Prop :=
| sub_nil : sublist [] []
| sub_keep x l o : sublist l o -> sublist (x :: l) (x :: o)
| sub_drop x l o : sublist l o -> sublist (x :: l) o.
Lemma sublist_app_drop dels l o : sublist l o -> sublist (dels ++ l) o.
Proof. induction dels; cbn; [tauto|]. intros H. apply sub_drop. apply IHdels, H. Qed.
Lemma Red_sublist l o : Red l o -> sublist l o.
Proof.
  induction 1 as [x|a dels b tl out F R IH]; [repeat constructor|].
  apply sub_keep. apply sublist_app_drop. exact IH.
Qed.
End Red.

(* ================= the distance predicate ================= *)
(* squared distance from p to the point of segment s0-s1 at parameter t *)
Definition d2_at (s0 s1 p : pt) (t : Q) : Q :=
  let '(ax, ay) := s0 in let '(bx, by_) := s1 in let '(px, py) := p in
  (px - (ax + t * (bx - ax))) * (px - (ax + t * (bx - ax))) + (py - (ay + t * (by_ - ay))) * (py - (ay + t * (by_ - ay))).
(* p is strictly closer than sqrt(tol2) to some point of the segment *)
Definition within (tol2 : Q) (s0 s1 p : pt) : Prop := exists t, 0 <= t <= 1 /\ d2_at s0 s1 p t < tol2.

Lemma sq_nonneg (x : Q) : 0 <= x * x.
Proof. nra. Qed.

Theorem near_iff_within tol2 s0 s1 p : near tol2 s0 s1 p = true <-> within tol2 s0 s1 p.
Proof.
  destruct s0 as [ax ay], s1 as [bx by_], p as [px py]. unfold near, within, d2_at.
  set (dx := bx - ax). set (dy := by_ - ay). set (ex := px - ax). set (ey := py - ay).
  set (dot := ex * dx + ey * dy). set (L := dx * dx + dy * dy).
  assert (HL : 0 <= L) by (unfold L; pose proof (sq_nonneg dx); pose proof (sq_nonneg dy); lra).
  (* f(t) = |e|^2 - 2 t dot + t^2 L *)
  assert (F : forall t, (px - (ax + t * dx)) * (px - (ax + t * dx)) + (py - (ay + t * dy)) * (py - (ay + t * dy))
                        == (ex * ex + ey * ey) - 2 * t * dot + t * t * L) by (intros t; unfold dot, L; unfold ex, ey; ring).
  destruct (Qleb dot 0) eqn:E1.
  - apply Qleb_iff in E1. rewrite negb_true_iff, Qleb_false. split.
    + intros H. exists 0. split; [lra|]. rewrite F. lra.
    + intros (t & Ht & H). rewrite F in H.
      assert (0 <= t * (- dot)) by (apply Qmult_le_0_compat; lra).
      assert (0 <= t * t * L) by (apply Qmult_le_0_compat; [apply sq_nonneg|exact HL]). lra.
  - apply Qleb_false in E1. destruct (Qleb L dot) eqn:E2.
    + apply Qleb_iff in E2. rewrite negb_true_iff, Qleb_false.
      assert (G : (px - bx) * (px - bx) + (py - by_) * (py - by_) == (ex * ex + ey * ey) - 2 * dot + L) by (unfold dot, L; unfold ex, ey, dx, dy; ring).
      split.
      * intros H. exists 1. split; [lra|]. rewrite F. lra.
      * intros (t & Ht & H). rewrite F in H. rewrite G.
        (* f(t) - f(1) = (1-t) (2 dot - (1+t) L) >= (1-t)^2 L >= 0 *)
        assert (0 <= (1 - t) * (2 * (dot - L) + (1 - t) * L)).
        { apply Qmult_le_0_compat; [lra|]. assert (0 <= (1 - t) * L) by (apply Qmult_le_0_compat; lra). lra. }
        assert (E : (ex * ex + ey * ey) - 2 * t * dot + t * t * L - ((ex * ex + ey * ey) - 2 * dot + L) == (1 - t) * (2 * (dot - L) + (1 - t) * L)) by ring.
        lra.
    + apply Qleb_false in E2.
      assert (Lpos : 0 < L) by lra.
      assert (EL : Qeqb L 0 = false) by (apply Qeqb_false; lra). rewrite EL.
      rewrite negb_true_iff, Qleb_false.
      set (cr := ex * dy - dx * ey).
      (* Lagrange: |e|^2 L - dot^2 = cross^2 *)
      assert (Lag : (ex * ex + ey * ey) * L - dot * dot == cr * cr) by (unfold L, dot, cr; ring).
      assert (Min : forall t, (ex * ex + ey * ey) - 2 * t * dot + t * t * L == cr * cr / L + L * ((t - dot / L) * (t - dot / L))).
      { intros t. setoid_replace (cr * cr) with ((ex * ex + ey * ey) * L - dot * dot) by (symmetry; exact Lag). field. lra. }
      split.
      * intros H. exists (dot / L). split.
        { split; [apply Qle_shift_div_l; lra|apply Qle_shift_div_r; lra]. }
        rewrite F, Min. setoid_replace (dot / L - dot / L) with 0 by ring. lra.
      * intros (t & Ht & H). rewrite F, Min in H.
        assert (0 <= L * ((t - dot / L) * (t - dot / L))) by (apply Qmult_le_0_compat; [lra|apply sq_nonneg]). lra.
Qed.

(* points_in_tolerance: every interior point is within tolerance of the chord first-last *)
Theorem pit_iff first interior lst tol : 
  points_in_tolerance (first :: interior ++ [lst]) tol = true <->
  Forall (within (tol * tol) first lst) interior.
Proof.
  unfold points_in_tolerance.
  assert (E1 : last (interior ++ [lst]) first = lst) by (apply last_last).
  assert (E2 : removelast (interior ++ [lst]) = interior) by (apply removelast_last).
  rewrite E1, E2. rewrite forallb_forall, Forall_forall. split; intros H x Hx; apply near_iff_within, H, Hx.
Qed.
