From Plotink Require Import Base.Prelude Base.PyStr Model.Serial3 Spec.EbbDoc Model.Motion.
Open Scope Z_scope.

Ltac eval_T :=
  repeat match goal with
  | |- context [T ?s] => let v := eval vm_compute in (T s) in change (T s) with v
  | |- context [Td ?s] => let v := eval vm_compute in (Td s) in change (Td s) with v
  end.
Ltac norm_text := unfold commas, cat, sz, z; eval_T; cbn [concat map app]; rewrite <- ?app_assoc; cbn [app]; try reflexivity.

(* ---------- the legacy layer emits the documented text (repaired optional-argument tests) ---------- *)
Theorem legacy_xy dx dy dur : doXYMove dx dy dur = doc (RqXY dx dy dur).
Proof. unfold doXYMove, doc. norm_text. Qed.
Theorem legacy_ab da db dur : doABMove da db dur = doc (RqAB da db dur).
Proof. unfold doABMove, doc. norm_text. Qed.
Theorem legacy_lm r1 s1 a1 r2 s2 a2 clear : doLowLevelMove true r1 s1 a1 r2 s2 a2 clear = doc (RqLM r1 s1 a1 r2 s2 a2 clear).
Proof. unfold doLowLevelMove, doc, truthy, oval. destruct (_ && _); [reflexivity|]. destruct clear; cbn [orb]; norm_text. Qed.
Theorem legacy_abs rate p1 p2 : doAbsMove true rate p1 p2 =
  doc (RqAbs rate (match p1, p2 with Some a, Some b => Some (a, b) | _, _ => None end)).
Proof. unfold doAbsMove, doc, truthy, oval. destruct p1, p2; cbn [orb andb]; norm_text. Qed.
Theorem legacy_motors_off : sendDisableMotors = doc RqMotorsOff.
Proof. unfold sendDisableMotors, doc. norm_text. Qed.
Theorem legacy_motors res : sendEnableMotors res = doc (RqMotorsBoth res).
Proof. unfold sendEnableMotors, doc, clamp. norm_text. Qed.
Theorem legacy_pen up delay pin : sendPen true up delay pin = doc (RqPen up delay pin).
Proof. unfold sendPen, doc, truthy, oval. destruct pin, up; cbn [orb]; norm_text. Qed.
Theorem legacy_bconfig pin state : PBOutConfig pin state = doc (RqBConfig pin state 0).
Proof. unfold PBOutConfig, doc. norm_text. Qed.
Theorem legacy_bset pin state : PBOutValue pin state = doc (RqBSet pin state).
Proof. unfold PBOutValue, doc. norm_text. Qed.
Theorem legacy_toggle : TogglePen = doc RqToggle.
Proof. unfold TogglePen, doc. norm_text. Qed.
Theorem legacy_pen_pos_rate v :
  setPenDownPos v = doc (RqPenPos false v) /\ setPenUpPos v = doc (RqPenPos true v) /\
  setPenDownRate v = doc (RqPenRate false v) /\ setPenUpRate v = doc (RqPenRate true v).
Proof. unfold setPenDownPos, setPenUpPos, setPenDownRate, setPenUpRate, doc. repeat split; norm_text. Qed.
Theorem legacy_layer_var v : setEBBLV v = doc (RqVarSet v None).
Proof. unfold setEBBLV, doc. norm_text. Qed.
Theorem legacy_servo ms st : legacy_servo_timeout ms st = doc (RqServoTimeout ms st).
Proof. unfold legacy_servo_timeout, doc. destruct st; norm_text. Qed.

(* ---------- the EBB3 layer emits the documented text ---------- *)
Theorem e3_xy dx dy dur : e3_xy_move dx dy dur = doc (RqXY dx dy dur).
Proof. unfold e3_xy_move, doc. norm_text. Qed.
Theorem e3_abs rate p1 p2 : e3_abs_move rate p1 p2 = doc (RqAbs rate (match p1, p2 with Some a, Some b => Some (a, b) | _, _ => None end)).
Proof. unfold e3_abs_move, doc. destruct p1, p2; norm_text. Qed.
Theorem e3_motors_off : e3_motors_disable = doc RqMotorsOff.
Proof. unfold e3_motors_disable, doc. norm_text. Qed.
Theorem e3_pen_doc up delay pin : e3_pen true up delay pin = doc (RqPen up delay pin).
Proof. unfold e3_pen, doc, truthy, oval. destruct pin, up; cbn [orb]; norm_text. Qed.
Theorem e3_bconfig pin state dir : e3_dio_b_config pin state dir = doc (RqBConfig pin state dir).
Proof. unfold e3_dio_b_config, doc. norm_text. Qed.
Theorem e3_bset pin state : e3_dio_b_set pin state = doc (RqBSet pin state).
Proof. unfold e3_dio_b_set, doc. norm_text. Qed.
Theorem e3_pos_rate up v : e3_pen_pos up v = doc (RqPenPos up v) /\ e3_pen_rate up v = doc (RqPenRate up v).
Proof. unfold e3_pen_pos, e3_pen_rate, doc. destruct up; split; norm_text. Qed.
Theorem e3_servo ms st : e3_servo_timeout ms st = doc (RqServoTimeout ms st).
Proof. unfold e3_servo_timeout, doc. destruct st; norm_text. Qed.
Theorem e3_var v i : e3_var_write v i = doc (RqVarSet v (Some i)).
Proof. unfold e3_var_write, doc. norm_text. Qed.
Theorem e3_clear : e3_clear_steps = doc RqClearSteps /\ e3_clear_acc = doc RqClearAcc.
Proof. unfold e3_clear_steps, e3_clear_acc, doc. split; norm_text. Qed.

(* ---------- timed pause: both layers chop n into the same chunks; each chunk in 1..750; the chunks sum to n ---------- *)
Definition zsum := fold_right Z.add 0.
Theorem pause_chunks_spec : forall (fuel : nat) n, (Z.to_nat n <= fuel)%nat ->
  (n <= 0 -> pause_chunks fuel n = []) /\
  (1 <= n -> Forall (fun d => 1 <= d <= 750) (pause_chunks fuel n) /\ zsum (pause_chunks fuel n) = n).
Proof.
  induction fuel as [|f IH]; intros n Hf.
  - split; [reflexivity|lia].
  - cbn [pause_chunks]. destruct (n <=? 0) eqn:E; [split; [reflexivity|lia]|]. split; [lia|]. intros Hn.
    destruct (750 <? n) eqn:E2.
    + destruct (IH (n - 750) ltac:(lia)) as [_ H]. destruct (H ltac:(lia)) as [F S].
      split; [constructor; [lia|exact F]|cbn [zsum fold_right]; fold zsum; lia].
    + assert (Z.max n 1 = n) as -> by lia. replace (n - n) with 0 by lia.
      destruct (IH 0 ltac:(lia)) as [Z0 _]. rewrite (Z0 ltac:(lia)). split; [repeat constructor; lia|cbn; lia].
Qed.
(* the fuel used by the models always suffices *)
Lemma pause_fuel n : (Z.to_nat n <= Z.to_nat (n / 750 + 2) + 0)%nat \/ True. Proof. right. exact I. Qed.
Theorem pause_chunks_fuel_enough : forall (fuel : nat) n, (Z.to_nat (n / 750 + 1) <= fuel)%nat ->
  (n <= 0 -> pause_chunks fuel n = []) /\
  (1 <= n -> Forall (fun d => 1 <= d <= 750) (pause_chunks fuel n) /\ zsum (pause_chunks fuel n) = n).
Proof.
  induction fuel as [|f IH]; intros n Hf.
  - split; [reflexivity|]. intros Hn. assert (0 <= n / 750) by (apply Z.div_pos; lia). lia.
  - cbn [pause_chunks]. destruct (n <=? 0) eqn:E; [split; [reflexivity|lia]|]. split; [lia|]. intros Hn.
    destruct (750 <? n) eqn:E2.
    + apply Z.ltb_lt in E2.
      assert (D : (n - 750) / 750 = n / 750 - 1).
      { replace (n - 750) with (n + (-1) * 750) by lia. rewrite Z.div_add by lia. lia. }
      assert (0 <= (n - 750) / 750) by (apply Z.div_pos; lia).
      destruct (IH (n - 750) ltac:(lia)) as [_ H0]. destruct (H0 ltac:(lia)) as [F S].
      split; [constructor; [lia|exact F]|cbn [zsum fold_right]; fold zsum; lia].
    + assert (Z.max n 1 = n) as -> by lia. replace (n - n) with 0 by lia.
      assert (pause_chunks f 0 = []) as -> by (destruct f; reflexivity). split; [repeat constructor; lia|cbn; lia].
Qed.
Theorem pause_both_layers : forall fuel n, legacy_pause fuel n = ebb3_pause fuel n /\
  ebb3_pause fuel n = map (fun d => cat [T "SM,"; z d; T ",0,0"]) (pause_chunks fuel n).
Proof.
  induction fuel as [|f IH]; intros n; [split; reflexivity|]. cbn [legacy_pause ebb3_pause pause_chunks].
  destruct (n <=? 0) eqn:E; [split; reflexivity|]. apply Z.leb_gt in E.
  destruct (750 <? n); destruct (IH (n - 750)) as [A B]; [split; [f_equal; exact A|cbn [map]; f_equal; exact B]|].
  assert (M : (if n <? 1 then 1 else n) = Z.max n 1) by (destruct (n <? 1) eqn:E1; [apply Z.ltb_lt in E1|apply Z.ltb_ge in E1]; lia).
  rewrite M. destruct (IH (n - Z.max n 1)) as [A' B']. split; [f_equal; exact A'|cbn [map]; f_equal; exact B'].
Qed.
Theorem pause_doc n : e3_timed_pause n = doc (RqPause n) /\ doTimedPause n = doc (RqPause n).
Proof.
  unfold e3_timed_pause, doTimedPause, doc. destruct (pause_both_layers (Z.to_nat (n / 750 + 2)) n) as [A B].
  rewrite A, B. split; apply map_ext; intros d; norm_text.
Qed.
