(* C13: the grid invariant through construction and removals, and nearest() over the live path ends. *)
From Plotink Require Import Base.Prelude Model.Grid Proofs.GridProofs.
From Coq Require Import Arith.
Open Scope Z_scope.

Definition dpath : path := ((0, 0), (0, 0))%Q.

(* ---------- the ends the constructor inserts: which (id, point) pairs, distinct ids ---------- *)
Definition ends_gen (reverse : bool) (n k : nat) (vs : list path) : list (nat * pt) :=
  flat_map (fun ip : nat * path => let '(i, p) := ip in if reverse then [(i, fst p); ((n + i)%nat, snd p)] else [(i, fst p)])
           (combine (seq k (length vs)) vs).
Lemma ends_of_gen vs reverse : ends_of vs reverse = ends_gen reverse (length vs) 0 vs.
Proof. reflexivity. Qed.
Lemma ends_gen_cons reverse n k v vs :
  ends_gen reverse n k (v :: vs) = (if reverse then [(k, fst v); ((n + k)%nat, snd v)] else [(k, fst v)]) ++ ends_gen reverse n (S k) vs.
Proof. reflexivity. Qed.

Lemma ends_gen_in reverse n vs : forall k id p, In (id, p) (ends_gen reverse n k vs) <->
  exists j, (j < length vs)%nat /\
            ((id = (k + j)%nat /\ p = fst (nth j vs dpath)) \/ (reverse = true /\ id = (n + (k + j))%nat /\ p = snd (nth j vs dpath))).
Proof.
  induction vs as [|v vs IH]; intros k id p.
  - cbn. split; [contradiction|]. intros (j & Hj & _). lia.
  - rewrite ends_gen_cons, in_app_iff, IH. split.
    + intros [H | (j & Hj & H)].
      * exists 0%nat. split; [cbn; lia|]. rewrite Nat.add_0_r. cbn [nth].
        destruct reverse; cbn in H.
        -- destruct H as [H | [H | []]]; injection H as <- <-; [left|right]; auto.
        -- destruct H as [H | []]; injection H as <- <-. left; auto.
      * exists (S j). split; [cbn; lia|]. cbn [nth]. replace (k + S j)%nat with (S k + j)%nat by lia. exact H.
    + intros (j & Hj & H). destruct j as [|j].
      * left. rewrite Nat.add_0_r in H. cbn [nth] in H. destruct H as [[-> ->] | (-> & -> & ->)]; [destruct reverse|]; cbn; auto.
      * right. exists j. split; [cbn in Hj; lia|]. cbn [nth] in H. replace (k + S j)%nat with (S k + j)%nat in H by lia. exact H.
Qed.

Lemma ends_gen_nodup reverse n vs : forall k, (k + length vs <= n)%nat -> NoDup (map fst (ends_gen reverse n k vs)).
Proof.
  induction vs as [|v vs IH]; intros k Hk; [constructor|].
  rewrite ends_gen_cons. cbn [length] in Hk.
  assert (T : forall id, In id (map fst (ends_gen reverse n (S k) vs)) -> ((S k <= id < S k + length vs) \/ (n + S k <= id))%nat).
  { intros id Hid. apply in_map_iff in Hid. destruct Hid as ([id' p] & <- & Hin). cbn [fst].
    apply ends_gen_in in Hin. destruct Hin as (j & Hj & [[-> _] | (_ & -> & _)]); lia. }
  specialize (IH (S k) ltac:(lia)).
  destruct reverse; cbn [app map fst].
  - constructor; [|constructor; [|exact IH]].
    + intros [C | C]; [lia|]. apply T in C. lia.
    + intros C. apply T in C. lia.
  - constructor; [|exact IH]. intros C. apply T in C. lia.
Qed.

(* ---------- list facts ---------- *)
Lemma nodup_fst_inj {A} (L : list (nat * A)) e e' : NoDup (map fst L) -> In e L -> In e' L -> fst e = fst e' -> e = e'.
Proof.
  induction L as [|a L IH]; intros ND He He' Hf; [contradiction|]. cbn [map] in ND. inversion ND as [|x l Hni ND']. subst x l.
  destruct He as [<- | He]; destruct He' as [<- | He'].
  - reflexivity.
  - exfalso. apply Hni. rewrite Hf. apply in_map. exact He'.
  - exfalso. apply Hni. rewrite <- Hf. apply in_map. exact He.
  - apply IH; assumption.
Qed.

Lemma remove_first_filter {A} (L : list (nat * A)) (P : nat * A -> bool) e0 : NoDup (map fst L) -> In e0 L -> P e0 = true ->
  remove_first (fst e0) (map fst (filter P L)) = Some (map fst (filter (fun e => P e && negb (Nat.eqb (fst e) (fst e0))) L)).
Proof.
  induction L as [|a L IH]; intros ND He HP; [contradiction|]. cbn [map] in ND. inversion ND as [|x l Hni ND']. subst x l.
  cbn [filter]. destruct He as [-> | He].
  - rewrite HP, Nat.eqb_refl. cbn [andb negb map remove_first]. rewrite Nat.eqb_refl. f_equal. f_equal.
    apply filter_ext_in. intros e He. destruct (Nat.eqb (fst e) (fst e0)) eqn:Ee; [|rewrite andb_true_r; reflexivity].
    apply Nat.eqb_eq in Ee. exfalso. apply Hni. rewrite <- Ee. apply in_map. exact He.
  - assert (Hne : Nat.eqb (fst a) (fst e0) = false).
    { apply Nat.eqb_neq. intros C. apply Hni. rewrite C. apply in_map. exact He. }
    rewrite Hne. cbn [negb]. rewrite andb_true_r. destruct (P a).
    + cbn [map remove_first]. rewrite Nat.eqb_sym, Hne. rewrite (IH ND' He HP). reflexivity.
    + apply IH; assumption.
Qed.

(* ---------- the invariant ---------- *)
Definition with_grid (ix : index) (g : list (list nat)) : index :=
  mkindex (bins ix) (count ix) (rev_ok ix) (gxmin ix) (gymin ix) (bsx ix) (bsy ix) (verts ix) g (lookup ix).
Definition path_of (n id : nat) : nat := if (n <=? id)%nat then (id - n)%nat else id.

Fixpoint removes (ix : index) (rs : list nat) : outcome index :=
  match rs with
  | [] => Ret ix
  | i :: t => match remove_path ix i with Ret ix' => removes ix' t | Raise e => Raise e end
  end.

Lemma build_lookup vs b reverse ix : build vs b reverse = Ret ix ->
  forall e, In e (ends_of vs reverse) -> nth (fst e) (lookup ix) 0%nat = cellnat ix (snd e).
Proof.
  unfold build.
  destruct (fold_min (map fst (ext_pts vs reverse))) as [x0|]; [|discriminate].
  destruct (fold_max (map fst (ext_pts vs reverse))) as [x1|]; [|discriminate].
  destruct (fold_min (map snd (ext_pts vs reverse))) as [y0|]; [|discriminate].
  destruct (fold_max (map snd (ext_pts vs reverse))) as [y1|]; [|discriminate].
  cbv zeta. destruct (_ || _); [discriminate|]. intros H. injection H as <-. intros e He.
  cbn [lookup]. unfold cellnat. cbn [bins gxmin gymin bsx bsy].
  fold (ends_of vs reverse).
  match goal with |- _ = Z.to_nat (cell_of_build b ?a1 ?a2 ?a3 ?a4 (snd e)) =>
    set (vl := fun e : nat * pt => Z.to_nat (cell_of_build b a1 a2 a3 a4 (snd e))) end.
  change (nth (fst e) (fold_left (put fst vl) (ends_of vs reverse) (repeat 0%nat (if reverse then (2 * length vs)%nat else length vs))) 0%nat = vl e).
  apply (fold_put_spec fst vl).
  - rewrite ends_of_gen. apply ends_gen_nodup. lia.
  - intros [id p] Hin. rewrite repeat_length. cbn [fst]. rewrite ends_of_gen in Hin. apply ends_gen_in in Hin.
    destruct Hin as (j & Hj & [[-> _] | (-> & -> & _)]); [destruct reverse|]; lia.
  - exact He.
Qed.

Section Inv.
Variables (vs : list path) (b : Z) (reverse : bool) (ix0 : index).
Hypothesis Hb : 1 <= b.
Hypothesis Hbuild : build vs b reverse = Ret ix0.
Local Notation ends := (ends_of vs reverse).
Local Notation n := (length vs).
Local Notation cells := (Z.to_nat (b * b)).
Definition cellof (e : nat * pt) : nat := cellnat ix0 (snd e).

Definition GI (al : nat * pt -> bool) (ix : index) : Prop :=
  exists g, ix = with_grid ix0 g /\ length g = cells /\
            forall c, nth c g [] = map fst (filter (fun e => al e && Nat.eqb (cellof e) c) ends).

Lemma ends_nodup : NoDup (map fst ends).
Proof. rewrite ends_of_gen. apply ends_gen_nodup. lia. Qed.
Lemma ends_in id p : In (id, p) ends <->
  exists j, (j < n)%nat /\ ((id = j /\ p = fst (nth j vs dpath)) \/ (reverse = true /\ id = (n + j)%nat /\ p = snd (nth j vs dpath))).
Proof. rewrite ends_of_gen. rewrite ends_gen_in. reflexivity. Qed.

Lemma GI_ext al al' ix : GI al ix -> (forall e, In e ends -> al e = al' e) -> GI al' ix.
Proof.
  intros (g & E & L & G) H. exists g. split; [exact E|]. split; [exact L|]. intros c. rewrite G. f_equal.
  apply filter_ext_in. intros e He. rewrite (H e He). reflexivity.
Qed.

Lemma GI_init : GI (fun _ => true) ix0.
Proof.
  destruct (build_spec vs b reverse ix0 Hb Hbuild) as (B1 & B2 & B3 & B4 & B5 & B6 & B7 & _).
  exists (grid ix0). split; [destruct ix0; reflexivity|]. split; [exact B5|]. intros c. rewrite B7. reflexivity.
Qed.

Lemma cellof_range e : In e ends -> (cellof e < cells)%nat.
Proof. destruct (build_spec vs b reverse ix0 Hb Hbuild) as (_ & _ & _ & _ & _ & B6 & _). apply B6. Qed.

Lemma remove_id_GI al ix e : GI al ix -> In e ends -> al e = true ->
  exists ix', remove_id ix (fst e) = Ret ix' /\ GI (fun e' => al e' && negb (Nat.eqb (fst e') (fst e))) ix'.
Proof.
  intros (g & -> & L & G) He Ha. unfold remove_id. cbn [lookup grid with_grid].
  rewrite (build_lookup vs b reverse ix0 Hbuild e He). fold (cellof e).
  rewrite G.
  rewrite (remove_first_filter ends (fun e' => al e' && Nat.eqb (cellof e') (cellof e)) e ends_nodup He) by (rewrite Ha, Nat.eqb_refl; reflexivity).
  eexists. split; [reflexivity|].
  exists (set_nth (cellof e) (fun _ => map fst (filter (fun e' => (al e' && Nat.eqb (cellof e') (cellof e)) && negb (Nat.eqb (fst e') (fst e))) ends)) g).
  split; [reflexivity|]. split; [rewrite set_nth_length; exact L|].
  intros c. rewrite nth_set_nth by (rewrite L; apply cellof_range, He).
  destruct (Nat.eqb c (cellof e)) eqn:Ec.
  - apply Nat.eqb_eq in Ec. subst c. f_equal. apply filter_ext. intros e'.
    destruct (al e'), (Nat.eqb (cellof e') (cellof e)), (Nat.eqb (fst e') (fst e)); reflexivity.
  - rewrite G. f_equal. apply filter_ext_in. intros e' He'.
    destruct (Nat.eqb (fst e') (fst e)) eqn:Ef; [|rewrite andb_true_r; reflexivity].
    apply Nat.eqb_eq in Ef. assert (e' = e) by (apply (nodup_fst_inj ends); [apply ends_nodup|assumption..]). subst e'.
    apply Nat.eqb_neq in Ec. destruct (Nat.eqb (cellof e) c) eqn:E2; [apply Nat.eqb_eq in E2; congruence|]. rewrite !andb_false_r. reflexivity.
Qed.

Definition alive_rs (rs : list nat) (e : nat * pt) : bool := negb (existsb (Nat.eqb (path_of n (fst e))) rs).

Lemma static_of_GI al ix : GI al ix -> rev_ok ix = reverse /\ count ix = n /\ verts ix = vs /\ bins ix = b.
Proof.
  intros (g & -> & _). destruct (build_spec vs b reverse ix0 Hb Hbuild) as (B1 & B2 & B3 & B4 & _). cbn. auto.
Qed.

Lemma remove_path_GI rs ix i : GI (alive_rs rs) ix -> (i < n)%nat -> ~ In i rs ->
  exists ix', remove_path ix i = Ret ix' /\ GI (alive_rs (i :: rs)) ix'.
Proof.
  intros HG Hi Hni. unfold remove_path.
  destruct (static_of_GI _ _ HG) as (Sr & Sc & _).
  assert (Hal : forall e, In e ends -> path_of n (fst e) = i -> alive_rs rs e = true).
  { intros e He Hp. unfold alive_rs. rewrite Hp. apply negb_true_iff. apply not_true_is_false. intros C.
    apply existsb_exists in C. destruct C as (x & Hx & Ex). apply Nat.eqb_eq in Ex. subst x. exact (Hni Hx). }
  set (e1 := (i, fst (nth i vs dpath))).
  assert (He1 : In e1 ends) by (apply ends_in; exists i; split; [exact Hi|left; auto]).
  assert (P1 : path_of n (fst e1) = i) by (unfold path_of; cbn [fst e1]; destruct (Nat.leb_spec n i); [lia|reflexivity]).
  destruct (remove_id_GI _ ix e1 HG He1 (Hal e1 He1 P1)) as (ix1 & R1 & G1). cbn [fst e1] in R1. rewrite R1.
  rewrite Sr. set (r := reverse) at 1. assert (Erev : reverse = r) by reflexivity. clearbody r. destruct r.
  - set (e2 := ((n + i)%nat, snd (nth i vs dpath))).
    assert (He2 : In e2 ends) by (apply ends_in; exists i; split; [exact Hi|right; auto]).
    assert (P2 : path_of n (fst e2) = i) by (unfold path_of; cbn [fst e2]; destruct (Nat.leb_spec n (n + i)); lia).
    destruct (remove_id_GI _ ix1 e2 G1 He2) as (ix2 & R2 & G2).
    { rewrite (Hal e2 He2 P2). cbn [fst e1 e2 andb]. apply negb_true_iff, Nat.eqb_neq. lia. }
    cbn [fst e2] in R2. rewrite Sc, (Nat.add_comm i n), R2. eexists. split; [reflexivity|].
    apply (GI_ext _ _ _ G2). intros [id p] Hin. unfold alive_rs. cbn [existsb fst e1 e2].
    apply ends_in in Hin. destruct Hin as (j & Hj & [[-> _] | (_ & -> & _)]); unfold path_of.
    + destruct (Nat.leb_spec n j); [lia|]. rewrite negb_orb.
      assert (E : Nat.eqb j (n + i) = false) by (apply Nat.eqb_neq; lia). rewrite E. cbn [negb]. rewrite andb_true_r.
      rewrite andb_comm. reflexivity.
    + destruct (Nat.leb_spec n (n + j)); [|lia]. replace (n + j - n)%nat with j by lia. rewrite negb_orb.
      assert (E : Nat.eqb (n + j) i = false) by (apply Nat.eqb_neq; lia). rewrite E. cbn [negb]. rewrite andb_true_r.
      assert (E2 : Nat.eqb (n + j) (n + i) = Nat.eqb j i).
      { destruct (Nat.eqb_spec j i) as [->|Hne]; [apply Nat.eqb_refl|apply Nat.eqb_neq; lia]. }
      rewrite E2. rewrite andb_comm. reflexivity.
  - eexists. split; [reflexivity|].
    apply (GI_ext _ _ _ G1). intros [id p] Hin. unfold alive_rs. cbn [existsb fst e1].
    apply ends_in in Hin. destruct Hin as (j & Hj & [[-> _] | (C & _)]); [|congruence]. unfold path_of.
    destruct (Nat.leb_spec n j); [lia|]. rewrite negb_orb. rewrite andb_comm. reflexivity.
Qed.

Lemma alive_rs_perm rs rs' : (forall i, In i rs <-> In i rs') -> forall e, alive_rs rs e = alive_rs rs' e.
Proof.
  intros H e. unfold alive_rs. f_equal.
  destruct (existsb _ rs) eqn:E1, (existsb _ rs') eqn:E2; try reflexivity.
  - apply existsb_exists in E1. destruct E1 as (x & Hx & Ex). apply H in Hx.
    assert (existsb (Nat.eqb (path_of n (fst e))) rs' = true) by (apply existsb_exists; exists x; auto). congruence.
  - apply existsb_exists in E2. destruct E2 as (x & Hx & Ex). apply H in Hx.
    assert (existsb (Nat.eqb (path_of n (fst e))) rs = true) by (apply existsb_exists; exists x; auto). congruence.
Qed.

(* removals of distinct existing paths never raise and keep the invariant *)
Theorem removes_GI : forall todo done ix, GI (alive_rs done) ix -> NoDup todo -> (forall i, In i todo -> (i < n)%nat /\ ~ In i done) ->
  exists ix', removes ix todo = Ret ix' /\ GI (alive_rs (todo ++ done)) ix'.
Proof.
  induction todo as [|i t IH]; intros done ix HG ND H.
  - exists ix. split; [reflexivity|exact HG].
  - inversion ND as [|x l Hni ND']. subst x l. cbn [removes].
    destruct (H i (or_introl eq_refl)) as [Hi Hd].
    destruct (remove_path_GI done ix i HG Hi Hd) as (ix1 & R1 & G1). rewrite R1.
    destruct (IH (i :: done) ix1 G1 ND') as (ix2 & R2 & G2).
    { intros j Hj. destruct (H j (or_intror Hj)) as [A B]. split; [exact A|]. intros [C | C]; [subst j; exact (Hni Hj)|exact (B C)]. }
    exists ix2. split; [exact R2|]. apply (GI_ext _ _ _ G2). intros e _. apply alive_rs_perm.
    intros k. cbn [app]. rewrite !in_app_iff. cbn [In]. rewrite in_app_iff. tauto.
Qed.
End Inv.

(* ================= nearest() over the live ends ================= *)
Section Near.
Variables (vs : list path) (b : Z) (reverse : bool) (ix0 : index).
Hypothesis Hb : 1 <= b.
Hypothesis Hbuild : build vs b reverse = Ret ix0.
Local Notation ends := (ends_of vs reverse).
Variables (al : nat * pt -> bool) (ix : index) (q : pt).
Hypothesis HG : GI vs b reverse ix0 al ix.

(* column and row of a point, as the constructor computes them; of the query, as nearest() computes them (clamped on both sides) *)
Definition col (p : pt) : Z := cell_coord (fst p) (gxmin ix0) (bsx ix0) (b - 1).
Definition row (p : pt) : Z := cell_coord (snd p) (gymin ix0) (bsy ix0) (b - 1).
Definition qcol : Z := Z.max (Z.min (Qfloor ((fst q - gxmin ix0) / bsx ix0)) (b - 1)) 0.
Definition qrow : Z := Z.max (Z.min (Qfloor ((snd q - gymin ix0) / bsy ix0)) (b - 1)) 0.
(* the end lies in the query's cell or one of its eight neighbours *)
Definition near_cell (p : pt) : Prop := Z.abs (qcol - col p) <= 1 /\ Z.abs (qrow - row p) <= 1.

Lemma ix_fields : bins ix = b /\ gxmin ix = gxmin ix0 /\ gymin ix = gymin ix0 /\ bsx ix = bsx ix0 /\ bsy ix = bsy ix0 /\ count ix = length vs /\ verts ix = vs /\ bins ix0 = b.
Proof.
  destruct HG as (g & -> & _). destruct (build_spec vs b reverse ix0 Hb Hbuild) as (B1 & B2 & B3 & B4 & _). cbn. rewrite B1, B2, B4. repeat split.
Qed.

Lemma end_cell e : In e ends -> 0 <= col (snd e) < b /\ 0 <= row (snd e) < b /\ Z.of_nat (cellof ix0 e) = col (snd e) + b * row (snd e).
Proof.
  intros He. destruct (build_spec vs b reverse ix0 Hb Hbuild) as (B1 & _ & _ & _ & _ & _ & _ & Bx & By & Bm).
  destruct (Bm e He) as [Mx My].
  pose proof (cell_coord_range (fst (snd e)) (gxmin ix0) (bsx ix0) b Bx Mx Hb) as Cx.
  pose proof (cell_coord_range (snd (snd e)) (gymin ix0) (bsy ix0) b By My Hb) as Cy.
  fold (col (snd e)) in Cx. fold (row (snd e)) in Cy.
  split; [lia|]. split; [lia|]. unfold cellof, cellnat, cell_of_build. rewrite B1. fold (col (snd e)). fold (row (snd e)).
  rewrite Z2Nat.id by nia. reflexivity.
Qed.

Lemma qcell_eq : qcell ix q = qcol + b * qrow /\ 0 <= qcol < b /\ 0 <= qrow < b.
Proof.
  destruct ix_fields as (F1 & F2 & F3 & F4 & F5 & _). unfold qcell. rewrite F1, F2, F3, F4, F5. fold qcol. fold qrow.
  split; [reflexivity|]. unfold qcol, qrow. lia.
Qed.

Lemma end_pt_ends e : In e ends -> end_pt ix (fst e) = snd e.
Proof.
  destruct ix_fields as (_ & _ & _ & _ & _ & Fc & Fv & _). destruct e as [id p]. intros He. apply (ends_in vs reverse) in He.
  unfold end_pt. rewrite Fc, Fv. cbn [fst snd].
  destruct He as (j & Hj & [[-> ->] | (_ & -> & ->)]).
  - destruct (Nat.leb_spec (length vs) j); [lia|reflexivity].
  - destruct (Nat.leb_spec (length vs) (length vs + j)); [|lia]. replace (length vs + j - length vs)%nat with j by lia. reflexivity.
Qed.

Lemma nb_range c : In c (nb ix q) -> 0 <= c < b * b.
Proof.
  unfold nb. destruct ix_fields as (F1 & _). destruct qcell_eq as (Eq & Rc & Rr). rewrite F1, Eq. intros H.
  apply In_adj in H; [|assumption..]. destruct H as (dx & dy & _ & _ & Rx & Ry & ->). nia.
Qed.

Lemma cell_ids_in c id : In id (cell_ids ix c) <-> exists e, In e ends /\ al e = true /\ cellof ix0 e = Z.to_nat c /\ fst e = id.
Proof.
  destruct HG as (g & E & L & G). unfold cell_ids. rewrite E. cbn [grid with_grid]. rewrite G, in_map_iff. split.
  - intros (e & Hf & Hin). apply filter_In in Hin. destruct Hin as [Hin Hp]. apply andb_true_iff in Hp. destruct Hp as [Ha Hc].
    apply Nat.eqb_eq in Hc. exists e. auto.
  - intros (e & Hin & Ha & Hc & Hf). exists e. split; [exact Hf|]. apply filter_In. split; [exact Hin|]. rewrite Ha, Hc, Nat.eqb_refl. reflexivity.
Qed.

Lemma nb_ids_in id : In id (nb_ids ix q) <-> exists e, In e ends /\ al e = true /\ fst e = id /\ In (Z.of_nat (cellof ix0 e)) (nb ix q).
Proof.
  unfold nb_ids. rewrite in_flat_map. split.
  - intros (c & Hc & Hid). apply cell_ids_in in Hid. destruct Hid as (e & He & Ha & Hce & Hf). exists e. repeat split; try assumption.
    rewrite Hce, Z2Nat.id by (apply nb_range in Hc; lia). exact Hc.
  - intros (e & He & Ha & Hf & Hc). exists (Z.of_nat (cellof ix0 e)). split; [exact Hc|]. apply cell_ids_in. exists e. rewrite Nat2Z.id. auto.
Qed.

Lemma all_ids_in id : In id (all_ids ix q) <-> exists e, In e ends /\ al e = true /\ fst e = id.
Proof.
  unfold all_ids. rewrite in_app_iff. split.
  - intros [H | H].
    + apply nb_ids_in in H. destruct H as (e & He & Ha & Hf & _). exists e. auto.
    + apply in_flat_map in H. destruct H as (c & _ & Hid). apply cell_ids_in in Hid. destruct Hid as (e & He & Ha & _ & Hf). exists e. auto.
  - intros (e & He & Ha & Hf).
    destruct (existsb (Z.eqb (Z.of_nat (cellof ix0 e))) (nb ix q)) eqn:Ex.
    + left. apply nb_ids_in. exists e. repeat split; try assumption.
      apply existsb_exists in Ex. destruct Ex as (c & Hc & Ec). apply Z.eqb_eq in Ec. rewrite Ec. exact Hc.
    + right. apply in_flat_map. exists (Z.of_nat (cellof ix0 e)). split.
      * unfold others. apply filter_In. split; [|rewrite Ex; reflexivity].
        unfold all_cells. apply in_map. apply in_seq. destruct HG as (g & E & L & _). rewrite E. cbn [grid with_grid]. rewrite L.
        pose proof (cellof_range vs b reverse ix0 Hb Hbuild e He). lia.
      * apply cell_ids_in. exists e. rewrite Nat2Z.id. auto.
Qed.

Lemma near_cell_nb e : In e ends -> (In (Z.of_nat (cellof ix0 e)) (nb ix q) <-> near_cell (snd e)).
Proof.
  intros He. destruct (end_cell e He) as (Rc & Rr & ->). destruct qcell_eq as (Eq & Qc & Qr). destruct ix_fields as (F1 & _).
  unfold nb. rewrite F1, Eq. unfold near_cell. apply adjacent_spec; assumption.
Qed.

(* what a nearest-end query must return, over the live ends (al) *)
Definition nearest_ok (r : option nat) : Prop :=
  match r with
  | None => forall e, In e ends -> al e = false
  | Some id => exists e, In e ends /\ al e = true /\ fst e = id /\
      (forall e', In e' ends -> al e' = true -> near_cell (snd e') -> (sqdist q (snd e) <= sqdist q (snd e'))%Q) /\
      ((forall e', In e' ends -> al e' = true -> ~ near_cell (snd e')) ->
       forall e', In e' ends -> al e' = true -> (sqdist q (snd e) <= sqdist q (snd e'))%Q)
  end.

Theorem nearest_live : nearest_ok (nearest ix q).
Proof.
  pose proof (nearest_wrt_grid ix q) as H. unfold nearest_ok. destruct (nearest ix q) as [id|].
  - destruct H as (Hin & Hnb & Hall). apply all_ids_in in Hin. destruct Hin as (e & He & Ha & Hf). exists e. repeat split; try assumption.
    + intros e' He' Ha' Hn. specialize (Hnb (fst e')). unfold dist in Hnb. rewrite <- Hf, (end_pt_ends e He), (end_pt_ends e' He') in Hnb.
      apply Hnb. apply nb_ids_in. exists e'. repeat split; try assumption. apply near_cell_nb; assumption.
    + intros Hno e' He' Ha'. assert (Hemp : nb_ids ix q = []).
      { destruct (nb_ids ix q) as [|x l] eqn:En; [reflexivity|]. exfalso.
        assert (Hx : In x (nb_ids ix q)) by (rewrite En; left; reflexivity). apply nb_ids_in in Hx.
        destruct Hx as (e2 & He2 & Ha2 & _ & Hc). apply (Hno e2 He2 Ha2). apply near_cell_nb; assumption. }
      specialize (Hall Hemp (fst e')). unfold dist in Hall. rewrite <- Hf, (end_pt_ends e He), (end_pt_ends e' He') in Hall.
      apply Hall. apply all_ids_in. exists e'. auto.
  - intros e He. destruct (al e) eqn:Ha; [|reflexivity]. exfalso.
    assert (Hi : In (fst e) (all_ids ix q)) by (apply all_ids_in; exists e; auto). rewrite H in Hi. contradiction.
Qed.

(* an end within one cell width of the query (in each coordinate) lies in the query's cell or a neighbour *)
Theorem within_one_cell_near e : In e ends ->
  (Qabs (fst q - fst (snd e)) <= bsx ix0)%Q -> (Qabs (snd q - snd (snd e)) <= bsy ix0)%Q -> near_cell (snd e).
Proof.
  intros He Hx Hy. destruct (build_spec vs b reverse ix0 Hb Hbuild) as (_ & _ & _ & _ & _ & _ & _ & Bx & By & Bm).
  destruct (Bm e He) as [Mx My].
  assert (K : forall v w lo bs, (0 < bs)%Q -> (lo <= w)%Q -> (Qabs (v - w) <= bs)%Q ->
              Z.abs (Z.max (Z.min (Qfloor ((v - lo) / bs)) (b - 1)) 0 - cell_coord w lo bs (b - 1)) <= 1).
  { intros v w lo bs Hbs Hlo Hd. unfold cell_coord.
    assert (F0 : 0 <= Qfloor ((w - lo) / bs)).
    { assert (Q0 : (0 <= (w - lo) / bs)%Q) by (apply Qle_shift_div_l; lra). apply Qfloor_resp_le in Q0. exact Q0. }
    assert (N : Z.abs (Qfloor ((v - lo) / bs) - Qfloor ((w - lo) / bs)) <= 1).
    { apply floor_near. apply Qabs_Qle_condition in Hd. destruct Hd as [D1 D2]. apply Qabs_Qle_condition.
      setoid_replace ((v - lo) / bs - (w - lo) / bs)%Q with ((v - w) / bs)%Q by (field; lra). split.
      - apply Qle_shift_div_l; [exact Hbs|]. lra.
      - apply Qle_shift_div_r; [exact Hbs|]. lra. }
    lia. }
  split; [apply (K (fst q) (fst (snd e)) (gxmin ix0) (bsx ix0)); assumption|apply (K (snd q) (snd (snd e)) (gymin ix0) (bsy ix0)); assumption].
Qed.
End Near.

(* ================= C13, for every history ================= *)
Theorem nearest_history vs b reverse ix0 rs : 1 <= b -> build vs b reverse = Ret ix0 ->
  NoDup rs -> (forall i, In i rs -> (i < length vs)%nat) ->
  exists ix, removes ix0 rs = Ret ix /\
    forall q, nearest_ok vs b reverse ix0 (alive_rs vs rs) q (nearest ix q).
Proof.
  intros Hb Hbuild ND Hr.
  destruct (removes_GI vs b reverse ix0 Hb Hbuild rs [] ix0) as (ix & R & G).
  - apply (GI_ext vs b reverse ix0 (fun _ => true)); [apply GI_init; assumption|]. intros e _. reflexivity.
  - exact ND.
  - intros i Hi. split; [apply Hr, Hi|intros []].
  - exists ix. split; [exact R|]. intros q. rewrite app_nil_r in G. apply nearest_live; assumption.
Qed.

(* "None exactly when no path remains" *)
Lemma no_live_iff vs reverse rs : (forall e, In e (ends_of vs reverse) -> alive_rs vs rs e = false) <-> (forall i, (i < length vs)%nat -> In i rs).
Proof.
  split.
  - intros H i Hi. specialize (H (i, fst (nth i vs dpath))).
    assert (Hin : In (i, fst (nth i vs dpath)) (ends_of vs reverse)) by (apply ends_in; exists i; split; [exact Hi|left; auto]).
    specialize (H Hin). unfold alive_rs in H. apply negb_false_iff in H. apply existsb_exists in H. destruct H as (x & Hx & Ex).
    apply Nat.eqb_eq in Ex. cbn [fst] in Ex. unfold path_of in Ex. destruct (Nat.leb_spec (length vs) i); [lia|]. subst x. exact Hx.
  - intros H [id p] He. apply ends_in in He. destruct He as (j & Hj & Hc). unfold alive_rs. apply negb_false_iff. apply existsb_exists.
    exists j. split; [apply H, Hj|]. apply Nat.eqb_eq. cbn [fst]. unfold path_of.
    destruct Hc as [[-> _] | (_ & -> & _)].
    + destruct (Nat.leb_spec (length vs) j); [lia|reflexivity].
    + destruct (Nat.leb_spec (length vs) (length vs + j)); lia.
Qed.
