From Plotink Require Import Base.Prelude Model.Simplify Model.Subdiv Proofs.SimplifyProofs.
Open Scope Q_scope.

(* ---------- the cubic and its halves ---------- *)
Definition bez1 (a b c d t : Q) : Q :=
  (1 - t) * (1 - t) * (1 - t) * a + 3 * (1 - t) * (1 - t) * t * b + 3 * (1 - t) * t * t * c + t * t * t * d.
Definition bezx (p : piece) (t : Q) : Q := let '(p0, p1, p2, p3) := p in bez1 (fst p0) (fst p1) (fst p2) (fst p3) t.
Definition bezy (p : piece) (t : Q) : Q := let '(p0, p1, p2, p3) := p in bez1 (snd p0) (snd p1) (snd p2) (snd p3) t.

Lemma left_half p s : bezx (split_left p) s == bezx p (s / 2) /\ bezy (split_left p) s == bezy p (s / 2).
Proof. destruct p as [[[[a0 a1] [b0 b1]] [c0 c1]] [d0 d1]]. unfold bezx, bezy, split_left, tpoint, bez1. cbn [fst snd]. rewrite !Qred_correct. split; field. Qed.
Lemma right_half p s : bezx (split_right p) s == bezx p ((1 + s) / 2) /\ bezy (split_right p) s == bezy p ((1 + s) / 2).
Proof. destruct p as [[[[a0 a1] [b0 b1]] [c0 c1]] [d0 d1]]. unfold bezx, bezy, split_right, tpoint, bez1. cbn [fst snd]. rewrite !Qred_correct. split; field. Qed.
(* the halves join at the curve's midpoint and keep the outer ends *)
Lemma halves_join p : let '(_, _, _, m) := split_left p in let '(m', _, _, _) := split_right p in m = m'.
Proof. destruct p as [[[p0 p1] p2] p3]. reflexivity. Qed.

(* ---------- refinement of pieces ---------- *)
Inductive PieceRef : piece -> list piece -> Prop :=
| PR_leaf p : PieceRef p [p]
| PR_split p ql qr : PieceRef (split_left p) ql -> PieceRef (split_right p) qr -> PieceRef p (ql ++ qr).
Inductive RefP : list piece -> list piece -> Prop :=
| RP_nil : RefP [] []
| RP_cons p qs ps os : PieceRef p qs -> RefP ps os -> RefP (p :: ps) (qs ++ os).

(* each refined piece is the original piece restricted to a dyadic parameter interval, and the intervals tile [0,1] in order *)
Inductive dyadic : Q -> Q -> Prop :=
| D_unit : dyadic 0 1
| D_left lo hi : dyadic lo hi -> dyadic lo ((lo + hi) / 2)
| D_right lo hi : dyadic lo hi -> dyadic ((lo + hi) / 2) hi.
Definition restricts (p q : piece) (lo hi : Q) : Prop :=
  forall s, bezx q s == bezx p (lo + s * (hi - lo)) /\ bezy q s == bezy p (lo + s * (hi - lo)).
(* tiling: consecutive intervals lo = t0 < t1 < ... < tn = hi *)
Inductive tiles (p : piece) : Q -> Q -> list piece -> Prop :=
| T_one lo hi q : restricts p q lo hi -> tiles p lo hi [q]
| T_app lo mid hi ql qr : tiles p lo mid ql -> tiles p mid hi qr -> tiles p lo hi (ql ++ qr).

Lemma bez_comp_x p t t' : t == t' -> bezx p t == bezx p t'.
Proof. intros E. destruct p as [[[p0 p1] p2] p3]. unfold bezx, bez1. rewrite E. reflexivity. Qed.
Lemma bez_comp_y p t t' : t == t' -> bezy p t == bezy p t'.
Proof. intros E. destruct p as [[[p0 p1] p2] p3]. unfold bezy, bez1. rewrite E. reflexivity. Qed.

Lemma tiles_of_ref : forall q qs, PieceRef q qs -> forall p lo hi, restricts p q lo hi -> tiles p lo hi qs.
Proof.
  induction 1 as [q|q ql qr Hl IHl Hr IHr]; intros p lo hi R.
  - apply T_one. exact R.
  - apply (T_app p lo ((lo + hi) / 2) hi).
    + apply IHl. intros s. destruct (left_half q s) as [Lx Ly]. destruct (R (s / 2)) as [Rx Ry]. split.
      * rewrite Lx, Rx. apply bez_comp_x. field.
      * rewrite Ly, Ry. apply bez_comp_y. field.
    + apply IHr. intros s. destruct (right_half q s) as [Lx Ly]. destruct (R ((1 + s) / 2)) as [Rx Ry]. split.
      * rewrite Lx, Rx. apply bez_comp_x. field.
      * rewrite Ly, Ry. apply bez_comp_y. field.
Qed.
Lemma restricts_self p : restricts p p 0 1.
Proof. intros s. split; [apply bez_comp_x|apply bez_comp_y]; ring. Qed.
Theorem ref_tiles p qs : PieceRef p qs -> tiles p 0 1 qs.
Proof. intros H. apply (tiles_of_ref p qs H p 0 1). apply restricts_self. Qed.

(* the interval ends produced by a PieceRef are dyadic *)
Inductive dtiles (p : piece) : Q -> Q -> list piece -> Prop :=
| DT_one lo hi q : dyadic lo hi -> restricts p q lo hi -> dtiles p lo hi [q]
| DT_app lo hi ql qr : dtiles p lo ((lo + hi) / 2) ql -> dtiles p ((lo + hi) / 2) hi qr -> dtiles p lo hi (ql ++ qr).
Lemma dtiles_of_ref : forall q qs, PieceRef q qs -> forall p lo hi, dyadic lo hi -> restricts p q lo hi -> dtiles p lo hi qs.
Proof.
  induction 1 as [q|q ql qr Hl IHl Hr IHr]; intros p lo hi D R.
  - apply DT_one; assumption.
  - apply DT_app.
    + apply IHl; [apply D_left, D|]. intros s. destruct (left_half q s) as [Lx Ly]. destruct (R (s / 2)) as [Rx Ry]. split.
      * rewrite Lx, Rx. apply bez_comp_x. field.
      * rewrite Ly, Ry. apply bez_comp_y. field.
    + apply IHr; [apply D_right, D|]. intros s. destruct (right_half q s) as [Lx Ly]. destruct (R ((1 + s) / 2)) as [Rx Ry]. split.
      * rewrite Lx, Rx. apply bez_comp_x. field.
      * rewrite Ly, Ry. apply bez_comp_y. field.
Qed.
Theorem ref_dyadic_tiles p qs : PieceRef p qs -> dtiles p 0 1 qs.
Proof. intros H. apply (dtiles_of_ref p qs H p 0 1 D_unit). apply restricts_self. Qed.

(* ---------- the node list as a list of pieces ---------- *)
Fixpoint pieces (a : node) (rest : list node) : list piece :=
  match rest with [] => [] | b :: r => piece_of a b :: pieces b r end.

Definition Spec (flat : Q) (a : node) (rest : list node) (out : list node) : Prop :=
  match out with
  | [] => False
  | a0 :: r0 =>
      hin a0 = hin a /\ npt a0 = npt a /\ hout (last r0 a0) = hout (last rest a) /\
      RefP (pieces a rest) (pieces a0 r0) /\ Forall (fun q => flat_piece flat q = true) (pieces a0 r0)
  end.

Lemma last_default {A} (l : list A) a b : l <> [] -> last l a = last l b.
Proof. induction l as [|x l IH]; [congruence|]. intros _. destruct l as [|y l']; [reflexivity|]. cbn [last] in *. apply IH. discriminate. Qed.
Lemma last_cons {A} (b : A) r a : last (b :: r) a = last r b.
Proof. destruct r as [|c r']; [reflexivity|]. change (last (b :: c :: r') a) with (last (c :: r') a). apply last_default. discriminate. Qed.

Lemma RefP_two l r ps os : RefP (l :: r :: ps) os -> forall p, l = split_left p -> r = split_right p -> RefP (p :: ps) os.
Proof.
  intros H p -> ->. inversion H as [|p1 qs1 ps1 os1 R1 H1]; subst. inversion H1 as [|p2 qs2 ps2 os2 R2 H2]; subst.
  rewrite app_assoc. apply RP_cons; [apply PR_split; assumption|exact H2].
Qed.

Theorem go_spec flat : forall fuel acc a rest out, go flat fuel acc a rest = Some out ->
  exists out', out = rev acc ++ out' /\ Spec flat a rest out'.
Proof.
  induction fuel as [|f IH]; intros acc a rest out H; [discriminate|].
  cbn [go] in H. destruct rest as [|b rest'].
  - injection H as <-. exists [a]. split; [cbn; reflexivity|]. cbn. repeat split; constructor.
  - destruct (flat_piece flat (piece_of a b)) eqn:F.
    + destruct (IH _ _ _ _ H) as (o' & E & S). destruct o' as [|b0 r0]; [contradiction|].
      destruct S as (S1 & S2 & S3 & S4 & S5).
      exists (a :: b0 :: r0). split; [rewrite E; cbn [rev]; rewrite <- app_assoc; reflexivity|].
      cbn [Spec]. split; [reflexivity|]. split; [reflexivity|]. split; [rewrite !last_cons; exact S3|].
      assert (EP : piece_of a b0 = piece_of a b) by (unfold piece_of; rewrite S1, S2; reflexivity).
      cbn [pieces]. rewrite EP. split.
      * change (piece_of a b :: pieces b0 r0) with ([piece_of a b] ++ pieces b0 r0). apply RP_cons; [apply PR_leaf|exact S4].
      * constructor; [exact F|exact S5].
    + remember (piece_of a b) as bl eqn:Ebl.
      destruct (split_left bl) as [[[l0 one1] one2] one3] eqn:EL.
      destruct (split_right bl) as [[[r0' two1] two2] r3] eqn:ER.
      destruct (IH _ _ _ _ H) as (o' & E & S). exists o'. split; [exact E|].
      destruct o' as [|a0 q0]; [contradiction|]. destruct S as (S1 & S2 & S3 & S4 & S5).
      cbn [Spec]. split; [exact S1|]. split; [exact S2|]. split.
      { rewrite S3. rewrite !last_cons. destruct rest' as [|c r']; [reflexivity|]. rewrite !last_cons. reflexivity. }
      split; [|exact S5].
      cbn [pieces] in S4. cbn [pieces].
      assert (P0 : pieces (mknode two2 (npt b) (hout b)) rest' = pieces b rest') by (destruct rest'; reflexivity).
      rewrite P0 in S4.
      (* the two new pieces are the halves of the old one *)
      assert (HL : piece_of (mknode (hin a) (npt a) one1) (mknode one2 one3 two1) = split_left bl).
      { rewrite EL. unfold piece_of. cbn. subst bl. unfold split_left, piece_of in EL. cbn in EL. injection EL as E0 E1 E2 E3. rewrite <- E0. reflexivity. }
      assert (HR : piece_of (mknode one2 one3 two1) (mknode two2 (npt b) (hout b)) = split_right bl).
      { rewrite ER. unfold piece_of. cbn. subst bl. unfold split_right, split_left, piece_of in *. cbn in *.
        injection EL as E0 E1 E2 E3. injection ER as F0 F1 F2 F3. rewrite <- F3, <- F0, <- E3. reflexivity. }
      rewrite HL, HR in S4. rewrite <- Ebl. eapply RefP_two; [exact S4|reflexivity|reflexivity].
Qed.

Theorem subdivide_spec flat fuel a rest out : subdivide flat fuel (a :: rest) = Some out -> Spec flat a rest out.
Proof. intros H. destruct (go_spec flat fuel [] a rest out H) as (o' & E & S). cbn in E. subst o'. exact S. Qed.

(* every original node survives in order: the points of the original nodes are the ends of the refined pieces' groups *)
Lemma PieceRef_ends p qs : PieceRef p qs ->
  match qs with
  | [] => False
  | q :: _ => (let '(q0, _, _, _) := q in let '(p0, _, _, _) := p in q0 = p0) /\
              (let '(_, _, _, q3) := last qs q in let '(_, _, _, p3) := p in q3 = p3)
  end.
Proof.
  induction 1 as [p|p ql qr Hl IHl Hr IHr].
  - destruct p as [[[p0 p1] p2] p3]. cbn. split; reflexivity.
  - destruct ql as [|q ql']; [contradiction|]. destruct qr as [|r qr']; [contradiction|]. cbn [app].
    destruct IHl as [A _]. destruct IHr as [_ B]. split.
    + destruct q as [[[q0 q1] q2] q3], p as [[[p0 p1] p2] p3]. cbn in A. exact A.
    + assert (E : last (q :: ql' ++ r :: qr') q = last (r :: qr') r).
      { change (q :: ql' ++ r :: qr') with ((q :: ql') ++ r :: qr').
        rewrite (last_app_ne piece (q :: ql') (r :: qr') q) by discriminate. apply last_default. discriminate. }
      rewrite E. destruct (last (r :: qr') r) as [[[l0 l1] l2] l3], p as [[[p0 p1] p2] p3]. cbn in B. exact B.
Qed.

(* the result does not depend on the fuel once the walk has finished *)
Theorem go_fuel_mono flat : forall f acc a rest out, go flat f acc a rest = Some out -> forall g, (f <= g)%nat -> go flat g acc a rest = Some out.
Proof.
  induction f as [|f IH]; intros acc a rest out H g Hg; [discriminate|].
  destruct g as [|g]; [lia|]. cbn [go] in *. destruct rest as [|b rest']; [exact H|].
  destruct (flat_piece flat (piece_of a b)).
  - apply IH; [exact H|lia].
  - destruct (split_left (piece_of a b)) as [[[l0 one1] one2] one3]. destruct (split_right (piece_of a b)) as [[[r0' two1] two2] r3].
    apply IH; [exact H|lia].
Qed.
