(* C20: the text format_hms prints is a faithful encoding of the structured result: a reader that splits the text at the first blank,
   at '.' and at ':' and reads the decimal fields recovers the fields exactly (so "the printed fields encode exactly the rounded
   duration" is a statement about the characters printed, not only about the numbers handed to the printer). *)
From Plotink Require Import Base.Prelude Model.Text Proofs.TextProofs.
Open Scope Z_scope.

Definition is_digit (c : Z) : bool := (48 <=? c) && (c <=? 57).
Definition dstep (a d : Z) : Z := 10 * a + (d - 48).
Definition dvala (a : Z) (l : text) : Z := fold_left dstep l a.
Definition dval (l : text) : Z := dvala 0 l.

Fixpoint split_at (c : Z) (l : text) : text * option text :=
  match l with
  | [] => ([], None)
  | x :: t => if x =? c then ([], Some t) else let '(a, b) := split_at c t in (x :: a, b)
  end.
Fixpoint teqb (a b : text) : bool :=
  match a, b with [], [] => true | x :: s, y :: t => (x =? y) && teqb s t | _, _ => false end.

(* the reader: head up to the first blank, the rest must be the unit text; '.' makes it a millisecond value, ':' separates fields *)
Definition read_hms (t : text) : option hms :=
  match split_at 32 t with
  | (_, None) => None
  | (head, Some suffix) =>
      let sfx := 32 :: suffix in
      match split_at 46 head with
      | (ip, Some fp) => if teqb sfx s_seconds then Some (Millis (dval ip * 1000 + dval fp)) else None
      | (_, None) =>
          match split_at 58 head with
          | (a, None) => if teqb sfx s_seconds then Some (Secs (dval a)) else None
          | (a, Some r) =>
              match split_at 58 r with
              | (b, None) => if teqb sfx s_minsec then Some (MinSec (dval a) (dval b)) else None
              | (b, Some c) => if teqb sfx s_hms then Some (HourMinSec (dval a) (dval b) (dval c)) else None
              end
          end
      end
  end.

Lemma teqb_refl a : teqb a a = true.
Proof. induction a as [|x a IH]; [reflexivity|]. cbn [teqb]. rewrite Z.eqb_refl, IH. reflexivity. Qed.

Definition nochar (c : Z) (l : text) : bool := forallb (fun x => negb (x =? c)) l.
Lemma nochar_app c a b : nochar c (a ++ b) = nochar c a && nochar c b.
Proof. unfold nochar. apply forallb_app. Qed.
Lemma split_at_found c a b : nochar c a = true -> split_at c (a ++ c :: b) = (a, Some b).
Proof.
  induction a as [|x a IH]; cbn [app split_at nochar forallb]; intros H.
  - rewrite Z.eqb_refl. reflexivity.
  - apply andb_prop in H. destruct H as [H1 H2]. apply negb_true_iff in H1. rewrite H1. rewrite (IH H2). reflexivity.
Qed.
Lemma split_at_none c a : nochar c a = true -> split_at c a = (a, None).
Proof.
  induction a as [|x a IH]; cbn [split_at nochar forallb]; intros H; [reflexivity|].
  apply andb_prop in H. destruct H as [H1 H2]. apply negb_true_iff in H1. rewrite H1. rewrite (IH H2). reflexivity.
Qed.

Definition alldig (l : text) : bool := forallb is_digit l.
Lemma alldig_nochar c l : is_digit c = false -> alldig l = true -> nochar c l = true.
Proof.
  intros Hc. unfold alldig, nochar. induction l as [|x l IH]; cbn [forallb]; intros H; [reflexivity|].
  apply andb_prop in H. destruct H as [H1 H2]. rewrite (IH H2), andb_true_r. apply negb_true_iff. apply Z.eqb_neq. intros E. subst x. congruence.
Qed.

Lemma digits_alldig fuel : forall n acc, 0 <= n -> alldig acc = true -> alldig (digits_fuel fuel n acc) = true.
Proof.
  induction fuel as [|f IH]; intros n acc Hn Ha; cbn [digits_fuel]; [exact Ha|].
  destruct (Z.ltb_spec n 10) as [L|G].
  - unfold alldig. cbn [forallb]. fold (alldig acc). rewrite Ha, andb_true_r. unfold is_digit. apply andb_true_intro. split; [apply Z.leb_le|apply Z.leb_le]; lia.
  - apply IH; [apply Z.div_pos; lia|]. unfold alldig. cbn [forallb]. fold (alldig acc). rewrite Ha, andb_true_r.
    pose proof (Z.mod_pos_bound n 10 ltac:(lia)). unfold is_digit. apply andb_true_intro. split; apply Z.leb_le; lia.
Qed.
Lemma digits_value fuel : forall n acc, 0 <= n < 10 ^ Z.of_nat fuel -> dvala 0 (digits_fuel fuel n acc) = dvala n acc.
Proof.
  induction fuel as [|f IH]; intros n acc Hn.
  - cbn [digits_fuel]. change (10 ^ Z.of_nat 0) with 1 in Hn. replace n with 0 by lia. reflexivity.
  - cbn [digits_fuel]. destruct (Z.ltb_spec n 10) as [L|G].
    + unfold dvala. cbn [fold_left]. unfold dstep at 2. f_equal. lia.
    + rewrite IH.
      * unfold dvala. cbn [fold_left]. unfold dstep at 2. f_equal. pose proof (Z.div_mod n 10 ltac:(lia)). lia.
      * rewrite Nat2Z.inj_succ, Z.pow_succ_r in Hn by lia. split; [apply Z.div_pos; lia|apply Z.div_lt_upper_bound; lia].
Qed.

Lemma dec_str_value n : 0 <= n < 10 ^ 400 -> dval (dec_str n) = n.
Proof. intros H. unfold dval, dec_str. rewrite (digits_value 400 n []); [reflexivity|]. change (Z.of_nat 400) with 400. exact H. Qed.
Lemma dec_str_alldig n : 0 <= n -> alldig (dec_str n) = true.
Proof. intros H. apply digits_alldig; [exact H|reflexivity]. Qed.
Lemma small_pow n : 0 <= n < 1000 -> 0 <= n < 10 ^ 400.
Proof. intros H. split; [lia|]. apply Z.lt_le_trans with (10 ^ 3); [change (10 ^ 3) with 1000; lia|apply Z.pow_le_mono_r; lia]. Qed.
Lemma pad2_value n : 0 <= n < 100 -> dval (pad2 n) = n /\ alldig (pad2 n) = true.
Proof.
  intros H. unfold pad2. destruct (Z.ltb_spec n 10).
  - split; [|unfold alldig; cbn [forallb]; fold (alldig (dec_str n)); rewrite dec_str_alldig by lia; reflexivity].
    unfold dval, dvala. cbn [fold_left]. change (dstep 0 48) with 0. apply dec_str_value, small_pow. lia.
  - split; [apply dec_str_value, small_pow; lia|apply dec_str_alldig; lia].
Qed.
Lemma pad3_value n : 0 <= n < 1000 -> dval (pad3 n) = n /\ alldig (pad3 n) = true.
Proof.
  intros H. unfold pad3. destruct (Z.ltb_spec n 10); [|destruct (Z.ltb_spec n 100)].
  - split; [|unfold alldig; cbn [forallb]; fold (alldig (dec_str n)); rewrite dec_str_alldig by lia; reflexivity].
    unfold dval, dvala. cbn [fold_left]. change (dstep (dstep 0 48) 48) with 0. apply dec_str_value, small_pow. lia.
  - split; [|unfold alldig; cbn [forallb]; fold (alldig (dec_str n)); rewrite dec_str_alldig by lia; reflexivity].
    unfold dval, dvala. cbn [fold_left]. change (dstep 0 48) with 0. apply dec_str_value, small_pow. lia.
  - split; [apply dec_str_value, small_pow; lia|apply dec_str_alldig; lia].
Qed.

(* fields that the printer is handed for durations in the property's domain (and far beyond) *)
Definition hms_printable (x : hms) : Prop :=
  match x with
  | Millis n => 0 <= n < 10 ^ 400
  | Secs s => 0 <= s < 100
  | MinSec m s => 0 <= m < 10 ^ 400 /\ 0 <= s < 100
  | HourMinSec h m s => 0 <= h < 10 ^ 400 /\ 0 <= m < 100 /\ 0 <= s < 100
  end.

Ltac nodig := apply alldig_nochar; [reflexivity|assumption].

Theorem render_reads_back x : hms_printable x -> read_hms (render x) = Some x.
Proof.
  destruct x as [n|s|m s|h m s]; cbn [hms_printable render]; intros H.
  - (* d.ddd Seconds *)
    assert (Hq : 0 <= n / 1000 < 10 ^ 400) by (split; [apply Z.div_pos; lia|apply Z.div_lt_upper_bound; lia]).
    pose proof (Z.mod_pos_bound n 1000 ltac:(lia)) as Hm. destruct (pad3_value (n mod 1000) Hm) as [V3 A3].
    pose proof (dec_str_alldig (n / 1000) ltac:(lia)) as A1. pose proof (dec_str_value (n / 1000) Hq) as V1.
    unfold read_hms. change s_seconds with (32 :: tl s_seconds).
    replace (dec_str (n / 1000) ++ [46] ++ pad3 (n mod 1000) ++ 32 :: tl s_seconds) with ((dec_str (n / 1000) ++ [46] ++ pad3 (n mod 1000)) ++ 32 :: tl s_seconds) by (rewrite <- !app_assoc; reflexivity).
    rewrite split_at_found by (rewrite !nochar_app; rewrite (alldig_nochar 32 _ eq_refl A1), (alldig_nochar 32 _ eq_refl A3); reflexivity).
    cbn [app]. rewrite split_at_found by nodig. rewrite teqb_refl. rewrite V1, V3. f_equal. f_equal. pose proof (Z.div_mod n 1000 ltac:(lia)). lia.
  - destruct (pad2_value s H) as [V A].
    unfold read_hms. change s_seconds with (32 :: tl s_seconds).
    rewrite split_at_found by nodig. rewrite (split_at_none 46) by nodig. rewrite (split_at_none 58) by nodig. rewrite teqb_refl, V. reflexivity.
  - destruct H as [Hm Hs]. destruct (pad2_value s Hs) as [V A]. pose proof (dec_str_alldig m ltac:(lia)) as A1. pose proof (dec_str_value m Hm) as V1.
    unfold read_hms. change s_minsec with (32 :: tl s_minsec).
    replace (dec_str m ++ [58] ++ pad2 s ++ 32 :: tl s_minsec) with ((dec_str m ++ [58] ++ pad2 s) ++ 32 :: tl s_minsec) by (rewrite <- !app_assoc; reflexivity).
    rewrite split_at_found by (rewrite !nochar_app; rewrite (alldig_nochar 32 _ eq_refl A1), (alldig_nochar 32 _ eq_refl A); reflexivity).
    rewrite (split_at_none 46) by (rewrite !nochar_app; rewrite (alldig_nochar 46 _ eq_refl A1), (alldig_nochar 46 _ eq_refl A); reflexivity).
    cbn [app]. rewrite split_at_found by nodig. rewrite (split_at_none 58) by nodig. rewrite teqb_refl, V, V1. reflexivity.
  - destruct H as (Hh & Hm & Hs). destruct (pad2_value s Hs) as [V A]. destruct (pad2_value m Hm) as [Vm Am].
    pose proof (dec_str_alldig h ltac:(lia)) as A1. pose proof (dec_str_value h Hh) as V1.
    unfold read_hms. change s_hms with (32 :: tl s_hms).
    replace (dec_str h ++ [58] ++ pad2 m ++ [58] ++ pad2 s ++ 32 :: tl s_hms) with ((dec_str h ++ [58] ++ pad2 m ++ [58] ++ pad2 s) ++ 32 :: tl s_hms) by (rewrite <- !app_assoc; reflexivity).
    rewrite split_at_found by (rewrite !nochar_app; rewrite (alldig_nochar 32 _ eq_refl A1), (alldig_nochar 32 _ eq_refl A), (alldig_nochar 32 _ eq_refl Am); reflexivity).
    rewrite (split_at_none 46) by (rewrite !nochar_app; rewrite (alldig_nochar 46 _ eq_refl A1), (alldig_nochar 46 _ eq_refl A), (alldig_nochar 46 _ eq_refl Am); reflexivity).
    cbn [app]. rewrite split_at_found by nodig. rewrite split_at_found by nodig. rewrite teqb_refl, V, Vm, V1. reflexivity.
Qed.
