From Plotink Require Import Base.Prelude Base.PyStr Model.Units.
Open Scope Q_scope.

Definition idq (x : Q) : Q := x.

Lemma factor_nonzero u : ~ uu_factor u == 0.
Proof. destruct u; cbn; intros H; try discriminate H; apply Qeq_bool_neq in H || (vm_compute in H; discriminate H); exact H. Qed.

(* ---------- the conversion tables all equal the one SVG factor table (exact layer) ---------- *)
Theorem to_user_units_table b s ref v u : parseLengthWithUnits idq s = Some (v, u) -> u <> UPct ->
  exists r, unitsToUserUnits idq b s ref = Some r /\ r == v * uu_factor u.
Proof.
  intros P Hu. unfold unitsToUserUnits. rewrite P. eexists. split; [reflexivity|].
  destruct u; try congruence; unfold PX_PER_INCH; unfold fmul, fdiv, lit, idq; cbn [uu_factor]; field.
Qed.

Theorem to_user_units_percent s ref v : parseLengthWithUnits idq s = Some (v, UPct) ->
  exists r, unitsToUserUnits idq false s ref = Some r /\
            r == match ref with Some p => v * p / 100 | None => v / 100 end.
Proof.
  intros P. unfold unitsToUserUnits. rewrite P. eexists. split; [reflexivity|].
  destruct ref; unfold fmul, fdiv, lit, idq; cbn [andb]; reflexivity.
Qed.

Theorem from_user_units_table d u : u <> UPct -> userUnitToUnits idq d u == d / uu_factor u.
Proof. intros Hu. destruct u; try congruence; unfold userUnitToUnits; unfold PX_PER_INCH; unfold fmul, fdiv, lit, idq; cbn [uu_factor]; field. Qed.

Theorem roundtrip_units v u : u <> UPct -> userUnitToUnits idq (v * uu_factor u) u == v.
Proof. intros Hu. rewrite from_user_units_table by exact Hu. field. apply factor_nonzero. Qed.
Theorem roundtrip_percent v : userUnitToUnits idq (v / 100) UPct == v.
Proof. unfold userUnitToUnits; unfold fmul, lit, idq. field. Qed.

(* document-attribute readers: pixels = inches x 96, same table *)
Theorem getLength_table s dflt v u : s <> [] -> parseLengthWithUnits idq s = Some (v, u) -> u <> UPct ->
  exists px inch, getLength idq (Some s) dflt = Some px /\ getLengthInches idq (Some s) = Some inch /\
                  px == v * uu_factor u /\ px == inch * 96.
Proof.
  intros Hs P Hu. unfold getLength, getLengthInches. destruct s as [|c t]; [congruence|]. rewrite P.
  destruct u; try congruence; do 2 eexists; (split; [reflexivity|split; [reflexivity|]]);
  unfold PX_PER_INCH; unfold fmul, fdiv, lit, idq; cbn [uu_factor]; split; field.
Qed.
Theorem getLength_percent s dflt v : s <> [] -> parseLengthWithUnits idq s = Some (v, UPct) ->
  exists px, getLength idq (Some s) dflt = Some px /\ px == dflt * v / 100 /\ getLengthInches idq (Some s) = None.
Proof.
  intros Hs P. unfold getLength, getLengthInches. destruct s as [|c t]; [congruence|]. rewrite P.
  eexists. split; [reflexivity|]. split; [unfold fmul, fdiv, lit, idq; reflexivity|reflexivity].
Qed.
Theorem getLength_absent dflt : getLength idq None dflt = Some dflt /\ getLength idq (Some []) dflt = Some dflt
  /\ getLengthInches idq None = None.
Proof. repeat split. Qed.

(* no numeric part / unsupported unit -> None from every reader *)
Theorem unparsable_gives_none b s ref dflt : parseLengthWithUnits idq s = None ->
  unitsToUserUnits idq b s ref = None /\ (s <> [] -> getLength idq (Some s) dflt = None /\ getLengthInches idq (Some s) = None).
Proof.
  intros P. unfold unitsToUserUnits, getLength, getLengthInches. rewrite P. split; [reflexivity|].
  intros Hs. destruct s; [congruence|]. split; reflexivity.
Qed.

(* ---------- parsing: numeral ++ unit suffix, surrounded by whitespace ---------- *)
Open Scope Z_scope.
Lemma last_n_app (a b : text) : last_n (a ++ b) (length b) = b.
Proof. unfold last_n. rewrite app_length. replace (length a + length b - length b)%nat with (length a) by lia. rewrite skipn_app, skipn_all, Nat.sub_diag. reflexivity. Qed.
Lemma drop_last_app (a b : text) : drop_last (a ++ b) (length b) = a.
Proof. unfold drop_last. rewrite app_length. replace (length a + length b - length b)%nat with (length a) by lia. rewrite firstn_app, firstn_all, Nat.sub_diag. cbn. apply app_nil_r. Qed.

Lemma lstrip_ws w s : Forall (fun c => is_ws c = true) w -> lstrip (w ++ s) = lstrip s.
Proof. induction 1 as [|c w Hc _ IH]; [reflexivity|]. cbn. rewrite Hc. exact IH. Qed.
Lemma lstrip_nonws c t : is_ws c = false -> lstrip (c :: t) = c :: t.
Proof. intros H. cbn. rewrite H. reflexivity. Qed.
Lemma strip_core w1 w2 a m z : Forall (fun c => is_ws c = true) w1 -> Forall (fun c => is_ws c = true) w2 ->
  is_ws a = false -> is_ws z = false ->
  strip (w1 ++ (a :: m ++ [z]) ++ w2) = a :: m ++ [z].
Proof.
  intros H1 H2 Ha Hz. unfold strip, rstrip. rewrite lstrip_ws by exact H1.
  cbn [app]. rewrite lstrip_nonws by exact Ha.
  replace (a :: (m ++ [z]) ++ w2) with ((a :: m) ++ [z] ++ w2) by (cbn; rewrite <- app_assoc; reflexivity).
  rewrite !rev_app_distr. rewrite <- app_assoc. rewrite lstrip_ws by (apply Forall_rev; exact H2).
  cbn [rev app]. rewrite lstrip_nonws by exact Hz.
  replace (z :: rev m ++ [a]) with (rev ((a :: m) ++ [z])) by (rewrite rev_app_distr; reflexivity).
  rewrite rev_involutive. reflexivity.
Qed.

(* the recognised suffixes *)
Inductive suffix_of : text -> unit -> Prop :=
| S_none : suffix_of [] UPx | S_px : suffix_of t_px UPx | S_in : suffix_of t_in UIn | S_mm : suffix_of t_mm UMm
| S_cm : suffix_of t_cm UCm | S_pt : suffix_of t_pt UPt | S_pc : suffix_of t_pc UPc
| S_Q : suffix_of [81] UQ | S_q : suffix_of [113] UQ | S_pct : suffix_of [37] UPct.

Definition numeral_end (c : Z) : bool := is_digit c || (c =? 46).

(* a text ending in a digit or a dot does not end in any unit suffix *)
Lemma last2_of_snoc (m : text) (c : Z) : exists x, last_n (m ++ [c]) 2 = x ++ [c] /\ (length x <= 1)%nat.
Proof.
  unfold last_n. rewrite app_length. cbn [length].
  destruct (rev m) as [|y r] eqn:R.
  - assert (m = []) by (apply (f_equal (@rev Z)) in R; rewrite rev_involutive in R; exact R). subst m. exists []. split; [reflexivity|cbn; lia].
  - assert (E : m = rev r ++ [y]) by (apply (f_equal (@rev Z)) in R; rewrite rev_involutive in R; exact R). subst m.
    exists [y]. split; [|cbn; lia]. rewrite !app_length. cbn [length].
    replace (length (rev r) + 1 + 1 - 2)%nat with (length (rev r)) by lia.
    rewrite <- app_assoc. rewrite skipn_app, skipn_all, Nat.sub_diag. reflexivity.
Qed.
Lemma snoc_eqb2 (x : text) c a b : (length x <= 1)%nat -> text_eqb (x ++ [c]) [a; b] = true -> c = b.
Proof.
  intros L H. destruct x as [|y [|y' x']].
  - cbn in H. destruct (c =? a); discriminate H.
  - cbn in H. apply andb_true_iff in H. destruct H as [_ H]. apply andb_true_iff in H. destruct H as [H _]. apply Z.eqb_eq in H. exact H.
  - cbn in L. lia.
Qed.
Lemma last1_of_snoc (m : text) (c : Z) : last_n (m ++ [c]) 1 = [c].
Proof. apply (last_n_app m [c]). Qed.

Theorem split_unit_spec w1 w2 a m z sfx u :
  Forall (fun c => is_ws c = true) w1 -> Forall (fun c => is_ws c = true) w2 ->
  is_ws a = false -> numeral_end z = true -> suffix_of sfx u ->
  split_unit (w1 ++ ((a :: m ++ [z]) ++ sfx) ++ w2) = (u, a :: m ++ [z]).
Proof.
  intros H1 H2 Ha Hz S.
  assert (Hzw : is_ws z = false).
  { unfold numeral_end, is_digit in Hz. unfold is_ws. apply orb_true_iff in Hz. destruct Hz as [Hz|Hz]; [apply andb_true_iff in Hz|apply Z.eqb_eq in Hz]; lia. }
  assert (Core : forall s l, s = l -> is_ws (last l 0) = false -> l <> [] -> True) by (intros; exact I). clear Core.
  set (n := a :: m ++ [z]).
  assert (Hn2 : forall p q, text_eqb (last_n n 2) [p; q] = true -> z = q).
  { intros p q E. destruct (last2_of_snoc (a :: m) z) as (x & Ex & Lx). change ((a :: m) ++ [z]) with n in Ex. rewrite Ex in E. eapply snoc_eqb2; eassumption. }
  assert (Hnum : forall k, numeral_end k = false -> z <> k) by (intros k Hk C; subst k; congruence).
  assert (ST : strip (w1 ++ (n ++ sfx) ++ w2) = n ++ sfx).
  { inversion S; subst sfx u; unfold n, t_px, t_in, t_mm, t_cm, t_pt, t_pc.
    1: (rewrite app_nil_r; apply strip_core; assumption).
    all: match goal with |- strip (_ ++ ((_ :: _ ++ [_]) ++ ?sfx) ++ _) = _ =>
           match eval cbv in (rev sfx) with
           | ?sz :: ?r => let s0 := eval cbv in (rev r) in
               replace ((a :: m ++ [z]) ++ sfx) with (a :: (m ++ [z] ++ s0) ++ [sz]) by (cbn [app]; rewrite <- ?app_assoc; reflexivity);
               apply strip_core; try assumption; reflexivity
           end end. }
  unfold split_unit. cbv zeta. rewrite ST. clear ST.
  assert (F2 : forall (k : Z) p q, q <> k -> text_eqb (last_n (n ++ [k]) 2) [p; q] = false).
  { intros k p q Hq. destruct (text_eqb (last_n (n ++ [k]) 2) [p; q]) eqn:E; [|reflexivity].
    destruct (last2_of_snoc n k) as (x & Ex & Lx). rewrite Ex in E. apply snoc_eqb2 in E; [congruence|exact Lx]. }
  assert (two : forall sfx, length sfx = 2%nat -> last_n (n ++ sfx) 2 = sfx /\ drop_last (n ++ sfx) 2 = n).
  { intros sfx0 L. rewrite <- L. split; [apply last_n_app|apply drop_last_app]. }
  assert (one : forall k, last_n (n ++ [k]) 1 = [k] /\ drop_last (n ++ [k]) 1 = n).
  { intros k. split; [apply (last_n_app n [k])|apply (drop_last_app n [k])]. }
  inversion S; subst sfx u; unfold t_px, t_in, t_mm, t_cm, t_pt, t_pc.
  - (* no suffix *)
    rewrite app_nil_r.
    assert (G2 : forall p q, numeral_end q = false -> text_eqb (last_n n 2) [p; q] = false).
    { intros p q Hq. destruct (text_eqb (last_n n 2) [p; q]) eqn:E; [|reflexivity]. apply Hn2 in E. subst q. congruence. }
    rewrite !G2 by reflexivity.
    assert (L1 : last_n n 1 = [z]) by (apply (last1_of_snoc (a :: m) z)). rewrite L1.
    assert (G : forall k, numeral_end k = false -> text_eqb [z] [k] = false).
    { intros k Hk. cbn. destruct (z =? k) eqn:E; [apply Z.eqb_eq in E; subst k; congruence|reflexivity]. }
    rewrite !G by reflexivity. reflexivity.
  - destruct (two [112; 120] eq_refl) as [-> ->]. reflexivity.
  - destruct (two [105; 110] eq_refl) as [-> ->]. reflexivity.
  - destruct (two [109; 109] eq_refl) as [-> ->]. reflexivity.
  - destruct (two [99; 109] eq_refl) as [-> ->]. reflexivity.
  - destruct (two [112; 116] eq_refl) as [-> ->]. reflexivity.
  - destruct (two [112; 99] eq_refl) as [-> ->]. reflexivity.
  - rewrite !F2 by (intros C; discriminate C). destruct (one 81) as [-> ->]. reflexivity.
  - rewrite !F2 by (intros C; discriminate C). destruct (one 113) as [-> ->]. reflexivity.
  - rewrite !F2 by (intros C; discriminate C). destruct (one 37) as [-> ->]. reflexivity.
Qed.

Theorem parse_spec rnd w1 w2 a m z sfx u v :
  Forall (fun c => is_ws c = true) w1 -> Forall (fun c => is_ws c = true) w2 ->
  is_ws a = false -> numeral_end z = true -> suffix_of sfx u ->
  parse_float (a :: m ++ [z]) = Some v ->
  parseLengthWithUnits rnd (w1 ++ ((a :: m ++ [z]) ++ sfx) ++ w2) = Some (rnd v, u).
Proof.
  intros H1 H2 Ha Hz S P. unfold parseLengthWithUnits. rewrite (split_unit_spec w1 w2 a m z sfx u H1 H2 Ha Hz S). rewrite P. reflexivity.
Qed.
