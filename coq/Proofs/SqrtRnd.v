(* The executable square root Base.Rnd.sqrt_ne K p (integer square root at the scale 2^-K with a sticky bit, then round_ne p) meets the
   three hypotheses the C03 rounding theorems put on a rounded square root - non-negative, monotone, exact on squares of binary fractions
   k / 2^n (n <= K, k < 2^p) - for every K >= 0 and p >= 1.  So C03_rounding / C03_full_rounding hold of it with no hypothesis left. *)
From Coq Require Import ZArith QArith Qround Qabs Lia Lqa Bool.
From Plotink Require Import Base.Rnd Model.EbbCalc Proofs.TmidFloat Proofs.RndProofs.
Open Scope Z_scope.

Lemma pow4 K : 0 <= K -> 4 ^ K = 2 ^ K * 2 ^ K.
Proof. intros H. change 4 with (2 * 2). apply Z.pow_mul_l. Qed.

Lemma approx_nonneg K x : 0 <= K -> (0 <= sqrt_approx K x)%Q.
Proof.
  intros HK. unfold sqrt_approx. cbv zeta.
  pose proof (Z.sqrt_nonneg (Qfloor (x * inject_Z (4 ^ K)))) as S.
  set (s := Z.sqrt (Qfloor (x * inject_Z (4 ^ K)))) in *.
  change 0%Q with (iz 0 / iz 1)%Q. apply Qdiv_le_cross; [lia|apply pow_pos'; lia|]. destruct (_ && _); lia.
Qed.

Lemma approx_mono K x y : 0 <= K -> (0 <= x)%Q -> (x <= y)%Q -> (sqrt_approx K x <= sqrt_approx K y)%Q.
Proof.
  intros HK Px L. unfold sqrt_approx. cbv zeta.
  assert (P4 : (0 <= inject_Z (4 ^ K))%Q) by (change 0%Q with (inject_Z 0); rewrite <- Zle_Qle; apply Z.pow_nonneg; lia).
  set (tx := (x * inject_Z (4 ^ K))%Q). set (ty := (y * inject_Z (4 ^ K))%Q).
  assert (Lt : (tx <= ty)%Q) by (apply Qmult_le_compat_r; assumption).
  assert (P0 : (0 <= tx)%Q) by (apply Qmult_le_0_compat; assumption).
  set (fx := Qfloor tx). set (fy := Qfloor ty).
  assert (Lf : fx <= fy) by (apply Qfloor_resp_le; exact Lt).
  assert (Pf : 0 <= fx) by (unfold fx; change 0 with (Qfloor (inject_Z 0)); [apply Qfloor_resp_le; exact P0]).
  pose proof (Z.sqrt_le_mono fx fy Lf) as Ls. pose proof (Z.sqrt_spec fx Pf) as Sx. assert (Pfy : 0 <= fy) by (apply Z.le_trans with fx; assumption). pose proof (Z.sqrt_spec fy Pfy) as Sy.
  set (sx := Z.sqrt fx) in *. set (sy := Z.sqrt fy) in *. cbv zeta in Sx, Sy.
  apply Qdiv_le_cross; [apply pow_pos'; lia|apply pow_pos'; lia|]. apply Z.mul_le_mono_nonneg_r; [pose proof (pow_pos' (K + 1) ltac:(lia)); lia|].
  destruct (Z.eq_dec sx sy) as [E|N].
  - destruct ((sy * sy =? fy) && Qeq_bool (inject_Z fy) ty) eqn:Ey; [|destruct ((sx * sx =? fx) && Qeq_bool (inject_Z fx) tx); lia].
    apply andb_prop in Ey. destruct Ey as [Ey1 Ey2]. apply Z.eqb_eq in Ey1. apply Qeq_bool_iff in Ey2.
    assert (Ef : fx = fy) by (rewrite <- E in Ey1; nia).
    assert (Ex : (inject_Z fx == tx)%Q).
    { apply Qle_antisym; [apply Qfloor_le|]. rewrite Ef, Ey2. exact Lt. }
    assert (X : (sx * sx =? fx) && Qeq_bool (inject_Z fx) tx = true).
    { apply andb_true_intro. split; [apply Z.eqb_eq; rewrite Ef, E; exact Ey1|apply Qeq_bool_iff; exact Ex]. }
    rewrite X. lia.
  - destruct ((sx * sx =? fx) && Qeq_bool (inject_Z fx) tx); destruct ((sy * sy =? fy) && Qeq_bool (inject_Z fy) ty); lia.
Qed.

Lemma approx_square K k n : 0 <= n <= K -> 0 <= k ->
  (sqrt_approx K ((iz k / iz (2 ^ n)) * (iz k / iz (2 ^ n))) == iz k / iz (2 ^ n))%Q.
Proof.
  intros Hn Hk. unfold sqrt_approx. cbv zeta.
  pose proof (pow_pos' n ltac:(lia)) as Pb. pose proof (pow_pos' (K - n) ltac:(lia)) as Pa.
  assert (EK : 2 ^ K = 2 ^ (K - n) * 2 ^ n) by (rewrite <- Z.pow_add_r by lia; f_equal; lia).
  assert (E1 : 2 ^ (K + 1) = 2 * (2 ^ (K - n) * 2 ^ n)) by (rewrite Z.pow_add_r by lia; rewrite EK; change (2 ^ 1) with 2; ring).
  rewrite pow4 by lia. rewrite E1, EK. remember (2 ^ n) as b eqn:Eb. remember (2 ^ (K - n)) as a eqn:Ea. clear Eb Ea EK E1.
  set (m := k * a).
  set (t := (iz k / iz b * (iz k / iz b) * inject_Z (a * b * (a * b)))%Q).
  assert (Et : (t == inject_Z (m * m))%Q).
  { unfold t, m, iz. rewrite !inject_Z_mult. field. apply iznz. lia. }
  rewrite (Qfloor_comp _ _ Et), Qfloor_Z. rewrite Z.sqrt_square by (unfold m; nia). rewrite Z.eqb_refl.
  assert (X : Qeq_bool (inject_Z (m * m)) t = true) by (apply Qeq_bool_iff; symmetry; exact Et).
  rewrite X. cbn [andb]. unfold m, iz. rewrite Z.add_0_r, !inject_Z_mult. field. split; apply iznz; lia.
Qed.

Theorem sqrt_ne_nonneg K p x : 0 <= K -> 1 <= p -> (0 <= sqrt_ne K p x)%Q.
Proof.
  intros HK Hp. unfold sqrt_ne. change 0%Q with (round_ne p 0) at 1. apply round_ne_mono; [exact Hp|apply approx_nonneg; exact HK].
Qed.
Theorem sqrt_ne_mono K p x y : 0 <= K -> 1 <= p -> (0 <= x)%Q -> (x <= y)%Q -> (sqrt_ne K p x <= sqrt_ne K p y)%Q.
Proof. intros HK Hp Px L. unfold sqrt_ne. apply round_ne_mono; [exact Hp|apply approx_mono; assumption]. Qed.
Theorem sqrt_ne_exact K p k n : 1 <= p -> 0 <= k < 2 ^ p -> 0 <= n <= K ->
  (sqrt_ne K p ((iz k / iz (2 ^ n)) * (iz k / iz (2 ^ n))) == iz k / iz (2 ^ n))%Q.
Proof.
  intros Hp Hk Hn. unfold sqrt_ne. rewrite (round_ne_comp p _ _ Hp (approx_square K k n Hn ltac:(lia))).
  apply round_ne_exact; [exact Hp|]. exists k, n. split; [lia|]. split; [lia|reflexivity].
Qed.
