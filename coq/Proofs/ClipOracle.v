(* C08: the exact reference used by the tolerant judgement of float runs (Corr/C08.v: exact_clip, Liang-Barsky) is the set of
   parameters of the input segment that lie inside the rectangle, for all rational segments and rectangles. *)
From Plotink Require Import Base.Prelude Model.Clip Corr.C08.
Open Scope Q_scope.

(* Some (t1, t2) stands for the parameters t1 <= t <= t2, None for no parameter *)
Definition inI (acc : option (Q * Q)) (t : Q) : Prop := match acc with Some (t1, t2) => t1 <= t <= t2 | None => False end.

Lemma div_pos_le p q t : 0 < p -> (p * t <= q <-> t <= q / p).
Proof.
  intros Hp. split; intros H.
  - apply Qle_shift_div_l; [exact Hp|]. rewrite Qmult_comm. exact H.
  - assert (E : q == (q / p) * p) by (field; lra).
    rewrite E. rewrite (Qmult_comm p t). apply Qmult_le_compat_r; [exact H|lra].
Qed.
Lemma div_neg_le p q t : p < 0 -> (p * t <= q <-> q / p <= t).
Proof.
  intros Hp. assert (Hn : 0 < - p) by lra.
  assert (E : q / p == (- q) / (- p)) by (field; lra).
  rewrite E. split; intros H.
  - apply Qle_shift_div_r; [exact Hn|]. setoid_replace (t * - p) with (- (p * t)) by ring. lra.
  - assert (E2 : - q == (- q / - p) * (- p)) by (field; lra).
    assert (H2 : (- q / - p) * (- p) <= t * (- p)) by (apply Qmult_le_compat_r; [exact H|lra]).
    rewrite <- E2 in H2. setoid_replace (t * - p) with (- (p * t)) in H2 by ring. lra.
Qed.

(* one Liang-Barsky step adds the constraint p * t <= q *)
Lemma lb_step_spec acc p q t : inI (lb_step acc p q) t <-> inI acc t /\ p * t <= q.
Proof.
  destruct acc as [[t1 t2]|]; cbn [lb_step inI]; [|tauto].
  destruct (Qeqb p 0) eqn:E0.
  - apply Qeqb_iff in E0. destruct (Qltb q 0) eqn:Eq.
    + apply Qltb_iff in Eq. cbn [inI]. split; [tauto|]. intros [_ H]. rewrite E0 in H. lra.
    + apply Qltb_false in Eq. cbn [inI]. split; [|tauto]. intros H. split; [exact H|]. rewrite E0. lra.
  - apply Qeqb_false in E0. destruct (Qltb p 0) eqn:Ep; cbn [inI].
    + apply Qltb_iff in Ep. rewrite (div_neg_le p q t Ep). rewrite Q.max_lub_iff. tauto.
    + apply Qltb_false in Ep. assert (Hp : 0 < p) by (destruct (Qlt_le_dec 0 p); [assumption|exfalso; apply E0; lra]).
      rewrite (div_pos_le p q t Hp). rewrite Q.min_glb_iff. tauto.
Qed.

(* the point of the segment at parameter t, and "inside the closed rectangle" *)
Definition seg_x (s : st) (t : Q) : Q := x1 s + t * (x2 s - x1 s).
Definition seg_y (s : st) (t : Q) : Q := y1 s + t * (y2 s - y1 s).
Definition inside_rect (xmin xmax ymin ymax x y : Q) : Prop := xmin <= x <= xmax /\ ymin <= y <= ymax.

Theorem exact_clip_spec s xmin xmax ymin ymax :
  match exact_clip s xmin xmax ymin ymax with
  | Some (t1, t2) => 0 <= t1 /\ t1 <= t2 /\ t2 <= 1 /\
                     forall t, (t1 <= t <= t2 <-> 0 <= t <= 1 /\ inside_rect xmin xmax ymin ymax (seg_x s t) (seg_y s t))
  | None => forall t, 0 <= t <= 1 -> ~ inside_rect xmin xmax ymin ymax (seg_x s t) (seg_y s t)
  end.
Proof.
  unfold exact_clip. cbv zeta.
  set (dx := x2 s - x1 s). set (dy := y2 s - y1 s).
  set (a4 := lb_step (lb_step (lb_step (lb_step (Some (0, 1)) (- dx) (x1 s - xmin)) dx (xmax - x1 s)) (- dy) (y1 s - ymin)) dy (ymax - y1 s)).
  assert (S : forall t, inI a4 t <-> 0 <= t <= 1 /\ inside_rect xmin xmax ymin ymax (seg_x s t) (seg_y s t)).
  { intros t. unfold a4. rewrite !lb_step_spec. cbn [inI]. unfold inside_rect, seg_x, seg_y. fold dx dy.
    split; intros H; repeat split; try tauto; destruct H as [H H']; try lra;
      repeat match goal with H : _ /\ _ |- _ => destruct H end; lra. }
  destruct a4 as [[t1 t2]|].
  - destruct (Qleb t1 t2) eqn:E.
    + apply Qleb_iff in E. cbn [inI] in S.
      assert (H1 : 0 <= t1 <= 1) by (apply (proj1 (S t1)); lra).
      assert (H2 : 0 <= t2 <= 1) by (apply (proj1 (S t2)); lra).
      split; [tauto|]. split; [exact E|]. split; [tauto|]. exact S.
    + apply Qleb_false in E. intros t Ht C. cbn [inI] in S. assert (t1 <= t <= t2) by (apply S; tauto). lra.
  - intros t Ht C. apply (proj2 (S t)). tauto.
Qed.

(* the reject half of the tolerant judgement is sound: if it lets a rejection pass, then no point of the input segment lies inside the
   rectangle deflated by eps (that is: nothing is inside by more than eps) *)
Theorem sandwich_reject_sound eps s xmin xmax ymin ymax r :
  sandwich_ok eps s xmin xmax ymin ymax false r = true ->
  forall t, 0 <= t <= 1 -> ~ inside_rect (xmin + eps) (xmax - eps) (ymin + eps) (ymax - eps) (seg_x s t) (seg_y s t).
Proof.
  unfold sandwich_ok. cbv zeta. cbn [negb].
  destruct (Qleb (xmin + eps) (xmax - eps) && Qleb (ymin + eps) (ymax - eps)) eqn:E.
  - pose proof (exact_clip_spec s (xmin + eps) (xmax - eps) (ymin + eps) (ymax - eps)) as S.
    destruct (exact_clip s (xmin + eps) (xmax - eps) (ymin + eps) (ymax - eps)) as [[t1 t2]|]; [discriminate|]. intros _. exact S.
  - intros _ t Ht [Hx Hy]. apply andb_false_iff in E. destruct E as [E|E]; apply Qleb_false in E; lra.
Qed.

(* the accept half: what the judgement certifies about a returned segment r *)
Lemma d2seg_witness ax ay bx by_ px py e2 : d2seg ax ay bx by_ px py <= e2 ->
  exists t, 0 <= t <= 1 /\ sq (px - (ax + t * (bx - ax))) + sq (py - (ay + t * (by_ - ay))) <= e2.
Proof.
  unfold d2seg. cbv zeta. destruct (Qeqb (sq (bx - ax) + sq (by_ - ay)) 0).
  - intros H. exists 0. split; [lra|]. unfold sq in *.
    setoid_replace (px - (ax + 0 * (bx - ax))) with (px - ax) by ring. setoid_replace (py - (ay + 0 * (by_ - ay))) with (py - ay) by ring. exact H.
  - set (t := Qmax 0 (Qmin 1 _)). intros H. exists t. split; [|exact H].
    unfold t. split; [apply Q.le_max_l|]. apply Q.max_lub; [lra|apply Q.le_min_l].
Qed.

Lemma outside_by_spec xmin xmax ymin ymax px py e : outside_by xmin xmax ymin ymax px py <= e ->
  xmin - e <= px /\ px <= xmax + e /\ ymin - e <= py /\ py <= ymax + e /\ 0 <= e.
Proof.
  unfold outside_by. intros H.
  apply Q.max_lub_iff in H. destruct H as [H1 H2]. apply Q.max_lub_iff in H1. destruct H1 as [H1a H1b].
  apply Q.max_lub_iff in H2. destruct H2 as [H2 H0]. apply Q.max_lub_iff in H2. destruct H2 as [H2a H2b]. repeat split; lra.
Qed.

Theorem sandwich_accept_sound eps s xmin xmax ymin ymax r :
  sandwich_ok eps s xmin xmax ymin ymax true r = true ->
  (* both returned endpoints are within eps of a point of the input segment ... *)
  (exists t, 0 <= t <= 1 /\ sq (x1 r - seg_x s t) + sq (y1 r - seg_y s t) <= sq eps) /\
  (exists t, 0 <= t <= 1 /\ sq (x2 r - seg_x s t) + sq (y2 r - seg_y s t) <= sq eps) /\
  (* ... and within eps of the rectangle in each coordinate *)
  (xmin - eps <= x1 r /\ x1 r <= xmax + eps /\ ymin - eps <= y1 r /\ y1 r <= ymax + eps) /\
  (xmin - eps <= x2 r /\ x2 r <= xmax + eps /\ ymin - eps <= y2 r /\ y2 r <= ymax + eps).
Proof.
  unfold sandwich_ok. cbv zeta. cbn [negb]. intros H.
  apply andb_true_iff in H. destruct H as [H _]. apply andb_true_iff in H. destruct H as [H _].
  apply andb_true_iff in H. destruct H as [Hs Hr].
  apply andb_true_iff in Hs. destruct Hs as [S1 S2]. apply andb_true_iff in Hr. destruct Hr as [R1 R2].
  apply Qleb_iff in S1, S2, R1, R2.
  split; [exact (d2seg_witness _ _ _ _ _ _ _ S1)|]. split; [exact (d2seg_witness _ _ _ _ _ _ _ S2)|].
  destruct (outside_by_spec _ _ _ _ _ _ _ R1) as (A1 & A2 & A3 & A4 & _).
  destruct (outside_by_spec _ _ _ _ _ _ _ R2) as (B1 & B2 & B3 & B4 & _). tauto.
Qed.

Lemma sq_nonneg x : 0 <= sq x. Proof. unfold sq. nra. Qed.
Lemma sq_comp x y : x == y -> sq x == sq y. Proof. intros E. unfold sq. rewrite E. reflexivity. Qed.

Lemma convex_near ax ay bx by_ px py qx qy tp tq lam e2 : 0 <= lam <= 1 ->
  sq (px - (ax + tp * (bx - ax))) + sq (py - (ay + tp * (by_ - ay))) <= e2 ->
  sq (qx - (ax + tq * (bx - ax))) + sq (qy - (ay + tq * (by_ - ay))) <= e2 ->
  sq ((px + lam * (qx - px)) - (ax + (tp + lam * (tq - tp)) * (bx - ax))) + sq ((py + lam * (qy - py)) - (ay + (tp + lam * (tq - tp)) * (by_ - ay))) <= e2.
Proof.
  intros Hl HP HQ.
  set (u1 := px - (ax + tp * (bx - ax))) in *. set (u2 := py - (ay + tp * (by_ - ay))) in *.
  set (v1 := qx - (ax + tq * (bx - ax))) in *. set (v2 := qy - (ay + tq * (by_ - ay))) in *.
  rewrite (sq_comp (px + lam * (qx - px) - (ax + (tp + lam * (tq - tp)) * (bx - ax))) ((1 - lam) * u1 + lam * v1)) by (unfold u1, v1; ring).
  rewrite (sq_comp (py + lam * (qy - py) - (ay + (tp + lam * (tq - tp)) * (by_ - ay))) ((1 - lam) * u2 + lam * v2)) by (unfold u2, v2; ring).
  clearbody u1 u2 v1 v2.
  assert (E : sq ((1 - lam) * u1 + lam * v1) + sq ((1 - lam) * u2 + lam * v2) ==
              (1 - lam) * (sq u1 + sq u2) + lam * (sq v1 + sq v2) - lam * (1 - lam) * (sq (u1 - v1) + sq (u2 - v2))) by (unfold sq; ring).
  rewrite E.
  assert (N : 0 <= lam * (1 - lam) * (sq (u1 - v1) + sq (u2 - v2))).
  { apply Qmult_le_0_compat; [apply Qmult_le_0_compat; lra|]. pose proof (sq_nonneg (u1 - v1)). pose proof (sq_nonneg (u2 - v2)). lra. }
  assert (A : (1 - lam) * (sq u1 + sq u2) <= (1 - lam) * e2) by nra.
  assert (B : lam * (sq v1 + sq v2) <= lam * e2) by nra.
  lra.
Qed.

(* the "covers" half: every point of the input segment that lies inside the rectangle deflated by eps is within eps of a point of the
   returned segment (the two ends of the inside part are, by the judgement; every point between them is, by convexity) *)
Theorem sandwich_covers_sound eps s xmin xmax ymin ymax r :
  sandwich_ok eps s xmin xmax ymin ymax true r = true ->
  forall u, 0 <= u <= 1 -> inside_rect (xmin + eps) (xmax - eps) (ymin + eps) (ymax - eps) (seg_x s u) (seg_y s u) ->
  exists t, 0 <= t <= 1 /\ sq (seg_x s u - seg_x r t) + sq (seg_y s u - seg_y r t) <= sq eps.
Proof.
  unfold sandwich_ok. cbv zeta. cbn [negb]. intros H u Hu Hin.
  apply andb_true_iff in H. destruct H as [_ Hc].
  destruct (Qleb (xmin + eps) (xmax - eps) && Qleb (ymin + eps) (ymax - eps)) eqn:E.
  2:{ exfalso. destruct Hin as [Hx Hy]. apply andb_false_iff in E. destruct E as [E|E]; apply Qleb_false in E; lra. }
  pose proof (exact_clip_spec s (xmin + eps) (xmax - eps) (ymin + eps) (ymax - eps)) as S.
  destruct (exact_clip s (xmin + eps) (xmax - eps) (ymin + eps) (ymax - eps)) as [[u1 u2]|]; [|exfalso; exact (S u Hu Hin)].
  destruct S as (S1 & S12 & S2 & S).
  assert (Hu12 : u1 <= u <= u2) by (apply S; split; assumption).
  apply andb_true_iff in Hc. destruct Hc as [C1 C2]. apply Qleb_iff in C1, C2.
  destruct (d2seg_witness _ _ _ _ _ _ _ C1) as (tp & Htp & Dp). destruct (d2seg_witness _ _ _ _ _ _ _ C2) as (tq & Htq & Dq).
  destruct (Qlt_le_dec u1 u2) as [L|G].
  - set (lam := (u - u1) / (u2 - u1)).
    assert (Hl : 0 <= lam <= 1).
    { unfold lam. split; [apply Qle_shift_div_l; lra|apply Qle_shift_div_r; lra]. }
    pose proof (convex_near _ _ _ _ _ _ _ _ tp tq lam (sq eps) Hl Dp Dq) as Cv.
    exists (tp + lam * (tq - tp)). split; [split; nra|].
    unfold seg_x, seg_y.
    assert (Eu : u == u1 + lam * (u2 - u1)) by (unfold lam; field; lra).
    rewrite (sq_comp (x1 s + u * (x2 s - x1 s) - (x1 r + (tp + lam * (tq - tp)) * (x2 r - x1 r)))
                     (x1 s + u1 * (x2 s - x1 s) + lam * (x1 s + u2 * (x2 s - x1 s) - (x1 s + u1 * (x2 s - x1 s))) - (x1 r + (tp + lam * (tq - tp)) * (x2 r - x1 r)))) by (rewrite Eu at 1; ring).
    rewrite (sq_comp (y1 s + u * (y2 s - y1 s) - (y1 r + (tp + lam * (tq - tp)) * (y2 r - y1 r)))
                     (y1 s + u1 * (y2 s - y1 s) + lam * (y1 s + u2 * (y2 s - y1 s) - (y1 s + u1 * (y2 s - y1 s))) - (y1 r + (tp + lam * (tq - tp)) * (y2 r - y1 r)))) by (rewrite Eu at 1; ring).
    exact Cv.
  - assert (Eu : u == u1) by lra. exists tp. split; [exact Htp|]. unfold seg_x, seg_y.
    rewrite (sq_comp (x1 s + u * (x2 s - x1 s) - (x1 r + tp * (x2 r - x1 r))) (x1 s + u1 * (x2 s - x1 s) - (x1 r + tp * (x2 r - x1 r)))) by (rewrite Eu; reflexivity).
    rewrite (sq_comp (y1 s + u * (y2 s - y1 s) - (y1 r + tp * (y2 r - y1 r))) (y1 s + u1 * (y2 s - y1 s) - (y1 r + tp * (y2 r - y1 r)))) by (rewrite Eu; reflexivity).
    exact Dp.
Qed.
