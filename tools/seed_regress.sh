#!/bin/bash
# tools/seed_regress.sh [regex]: apply every kept seeded change (whose name matches the regex, e.g. '^C0[1-7]-') to /repo in turn, run that property's quick check, expect exit 1; restores /repo and evidence.
cd "$(dirname "$0")/.."
REPO=${PLOTINK_REPO:-/repo}
EVB=$(mktemp -d /tmp/ev_bak.XXXXXX); cp -r evidence $EVB/
fail=0
for d in seeded/*/; do
  name=$(basename $d); id=${name%%-*}
  [ -f $d/patch.diff ] || continue
  if [ -n "${1:-}" ] && ! echo "$name" | grep -Eq "$1"; then continue; fi
  if git -C $REPO apply $PWD/$d/patch.diff 2>/dev/null || git -C $REPO apply --3way $PWD/$d/patch.diff 2>/dev/null; then
    out=$(./check $id quick 2>&1); rc=$?
    git -C $REPO reset -q --hard HEAD
    v=$(echo "$out" | grep -c "^VIOLATION"); nf=$(echo "$out" | grep -c "no-failing-input-found")
    echo "$name rc=$rc violations=$v no_input=$nf"
    [ $rc = 1 ] || fail=1
  else
    echo "$name patch does not apply (superseded by a fix commit)"; git -C $REPO reset -q --hard HEAD
  fi
done
rm -rf evidence; mv $EVB/evidence evidence; rmdir $EVB
git -C $REPO status --short | grep -v egg-info
exit $fail
