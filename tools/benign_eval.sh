#!/bin/bash
# tools/benign_eval.sh <ID> <agent-worktree> <name>: validate a HARMLESS rewrite produced by an independent sub-agent (same digest of observable
# behaviour before and after, 33 tests pass) and run the property's check against it: the expected outcome is exit 0.
# Writes /verif/benign/<name>/{patch.diff,demo.py,notes.md,meta.json,check_output.txt}.  Removes the agent worktree afterwards.
set -u
ID=$1; WT=$2; NAME=$3
OUT=/verif/benign/$NAME; mkdir -p $OUT
cp $WT/_seed/patch.diff $WT/_seed/demo.py $OUT/ 2>/dev/null; cp $WT/_seed/notes.md $OUT/ 2>/dev/null
sed -i "s#$WT#/tmp/sv_$NAME#g" $OUT/demo.py
SV=/tmp/sv_$NAME
git -C /repo worktree add -q --detach $SV HEAD || exit 2
cd $SV
G0=$(PYTHONPATH=$SV /venv/bin/python $OUT/demo.py 2>&1 | tail -1)
if git apply $OUT/patch.diff 2>/dev/null; then AP=0; else AP=1; fi
T=$(/venv/bin/python -m pytest -q -p no:cacheprovider 2>&1 | tail -1)
G1=$(PYTHONPATH=$SV /venv/bin/python $OUT/demo.py 2>&1 | tail -1)
cd /verif; git -C /repo worktree remove --force $SV
if [ $AP = 0 ]; then
  cp evidence/$ID.json /tmp/evidence_$ID.bak 2>/dev/null
  git -C /repo apply $OUT/patch.diff
  ./check $ID quick > $OUT/check_output.txt 2>&1; CK=$?
  git -C /repo reset -q --hard HEAD
  mv /tmp/evidence_$ID.bak evidence/$ID.json 2>/dev/null
else CK=-1; fi
SAME=$([ "$G0" = "$G1" ] && echo true || echo false)
python3 - <<PY
import json
json.dump({"property":"$ID","name":"$NAME","patch_applies":$AP==0,"digest_same":"$SAME"=="true","tests_with_patch":"""$T""",
 "check_cmd":"./check $ID quick","check_exit_with_patch":$CK,
 "check_violation_lines":[l.strip() for l in open("$OUT/check_output.txt") if l.startswith("VIOLATION")] if $CK!=-1 else []},
 open("$OUT/meta.json","w"),indent=1)
PY
echo "$NAME: apply=$AP same_digest=$SAME tests='$T' check_exit=$CK"; grep -h "VIOLATION" $OUT/check_output.txt | head -3
git -C /repo worktree remove --force $WT 2>/dev/null
git -C /repo status --short | grep -v egg-info
