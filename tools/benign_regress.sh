#!/bin/bash
# tools/benign_regress.sh: apply every kept harmless rewrite (benign/*/patch.diff) to the repository in turn, run that property's quick check,
# expect exit 0 (benign/EXPECTED_ALARMS lists the rewrites that leave the translator's subset by design); restores the repository and evidence.
cd "$(dirname "$0")/.."
REPO=${PLOTINK_REPO:-/repo}
rm -rf /tmp/ev_bak_b; cp -r evidence /tmp/ev_bak_b
fail=0
for d in benign/*/; do
  name=$(basename $d); id=${name%%-*}
  [ -f $d/patch.diff ] || continue
  if git -C $REPO apply $PWD/$d/patch.diff 2>/dev/null; then
    out=$(./check $id quick 2>&1); rc=$?
    git -C $REPO reset -q --hard HEAD
    exp=0; grep -qx "$name" benign/EXPECTED_ALARMS 2>/dev/null && exp=1
    echo "$name rc=$rc expected=$exp $(echo "$out" | grep -c no-failing-input-found) no-input"
    [ $rc = $exp ] || fail=1
  else
    echo "$name patch does not apply"; git -C $REPO reset -q --hard HEAD
  fi
done
rm -rf evidence; mv /tmp/ev_bak_b evidence
exit $fail
