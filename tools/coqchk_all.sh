#!/bin/bash
# tools/coqchk_all.sh: re-check every compiled Props file (and everything it depends on) with Coq's independent checker and
# record the context summary (axioms, type-in-type, unsafe fixpoints, assumed positivity) in /verif/coqchk_report.txt
cd /verif/coq || exit 2
mods=$(for i in $(seq -w 1 20); do echo -n "Plotink.Props.C$i "; done)
{ echo "coqchk -silent -o -Q . Plotink $mods"; echo "coq: $(coqc --version | head -1)"; echo "commit: $(git -C /verif rev-parse --short HEAD)"; 
  timeout 3600 coqchk -silent -o -Q . Plotink $mods 2>&1; echo "exit: $?"; } > /verif/coqchk_report.txt
tail -15 /verif/coqchk_report.txt
