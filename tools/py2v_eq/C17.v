
(* ---- C17 (and the end-rate clause of C02): rate_t3 and max_rate_t3 as they are in the source now = Model/EbbCalc.v ---- *)
Lemma rate_t3_eq : forall time rate accel jerk, t_rate_t3 time rate accel jerk = rate_t3 time rate accel jerk.
Proof. kernel_eq_zq. Qed.
Lemma max_rate_t3_eq : forall time rate accel jerk, t_max_rate_t3 time rate accel jerk = max_rate_t3 time rate accel jerk.
Proof. kernel_eq_zq. Qed.
