
(* ---- C13: the squared distance nearest() compares = Model/Grid.v sqdist ---- *)
Lemma square_dist_eq : forall a b : Q * Q, t_square_dist a b = sqdist a b.
Proof. kernel_eq. Qed.
