
(* ---- C18: the travel-limit helpers as they are in the source now = Model/Limits.v ---- *)
Lemma checkLimits_eq : forall v lo hi, t_checkLimits v lo hi = checkLimits v lo hi.
Proof. kernel_eq. Qed.
Lemma checkLimitsTol_eq : forall v lo hi tol, t_checkLimitsTol v lo hi tol = checkLimitsTol v lo hi tol.
Proof. kernel_eq. Qed.
Lemma point_in_bounds_eq : forall x y xmin ymin xmax ymax tol,
  t_point_in_bounds (x, y) ((xmin, ymin), (xmax, ymax)) tol = point_in_bounds x y xmin ymin xmax ymax tol.
Proof. kernel_eq. Qed.
Lemma constrainLimits_eq : forall v lo hi, t_constrainLimits v lo hi = constrainLimits v lo hi.
Proof. kernel_eq. Qed.
Lemma point_in_bounds_default_tolerance : t_point_in_bounds_default_tolerance = 1 # 1000000000.
Proof. reflexivity. Qed.
