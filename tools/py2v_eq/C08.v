
(* ---- C08: the region encoder as it is in the source now = the four flags of Model/Clip.v ---- *)
Definition code_bits (c : code) : Z :=
  Z.lor (Z.lor (Z.lor (if cL c then 1 else 0) (if cR c then 2 else 0)) (if cT c then 4 else 0)) (if cB c then 8 else 0).
Lemma clip_code_eq : forall x y xmin xmax ymin ymax, t_clip_code x y xmin xmax ymin ymax = code_bits (clip_code x y xmin xmax ymin ymax).
Proof.
  intros. unfold t_clip_code, code_bits, clip_code. cbn [cL cR cT cB].
  destruct (Qltb x xmin), (Qltb xmax x), (Qltb y ymin), (Qltb ymax y); reflexivity.
Qed.
