
(* ---- C01: move_dist_lt as it is in the source now = Model/EbbCalc.v (accum = None stands for "clear") ---- *)
Lemma move_dist_lt_eq : forall rate accel time accum, t_move_dist_lt rate accel time accum = move_dist_lt rate accel time accum.
Proof. intros. destruct accum; kernel_eq_zq. Qed.
