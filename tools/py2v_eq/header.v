(* Generated on every run: kernels translated from /repo's current source by tools/py2v.py, followed by the committed
   equivalence lemmas (tools/py2v_eq/<property>.v) that tie them to the hand-written model the theorems are about. *)
From Plotink Require Import Base.Prelude Model.Limits Model.Clip Model.Grid Model.Simplify.
Open Scope Q_scope.

(* generic fallback when a harmless rewrite of the source makes the two sides differ syntactically: case analysis on every
   comparison, contradictory cases closed by linear arithmetic *)
Ltac kernel_cases :=
  repeat match goal with
  | |- context [Qltb ?a ?b] => let E := fresh "E" in destruct (Qltb a b) eqn:E; [apply Qltb_iff in E | apply Qltb_false in E]
  | |- context [Qleb ?a ?b] => let E := fresh "E" in destruct (Qleb a b) eqn:E; [apply Qleb_iff in E | apply Qleb_false in E]
  end.
Ltac kernel_eq := intros; first [reflexivity | (cbv beta delta -[Qplus Qminus Qmult Qdiv Qopp Qltb Qleb Qeqb pymin pymax Z.lor] ; kernel_cases; cbn; first [reflexivity | exfalso; lra])].


(* the assertions of a translated function never fire (generated lemma t_<name>__asserts_hold) *)
Ltac kernel_assert f := intros; cbv beta delta -[Qplus Qminus Qmult Qdiv Qopp Qltb Qleb Qeqb pymin pymax Z.lor]; kernel_cases; cbn; first [reflexivity | exfalso; lra].
