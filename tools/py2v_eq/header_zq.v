(* Generated on every run: integer/float kernels of ebb_calc.py translated from /repo's current source by tools/py2v.py --zq,
   followed by the committed equivalence lemmas that tie them to the hand-written model the theorems are about. *)
From Plotink Require Import Base.Prelude Model.EbbCalc Proofs.EbbCalcProofs.
Open Scope Z_scope.


(* the translated kernel and the hand model are convertible as long as the source keeps its shape; when a harmless rewrite changes the
   branch structure (a helper with early returns, a merged or split condition) the fallback unfolds both sides, decides every integer
   comparison both ways, closes the impossible combinations by linear arithmetic and compares the leaves *)
#[local] Hint Unfold move_dist_lt move_dist_t3 rate_t3 max_rate_t3 clear_lt clear_t3 : kernels.
Ltac no_if t := lazymatch t with context [if _ then _ else _] => fail | _ => idtac end.
Ltac zq_cases :=
  repeat match goal with
  | |- context [?a <? ?b] => no_if a; no_if b; let E := fresh "E" in destruct (Z.ltb_spec a b) as [E|E]
  | |- context [?a <=? ?b] => no_if a; no_if b; let E := fresh "E" in destruct (Z.leb_spec a b) as [E|E]
  | |- context [?a =? ?b] => no_if a; no_if b; let E := fresh "E" in destruct (Z.eqb_spec a b) as [E|E]
  end.
Lemma Qround_he_comp x y : (x == y)%Q -> Qround_he x = Qround_he y.
Proof. intros E. unfold Qround_he. rewrite (Qfloor_comp _ _ E). cbv zeta. assert (C : ((x - inject_Z (Qfloor y)) ?= 1 # 2)%Q = ((y - inject_Z (Qfloor y)) ?= 1 # 2)%Q) by (rewrite E; reflexivity). rewrite C. reflexivity. Qed.
(* leaves: syntactically equal, or equal up to integer arithmetic, or roundings of rationals that are equal as rationals (an integer sum
   injected as a whole on one side and term by term on the other) *)
Ltac zq_q := unfold iz, Z.sub; repeat first [rewrite inject_Z_plus | rewrite inject_Z_mult | rewrite inject_Z_opp]; first [reflexivity | ring | field].
Ltac zq_leaf := cbn [negb andb orb]; first [reflexivity | exfalso; lia | (repeat f_equal; first [reflexivity | lia]) | (apply Qround_he_comp; zq_q) | (apply Qtrunc_comp; zq_q) | (apply Qfloor_comp; zq_q)].
Ltac kernel_eq_zq := intros; first [timeout 30 reflexivity | (autounfold with kernels; cbv beta zeta; zq_cases; zq_leaf)].

(* the assertions of a translated function never fire (generated lemma t_<name>__asserts_hold) *)
Ltac kernel_assert f := intros; repeat match goal with x : option Z |- _ => destruct x end; unfold f; autounfold with kernels; cbv beta zeta; zq_cases; cbn [negb andb orb]; repeat match goal with |- (if ?b then _ else _) = true => destruct b end; first [reflexivity | exfalso; lia].
