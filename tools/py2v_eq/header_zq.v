(* Generated on every run: integer/float kernels of ebb_calc.py translated from /repo's current source by tools/py2v.py --zq,
   followed by the committed equivalence lemmas that tie them to the hand-written model the theorems are about. *)
From Plotink Require Import Base.Prelude Model.EbbCalc.
Open Scope Z_scope.

