
(* ---- C02: move_dist_t3 and rate_t3 as they are in the source now = Model/EbbCalc.v ---- *)
Lemma move_dist_t3_eq : forall time rate accel jerk accum, t_move_dist_t3 time rate accel jerk accum = move_dist_t3 time rate accel jerk accum.
Proof. intros. destruct accum; kernel_eq_zq. Qed.
Lemma rate_t3_eq : forall time rate accel jerk, t_rate_t3 time rate accel jerk = rate_t3 time rate accel jerk.
Proof. kernel_eq_zq. Qed.
