#!/bin/bash
# tools/benign_reeval.sh <ID> <tag>: re-run the property's check against the kept harmless rewrite benign/<ID>-<tag> (expected: exit 0)
ID=$1; NAME=$1-$2; OUT=/verif/benign/$NAME
cd /verif; cp evidence/$ID.json /tmp/evidence_$ID.bak 2>/dev/null
git -C /repo apply $OUT/patch.diff || exit 2
./check $ID quick > $OUT/check_output.txt 2>&1; CK=$?
git -C /repo reset -q --hard HEAD; mv /tmp/evidence_$ID.bak evidence/$ID.json 2>/dev/null
python3 - <<PY
import json
m=json.load(open("$OUT/meta.json")); m["check_exit_with_patch"]=$CK
m["check_violation_lines"]=[l.strip() for l in open("$OUT/check_output.txt") if l.startswith("VIOLATION")]
json.dump(m,open("$OUT/meta.json","w"),indent=1)
PY
echo "$NAME: check_exit=$CK"; grep -h "VIOLATION" $OUT/check_output.txt | head -2
