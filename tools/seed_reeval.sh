#!/bin/bash
# tools/seed_reeval.sh <ID> <tag>: re-run the evaluation of the kept seeded change seeded/<ID>-<tag> (after strengthening a check)
n=$1; tag=$2; d=/tmp/st_$n$tag; rm -rf $d; mkdir -p $d
cp /verif/seeded/$n-$tag/{patch.diff,demo.py,notes.md} $d/; echo -n /tmp/sv_$n-$tag > $d/orig_wt
cd /verif && timeout 1800 tools/seed_eval.sh $n $d $n-$tag 2>&1 | tail -2
