#!/bin/bash
# tools/seed_batch.sh <tag> <ID>...: evaluate finished sub-agent worktrees /tmp/wt_<ID> one after the other as seeded/<ID>-<tag>
tag=$1; shift
cd /verif
for p in "$@"; do tools/seed_eval.sh $p /tmp/wt_$p $p-$tag 2>&1 | grep "apply=\|^VIOL"; done
