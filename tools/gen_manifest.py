#!/usr/bin/env python3
"""Regenerates /verif/MANIFEST.json from the table below (single source of truth for the interface)."""
import json, os
V = os.path.dirname(os.path.dirname(os.path.abspath(__file__)))
ALL = ["C%02d" % i for i in range(1, 21)]

# id -> (technique, level text, level note, design ref)
NOTE_COMMON = ("Trusted: Coq 8.16.1 kernel + vm_compute; the hand-written Gallina model (tied to /repo by this run's correspondence: sampled, not exhaustive); "
               "the python harness and literal encoder; see evidence trusted_base for the per-property list. ")
CLAIMED = {
 "C01": ("Coq proof: exact model = firmware recurrence for every tick count (induction) + correspondence",
         "Theorem C01_exact: for all integers and every T>=1 the exact-arithmetic model of move_dist_lt equals the tick-by-tick firmware recurrence (both accumulator forms, "
         "both clear values), remainder in [0,2^31); aliases equal. Theorems C01_rounding_exact / C01_rounding_exact_rne (Proofs/RndProofs.v proves the executable round-to-nearest-even Base.Rnd.round_ne to be such an operator: respects ==, monotone, fixes p-bit numbers, relative error <= 2^-p; mpmath's operations are compared with it on generated operands every run): with every mpmath operation of move_dist_lt followed by ANY rounding operator that leaves 103-bit numbers unchanged "
         "(dps = 30), the rounded computation equals the exact one for |rate| <= 2^33, |accel| <= 2^32, T <= 2^32, accumulator in [0,2^31) - the 30-digit arithmetic the code forces is exact on the domain. The model is tied to ebb_calc.py/ebb_motion.py by running both on firmware-valid inputs (T up to 2^32-1) "
         "under varying ambient mpmath precision; every implementation output is also checked against the proved O(1) closed form of the recurrence.",
         NOTE_COMMON + "move_dist_lt is re-translated from the source on every run (tools/py2v.py, mpmath calls read as exact arithmetic) and proved equal to the model. That mpmath rounds each operation to 103 bits leaving representable values unchanged (correct rounding) and that the float quotient accel/2 truncates exactly are assumptions about mpmath / CPython, sampled here under six ambient precisions.",
         "DESIGN.md section 5, C01"),
 "C02": ("Coq proof: exact models = third-order recurrence for every tick count (induction) + correspondence",
         "Theorems C02_exact_dist / C02_exact_rate / C02_zero_jerk: for all integers and every T>=1 the exact models of move_dist_t3 and rate_t3 equal the tick-by-tick third-order "
         "recurrence incl. the three-tick clear rule; zero jerk coincides with move_dist_lt. Theorems C02_rounding / C02_rounding_rne / C02_rate_float_exact_rne (instances for the executable round-to-nearest-even, Proofs/RndProofs.v): with every mpmath operation of move_dist_t3 rounded by ANY operator that fixes 103-bit numbers and has "
         "relative error <= 2^-102, the error reaching round() is at most 1/4 on the domain (|rate| <= 2^33, |accel|, |jerk| <= 2^32, T <= 2^32, |jerk| T <= 2^33), the exact total is an integer and the snap test takes the same branch, so the rounded computation equals the exact one. Correspondence with ebb_calc.py over the firmware-valid domain under varying mpmath precision.",
         NOTE_COMMON + "move_dist_t3 and rate_t3 are re-translated from the source on every run (tools/py2v.py) and proved equal to the model. C02_rate_float_exact: rate_t3 in binary64 arithmetic equals the exact one for any rounding that fixes binary64 numbers. That mpmath's and CPython's operations are such roundings is assumed, sampled here under six ambient precisions.",
         "DESIGN.md section 5, C02"),
 "C03": ("Coq proof: exact model of calculate_lm proved to return the tick-by-tick 'first tick reaching the budget' answer for all integers in the domain; O(1) checker equivalent to the spec; implementation compared with the model and decided by the checker",
         "Theorem C03_model_correct: for all integers, the exact-arithmetic model of calculate_lm (branch structure, reversal tick, quadratic solve with both ceilings via the integer square root, "
         "discarding of roots before the reversal, legacy mirror form) returns an answer that passes lm_check whenever that answer keeps the request in the property's domain "
         "(accumulator in [0,2^31) or clear, per-tick |rate| <= 2^31-1 through the reported duration); proved for forward-starting moves in four cases and for backward-starting moves through the mirror symmetry of model and specification. "
         "Theorems C03_rounding / C03_root_rounding: with the square root of the discriminant, the sums -b +- sqrt, the divisions by 2a and the constant-rate division rounded, the model equals the exact one for every request within the firmware argument ranges, for every monotone rounding operator that fixes 103-bit numbers and every monotone non-negative square root exact on squares of binary fractions (no error bound needed; that mpmath provides such operators is trusted). "
         "Theorem C03_checker_iff_spec: for all integers lm_check (closed-form total, closed-form count of steps taken around the single sign change of the rate) holds of an output "
         "iff the output is the first tick at which the steps taken under the C01 recurrence reach the budget, with that tick's position and accumulator; C03_consequence: the accumulator "
         "is in [0,2^31) and the timed-move recurrence at the reported duration reproduces position and accumulator; C03_invalid. calculate_lm / moveTimeLM outputs on valid moves "
         "(reversals at tick 1,2,3,.., step-boundary landings, durations to 2^32) are decided by the checker inside Coq (translation validation of outputs). The reversal branches of the "
         "tree as found violated the property and were repaired in /repo. C03_full_rounding_rne: calculate_lm with every mpmath operation rounded in source order (round-to-nearest-even at 103 bits, executable correctly rounded square root sqrt_ne, both with their order properties proved) returns the exact model's answer for every request in the firmware's argument ranges with a duration up to 2^32; that executable rounded model is also compared with every implementation output.",
         NOTE_COMMON + "The model reads mpmath at 30 digits as exact arithmetic (sqrt, ceil, floor become integer-square-root computations); that rounding to nearest at 103 bits never changes a ceiling on the domain is proved (C03_rounding, C03_full_rounding_rne); that mpmath's operations are that rounding is compared on generated operands every run. Every implementation output is compared with the model and independently decided by the proved checker.",
         "DESIGN.md section 5, C03"),
 "C04": ("Coq proof: induction over all call histories and I/O scripts on a model of all 32 request methods + connect/disconnect; correspondence by history replay",
         "Theorems C04_step_silent, C04_err_first_wins, C04_history, C04_only_connect_writes: for every history of public calls, every start state and every I/O script (a fault at any read or write), "
         "a request on an object that is not connected or holds an error writes nothing, consumes nothing, returns its failure value and changes nothing; the recorded error is never replaced; "
         "only connect writes after an error. The model is replayed against ebb3_serial/ebb3_motion on systematic (method x latched pre-state x reconnect handshake) and random histories.",
         NOTE_COMMON + "pyserial is a fake port (write/readline succeed, time out, or raise SerialException).", "DESIGN.md section 5, C04"),
 "C05": ("Coq proof: framing/outcome of command and query for all scripts, no-raise of the primitives, attribution by induction over request lists; fault-position enumeration",
         "Theorems C05_command_frame/outcome, C05_query_frame/outcome, C05_primitives_no_raise, C05_attribution: one write of the trimmed text, at most 26 reads, success iff the reply begins with the "
         "request's name and has no 'Err:', payload = reply minus name and one comma, failures recorded, no exception from the primitives for any script, and against a conforming device every "
         "request of any sequence consumes exactly its own reply. Theorem C05_request_methods_no_raise: each of the 30 public request methods returns normally from every state on every script whose lines are failing replies for the names it uses (blank / containing 'Err:' / not beginning with the name), with faults and silence anywhere (argument errors excluded: blank text, value outside 32 bits). Every method is run with a fault / error line / wrong name / silence at every I/O position of its nominal exchange.",
         NOTE_COMMON + "A raise is possible only from the payload of a name-correct, error-free reply; that such payloads parse is sampled against the conforming-device model; the reboot-class exemption is stated.", "DESIGN.md section 5, C05"),
 "C06": ("Coq proof: emitted text = documented table for all integer arguments, pause chunking by induction, suppression iff; correspondence per helper",
         "Theorems C06_legacy, C06_ebb3, C06_layers_agree, C06_pause, C06_lowlevel_suppressed_iff on the models of the text construction of both layers; the bytes written by every helper "
         "against an all-acknowledging port are compared with the model and with Spec/EbbDoc.v (zero-valued optional arguments, chunk boundaries, all zero/non-zero patterns of LM arguments).",
         NOTE_COMMON + "The documented table is transcribed from the repository's docstrings; the theorem content is a table equality, the weight is in the correspondence.", "DESIGN.md section 5, C06"),
 "C07": ("Coq proof: shape/no-raise for all scripts, alignment by induction over request sequences against the conforming legacy board; correspondence",
         "Theorems C07_query, C07_command, C07_one_aligned, C07_sequence_aligned, C07_as_found_refuted on the model of ebb_serial.query/command: one write at most, never an exception, text back, "
         "no-op without port/text; every sequence of requests against a conforming board (each line preceded by <= 100 empty reads) returns request k's own data line and consumes exactly its replies.",
         NOTE_COMMON, "DESIGN.md section 5, C07"),
 "C08": ("Coq proof (field/lra over Q): Cohen-Sutherland invariant, termination measure, exact result; Fractions correspondence; floats judged by a sandwich checker",
         "Theorems C08_result, C08_accept_iff, C08_no_div0, C08_measure, C08_reference_interval, C08_judgement_reject, C08_judgement_accept: for all rational segments and rectangles (min<=max) the model of clip_segment accepts iff some point of the segment is inside, "
         "returns seg(t1), seg(t2) with 0<=t1<=t2<=1 covering every inside parameter, never divides by zero, never reaches the failsafe (each clip lowers the number of violated sides). "
         "The code runs unchanged on Fractions and is compared exactly; float runs are judged in exact arithmetic with eps = 1e-9 x scale. clip_code is re-translated from the source on every run (py2v) and proved equal to the model's region flags. The tolerant judgement of float runs is proved sound (C08_reference_interval, C08_judgement_reject / accept / covers: every point of the input inside the eps-deflated rectangle is within eps of the returned segment).",
         NOTE_COMMON + "Float rounding staying inside the tolerance is sampled, not proved; the reference interval of the sandwich checker is proved to be the exact inside part (C08_reference_interval); and what a passing rejection / acceptance certifies is proved (C08_judgement_reject / _accept); the orientation and coverage clauses of the judgement are as written in Corr/C08.v.", "DESIGN.md section 5, C08"),
 "C09": ("Coq proof: predicate = true point-segment distance (nra over Q), reduction relation by induction on the nested loops; Fractions correspondence with object identity",
         "Theorems C09_predicate_is_distance, C09_points_in_tolerance, C09_reduction, C09_subsequence, C09_unchanged: the fast predicate accepts a point iff some point of the chord is strictly "
         "closer than the tolerance; supersample only deletes, keeps first and last vertex, and every deleted vertex passes that test against the segment joining its surviving neighbours.",
         NOTE_COMMON + "max_dist_from_n_points (float sqrt) is compared outside a 1e-9 band around the tolerance.", "DESIGN.md section 5, C09"),
 "C10": ("Coq proof: de Casteljau halves (field), refinement relation and dyadic tiling by induction, termination for every node list and flat > 0 with an explicit iteration bound; float-exact correspondence",
         "Theorems C10_halves, C10_refines_and_flat, C10_dyadic_tiling, C10_nodes_survive, C10_flat_is_distance, C10_terminates, C10_piece_bound: the call returns for every node list and every flat > 0 "
         "(a half's control polygon is at most half as long in every coordinate, a short control polygon is flat, so a piece is finished after at most 2^(k+1)-1 loop iterations); it replaces each original "
         "piece by its halves recursively (pieces = the original restricted to consecutive dyadic intervals tiling [0,1]), keeps the outer handles and all original nodes, and leaves only flat pieces.",
         NOTE_COMMON + "beziersplitatt is dependency code (modelled). On the quarter-integer grid the float run is exact and compared node for node. Termination is proved in exact arithmetic; in floats "
         "a piece can stop shrinking at the resolution of the format (not modelled).", "DESIGN.md section 5, C10"),
 "C11": ("Coq proof (field/lra over Q) of the SVG equations for the numeric core + general parse theorem over all spellings + bit-exact float correspondence",
         "Theorem C11_core: for all positive sizes and every alignment x meet/slice the exact-layer result satisfies the SVG 1.1 preserveAspectRatio equations; C11_valid ties the "
         "string layer to the core; C11_parse_general: for every letter-case variant of defer / the ten alignments / meet / slice and every run of white space and commas between and around them the parser extracts exactly the alignment and the keyword (C11_tokens: the tokeniser on any sentence of words); C11_parse_sweep additionally decides 8100 spellings in the kernel; identity and no-raise theorems. The same model with round-to-nearest-even "
         "after every operation is compared bit for bit with plot_utils.vb_scale, and outputs are judged against the exact answer within 1e-9; non-positive and malformed sizes are also run under python -O; viewBox values that float() reads beyond the SVG numeral grammar must give the identity (defect repaired in /repo 385a4fc).",
         NOTE_COMMON + "Float rounding is modelled by Base/Rnd.v (executed, not proved equal to IEEE 754); CPython float(str) assumed correctly rounded.",
         "DESIGN.md section 5, C11"),
 "C12": ("Coq proof: one factor table, round trips, parser theorem over all numerals/whitespace + bit-exact float correspondence",
         "Theorems: the four conversion tables equal one SVG factor table (96 px/in), round trips, px = 96 x in, percentages of the supplied reference, None on unparsable text; "
         "C12_parse holds for every numeral ending in a digit or dot, every recognised suffix and any surrounding whitespace. The rnd53 execution of the same model is compared bit for bit "
         "with plot_utils on generated and malformed strings (including the texts float() reads beyond the SVG numeral grammar - inf, nan, underscores, other scripts' digits - which must give None: defect repaired in /repo 9a4ea9d).",
         NOTE_COMMON + "Numeral -> value is the modelled decimal grammar (inf/nan/underscore literals are outside it); float rounding executed by Base/Rnd.v.",
         "DESIGN.md section 5, C12"),
 "C13": ("Coq proof for every path list, bins >= 1, reversal setting and removal history: grid invariant by induction over removals, adjacency = Chebyshev-1, nearest() over the live ends; history correspondence on Fractions",
         "Theorems C13_nearest (construction files every end in range in the cell of its coordinates; removals of distinct existing paths never raise and take out exactly that path's ends; "
         "a query returns None exactly when no end is alive, otherwise the id of a live end at least as close as every live end in the query's cell and its eight neighbours, and as every live end "
         "when those hold none), C13_none_iff, C13_one_cell_width (an end within one cell width of the query is in a neighbouring cell, so the result is at least as close as it), C13_adjacent, "
         "C13_build. square_dist is re-translated from the source on every run (py2v) and proved equal to the model's sqdist. The model is replayed on histories of queries and removals on Fractions, and every answer is judged by brute force over the live ends.",
         NOTE_COMMON + "Exact rational arithmetic; floats are judged, not modelled. Removing a path twice (ValueError in the code) is outside the theorem's hypotheses.", "DESIGN.md section 5, C13"),
 "C14": ("Coq proof: query = brute force for all box lists (induction on fuel = size) + exact-rational correspondence",
         "Theorem C14_query_eq_brute: for every list of valid boxes and every query the model of Index(...).intersection returns exactly the ids whose box overlaps the query; "
         "C14_terminates: the recursion depth is bounded by the number of boxes (fuel-irrelevance); C14_strict_refuted: the constructor as found (strict tests) violated the property "
         "(repaired in /repo e004255). Model tied to rtree.py by running both on Fractions; float runs are judged by brute force.",
         NOTE_COMMON, "DESIGN.md section 5, C14"),
 "C15": ("Coq proof: numeric version order laws, connect characterisation for all handshake scripts, legacy gates; correspondence against packaging.version",
         "Theorems C15_order_is_numeric, C15_order_laws, C15_min_version, C15_connect, C15_gate_*: the order is the padded component-wise numeric order; connect returns True only with an open port "
         "and a parsed version >= 3.0.2 from an EBB reply, False always with an error recorded and at most two probes written; each gated legacy helper writes its command only after the board "
         "reported at least the threshold version.",
         NOTE_COMMON + "packaging.version.parse is modelled for dotted decimals and compared on every generated pair.", "DESIGN.md section 5, C15"),
 "C16": ("Coq proof: 4-byte variable write / read-back and nickname write / read-back composed against the board model for every board content, value, slot and text; int32 split/join for all values; motor protocol (20 states x 36 requests) and byte exchange (256 x 32) swept exhaustively in the kernel by co-simulation with the board model",
         "Theorems C16_int32_round_trip and C16_nickname_round_trip: for every board content (32 slots, any nickname and motor state), every connected error-free client state, every signed 32-bit value and start slot 0..28 "
         "(resp. every nickname text) the write is a coherent run (the lines written are the lines the board answered) that returns True and stores exactly the four big-endian bytes (resp. the trimmed text), and the read-back returns the value. "
         "Theorems C16_motors_any_board / C16_motors_query_any_board: the motor protocol and its decoding for every board (any variable store and nickname, all 20 motor states) and every integer request. "
         "Theorems C16_int32_split_join, C16_byte_exchange, C16_motors, C16_motors_clamp: against Spec/Board.v every int32 is stored as four big-endian bytes and read back; after motors_enable "
         "from any prior state the enabled flags and the global mode are as requested, also when only motor 2 is enabled. The python fake board used by the harness is re-derived from "
         "Spec/Board.v reply by reply on every run.",
         NOTE_COMMON + "The board model is an assumption (docstrings / public command reference); no firmware source is available offline.", "DESIGN.md section 5, C16"),
 "C17": ("Coq proof: discrete convexity argument over Z for all integers and all T + correspondence",
         "Theorems C17_is_a_tick, C17_ends, C17_within_jerk, C17_limit, C17_oracle_is_peak, C17_float_exact, C17_float_exact_rne (the executable round-to-nearest-even at 53 bits is proved to be such a rounding; CPython's operations are compared with it on generated operands every run): for all integers and every T>=1 the exact model of max_rate_t3 reports the absolute rate of some tick 1..T, "
         "at least both end rates, and every tick's absolute rate is within |jerk| of it. Correspondence with ebb_calc.max_rate_t3 on vertex-boundary families.",
         NOTE_COMMON + "rate_t3 and max_rate_t3 are re-translated from the source on every run (tools/py2v.py) and proved equal to the model. C17_float_exact: the float computation (binary64 quotient t_mid, its two comparisons, math.ceil, rate_t3's float expression) equals the exact model on the whole domain for every monotone rounding operator that fixes binary64 numbers (that IEEE round-to-nearest is one is trusted). The O(1) peak used to judge outputs is proved to be the true peak (C17_oracle_is_peak).",
         "DESIGN.md section 5, C17"),
 "C18": ("Coq proof (lra over Q) on a hand model; the four helpers re-translated from the source on every run (py2v) and proved equal to the model; exact-rational correspondence with /repo",
         "Theorems for all rationals: each helper returns the clamp of the value (value inside, nearer bound outside), flags exactly the outliers "
         "(by more than the tolerance for the tolerant one), and the 2-D test equals the tolerant checker per coordinate. The hand model is tied to "
         "plot_utils.py on every run twice: tools/py2v.py regenerates Gallina definitions from the current source and the equivalence lemmas of tools/py2v_eq/C18.v are re-checked by the kernel, "
         "and both are executed on the same exact rational inputs (the code is duck-typed and runs on Fractions).",
         NOTE_COMMON + "Float rounding inside comparisons is outside the model (floats are converted exactly).",
         "DESIGN.md section 5, C18"),
 "C19": ("Coq proof: first/list/lookup characterisations, own-name lookup via substring lemmas, case insensitivity, layer agreement; correspondence on a descriptor grammar",
         "Theorems C19_first, C19_list, C19_lookup, C19_own_name_matches, C19_lookup_self, C19_case_insensitive, C19_layers for all port lists and names (ASCII).",
         NOTE_COMMON, "DESIGN.md section 5, C19"),
 "C20": ("Coq proof: escape = per-character map, decode round trip, hms arithmetic + correspondence incl. lxml as reference parser",
         "Theorems: xml_escape is a per-character map, leaves no raw special, every & starts an entity, and an XML parser (Spec/Xml.v, validated against lxml each run) reads the escaped text "
         "back as the original in content (no CR) and in attributes (no TAB/LF/CR); the statement without those side conditions is refuted (known finding C20-D10). format_hms: for every "
         "rational d >= 10 the fields encode round-half-even(d) with minutes/seconds in 0..59 and the form chosen by the rounded value; C20_render_reads_back / C20_hms_text_long: the characters printed decode (split at the first blank, '.', ':') to exactly those fields.",
         NOTE_COMMON + "lxml/libxml2 is the reference parser; CPython round()/'%.3f' assumed correctly rounded.",
         "DESIGN.md section 5, C20"),
}
REASON_PENDING = "check not built yet in this revision (work in progress; see DESIGN.md section 5 for the planned theorem and tie)"

def main():
    checks = []
    for pid in ALL:
        if pid not in CLAIMED:
            continue
        tech, text, note, ref = CLAIMED[pid]
        checks.append({
            "property_id": pid,
            "quick_cmd": "./check %s quick" % pid,
            "thorough_cmd": "./check %s thorough" % pid,
            "evidence_file": "/verif/evidence/%s.json" % pid,
            "replay_cmd_template": "./check %s quick --replay {path}" % pid,
            "engine": "coq-proof+correspondence",
            "level_claimed": {"category": "proof", "text": text, "design_ref": ref},
            "level_note": note,
            "technique": tech,
        })
    man = {
        "version": 1,
        "setup_cmd": "cd /verif/coq && coq_makefile -f _CoqProject -o Makefile && timeout 3000 make -j16",
        "hooks": {
            "guard": "PLOTINK_VERIF",
            "enable": "no hooks are needed: fake ports, comports and serial.Serial are injected by the harness from outside; the guard name is reserved and set by ./check",
            "baseline_off_cmd": "cd /repo && /venv/bin/python -m pytest -ra -q -p no:cacheprovider --timeout=900 --continue-on-collection-errors",
            "source_commits": [],
            "add_only": True,
        },
        "engines": [{
            "name": "coq-proof+correspondence", "path": "/verif/check",
            "serves_properties": sorted(CLAIMED),
            "kind_free_text": "Coq 8.16.1 theory under /verif/coq (hand models, specs, proved checkers, one Props/Cxx.v per property) + python harness that runs /repo's code and the model on the same cases inside Coq (vm_compute)",
        }],
        "checks": checks,
        "not_applicable": [{"property_id": p, "reason": REASON_PENDING} for p in ALL if p not in CLAIMED],
        "notes": "All checks: ./check Cxx quick|thorough [--replay file]; VERIF_SEED honoured. See DESIGN.md.",
    }
    with open(os.path.join(V, "MANIFEST.json"), "w") as f:
        json.dump(man, f, indent=1); f.write("\n")
if __name__ == "__main__":
    main()
