#!/usr/bin/env python3
"""Regenerates /verif/MANIFEST.json from the table below (single source of truth for the interface)."""
import json, os
V = os.path.dirname(os.path.dirname(os.path.abspath(__file__)))
ALL = ["C%02d" % i for i in range(1, 21)]

# id -> (technique, level text, level note, design ref)
NOTE_COMMON = ("Trusted: Coq 8.16.1 kernel + vm_compute; the hand-written Gallina model (tied to /repo by this run's correspondence: sampled, not exhaustive); "
               "the python harness and literal encoder; see evidence trusted_base for the per-property list. ")
CLAIMED = {
 "C01": ("Coq proof: exact model = firmware recurrence for every tick count (induction) + correspondence",
         "Theorem C01_exact: for all integers and every T>=1 the exact-arithmetic model of move_dist_lt equals the tick-by-tick firmware recurrence (both accumulator forms, "
         "both clear values), remainder in [0,2^31); aliases equal. The model is tied to ebb_calc.py/ebb_motion.py by running both on firmware-valid inputs (T up to 2^32-1) "
         "under varying ambient mpmath precision; every implementation output is also checked against the proved O(1) closed form of the recurrence.",
         NOTE_COMMON + "Rounding of mpmath (30 digits) and of the float quotient accel/2 is exact on the domain by a pencil argument (DESIGN.md), sampled here, not proved in Coq.",
         "DESIGN.md section 5, C01"),
 "C02": ("Coq proof: exact models = third-order recurrence for every tick count (induction) + correspondence",
         "Theorems C02_exact_dist / C02_exact_rate / C02_zero_jerk: for all integers and every T>=1 the exact models of move_dist_t3 and rate_t3 equal the tick-by-tick third-order "
         "recurrence incl. the three-tick clear rule; zero jerk coincides with move_dist_lt. Correspondence with ebb_calc.py over the firmware-valid domain under varying mpmath precision.",
         NOTE_COMMON + "The accumulated rounding error of the jerk/6 path staying below 1/2 before round() is sampled, not proved.",
         "DESIGN.md section 5, C02"),
 "C11": ("Coq proof (field/lra over Q) of the SVG equations for the numeric core + kernel-evaluated parse sweep + bit-exact float correspondence",
         "Theorem C11_core: for all positive sizes and every alignment x meet/slice the exact-layer result satisfies the SVG 1.1 preserveAspectRatio equations; C11_valid ties the "
         "string layer to the core; C11_parse_sweep decides 8100 case/separator/defer spellings in the kernel; identity and no-raise theorems. The same model with round-to-nearest-even "
         "after every operation is compared bit for bit with plot_utils.vb_scale, and outputs are judged against the exact answer within 1e-9.",
         NOTE_COMMON + "Float rounding is modelled by Base/Rnd.v (executed, not proved equal to IEEE 754); CPython float(str) assumed correctly rounded.",
         "DESIGN.md section 5, C11"),
 "C12": ("Coq proof: one factor table, round trips, parser theorem over all numerals/whitespace + bit-exact float correspondence",
         "Theorems: the four conversion tables equal one SVG factor table (96 px/in), round trips, px = 96 x in, percentages of the supplied reference, None on unparsable text; "
         "C12_parse holds for every numeral ending in a digit or dot, every recognised suffix and any surrounding whitespace. The rnd53 execution of the same model is compared bit for bit "
         "with plot_utils on generated and malformed strings.",
         NOTE_COMMON + "Numeral -> value is the modelled decimal grammar (inf/nan/underscore literals are outside it); float rounding executed by Base/Rnd.v.",
         "DESIGN.md section 5, C12"),
 "C14": ("Coq proof: query = brute force for all box lists (induction on fuel = size) + exact-rational correspondence",
         "Theorem C14_query_eq_brute: for every list of valid boxes and every query the model of Index(...).intersection returns exactly the ids whose box overlaps the query; "
         "C14_terminates: the recursion depth is bounded by the number of boxes (fuel-irrelevance); C14_strict_refuted: the constructor as found (strict tests) violated the property "
         "(repaired in /repo e004255). Model tied to rtree.py by running both on Fractions; float runs are judged by brute force.",
         NOTE_COMMON, "DESIGN.md section 5, C14"),
 "C17": ("Coq proof: discrete convexity argument over Z for all integers and all T + correspondence",
         "Theorems C17_is_a_tick, C17_ends, C17_within_jerk, C17_limit: for all integers and every T>=1 the exact model of max_rate_t3 reports the absolute rate of some tick 1..T, "
         "at least both end rates, and every tick's absolute rate is within |jerk| of it. Correspondence with ebb_calc.max_rate_t3 on vertex-boundary families.",
         NOTE_COMMON + "The float quotient t_mid classifying like the rational one is sampled, not proved; the O(1) peak used to judge non-corresponding outputs is not proved to be the peak.",
         "DESIGN.md section 5, C17"),
 "C18": ("Coq proof (lra over Q) on a hand model + exact-rational correspondence with /repo",
         "Theorems for all rationals: each helper returns the clamp of the value (value inside, nearer bound outside), flags exactly the outliers "
         "(by more than the tolerance for the tolerant one), and the 2-D test equals the tolerant checker per coordinate. The hand model is tied to "
         "plot_utils.py on every run by executing both on the same exact rational inputs (the code is duck-typed and runs on Fractions).",
         NOTE_COMMON + "Float rounding inside comparisons is outside the model (floats are converted exactly).",
         "DESIGN.md section 5, C18"),
 "C20": ("Coq proof: escape = per-character map, decode round trip, hms arithmetic + correspondence incl. lxml as reference parser",
         "Theorems: xml_escape is a per-character map, leaves no raw special, every & starts an entity, and an XML parser (Spec/Xml.v, validated against lxml each run) reads the escaped text "
         "back as the original in content (no CR) and in attributes (no TAB/LF/CR); the statement without those side conditions is refuted (known finding C20-D10). format_hms: for every "
         "rational d >= 10 the fields encode round-half-even(d) with minutes/seconds in 0..59 and the form chosen by the rounded value.",
         NOTE_COMMON + "lxml/libxml2 is the reference parser; CPython round()/'%.3f' assumed correctly rounded.",
         "DESIGN.md section 5, C20"),
}
REASON_PENDING = "check not built yet in this revision (work in progress; see DESIGN.md section 5 for the planned theorem and tie)"

def main():
    checks = []
    for pid in ALL:
        if pid not in CLAIMED:
            continue
        tech, text, note, ref = CLAIMED[pid]
        checks.append({
            "property_id": pid,
            "quick_cmd": "./check %s quick" % pid,
            "thorough_cmd": "./check %s thorough" % pid,
            "evidence_file": "/verif/evidence/%s.json" % pid,
            "replay_cmd_template": "./check %s quick --replay {path}" % pid,
            "engine": "coq-proof+correspondence",
            "level_claimed": {"category": "proof", "text": text, "design_ref": ref},
            "level_note": note,
            "technique": tech,
        })
    man = {
        "version": 1,
        "setup_cmd": "cd /verif/coq && coq_makefile -f _CoqProject -o Makefile && timeout 3000 make -j16",
        "hooks": {
            "guard": "PLOTINK_VERIF",
            "enable": "no hooks are needed: fake ports, comports and serial.Serial are injected by the harness from outside; the guard name is reserved and set by ./check",
            "baseline_off_cmd": "cd /repo && /venv/bin/python -m pytest -ra -q -p no:cacheprovider --timeout=900 --continue-on-collection-errors",
            "source_commits": [],
            "add_only": True,
        },
        "engines": [{
            "name": "coq-proof+correspondence", "path": "/verif/check",
            "serves_properties": sorted(CLAIMED),
            "kind_free_text": "Coq 8.16.1 theory under /verif/coq (hand models, specs, proved checkers, one Props/Cxx.v per property) + python harness that runs /repo's code and the model on the same cases inside Coq (vm_compute)",
        }],
        "checks": checks,
        "not_applicable": [{"property_id": p, "reason": REASON_PENDING} for p in ALL if p not in CLAIMED],
        "notes": "All checks: ./check Cxx quick|thorough [--replay file]; VERIF_SEED honoured. See DESIGN.md.",
    }
    with open(os.path.join(V, "MANIFEST.json"), "w") as f:
        json.dump(man, f, indent=1); f.write("\n")
if __name__ == "__main__":
    main()
