#!/usr/bin/env python3
"""Regenerates /verif/MANIFEST.json from the table below (single source of truth for the interface)."""
import json, os
V = os.path.dirname(os.path.dirname(os.path.abspath(__file__)))
ALL = ["C%02d" % i for i in range(1, 21)]

# id -> (technique, level text, level note, design ref)
CLAIMED = {
 "C18": ("Coq proof (lra over Q) on a hand model + exact-rational correspondence with /repo",
         "Theorems for all rationals: each helper returns the clamp of the value (value inside, nearer bound outside), flags exactly the outliers "
         "(by more than the tolerance for the tolerant one), and the 2-D test equals the tolerant checker per coordinate. The hand model is tied to "
         "plot_utils.py on every run by executing both on the same exact rational inputs (the code is duck-typed and runs on Fractions).",
         "Trusted: Coq kernel + vm_compute; the hand model (checked by correspondence each run, sampled); python Fraction comparison semantics; harness. "
         "Float rounding inside comparisons is outside the model (floats are converted exactly).",
         "DESIGN.md section 5, C18"),
}
REASON_PENDING = "check not built yet in this revision (work in progress; see DESIGN.md section 5 for the planned theorem and tie)"

def main():
    checks = []
    for pid in ALL:
        if pid not in CLAIMED:
            continue
        tech, text, note, ref = CLAIMED[pid]
        checks.append({
            "property_id": pid,
            "quick_cmd": "./check %s quick" % pid,
            "thorough_cmd": "./check %s thorough" % pid,
            "evidence_file": "/verif/evidence/%s.json" % pid,
            "replay_cmd_template": "./check %s quick --replay {path}" % pid,
            "engine": "coq-proof+correspondence",
            "level_claimed": {"category": "proof", "text": text, "design_ref": ref},
            "level_note": note,
            "technique": tech,
        })
    man = {
        "version": 1,
        "setup_cmd": "cd /verif/coq && coq_makefile -f _CoqProject -o Makefile && timeout 3000 make -j16",
        "hooks": {
            "guard": "PLOTINK_VERIF",
            "enable": "no hooks are needed: fake ports, comports and serial.Serial are injected by the harness from outside; the guard name is reserved and set by ./check",
            "baseline_off_cmd": "cd /repo && /venv/bin/python -m pytest -ra -q -p no:cacheprovider --timeout=900 --continue-on-collection-errors",
            "source_commits": [],
            "add_only": True,
        },
        "engines": [{
            "name": "coq-proof+correspondence", "path": "/verif/check",
            "serves_properties": sorted(CLAIMED),
            "kind_free_text": "Coq 8.16.1 theory under /verif/coq (hand models, specs, proved checkers, one Props/Cxx.v per property) + python harness that runs /repo's code and the model on the same cases inside Coq (vm_compute)",
        }],
        "checks": checks,
        "not_applicable": [{"property_id": p, "reason": REASON_PENDING} for p in ALL if p not in CLAIMED],
        "notes": "All checks: ./check Cxx quick|thorough [--replay file]; VERIF_SEED honoured. See DESIGN.md.",
    }
    with open(os.path.join(V, "MANIFEST.json"), "w") as f:
        json.dump(man, f, indent=1); f.write("\n")
if __name__ == "__main__":
    main()
