#!/bin/bash
# tools/run_all.sh [quick|thorough]: run every check on the current tree, sequentially; print one line per property
cd "$(dirname "$0")/.."
TIER=${1:-quick}
for i in $(seq -w 1 20); do
  p=C$i
  out=$(timeout 3000 ./check $p $TIER 2>&1); rc=$?
  echo "$p rc=$rc $(echo "$out" | grep -c '^VIOLATION') violations | $(echo "$out" | tail -1)"
done
