#!/bin/bash
# tools/seed_eval.sh <ID> <agent-worktree> [seed-name]: validate a seeded change and run the property's check against it.
# Writes /verif/seeded/<name>/{patch.diff,demo.py,notes.md,meta.json,check_output.txt}.  Removes the agent worktree afterwards.
set -u
ID=$1; WT=$2; NAME=${3:-$ID}
OUT=/verif/seeded/$NAME; mkdir -p $OUT
if [ -d $WT/_seed ]; then SRC=$WT/_seed; ORIG=$WT; else SRC=$WT; ORIG=$(cat $WT/orig_wt); fi   # agent worktree, or a stashed seeded/_pending/<ID>
cp $SRC/patch.diff $SRC/demo.py $OUT/ 2>/dev/null; cp $SRC/notes.md $OUT/ 2>/dev/null
sed -i "s#$ORIG#/tmp/sv_$NAME#g" $OUT/demo.py
SV=/tmp/sv_$NAME
git -C /repo worktree add -q --detach $SV HEAD || exit 2
cd $SV
PYTHONPATH=$SV /venv/bin/python $OUT/demo.py > $OUT/demo_clean.txt 2>&1; D0=$?
if git apply $OUT/patch.diff 2> $OUT/apply_err.txt || git apply --3way $OUT/patch.diff 2>> $OUT/apply_err.txt; then AP=0; else AP=1; fi
T=$(/venv/bin/python -m pytest -q -p no:cacheprovider 2>&1 | tail -1)
PYTHONPATH=$SV /venv/bin/python $OUT/demo.py > $OUT/demo_patched.txt 2>&1; D1=$?
cd /verif; git -C /repo worktree remove --force $SV
# run our check against the patched /repo
if [ $AP = 0 ]; then
  cp evidence/$ID.json /tmp/evidence_$ID.bak 2>/dev/null
  git -C /repo apply $OUT/patch.diff 2>/dev/null || git -C /repo apply --3way $OUT/patch.diff
  ./check $ID quick > $OUT/check_output.txt 2>&1; CK=$?
  git -C /repo reset -q --hard HEAD
  cp evidence/$ID.json $OUT/evidence_with_patch.json 2>/dev/null
  mv /tmp/evidence_$ID.bak evidence/$ID.json 2>/dev/null   # the committed evidence must come from the unchanged tree
else CK=-1; fi
python3 - <<PY
import json
json.dump({"property":"$ID","name":"$NAME","patch_applies":$AP==0,"demo_exit_clean":$D0,"demo_exit_patched":$D1,"tests_with_patch":"""$T""",
 "check_cmd":"./check $ID quick","check_exit_with_patch":$CK,
 "check_violation_lines":[l.strip() for l in open("$OUT/check_output.txt") if l.startswith("VIOLATION")] if $CK!=-1 else [],
 "needs":"see notes.md (written by the independent sub-agent that produced the change)",
 "ran":"fresh worktree of /repo HEAD: demo on clean tree, git apply patch.diff, pytest, demo on patched tree; then patch applied to /repo, ./check $ID quick, git checkout -- ."},
 open("$OUT/meta.json","w"),indent=1)
PY
rm -f $OUT/apply_err.txt
echo "$NAME: apply=$AP demo_clean=$D0 demo_patched=$D1 tests='$T' check_exit=$CK"; grep -h "VIOLATION" $OUT/check_output.txt | head -3
if [ -d $WT/_seed ]; then git -C /repo worktree remove --force $WT 2>/dev/null; else rm -rf $WT; fi
git -C /repo status --short | grep -v egg-info
