"""C18 travel-limit helpers: checkLimits, checkLimitsTol, point_in_bounds, constrainLimits."""
from fractions import Fraction as F
from common import cq, cb, cexn, clist
from plotink import plot_utils

import common
ID = "C18"
COQ_HEADER = "From Plotink Require Import Base.Prelude Corr.C18.\nOpen Scope Q_scope."
COQ_RUN = "run18"
COQ_CASE_TYPE = "case18"
RULE = ("float runs on decimals that are not binary fractions, values away from the thresholds (answers exact: a bound is returned as that very number); sequences of point_in_bounds calls on one bounds object changed in place between the calls; every ordering of v against {lo, hi, lo-tol, hi+tol} incl. equality and +-tiny, lo=hi, tol=0, plus random rationals, "
        "ints and floats (floats are converted exactly to rationals); non-trivial = value outside the closed range or within tol of a bound")
TRUSTED = ["python Fraction/float comparison semantics = exact rational comparison (floats converted exactly)"]
ASSUMPTIONS = ["lower <= upper, tolerance >= 0 (the property's domain); finite inputs"]

def _vals(rng, lo, hi, tol):
    tiny = F(1, 10**12)
    base = [lo, hi, lo - tol, hi + tol, (lo + hi) / 2]
    out = []
    for b in base:
        out += [b, b - tiny, b + tiny, b - tol / 2, b + tol / 2]
    out += [lo - 10 * (tol + 1), hi + 10 * (tol + 1)]
    return out

def _rand(rng, kind):
    if kind == 0: return F(rng.randint(-50, 50))
    if kind == 1: return F(rng.randint(-10**6, 10**6), rng.randint(1, 10**4))
    if kind == 2: return F(rng.uniform(-1e3, 1e3))          # a float, exactly
    return F(rng.randint(-3, 3), rng.choice([1, 2, 4, 8]))

def generate(rng, tier):
    n = 150 if tier == "quick" else 3000
    cases = []
    for _ in range(n):
        k = rng.randint(0, 3)
        a, b = _rand(rng, k), _rand(rng, k)
        lo, hi = min(a, b), max(a, b)
        if rng.random() < 0.15: hi = lo
        tol = abs(_rand(rng, k)) / rng.choice([1, 10, 1000]) if rng.random() < 0.8 else F(0)
        for v in _vals(rng, lo, hi, tol)[: (27 if tier != "quick" else 9)] + [_rand(rng, k)]:
            cases.append({"kind": "check", "v": v, "lo": lo, "hi": hi, "family": "check"})
            cases.append({"kind": "tol", "v": v, "lo": lo, "hi": hi, "tol": tol, "family": "tol"})
            cases.append({"kind": "con", "v": v, "lo": lo, "hi": hi, "family": "constrain"})
        c, d = _rand(rng, k), _rand(rng, k)
        ylo, yhi = min(c, d), max(c, d)
        xs = _vals(rng, lo, hi, tol); ys = _vals(rng, ylo, yhi, tol)
        for _ in range(6):
            cases.append({"kind": "pib", "x": rng.choice(xs), "y": rng.choice(ys), "xmin": lo, "ymin": ylo,
                          "xmax": hi, "ymax": yhi, "tol": tol, "family": "point_in_bounds"})
    # floats that are not neat binary fractions (0.3, 11.81, 8.58 ...), values well away from the flagging thresholds: the helpers select
    # among their arguments, so the answers are exact even in floating point (a bound is returned as that very number)
    DEC = [0.0, 0.1, 0.3, 0.5, 1.5, 8.58, 11.81, 7.3, 299.99, -0.2, -3.7, 1e-3, 430.1]
    for _ in range(max(20, n // 3)):
        a, b = rng.choice(DEC), rng.choice(DEC); lo, hi = min(a, b), max(a, b)
        tol = rng.choice([0.01, 0.0, 1e-9, 0.25])
        far = rng.choice([0.8, 1.1, 30.0, 300.1, 1e17, 12345.678])
        vs = [lo - far, hi + far, lo - tol - far / 7, hi + tol + far / 3] + ([lo + (hi - lo) * rng.choice([0.25, 0.5, 0.731])] if hi - lo > 4 * tol + 1e-3 else [])
        for v in vs:
            if min(abs(v - (lo - tol)), abs(v - (hi + tol)), abs(v - lo), abs(v - hi)) < 1e-6 * (1 + abs(v)): continue
            kind = rng.choice(["check", "tol", "con"])
            c = {"kind": kind, "v": F(v), "lo": F(lo), "hi": F(hi), "float": True, "family": "float/" + kind}
            if kind == "tol": c["tol"] = F(tol)
            cases.append(c)
        ylo, yhi = sorted([rng.choice(DEC), rng.choice(DEC)])
        x = rng.choice(vs); y = rng.choice([ylo - far, yhi + far, (ylo + yhi) / 2])
        if min(abs(y - (ylo - tol)), abs(y - (yhi + tol))) > 1e-6 * (1 + abs(y)) and min(abs(x - (lo - tol)), abs(x - (hi + tol))) > 1e-6 * (1 + abs(x)):
            cases.append({"kind": "pib", "x": F(x), "y": F(y), "xmin": F(lo), "ymin": F(ylo), "xmax": F(hi), "ymax": F(yhi), "tol": F(tol), "float": True, "family": "float/point_in_bounds"})
    # agreement of point_in_bounds with checkLimitsTol applied per coordinate on the very same floats, at the knife edges where a
    # coordinate is (the float nearest to) bound +- tolerance and bound +- tolerance +- a few ulps: judged by comparing the two answers
    import math
    for _ in range(max(30, n // 2)):
        xb = sorted([rng.choice(DEC + [1.0, 5.0, 8.5, 10.0, 11.0, 100.0, 1e16 + 2]), rng.choice(DEC + [10.0, 210.0, 297.0, 300.0])])
        yb = sorted([rng.choice(DEC + [0.0, 10.0]), rng.choice(DEC + [10.0, 100.0])])
        tol = rng.choice([1e-9, 1e-9, 0.01, 1.0, 0.0, 1e-6])
        def edge(lo, hi):
            v = rng.choice([hi + tol, lo - tol, hi, lo, hi + tol / 2, (lo + hi) / 2])
            for _ in range(rng.choice([0, 0, 1, 2])): v = math.nextafter(v, rng.choice([math.inf, -math.inf]))
            return v
        cases.append({"kind": "agree", "x": F(edge(*xb)), "y": F(edge(*yb)), "xmin": F(xb[0]), "xmax": F(xb[1]), "ymin": F(yb[0]), "ymax": F(yb[1]), "tol": F(tol), "family": "float/agreement-at-the-knife-edge"})
    # the same bounds object handed to point_in_bounds again after the caller changed it in place (a plotter's travel limits are
    # edited between layers): the answer must follow the contents, not the object
    for _ in range(max(10, n // 5)):
        k = rng.randint(0, 3); steps = []
        tol = abs(_rand(rng, k)) / rng.choice([1, 10, 1000]) if rng.random() < 0.8 else F(0)
        for _ in range(rng.randint(2, 5)):
            a, b, c2, d = _rand(rng, k), _rand(rng, k), _rand(rng, k), _rand(rng, k)
            lo, hi, ylo, yhi = min(a, b), max(a, b), min(c2, d), max(c2, d)
            xs = _vals(rng, lo, hi, tol); ys = _vals(rng, ylo, yhi, tol)
            for _ in range(rng.randint(1, 3)):
                steps.append({"x": rng.choice(xs + [_rand(rng, k)]), "y": rng.choice(ys + [_rand(rng, k)]), "xmin": lo, "ymin": ylo, "xmax": hi, "ymax": yhi,
                              "tol": tol if rng.random() < 0.8 else tol * 2, "how": rng.choice(["inner", "inner", "outer"])})
        cases.append({"kind": "pibseq", "steps": steps, "family": "point_in_bounds/bounds-object-changed-in-place"})
    # bounds and values that no binary64 number represents: integers beyond 2^53 one apart, fractions like 1/3, values off the bound by far
    # less than a float's resolution - the helpers compare and select, so every answer is exact whatever the number type
    for _ in range(max(10, n // 4)):
        if rng.random() < 0.5:
            hi = F(2 ** rng.choice([53, 54, 60, 80]) + rng.choice([1, 3, 5, 7])); lo = rng.choice([F(0), -hi, hi - rng.choice([2, 4, 1000])]); d = F(rng.choice([1, 1, 2, 3]))
        else:
            hi = F(rng.randint(1, 50), rng.choice([3, 7, 9, 11])); lo = hi - F(rng.randint(0, 40), rng.choice([3, 7, 13])); d = F(1, 10 ** rng.choice([18, 20, 30]))
        tol = rng.choice([F(0), d / 4, d * 3])
        for v in (hi + d, hi - d, lo - d, lo + d, hi, lo):
            cases.append({"kind": "check", "v": v, "lo": lo, "hi": hi, "family": "beyond-float-resolution/check"})
            cases.append({"kind": "tol", "v": v, "lo": lo, "hi": hi, "tol": tol, "family": "beyond-float-resolution/tol"})
            cases.append({"kind": "con", "v": v, "lo": lo, "hi": hi, "family": "beyond-float-resolution/constrain"})
        cases.append({"kind": "pib", "x": hi + d, "y": F(1), "xmin": lo, "ymin": F(0), "xmax": hi, "ymax": F(2), "tol": tol, "family": "beyond-float-resolution/point_in_bounds"})
    # consecutive calls on different numbers with equal hashes (hash(-1) == hash(-2) for ints, floats and Fractions; hash(n) == hash(n +
    # 2^61 - 1)): every answer belongs to the arguments of its own call
    P = 2**61 - 1
    for _ in range(max(12, n // 4)):
        a, b = rng.choice([(F(-1), F(-2)), (F(-2), F(-1)), (F(-1), F(-2)), (F(3), F(3 + P)), (F(3 + P), F(3))])
        tol = rng.choice([F(0), F(1, 4), F(1, 8)])
        v = (a + b) / 2 if abs(a - b) == 1 else F(100)
        as_lower = rng.random() < 0.5 and abs(a - b) == 1
        for first, second in ((a, b), (b, a)):
            steps = []
            for bound in (first, second):
                lo, hi = (bound, F(10)) if as_lower else (F(-10), bound)
                steps.append({"x": v, "y": F(5), "xmin": lo, "ymin": F(0), "xmax": hi, "ymax": F(10), "tol": tol, "how": "outer"})
            if rng.random() < 0.5:
                steps = [{"x": st["y"], "y": st["x"], "xmin": st["ymin"], "ymin": st["xmin"], "xmax": st["ymax"], "ymax": st["xmax"], "tol": tol, "how": "outer"} for st in steps]
            cases.append({"kind": "pibseq", "steps": steps, "family": "point_in_bounds/after-a-call-on-hash-equal-numbers"})
            lo1, hi1 = (first, F(10)) if as_lower else (F(-10), first); lo2, hi2 = (second, F(10)) if as_lower else (F(-10), second)
            for kind in ("check", "tol", "con"):
                c = {"kind": kind, "v": v, "lo": lo2, "hi": hi2, "family": kind + "/after-a-call-on-hash-equal-numbers", "pre": {"kind": kind, "v": v, "lo": lo1, "hi": hi1, "tol": tol}}
                if kind == "tol": c["tol"] = tol
                cases.append(c)
    return cases

def _conv(x, mode):
    # run the implementation on Fractions, on ints where possible, or on floats where exact
    return x

def run_impl(c):
    k = c["kind"]
    if "pre" in c:
        try: run_impl(dict(c["pre"], float=c.get("float", False)))
        except Exception: pass
    if c.get("float"):
        c = {key: (float(v) if isinstance(v, F) else v) for key, v in c.items()}
    if k == "check":
        r, f = plot_utils.checkLimits(c["v"], c["lo"], c["hi"]); return {"r": F(r), "f": bool(f)}
    if k == "tol":
        r, f = plot_utils.checkLimitsTol(c["v"], c["lo"], c["hi"], c["tol"]); return {"r": F(r), "f": bool(f)}
    if k == "con":
        return {"r": F(plot_utils.constrainLimits(c["v"], c["lo"], c["hi"]))}
    if k == "agree":
        x, y, tol = float(c["x"]), float(c["y"]), float(c["tol"])
        b = plot_utils.point_in_bounds([x, y], [[float(c["xmin"]), float(c["ymin"])], [float(c["xmax"]), float(c["ymax"])]], tol)
        _, fx = plot_utils.checkLimitsTol(x, float(c["xmin"]), float(c["xmax"]), tol); _, fy = plot_utils.checkLimitsTol(y, float(c["ymin"]), float(c["ymax"]), tol)
        if bool(b) != (not fx and not fy):
            return {"raise": "Disagreement", "msg": "point_in_bounds says %r, checkLimitsTol flags x: %r, y: %r" % (b, fx, fy)}
        return {"agree": True}
    if k == "pibseq":
        bounds = [[0, 0], [0, 0]]; out = []
        for st in c["steps"]:
            if st["how"] == "inner":
                bounds[0][0], bounds[0][1], bounds[1][0], bounds[1][1] = st["xmin"], st["ymin"], st["xmax"], st["ymax"]
            else:
                bounds[0] = [st["xmin"], st["ymin"]]; bounds[1] = [st["xmax"], st["ymax"]]
            out.append(bool(plot_utils.point_in_bounds([st["x"], st["y"]], bounds, st["tol"])))
        return {"bs": out}
    # the point as a list, a tuple, or a one-shot iterable of two numbers (what map(float, text.split(",")) hands over)
    style = (c["x"].numerator + c["y"].denominator + c["xmax"].numerator) % 4 if isinstance(c["x"], F) else hash((c["x"], c["y"])) % 4
    pt = [c["x"], c["y"]] if style < 2 else (c["x"], c["y"]) if style == 2 else iter([c["x"], c["y"]])
    return {"b": bool(plot_utils.point_in_bounds(pt, [[c["xmin"], c["ymin"]], [c["xmax"], c["ymax"]]], c["tol"]))}

def coq_case(c, r):
    k = c["kind"]
    if "raise" in r:
        # no helper of this family may raise; encode as an impossible observation
        if k == "pib":
            return "(K_con 0 0 0 1)"
        return "(K_con 0 0 0 1)"
    if k == "agree": return "(K_con 0 0 0 0)"          # the two answers were compared by the harness; a disagreement is encoded as a raising call above
    if k == "pibseq":
        return "(K_pibs %s)" % clist(["(%s, %s)" % (", ".join(cq(st[x]) for x in ("x", "y", "xmin", "ymin", "xmax", "ymax", "tol")), cb(b)) for st, b in zip(c["steps"], r["bs"])])
    if k == "check": return "(K_check %s %s %s %s %s)" % (cq(c["v"]), cq(c["lo"]), cq(c["hi"]), cq(r["r"]), cb(r["f"]))
    if k == "tol": return "(K_tol %s %s %s %s %s %s)" % (cq(c["v"]), cq(c["lo"]), cq(c["hi"]), cq(c["tol"]), cq(r["r"]), cb(r["f"]))
    if k == "con": return "(K_con %s %s %s %s)" % (cq(c["v"]), cq(c["lo"]), cq(c["hi"]), cq(r["r"]))
    return "(K_pib %s %s %s %s %s %s %s %s)" % tuple([cq(c[x]) for x in ("x", "y", "xmin", "ymin", "xmax", "ymax", "tol")] + [cb(r["b"])])

def nontrivial(c, r):
    if c["kind"] in ("pibseq", "agree"): return True
    if c["kind"] == "pib":
        return not (c["xmin"] < c["x"] < c["xmax"] and c["ymin"] < c["y"] < c["ymax"])
    return not (c["lo"] < c["v"] < c["hi"])

def shrink(c):
    if c["kind"] == "agree": return
    if c["kind"] == "pibseq":
        for i in range(len(c["steps"])):
            if len(c["steps"]) > 1: yield dict(c, steps=c["steps"][:i] + c["steps"][i + 1:])
        return
    for key in [k for k in c if isinstance(c[k], F)]:
        v = c[key]
        for nv in (F(round(v)), F(int(v * 2), 2), F(0)):
            if nv != v:
                d = dict(c); d[key] = nv
                if d.get("lo", 0) <= d.get("hi", 0) and d.get("xmin", 0) <= d.get("xmax", 0) and d.get("ymin", 0) <= d.get("ymax", 0) and d.get("tol", 0) >= 0:
                    yield d


def static_obligations(work, tier):
    """the loop-free kernels are re-translated from /repo's source on every run and proved equal to the hand model"""
    return common.kernel_obligations(work, ID, "plotink/plot_utils.py", ['checkLimits', 'checkLimitsTol', 'point_in_bounds', 'constrainLimits'])
