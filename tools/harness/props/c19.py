"""C19 port discovery in both serial layers."""
from common import clist, ctext
from plotink import ebb_serial, ebb3_serial

ID = "C19"
COQ_HEADER = "From Plotink Require Import Base.Prelude Base.PyStr Model.Serial3 Model.Discovery Corr.C19.\nOpen Scope Z_scope."
COQ_RUN = "run19"
COQ_CASE_TYPE = "case19"
SHARD = 80
RULE = ("port lists of 0..6 entries (handed over as a list, a tuple, a one-shot generator or iterator; entries as tuples or pyserial ListPortInfo objects) from a descriptor grammar: Windows 'USB Serial Device (COMn)' + 'USB VID:PID=04D8:FD92 SER=<tag> LOCATION=..', macOS/Linux "
        "'EiBotBoard,<name>' and bare 'EiBotBoard', pyserial-2.7 'SNR=<tag>', foreign devices, names of length 0..16 and tags shorter than 3, names that are "
        "prefixes of one another; lookups by listed name, SER tag, device name and (COMn) in upper/lower/mixed case, plus absent names and None; "
        "both layers, and for the class layer also connect(name) on an object that discovered another (decoy) board before - the port it tries to open; "
        "non-trivial = at least two EBB ports in the list")
TRUSTED = ["pyserial's comports() replaced by a generated enumeration (device, description, hwid)"]
ASSUMPTIONS = ["ASCII descriptor strings"]

NAMES = ["", "Bot", "Axi", "AxiDraw", "Axi 2", "East", "EAST", "x", "ab", "Plotter_01", "0123456789abcdef", "Comet", "COMPASS", "com", "/dev/lab"]          # names that look like the beginning of a port enumeration
TAGS = ["", "A1", "ABC", "Bot", "East", "X9F3", "Axi 2", "12", "AXIDRAW_ONE", "A_B", "East_Lab_2", "Comet", "COM", "compass_2", "/dev/2"]

def _port(rng, k):
    kind = rng.random()
    if kind < 0.3:
        n = rng.choice(NAMES)
        dev = rng.choice(["/dev/ttyACM%d" % k, "/dev/cu.usbmodem14%d1" % k])
        # the name follows the comma verbatim: a blank after the comma, or at the end, belongs to the description
        desc = "EiBotBoard" + ("," + rng.choice(["", "", "", " ", "  "]) + n + rng.choice(["", "", "", " "]) if n or rng.random() < 0.3 else "")
        hw = rng.choice(["USB VID:PID=04D8:FD92 LOCATION=20-%d" % k, "USB VID:PID=04D8:FD92 SER=%s LOCATION=1-%d" % (rng.choice(TAGS), k), "n/a"])
    elif kind < 0.55:
        dev = "COM%d" % rng.randint(1, 12)
        desc = "USB Serial Device (%s)" % dev
        t = rng.choice(TAGS)
        hw = rng.choice(["USB VID:PID=04D8:FD92 SER=%s LOCATION=1-%d" % (t, k), "USB VID:PID=04D8:FD92 SER=%s" % t, "USB VID:PID=04D8:FD92 SNR=%s" % t,
                         "USB VID:PID=04D8:FD92 SER=%s LOCATION=1-2 SNR=%s" % (t, rng.choice(TAGS))])
    elif kind < 0.7:
        dev = "COM%d" % rng.randint(1, 12); desc = "EiBotBoard (%s)" % dev; hw = "USB VID:PID=04D8:FD92 SNR=%s" % rng.choice(TAGS)
    else:
        dev = rng.choice(["/dev/ttyS%d" % k, "COM%d" % rng.randint(1, 12), "/dev/ttyUSB%d" % k])
        nm = rng.choice([n for n in NAMES if n] + TAGS[1:])
        # foreign devices, some of whose descriptions begin with (or are) a name that a board in the list may carry
        desc = rng.choice(["Bluetooth-Incoming-Port", "n/a", "USB Serial Device (%s)" % dev, "Arduino Uno", "eibotboard", "My EiBotBoard",
                           nm + "s Controller", nm, nm + " Serial", nm.upper() + "-Link", "Axis Controller", "Bottle Filler", "Eastern Modem"])
        hw = rng.choice(["n/a", "USB VID:PID=2341:0043 SER=%s LOCATION=1-3" % rng.choice(TAGS), "USB VID:PID=04D8:FD93", "PCI\\VEN_8086",
                         # near misses of the board's hardware id: the test is a case-sensitive prefix test, nothing more and nothing less
                         "USB VID:PID=04d8:fd92 SER=%s" % rng.choice(TAGS), "USB VID:PID=004D8:FD92", " USB VID:PID=04D8:FD92", "usb vid:pid=04D8:FD92",
                         "USB VID:PID=04D8:FD9", "USB VID:PID=04D8:0FD92 LOCATION=1-1"])
    if kind >= 0.3 and kind < 0.7 and rng.random() < 0.12:
        # ... and ids that go on after the prefix without a blank (a longer product id, a composite-device suffix)
        hw = rng.choice(["USB VID:PID=04D8:FD92A SER=%s LOCATION=1-%d" % (rng.choice(TAGS), k), "USB VID:PID=04D8:FD921", "USB VID:PID=04D8:FD92:0 LOCATION=1-%d" % k])
    return (dev, desc, hw)

def _variant(rng, s):
    k = rng.random()
    if k < 0.4: return s
    if k < 0.6: return s.upper()
    if k < 0.8: return s.lower()
    return "".join(ch.upper() if rng.random() < 0.5 else ch.lower() for ch in s)

def generate(rng, tier):
    n = 320 if tier == "quick" else 15000
    cases = []
    for _ in range(n):
        ports = []
        for k in range(rng.choice([0, 1, 1, 2, 3, 4, 6])):
            p = _port(rng, k)
            while any(p[0].lower() == q[0].lower() for q in ports): p = _port(rng, k + 20 + len(ports))          # an enumeration lists a device once
            ports.append(p)
        lookups = [None]
        for p in ports:
            lookups.append(_variant(rng, p[0]))
            if "SER=" in p[2]: lookups.append(_variant(rng, p[2].split("SER=")[1].split(" ")[0]))
            if p[1].startswith("EiBotBoard") and len(p[1]) > 11: lookups.append(_variant(rng, p[1][11:]))
        lookups += [rng.choice(NAMES + TAGS + ["COM3", "nothing", "("]) for _ in range(2)]
        # what comports() hands back: a list (pyserial 3), a one-shot generator (pyserial 2.7 on Windows), a tuple; entries as plain
        # tuples or as pyserial's own ListPortInfo objects
        enum = rng.choice(["list", "list", "generator", "generator", "tuple", "iterator"]); ent = rng.choice(["tuple", "tuple", "ListPortInfo"])
        cases.append({"ports": ports, "lookups": lookups, "enum": enum, "entries": ent, "family": "n=%d/%s-of-%s" % (len(ports), enum, ent)})
    return cases

def _entry(p, kind):
    if kind != "ListPortInfo": return tuple(p)
    from serial.tools.list_ports_common import ListPortInfo
    o = ListPortInfo(p[0]); o.description = p[1]; o.hwid = p[2]
    return o

def _enumerator(ports, kind):
    """a stand-in for serial.tools.list_ports.comports: every call enumerates afresh"""
    if kind == "generator": return lambda: (p for p in ports)
    if kind == "iterator": return lambda: iter(list(ports))
    if kind == "tuple": return lambda: tuple(ports)
    return lambda: list(ports)

def run_impl(c):
    ports = [_entry(p, c.get("entries", "tuple")) for p in c["ports"]]
    comports = _enumerator(ports, c.get("enum", "list"))
    ebb_serial.comports = comports
    ebb3_serial.comports = comports
    e3 = ebb3_serial.EBB3(); e3.find_first()
    ll = ebb_serial.listEBBports(); l3 = ebb3_serial.list_ebb_ports()
    out = {"first_l": ebb_serial.findPort(), "first_3": e3.port_name,
           "list_l": None if ll is None else [p[0] for p in ll], "list_3": None if l3 is None else [p[0] for p in l3],
           "names_l": ebb_serial.list_named_ebbs(), "names_3": ebb3_serial.list_named_ebbs(),
           "lookups": [[ebb_serial.find_named_ebb(n), ebb3_serial.find_named(n)] for n in c["lookups"]]}
    # "looking a board up by the name the library itself reports for it": whatever list_named_ebbs returned is looked up again; the i-th
    # reported name belongs to the i-th listed board, and the lookup must return that board's port or an earlier port that also matches
    def self_lookup(names, listed, finder):
        bad = []
        if names is None or listed is None: return bad
        devs = [p[0] for p in ports]
        for nm, dev in zip(names, listed):
            if not isinstance(nm, str) or nm == "": continue
            got = finder(nm)
            if got is None or got not in devs or devs.index(got) > devs.index(dev): bad.append((nm, dev, got))
        return bad
    out["self_lookup_bad"] = self_lookup(out["names_l"], out["list_l"], ebb_serial.find_named_ebb) + self_lookup(out["names_3"], out["list_3"], ebb3_serial.find_named)
    # connect(name) on an object with a history: it discovered a (decoy) board earlier; which port does it try to open now?
    import serial
    opened = []
    def fake_serial(name=None, *args, **kwargs):
        opened.append(name); raise serial.SerialException("cannot open (harness)")
    real = ebb3_serial.serial.Serial
    ebb3_serial.serial.Serial = fake_serial
    try:
        out["objlk"] = []
        for n in c["lookups"]:
            obj = ebb3_serial.EBB3()
            ebb3_serial.comports = lambda: [("/dev/ttyDECOY", "EiBotBoard", "USB VID:PID=04D8:FD92 SER=Decoy LOCATION=9")]
            obj.find_first()
            ebb3_serial.comports = comports
            del opened[:]
            obj.connect(n)
            out["objlk"].append(opened[0] if opened else None)
    finally:
        ebb3_serial.serial.Serial = real
    # the listing functions must also return the matching ports themselves, in order
    out["same_objects"] = (ll is None or all(p in ports for p in ll)) and (l3 is None or all(p in ports for p in l3))
    return out

def _ot(v): return "None" if v is None else "(Some %s)" % ctext(v)
def _otl(v): return "None" if v is None else "(Some %s)" % clist([ctext(x) for x in v])

def coq_case(c, r):
    ports = clist(["(%s, %s, %s)" % (ctext(p[0]), ctext(p[1]), ctext(p[2])) for p in c["ports"]])
    if "raise" in r or not r.get("same_objects", False) or r.get("self_lookup_bad"):
        return "(K19 %s (Some [0%%Z]) None None None None None [] [])" % ports          # cannot satisfy the property
    lk = clist(["(%s, %s, %s)" % (_ot(n), _ot(a), _ot(b)) for n, (a, b) in zip(c["lookups"], r["lookups"])])
    ol = clist(["(%s, %s)" % (_ot(n), _ot(o)) for n, o in zip(c["lookups"], r["objlk"])])
    return "(K19 %s %s %s %s %s %s %s %s %s)" % (ports, _ot(r["first_l"]), _ot(r["first_3"]), _otl(r["list_l"]), _otl(r["list_3"]),
                                                 _otl(r["names_l"]), _otl(r["names_3"]), lk, ol)

def nontrivial(c, r):
    return r.get("list_l") is not None and len(r["list_l"]) >= 2

def explain(c, r):
    return {"ports": c["ports"], "lookups": c["lookups"], "result": r}

def shrink(c):
    ports = c["ports"]
    for i in range(len(ports)):
        yield dict(c, ports=ports[:i] + ports[i + 1:])
    if len(c["lookups"]) > 1:
        for i in range(len(c["lookups"])):
            yield dict(c, lookups=c["lookups"][:i] + c["lookups"][i + 1:])
