"""C03 calculate_lm / moveTimeLM: duration = first tick at which the step budget is exhausted (compared with the proved exact model, judged by the proved O(1) checker)."""
import mpmath
from common import cz, copt
from plotink import ebb_calc, ebb_motion
from props import ebbgen

ID = "C03"
COQ_HEADER = "From Plotink Require Import Base.Prelude Corr.C03.\nOpen Scope Z_scope."
COQ_RUN = "run03"
COQ_CASE_TYPE = "case03"
SHARD = 500
RULE = ("valid step-limited moves built from the checker's own case split: no reversal (both signs), reversal at tick 1, 2, 3, small, large, rate exactly zero at a tick, "
        "budget reached before / at / after the reversal, totals landing exactly on k*2^31 and k*2^31-1 (step boundaries), constant rate with exact and inexact division, "
        "budgets 1..2^31, durations up to 2^32, cleared and explicit accumulators, legacy negative budgets, and the three 'cannot move' forms; "
        "each output (duration, position, accumulator) is compared with the exact model of calculate_lm (proved correct on the domain) and decided by lm_check, which is proved equivalent to the tick-by-tick specification; "
        "non-trivial = the rate changes sign before the budget is reached, or the duration exceeds 1000 ticks")
TRUSTED = ["the generator's own closed form is used only to pick inputs inside the property's domain (per-tick |rate| <= 2^31-1 for the whole move); the judgement is lm_check in Coq"]
ASSUMPTIONS = ["the recurrence completes the budget with every per-tick |rate| <= 2^31-1; accumulator in [0, 2^31) or clear"]
M = 2**31 - 1
B = 2**31
TMAX = 2**32

def tq(a, b):
    q = abs(a) // b
    return q if a >= 0 else -q

def norm(steps, rate, accel, accum):
    if steps == 0 or (rate == 0 and accel == 0): return None
    if steps < 0:
        if rate < 0: return None
        steps, rate, accel = -steps, -rate, -accel
    r0 = rate - tq(accel, 2); r1 = r0 + accel
    neg = r1 < 0 or (r1 == 0 and accel < 0)
    acc = (M if neg else 0) if accum is None else accum
    return steps, r0, accel, acc

def S(r0, a, acc, k): return acc + r0 * k + a * k * (k + 1) // 2
def pos(r0, a, acc, k): return S(r0, a, acc, k) >> 31
def krev(r0, a):
    r1 = r0 + a
    if a == 0: return None
    if r1 > 0 or (r1 == 0 and a > 0): return None if a > 0 else r0 // (-a)
    return None if a < 0 else (-r0) // a
def V(r0, a, acc, k):
    kr = krev(r0, a); p0 = pos(r0, a, acc, 0)
    if kr is None or k <= max(kr, 0): return abs(pos(r0, a, acc, k) - p0)
    kr = max(kr, 0); p = pos(r0, a, acc, kr)
    return abs(p - p0) + abs(pos(r0, a, acc, k) - p)
def truth(steps, rate, accel, accum):
    """(T, p, c) or None when invalid / 'OUT' when outside the domain"""
    n = norm(steps, rate, accel, accum)
    if n is None: return (0, 0, 0)
    st, r0, a, acc = n
    if V(r0, a, acc, TMAX) < st: return "OUT"
    lo, hi = 1, TMAX
    while lo < hi:
        mid = (lo + hi) // 2
        if V(r0, a, acc, mid) >= st: hi = mid
        else: lo = mid + 1
    T = lo
    if abs(r0 + a) > M or abs(r0 + a * T) > M: return "OUT"
    return (T, pos(r0, a, acc, T), S(r0, a, acc, T) & M)

def _acc(rng):
    k = rng.random()
    if k < 0.4: return None
    if k < 0.7: return rng.choice([0, 1, M, M - 1, B // 2])
    return rng.randint(0, M)

def _candidate(rng):
    fam = rng.choice(["noreversal", "reversal_small", "reversal_large", "zero_at_tick", "constant", "boundary", "early_reversal", "legacy", "invalid", "tiny", "long", "knife", "knife", "zero_disc", "first_tick", "peak_misses_boundary", "late_reversal"])
    s = lambda: rng.choice([1, -1])
    if fam == "invalid":
        return rng.choice([(0, rng.randint(-9, 9), rng.randint(-9, 9)), (rng.randint(1, 9), 0, 0), (-rng.randint(1, 9), -rng.randint(1, 10**6), rng.randint(-5, 5))]), fam
    if fam == "tiny":
        return (rng.randint(1, 6), rng.randint(-12, 12), rng.randint(-5, 5)), fam
    if fam == "constant":
        rate = s() * rng.choice([1, 2, 3, 1000, 65536, M, M - 1, rng.randint(1, M)])
        return (rng.choice([1, 2, 3, 7, 100, rng.randint(1, 5000)]), rate, 0), fam
    if fam == "noreversal":
        d = s(); rate = d * rng.randint(0, M // 2); accel = d * rng.choice([0, 1, 2, 3, rng.randint(1, 10**6)])
        return (rng.randint(1, 3000), rate, accel), fam
    if fam in ("reversal_small", "early_reversal"):
        d = s(); accel = -d * rng.randint(1, 2000 if fam == "reversal_small" else 4 * 10**8)
        kr = rng.choice([1, 1, 2, 2, 3, 4, 7]) if fam == "early_reversal" else rng.randint(1, 60)
        rate = -accel * kr + d * rng.randint(0, abs(accel)) + tq(accel, 2)
        return (rng.choice([1, 1, 2, 3, 5, rng.randint(1, 40)]), rate, accel), fam
    if fam == "reversal_large":
        d = s(); accel = -d * rng.randint(1, 50); kr = rng.randint(1000, 2 * 10**6)
        rate = -accel * kr + d * rng.randint(0, abs(accel)) + tq(accel, 2)
        if abs(rate) > M: rate = d * M // 2
        return (rng.randint(1, 4000), rate, accel), fam
    if fam == "zero_at_tick":
        accel = s() * rng.randint(1, 10**6); k = rng.randint(1, 50)
        rate = -accel * k + tq(accel, 2)            # r0 + a*k = 0
        return (rng.randint(1, 20), rate, accel), fam
    if fam == "boundary":
        # choose so that the total lands exactly on a multiple of 2^31 (or one below) at some tick
        accel = rng.choice([0, 2, -2, 4, 1024, -1024, 2**20]); k = rng.randint(1, 64); m = rng.randint(1, 4) * s()
        tot = m * B - rng.choice([0, 0, 1, -1])
        r0 = (tot - accel * k * (k + 1) // 2) // k
        return (abs(m) + rng.choice([0, 1]), r0 + tq(accel, 2), accel), fam
    if fam == "legacy":
        (st, r, a) = _candidate(rng)[0][:3]
        return (-abs(st), abs(r), a), fam
    if fam == "knife":
        # the budget is reached at tick T with a margin of m accumulator units (or missed by -m): the quotient / root the duration is rounded from
        # lies within ~1e-10..1e-19 (relative) of an integer, so any loss of precision in the solve changes the answer
        T = int(2 ** rng.uniform(2, 31.9)); r0 = rng.choice([rng.randint(1, M), rng.randint(1, 1 << rng.randint(1, 31)), M - rng.randint(0, 3)])
        lo_a = -((r0 - 1) // T); hi_a = (M - r0) // T
        a = rng.choice([0, 0, 0, rng.randint(lo_a, hi_a), rng.randint(max(lo_a, -3), min(hi_a, 3))])
        rT = r0 + a * T
        m = rng.choice([0, 1, 1, 2, 3, -1, -2, rT - 1, rT // 2])
        D = r0 * T + a * T * (T + 1) // 2
        acc = (m - D) % B; steps = (acc + D - m) >> 31
        if steps < 1: return (1, 1, 0), "tiny"
        sg = s()
        return (steps, sg * (r0 + tq(a, 2)), sg * a, acc if sg > 0 else M - acc), fam
    if fam == "first_tick":
        # the budget is exhausted on the first or second tick of an accelerated move (explicit accumulator close to the step boundary):
        # the smaller root of the quadratic lies in (-1, 0] and must not be taken for the duration
        sg = s(); a = rng.choice([2000, 1, 3, 65536, rng.randint(1, 10**7)]) * rng.choice([1, 1, -1])
        r1 = rng.randint(1, M // 2)                      # rate at tick 1 (forward)
        T = rng.choice([1, 1, 2])
        if rng.random() < 0.5 and a > 1:
            # a start from (nearly) rest: the rate before the first tick is negative, the rate at the first tick positive, and the
            # budget is short of the boundary by no more than either (the other root of the quadratic then lies in (-1, 0])
            r0n = -rng.randint(1, a - 1); r1 = r0n + a; T = 1
            d = rng.randint(1, min(r1, -r0n)); steps = rng.choice([1, 1, 2]); acc = B - d
            return (steps * rng.choice([1, 1, -1]) if sg > 0 else steps, sg * (r0n + tq(a, 2)), sg * a, (acc if sg > 0 else M - acc) if steps == 1 else None), fam
        d = rng.randint(1, r1) if T == 1 else r1 + rng.randint(1, max(1, r1 + a)) if r1 + a > 0 else rng.randint(1, r1)
        steps = rng.choice([1, 1, 2]); acc = (B * steps - d) % B
        if B * steps - d < 0 or acc != B * steps - d - B * (steps - 1): return (1, 1, 0), "tiny"
        r0 = r1 - a
        return (steps * rng.choice([1, 1, -1]) if sg > 0 else steps, sg * (r0 + tq(a, 2)), sg * a, acc if sg > 0 else M - acc), fam
    if fam == "zero_disc":
        # the budget is reached exactly at the tick where the rate has fallen to zero, with the total exactly on the step boundary: the
        # quadratic has a double root (discriminant 0); and the same move with the accumulator one unit off either way
        T = rng.choice([2, 3, 4, 16, 256, rng.randint(2, 40000)]); j = rng.randint(1, max(1, M // (2 * T - 1)))
        if rng.random() < 0.5: j = max(1, min(j, (B // (T * T) + 1) * rng.randint(1, 3)))
        acc = (-j * T * T) % B
        steps = (acc + j * T * T) // B
        r0 = j * (2 * T + 1); a = -2 * j
        acc = (acc + rng.choice([0, 0, 0, 1, -1])) % B
        sg = s()
        return (steps * rng.choice([1, 1, 1, -1]) if sg > 0 else steps, sg * (r0 + tq(a, 2)), sg * a, acc if sg > 0 else M - acc), fam
    if fam == "peak_misses_boundary":
        # a decelerating move whose accumulator total, at the tick where it turns, stops just short of a step boundary that the
        # continuous parabola through the ticks would cross (the vertex lies between two ticks): the budget equal to that boundary is
        # reached only after the reversal, by steps in the other direction
        from fractions import Fraction as Fr
        for _ in range(4000):
            a = -rng.randint(2**27, M); r0 = rng.randint(-a, M); acc = rng.choice([0, 0, 0, rng.randint(0, -a // 16)])
            kr = r0 // (-a); S_kr = acc + r0 * kr + a * kr * (kr + 1) // 2
            re2 = 2 * r0 + a                                   # twice the effective rate
            P = Fr(acc) + Fr(re2 * re2, 8 * (-a))              # peak of the continuous parabola
            m = int(P // B)
            if m >= 1 and S_kr < m * B <= P:
                sg = s()
                return (m, sg * (r0 + tq(a, 2)), sg * a, (acc if sg > 0 else M - acc) if acc else None), fam
        return (1, 1, 0), "tiny"
    if fam == "late_reversal":
        # a near-maximal rate, a tiny deceleration: the move turns after 10^7 .. 2*10^9 ticks with a running total of 2^54 .. 2^61 that lies
        # within a few accumulator units of a step boundary, and the budget is reached one or a few steps after the turn
        a = -rng.choice([1, 2, 3, 7, 12, rng.randint(1, 250)]); r0 = rng.randint(M // 2, M)
        kr = r0 // (-a); D = r0 * kr + a * kr * (kr + 1) // 2
        m = rng.choice([0, 1, 2, 5, 10, 14, 40, 200, 1000]) * rng.choice([1, -1])
        acc = (m - D) % B
        steps = ((acc + D) >> 31) + rng.choice([1, 1, 2, 5, 0, -1])
        sg = s()
        return (steps, sg * (r0 + tq(a, 2)), sg * a, acc if sg > 0 else M - acc), fam
    if fam == "long":
        rate = s() * rng.randint(1, 2000); return (rng.randint(1, 2000), rate, rng.choice([0, 0, 1, -1]) if abs(rate) > 500 else 0), fam
    return (1, 1, 0), fam

def generate(rng, tier):
    n = 6000 if tier == "quick" else 150000
    cases = []
    tries = 0
    while len(cases) < n and tries < 20 * n:
        tries += 1
        cand, fam = _candidate(rng)
        (steps, rate, accel) = cand[:3]
        if abs(rate) > M or abs(accel) > M or abs(steps) > B: continue
        acc = cand[3] if len(cand) == 4 else (_acc(rng) if fam != "invalid" or rng.random() < 0.5 else None)
        t = truth(steps, rate, accel, acc)
        if t == "OUT": continue
        entry = 1 if (acc is None and rng.random() < 0.15) else 0
        c = {"entry": entry, "steps": steps, "rate": rate, "accel": accel, "acc": acc, "family": fam, "truth": list(t)}
        r = rng.random()
        if r < 0.1 and entry == 0 and fam != "invalid":
            # the same request evaluated a moment ago from another accumulator state / with another budget; arguments by keyword or not
            c["pre"] = [rng.choice([(steps, ebbgen.sibling_acc(rng, acc)), (steps + 1, acc), (max(1, abs(steps) // 2), acc)]) for _ in range(rng.choice([1, 1, 2]))]
            c["kw"] = rng.choice([0, 1, 1, 2]); c["family"] += "/after-sibling-call"
        elif r < 0.2: c["kw"] = rng.choice([1, 2]) if entry == 0 else 2; c["family"] += "/keyword-arguments"
        cases.append(c)
    return cases

def static_obligations(work, tier):
    """C03_rounding holds for every monotone rounding that fixes 103-bit numbers and every monotone square root exact on squares: mpmath's
    operators at dps = 30 are compared with the executable round-to-nearest-even of the exact result (and its square root with the
    defining inequalities) on generated operands"""
    import common
    return common.rounding_obligation(work, ID, (103,), 600)


def _clear(c):
    """the request for a cleared accumulator: the literal, or an equal string built at run time (what a caller reading it from a file or a
    command line passes: equal to "clear" but a different object)"""
    return "clear" if (c["rate"] + c["accel"]) % 2 else "".join(("cle", "ar"))

def _lm(c, steps, acc_v, kw):
    if acc_v is None and (c["steps"] + c["accel"]) % 3 == 0 and kw != 1:
        return ebbgen.call(ebb_calc.calculate_lm, (steps, c["rate"], c["accel"]), kw)          # argument omitted: the documented default is "clear"
    return ebbgen.call(ebb_calc.calculate_lm, (steps, c["rate"], c["accel"], _clear(c) if acc_v is None else acc_v), kw)

def run_impl(c):
    dps = [5, 15, 30, 50][(c["steps"] + c["rate"]) % 4]
    mpmath.mp.dps = dps
    kw = c.get("kw", 0)
    try:
        if c["entry"] == 1:
            t = ebbgen.call(ebb_motion.moveTimeLM, (c["rate"], c["steps"], c["accel"]), kw); return {"T": int(t), "p": 0, "c": 0}
        for (st0, a0) in c.get("pre", []):
            try: _lm(c, st0, a0, kw)
            except Exception: pass
            mpmath.mp.dps = dps
        t, p, a = _lm(c, c["steps"], c["acc"], kw)
        return {"T": int(t), "p": int(p), "c": int(a)}
    finally:
        mpmath.mp.dps = 15

def coq_case(c, r):
    if "raise" in r:
        return "(K03 %s %s %s %s %s %s %s %s)" % (cz(0), cz(c["steps"]), cz(c["rate"]), cz(c["accel"]), copt(c["acc"], cz), cz(-7), cz(0), cz(0))
    return "(K03 %s %s %s %s %s %s %s %s)" % (cz(c["entry"]), cz(c["steps"]), cz(c["rate"]), cz(c["accel"]), copt(c["acc"], cz), cz(r["T"]), cz(r["p"]), cz(r["c"]))

def _rev_before_end(c):
    n = norm(c["steps"], c["rate"], c["accel"], c["acc"])
    if n is None: return False
    st, r0, a, acc = n
    kr = krev(r0, a)
    return kr is not None and kr < c["truth"][0]
def nontrivial(c, r):
    return _rev_before_end(c) or c["truth"][0] > 1000

def explain(c, r):
    return {"call": "calculate_lm(%d, %d, %d, %s)" % (c["steps"], c["rate"], c["accel"], "'clear'" if c["acc"] is None else c["acc"]) if c["entry"] == 0
            else "moveTimeLM(rate=%d, steps=%d, accel=%d)" % (c["rate"], c["steps"], c["accel"]),
            "implementation": r, "first_tick_reaching_budget_(T,p,c)": c["truth"], "family": c["family"]}

def shrink(c):
    for key in ("steps", "rate", "accel"):
        v = c[key]
        for nv in (v // 2, v - 1 if v > 0 else v + 1, tq(v, 10)):
            if nv != v:
                d = dict(c); d[key] = nv
                t = truth(d["steps"], d["rate"], d["accel"], d["acc"])
                if t != "OUT":
                    d["truth"] = list(t); yield d
    if c["acc"] not in (None, 0): 
        d = dict(c, acc=0); t = truth(d["steps"], d["rate"], d["accel"], 0)
        if t != "OUT": d["truth"] = list(t); yield d

# ---- classes of the defects found in the tree as found (547df41) ----
def _wrong(c, r): return [r.get("T"), r.get("p"), r.get("c")] != c["truth"] if c["entry"] == 0 else r.get("T") != c["truth"][0]
def _f_rev(c, r):
    """the rate changes sign during the move (every defect class of calculate_lm as found needs a reversal)"""
    return _wrong(c, r) and _rev_before_end(c)
FINDING_CLASSES = {"lm_reversal_cases": _f_rev}
