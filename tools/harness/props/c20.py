"""C20 text_utils.xml_escape (vs lxml read-back) and format_hms."""
from fractions import Fraction as F
from lxml import etree
from common import cq, cz, cb, clist
from plotink import text_utils

ID = "C20"
COQ_HEADER = "From Plotink Require Import Base.Prelude Corr.C20.\nOpen Scope Z_scope."
COQ_RUN = "run20"
COQ_CASE_TYPE = "case20"
SHARD = 300
RULE = ("strings over XML-legal characters from a grammar (specials, pre-escaped entities, mixed quotes, non-ASCII, astral, TAB/LF/CR) read back with lxml "
        "as element content and as double- and single-quoted attribute value; durations in [0, 1e7] s as floats/ints in seconds or milliseconds incl. the "
        "x.5 boundaries 9.9995, 59.5, 60.5, 3599.5, 3600.5 and one ulp either side; non-trivial = text containing a special character, or duration >= 10")
TRUSTED = ["lxml (libxml2) as the reference 'standard XML parser'; Spec/Xml.v is compared with it on every case (code 4 = oracle mismatch)",
           "CPython round() and '%.3f' are correctly rounded half-even (modelled on exact rationals)",
           "float division ms/1000.0 = round-to-nearest-even at 53 bits (Base/Rnd.v, executed)"]
ASSUMPTIONS = ["strings contain only XML-legal characters; durations are finite and non-negative"]

PIECES = ["&", "<", ">", '"', "'", "&amp;", "&lt;", "&gt;", "&quot;", "&apos;", "&#38;", "a", "b", " ", "x=1", "é", "€", "\U0001F600",
          "]]>", "<!--", "&amp;amp;", ";", "amp;", "lt;"]
WS = ["\t", "\n", "\r", "\r\n"]

def _text(rng, allow_ws):
    n = rng.choice([0, 1, 1, 2, 3, 5, 8, 13])
    out = []
    for _ in range(n):
        r = rng.random()
        if r < 0.7: out.append(rng.choice(PIECES))
        elif r < 0.8 and allow_ws: out.append(rng.choice(WS))
        elif r < 0.9: out.append(chr(rng.choice([0x20, 0x7e, 0xa0, 0xd7ff, 0xe000, 0xfffd, 0x10000, 0x10ffff])))
        else: out.append(chr(rng.randint(0x20, 0x2ff)))
    return "".join(out)

def generate(rng, tier):
    nx, nh = (500, 700) if tier == "quick" else (25000, 35000)
    cases = [{"kind": "x", "s": "a\rb", "family": "cr-witness"}, {"kind": "x", "s": "a\tb", "family": "tab-witness"}]
    # texts of several lines whose special characters come after the first line break (the known finding above covers the line break
    # itself, not the special characters around it)
    cases += [{"kind": "x", "s": t, "family": "xml/multi-line"} for t in ["Layer 1\n<pen up & down>", "Title\nR&D", "\n<", "a\r\n\"b\"", "x\ty'z", "<a>\n<b>", "\n\n&"]]
    for _ in range(nx):
        ws = rng.random() < 0.25
        cases.append({"kind": "x", "s": _text(rng, ws), "family": "xml/ws" if ws else "xml/plain"})
        r = rng.random()
        if r < 0.12:
            # the text to escape is itself the outcome of an earlier call (text that is escaped twice on purpose, e.g. markup shown as text):
            # the very object that call returned is handed in, and must be escaped like any other string equal to it
            b = _text(rng, False)
            ref = b.replace("&", "&amp;").replace("<", "&lt;").replace(">", "&gt;").replace('"', "&quot;").replace("'", "&apos;")
            cases.append({"kind": "x", "s": ref, "via": b, "family": "xml/result-of-an-earlier-call"})
        elif r < 0.18:
            cases[-1]["sub"] = True; cases[-1]["family"] += "/str-subclass"
    # long texts: dozens to hundreds of special characters (a whole SVG fragment or a log shown as text), every one of them replaced
    for _ in range(max(6, nx // 60)):
        k = rng.choice([31, 32, 33, 34, 64, 65, 100, 257, 1000])
        body = "".join(rng.choice(["&", "<", ">", '"', "'", "&amp;", "a", " ", "<b>", "x=\"1\""]) for _ in range(k))
        cases.append({"kind": "x", "s": rng.choice(["&" * k, "<" * k, body, body, "'" * k + "&"]), "family": "xml/many-specials/%d" % k})
    for c in cases:
        if c["kind"] == "x" and "via" not in c and rng.random() < 0.1: c["precall"] = True; c["family"] += "/after-saxutils-style-call"
    bounds = [9.9995, 9.9994999, 10.0, 59.5, 60.5, 59.4999, 3599.5, 3600.5, 3599.4999, 35999.5, 0.0005, 0.0015, 0.0025, 1e7, 9.9996, 61.5, 119.5, 7199.5]
    for _ in range(nh):
        r = rng.random()
        if r < 0.35:
            b = rng.choice(bounds); import math
            d = rng.choice([b, math.nextafter(b, 0), math.nextafter(b, 1e9), float(int(b))])
            fam = "hms/boundary"
        elif r < 0.5:
            d = rng.randint(0, 10**7) + rng.choice([0.5, 0.0, 0.25, 0.499999, 0.500001]); fam = "hms/half"
        elif r < 0.53:
            # whole numbers of seconds beyond 2^53 (integers that no double represents exactly): every digit of the count is meaningful
            d = rng.choice([2**53 + 1, 2**53 + 61, 2**64 + 59, 10**17 + 1, 10**20 + 3661, rng.randint(2**53, 2**70) | 1]); fam = "hms/int-beyond-2^53"
        elif r < 0.6:
            d = rng.randint(0, 10**7); fam = "hms/int"
        elif r < 0.8:
            d = rng.uniform(0, 20); fam = "hms/short"
        else:
            d = 10 ** rng.uniform(0, 7); fam = "hms/log"
        ms = rng.random() < 0.4 and fam != "hms/int-beyond-2^53"
        if ms:
            d = d * 1000 if rng.random() < 0.7 else float(int(d * 1000)) if rng.random() < 0.5 else int(d * 1000)
        cases.append({"kind": "h", "d": d, "ms": ms, "family": fam + ("/ms" if ms else "")})
    return cases

class _Label(str):
    """an application's own string type (a translated label, a path name): a string like any other"""

def _lx(esc):
    c = etree.fromstring(("<r>%s</r>" % esc).encode("utf-8")).text or ""
    dq = etree.fromstring(('<r a="%s"/>' % esc).encode("utf-8")).get("a")
    sq = etree.fromstring(("<r a='%s'/>" % esc).encode("utf-8")).get("a")
    return c, dq, sq

def _saxutils_style_precall(c):
    """an application (or a library next to this one) may call the function the way xml.sax.saxutils.escape is called, with a dictionary of
    further replacements; where the function does not take one the call is a TypeError and nothing happened; either way, the ordinary
    one-argument call judged afterwards is what the property is about"""
    extras = [{" ": "&nbsp;"}, {"a": "&auml;"}, {"\u00a0": "&nbsp;", "-": "&ndash;"}][len(c["s"]) % 3]
    for call in (lambda: text_utils.xml_escape("x y", extras), lambda: text_utils.xml_escape("x y", entities=extras)):
        try: call()
        except Exception: pass

def run_impl(c):
    if c["kind"] == "x" and c.get("precall"):
        _saxutils_style_precall(c)
    if c["kind"] == "x":
        arg = c["s"]
        if "via" in c:
            first = text_utils.xml_escape(c["via"])
            if first == c["s"]: arg = first                     # the object the library returned (equal to the text of this case)
        elif c.get("sub"):
            arg = _Label(c["s"])
        esc = text_utils.xml_escape(arg)
        try:
            lc, ldq, lsq = _lx(esc)
        except etree.XMLSyntaxError as e:
            return {"esc": esc, "lx": None, "err": str(e)[:100]}
        return {"esc": esc, "lx": [lc, ldq, lsq]}
    return {"out": text_utils.format_hms(c["d"], c["ms"])}

def _t(s):
    return clist([cz(ord(ch)) for ch in s])

def coq_case(c, r):
    if c["kind"] == "x":
        if "raise" in r or r.get("lx") is None:
            # not well-formed when embedded: an observation that cannot satisfy the property
            return "(K20x %s %s [] [] [])" % (_t(c["s"] + "!"), _t(r.get("esc", "")) if "esc" in r else "[]")
        return "(K20x %s %s %s %s %s)" % (_t(c["s"]), _t(r["esc"]), _t(r["lx"][0]), _t(r["lx"][1]), _t(r["lx"][2]))
    out = r.get("out", "?") if "raise" not in r else "raise"
    return "(K20h %s %s %s)" % (cq(F(c["d"])), cb(c["ms"]), _t(out))

def nontrivial(c, r):
    if c["kind"] == "x":
        return any(ch in c["s"] for ch in "&<>\"'")
    return (c["d"] / 1000 if c["ms"] else c["d"]) >= 10

def _ws_finding(c, r):
    """the case fails only because of raw CR/TAB/LF: the same text with those characters replaced round-trips"""
    if c["kind"] != "x" or not any(ch in c["s"] for ch in "\t\n\r"):
        return False
    s2 = c["s"].replace("\t", "x").replace("\n", "x").replace("\r", "x")
    # ... and on this very text the function did what it documents (the five special characters replaced, everything else kept): the
    # failure is then the parser's white-space normalisation alone, not anything the function did differently because of those characters
    ref = c["s"].replace("&", "&amp;").replace("<", "&lt;").replace(">", "&gt;").replace('"', "&quot;").replace("'", "&apos;")
    if r.get("esc") != ref:
        return False
    try:
        esc = text_utils.xml_escape(s2)
        return list(_lx(esc)) == [s2, s2, s2] and not any(ch in esc for ch in "<>\"'")
    except Exception:
        return False
FINDING_CLASSES = {"xml_escape_leaves_cr_tab_lf_raw": _ws_finding}

def shrink(c):
    if c["kind"] == "x":
        s = c["s"]
        for i in range(len(s)):
            yield dict(c, s=s[:i] + s[i + 1:])
    else:
        d = c["d"]
        for nd in (float(int(d)), round(d, 1), d / 2):
            if nd != d: yield dict(c, d=nd)

def explain(c, r):
    if c["kind"] == "x":
        return {"text": repr(c["s"]), "escaped": repr(r.get("esc")), "lxml_reads_back": repr(r.get("lx"))}
    return {"duration": repr(c["d"]), "ms": c["ms"], "printed": r.get("out")}
