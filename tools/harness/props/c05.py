"""C05 EBB3 command/query framing and fault handling, for every public request method."""
from props import ebb3sim as S
from common import clist

ID = "C05"
CFG = (True, True, True, True)     # (fix_status, fix_volt, fix_nick, fix_pin): readings of the model the implementation is compared with (True = repaired in /repo)
COQ_HEADER = "From Plotink Require Import Base.Prelude Base.PyStr Model.Serial3 Corr.S3 Corr.C05.\nOpen Scope Z_scope."
COQ_RUN = "run05"
COQ_CASE_TYPE = "case05"
SHARD = 60
RULE = ("a connected, error-free object, then one request (or 2-5 requests in a row): request strings from a grammar (one letter, one letter + arguments, two letters, "
        "with surrounding white space: blanks/tabs/newlines, the separators \\x1c-\\x1f, no-break and wide spaces); reply streams built from the conforming reply with one disturbance per I/O position: SerialException at the write or at "
        "any read, 24/25/26/27 empty reads before the reply (retry boundary; an empty read is a timeout or a line of white space only), device error line (bare, and one that begins with the request's own name), wrong-name line, silence; every one of the 32 request methods with a "
        "fault at every I/O position of its nominal exchange (systematic), plus undisturbed sequences whose return values are judged against the device model; "
        "non-trivial = the call consumed at least two events")
TRUSTED = ["pyserial behaviour = fake port (write/readline succeed, b'' on timeout, or SerialException)",
           "the conforming EBB device (reply = request name, comma, payload) as written in tools/harness/props/ebb3sim.py"]
ASSUMPTIONS = ["replies are ASCII lines; faults are SerialException; payloads of name-correct replies are well-formed for the method that parses them"]

REQS = ["QM", "V", "I", "QB", "QS", "QG", "A", "QP", "QE", "QC", "QT", "PI,B,1", "QL,3", "I,1", "S,1", "QR", "ES", "Q1", "T3", "S2,1", "QL,{0}", "QT{}", "Q%s",
        "QL, 3", "PI,B ,1", "QL,\t3"]          # white space next to an interior comma is part of the text: only the ends are trimmed
CMDS = ["EM,1,1", "SP,1,100", "TP", "SM,100,0,0", "R", "RB", "BL", "CS", "SC,4,16000", "S,2", "XM,10,1,1", "T3,1,0,0,0,0,0,0,3", "CU,50,0",
        "T3,1,0,0,0,0,0,0,3", "S2,0,4,50,10", "L3,1,2,3,4,5,6,7,8", "L3", "S2", "T3", "TD,1,2", "LM,1,2,3,4,5,6", "LT,5,1,0,1,0",      # names whose second character is a digit, and their letter-only neighbours
        "B", "L,1,2", "b,7", "l", "LB", "BR", "r,1", "C", "N,1", "O,1,2,3", "Z", "ST,{AxiDraw}", "SM,{0},1", "ST,100%d", "SL,{",
        "SM, 100,0,0", "SM,100 ,0,0", "ST,Doe, J", "ST,a ,\tb", "SP,1, 100"]        # one-letter names, incl. the letters of the reboot-class names
WS = ["", "", " ", "\t", " \r\n", "  ", "", " ", "\x1f", "\x1c\x1d ", "\xa0", "\u2003", "\x85\t"]       # str.strip() removes every str.isspace() character, not the six ASCII ones only

def _expected(call, events):
    """what a conforming exchange must return (None = not judged), from the events alone"""
    m = call[0]
    lines = [e[1] for e in events if isinstance(e, tuple) and e[1].strip()]          # lines of white space only are empty reads
    def payload(l): return l.split(",", 1)[1] if "," in l else ""
    try:
        if m == "command": return True
        if m == "query":
            t = call[1].strip(); nm = t[0] if (len(t) == 1 or t[1] == ",") else t[:2]
            rest = lines[0].strip()[len(nm):]                  # the reply with the name ...
            return rest[1:] if rest.startswith(",") else rest  # ... and one separating comma removed
        if m == "status": return int(payload(lines[0]), 16)
        if m == "var_read": return int(payload(lines[0]))
        if m == "var_write": return True
        if m == "steps": a, b = payload(lines[0]).split(","); return (int(a), int(b))
        if m == "b_read": return bool(int(payload(lines[0])))
        if m == "current": a, b = payload(lines[0]).split(","); return (int(a), int(b))
        if m == "voltage":
            a, b = payload(lines[0]).split(","); th = 250 if call[1] is None else call[1]; return not (int(b) < th)
        if m == "var_read32":
            bs = bytes(int(payload(l)) for l in lines[:4]); return int.from_bytes(bs, "big", signed=True)
        if m == "var_write32": return True
    except Exception:
        return "SKIP"
    return "SKIP"

def _variants(rng):
    """every request method with typical arguments; methods whose exchange depends on their arguments once per branch"""
    out = []
    for m in S.ALL_REQUESTS:
        if m == "motors_on":
            for a in ((0, rng.randint(1, 5)), (rng.randint(1, 5), 0), (3, 3), (1, 4), (0, 0), (-2, 2)):
                out.append((m, ("motors_on",) + a))
        elif m == "pause":
            for n in (rng.randint(1, 750), 1600, 0):
                out.append((m, ("pause", n)))
        elif m == "write_nick":
            out += [(m, ("write_nick", "Bot")), (m, ("write_nick", "  ")), (m, ("write_nick", "Doe, J"))]
        else:
            out.append((m, S.sample_call(m, rng)))
    return out

def generate(rng, tier):
    cases = []
    pre_calls = [("connect", S.GOOD_PORTS, None)]; pre_ev = S.connect_script()
    def add(calls, parts, fam, expect=None):
        cases.append({"calls": pre_calls + calls, "events": pre_ev + sum(parts, []), "family": fam,
                      "expect": (["SKIP"] + expect) if expect is not None else None})
    # 1. systematic: every method, a fault / error line / wrong name / silence at every I/O position of its nominal exchange
    reps = 1 if tier == "quick" else 8
    for _ in range(reps):
        for m, c in _variants(rng):
            nom = S.nominal(c, rng)
            add([c], [nom], "clean/%s" % m, [_expected(c, nom)])
            for i in range(len(nom)):
                nm_i = nom[i][1].split(",")[0] if isinstance(nom[i], tuple) else ""
                for kind, repl in (("fault", ["F"]), ("errline", [("L", "!Err: 5")]), ("wrongname", [("L", "ZZ,1")]), ("silence", ["E"] * 30),
                                   ("nameerr", [("L", nm_i + ",Err: 7")]), ("nameerr2", [("L", nm_i + " Err: bad")]),
                                   ("nearname", [("L", nm_i[:1] + "_,1")]),          # shares only the first character with the expected name
                                   ("casename", [("L", nm_i.swapcase() + (nom[i][1][len(nm_i):] if isinstance(nom[i], tuple) else ""))]),      # the right letters in the other case: a different name
                                   ("okfirst", [("L", "OK"), nom[i]])):          # a legacy-style 'OK' line arrives first: it is the reply, and it is not the request's name
                    if kind in ("errline", "wrongname", "nameerr", "nameerr2", "nearname", "casename", "okfirst") and nom[i] == "E": continue          # those replace a reply, not a write
                    if kind == "okfirst" and (not nm_i or "OK".startswith(nm_i)): continue
                    if kind == "nearname" and len(nm_i) < 2: continue
                    if kind == "casename" and nm_i.swapcase() == nm_i: continue
                    ev = nom[:i] + repl + nom[i + 1:]
                    # whatever the disturbance and wherever it falls, the request fails in the documented way (R / RB / BL and the
                    # reboot-class methods ignore I/O faults and are not judged here)
                    tnm0 = c[1].strip().upper() if c[0] in ("command", "query") and isinstance(c[1], str) else ""
                    unjudged = c[0] in ("reboot", "bootload") or tnm0 in ("R", "RB", "BL")
                    add([c, S.random_call(rng)], [ev, S.nominal(("status",), rng)], "%s@%d/%s" % (kind, i, m), None if unjudged else ["FAIL", "SKIP"])
                if isinstance(nom[i], tuple) or i == 0:
                    # the same request was answered properly a moment ago, and now the board stays silent (or the link drops) at this
                    # exchange: the earlier reply must not stand in for the missing one
                    kind, repl = rng.choice([("silence", ["E"] * 30), ("silence", ["E"] * 30), ("fault", ["F"])])
                    ev = (nom[:i] + repl + nom[i + 1:]) if isinstance(nom[i], tuple) else (["E"] + ["E"] * 30)
                    tnm = c[1].strip().upper() if c[0] == "command" and isinstance(c[1], str) else ""
                    exempt = c[0] in ("reboot", "bootload") or tnm in ("R", "RB", "BL")
                    if not exempt:
                        add([c, c, S.random_call(rng)], [nom, ev, S.nominal(("status",), rng)], "after-its-own-success/%s@%d/%s" % (kind, i, m), [_expected(c, nom), "FAIL", "SKIP"])
                if isinstance(nom[i], tuple):
                    # a line of white space only (a bare line ending, blanks) arrives before the reply: it is an empty read like a timeout
                    ev = nom[:i] + [("L", rng.choice(["", " ", "\t "]))] * rng.choice([1, 1, 2, 7]) + nom[i:]
                    add([c, S.random_call(rng)], [ev, S.nominal(("status",), rng)], "blank@%d/%s" % (i, m))
    # 2. request grammar x retry boundary
    n = 120 if tier == "quick" else 8000
    for _ in range(n):
        isq = rng.random() < 0.5
        body = rng.choice(REQS if isq else CMDS)
        text = rng.choice(WS) + body + rng.choice(WS)
        call = ("query" if isq else "command", text)
        nm = body[0] if (len(body) == 1 or body[1] == ",") else body[:2]
        k = rng.random()
        # payloads: numbers, and texts that begin with the separator or with the letters of the request name (kept verbatim by a correct client)
        pay = rng.choice([str(rng.randint(0, 99))] * 4 + [",odd", ",,7", nm, nm + "," + nm, ",", "a,b", ",,,x", nm[0] * 3, "x" + nm,
                          "Overr:ide", "ERR:x", "err: 1", "Error", "terr:a", "!8"])          # payloads that resemble the error marker 'Err:' without containing it
        reply = nm + ("," + pay if isq and rng.random() < 0.85 else (pay if isq and rng.random() < 0.3 and not pay[0].isdigit() and pay[0] != "," else ""))
        exp = "SKIP"
        if k < 0.35:
            ne = rng.choice([0, 1, 24, 25, 26, 27]); fam = "empties%d" % ne
            blanks = rng.choice([[], [], [""], ["", " ", "\t", " \t "]])            # empty reads: timeouts, or lines of white space only
            if blanks: fam = "blank-" + fam
            ev = ["E"] + [("L", rng.choice(blanks)) if (blanks and rng.random() < 0.6) else "E" for _ in range(ne)] + [("L", reply)]
            # the request waits through up to 25 empty reads: the reply is accepted iff at most 25 empties precede it
            exp = (_expected(call, ev) if not (body in ("R", "RB", "BL")) else "SKIP") if ne <= 25 else "FAIL"
        elif k < 0.5: ev = ["E", ("L", rng.choice(["!8 Err: unknown", nm + ",Err: 3", nm + ",Err: 3", nm + ",1,Err:", "Err:"]))]; fam = "errline"; exp = "FAIL"
        elif k < 0.65:
            # wrong names incl. ones that share the first character with the request's name (T for T3, TD / T4 for T3, SC for S2, Q for QS)
            near = [nm[0], nm[0] + "Z", nm[0] + "9", nm[0] + ",1", nm[0] + nm[0]] if len(nm) == 2 else []
            wrong = [w for w in ["OK", "ZZ", (nm[::-1] + "x") if (len(nm) == 2 and nm[0] != nm[1]) else ("x" + nm), nm.lower() if nm.lower() != nm else "x" + nm] + near + near
                     if not w.startswith(nm)]          # "OK" is not a wrong name for a request named O
            ev = ["E", ("L", rng.choice(wrong))]; fam = "wrongname"; exp = "FAIL"
        elif k < 0.8: ev = ["E"] + ["E"] * rng.randint(0, 5) + ["F"]; fam = "readfault"; exp = "SKIP" if (not isq and nm.upper() in ("R", "RB", "BL")) else "FAIL"
        elif k < 0.88: ev = ["F"]; fam = "writefault"; exp = "SKIP" if (not isq and nm.upper() in ("R", "RB", "BL")) else "FAIL"
        else: ev = ["E", ("L", " " + reply + "  ")]; fam = "padded-reply"
        add([call, ("status",)], [ev, S.nominal(("status",), rng)], "grammar/%s/%s" % ("query" if isq else "command", fam), [exp, "SKIP"])
    # every request text of the grammar with a fault at the write and at the first read (systematic: which names are exempt from
    # recording an I/O exception is a fixed, short list - R, RB, BL in any case - and every other name, one letter or two, is not)
    for isq, texts in ((True, REQS), (False, CMDS)):
        for body in texts:
            nm = body[0] if (len(body) == 1 or body[1] == ",") else body[:2]
            call = ("query" if isq else "command", rng.choice(WS) + body + rng.choice(WS))
            for fam, ev in (("writefault", ["F"]), ("readfault", ["E", "F"]), ("late-readfault", ["E", "E", "E", "F"])):
                exp = "SKIP" if nm.upper() in ("R", "RB", "BL") else "FAIL"
                add([call, ("status",)], [ev, S.nominal(("status",), rng)], "every-name/%s/%s" % ("query" if isq else "command", fam), [exp, "SKIP"])
    # request texts that a formatting layer could mistake for a template (braces, percent signs), each with every kind of bad outcome:
    # whatever is done with the text on the way to the error message, the request fails in the documented way and nothing is raised
    for text, isq in [("ST,{AxiDraw}", False), ("SM,{0},1", False), ("ST,100%d", False), ("SL,{", False), ("ST,50% speed", False), ("ST,%s%s", False), ("ST,%(x)s", False),
                      ("QL,{0}", True), ("QT{}", True), ("Q%s", True), ("QL,%d", True), ("QT%", True)]:
        call = ("query" if isq else "command", text)
        nm = text[0] if (len(text) == 1 or text[1] == ",") else text[:2]
        for fam, ev, exp in [("errline", ["E", ("L", "!8 Err: unknown")], "FAIL"), ("nameerr", ["E", ("L", nm + ",Err: 3")], "FAIL"), ("wrongname", ["E", ("L", "ZZ,1")], "FAIL"),
                             ("silence", ["E"] + ["E"] * 27, "FAIL"), ("readfault", ["E", "F"], "FAIL"), ("writefault", ["F"], "FAIL"), ("clean", ["E", ("L", nm + (",7" if isq else ""))], "SKIP")]:
            add([call, ("status",)], [ev, S.nominal(("status",), rng)], "template-like-text/%s/%s" % ("query" if isq else "command", fam), [exp, "SKIP"])
    for paytxt in ["Overr:ide", "ERR:x", "err: 1", "ERR: 9", "eRr:", "Error", "OK"]:
        for text in ("QT", "QL,3", "V"):
            nm = text[0] if (len(text) == 1 or text[1] == ",") else text[:2]
            call = ("query", text); ev = ["E", ("L", nm + "," + paytxt)]
            add([call, ("status",)], [ev, S.nominal(("status",), rng)], "payload-resembling-the-error-marker/%s" % paytxt, [_expected(call, ev), "SKIP"])
    for nick in ["Plotter 50% speed", "{0}", "100%", "%s", "a{b}c"]:
        nomn = S.nominal(("write_nick", nick), rng)
        for i in range(len(nomn)):
            if isinstance(nomn[i], tuple):
                for repl in ([("L", "!8 Err: unknown")], [("L", "ZZ,1")], ["F"]):
                    add([("write_nick", nick), ("status",)], [nomn[:i] + repl + nomn[i + 1:], S.nominal(("status",), rng)], "template-like-text/write_nick", None)
    # a port whose close() would fail (unplugged device: pyserial's exception or a plain OSError): a request that meets an I/O fault must
    # still come back with its failure value, whatever it does about the dead port
    for c in cases:
        if any(e == "F" for e in c["events"]) and rng.random() < 0.5:
            c["close_raises"] = rng.choice(["os", "os", True]); c["family"] += "/close-would-fail"
    # runs of 8..35 commands (no query in between), every acknowledgement arriving after 1-4 timed-out reads: the allowance of 25 empty
    # reads is per request, however many were used up by the requests before
    for _ in range(8 if tier == "quick" else 400):
        k = rng.choice([1, 2, 3, 4]); lo = max(8, 26 // k + 1); m = rng.randint(lo, lo + 8)
        calls = [rng.choice([("command", "SM,%d,0,0" % rng.randint(1, 700)), ("xy", 3, 4, 50), ("pen_lower", 100, None), ("pause", 300), ("motors_off",), ("command", "SP,1")]) for _ in range(m)]
        parts = []
        for c0 in calls:
            nom = S.nominal(c0, rng); ev = []
            for e in nom:
                ev += (["E"] * k if isinstance(e, tuple) else []) + [e]
            parts.append(ev)
        tail = ("query", "QB"); calls.append(tail); parts.append(S.nominal(tail, rng))
        add(calls, parts, "run-of-slow-commands/%d-empties-each" % k, [_expected(c0, p0) for c0, p0 in zip(calls, parts)])
    # 3. attribution: undisturbed sequences
    for _ in range(60 if tier == "quick" else 4000):
        calls = [S.random_call(rng) for _ in range(rng.randint(2, 5))]
        parts = [S.nominal(c, rng) for c in calls]
        add(calls, parts, "conforming-sequence", [_expected(c, p) for c, p in zip(calls, parts)])
    return cases

def static_obligations(work, tier):
    import common
    return common.ws_table_obligation(work)


def run_impl(c):
    return {"obs": S.jsonable_obs(S.run_history(c["calls"], c["events"], c.get("close_raises", False)))}

def coq_case(c, r):
    if "raise" in r:
        return "(K05 %s [] [(CStatus, mkobs true RNone [] None true None 0%%nat)] [])" % S.coq_cfg(*CFG)
    ex = c.get("expect") or []
    exs = clist(["ENone" if (e == "SKIP") else "EFail" if e == "FAIL" else "(ERet %s)" % S.coq_rv(tuple(e) if isinstance(e, list) else e) for e in ex])
    return "(K05 %s %s %s %s)" % (S.coq_cfg(*CFG), S.coq_script(c["events"]), S.coq_history(c["calls"], r["obs"]), exs)

def nontrivial(c, r):
    obs = r.get("obs", [])
    return len(obs) >= 2 and obs[1]["consumed"] >= 2

def explain(c, r):
    return {"port_close_would_raise": str(c.get("close_raises", False)), "calls": [list(map(str, x)) for x in c["calls"]], "script": [e if isinstance(e, str) else e[1] for e in c["events"]][:80],
            "expect": [str(e) for e in (c.get("expect") or [])],
            "observed": [{k: o[k] for k in ("raised", "ret", "writes", "err", "port", "consumed")} for o in r.get("obs", [])]}

def _is(c, r, m):
    return len(c["calls"]) >= 2 and c["calls"][1][0] == m
def _volt(c, r):
    """query_voltage / query_current raise AttributeError when their own QC query fails"""
    obs = r.get("obs", [])
    return any(c["calls"][i][0] in ("voltage", "current") and o["raised"] == "AttributeError" for i, o in enumerate(obs)) \
        and not any(o["raised"] not in (None, "AttributeError") for o in obs)
def _nick(c, r):
    """write_nickname returns True although its ST command failed"""
    obs = r.get("obs", [])
    return any(c["calls"][i][0] == "write_nick" and o["ret"] is True and o["err"] is not None and (i == 0 or obs[i - 1]["err"] is None) for i, o in enumerate(obs))
def _status(c, r):
    """query_statusbyte returns a number after recording a mismatched reply"""
    obs = r.get("obs", [])
    return any(c["calls"][i][0] == "status" and isinstance(o["ret"], int) and o["err"] is not None and (i == 0 or obs[i - 1]["err"] is None) for i, o in enumerate(obs))
FINDING_CLASSES = {"ebb3_query_voltage_current_raise_on_failed_query": _volt, "ebb3_write_nickname_true_on_failure": _nick,
                   "ebb3_statusbyte_value_after_mismatch": _status}

def shrink(c):
    calls = c["calls"]
    for i in range(len(calls) - 1, 1, -1):
        yield dict(c, calls=calls[:i] + calls[i + 1:], expect=None)
