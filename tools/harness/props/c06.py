"""C06 motion / configuration helpers of both layers emit exactly the documented EBB command text."""
from common import cz, cb, clist, ctext, copt
from props import ebb3sim as S
import inspect, serial
from plotink import ebb_motion, ebb3_motion, ebb3_serial

ID = "C06"
FX = True           # reading of the optional-argument tests the implementation is compared with (False = truthiness as found at 547df41, True = "is not None", repaired)
COQ_HEADER = "From Plotink Require Import Base.Prelude Base.PyStr Model.Serial3 Spec.EbbDoc Model.Motion Corr.C06.\nOpen Scope Z_scope."
COQ_RUN = "run06"
COQ_CASE_TYPE = "case06"
SHARD = 150
RULE = ("every helper of ebb_motion.py (function style) and ebb3_motion.py / EBB3.var_write (class style) called against an all-acknowledging fake port (acknowledging at once, after 1-3 timed-out reads, or after a blank line), "
        "with positional and with keyword arguments, (function style) also right after the same request made with equal-valued floats / booleans, alone and (class style) after 1-3 earlier helper calls on the same object incl. disconnect/reattach, a port replaced by assignment, and every ordered pair of single-motor requests, with arguments from {0, +-1, 750, 751, 1500, 2^31-1, -2^31, random}, optional arguments absent / zero / non-zero, motor resolutions -2..8, pauses "
        "-5..4000 incl. the chunk boundaries; the bytes written (every line must end in exactly one CR) are compared with the model and with the documented text; "
        "non-trivial = a helper with at least one optional or zero-valued argument, or a pause of more than one chunk")
TRUSTED = ["the documented command table Spec/EbbDoc.v, transcribed from the docstrings of the repository", "fake port acknowledging every command"]
ASSUMPTIONS = ["integer arguments"]

EDGE = [0, 1, -1, 750, 751, 1500, 2**31 - 1, -2**31, 12345, -777]

def _i(rng): return rng.choice(EDGE + [rng.randint(-100000, 100000)])
def _o(rng): return rng.choice([None, 0, 0, 1, 3, 7, _i(rng)])
def _pause(rng): return rng.choice([-5, 0, 1, 2, 749, 750, 751, 1499, 1500, 1501, 2250, 4000, rng.randint(1, 5000)])

def generate(rng, tier):
    n = 40 if tier == "quick" else 2500
    cases = []
    def add(h): cases.append({"h": h, "family": h[0]})
    # low-level move: every zero / non-zero pattern of the six numeric arguments (the suppression rule depends on nothing else)
    for mask in range(64):
        vals = [0 if (mask >> b) & 1 else rng.choice([1, -1, _i(rng) or 5]) for b in range(6)]
        add(("L_LM",) + tuple(vals) + (rng.choice([None, 0, 1, 2, 3]),))
    # moves of both layers: every zero / non-zero pattern of the two distances x durations around the pause chunk size and <= 0
    for dx in (0, rng.choice([1, -1, _i(rng) or 7])):
        for dy in (0, rng.choice([1, -1, _i(rng) or 9])):
            for dur in (0, -5, 1, 750, 751, 1500, 1501, 65535, 100000):
                add(("L_XY", dx, dy, dur)); add(("E_XY", dx, dy, dur)); add(("L_AB", dx, dy, dur))
    for _ in range(n):
        add(("L_XY", _i(rng), _i(rng), _i(rng))); add(("L_AB", _i(rng), _i(rng), _i(rng)))
        add(("L_LM", rng.choice([0, _i(rng)]), rng.choice([0, _i(rng)]), rng.choice([0, _i(rng)]), rng.choice([0, _i(rng)]), rng.choice([0, _i(rng)]), rng.choice([0, _i(rng)]), rng.choice([None, 0, 1, 2, 3])))
        add(("L_Abs", _i(rng), _o(rng), _o(rng))); add(("L_Pause", _pause(rng))); add(("L_MotorsOff",)); add(("L_Motors", rng.randint(-2, 8)))
        add(("L_Pen", rng.random() < 0.5, _i(rng), _o(rng))); add(("L_BConfig", rng.randint(0, 7), rng.randint(0, 1))); add(("L_BSet", rng.randint(0, 7), rng.randint(0, 1)))
        add(("L_Toggle",)); add(("L_PenPos", rng.random() < 0.5, _i(rng))); add(("L_PenRate", rng.random() < 0.5, _i(rng)))
        add(("L_LayerVar", rng.randint(0, 255))); add(("L_Servo", _i(rng), rng.choice([None, 0, 1])))
        va, vb, vc = rng.choice([(2, 5, 9), (2, 6, 0), (2, 0, 6), (2, 5, 3), (2, 10, 0), (3, 0, 0), (1, 9, 9), (2, 6, 1), (2, 4, 10), (2, rng.randint(0, 12), rng.randint(0, 12))])
        add(("L_ServoV", va, vb, vc, _i(rng), rng.choice([None, 0, 1])))
        add(("E_XY", _i(rng), _i(rng), _i(rng))); add(("E_Abs", _i(rng), _o(rng), _o(rng))); add(("E_Pause", _pause(rng))); add(("E_MotorsOff",))
        add(("E_MotorsOn", rng.randint(-2, 8), rng.randint(-2, 8))); add(("E_Pen", rng.random() < 0.5, _i(rng), _o(rng)))
        add(("E_BConfig", rng.randint(0, 7), rng.randint(0, 1), rng.randint(0, 1))); add(("E_BSet", rng.randint(0, 7), rng.randint(0, 1)))
        add(("E_PenPos", rng.random() < 0.5, _i(rng))); add(("E_PenRate", rng.random() < 0.5, _i(rng))); add(("E_Servo", _i(rng), rng.choice([None, 0, 1])))
        add(("E_Var", rng.randint(0, 255), rng.randint(0, 31))); add(("E_ClearSteps",)); add(("E_ClearAcc",))
    # motors_enable against every motor state the board can report, for the requests that read it (motor 2 only) and a few that do not
    qs = [0, 1, 2, 4, 8, 16]
    for q1 in qs:
        for q2 in qs:
            for (r1, r2) in [(0, 1), (0, 3), (0, 5), (-1, 2), (0, 4), (2, 0), (3, 3)][:: (1 if tier != "quick" else 2)] + [(0, rng.randint(1, 5)), (0, rng.choice([6, 7, 9, 100])), (rng.choice([-3, 0]), rng.choice([6, 8]))]:
                cases.append({"h": ("E_MotorsOnQ", r1, r2, q1, q2), "family": "E_MotorsOnQ"})
    # class layer: the text a helper emits must not depend on what the object did before (state carried between calls):
    # 1-3 earlier helper calls on the same object, then the judged call; every pair of single-motor requests systematically
    def e_helper():
        return rng.choice([("E_MotorsOn", rng.randint(-1, 6), rng.randint(-1, 6)), ("E_MotorsOn", rng.choice([0, 1, 3]), rng.choice([0, 2, 5])), ("E_MotorsOff",),
                           ("E_Pen", rng.random() < 0.5, _i(rng), _o(rng)), ("E_Pause", _pause(rng)), ("E_XY", _i(rng), _i(rng), _i(rng)),
                           ("E_Abs", _i(rng), _o(rng), _o(rng)), ("E_Servo", _i(rng), rng.choice([None, 0, 1])), ("E_BConfig", rng.randint(0, 7), rng.randint(0, 1), rng.randint(0, 1)),
                           ("E_PenPos", rng.random() < 0.5, _i(rng)), ("E_Var", rng.randint(0, 255), rng.randint(0, 31)), ("E_ClearSteps",), ("E_Reconnect",), ("E_SwapPort",)])
    single = [(a, 0) for a in range(1, 6)] + [(0, b) for b in range(1, 6)]
    for (a1, b1) in single[:: (1 if tier != "quick" else 3)]:
        for (a2, b2) in single:
            cases.append({"h": ("E_MotorsOn", a2, b2), "pre": [("E_MotorsOn", a1, b1)], "family": "after/E_MotorsOn"})
    for _ in range(4 * n):
        h = e_helper()
        while h[0] in ("E_Reconnect", "E_SwapPort"): h = e_helper()
        cases.append({"h": h, "pre": [e_helper() for _ in range(rng.randint(1, 3))], "family": "after/" + h[0]})
    # with no port nothing is sent (and nothing raises): one no-port twin for every kind of helper
    seen = set()
    for c in list(cases):
        k = c["h"][0]
        if k not in seen and k not in ("E_MotorsOnQ", "L_ServoV"):
            seen.add(k); cases.append({"h": c["h"], "noport": True, "family": "no-port/" + k})
    # the text written must not depend on how promptly the board acknowledges: a third of the cases run against a port whose reads
    # time out 1-3 times (or deliver a blank line) before each acknowledgement
    # the calling convention must not matter: one twin per kind of helper, and a fifth of all cases, pass every argument by keyword
    seen = set()
    for c in list(cases):
        k = c["h"][0]
        if k not in seen and not c.get("noport") and "pre" not in c:
            seen.add(k); cases.append(dict(c, kw=True, family="keyword/" + k))
    for c in cases:
        if not c.get("noport") and "kw" not in c and rng.random() < 0.2: c["kw"] = True; c["family"] += "/keyword"
    for c in cases:
        if c["h"][0].startswith("L_") and not c.get("noport") and c["h"][0] not in ("L_ServoV",) and rng.random() < 0.3:
            c["typed_twin"] = rng.choice(["float", "float", "bool"]); c["family"] += "/after-equal-valued-%s-call" % c["typed_twin"]
    # function layer: the text written does not depend on what the board answers either (the functions report nothing back): long pauses
    # whose k-th chunk is answered by an error line, by silence, by the name-style acknowledgement of a board left in the newer reply
    # syntax, or by an I/O fault; and a sample of the other helpers with such an answer to their (first) command
    for nms in ([1499, 1500, 1501, 2250, 4000, 751, 3001] if tier == "quick" else [751, 1499, 1500, 1501, 2250, 3001, 4000] + [rng.randint(751, 9000) for _ in range(60)]):
        chunks = -(-nms // 750)
        for kind in ("errline", "silence", "newsyntax", "fault"):
            cases.append({"h": ("L_Pause", nms), "badack": (rng.randrange(chunks - 1) if chunks > 1 else 0, kind), "family": "L_Pause/unacknowledged-chunk/" + kind})
    for c in list(cases):
        if c["h"][0].startswith("L_") and c["h"][0] not in ("L_ServoV", "L_Servo") and not c.get("noport") and "badack" not in c and rng.random() < 0.08:
            kind = rng.choice(["errline", "silence", "newsyntax", "fault"])
            cases.append(dict(c, badack=(0, kind), family=c["h"][0] + "/unacknowledged/" + kind))
    seen = set()
    for c in list(cases):
        k = c["h"][0]
        if not c.get("noport") and (k not in seen or rng.random() < 0.05):
            seen.add(k); cases.append(dict(c, debug_logging=True, family="debug-logging/" + k))
    for c in cases:
        if c.get("noport"): continue
        if c["h"][0] == "L_ServoV" and rng.random() < 0.6:
            # another board was on the same serial device a moment ago (unplugged, boot loader, firmware update - its port object was simply
            # dropped) and was asked the same thing: what this board is sent depends on this board's firmware only
            c["pre_version"] = rng.choice(["2.5.3", "2.8.1", "2.6.0", "2.5.9", "3.0.0", "2.10.0", "1.9.9"]); c["family"] += "/after-another-board-on-the-same-device-name"
        r = rng.random()
        if r < 0.25: c["delay"] = rng.choice([1, 1, 2, 3]); c["family"] += "/slow-ack"
        elif r < 0.33 and not c["h"][0].startswith("L_"): c["blank"] = True; c["family"] += "/blank-line-before-ack"
    return cases

class AckPort(S.PortExtras):
    """acknowledges everything: legacy commands get OK, EBB3 requests get their own name back"""
    def __init__(self, legacy, delay=0, blank=False, version=None, qe="0,0"):
        self.legacy, self.writes, self.queue = legacy, [], []
        self.qe = qe                                 # the motor state the board reports to QE
        self.version = version                       # what a legacy board answers to V
        self.delay, self.blank = delay, blank        # reads that time out (b'') / a blank line before each acknowledgement
        self.badack = None                           # (k, kind): the k-th command is not acknowledged with OK
    def write(self, data):
        self.writes.append(data)
        t = data.decode("ascii").strip()
        nm = t[0] if (len(t) == 1 or t[1] == ",") else t[:2]
        self.queue += [b""] * self.delay + ([b"\r\n"] if self.blank else [])
        if self.badack is not None and len(self.writes) - 1 == self.badack[0]:
            kind = self.badack[1]
            if kind == "errline": self.queue.append(b"!8 Err: Unknown command\r\n")
            elif kind == "newsyntax": self.queue.append(nm.encode() + b"\r\n")
            elif kind == "fault": self.queue.append(serial.SerialException("device reports readiness to read but returned no data"))
            return len(data)                       # "silence": nothing is queued, every read times out
        if self.legacy and nm.upper() == "V" and self.version: self.queue.append(("EBBv13_and_above EB Firmware Version %s\r\n" % self.version).encode())
        elif self.legacy: self.queue.append(b"OK\r\n")
        else: self.queue.append((nm + ("," + self.qe if nm == "QE" else "")).encode() + b"\r\n")
        return len(data)
    def readline(self):
        x = self.queue.pop(0) if self.queue else b""
        if isinstance(x, Exception): raise x
        return x
    def close(self): pass
    def reset_input_buffer(self): pass

def run_impl(c):
    if c.get("debug_logging"):
        import common
        with common.debug_logging():
            return _run_impl(c)
    return _run_impl(c)

def _run_impl(c):
    h = c["h"]; k, a = h[0], h[1:]
    legacy = k.startswith("L_")
    if c.get("noport"):
        return _run_noport(k, a, legacy)
    port = AckPort(legacy, c.get("delay", 0), c.get("blank", False), "%d.%d.%d" % tuple(a[:3]) if k == "L_ServoV" else None, "%d,%d" % (a[2], a[3]) if k == "E_MotorsOnQ" else "0,0")
    port.badack = c.get("badack")
    if c.get("pre_version"):
        try: ebb_motion.servo_timeout(AckPort(True, 0, False, c["pre_version"]), a[3], a[4], False)
        except Exception: pass
    if legacy and c.get("typed_twin") and not c.get("_twin_running"):
        # the same request was made a moment ago with whole-valued floats (or True / False) in place of the integers, on another port:
        # what was built for that call must not be reused for this one (120 == 120.0 and 0 == False, but their texts differ)
        conv = (lambda x: (bool(x) if x in (0, 1) and c["typed_twin"] == "bool" else float(x)) if isinstance(x, int) and not isinstance(x, bool) and abs(x) < 2**53 else x)
        twin = dict(c, h=(k,) + tuple(conv(x) for x in a), _twin_running=True)
        twin.pop("typed_twin")
        try: _run_impl(twin)
        except Exception: pass
    if legacy:
        M = ebb_motion
        kw = c.get("kw", False)
        if k == "L_XY": _call(M.doXYMove, (port, a[0], a[1], a[2], False), kw)
        elif k == "L_AB": _call(M.doABMove, (port, a[0], a[1], a[2], False), kw)
        elif k == "L_LM": _call(M.doLowLevelMove, (port, a[0], a[1], a[2], a[3], a[4], a[5], a[6], False), kw)
        elif k == "L_Abs": _call(M.doAbsMove, (port, a[0], a[1], a[2], False), kw)
        elif k == "L_Pause": _call(M.doTimedPause, (port, a[0], False), kw)
        elif k == "L_MotorsOff": _call(M.sendDisableMotors, (port, False), kw)
        elif k == "L_Motors": _call(M.sendEnableMotors, (port, a[0], False), kw)
        elif k == "L_Pen": _call(M.sendPenUp if a[0] else M.sendPenDown, (port, a[1], a[2], False), kw)
        elif k == "L_BConfig": _call(M.PBOutConfig, (port, a[0], a[1], False), kw)
        elif k == "L_BSet": _call(M.PBOutValue, (port, a[0], a[1], False), kw)
        elif k == "L_Toggle": _call(M.TogglePen, (port, False), kw)
        elif k == "L_PenPos": _call(M.setPenUpPos if a[0] else M.setPenDownPos, (port, a[1], False), kw)
        elif k == "L_PenRate": _call(M.setPenUpRate if a[0] else M.setPenDownRate, (port, a[1], False), kw)
        elif k == "L_LayerVar": _call(M.setEBBLV, (port, a[0], False), kw)
        elif k == "L_ServoV": _call(M.servo_timeout, (port, a[3], a[4], False), kw)       # through the real version gate
        elif k == "L_Servo":
            # the version gate (C15) is not the subject here: let it pass
            orig = M.ebb_serial.min_version; M.ebb_serial.min_version = lambda p, v: True
            try: _call(M.servo_timeout, (port, a[0], a[1], False), kw)
            finally: M.ebb_serial.min_version = orig
    else:
        o = ebb3_motion.EBBMotionWrap(); o.port = port; o.version = "3.0.3"; o.version_parsed = ebb3_serial.parse("3.0.3")
        for ph in c.get("pre", []):          # earlier calls on the same object: not judged, only there to leave state behind
            if ph[0] == "E_Reconnect":
                o.disconnect(); o.port = port
            elif ph[0] == "E_SwapPort":
                # the application hands the object another (already open) port by plain assignment: later requests belong on that one
                old = port
                port = AckPort(False, c.get("delay", 0), c.get("blank", False), None, "0,0"); o.port = port
            else:
                _e_call(o, ph[0], ph[1:])
        if o.err is not None: return {"raise": "recorded error: %s" % o.err}
        del port.writes[:]
        _e_call(o, k, a, c.get("kw", False))
        if o.err is not None: return {"raise": "recorded error: %s" % o.err}
    out = []
    for d in port.writes:
        t = d.decode("latin-1")
        out.append(t[:-1] if t.endswith("\r") and not t.endswith("\r\r") else t + "<CR?>")
    return {"writes": out}

def _run_noport(k, a, legacy):
    """the helper with no port: legacy functions get None, the class layer an object that never connected"""
    if legacy:
        sent = []
        class Spy:                      # stands in for "no port" only in the sense that it must never be touched
            def write(self, d): sent.append(d); return len(d)
            def readline(self): sent.append(b"<read>"); return b""
        c2 = {"h": (k,) + tuple(a)}
        M = ebb_motion
        args = list(a)
        calls = {"L_XY": lambda: M.doXYMove(None, *args[:3]), "L_AB": lambda: M.doABMove(None, *args[:3]), "L_LM": lambda: M.doLowLevelMove(None, *args[:7]),
                 "L_Abs": lambda: M.doAbsMove(None, *args[:3]), "L_Pause": lambda: M.doTimedPause(None, args[0]), "L_MotorsOff": lambda: M.sendDisableMotors(None),
                 "L_Motors": lambda: M.sendEnableMotors(None, args[0]), "L_Pen": lambda: (M.sendPenUp if args[0] else M.sendPenDown)(None, args[1], args[2]),
                 "L_BConfig": lambda: M.PBOutConfig(None, args[0], args[1]), "L_BSet": lambda: M.PBOutValue(None, args[0], args[1]), "L_Toggle": lambda: M.TogglePen(None),
                 "L_PenPos": lambda: (M.setPenUpPos if args[0] else M.setPenDownPos)(None, args[1]), "L_PenRate": lambda: (M.setPenUpRate if args[0] else M.setPenDownRate)(None, args[1]),
                 "L_LayerVar": lambda: M.setEBBLV(None, args[0]), "L_Servo": lambda: M.servo_timeout(None, args[0], args[1])}
        calls[k]()
        return {"writes": [d.decode("latin-1") for d in sent]}
    o = ebb3_motion.EBBMotionWrap()          # port is None
    _e_call(o, k, a)
    return {"writes": []}

def _call(f, args, kw=False):
    """the same request with positional arguments, or with every argument passed by its documented keyword"""
    if not kw: return f(*args)
    names = [n for n in inspect.signature(f).parameters][:len(args)]
    return f(**dict(zip(names, args)))

def _e_call(o, k, a, kw=False):
    if True:
        if k == "E_XY": _call(o.xy_move, (a[0], a[1], a[2]), kw)
        elif k == "E_Abs": _call(o.abs_move, (a[0], a[1], a[2]), kw)
        elif k == "E_Pause": _call(o.timed_pause, (a[0],), kw)
        elif k == "E_MotorsOff": o.motors_disable()
        elif k in ("E_MotorsOn", "E_MotorsOnQ"): _call(o.motors_enable, (a[0], a[1]), kw)
        elif k == "E_Pen": _call(o.pen_raise if a[0] else o.pen_lower, (a[1], a[2]), kw)
        elif k == "E_BConfig": _call(o.dio_b_config, (a[0], a[1], a[2]), kw)
        elif k == "E_BSet": _call(o.dio_b_set, (a[0], a[1]), kw)
        elif k == "E_PenPos": _call(o.pen_pos_up if a[0] else o.pen_pos_down, (a[1],), kw)
        elif k == "E_PenRate": _call(o.pen_rate_up if a[0] else o.pen_rate_down, (a[1],), kw)
        elif k == "E_Servo": _call(o.servo_timeout, (a[0], a[1]), kw)
        elif k == "E_Var": _call(o.var_write, (a[0], a[1]), kw)
        elif k == "E_ClearSteps": o.clear_steps()
        elif k == "E_ClearAcc": o.clear_accumulators()

def _arg(x):
    if x is None: return "None"
    if isinstance(x, bool): return cb(x)
    return cz(x)
OPT = {"L_LM": [6], "L_Abs": [1, 2], "L_Pen": [2], "L_Servo": [1], "L_ServoV": [4], "E_Abs": [1, 2], "E_Pen": [2], "E_Servo": [1]}
def coq_case(c, r):
    h = c["h"]; k, a = h[0], h[1:]
    args = []
    for i, x in enumerate(a):
        if i in OPT.get(k, []): args.append(copt(x, cz))
        else: args.append(_arg(x))
    hs = "(%s %s)" % (k, " ".join(args)) if args else k
    if c.get("noport"): hs = "(NoPort %d)" % (sum(map(ord, k)) % 1000)
    impl = "None" if "raise" in r else "(Some %s)" % clist([ctext(w) for w in r["writes"]])
    return "(K06 %s %s %s)" % (cb(FX), hs, impl)

def nontrivial(c, r):
    h = c["h"]
    return any(x is None or x == 0 for x in h[1:]) or (h[0].endswith("Pause") and h[1] > 750)

def explain(c, r):
    return {"arguments_by_keyword": c.get("kw", False), "port": {"empty_reads_before_each_ack": c.get("delay", 0), "blank_line_before_each_ack": c.get("blank", False)}, "earlier_calls_on_the_same_object": [[str(x) for x in p] for p in c.get("pre", [])], "helper": [str(x) for x in c["h"]], "written": r.get("writes"), "raise": r.get("raise")}

def _zero_dropped(c, r):
    """finding class D5: an optional argument supplied as 0 is dropped by a truthiness test"""
    h = c["h"]; k = h[0]
    if k in ("L_Abs",): return (h[2] == 0 or h[3] == 0) and h[2] is not None and h[3] is not None
    if k in ("L_Pen", "E_Pen"): return h[3] == 0
    if k == "L_LM": return h[7] == 0
    return False
FINDING_CLASSES = {"optional_zero_argument_dropped_by_truthiness": _zero_dropped}

def shrink(c):
    h = list(c["h"])
    for i in range(1, len(h)):
        if isinstance(h[i], int) and not isinstance(h[i], bool) and abs(h[i]) > 9:
            g = list(h); g[i] = h[i] // 10; yield dict(c, h=tuple(g))
