"""Generators of firmware-valid LT and T3 moves (shared by C01, C02, C03, C17)."""
M = 2**31 - 1
B = 2**31

def tq(a, b):
    q = abs(a) // b
    return q if a >= 0 else -q

def pick_T(rng):
    r = rng.random()
    if r < 0.25: return rng.choice([1, 2, 3])
    if r < 0.55: return rng.randint(4, 400)
    if r < 0.8: return rng.randint(401, 2**20)
    if r < 0.95: return rng.randint(2**20, 2**32 - 1)
    return 2**32 - 1

def pick_acc(rng):
    r = rng.random()
    if r < 0.35: return None            # "clear"
    if r < 0.65: return rng.choice([0, 1, M, M - 1, B // 2])
    return rng.randint(0, M)

def lt_in_domain(rate, accel, T):
    r0 = rate - tq(accel, 2)
    return T >= 1 and -B <= r0 + accel <= M and -B <= r0 + accel * T <= M          # signed 32-bit: -2^31 .. 2^31-1

def gen_lt(rng):
    """(rate, accel, T) with |rate_k| <= 2^31-1 for k = 1..T; families hit the boundaries of the clear rule."""
    for _ in range(100):
        T = pick_T(rng)
        fam = rng.choice(["zero_first_tick", "edge", "small", "uniform", "const", "boundary_total", "double_band", "wide_accel"])
        if fam == "wide_accel":
            # an acceleration that does not fit in 32 bits (2^31 <= |accel| < 2^32) on a move of one or two ticks whose rates are in
            # range: the start rate has the opposite sign; even, odd and power-of-two values
            T = rng.choice([1, 1, 2])
            mag = rng.choice([B, B + 1, B + 2, 2 * M, 2 * M - 1, 2 * M - 2, rng.randint(B, 2 * M), 2 * rng.randint(B // 2, M)])
            accel = rng.choice([1, -1]) * mag
            sgn = 1 if accel > 0 else -1
            if T == 1: r1 = rng.randint(-M, M)
            else: r1 = -sgn * rng.randint(mag - M, M)            # r1 and r1 + accel both in range
            rate = r1 - accel + tq(accel, 2)
        elif fam == "double_band":
            # totals of 2^51 .. 2^55 accumulator units with half-integer intermediate terms (odd accel, odd tick count): the band in which
            # double-precision arithmetic starts to lose the last bit while the result still looks plausible
            T = rng.randint(2**19, 2**24) | rng.choice([1, 1, 1, 0])
            tot = int(2 ** rng.uniform(51, 55))
            rate = rng.choice([1, -1]) * min(M - 2**22, tot // T)
            accel = rng.choice([1, -1, 3, -3, 5, 7, -9, 11, -13, 2, 0, rng.randint(-99, 99)])
        elif fam == "const":
            accel = 0
            rate = rng.choice([0, 1, -1, M, -M, -B, rng.randint(-M, M)])
        elif fam == "small":
            accel = rng.randint(-9, 9); rate = rng.randint(-40, 40)
        else:
            r1 = rng.randint(-M, M) if fam != "edge" else rng.choice([M, -M, -B, M - 1, 0, 1, -1])
            rT = rng.randint(-M, M) if fam != "edge" else rng.choice([M, -M, -B, -B, 0, rng.randint(-M, M)])
            if T == 1:
                accel = rng.choice([rng.randint(-M, M), rng.randint(-9, 9)])
            else:
                accel = (rT - r1) // (T - 1)
                if rng.random() < 0.3: accel += rng.choice([-1, 1])
            if fam == "zero_first_tick":
                r1 = rng.choice([0, 0, 1, -1])
            r0 = r1 - accel
            rate = r0 + tq(accel, 2)
        if lt_in_domain(rate, accel, T):
            return rate, accel, T, fam
    return 5, 1, 3, "fallback"

def t3_rate(re, A, J, k):
    return re + A * k + J * k * (k - 1) // 2

def t3_in_domain(T, rate, accel, jerk):
    re = rate - tq(accel, 2) + tq(jerk, 6)
    if T < 1: return False
    # rates at 1, T and around the vertex; accel at 1..T
    ks = {1, T}
    if jerk != 0:
        f = (jerk - 2 * accel) // (2 * jerk)
        for k in (f - 1, f, f + 1, f + 2):
            ks.add(max(1, min(T, k)))
    if any(not (-B <= t3_rate(re, accel, jerk, k) <= M) for k in ks): return False          # signed 32-bit: -2^31 .. 2^31-1
    if not (-B <= accel <= M) or not (-B <= accel + jerk * T <= M): return False
    return True

def gen_t3(rng):
    """(T, rate, accel, jerk) in the firmware-valid domain; vertex families for the rate parabola."""
    for _ in range(200):
        T = pick_T(rng)
        fam = rng.choice(["small", "zero_jerk", "vertex_inside", "vertex_edge", "uniform", "zero_first", "zero_first_two", "equal_ends", "vertex_mid", "double_band", "zero_last", "top_rate", "zero_both_ends"])
        if fam == "double_band":
            # totals of 2^51 .. 2^55 with half- and sixth-integer intermediate terms (odd accel, jerk not a multiple of 6, odd tick count)
            T = rng.randint(2**19, 2**23) | rng.choice([1, 1, 1, 0])
            tot = int(2 ** rng.uniform(51, 55))
            rate = rng.choice([1, -1]) * min(M - 2**24, tot // T)
            accel = rng.choice([1, -1, 3, -3, 5, 7, -9, 11, 2, 0, rng.randint(-99, 99)])
            jerk = rng.choice([0, 0, 1, -1, 3, -3, 2, 5])
            if abs(jerk) * T * T > 2**24: jerk = 0
        elif fam == "top_rate":
            # rate in the top fifth of the signed 31-bit range, a few ticks, small odd accel / jerk not a multiple of 6: the half- and
            # sixth-integer corrections are tiny relative to the rate and must still be kept
            T = rng.randint(3, 40)
            jerk = rng.choice([1, -1, 2, -2, 4, -4, 5, -5, 7, -7, 0]); accel = rng.choice([0, 1, -1, 2, 3, -3, 10, 11])
            mag = rng.randint(1666666667, M) - abs(accel) * T - abs(jerk) * T * T
            rate = rng.choice([1, -1]) * mag
        elif fam == "zero_both_ends":
            # a short move that starts and ends at rest: the rate is 0 at the first and at the last tick and not in between
            # (a bump of 3 .. 8 ticks); the distance covered is the sum of the middle ticks
            T = rng.choice([3, 3, 4, 4, 5, 6, 8]); jerk = rng.choice([1, -1]) * rng.choice([2, 4, 6, 100, 2 * rng.randint(1, 10**8 // T)])
            accel = -(jerk * T) // 2
            rate = -accel + tq(accel, 2) - tq(jerk, 6)
        elif fam == "small":
            jerk = rng.randint(-12, 12); accel = rng.randint(-60, 60); rate = rng.randint(-500, 500)
        elif fam == "zero_jerk":
            rate, accel, T, _ = gen_lt(rng); jerk = 0
        else:
            # scale so that J*T^2/2 and A*T stay below 2^31
            jmax = max(1, min(M, (2 * M) // max(1, T * T)))
            jerk = rng.randint(-jmax, jmax) or rng.choice([-1, 1])
            if fam == "vertex_mid":
                # the vertex within a quarter tick of the middle of the move, on either side of T/2 and (T+1)/2 (which end is the farther one?)
                jerk = 4 * (jerk // 4 or 1)
                v4 = 2 * T + rng.choice([-1, 0, 1, 1, 2, 3])            # 4 * vertex
                accel = jerk * (2 - v4) // 4
            if fam == "equal_ends":
                # the rate returns to its starting magnitude at the last tick (vertex exactly mid-move): r(1) = r(T) needs A = -J*T/2,
                # r(1) = -r(T) needs 2*re = -(A*(T+1) + J*T*(T-1)/2)
                if (jerk * T) % 2: jerk *= 2
                accel = -(jerk * T) // 2 + rng.choice([0, 0, 0, 1, -1])
            if fam in ("vertex_inside", "vertex_edge", "zero_last"):
                # vertex v = 1/2 - A/J  ->  A = J*(1/2 - v)
                if fam == "vertex_edge":
                    v2 = rng.choice([3, 2, 4, 2 * T - 3, 2 * T - 4, 2 * T - 2, 1, 2 * T])      # 2v
                else:
                    v2 = rng.randint(2, max(2, 2 * T))
                accel = (jerk * (1 - v2)) // 2 + rng.choice([0, 0, 1, -1])
            elif fam not in ("vertex_mid", "equal_ends"):          # those two have fixed their acceleration above
                amax = max(1, min(M, M // max(1, T)))
                accel = rng.randint(-amax, amax)
            re_v = rng.randint(-M // 2, M // 2)
            if rng.random() < 0.12:            # the end-of-move rate lands exactly on an edge of the signed 32-bit range
                edge = rng.choice([-B, -B, M, -M, -B + 1]); re_v = edge - accel * T - jerk * T * (T - 1) // 2
            if fam == "equal_ends" and rng.random() < 0.4:
                tot = accel * (T + 1) + jerk * T * (T - 1) // 2
                if tot % 2 == 0: re_v = -tot // 2
            if fam == "zero_first":
                re_v = -accel
            if fam == "zero_last":             # the move ends at rest (rate exactly 0 at the last tick) with the vertex inside the move
                re_v = -accel * T - jerk * T * (T - 1) // 2
            if fam == "zero_first_two":
                re_v = -accel
                accel = -jerk; re_v = -accel
            rate = re_v + tq(accel, 2) - tq(jerk, 6)
        if t3_in_domain(T, rate, accel, jerk):
            return T, rate, accel, jerk, fam
    return 3, 5, 1, 1, "fallback"


def lt_total0(rate, accel, T):
    """accumulator total of an LT move started from accumulator 0"""
    r0 = rate - tq(accel, 2)
    return r0 * T + accel * T * (T + 1) // 2

def t3_total0(T, rate, accel, jerk):
    """accumulator total of a T3 move started from accumulator 0"""
    re = rate - tq(accel, 2) + tq(jerk, 6)
    return T * re + accel * (T * (T + 1) // 2) + jerk * ((T - 1) * T * (T + 1) // 6)

def boundary_acc(rng, total0):
    """an explicit starting accumulator that puts the final total on / next to a multiple of 2^31 (remainder 0, 1, 2^31-1, 2^31-2):
    the point where floor-divide and rounding must be done in the right order and at full precision"""
    m = rng.choice([0, 0, 1, M, M - 1])
    return (m - total0) % B


# ---- calling conventions and call history (shared by C01, C02, C03, C17) ----
import inspect
def call(f, args, kw=0):
    """kw = 0: positional; 1: the last argument by its keyword; 2: every argument by keyword"""
    names = [n for n in inspect.signature(f).parameters]
    if kw == 1 and len(args) >= 1:
        return f(*args[:-1], **{names[len(args) - 1]: args[-1]})
    if kw == 2:
        return f(**dict(zip(names, args)))
    return f(*args)

def sibling_acc(rng, acc):
    """a different starting accumulator for the same move (the earlier call of a planner that tries a move from two states)"""
    cands = [None, 0, 1, M, M - 1, B // 2, rng.randint(0, M)]
    cands = [a for a in cands if a != acc]
    return rng.choice(cands)


def set_ambient(k, v):
    """the numeric environment a caller may have set up before calling the library: mpmath's working precision (dps / prec), the
    decimal module's context precision; the predictions must not depend on any of it"""
    import mpmath, decimal
    if k == "decimal": decimal.getcontext().prec = v
    else: setattr(mpmath.mp, k, v)

def reset_ambient():
    import mpmath, decimal
    mpmath.mp.dps = 15; decimal.getcontext().prec = 28
