"""C01 move_dist_lt and its deprecated aliases = firmware recurrence (O(1) closed form, proved)."""
import mpmath
from common import cz, copt
from plotink import ebb_calc, ebb_motion
from props import ebbgen

import common
ID = "C01"
COQ_HEADER = "From Plotink Require Import Base.Prelude Corr.C01.\nOpen Scope Z_scope."
COQ_RUN = "run01"
COQ_CASE_TYPE = "case01"
RULE = ("firmware-valid (rate, accel, T, accumulator|clear): families zero first-tick rate, domain edge (+-(2^31-1)), small, constant rate, uniform; "
        "arguments positional / by keyword, alone or right after the same move evaluated from another accumulator state; T in {1,2,3, small, up to 2^32-1}; accumulator clear / {0,1,2^31-1,..} / random; each case is run under a random ambient mpmath precision "
        "(dps 5/15/30/50 or prec 7) and through move_dist_lt, moveDistLMA or moveDistLM; non-trivial = T >= 2 and accel != 0")
TRUSTED = ["mpmath at 30 digits and Python float division are exact on the firmware-valid domain (all intermediates are half-integers below 2^99): argued in DESIGN.md, sampled here"]
ASSUMPTIONS = ["|rate_k| <= 2^31-1 for k = 1..T, 1 <= T < 2^32, accumulator in [0, 2^31) or clear"]
AMBIENT = [("dps", 5), ("dps", 15), ("dps", 30), ("dps", 50), ("prec", 7), ("prec", 200), ("decimal", 9), ("decimal", 4)]

def generate(rng, tier):
    n = 1500 if tier == "quick" else 40000
    cases = []
    for _ in range(n):
        rate, accel, T, fam = ebbgen.gen_lt(rng)
        acc = ebbgen.pick_acc(rng)
        entry = rng.choice([0, 0, 0, 1, 2])
        if entry == 2: acc = 0
        elif rng.random() < 0.15:
            acc = ebbgen.boundary_acc(rng, ebbgen.lt_total0(rate, accel, T)); fam += "/total-on-step-boundary"
        c = {"entry": entry, "rate": rate, "accel": accel, "T": T, "acc": acc, "amb": rng.randrange(len(AMBIENT)), "family": fam}
        r = rng.random()
        if r < 0.12 and entry != 2:
            # the same move was evaluated a moment ago from another accumulator state (arguments by keyword or not): results must not be mixed up
            c["pre"] = [ebbgen.sibling_acc(rng, acc) for _ in range(rng.choice([1, 1, 2]))]; c["kw"] = rng.choice([0, 1, 1, 2]); c["family"] += "/after-sibling-call"
        elif r < 0.22 and entry != 2:
            c["kw"] = rng.choice([1, 2]); c["family"] += "/keyword-arguments"
        cases.append(c)
    # creeping moves (less than a step of travel: |rate| * T and |accel| * T^2 below 2^31, odd accel and odd T so that the sums end in .5)
    # from an accumulator so nearly full - or so nearly empty, going backward - that the running total crosses a step boundary all the same
    for _ in range(60 if tier == "quick" else 3000):
        T = rng.choice([1, 3, 3, 5, 7, 9, 21, 99, 1001]); bits = rng.randint(3, 30)
        rate = rng.choice([1, -1]) * rng.randint(0, max(1, (2**bits) // T))
        accel = rng.choice([1, -1]) * (2 * rng.randint(0, max(0, (2**bits) // (2 * T * T))) + 1)
        if not ebbgen.lt_in_domain(rate, accel, T): continue
        tot = ebbgen.lt_total0(rate, accel, T)
        if tot > 0: acc = ebbgen.B - rng.randint(1, tot)
        elif tot < 0: acc = rng.randint(0, -tot - 1)
        else: acc = rng.choice([0, ebbgen.M])
        if not 0 <= acc <= ebbgen.M: continue
        cases.append({"entry": rng.choice([0, 0, 1]), "rate": rate, "accel": accel, "T": T, "acc": acc, "amb": rng.randrange(len(AMBIENT)), "family": "creeping-move-across-a-step-boundary"})
    for _ in range(30 if tier == "quick" else 1000):
        # two moves that differ in one argument only, -1 against -2 (equal hashes in CPython) or neighbouring small values
        rate, accel, T, fam = ebbgen.gen_lt(rng)
        f = rng.choice(["rate", "accel"]); a, b = rng.choice([(-1, -2), (-2, -1), (0, 1), (1, 2)])
        base = {"rate": rate, "accel": accel, "T": T}; base[f] = a
        if not ebbgen.lt_in_domain(base["rate"], base["accel"], base["T"]): continue
        cases.append(dict(base, entry=rng.choice([0, 0, 1]), acc=ebbgen.pick_acc(rng), amb=rng.randrange(len(AMBIENT)), over=[{f: b}], kw=rng.choice([0, 0, 2]),
                          family="after-call-differing-in-one-argument/%s" % f))
    return cases

def _clear(c):
    """the request for a cleared accumulator: the literal, or an equal string built at run time (what a caller reading it from a file or a
    command line passes: equal to "clear" but a different object)"""
    return "clear" if (c["rate"] + c["accel"]) % 2 else "".join(("cle", "ar"))

def _once(c, acc_v, kw):
    acc = _clear(c) if acc_v is None else acc_v
    if c["entry"] == 0 and acc_v is None and c["T"] % 3 == 0 and kw != 1: return ebbgen.call(ebb_calc.move_dist_lt, (c["rate"], c["accel"], c["T"]), kw)      # argument omitted: the documented default is "clear"
    if c["entry"] == 0: return ebbgen.call(ebb_calc.move_dist_lt, (c["rate"], c["accel"], c["T"], acc), kw)
    if c["entry"] == 1: return ebbgen.call(ebb_motion.moveDistLMA, (c["rate"], c["accel"], c["T"], acc), kw)
    return ebbgen.call(ebb_motion.moveDistLM, (c["rate"], c["accel"], c["T"]), 2 if kw else 0), 0

def run_impl(c):
    k, v = AMBIENT[c["amb"]]
    kw = c.get("kw", 0)
    try:
        for ov in c.get("over", []):
            ebbgen.set_ambient(k, v)
            try: _once(dict(c, **ov), c["acc"], kw)
            except Exception: pass
        for a0 in c.get("pre", []):
            ebbgen.set_ambient(k, v)
            _once(c, a0, kw)
        ebbgen.set_ambient(k, v)
        p, a = _once(c, c["acc"], kw)
    finally:
        ebbgen.reset_ambient()
    return {"pos": int(p), "acc": int(a)}

def coq_case(c, r):
    if "raise" in r:
        return "(K01 %s %s %s %s %s %s %s)" % (cz(0), cz(c["rate"]), cz(c["accel"]), cz(c["T"]), copt(c["acc"], cz), cz(-(2**200)), cz(-1))
    return "(K01 %s %s %s %s %s %s %s)" % (cz(c["entry"]), cz(c["rate"]), cz(c["accel"]), cz(c["T"]), copt(c["acc"], cz), cz(r["pos"]), cz(r["acc"]))

def nontrivial(c, r):
    return c["T"] >= 2 and c["accel"] != 0

def shrink(c):
    for key in ("T", "rate", "accel"):
        v = c[key]
        for nv in (v // 2, v - 1 if v > 0 else v + 1, 1 if key == "T" else 0):
            d = dict(c); d[key] = nv
            if nv != v and ebbgen.lt_in_domain(d["rate"], d["accel"], d["T"]):
                yield d
    if c["acc"] not in (None, 0) and c["entry"] != 2:
        yield dict(c, acc=0)


def static_obligations(work, tier):
    """the predictor is re-translated from /repo's source on every run (integer/rational mode, mpmath calls read as exact arithmetic)
    and proved equal to the model the theorems are about"""
    return common.kernel_obligations(work, ID, "plotink/ebb_calc.py", ['move_dist_lt'], mode="zq") + common.rounding_obligation(work, ID, (103,))
