"""C08 plot_utils.clip_segment (Cohen-Sutherland) = segment ∩ rectangle."""
from fractions import Fraction as F
from common import cq, cb
from plotink import plot_utils

import common
ID = "C08"
COQ_HEADER = "From Plotink Require Import Base.Prelude Model.Clip Corr.C08.\nOpen Scope Q_scope."
COQ_RUN = "run08"
COQ_CASE_TYPE = "case08"
SHARD = 300
RULE = ("segments whose endpoints are drawn from all 9x9 region pairs around the rectangle (inside, beyond one edge, beyond a corner, exactly on an edge / corner), "
        "on small integer, half-integer, random rational, large (1e15) and tiny (2^-30) grids; degenerate (zero-length, vertical, horizontal) segments, "
        "zero-area rectangles; the same shapes scaled to 2^+-520 .. 2^+-1000; float segments nearly parallel to an edge with 0-3 ulps of extent across it; arguments as nested lists or nested tuples, and (lists) the same segment object clipped twice; each case is run on Fractions (compared exactly with the model and the exact spec) and on floats (judged by the sandwich checker "
        "with eps = 1e-9 x coordinate scale); non-trivial = at least one endpoint outside the rectangle")
TRUSTED = ["python Fraction arithmetic = exact rational arithmetic", "the float judgement (sandwich checker in Corr/C08.v): its exact reference interval is proved correct (C08_reference_interval); the eps-arithmetic around it is an executable specification"]
ASSUMPTIONS = ["finite coordinates; xmin <= xmax and ymin <= ymax"]

def _coord(rng, lo, hi, unit, region):
    """a coordinate in region -1 (below lo), 0 (inside, incl. the edges), +1 (above hi)"""
    span = max(hi - lo, unit)
    if region < 0: return lo - unit * rng.randint(1, 6)
    if region > 0: return hi + unit * rng.randint(1, 6)
    k = rng.random()
    if k < 0.2: return lo
    if k < 0.4: return hi
    return lo + (hi - lo) * F(rng.randint(0, 8), 8)

def generate(rng, tier):
    n = 700 if tier == "quick" else 30000
    cases = [{"seg": [F(-2), F(-6), F(12), F(15)], "rect": [F(0), F(10), F(0), F(10)], "exact": True, "family": "four-clips"}]
    for _ in range(n):
        mode = rng.choice(["int", "half", "rat", "large", "tiny"])
        unit = {"int": F(1), "half": F(1, 2), "rat": F(rng.randint(1, 97), rng.randint(1, 89)), "large": F(10**15, 7), "tiny": F(1, 2**30)}[mode]
        xmin = unit * rng.randint(-5, 5); ymin = unit * rng.randint(-5, 5)
        w = unit * rng.choice([0, 1, 2, 3, 8, 10]); h = unit * rng.choice([0, 1, 2, 5, 8, 10])
        xmax, ymax = xmin + w, ymin + h
        r1 = (rng.choice([-1, 0, 1]), rng.choice([-1, 0, 1])); r2 = (rng.choice([-1, 0, 1]), rng.choice([-1, 0, 1]))
        x1 = _coord(rng, xmin, xmax, unit, r1[0]); y1 = _coord(rng, ymin, ymax, unit, r1[1])
        x2 = _coord(rng, xmin, xmax, unit, r2[0]); y2 = _coord(rng, ymin, ymax, unit, r2[1])
        k = rng.random()
        if k < 0.06: x2, y2 = x1, y1
        elif k < 0.12: x2 = x1
        elif k < 0.18: y2 = y1
        elif k < 0.24:            # through a corner exactly
            cx, cy = rng.choice([(xmin, ymin), (xmax, ymax), (xmin, ymax), (xmax, ymin)]); dx, dy = unit * rng.randint(1, 4), unit * rng.randint(-4, 4)
            x1, y1, x2, y2 = cx - dx, cy - dy, cx + dx, cy + dy
        fam = "%s/%d%d-%d%d" % (mode, r1[0], r1[1], r2[0], r2[1])
        c = {"seg": [x1, y1, x2, y2], "rect": [xmin, xmax, ymin, ymax], "family": fam}
        cases.append(dict(c, exact=True))
        if rng.random() < 0.6:
            cases.append(dict(c, exact=False, family=fam + "/float"))
    # precision limit: float segments aimed at a corner of a rectangle with generic float corners; those for which the clip against one
    # edge lands an ulp outside the adjacent edge make the loop run to its failsafe (selected here by counting the passes of a plain
    # float Cohen-Sutherland loop - a selection of inputs only, the judgement is the exact one)
    want = 12 if tier == "quick" else 200
    tries = 0
    while want > 0 and tries < 60000:
        tries += 1
        xmin, ymin = rng.choice([0.1, 1 / 7, 1 / 3, 0.7, -0.3]), rng.choice([0.1, 1 / 7, 1 / 3, -1 / 9])
        xmax, ymax = xmin + rng.choice([8.5, 3.3, 1 / 3 + 7]), ymin + rng.choice([1.0, 2.7, 5.1])
        cx, cy = rng.choice([(xmin, ymin), (xmax, ymax), (xmin, ymax), (xmax, ymin)])
        dx, dy = rng.uniform(-3, 3), rng.uniform(-7, 7)
        t1, t2 = rng.uniform(0.1, 1.0), rng.uniform(0.1, 1.0)
        seg = [cx - t1 * dx, cy - t1 * dy, cx + t2 * dx, cy + t2 * dy]
        if _passes(seg, (xmin, xmax, ymin, ymax)) >= 4:
            want -= 1
            cases.append({"seg": [F(v) for v in seg], "rect": [F(xmin), F(xmax), F(ymin), F(ymax)], "exact": False, "family": "precision-limit/through-corner", "style": 0})
    # the same shapes at the ends of the double range (coordinates of 2^+-520 .. 2^+-1000: products of two coordinates overflow or
    # underflow, quotients do not): clipping is scale-free, the answer must scale with the input
    for _ in range(12 if tier == "quick" else 600):
        k = rng.choice([520, 600, 900, 1000, -520, -600, -900, -1000, 511, -537])
        sc = F(2) ** k if k > 0 else F(1, 2 ** (-k))
        xmin, ymin = rng.randint(-5, 5), rng.randint(-5, 5); xmax, ymax = xmin + rng.choice([1, 2, 8, 10]), ymin + rng.choice([1, 2, 5, 10])
        r1 = (rng.choice([-1, 0, 1]), rng.choice([-1, 0, 1])); r2 = (rng.choice([-1, 0, 1]), rng.choice([-1, 0, 1]))
        x1 = _coord(rng, F(xmin), F(xmax), F(1), r1[0]); y1 = _coord(rng, F(ymin), F(ymax), F(1), r1[1])
        x2 = _coord(rng, F(xmin), F(xmax), F(1), r2[0]); y2 = _coord(rng, F(ymin), F(ymax), F(1), r2[1])
        cases.append({"seg": [v * sc for v in (x1, y1, x2, y2)], "rect": [F(v) * sc for v in (xmin, xmax, ymin, ymax)], "exact": False,
                      "family": "extreme-scale/2^%d" % k, "style": rng.choice([0, 1, 2])})
    # float segments nearly parallel to an edge of the rectangle, 0-3 ulps of extent across it, lying on / straddling / next to that edge
    # and leaving the rectangle along it: whatever formula computes the new vertex, it must stay on the input segment
    import math
    def ulps(v, k):
        for _ in range(abs(k)): v = math.nextafter(v, math.inf if k > 0 else -math.inf)
        return v
    for _ in range(40 if tier == "quick" else 1500):
        xmin, ymin = rng.choice([0.0, 0.1, -3.7, 1 / 3]), rng.choice([0.0, 0.25, -1.1])
        xmax, ymax = rng.choice([300.0, 430.0, 500.0, 11.81, 1023.5, 7.3]), rng.choice([200.0, 8.58, 299.99, 64.0, 5.1])
        if xmax <= xmin or ymax <= ymin: continue
        vertical = rng.random() < 0.5
        edge = rng.choice([xmin, xmax]) if vertical else rng.choice([ymin, ymax])
        a = ulps(edge, rng.choice([0, 0, 1, -1, 2, -2])); b = ulps(a, rng.choice([1, -1, 2, -2, 3, 0]))
        lo, hi = (ymin, ymax) if vertical else (xmin, xmax)
        span = hi - lo
        u1 = rng.choice([lo + span * rng.uniform(0.05, 0.95), lo - span * rng.uniform(0.1, 2), hi + span * rng.uniform(0.1, 2)])
        u2 = rng.choice([lo + span * rng.uniform(0.05, 0.95), lo - span * rng.uniform(0.1, 2), hi + span * rng.uniform(0.1, 2), hi + 50.0, lo - 50.0])
        seg = [a, u1, b, u2] if vertical else [u1, a, u2, b]
        cases.append({"seg": [F(v) for v in seg], "rect": [F(xmin), F(xmax), F(ymin), F(ymax)], "exact": False,
                      "family": "nearly-parallel-to-edge/%s" % ("vertical" if vertical else "horizontal"), "style": rng.choice([0, 1, 2])})
    # one bounds list edited in place between two calls (a page resized by the application), the same segment both times
    for c in list(cases):
        if rng.random() < 0.12:
            xmin, xmax, ymin, ymax = c["rect"]; w = xmax - xmin; h = ymax - ymin; u = max(w, h, F(1))
            prev = rng.choice([[xmin, xmax + u, ymin, ymax + u], [xmin - u, xmax, ymin - u, ymax], [xmin, xmin + w / 2, ymin, ymin + h / 2], [xmin + u, xmax + 2 * u, ymin, ymax]])
            cases.append(dict(c, prev_rect=prev, style=0, family=c["family"] + "/bounds-edited-in-place"))
    # an earlier call in the same process on different numbers with equal hashes (hash(-1) == hash(-2), ints and floats alike; hash(n) ==
    # hash(n + 2^61 - 1)): the answer belongs to the arguments of this call
    P = 2**61 - 1
    for _ in range(40 if tier == "quick" else 1200):
        kind = rng.choice(["neg", "neg", "neg", "mod"])
        lo2, hi2 = F(rng.choice([-1, -2, -4, 0])), F(rng.randint(2, 6))
        if kind == "neg":
            a = F(rng.choice([-1, -2])); hi = F(rng.randint(2, 6))
            t1, t2 = F(rng.randint(0, 2)), F(rng.randint(0, 2))
            swap = lambda v: F(-2) if v == -1 else F(-1) if v == -2 else v
            if rng.random() < 0.5: rect = [a, hi, lo2, hi2]; seg = [F(-5), t1, F(5), t2]
            else: rect = [lo2, hi2, a, hi]; seg = [t1, F(-5), t2, F(5)]
            if rng.random() < 0.3: seg = seg[2:] + seg[:2]
            pre = ([swap(v) for v in seg], [swap(v) for v in rect]); exact = rng.random() < 0.5
        else:
            k = rng.randint(1, 9); big = rng.random() < 0.5
            rect = [F(0), F(k + P if big else k), lo2, hi2]; seg = [F(-3), F(1), F(k + 7), F(1)]
            pre = (list(seg), [F(0), F(k if big else k + P), lo2, hi2]); exact = True
        cases.append({"seg": seg, "rect": rect, "exact": exact, "pre": pre, "style": rng.choice([0, 2]), "family": "after-a-call-on-hash-equal-numbers/" + kind})
    return cases

def _passes(seg, rect):
    """number of clipping passes a plain float Cohen-Sutherland loop makes (capped at 6); used only to pick inputs"""
    x1, y1, x2, y2 = seg; xmin, xmax, ymin, ymax = rect
    def code(x, y): return (x < xmin) | ((x > xmax) << 1) | ((y < ymin) << 2) | ((y > ymax) << 3)
    for it in range(6):
        c1, c2 = code(x1, y1), code(x2, y2)
        if (c1 == 0 and c2 == 0) or (c1 & c2): return it
        c = c1 or c2
        try:
            if c & 1: y, x = y1 + (y2 - y1) * (xmin - x1) / (x2 - x1), xmin
            elif c & 2: y, x = y1 + (y2 - y1) * (xmax - x1) / (x2 - x1), xmax
            elif c & 4: x, y = x1 + (x2 - x1) * (ymin - y1) / (y2 - y1), ymin
            else: x, y = x1 + (x2 - x1) * (ymax - y1) / (y2 - y1), ymax
        except ZeroDivisionError:
            return it
        if c == c1: x1, y1 = x, y
        else: x2, y2 = x, y
    return 6

def run_impl(c):
    conv = (lambda v: v) if c["exact"] else float
    x1, y1, x2, y2 = [conv(v) for v in c["seg"]]
    xmin, xmax, ymin, ymax = [conv(v) for v in c["rect"]]
    # the arguments are sequences of sequences: lists in two thirds of the cases, tuples (which the code accepts just as well) in the
    # rest; with lists, the same segment object is then clipped against the same rectangle a second time and must give the same
    # answer (the caller's segment is an input, not a scratch area)
    style = (hash((str(c["seg"]), str(c["rect"]))) % 3) if "style" not in c else c["style"]
    mk = (lambda a, b: (a, b)) if style == 2 else (lambda a, b: [a, b])
    segment = mk(mk(x1, y1), mk(x2, y2)); bounds = mk(mk(xmin, ymin), mk(xmax, ymax))
    if "pre" in c:
        ps, pr = c["pre"]; ps = [conv(v) for v in ps]; pr = [conv(v) for v in pr]
        try: plot_utils.clip_segment(mk(mk(ps[0], ps[1]), mk(ps[2], ps[3])), mk(mk(pr[0], pr[2]), mk(pr[1], pr[3])))
        except Exception: pass
    if "prev_rect" in c:
        # the application keeps one bounds list and edits it in place (the page was resized): the same segment was clipped against the
        # old values a moment ago; the answer now is the one for the values the list holds now
        pxmin, pxmax, pymin, pymax = [conv(v) for v in c["prev_rect"]]
        bounds = [[pxmin, pymin], [pxmax, pymax]]
        try: plot_utils.clip_segment([[x1, y1], [x2, y2]], bounds)
        except Exception: pass
        bounds[0][0], bounds[0][1], bounds[1][0], bounds[1][1] = xmin, ymin, xmax, ymax
        segment = [[x1, y1], [x2, y2]]
    acc, seg = plot_utils.clip_segment(segment, bounds)
    out = {"accept": bool(acc), "seg": [F(seg[0][0]), F(seg[0][1]), F(seg[1][0]), F(seg[1][1])]}
    if style == 1:
        acc2, seg2 = plot_utils.clip_segment(segment, bounds)
        again = {"accept": bool(acc2), "seg": [F(seg2[0][0]), F(seg2[0][1]), F(seg2[1][0]), F(seg2[1][1])]}
        if [F(v) for p in segment for v in p] != [F(x1), F(y1), F(x2), F(y2)] and again != out:
            return {"raise": "CallerSegmentOverwritten", "msg": "second call on the same segment object returned %r, first %r" % (again, out)}
    return out

def _st(v):
    return "(mkst %s %s %s %s)" % tuple(cq(F(x)) for x in v)

def coq_case(c, r):
    conv = (lambda v: v) if c["exact"] else (lambda v: F(float(v)))
    seg = [conv(v) for v in c["seg"]]; rect = [conv(v) for v in c["rect"]]
    impl = "None" if "raise" in r else "(Some (%s, %s))" % (cb(r["accept"]), _st(r["seg"]))
    return "(K08 %s %s %s %s %s %s %s)" % (cb(c["exact"]), _st(seg), cq(rect[0]), cq(rect[1]), cq(rect[2]), cq(rect[3]), impl)

def nontrivial(c, r):
    x1, y1, x2, y2 = c["seg"]; xmin, xmax, ymin, ymax = c["rect"]
    ins = lambda x, y: xmin <= x <= xmax and ymin <= y <= ymax
    return not (ins(x1, y1) and ins(x2, y2))

def explain(c, r):
    return {"segment": [str(v) for v in c["seg"]], "rect(xmin,xmax,ymin,ymax)": [str(v) for v in c["rect"]], "exact_run": c["exact"],
            "implementation": {"accept": r.get("accept"), "segment": [str(v) for v in r.get("seg", [])]} if "raise" not in r else r}

def shrink(c):
    for i in range(4):
        for nv in (F(round(c["seg"][i])), F(0)):
            if nv != c["seg"][i]:
                s = list(c["seg"]); s[i] = nv; yield dict(c, seg=s)


def static_obligations(work, tier):
    """the loop-free kernels are re-translated from /repo's source on every run and proved equal to the hand model"""
    return common.kernel_obligations(work, ID, "plotink/plot_utils.py", ['clip_code'])
